import Ufo2ftModel.Spec.C06
/-! C06, part 1: facts about parseAnchorName (model `parseChars` / `parseAnchor`). -/
namespace Ufo2ft.C06
open List

theorem mem_takeWhile_imp {α} {p : α → Bool} {l : List α} {a : α} (h : a ∈ l.takeWhile p) : p a = true := by
  induction l with
  | nil => simp at h
  | cons b l ih =>
    by_cases hb : p b = true
    · rw [takeWhile_cons_of_pos hb] at h
      rcases mem_cons.mp h with rfl | h
      · exact hb
      · exact ih h
    · rw [takeWhile_cons_of_neg hb] at h; simp at h

theorem takeWhile_all_then {α} {p : α → Bool} (l₁ : List α) (x : α) (l₂ : List α)
    (h1 : ∀ a ∈ l₁, p a = true) (hx : ¬ p x = true) : (l₁ ++ x :: l₂).takeWhile p = l₁ := by
  rw [takeWhile_append_of_pos h1, takeWhile_cons_of_neg hx, append_nil]

theorem dropWhile_all_then {α} {p : α → Bool} (l₁ : List α) (x : α) (l₂ : List α)
    (h1 : ∀ a ∈ l₁, p a = true) (hx : ¬ p x = true) : (l₁ ++ x :: l₂).dropWhile p = x :: l₂ := by
  rw [dropWhile_append_of_pos h1, dropWhile_cons_of_neg hx]

theorem drop_takeWhile_length {α} (p : α → Bool) (l : List α) : l.drop (l.takeWhile p).length = l.dropWhile p := by
  induction l with
  | nil => rfl
  | cons a l ih =>
    by_cases h : p a = true
    · rw [takeWhile_cons_of_pos h, dropWhile_cons_of_pos h]; simpa using ih
    · rw [takeWhile_cons_of_neg h, dropWhile_cons_of_neg h]; rfl

/-- a name of the shape  p ++ "_" ++ digits  (digits non-empty) -/
def SepDigits (cs p ds : List Char) : Prop := ds ≠ [] ∧ (∀ c ∈ ds, c.isDigit = true) ∧ cs = p ++ '_' :: ds

theorem us_not_digit : ¬ Char.isDigit '_' = true := by decide

/-- what the reversed scan sees on a name of that shape -/
theorem scan_of_sepDigits {cs p ds : List Char} (h : SepDigits cs p ds) :
    cs.reverse.takeWhile Char.isDigit = ds.reverse ∧ cs.reverse.dropWhile Char.isDigit = '_' :: p.reverse := by
  obtain ⟨_, hd, rfl⟩ := h
  have e : (p ++ '_' :: ds).reverse = ds.reverse ++ '_' :: p.reverse := by simp
  rw [e]
  have hd' : ∀ c ∈ ds.reverse, c.isDigit = true := fun c hc => hd c (mem_reverse.mp hc)
  exact ⟨takeWhile_all_then _ _ _ hd' us_not_digit, dropWhile_all_then _ _ _ hd' us_not_digit⟩

/-- conversely, the scan determines the shape -/
theorem sepDigits_of_scan {cs k : List Char} (hne : cs.reverse.takeWhile Char.isDigit ≠ [])
    (hd : cs.reverse.dropWhile Char.isDigit = '_' :: k) :
    SepDigits cs k.reverse (cs.reverse.takeWhile Char.isDigit).reverse := by
  refine ⟨by simpa using hne, fun c hc => mem_takeWhile_imp (mem_reverse.mp hc), ?_⟩
  have h := takeWhile_append_dropWhile (p := Char.isDigit) (l := cs.reverse)
  rw [hd] at h
  generalize cs.reverse.takeWhile Char.isDigit = tw at h
  have h2 := congrArg List.reverse h
  rw [reverse_reverse] at h2
  rw [← h2]; simp

theorem ligSplit_of_sepDigits {cs p ds : List Char} (h : SepDigits cs p ds) :
    ligSplit cs = (p, some (digitsToNat ds)) := by
  obtain ⟨h1, h2⟩ := scan_of_sepDigits h
  have hne : ds.reverse ≠ [] := by simpa using h.1
  simp only [ligSplit, h1, h2, ligSplitAux, reverse_reverse]
  simp [hne]

theorem ligSplit_some {cs k : List Char} {n : Nat} (h : ligSplit cs = (k, some n)) :
    ∃ ds, SepDigits cs k ds ∧ digitsToNat ds = n := by
  unfold ligSplit at h
  cases hd : cs.reverse.dropWhile Char.isDigit with
  | nil => rw [hd] at h; simp [ligSplitAux] at h
  | cons c r =>
    rw [hd] at h
    simp only [ligSplitAux] at h
    split at h
    · rename_i hc
      obtain ⟨rfl, hne⟩ := hc
      simp only [Prod.mk.injEq, Option.some.injEq] at h
      obtain ⟨rfl, rfl⟩ := h
      exact ⟨_, sepDigits_of_scan hne hd, rfl⟩
    · simp at h

theorem ligSplit_none {cs k : List Char} (h : ligSplit cs = (k, none)) : k = cs := by
  unfold ligSplit at h
  cases hd : cs.reverse.dropWhile Char.isDigit with
  | nil => rw [hd] at h; simp [ligSplitAux] at h; exact h.symm
  | cons c r =>
    rw [hd] at h
    simp only [ligSplitAux] at h
    split at h
    · simp at h
    · simp at h; exact h.symm

theorem ligSplit_cases (cs : List Char) :
    (ligSplit cs = (cs, none) ∧ ∀ p ds, ¬ SepDigits cs p ds) ∨ (∃ p ds, SepDigits cs p ds ∧ ligSplit cs = (p, some (digitsToNat ds))) := by
  by_cases h : ∃ p ds, SepDigits cs p ds
  · obtain ⟨p, ds, h⟩ := h
    exact Or.inr ⟨p, ds, h, ligSplit_of_sepDigits h⟩
  · left
    refine ⟨?_, fun p ds hh => h ⟨p, ds, hh⟩⟩
    cases hs : ligSplit cs with
    | mk k n =>
      cases n with
      | none => rw [ligSplit_none hs]
      | some n => obtain ⟨ds, hh, _⟩ := ligSplit_some hs; exact absurd ⟨k, ds, hh⟩ h

theorem endsSepDigits_iff (k : List Char) : endsSepDigits k = true ↔ ∃ p ds, SepDigits k p ds := by
  constructor
  · intro h
    simp only [endsSepDigits, Bool.and_eq_true, Bool.not_eq_true', beq_iff_eq] at h
    obtain ⟨h1, h2⟩ := h
    have hne : k.reverse.takeWhile Char.isDigit ≠ [] := by
      intro e; rw [e] at h1; simp at h1
    cases hr : k.reverse.dropWhile Char.isDigit with
    | nil => rw [hr] at h2; simp at h2
    | cons c r =>
      rw [hr] at h2; simp at h2; subst h2
      exact ⟨_, _, sepDigits_of_scan hne hr⟩
  · rintro ⟨p, ds, h⟩
    obtain ⟨h1, h2⟩ := scan_of_sepDigits h
    have hne : ds ≠ [] := h.1
    simp only [endsSepDigits, h2, h1]
    simp [hne]

theorem sepDigits_cons {k p ds : List Char} (c : Char) (h : SepDigits k p ds) : SepDigits (c :: k) (c :: p) ds :=
  ⟨h.1, h.2.1, by rw [h.2.2]; rfl⟩


/-! ### character facts -/
theorem alpha_not_digit (c : Char) (h : c.isAlpha = true) : c.isDigit = false := by
  simp only [Char.isAlpha, Char.isUpper, Char.isLower, Char.isDigit, Bool.or_eq_true, Bool.and_eq_true, decide_eq_true_eq,
    Bool.and_eq_false_iff, decide_eq_false_iff_not] at *
  simp only [UInt32.le_iff_toNat_le] at *
  simp at *
  omega
theorem alpha_ne_us (c : Char) (h : c.isAlpha = true) : c ≠ '_' := by
  intro e; subst e; revert h; decide
theorem alpha_ne_star (c : Char) (h : c.isAlpha = true) : c ≠ '*' := by
  intro e; subst e; revert h; decide

/-- the key starts with a letter -/
def HeadAlpha (k : List Char) : Prop := ∃ c r, k = c :: r ∧ c.isAlpha = true

theorem headAlpha_of_not_ignorable {k : List Char} (h : keyIgnorable k = false) (hne : k ≠ []) : HeadAlpha k := by
  cases k with
  | nil => exact absurd rfl hne
  | cons c r => exact ⟨c, r, rfl, by simpa [keyIgnorable] using h⟩

theorem plainKey_iff (k : List Char) : plainKey k = true ↔ HeadAlpha k ∧ ¬ ∃ p ds, SepDigits k p ds := by
  cases k with
  | nil => simp [plainKey, HeadAlpha]
  | cons c r =>
    simp only [plainKey, Bool.and_eq_true, Bool.not_eq_true']
    rw [← endsSepDigits_iff]
    constructor
    · rintro ⟨h1, h2⟩; exact ⟨⟨c, r, rfl, h1⟩, by simp [h2]⟩
    · rintro ⟨⟨c', r', e, h1⟩, h2⟩
      cases e
      exact ⟨h1, by simpa using h2⟩

theorem isLigName_of_sepDigits {cs k ds : List Char} (h : SepDigits cs k ds) : isLigName k (digitsToNat ds) cs = true := by
  obtain ⟨hne, hd, rfl⟩ := h
  have e : k ++ '_' :: ds = (k ++ ['_']) ++ ds := by simp
  have hdrop : (k ++ '_' :: ds).drop (k.length + 1) = ds := by
    rw [e]; simp
  simp only [isLigName, hdrop, Bool.and_eq_true, Bool.not_eq_true', beq_iff_eq, all_eq_true]
  refine ⟨⟨⟨?_, by simpa using hne⟩, hd⟩, trivial⟩
  rw [isPrefixOf_iff_prefix, e]; exact prefix_append _ _

theorem sepDigits_of_isLigName {cs k : List Char} {n : Nat} (h : isLigName k n cs = true) :
    ∃ ds, SepDigits cs k ds ∧ digitsToNat ds = n := by
  simp only [isLigName, Bool.and_eq_true, Bool.not_eq_true', beq_iff_eq, all_eq_true] at h
  obtain ⟨⟨⟨h1, h2⟩, h3⟩, h4⟩ := h
  rw [isPrefixOf_iff_prefix] at h1
  obtain ⟨t, rfl⟩ := h1
  have hdrop : ((k ++ ['_']) ++ t).drop (k.length + 1) = t := by
    simp
  rw [hdrop] at h2 h3 h4
  exact ⟨t, ⟨by simpa using h2, h3, by simp⟩, h4⟩

/-! ### what a successfully parsed, non-contextual, non-ignorable name looks like -/

theorem parseCore_shape {cs : List Char} {ctx : Bool} {p : Parsed}
    (h : checkE (parseCore cs ctx) = .ok p)
    (hign : keyIgnorable p.key = false) :
    p.ctx = ctx ∧
    (p.isMark = true → cs = '_' :: p.key ∧ plainKey p.key = true ∧ p.number = none) ∧
    (p.isMark = false → p.number = none → cs = p.key ∧ HeadAlpha p.key) ∧
    (p.isMark = false → ∀ n, p.number = some n → 1 ≤ n ∧ isLigName p.key n cs = true ∧ (p.key = [] ∨ HeadAlpha p.key)) := by
  cases hp : parseCore cs ctx with
  | error e => rw [hp] at h; simp [checkE] at h
  | ok p0 =>
    rw [hp] at h; simp only [checkE] at h
    -- checkNamed returns its argument
    have hp0 : p0 = p ∧ (∀ n, p.number = some n → 1 ≤ n) ∧ (p.number = none → p.key ≠ []) := by
      unfold checkNamed at h
      cases hn : p0.number with
      | none =>
        rw [hn] at h; simp only at h
        split at h
        · simp at h
        · rename_i hk
          simp only [Except.ok.injEq] at h; subst h
          exact ⟨rfl, by simp [hn], fun _ => by simpa using hk⟩
      | some n =>
        rw [hn] at h; simp only at h
        split at h
        · simp at h
        · rename_i hk
          simp only [Except.ok.injEq] at h; subst h
          exact ⟨rfl, by intro m hm; rw [hn] at hm; cases hm; omega, by simp [hn]⟩
    obtain ⟨rfl, hn1, hk1⟩ := hp0
    have hctx : p0.ctx = ctx := by
      unfold parseCore at hp
      simp only at hp
      split at hp
      · split at hp
        · simp at hp
        · split at hp
          · simp at hp
          · simp only [Except.ok.injEq] at hp; subst hp; rfl
      · simp only [Except.ok.injEq] at hp; subst hp; rfl
    refine ⟨hctx, ?_⟩
    unfold parseCore at hp
    simp only at hp
    rcases ligSplit_cases cs with ⟨hl, hno⟩ | ⟨q, ds, hsd, hl⟩
    · rw [hl] at hp; simp only at hp
      split at hp
      · rename_i hcond
        simp only [Option.isSome_none, Bool.false_eq_true, if_false] at hp
        split at hp
        · simp at hp
        · rename_i hdrop
          simp only [Except.ok.injEq] at hp; subst hp
          simp only [Bool.and_eq_true, beq_iff_eq, Bool.not_eq_true'] at hcond
          obtain ⟨hh, _⟩ := hcond
          cases cs with
          | nil => simp at hh
          | cons c r =>
            simp only [head?_cons, Option.some.injEq] at hh; subst hh
            simp only [drop_succ_cons, drop_zero] at *
            refine ⟨fun _ => ⟨trivial, ?_, trivial⟩, fun hm => by simp at hm, fun hm => by simp at hm⟩
            rw [plainKey_iff]
            refine ⟨headAlpha_of_not_ignorable hign (by simpa using hdrop), ?_⟩
            rintro ⟨p', ds', hs⟩
            exact hno _ _ (sepDigits_cons '_' hs)
      · simp only [Except.ok.injEq] at hp; subst hp
        simp only at *
        refine ⟨fun hm => by simp at hm, fun _ _ => ⟨trivial, headAlpha_of_not_ignorable hign (hk1 trivial)⟩, fun _ n hn => by simp at hn⟩
    · rw [hl] at hp; simp only at hp
      split at hp
      · simp at hp
      · simp only [Except.ok.injEq] at hp; subst hp
        simp only at *
        refine ⟨fun hm => by simp at hm, fun _ hn => by simp at hn, fun _ n hn => ?_⟩
        simp only [Option.some.injEq] at hn; subst hn
        refine ⟨hn1 _ rfl, isLigName_of_sepDigits hsd, ?_⟩
        by_cases hq : q = []
        · exact Or.inl hq
        · exact Or.inr (headAlpha_of_not_ignorable hign hq)


theorem parseAnchor_shapeX {cs : List Char} {p : Parsed} (h : parseAnchor cs = .ok p)
    (hign : keyIgnorable p.key = false) :
    p.ctx = (cs.head? == some '*') ∧
    (p.isMark = true → effName cs = '_' :: p.key ∧ plainKey p.key = true ∧ p.number = none) ∧
    (p.isMark = false → p.number = none → effName cs = p.key ∧ HeadAlpha p.key) ∧
    (p.isMark = false → ∀ n, p.number = some n →
      1 ≤ n ∧ isLigName p.key n (effName cs) = true ∧ (p.key = [] ∨ HeadAlpha p.key)) :=
  parseCore_shape (by simpa [parseAnchor, parseChars] using h) hign

theorem effName_plain {cs : List Char} (h : (cs.head? == some '*') = false) : effName cs = cs := by
  simp [effName, h]

theorem parseAnchor_shape {cs : List Char} {p : Parsed} (h : parseAnchor cs = .ok p) (hctx : p.ctx = false)
    (hign : keyIgnorable p.key = false) :
    (p.isMark = true → cs = '_' :: p.key ∧ plainKey p.key = true ∧ p.number = none) ∧
    (p.isMark = false → p.number = none → cs = p.key ∧ HeadAlpha p.key) ∧
    (p.isMark = false → ∀ n, p.number = some n → 1 ≤ n ∧ isLigName p.key n cs = true ∧ (p.key = [] ∨ HeadAlpha p.key)) := by
  obtain ⟨h0, h1⟩ := parseAnchor_shapeX h hign
  rw [hctx] at h0
  rw [effName_plain h0.symm] at h1
  exact h1

/-! ### the naming convention read forwards: `_k`, `k`, `k_N`, `_N` -/

theorem headAlpha_head {k : List Char} (h : HeadAlpha k) :
    (k.head? == some '*') = false ∧ (k.head? == some '_') = false ∧ k ≠ [] ∧ keyIgnorable k = false := by
  obtain ⟨c, r, rfl, hc⟩ := h
  refine ⟨?_, ?_, by simp, by simp [keyIgnorable, hc]⟩
  · simp only [head?_cons, beq_eq_false_iff_ne, ne_eq, Option.some.injEq]; exact alpha_ne_star c hc
  · simp only [head?_cons, beq_eq_false_iff_ne, ne_eq, Option.some.injEq]; exact alpha_ne_us c hc

theorem parseChars_nonmark (cs : List Char) (h1 : (cs.head? == some '*') = false) (h2 : (cs.head? == some '_') = false) :
    parseChars cs = .ok ⟨false, (ligSplit cs).1, (ligSplit cs).2, false⟩ := by
  simp only [parseChars, parseCore, effName, h1, h2, Bool.false_eq_true, if_false, Bool.false_and]

theorem parseChars_us (r : List Char) :
    parseChars ('_' :: r) =
      if !(ligSplit ('_' :: r)).1.isEmpty then
        (if (ligSplit ('_' :: r)).2.isSome then .error .valueError
         else if ((ligSplit ('_' :: r)).1.drop 1).isEmpty then .error .valueError
         else .ok ⟨true, (ligSplit ('_' :: r)).1.drop 1, none, false⟩)
      else .ok ⟨false, (ligSplit ('_' :: r)).1, (ligSplit ('_' :: r)).2, false⟩ := by
  have h1 : ((('_' : Char) :: r).head? == some '*') = false := by simp only [head?_cons]; decide
  have h2 : ((('_' : Char) :: r).head? == some '_') = true := by simp
  simp only [parseChars, parseCore, effName, h1, h2, Bool.false_eq_true, if_false, Bool.true_and]

/-- `_k` is the mark anchor of key k -/
theorem parse_mark {k : List Char} (hk : plainKey k = true) :
    parseAnchor ('_' :: k) = .ok ⟨true, k, none, false⟩ := by
  rw [plainKey_iff] at hk
  obtain ⟨ha, hno⟩ := hk
  obtain ⟨c, r, rfl, hc⟩ := ha
  have hns : ∀ p ds, ¬ SepDigits ('_' :: c :: r) p ds := by
    rintro p ds ⟨hne, hd, e⟩
    cases p with
    | nil =>
      simp only [nil_append, cons.injEq, true_and] at e
      cases ds with
      | nil => exact hne rfl
      | cons d ds =>
        simp only [cons.injEq] at e
        have := hd d (by simp)
        rw [← e.1, alpha_not_digit c hc] at this; simp at this
    | cons x p =>
      simp only [cons_append, cons.injEq] at e
      exact hno ⟨p, ds, hne, hd, e.2⟩
  rcases ligSplit_cases ('_' :: c :: r) with ⟨hl, _⟩ | ⟨q, ds, hsd, _⟩
  · rw [parseAnchor, parseChars_us, hl]; simp [checkE, checkNamed]
  · exact absurd hsd (hns q ds)

/-- `k` is the base anchor of key k -/
theorem parse_base {k : List Char} (hk : plainKey k = true) :
    parseAnchor k = .ok ⟨false, k, none, false⟩ := by
  rw [plainKey_iff] at hk
  obtain ⟨ha, hno⟩ := hk
  obtain ⟨h1, h2, h3, _⟩ := headAlpha_head ha
  rcases ligSplit_cases k with ⟨hl, _⟩ | ⟨q, ds, hsd, _⟩
  · have h3' : k.isEmpty = false := by cases k <;> simp_all
    rw [parseAnchor, parseChars_nonmark k h1 h2, hl]; simp [checkE, checkNamed, h3']
  · exact absurd ⟨q, ds, hsd⟩ hno

theorem headAlpha_append {k : List Char} (ha : HeadAlpha k) (t : List Char) : HeadAlpha (k ++ t) := by
  obtain ⟨c, r, rfl, hc⟩ := ha
  exact ⟨c, r ++ t, rfl, hc⟩

/-- `k_N` is the ligature anchor of key k for component N -/
theorem parse_lig {k ds : List Char} (ha : HeadAlpha k) (hne : ds ≠ []) (hd : ∀ c ∈ ds, c.isDigit = true)
    (hn : 1 ≤ digitsToNat ds) :
    parseAnchor (k ++ '_' :: ds) = .ok ⟨false, k, some (digitsToNat ds), false⟩ := by
  have hsd : SepDigits (k ++ '_' :: ds) k ds := ⟨hne, hd, rfl⟩
  have hl := ligSplit_of_sepDigits hsd
  obtain ⟨h1, h2, _, _⟩ := headAlpha_head (headAlpha_append ha ('_' :: ds))
  have hn' : ¬ digitsToNat ds < 1 := by omega
  rw [parseAnchor, parseChars_nonmark _ h1 h2, hl]; simp [checkE, checkNamed, hn']

/-! #### the same for a contextual name `*k[.suffix]`, `*k_N[.suffix]`: the analysed name is `effName` -/

theorem parseCore_nonmark (cs : List Char) (ctx : Bool) (h2 : (cs.head? == some '_') = false) :
    parseCore cs ctx = .ok ⟨false, (ligSplit cs).1, (ligSplit cs).2, ctx⟩ := by
  simp only [parseCore, h2, Bool.false_eq_true, if_false, Bool.false_and]

theorem parseAnchor_eff (cs : List Char) : parseAnchor cs = checkE (parseCore (effName cs) (cs.head? == some '*')) := rfl

/-- a name whose effective name is the plain key `k` is a base-side anchor of key `k` (contextual iff it starts with '*') -/
theorem parse_base_eff {cs k : List Char} (he : effName cs = k) (hk : plainKey k = true) :
    parseAnchor cs = .ok ⟨false, k, none, cs.head? == some '*'⟩ := by
  rw [plainKey_iff] at hk
  obtain ⟨ha, hno⟩ := hk
  obtain ⟨_, h2, _, _⟩ := headAlpha_head ha
  rcases ligSplit_cases k with ⟨hl, _⟩ | ⟨q, ds, hsd, _⟩
  · have h3' : k.isEmpty = false := by
      obtain ⟨c, r, e, _⟩ := ha; rw [e]; rfl
    rw [parseAnchor_eff, he, parseCore_nonmark k _ h2, hl]; simp [checkE, checkNamed, h3']
  · exact absurd ⟨q, ds, hsd⟩ hno

theorem parse_lig_eff {cs k ds : List Char} (he : effName cs = k ++ '_' :: ds) (ha : HeadAlpha k) (hne : ds ≠ [])
    (hd : ∀ c ∈ ds, c.isDigit = true) (hn : 1 ≤ digitsToNat ds) :
    parseAnchor cs = .ok ⟨false, k, some (digitsToNat ds), cs.head? == some '*'⟩ := by
  have hsd : SepDigits (k ++ '_' :: ds) k ds := ⟨hne, hd, rfl⟩
  have hl := ligSplit_of_sepDigits hsd
  obtain ⟨_, h2, _, _⟩ := headAlpha_head (headAlpha_append ha ('_' :: ds))
  have hn' : ¬ digitsToNat ds < 1 := by omega
  rw [parseAnchor_eff, he, parseCore_nonmark _ _ h2, hl]; simp [checkE, checkNamed, hn']

/-- `_N` declares component N empty: no key, number N -/
theorem parse_null {ds : List Char} (hne : ds ≠ []) (hd : ∀ c ∈ ds, c.isDigit = true) (hn : 1 ≤ digitsToNat ds) :
    parseAnchor ('_' :: ds) = .ok ⟨false, [], some (digitsToNat ds), false⟩ := by
  have hsd : SepDigits ('_' :: ds) [] ds := ⟨hne, hd, rfl⟩
  have hl := ligSplit_of_sepDigits hsd
  have hn' : ¬ digitsToNat ds < 1 := by omega
  rw [parseAnchor, parseChars_us, hl]; simp [checkE, checkNamed, hn']

/-- `_k_N` is rejected ("mark anchor cannot be numbered") -/
theorem parse_numbered_mark_error {k ds : List Char} (hne : ds ≠ []) (hd : ∀ c ∈ ds, c.isDigit = true) :
    parseAnchor ('_' :: (k ++ '_' :: ds)) = .error .valueError := by
  have hsd : SepDigits ('_' :: (k ++ '_' :: ds)) ('_' :: k) ds := ⟨hne, hd, rfl⟩
  have hl := ligSplit_of_sepDigits hsd
  rw [parseAnchor, parseChars_us, hl]; simp [checkE]

/-- a bare `_` is rejected ("mark anchor key is nil") -/
theorem parse_bare_prefix_error : parseAnchor ['_'] = .error .valueError := by rfl

/-- component numbers start from 1 -/
theorem parse_zero_error {k ds : List Char} (ha : HeadAlpha k ∨ k = []) (hne : ds ≠ []) (hd : ∀ c ∈ ds, c.isDigit = true)
    (hn : digitsToNat ds = 0) : parseAnchor (k ++ '_' :: ds) = .error .valueError := by
  have hsd : SepDigits (k ++ '_' :: ds) k ds := ⟨hne, hd, rfl⟩
  have hl := ligSplit_of_sepDigits hsd
  rcases ha with ha | rfl
  · obtain ⟨h1, h2, _, _⟩ := headAlpha_head (headAlpha_append ha ('_' :: ds))
    rw [parseAnchor, parseChars_nonmark _ h1 h2, hl]; simp [checkE, checkNamed, hn]
  · rw [nil_append] at hl ⊢
    rw [parseAnchor, parseChars_us, hl]; simp [checkE, checkNamed, hn]


theorem parse_zero_error_eff {cs k ds : List Char} (he : effName cs = k ++ '_' :: ds) (ha : HeadAlpha k) (hne : ds ≠ [])
    (hd : ∀ c ∈ ds, c.isDigit = true) (hn : digitsToNat ds = 0) : parseAnchor cs = .error .valueError := by
  have hsd : SepDigits (k ++ '_' :: ds) k ds := ⟨hne, hd, rfl⟩
  have hl := ligSplit_of_sepDigits hsd
  obtain ⟨_, h2, _, _⟩ := headAlpha_head (headAlpha_append ha ('_' :: ds))
  rw [parseAnchor_eff, he, parseCore_nonmark _ _ h2, hl]; simp [checkE, checkNamed, hn]

end Ufo2ft.C06
