import Ufo2ftModel.Props.C13VFRun
/-!
Property C13, the variable-font clause: **theorems**.

`C13_vf_render`: for a well-formed one-axis family, at EVERY location between the sources (not only at the masters), every
non-skipped glyph of the family filtered by the model of `SkipExportGlyphsIFilter` draws a permutation of what it drew
before, and keeps its advance; skipped glyphs are gone from every source.

The proof: (1) `C09.interpAt` is linear on every interval that holds no master of the glyph (`interpAt_between`);
(2) decomposing components whose 2×2 parts do not vary commutes with interpolation (`mix_all`, `dec_mix`);
(3) `ensureCompositeDefinedAtComponentLocations` gives a composite a master wherever a skipped glyph it reaches —
directly or through skipped glyphs — has one (`need_iff_tied`), so between two neighbouring masters of the filtered
composite everything the decomposition looked at is linear: interpolating the filtered sources = filtering the
interpolated family (`glyphAt_affected`); (4) in ONE glyph set, inlining the skipped glyphs changes no drawing
(`render_skippedSet`, on top of `pen_render`).
-/
namespace Ufo2ft.C13
open Ufo2ft Ufo2ft.C09 List

/-- what `C13_vf_render` assumes of a family (`WF`: see `Props/C13VFFam.lean`), of its glyph sets as Python dicts (no
    name twice), and of the acyclicity witness (`rank` no larger than the number of glyph names — e.g. the component depth) -/
structure WFSkip (I : Inst) (ms : Masters) (rank : String → Nat) : Prop where
  wf : WF I ms rank
  keys : ∀ m ∈ ms, (m.map (·.1)).Nodup
  rankBound : ∀ n, rank n ≤ (allNames ms).length

/-- **C13_vf_render.**  `ms'` = the sources after the model of `SkipExportGlyphsIFilter` (`skipFamily`, any iteration
    order `orders` of the glyph-name set that covers all names; none given = first-occurrence order).
    For every non-skipped glyph `n` and EVERY location `t` between the sources:
    * with any fuel above the component depth the drawing of `n` in the filtered family is a permutation of its drawing in
      the family (`renderAtF`), in particular
    * `renderAt` (the family's own fuel) — what the variable font shows;
    * the advance is the same;
    and a skipped glyph is in no source any more.
    Needed of the components: 2×2 part the same in all sources (offsets free), non-singular (`WF.alike`, `WF.nonsing`). -/
theorem C13_vf_render (skip : List String) (I : Inst) (ms ms' : Masters) (rank : String → Nat)
    (orders : List (List String)) (h : WFSkip I ms rank)
    (hcover : ∀ o, orders.head? = some o → ∀ n ∈ allNames ms, n ∈ o)
    (hrun : skipFamily skip I ms orders = .ok ms') (n : String) (hsk : skip.contains n = false)
    (t : Q) (ht : InHull I t) :
    (∀ f1 f2, rank n < f1 → rank n < f2 → (renderAtF f2 I ms' t n).Perm (renderAtF f1 I ms t n)) ∧
    (renderAtF ((allNames ms).length + 2) I ms' t n).Perm (renderAt I ms t n) ∧
    advanceAt I ms' t n = advanceAt I ms t n ∧
    (∀ m' ∈ ms', ∀ x, skip.contains x = true → m'.get? x = none) := by
  have rel := skipFamily_rel h.wf h.keys h.rankBound orders hcover ms' hrun
  have hb := h.rankBound n
  refine ⟨fun f1 f2 h1 h2 => (vf_render_rel h.wf rel n hsk t ht f1 f2 h1 h2).1, ?_, ?_, rel.gone⟩
  · exact (vf_render_rel h.wf rel n hsk t ht _ _ (by omega) (by omega)).1
  · exact (vf_render_rel h.wf rel n hsk t ht (rank n + 1) (rank n + 1) (by omega) (by omega)).2

theorem instanceAt_length_le (I : Inst) (ms : Masters) (t : Q) : (instanceAt I ms t).length ≤ (allNames ms).length := by
  unfold instanceAt
  exact List.length_filterMap_le _ _

/-- **C13_vf_render with the default fuel on both sides**: `renderAt` of the filtered family, with ITS OWN fuel (number of
    its glyph names + 2), is a permutation of `renderAt` of the family — what the two variable fonts show -/
theorem C13_vf_render_default (skip : List String) (I : Inst) (ms ms' : Masters) (rank : String → Nat)
    (orders : List (List String)) (h : WFSkip I ms rank)
    (hcover : ∀ o, orders.head? = some o → ∀ n ∈ allNames ms, n ∈ o)
    (hrun : skipFamily skip I ms orders = .ok ms') (n : String) (hsk : skip.contains n = false)
    (t : Q) (ht : InHull I t) : (renderAt I ms' t n).Perm (renderAt I ms t n) := by
  have rel := skipFamily_rel h.wf h.keys h.rankBound orders hcover ms' hrun
  have hb := h.rankBound n
  have main := (vf_render_rel h.wf rel n hsk t ht ((allNames ms).length + 2)
    ((allNames ms').length + 2 + rank n + 1) (by omega) (by omega)).1
  refine Perm.trans (Perm.of_eq ?_) main
  unfold renderAt renderAtF
  cases hg : glyphAt I ms' n t with
  | none => rfl
  | some g' =>
    dsimp only
    have hr := ranked_instance' h.wf rel t ht
    have hlen := instanceAt_length_le I ms' t
    exact render_fuel_len _ rank (fun a b c k hk _ => hr a b c k hk) n g' (by rw [instanceAt_get]; exact hg) _ _ _
      (by omega) (by omega)

/-- the filter on the level of the glyph data: at every location between the sources the glyph of the filtered family is
    the glyph of the family with its references to skipped glyphs replaced by their content at that location -/
theorem C13_vf_glyph (skip : List String) (I : Inst) (ms ms' : Masters) (rank : String → Nat)
    (orders : List (List String)) (h : WFSkip I ms rank)
    (hcover : ∀ o, orders.head? = some o → ∀ n ∈ allNames ms, n ∈ o)
    (hrun : skipFamily skip I ms orders = .ok ms') (n : String) (hsk : skip.contains n = false)
    (t : Q) (ht : InHull I t) (g : Glyph) (hg : glyphAt I ms n t = some g) :
    ∃ d fuel, addComps fuel (instanceAt I ms t) true false (some skip) Affine.id g.comps = .ok d ∧
      glyphAt I ms' n t = some (withDrawn g d) := by
  have rel := skipFamily_rel h.wf h.keys h.rankBound orders hcover ms' hrun
  obtain ⟨fuel, d, h1, h2⟩ := (skippedSet_instance h.wf rel t ht).dec n g hsk (by rw [instanceAt_get]; exact hg)
  rw [instanceAt_get] at h2
  exact ⟨d, fuel, h1, h2⟩

end Ufo2ft.C13
