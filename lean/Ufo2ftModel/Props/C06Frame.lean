import Ufo2ftModel.Props.C06Complete
import Ufo2ftModel.Props.C06CtxSound
/-! C06, part 18: without object-lib data the model with contextual anchors IS the plain model (frame). -/
namespace Ufo2ft.C06
open List

theorem baseLookups_feature {feat : String} {inc : String → Bool} {mf : NA → Bool}
    {g : List (List (String × List BAnchor))} {L : Lookup} (h : L ∈ baseLookups feat inc mf g) : L.feature = feat := by
  obtain ⟨atts, _, hf⟩ := mem_filterMap.mp h
  simp only at hf
  split at hf
  · simp at hf
  · simp only [Option.some.injEq] at hf; subst hf; rfl

theorem ligLookups_feature {feat : String} {inc : String → Bool} {mf : NA → Bool}
    {g : List (List (String × List (List BAnchor)))} {L : Lookup} (h : L ∈ ligLookups feat inc mf g) : L.feature = feat := by
  obtain ⟨atts, _, hf⟩ := mem_filterMap.mp h
  simp only at hf
  split at hf
  · simp at hf
  · simp only [Option.some.injEq] at hf; subst hf; rfl

theorem mkmkLookups_feature {feat : String} {inc : String → Bool} {mf : NA → Bool}
    {g : List (String × String × BAnchor)} {L : Lookup} (h : L ∈ mkmkLookups feat inc mf g) : L.feature = feat := by
  obtain ⟨k, _, hf⟩ := mem_filterMap.mp h
  simp only at hf
  split at hf
  · simp at hf
  · simp only [Option.some.injEq] at hf; subst hf; rfl

theorem abvmLOf_feature {i : Input} {al : AList} {L : Lookup} (h : L ∈ abvmLOf i al) : L.feature = "abvm" := by
  unfold abvmLOf at h
  split at h
  · simp at h
  · simp only [mem_append] at h
    rcases h with (h | h) | h
    · exact baseLookups_feature h
    · exact ligLookups_feature h
    · exact mkmkLookups_feature h

theorem blwmLOf_feature {i : Input} {al : AList} {L : Lookup} (h : L ∈ blwmLOf i al) : L.feature = "blwm" := by
  unfold blwmLOf at h
  split at h
  · simp at h
  · simp only [mem_append] at h
    rcases h with (h | h) | h
    · exact baseLookups_feature h
    · exact ligLookups_feature h
    · exact mkmkLookups_feature h

theorem markLOf_feature {i : Input} {al : AList} {L : Lookup} (h : L ∈ markLOf i al) : L.feature = "mark" := by
  unfold markLOf at h
  simp only [mem_append] at h
  rcases h with h | h
  · exact baseLookups_feature h
  · exact ligLookups_feature h

theorem mkmkLOf_feature {i : Input} {al : AList} {L : Lookup} (h : L ∈ mkmkLOf i al) : L.feature = "mkmk" :=
  mkmkLookups_feature h

theorem filter_feature_self {ls : List Lookup} {t : String} (h : ∀ L ∈ ls, L.feature = t) :
    ls.filter (fun L => L.feature == t) = ls :=
  filter_eq_self.mpr (fun L hL => by simp [h L hL])

theorem filter_feature_nil {ls : List Lookup} {t t' : String} (h : ∀ L ∈ ls, L.feature = t') (hne : t' ≠ t) :
    ls.filter (fun L => L.feature == t) = [] :=
  filter_eq_nil_iff.mpr (fun L hL => by simp [h L hL, hne])

/-- the lookups of `build` already are in feature order abvm, blwm, mark, mkmk -/
theorem orderLookups_build (i : Input) (al : AList) :
    orderLookups (build i al).lookups false false = (build i al).lookups := by
  rw [build_eq]
  simp only [orderLookups, Bool.false_eq_true, if_false, nil_append, filter_append]
  rw [filter_feature_self (t := "abvm") (fun L h => abvmLOf_feature h),
    filter_feature_nil (t := "abvm") (fun L h => blwmLOf_feature h) (by decide),
    filter_feature_nil (t := "abvm") (fun L h => markLOf_feature h) (by decide),
    filter_feature_nil (t := "abvm") (fun L h => mkmkLOf_feature h) (by decide),
    filter_feature_nil (t := "blwm") (fun L h => abvmLOf_feature h) (by decide),
    filter_feature_self (t := "blwm") (fun L h => blwmLOf_feature h),
    filter_feature_nil (t := "blwm") (fun L h => markLOf_feature h) (by decide),
    filter_feature_nil (t := "blwm") (fun L h => mkmkLOf_feature h) (by decide),
    filter_feature_nil (t := "mark") (fun L h => abvmLOf_feature h) (by decide),
    filter_feature_nil (t := "mark") (fun L h => blwmLOf_feature h) (by decide),
    filter_feature_self (t := "mark") (fun L h => markLOf_feature h),
    filter_feature_nil (t := "mark") (fun L h => mkmkLOf_feature h) (by decide),
    filter_feature_nil (t := "mkmk") (fun L h => abvmLOf_feature h) (by decide),
    filter_feature_nil (t := "mkmk") (fun L h => blwmLOf_feature h) (by decide),
    filter_feature_nil (t := "mkmk") (fun L h => markLOf_feature h) (by decide),
    filter_feature_self (t := "mkmk") (fun L h => mkmkLOf_feature h)]
  simp

/-- no contextual NamedAnchor ⇒ no contextual attachment -/
theorem ctxAtts_nil {i : Input} {al : AList} {mg : List String} {km : List (String × String)}
    (h : ∀ e ∈ al, ∀ a ∈ e.2, a.ctx = none) : ctxAtts i al mg km = [] := by
  unfold ctxAtts
  rw [flatMap_eq_nil_iff]
  intro e he
  have he' : e ∈ al := (mergeSort_perm _ _).mem_iff.mp he
  rw [filterMap_eq_nil_iff]
  intro a ha
  rw [h e he' a ha]

theorem ctxDest_nil (al : AList) (km : List (String × String)) (feat pre : String) (d : Dest) (st : CtxFeature) :
    ctxDest al km feat pre d [] st = .ok st := by
  simp [ctxDest, ctxWork, ctxOrder, dedupFirst, dedupAux]

theorem ctxFeatures_nil {i : Input} {al : AList} (h : ∀ e ∈ al, ∀ a ∈ e.2, a.ctx = none) :
    ctxFeatures i al = .ok (⟨[], []⟩, ⟨[], []⟩) := by
  have hp : ∀ e ∈ prune al, ∀ a ∈ e.2, a.ctx = none := by
    intro e he a ha
    obtain ⟨_, as, has, eas⟩ := mem_prune he
    rw [eas] at ha
    exact h _ has a (mem_filter.mp ha).1
  unfold ctxFeatures
  simp only [ctxAtts_nil hp]
  have e : ∀ d, ofDest ([] : List (Dest × String × String × NA)) d = [] := fun d => rfl
  simp only [e, ctxDest_nil]

end Ufo2ft.C06
