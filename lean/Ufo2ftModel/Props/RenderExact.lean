import Ufo2ftModel.Props.Render
/-!
The default pipeline (`DecomposeComponentsFilter()` over all glyphs) — exact version: every glyph ends up with no
components and with exactly the contour LIST (same order, nothing lost or duplicated) of the specification renderer.
-/
namespace Ufo2ft
open List

def ExactOne (gs : GlyphSet) (rank : String → Nat) (fuel : Nat) : Prop :=
  ∀ base t D, addComp fuel gs true true none base t = .ok D → t.det ≠ 0 →
    D.comps = [] ∧ ∀ S f, S.det ≠ 0 → rank base < f →
      drawContours true S D.contours = renderOne f gs S ⟨base, t⟩

def ExactMany (gs : GlyphSet) (rank : String → Nat) (fuel : Nat) : Prop :=
  ∀ t ks D, addComps fuel gs true true none t ks = .ok D → t.det ≠ 0 → (∀ k ∈ ks, k.t.det ≠ 0) →
    D.comps = [] ∧ ∀ S f, S.det ≠ 0 → (∀ k ∈ ks, rank k.base < f) →
      drawContours true S D.contours = ks.flatMap (fun k => renderOne f gs S ⟨k.base, t.compose k.t⟩)

theorem exactMany_of_exactOne (gs : GlyphSet) (rank : String → Nat) (fuel : Nat)
    (h1 : ExactOne gs rank fuel) : ExactMany gs rank fuel := by
  intro t ks
  induction ks with
  | nil =>
    intro D hD _ _
    simp only [addComps] at hD
    cases hD
    exact ⟨rfl, fun S f _ _ => by simp [drawContours]⟩
  | cons k ks ih =>
    intro D hD ht hks
    simp only [addComps] at hD
    cases hk : addComp fuel gs true true none k.base (t.compose k.t) with
    | error e => rw [hk] at hD; cases hD
    | ok d =>
      rw [hk] at hD
      cases hr : addComps fuel gs true true none t ks with
      | error e => rw [hr] at hD; cases hD
      | ok d' =>
        rw [hr] at hD
        have hD' := Except.ok.inj hD
        subst hD'
        obtain ⟨c1, p1⟩ := h1 k.base (t.compose k.t) d hk (det_compose_ne ht (hks k mem_cons_self))
        obtain ⟨c2, p2⟩ := ih d' hr ht (fun k' hk' => hks k' (mem_cons_of_mem _ hk'))
        refine ⟨by simp [Drawn.append, c1, c2], ?_⟩
        intro S f hS hrank
        simp only [Drawn.append, drawContours_append, List.flatMap_cons]
        rw [p1 S f hS (hrank k mem_cons_self), p2 S f hS (fun k' hk' => hrank k' (mem_cons_of_mem _ hk'))]

theorem exactOne_succ (gs : GlyphSet) (rank : String → Nat) (hg : Good gs rank) (fuel : Nat)
    (h2 : ExactMany gs rank fuel) : ExactOne gs rank (fuel + 1) := by
  intro base t D hD ht
  unfold addComp at hD
  have hi : isIncluded none base = true := rfl
  rw [if_pos hi] at hD
  cases hb : gs.get? base with
  | none => rw [hb] at hD; cases hD
  | some b =>
    rw [hb] at hD
    dsimp only at hD
    have hin : inclNested true none = none := rfl
    rw [hin] at hD
    cases hd : addComps fuel gs true true none t b.comps with
    | error e => rw [hd] at hD; cases hD
    | ok d =>
      rw [hd] at hD
      have hD' := Except.ok.inj hD
      subst hD'
      have hbk : ∀ k ∈ b.comps, k.t.det ≠ 0 := hg.nonsing base b hb
      have hbr : ∀ k ∈ b.comps, rank k.base < rank base := hg.ranked base b hb
      obtain ⟨c, p⟩ := h2 t b.comps d hd ht hbk
      refine ⟨c, ?_⟩
      intro S f hS hrank
      obtain ⟨f', rfl⟩ : ∃ x, f = x + 1 := ⟨f - 1, by omega⟩
      simp only [renderOne, hb, render_succ, drawContours_append]
      rw [bake S t hS ht b.contours (hg.invol base b hb),
        p S (f' + 1) hS (fun k hk => by have := hbr k hk; omega)]
      congr 1
      apply flatMap_congr'
      intro k hk
      simp only [renderOne]
      cases hkb : gs.get? k.base with
      | none => rfl
      | some b' =>
        simp only [Affine.compose_assoc]
        exact render_fuel gs rank hg.ranked (rank k.base) b' _ (f' + 1) f'
          (hg.ranked k.base b' hkb) (by have := hbr k hk; omega) (by have := hbr k hk; omega)

theorem pen_exact (gs : GlyphSet) (rank : String → Nat) (hg : Good gs rank) :
    ∀ fuel, ExactOne gs rank fuel ∧ ExactMany gs rank fuel := by
  intro fuel
  induction fuel with
  | zero =>
    have h0 : ExactOne gs rank 0 := by
      intro base t D hD; simp only [addComp] at hD; cases hD
    exact ⟨h0, exactMany_of_exactOne gs rank 0 h0⟩
  | succ n ih =>
    have h1 := exactOne_succ gs rank hg n ih.2
    exact ⟨h1, exactMany_of_exactOne gs rank (n + 1) h1⟩

/-- full decomposition of a glyph: no component is left and the glyph renders EXACTLY the same contour list -/
theorem decomposeFull_render (gs : GlyphSet) (rank : String → Nat) (hg : Good gs rank)
    (g g' : Glyph) (hk : ∀ k ∈ g.comps, k.t.det ≠ 0)
    (h : decomposeGlyph gs true none g = .ok g') :
    g'.comps = [] ∧ ∀ (S : Affine) (f : Nat), S.det ≠ 0 → (∀ k ∈ g.comps, rank k.base < f) →
      render (f + 1) gs S g' = render (f + 1) gs S g := by
  unfold decomposeGlyph at h
  cases hd : addComps (gs.length + 1) gs true true none Affine.id g.comps with
  | error e => rw [hd] at h; cases h
  | ok d =>
    rw [hd] at h
    have h' := Except.ok.inj h
    subst h'
    have hid : Affine.id.det ≠ 0 := by simp only [Affine.id, Affine.det]; grind
    obtain ⟨c, p⟩ := (pen_exact gs rank hg (gs.length + 1)).2 Affine.id g.comps d hd hid hk
    refine ⟨c, ?_⟩
    intro S f hS hf
    simp only [render_succ, drawContours_append, c, List.flatMap_nil, List.append_nil]
    rw [p S f hS hf]
    congr 1
    apply flatMap_congr'
    intro k _
    simp [renderOne, Affine.id_compose]

/-- exact version of `SameRender` -/
def SameRenderEq (rank : String → Nat) (a b : GlyphSet) : Prop :=
  ∀ n, (a.get? n).isSome = (b.get? n).isSome ∧
    ∀ ga gb, a.get? n = some ga → b.get? n = some gb →
      ∀ S f, S.det ≠ 0 → rank n < f → render f a S ga = render f b S gb

theorem SameRenderEq.refl (rank : String → Nat) (a : GlyphSet) : SameRenderEq rank a a := by
  intro n
  refine ⟨rfl, ?_⟩
  intro ga gb ha hb S f _ _
  rw [ha] at hb; rw [Option.some.inj hb]

theorem SameRenderEq.trans {rank : String → Nat} {a b c : GlyphSet}
    (h1 : SameRenderEq rank a b) (h2 : SameRenderEq rank b c) : SameRenderEq rank a c := by
  intro n
  obtain ⟨e1, p1⟩ := h1 n
  obtain ⟨e2, p2⟩ := h2 n
  refine ⟨e1.trans e2, ?_⟩
  intro ga gc ha hc S f hS hf
  cases hb : b.get? n with
  | none => rw [ha, hb] at e1; cases e1
  | some gb => exact (p1 ga gb ha hb S f hS hf).trans (p2 gb gc hb hc S f hS hf)

theorem set_preserves_render_eq (gs : GlyphSet) (rank : String → Nat) (hr : Ranked gs rank)
    (hns : ∀ n g, gs.get? n = some g → ∀ k ∈ g.comps, k.t.det ≠ 0)
    (name : String) (g g' : Glyph) (hget : gs.get? name = some g)
    (hrank' : ∀ k ∈ g'.comps, rank k.base < rank name) (hns' : ∀ k ∈ g'.comps, k.t.det ≠ 0)
    (heq : ∀ S f, S.det ≠ 0 → rank name < f → render f gs S g' = render f gs S g) :
    ∀ (r : Nat) (ks : List Comp) (S : Affine) (f : Nat), (∀ k ∈ ks, rank k.base < r) → (∀ k ∈ ks, k.t.det ≠ 0) →
      S.det ≠ 0 → r ≤ f →
      ks.flatMap (renderOne f (gs.set name g') S) = ks.flatMap (renderOne f gs S) := by
  intro r
  induction r using Nat.strongRecOn with
  | _ r ih =>
    intro ks S f hks hkd hS hrf
    apply flatMap_congr'
    intro k hk
    have hlt := hks k hk
    have hSk : (S.compose k.t).det ≠ 0 := det_compose_ne hS (hkd k hk)
    unfold renderOne
    rw [get?_set gs name k.base g g' hget]
    obtain ⟨f', rfl⟩ : ∃ x, f = x + 1 := ⟨f - 1, by omega⟩
    by_cases hn : k.base = name
    · rw [if_pos hn]
      have hgk : gs.get? k.base = some g := by rw [hn]; exact hget
      rw [hgk]
      dsimp only
      rw [← heq (S.compose k.t) (f' + 1) hSk (by rw [← hn]; omega)]
      rw [render_succ, render_succ]
      congr 1
      exact ih (rank name) (by rw [← hn]; exact hlt) g'.comps _ f' hrank' hns' hSk (by rw [← hn]; omega)
    · rw [if_neg hn]
      cases hb : gs.get? k.base with
      | none => rfl
      | some b =>
        dsimp only
        rw [render_succ, render_succ]
        congr 1
        exact ih (rank k.base) hlt b.comps _ f' (hr k.base b hb) (hns k.base b hb) hSk (by omega)

/-- one step of the default pipeline keeps every glyph's contour list -/
theorem decomposeFull_set_sameRenderEq (gs : GlyphSet) (rank : String → Nat) (hg : Good gs rank)
    (name : String) (g g' : Glyph) (hget : gs.get? name = some g)
    (h : decomposeGlyph gs true none g = .ok g') : SameRenderEq rank (gs.set name g') gs := by
  obtain ⟨hc, hfull⟩ := decomposeFull_render gs rank hg g g' (hg.nonsing name g hget) h
  have hrk : ∀ k ∈ g'.comps, rank k.base < rank name := by rw [hc]; intro k hk; cases hk
  have hns' : ∀ k ∈ g'.comps, k.t.det ≠ 0 := by rw [hc]; intro k hk; cases hk
  have heq : ∀ S f, S.det ≠ 0 → rank name < f → render f gs S g' = render f gs S g := by
    intro S f hS hf
    obtain ⟨f', rfl⟩ : ∃ x, f = x + 1 := ⟨f - 1, by omega⟩
    exact hfull S f' hS (fun k hk => by have := hg.ranked name g hget k hk; omega)
  have B := set_preserves_render_eq gs rank hg.ranked hg.nonsing name g g' hget hrk hns' heq
  intro n
  constructor
  · rw [get?_set gs name n g g' hget]
    by_cases e : n = name
    · rw [if_pos e, e, hget]; rfl
    · rw [if_neg e]
  · intro ga gb ha hb S f hS hf
    rw [get?_set gs name n g g' hget] at ha
    obtain ⟨f', rfl⟩ : ∃ x, f = x + 1 := ⟨f - 1, by omega⟩
    by_cases e : n = name
    · rw [if_pos e] at ha
      have := Option.some.inj ha; subst this
      have hgb : gb = g := by rw [e, hget] at hb; exact (Option.some.inj hb).symm
      subst hgb
      rw [← heq S (f' + 1) hS (by rw [← e]; exact hf)]
      rw [render_succ, render_succ]
      congr 1
      exact B (rank name) g'.comps S f' hrk hns' hS (by rw [← e]; omega)
    · rw [if_neg e] at ha
      have hgb : gb = ga := by rw [ha] at hb; exact (Option.some.inj hb).symm
      subst hgb
      rw [render_succ, render_succ]
      congr 1
      exact B (rank n) gb.comps S f' (hg.ranked n gb ha) (hg.nonsing n gb ha) hS (by omega)

/-- `n` holds a glyph without components -/
def FlatAt (gs : GlyphSet) (n : String) : Prop := ∀ g, gs.get? n = some g → g.comps = []

/-- **the default pipeline, whole traversal (exact)**: after `DecomposeComponentsFilter()` has run over `order`
    (any order), the glyph set is still well-formed, every glyph renders exactly the contour list it rendered before,
    and every visited glyph has no components left. -/
theorem fullLoop (rank : String → Nat) :
    ∀ (order : List String) (st st' : FState), filterLoop decomposeStep (fun _ => true) order st = .ok st' →
      Good st.gs rank → Named st.gs → (∀ n ∈ st.modified, FlatAt st.gs n) →
      Good st'.gs rank ∧ Named st'.gs ∧ SameRenderEq rank st'.gs st.gs ∧
      (∀ n ∈ st'.modified, FlatAt st'.gs n) ∧ (∀ n ∈ order, FlatAt st'.gs n) ∧ (∀ n, FlatAt st.gs n → FlatAt st'.gs n) := by
  intro order
  induction order with
  | nil =>
    intro st st' h hg hn hm
    simp only [filterLoop] at h
    have := Except.ok.inj h; subst this
    exact ⟨hg, hn, SameRenderEq.refl rank _, hm, fun n hn' => (by cases hn'), fun n h => h⟩
  | cons n ns ih =>
    intro st st' h hg hn hm
    unfold filterLoop at h
    by_cases hmod : st.modified.contains n = true
    · rw [if_pos hmod] at h
      obtain ⟨a, b, c, d, e, f⟩ := ih st st' h hg hn hm
      refine ⟨a, b, c, d, ?_, f⟩
      intro x hx
      rcases mem_cons.mp hx with rfl | hx
      · exact f x (hm x (by simpa using hmod))
      · exact e x hx
    · rw [if_neg hmod] at h
      cases hget : st.gs.get? n with
      | none => rw [hget] at h; cases h
      | some g =>
        rw [hget] at h
        dsimp only at h
        rw [if_pos rfl] at h
        have hname : g.name = n := hn n g hget
        unfold decomposeStep at h
        by_cases he : g.comps.isEmpty = true
        · rw [if_pos he] at h
          dsimp only at h
          rw [if_neg (by simp)] at h
          obtain ⟨a, b, c, d, e, f⟩ := ih st st' h hg hn hm
          refine ⟨a, b, c, d, ?_, f⟩
          intro x hx
          rcases mem_cons.mp hx with rfl | hx
          · apply f x
            intro g0 hg0; rw [hget] at hg0; rw [← Option.some.inj hg0]; simpa using he
          · exact e x hx
        · rw [if_neg he] at h
          cases hd : decomposeGlyph st.gs true none g with
          | error err => rw [hd] at h; cases h
          | ok g' =>
            rw [hd] at h
            dsimp only at h
            rw [if_pos rfl] at h
            rw [hname] at h
            have hg1 := decompose_set_good st.gs rank hg true none n g g' hget hd
            have hn1 := named_set st.gs hn n g g' hget (by rw [decomposeGlyph_name st.gs true none g g' hd, hname])
            have hs1 := decomposeFull_set_sameRenderEq st.gs rank hg n g g' hget hd
            have hflat : g'.comps = [] := (decomposeFull_render st.gs rank hg g g' (hg.nonsing n g hget) hd).1
            have keep : ∀ x, FlatAt st.gs x → FlatAt (st.gs.set n g') x := by
              intro x hx g0 hg0
              rw [get?_set st.gs n x g g' hget] at hg0
              by_cases ex : x = n
              · rw [if_pos ex] at hg0; rw [← Option.some.inj hg0]; exact hflat
              · rw [if_neg ex] at hg0; exact hx g0 hg0
            have hnflat : FlatAt (st.gs.set n g') n := by
              intro g0 hg0
              rw [get?_set st.gs n n g g' hget] at hg0
              simp only [if_true] at hg0
              rw [← Option.some.inj hg0]; exact hflat
            have hm1 : ∀ x ∈ addMod st.modified n, FlatAt (st.gs.set n g') x := by
              intro x hx
              unfold addMod at hx
              split at hx
              · exact keep x (hm x hx)
              · rcases mem_append.mp hx with hx | hx
                · exact keep x (hm x hx)
                · simp only [mem_singleton] at hx; subst hx; exact hnflat
            obtain ⟨a, b, c, d, e, f⟩ := ih _ st' h hg1 hn1 hm1
            refine ⟨a, b, c.trans hs1, d, ?_, fun x hx => f x (keep x hx)⟩
            intro x hx
            rcases mem_cons.mp hx with rfl | hx
            · exact f x hnflat
            · exact e x hx

end Ufo2ft
