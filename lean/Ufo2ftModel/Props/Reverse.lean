import Ufo2ftModel.Props.Geom
/-! `ReverseContourPointPen` is an involution on closed contours (no `move` point). -/
namespace Ufo2ft
open List

/-- type of the last on-curve point of `l`, or `s` -/
def lastOn : List Pt → Option Seg → Option Seg
  | [], s => s
  | p :: ps, s => match p.seg with | some t => lastOn ps (some t) | none => lastOn ps s

/-- type of the first on-curve point of `l`, or `s` -/
def nextOn (l : List Pt) (s : Option Seg) : Option Seg :=
  match firstOnCurve l with | some t => some t | none => s

/-- backward re-typing: every on-curve point takes the type of the NEXT on-curve point, the last one takes `s` -/
def retypeR : List Pt → Option Seg → List Pt
  | [], _ => []
  | p :: ps, s => (match p.seg with | some _ => { p with seg := nextOn ps s } | none => p) :: retypeR ps s

theorem retype_append (l1 l2 : List Pt) (s : Option Seg) :
    retype (l1 ++ l2) s = retype l1 s ++ retype l2 (lastOn l1 s) := by
  induction l1 generalizing s with
  | nil => rfl
  | cons p ps ih =>
    simp only [List.cons_append, retype, lastOn]
    cases p.seg with
    | none => simp [ih]
    | some t => simp [ih]

theorem lastOn_append (l1 l2 : List Pt) (s : Option Seg) : lastOn (l1 ++ l2) s = lastOn l2 (lastOn l1 s) := by
  induction l1 generalizing s with
  | nil => rfl
  | cons p ps ih =>
    simp only [List.cons_append, lastOn]
    cases p.seg <;> simp [ih]

theorem firstOnCurve_append (l1 l2 : List Pt) :
    firstOnCurve (l1 ++ l2) = match firstOnCurve l1 with | some t => some t | none => firstOnCurve l2 := by
  induction l1 with
  | nil => simp [firstOnCurve]
  | cons p ps ih =>
    simp only [List.cons_append, firstOnCurve]
    cases p.seg <;> simp [ih]

theorem lastOn_reverse (l : List Pt) (s : Option Seg) : lastOn l.reverse s = nextOn l s := by
  induction l generalizing s with
  | nil => rfl
  | cons p ps ih =>
    simp only [List.reverse_cons, lastOn_append, ih, nextOn, firstOnCurve, lastOn]
    cases hp : p.seg with
    | none => simp
    | some t => cases firstOnCurve ps <;> simp

theorem retype_reverse (l : List Pt) (s : Option Seg) : retype l.reverse s = (retypeR l s).reverse := by
  induction l generalizing s with
  | nil => rfl
  | cons p ps ih =>
    simp only [List.reverse_cons, retype_append, ih, retypeR, lastOn_reverse]
    congr 1
    simp only [retype]
    cases hp : p.seg <;> simp

theorem retypeR_seg_isSome (l : List Pt) (s' : Seg) :
    (retypeR l (some s')).map (fun p => p.seg.isSome) = l.map (fun p => p.seg.isSome) := by
  induction l with
  | nil => rfl
  | cons p ps ih =>
    simp only [retypeR, List.map_cons, ih]
    congr 1
    cases hp : p.seg with
    | none => simp [hp]
    | some t => simp only [nextOn]; cases firstOnCurve ps <;> simp

/-- forward re-typing undoes backward re-typing -/
theorem retype_retypeR (l : List Pt) (s' : Seg) :
    retype (retypeR l (some s')) (nextOn l (some s')) = l := by
  induction l with
  | nil => rfl
  | cons p ps ih =>
    simp only [retypeR]
    cases hp : p.seg with
    | none =>
      simp only [retype, hp]
      have : nextOn (p :: ps) (some s') = nextOn ps (some s') := by simp [nextOn, firstOnCurve, hp]
      rw [this, ih]
    | some t =>
      have hn : nextOn (p :: ps) (some s') = some t := by simp [nextOn, firstOnCurve, hp]
      obtain ⟨u, hu⟩ : ∃ u, nextOn ps (some s') = some u := by
        simp only [nextOn]; cases firstOnCurve ps <;> simp
      simp only [retype, hu, hn]
      rw [← hu, ih]
      congr 1
      cases p; simp_all

theorem firstOnCurve_retypeR_reverse (l : List Pt) (s' : Seg) (rest : List Pt) :
    firstOnCurve ((retypeR l (some s')).reverse ++ rest) =
      match firstOnCurve l with | some _ => some s' | none => firstOnCurve rest := by
  induction l generalizing rest with
  | nil => simp [retypeR, firstOnCurve]
  | cons p ps ih =>
    simp only [retypeR, List.reverse_cons, List.append_assoc, List.singleton_append]
    rw [ih]
    cases hf : firstOnCurve ps with
    | some t =>
      simp only [firstOnCurve]
      cases hp : p.seg <;> simp [hf]
    | none =>
      simp only [firstOnCurve, nextOn, hf]
      cases hp : p.seg <;> simp [hp]

/-- **ReverseContourPointPen is an involution on closed contours** (contours none of whose points is a `move`). -/
theorem reverseContour_involutive (c : Contour) (hc : ∀ p ∈ c, p.seg ≠ some Seg.move) :
    reverseContour (reverseContour c) = c := by
  cases c with
  | nil => rfl
  | cons p0 X =>
    have h0 : p0.seg ≠ some Seg.move := hc p0 mem_cons_self
    simp only [reverseContour, h0, if_false]
    cases hp : p0.seg with
    | none =>
      -- start point off-curve
      have e1 : firstOnCurve (X ++ [p0]) = firstOnCurve X := by
        rw [firstOnCurve_append]; simp only [firstOnCurve, hp]; cases firstOnCurve X <;> rfl
      rw [e1]
      cases hf : firstOnCurve X with
      | none =>
        -- no on-curve point at all: only the order changes
        have allOff : ∀ (l : List Pt) (s : Option Seg), firstOnCurve l = none → retype l s = l := by
          intro l
          induction l with
          | nil => intros; rfl
          | cons q qs ih =>
            intro s h
            simp only [firstOnCurve] at h
            cases hq : q.seg with
            | some t => rw [hq] at h; cases h
            | none => rw [hq] at h; simp only [retype, hq]; rw [ih s h]
        have hr : firstOnCurve X.reverse = none := by
          have := lastOn_reverse X.reverse none
          simp only [List.reverse_reverse] at this
          -- firstOnCurve X.reverse = none because X has no on-curve point
          have key : ∀ (l : List Pt), firstOnCurve l = none → ∀ q ∈ l, q.seg = none := by
            intro l
            induction l with
            | nil => intro _ q hq; cases hq
            | cons a as ih =>
              intro h q hq
              simp only [firstOnCurve] at h
              cases ha : a.seg with
              | some t => rw [ha] at h; cases h
              | none =>
                rw [ha] at h
                rcases mem_cons.mp hq with rfl | hq
                · exact ha
                · exact ih h q hq
          have key2 : ∀ (l : List Pt), (∀ q ∈ l, q.seg = none) → firstOnCurve l = none := by
            intro l
            induction l with
            | nil => intro _; rfl
            | cons a as ih =>
              intro h
              simp only [firstOnCurve, h a mem_cons_self]
              exact ih (fun q hq => h q (mem_cons_of_mem _ hq))
          exact key2 _ (fun q hq => key X hf q (mem_reverse.mp hq))
        have e2 : retype (p0 :: X.reverse) none = p0 :: X.reverse := by
          apply allOff; simp only [firstOnCurve, hp]; exact hr
        rw [e2]
        simp only [h0, if_false, List.reverse_reverse]
        have e3 : firstOnCurve (X.reverse ++ [p0]) = none := by
          rw [firstOnCurve_append, hr]; simp [firstOnCurve, hp]
        rw [e3]
        apply allOff; simp only [firstOnCurve, hp]; exact hf
      | some a1 =>
        have e2 : retype (p0 :: X.reverse) (some a1) = p0 :: (retypeR X (some a1)).reverse := by
          simp only [retype, hp]; rw [retype_reverse]
        rw [e2]
        simp only [h0, if_false, List.reverse_reverse]
        rw [firstOnCurve_retypeR_reverse, hf]
        simp only [retype, hp]
        have hn : nextOn X (some a1) = some a1 := by simp [nextOn, hf]
        have hrr := retype_retypeR X a1
        rw [hn] at hrr
        rw [hrr]
    | some a0 =>
      have ha0 : a0 ≠ Seg.move := by intro e; apply h0; rw [hp, e]
      obtain ⟨s0, hs0⟩ : ∃ s0, firstOnCurve (X ++ [p0]) = some s0 := by
        rw [firstOnCurve_append]; simp only [firstOnCurve, hp]; cases firstOnCurve X <;> simp
      have hs0' : nextOn X (some a0) = some s0 := by
        rw [firstOnCurve_append] at hs0
        simp only [firstOnCurve, hp] at hs0
        simp only [nextOn]
        cases hf : firstOnCurve X with
        | none => rw [hf] at hs0; exact hs0
        | some t => rw [hf] at hs0; exact hs0
      rw [hs0]
      have e2 : retype (p0 :: X.reverse) (some s0) =
          { p0 with seg := some s0 } :: (retypeR X (some a0)).reverse := by
        simp only [retype, hp]; rw [retype_reverse]
      rw [e2]
      -- the new start point carries type s0, which is not `move` (it is the type of some point of the contour)
      have hs0m : s0 ≠ Seg.move := by
        intro e
        rw [firstOnCurve_append] at hs0
        have key : ∀ (l : List Pt) (t : Seg), firstOnCurve l = some t → ∃ q ∈ l, q.seg = some t := by
          intro l
          induction l with
          | nil => intro t h; cases h
          | cons a as ih =>
            intro t h
            simp only [firstOnCurve] at h
            cases ha : a.seg with
            | some u => rw [ha] at h; exact ⟨a, mem_cons_self, by rw [ha, ← Option.some.inj h]⟩
            | none => rw [ha] at h; obtain ⟨q, hq, hq'⟩ := ih t h; exact ⟨q, mem_cons_of_mem _ hq, hq'⟩
        cases hf : firstOnCurve X with
        | some t =>
          rw [hf] at hs0
          obtain ⟨q, hq, hq'⟩ := key X t hf
          exact hc q (mem_cons_of_mem _ hq) (by rw [hq', Option.some.inj hs0, e])
        | none =>
          rw [hf] at hs0
          simp only [firstOnCurve, hp] at hs0
          exact ha0 (by rw [Option.some.inj hs0, e])
      have hne : ¬ (some s0 = some Seg.move) := by intro e; exact hs0m (Option.some.inj e)
      simp only [hne, if_false, List.reverse_reverse]
      rw [firstOnCurve_retypeR_reverse]
      have e3 : (match firstOnCurve X with | some _ => some a0 | none => firstOnCurve [({ p0 with seg := some s0 } : Pt)])
          = some a0 := by
        cases hf : firstOnCurve X with
        | some t => rfl
        | none =>
          simp only [firstOnCurve]
          -- then s0 = a0
          rw [firstOnCurve_append, hf] at hs0
          simp only [firstOnCurve, hp] at hs0
          exact hs0.symm ▸ rfl
      rw [e3]
      simp only [retype]
      have hrr := retype_retypeR X a0
      rw [hs0'] at hrr
      rw [hrr]
      congr 1
      cases p0; simp_all

end Ufo2ft
