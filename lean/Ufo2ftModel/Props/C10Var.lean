import Ufo2ftModel.Props.C10
/-! Property C10, the n-axis `VariationModel`: master reproduction for any number of axes and masters.
Every `theorem` here is audited (`#print axioms`). -/
namespace Ufo2ft.C10
open Ufo2ft

/-! ## 1. `supportScalar` -/

/-- what `_computeMasterSupports` maintains for every axis of a region: the peak is not 0 and the box lies on the peak's side
    of 0, with `lower < peak ≤ upper` (positive side) resp. `lower ≤ peak < upper` (negative side) -/
def TripleOk (t : Triple) : Prop :=
  t.2.1 ≠ 0 ∧ (0 < t.2.1 → 0 ≤ t.1 ∧ t.1 < t.2.1 ∧ t.2.1 ≤ t.2.2) ∧ (t.2.1 < 0 → t.1 ≤ t.2.1 ∧ t.2.1 < t.2.2 ∧ t.2.2 ≤ 0)

def RInv (R : Region) : Prop := ∀ e ∈ R, TripleOk e.2

/-- on the axis of `e`, the location `p` is not at the peak and not strictly inside the box -/
def OutAt (p : NLoc) (e : String × Triple) : Prop :=
  coord p e.1 ≠ e.2.2.1 ∧ (coord p e.1 ≤ e.2.1 ∨ e.2.2.2 ≤ coord p e.1)

def Out (R : Region) (p : NLoc) : Prop := ∃ e ∈ R, OutAt p e

theorem tripleOk_guards (lo pk hi : Q) (h : TripleOk (lo, pk, hi)) :
    (pk == 0) = false ∧ (decide (lo > pk) || decide (pk > hi)) = false ∧ (decide (lo < 0) && decide (hi > 0)) = false := by
  unfold TripleOk at h
  simp only at h
  refine ⟨by simpa using h.1, ?_, ?_⟩
  · simp only [Bool.or_eq_false_iff, decide_eq_false_iff_not]; grind
  · simp only [Bool.and_eq_false_iff, decide_eq_false_iff_not]; grind

/-- a location excluded by the box on one axis gets the scalar 0 -/
theorem supportScalarGo_out (p : NLoc) (R : Region) (hinv : RInv R) (hout : Out R p) (s : Q) : supportScalarGo p s R = 0 := by
  induction R generalizing s with
  | nil => obtain ⟨e, he, _⟩ := hout; simp at he
  | cons e R ih =>
    obtain ⟨a, lo, pk, hi⟩ := e
    have hok : TripleOk (lo, pk, hi) := hinv (a, lo, pk, hi) (by simp)
    obtain ⟨g0, g1, g2⟩ := tripleOk_guards lo pk hi hok
    have hinv' : RInv R := fun e he => hinv e (by simp [he])
    simp only [supportScalarGo, g0, g1, g2, Bool.false_eq_true, if_false]
    by_cases hv : coord p a = pk
    · have hout' : Out R p := by
        obtain ⟨e, he, ho⟩ := hout
        rcases List.mem_cons.mp he with rfl | he
        · exact absurd hv ho.1
        · exact ⟨e, he, ho⟩
      simp only [hv, beq_self_eq_true, if_true]
      exact ih hinv' hout' s
    · have hv' : (coord p a == pk) = false := by simpa using hv
      simp only [hv', Bool.false_eq_true, if_false]
      by_cases hb : coord p a ≤ lo ∨ hi ≤ coord p a
      · have : (decide (coord p a ≤ lo) || decide (hi ≤ coord p a)) = true := by simpa using hb
        simp [this]
      · have hb' : (decide (coord p a ≤ lo) || decide (hi ≤ coord p a)) = false := by
          simp only [Bool.or_eq_false_iff, decide_eq_false_iff_not]; exact ⟨fun h => hb (Or.inl h), fun h => hb (Or.inr h)⟩
        have hout' : Out R p := by
          obtain ⟨e, he, ho⟩ := hout
          rcases List.mem_cons.mp he with rfl | he
          · exact absurd ho.2 hb
          · exact ⟨e, he, ho⟩
        simp only [hb', Bool.false_eq_true, if_false]
        split
        · exact ih hinv' hout' _
        · exact ih hinv' hout' _

theorem supportScalar_out (p : NLoc) (R : Region) (hinv : RInv R) (hout : Out R p) : supportScalar p R = 0 :=
  supportScalarGo_out p R hinv hout 1

/-- at a location that sits at the peak on every axis of the region the running product is not changed -/
theorem supportScalarGo_peak (l : NLoc) (R : Region) (h : ∀ e ∈ R, coord l e.1 = e.2.2.1) (s : Q) : supportScalarGo l s R = s := by
  induction R generalizing s with
  | nil => rfl
  | cons e R ih =>
    obtain ⟨a, lo, pk, hi⟩ := e
    have hv : coord l a = pk := h (a, lo, pk, hi) (by simp)
    have ih' := ih (fun e he => h e (by simp [he]))
    simp only [supportScalarGo, hv, beq_self_eq_true, if_true]
    split
    · exact ih' s
    · split
      · exact ih' s
      · split
        · exact ih' s
        · exact ih' s

theorem supportScalar_peak (l : NLoc) (R : Region) (h : ∀ e ∈ R, coord l e.1 = e.2.2.1) : supportScalar l R = 1 :=
  supportScalarGo_peak l R h 1


/-! ## 2. one round of the box-narrowing loop of `_computeMasterSupports` -/

/-- the location a region was made for: its keys with their peaks -/
def peaks (R : Region) : NLoc := R.map (fun e => (e.1, e.2.2.1))

theorem keysOf_peaks (R : Region) : keysOf (peaks R) = keysOf R := by
  simp [keysOf, peaks, List.map_map, Function.comp_def]

theorem coord_of_mem (l : NLoc) (hn : (keysOf l).Nodup) (e : String × Q) (he : e ∈ l) : coord l e.1 = e.2 := by
  unfold coord
  rw [mem_alookup_of_nodup l e.1 e.2 hn he]
  rfl

theorem coord_of_not_mem (l : NLoc) (a : String) (h : a ∉ keysOf l) : coord l a = 0 := by
  unfold coord
  rw [alookup_none_of_not_mem l a h]
  rfl

theorem ratio_gt_of_neg (a b : Q) (ha : a < 0) (hb : b < 0) : -1 < a / b := by
  have hb0 : b ≠ 0 := by grind
  have h : a / b * b = a := Rat.div_mul_cancel hb0
  by_cases hr : a / b ≤ 0
  · have h1 : 0 ≤ (-(a / b)) * (-b) := Rat.mul_nonneg (by grind) (by grind)
    have h2 : (-(a / b)) * (-b) = a / b * b := by grind
    grind
  · grind

theorem ratio_gt_of_pos (a b : Q) (ha : 0 < a) (hb : 0 < b) : -1 < a / b := by
  have : 0 < a / b := by
    rw [Rat.div_def]
    exact Rat.mul_pos ha (Rat.inv_pos.mpr hb)
  grind

/-! ### `bestAxes` -/

theorem bestUpd_gt (acc : List (String × Triple) × Q) (a : String) (t : Triple) (r : Q) (h : acc.2 < r) :
    bestUpd acc a t r = ([(a, t)], r) := by
  unfold bestUpd
  simp [h]

theorem bestUpd_le (acc : List (String × Triple) × Q) (a : String) (t : Triple) (r : Q) (h : ¬ acc.2 < r) :
    (bestUpd acc a t r).2 = acc.2 ∧ ((bestUpd acc a t r).1 = acc.1 ∨ (bestUpd acc a t r).1 = acc.1 ++ [(a, t)]) := by
  unfold bestUpd
  simp only [gt_iff_lt, h, if_false]
  split <;> simp

/-- the loop state has found a candidate -/
def BGood (acc : List (String × Triple) × Q) : Prop := acc.1 ≠ []
/-- the loop state has found a candidate, or `bestRatio` still is -1 -/
def BJ (acc : List (String × Triple) × Q) : Prop := acc.1 ≠ [] ∨ acc.2 = -1

theorem bestUpd_good (acc : List (String × Triple) × Q) (a : String) (t : Triple) (r : Q) (h : BGood acc) : BGood (bestUpd acc a t r) := by
  unfold BGood at *
  by_cases hr : acc.2 < r
  · rw [bestUpd_gt acc a t r hr]; simp
  · obtain ⟨_, h2 | h2⟩ := bestUpd_le acc a t r hr
    · rw [h2]; exact h
    · rw [h2]; simp

theorem bestUpd_J (acc : List (String × Triple) × Q) (a : String) (t : Triple) (r : Q) (h : BJ acc) : BJ (bestUpd acc a t r) := by
  by_cases hr : acc.2 < r
  · rw [bestUpd_gt acc a t r hr]; left; simp
  · obtain ⟨h1, h2⟩ := bestUpd_le acc a t r hr
    rcases h with h | h
    · left; exact bestUpd_good acc a t r h
    · right; rw [h1]; exact h

theorem bestUpd_strong (acc : List (String × Triple) × Q) (a : String) (t : Triple) (r : Q) (h : BJ acc) (hr1 : -1 < r) :
    BGood (bestUpd acc a t r) := by
  by_cases hr : acc.2 < r
  · rw [bestUpd_gt acc a t r hr]; simp [BGood]
  · rcases h with h | h
    · exact bestUpd_good acc a t r h
    · exfalso; rw [h] at hr; exact hr hr1

theorem bestUpd_mem (acc : List (String × Triple) × Q) (a : String) (t : Triple) (r : Q) :
    ∀ x ∈ (bestUpd acc a t r).1, x ∈ acc.1 ∨ x = (a, t) := by
  intro x hx
  by_cases hr : acc.2 < r
  · rw [bestUpd_gt acc a t r hr] at hx; right; simpa using hx
  · obtain ⟨_, h2 | h2⟩ := bestUpd_le acc a t r hr
    · rw [h2] at hx; exact Or.inl hx
    · rw [h2] at hx
      rcases List.mem_append.mp hx with hx | hx
      · exact Or.inl hx
      · right; simpa using hx

/-- an entry `e` of the earlier master's location that can split the box of `R` on its axis, strictly inside the box -/
def StrongCand (R : Region) (e : String × Q) : Prop :=
  ∃ lo pk hi, alookup e.1 R = some (lo, pk, hi) ∧ e.2 ≠ pk ∧ lo < e.2 ∧ e.2 < hi ∧ lo ≤ pk ∧ pk ≤ hi

/-- what an entry of `bestAxes` looks like: the triple of that axis in `R`, cut at the earlier master's value -/
def Cand (R : Region) (p : NLoc) (x : String × Triple) : Prop :=
  ∃ lo pk hi val, alookup x.1 R = some (lo, pk, hi) ∧ (x.1, val) ∈ p ∧
    ((val < pk ∧ x.2 = (val, pk, hi)) ∨ (pk < val ∧ x.2 = (lo, pk, val)))

theorem bestStep_good (R : Region) (acc : List (String × Triple) × Q) (e : String × Q) (h : BGood acc) : BGood (bestStep R acc e) := by
  unfold bestStep
  split
  · exact h
  · split
    · exact bestUpd_good _ _ _ _ h
    · split
      · exact bestUpd_good _ _ _ _ h
      · exact h

theorem bestStep_J (R : Region) (acc : List (String × Triple) × Q) (e : String × Q) (h : BJ acc) : BJ (bestStep R acc e) := by
  unfold bestStep
  split
  · exact h
  · split
    · exact bestUpd_J _ _ _ _ h
    · split
      · exact bestUpd_J _ _ _ _ h
      · exact h

theorem bestStep_strong (R : Region) (acc : List (String × Triple) × Q) (e : String × Q) (h : BJ acc) (hs : StrongCand R e) :
    BGood (bestStep R acc e) := by
  obtain ⟨lo, pk, hi, hl, hne, h1, h2, h3, h4⟩ := hs
  unfold bestStep
  rw [hl]
  simp only
  by_cases hlt : e.2 < pk
  · simp only [hlt, if_true]
    exact bestUpd_strong _ _ _ _ h (ratio_gt_of_neg _ _ (by grind) (by grind))
  · have hgt : pk < e.2 := by grind
    simp only [hlt, if_false, hgt, if_true]
    exact bestUpd_strong _ _ _ _ h (ratio_gt_of_pos _ _ (by grind) (by grind))

theorem bestStep_cand (R : Region) (p : NLoc) (acc : List (String × Triple) × Q) (e : String × Q) (he : e ∈ p)
    (h : ∀ x ∈ acc.1, Cand R p x) : ∀ x ∈ (bestStep R acc e).1, Cand R p x := by
  intro x hx
  unfold bestStep at hx
  split at hx
  · exact h x hx
  · rename_i lo pk hi hl
    split at hx
    · rename_i hlt
      rcases bestUpd_mem _ _ _ _ x hx with hx | rfl
      · exact h x hx
      · exact ⟨lo, pk, hi, e.2, hl, he, Or.inl ⟨hlt, rfl⟩⟩
    · split at hx
      · rename_i hgt
        rcases bestUpd_mem _ _ _ _ x hx with hx | rfl
        · exact h x hx
        · exact ⟨lo, pk, hi, e.2, hl, he, Or.inr ⟨hgt, rfl⟩⟩
      · exact h x hx

theorem bestFold_good (R : Region) (q : NLoc) (acc : List (String × Triple) × Q) (h : BGood acc) : BGood (q.foldl (bestStep R) acc) := by
  induction q generalizing acc with
  | nil => exact h
  | cons e q ih => exact ih _ (bestStep_good R acc e h)

theorem bestFold_strong (R : Region) (q : NLoc) (acc : List (String × Triple) × Q) (h : BJ acc) (hs : ∃ e ∈ q, StrongCand R e) :
    BGood (q.foldl (bestStep R) acc) := by
  induction q generalizing acc with
  | nil => obtain ⟨e, he, _⟩ := hs; simp at he
  | cons e q ih =>
    obtain ⟨e', he', hs'⟩ := hs
    rcases List.mem_cons.mp he' with rfl | he'
    · exact bestFold_good R q _ (bestStep_strong R acc e' h hs')
    · exact ih _ (bestStep_J R acc e h) ⟨e', he', hs'⟩

theorem bestFold_cand (R : Region) (p q : NLoc) (acc : List (String × Triple) × Q) (hq : ∀ e ∈ q, e ∈ p)
    (h : ∀ x ∈ acc.1, Cand R p x) : ∀ x ∈ (q.foldl (bestStep R) acc).1, Cand R p x := by
  induction q generalizing acc with
  | nil => exact h
  | cons e q ih =>
    exact ih _ (fun e' he' => hq e' (by simp [he'])) (bestStep_cand R p acc e (hq e (by simp)) h)

theorem bestAxes_cand (R : Region) (p : NLoc) : ∀ x ∈ bestAxes R p, Cand R p x :=
  bestFold_cand R p p ([], -1) (fun _ h => h) (by simp)

theorem bestAxes_ne_nil (R : Region) (p : NLoc) (hs : ∃ e ∈ p, StrongCand R e) : bestAxes R p ≠ [] :=
  bestFold_strong R p ([], -1) (Or.inr rfl) hs


/-! ### `narrow` -/

theorem mem_keysOf {ν : Type} (d : List (String × ν)) (e : String × ν) (he : e ∈ d) : e.1 ∈ keysOf d :=
  List.mem_map.mpr ⟨e, he, rfl⟩

theorem sameKeys_iff (a b : List String) : sameKeys a b = true ↔ ∀ x, x ∈ a ↔ x ∈ b := by
  simp only [sameKeys, Bool.and_eq_true, List.all_eq_true, List.contains_iff_mem]
  constructor
  · intro h x; exact ⟨h.1 x, h.2 x⟩
  · intro h; exact ⟨fun x hx => (h x).mp hx, fun x hx => (h x).mpr hx⟩

theorem relevant_iff (R : Region) (p : NLoc) :
    relevant R p = true ↔ ∀ e ∈ R, coord p e.1 = e.2.2.1 ∨ (e.2.1 < coord p e.1 ∧ coord p e.1 < e.2.2.2) := by
  simp [relevant, List.all_eq_true]

/-- what one round may do to an entry of the region: same axis, same peak, the box does not grow, the invariant is kept -/
def Shrunk (e e' : String × Triple) : Prop :=
  e'.1 = e.1 ∧ e'.2.2.1 = e.2.2.1 ∧ e.2.1 ≤ e'.2.1 ∧ e'.2.2.2 ≤ e.2.2.2 ∧ TripleOk e'.2

theorem shrunk_refl (e : String × Triple) (h : TripleOk e.2) : Shrunk e e :=
  ⟨rfl, rfl, Rat.le_refl, Rat.le_refl, h⟩

theorem narrow_spec (R : Region) (p : NLoc) (hR : (keysOf R).Nodup) (hp : (keysOf p).Nodup) (hinv : RInv R) :
    ∃ g : String × Triple → String × Triple, narrow R p = R.map g ∧ ∀ e ∈ R, Shrunk e (g e) := by
  unfold narrow
  split
  · exact ⟨id, by simp, fun e he => shrunk_refl e (hinv e he)⟩
  · split
    · exact ⟨id, by simp, fun e he => shrunk_refl e (hinv e he)⟩
    · rename_i hrel
      have hrel : relevant R p = true := by
        cases h : relevant R p
        · simp [h] at hrel
        · rfl
      refine ⟨fun e => match alookup e.1 (bestAxes R p) with | some t => (e.1, t) | none => e, rfl, ?_⟩
      intro e he
      show Shrunk e (match alookup e.1 (bestAxes R p) with | some t => (e.1, t) | none => e)
      split
      · rename_i t hb
        have hc := bestAxes_cand R p (e.1, t) (alookup_some_mem _ _ _ hb)
        obtain ⟨lo, pk, hi, val, hl, hmem, hshape⟩ := hc
        simp only at hl hmem hshape
        have he2 : alookup e.1 R = some e.2 := mem_alookup_of_nodup R e.1 e.2 hR he
        rw [hl] at he2
        have he2' : e.2 = (lo, pk, hi) := (Option.some.inj he2).symm
        have hcv : coord p e.1 = val := coord_of_mem p hp (e.1, val) hmem
        have hr := (relevant_iff R p).mp hrel e he
        have hok := hinv e he
        rw [he2'] at hr hok
        simp only [hcv] at hr
        unfold Shrunk TripleOk
        unfold TripleOk at hok
        simp only at hok
        rcases hshape with ⟨hlt, rfl⟩ | ⟨hgt, rfl⟩
        · simp only [he2']
          grind
        · simp only [he2']
          grind
      · exact shrunk_refl e (hinv e he)

theorem narrow_peaks (R : Region) (p : NLoc) (hR : (keysOf R).Nodup) (hp : (keysOf p).Nodup) (hinv : RInv R) :
    peaks (narrow R p) = peaks R := by
  obtain ⟨g, hg, hs⟩ := narrow_spec R p hR hp hinv
  rw [hg]
  unfold peaks
  rw [List.map_map]
  apply List.map_congr_left
  intro e he
  obtain ⟨h1, h2, _⟩ := hs e he
  simp [h1, h2]

theorem narrow_inv (R : Region) (p : NLoc) (hR : (keysOf R).Nodup) (hp : (keysOf p).Nodup) (hinv : RInv R) : RInv (narrow R p) := by
  obtain ⟨g, hg, hs⟩ := narrow_spec R p hR hp hinv
  rw [hg]
  intro e' he'
  obtain ⟨e, he, rfl⟩ := List.mem_map.mp he'
  exact (hs e he).2.2.2.2

/-- narrowing never lets a location back in -/
theorem narrow_out_mono (R : Region) (p q : NLoc) (hR : (keysOf R).Nodup) (hp : (keysOf p).Nodup) (hinv : RInv R)
    (h : Out R q) : Out (narrow R p) q := by
  obtain ⟨g, hg, hs⟩ := narrow_spec R p hR hp hinv
  rw [hg]
  obtain ⟨e, he, ho1, ho2⟩ := h
  obtain ⟨h1, h2, h3, h4, _⟩ := hs e he
  refine ⟨g e, List.mem_map.mpr ⟨e, he, rfl⟩, ?_, ?_⟩
  · rw [h1, h2]; exact ho1
  · rw [h1]
    rcases ho2 with ho2 | ho2
    · left; exact Rat.le_trans ho2 h3
    · right; exact Rat.le_trans h4 ho2

/-- the round for an earlier master `p` on the same axes and at another place puts `p` outside the box:
    either it was outside already (not relevant), or the box is cut AT `p` on (at least) one axis -/
theorem narrow_out_self (R : Region) (p : NLoc) (hR : (keysOf R).Nodup) (hp : (keysOf p).Nodup) (hinv : RInv R)
    (hsame : sameKeys (keysOf p) (keysOf R) = true) (hdiff : ∃ e ∈ R, coord p e.1 ≠ e.2.2.1) : Out (narrow R p) p := by
  unfold narrow
  simp only [hsame, Bool.not_true, Bool.false_eq_true, if_false]
  by_cases hrel : relevant R p = true
  · simp only [hrel, Bool.not_true, Bool.false_eq_true, if_false]
    obtain ⟨e0, he0, hne0⟩ := hdiff
    have hk : e0.1 ∈ keysOf p := ((sameKeys_iff _ _).mp hsame e0.1).mpr (mem_keysOf R e0 he0)
    obtain ⟨e, he, hek⟩ := List.mem_map.mp hk
    have hce : coord p e.1 = e.2 := coord_of_mem p hp e he
    have hr0 := (relevant_iff R p).mp hrel e0 he0
    have hok0 := hinv e0 he0
    have hstrong : StrongCand R e := by
      refine ⟨e0.2.1, e0.2.2.1, e0.2.2.2, ?_, ?_⟩
      · rw [hek]; exact mem_alookup_of_nodup R e0.1 e0.2 hR he0
      · rw [← hek, hce] at hne0 hr0
        unfold TripleOk at hok0
        grind
    have hne := bestAxes_ne_nil R p ⟨e, he, hstrong⟩
    cases hbest : bestAxes R p with
    | nil => exact absurd hbest hne
    | cons x rest =>
      have hc := bestAxes_cand R p x (by rw [hbest]; simp)
      obtain ⟨lo, pk, hi, val, hl, hmem, hshape⟩ := hc
      have hx : alookup x.1 (x :: rest) = some x.2 := by
        obtain ⟨xa, xt⟩ := x
        simp [alookup]
      have hmemR : (x.1, (lo, pk, hi)) ∈ R := alookup_some_mem R x.1 (lo, pk, hi) hl
      have hcv : coord p x.1 = val := coord_of_mem p hp (x.1, val) hmem
      refine ⟨(x.1, x.2), ?_, ?_⟩
      · unfold applyBest
        exact List.mem_map.mpr ⟨(x.1, (lo, pk, hi)), hmemR, by simp only [hx]⟩
      · unfold OutAt
        simp only [hcv]
        rcases hshape with ⟨hlt, hx2⟩ | ⟨hgt, hx2⟩
        · rw [hx2]; simp only; grind
        · rw [hx2]; simp only; grind
  · have hrel' : relevant R p = false := by simpa using hrel
    simp only [hrel', Bool.not_false, if_true]
    have : ¬ ∀ e ∈ R, coord p e.1 = e.2.2.1 ∨ (e.2.1 < coord p e.1 ∧ coord p e.1 < e.2.2.2) :=
      fun h => hrel ((relevant_iff R p).mpr h)
    obtain ⟨e, h⟩ := Classical.not_forall.mp this
    obtain ⟨he, hne⟩ := Classical.not_imp.mp h
    refine ⟨e, he, ?_⟩
    unfold OutAt
    grind


/-! ## 3. the whole loop: the support of a master excludes every earlier master -/

theorem keysOf_eq_of_peaks (R : Region) (l : NLoc) (h : peaks R = l) : keysOf R = keysOf l := by
  rw [← h, keysOf_peaks]

theorem initRegion_peaks (l : NLoc) : peaks (initRegion l) = l := by
  unfold peaks initRegion
  rw [List.map_map]
  conv => rhs; rw [← List.map_id l]
  apply List.map_congr_left
  intro e _
  simp only [Function.comp, id]
  split <;> rfl

theorem initRegion_inv (l : NLoc) (h : ∀ e ∈ l, e.2 ≠ 0 ∧ -1 ≤ e.2 ∧ e.2 ≤ 1) : RInv (initRegion l) := by
  intro e' he'
  obtain ⟨e, he, rfl⟩ := List.mem_map.mp he'
  obtain ⟨h0, h1, h2⟩ := h e he
  unfold TripleOk
  split
  · simp only; grind
  · simp only; grind

/-- `p` is an earlier master on the same axes as `l`, at another place -/
def Rival (l p : NLoc) : Prop := sameKeys (keysOf p) (keysOf l) = true ∧ ∃ e ∈ l, coord p e.1 ≠ e.2

/-- THE LOOP INVARIANT of `for prev_region in regions[:i]`: the region keeps the master's axes and peaks, keeps `TripleOk` on every
    axis, and every rival handled so far is outside the box on some axis -/
theorem regionFold_inv (l : NLoc) (hl : (keysOf l).Nodup) (prev : List NLoc) (hprev : ∀ p ∈ prev, (keysOf p).Nodup)
    (R : Region) (done : List NLoc) (hpk : peaks R = l) (hinv : RInv R) (hdone : ∀ p ∈ done, Rival l p → Out R p) :
    peaks (prev.foldl narrow R) = l ∧ RInv (prev.foldl narrow R) ∧
      ∀ p ∈ done ++ prev, Rival l p → Out (prev.foldl narrow R) p := by
  induction prev generalizing R done with
  | nil => simpa using ⟨hpk, hinv, hdone⟩
  | cons p prev ih =>
    have hkR : keysOf R = keysOf l := keysOf_eq_of_peaks R l hpk
    have hRn : (keysOf R).Nodup := by rw [hkR]; exact hl
    have hpn : (keysOf p).Nodup := hprev p (by simp)
    have h := ih (fun q hq => hprev q (by simp [hq])) (narrow R p) (done ++ [p])
      (by rw [narrow_peaks R p hRn hpn hinv]; exact hpk) (narrow_inv R p hRn hpn hinv) (by
        intro q hq hriv
        rcases List.mem_append.mp hq with hq | hq
        · exact narrow_out_mono R p q hRn hpn hinv (hdone q hq hriv)
        · simp only [List.mem_singleton] at hq
          subst hq
          obtain ⟨hs, e, he, hne⟩ := hriv
          refine narrow_out_self R q hRn hpn hinv (by rw [hkR]; exact hs) ?_
          rw [← hpk] at he
          obtain ⟨e0, he0, rfl⟩ := List.mem_map.mp he
          exact ⟨e0, he0, hne⟩)
    simpa [List.foldl_cons, List.append_assoc] using h

/-- a location: a dict (keys pairwise different) of non-zero normalised coordinates -/
def LocOk (l : NLoc) : Prop := (keysOf l).Nodup ∧ ∀ e ∈ l, e.2 ≠ 0 ∧ -1 ≤ e.2 ∧ e.2 ≤ 1

theorem regionOf_spec (prev : List NLoc) (l : NLoc) (hl : LocOk l) (hprev : ∀ p ∈ prev, (keysOf p).Nodup) :
    peaks (regionOf prev l) = l ∧ RInv (regionOf prev l) ∧ ∀ p ∈ prev, Rival l p → Out (regionOf prev l) p := by
  have := regionFold_inv l hl.1 prev hprev (initRegion l) [] (initRegion_peaks l) (initRegion_inv l hl.2) (by simp)
  simpa [regionOf] using this

theorem supportsNGo_length (prev ls : List NLoc) : (supportsNGo prev ls).length = ls.length := by
  induction ls generalizing prev with
  | nil => rfl
  | cons l ls ih => simp [supportsNGo, ih]

theorem supportsNGo_get (prev ls : List NLoc) (i : Nat) (h : i < ls.length) :
    (supportsNGo prev ls)[i]'(by rw [supportsNGo_length]; exact h) = regionOf (prev ++ ls.take i) ls[i] := by
  induction ls generalizing prev i with
  | nil => simp at h
  | cons l ls ih =>
    cases i with
    | zero => simp [supportsNGo]
    | succ i =>
      simp only [supportsNGo, List.getElem_cons_succ, List.take_succ_cons]
      rw [ih (prev ++ [l]) i (by simpa using h)]
      simp

theorem supportsN_length (ls : List NLoc) : (supportsN ls).length = ls.length := supportsNGo_length [] ls

theorem supportsN_get (ls : List NLoc) (i : Nat) (h : i < ls.length) :
    (supportsN ls)[i]'(by rw [supportsN_length]; exact h) = regionOf (ls.take i) ls[i] := by
  have := supportsNGo_get [] ls i h
  simpa [supportsN] using this

/-- pigeonhole: a duplicate-free key list that is at least as long as another one and is not the same set has a key the other lacks -/
theorem exists_key_not_mem (A B : List String) (hB : B.Nodup) (hlen : A.length ≤ B.length) (hns : ¬ ∀ x, x ∈ A ↔ x ∈ B) :
    ∃ a ∈ B, a ∉ A := by
  apply Classical.byContradiction
  intro hno
  have hBA : ∀ y ∈ B, y ∈ A := fun y hy => Classical.byContradiction fun hn => hno ⟨y, hy, hn⟩
  apply hns
  intro x
  refine ⟨fun hx => ?_, hBA x⟩
  apply Classical.byContradiction
  intro hxB
  have hsub : B ⊆ A.erase x := by
    intro y hy
    have hyx : y ≠ x := fun h => hxB (h ▸ hy)
    exact (List.mem_erase_of_ne hyx).mpr (hBA y hy)
  have h1 := List.Nodup.length_le_of_subset hB hsub
  have h2 : (A.erase x).length = A.length - 1 := by rw [List.length_erase]; simp [hx]
  have h3 : 1 ≤ A.length := List.length_pos_of_mem hx
  omega

/-- the two locations differ on some axis (as maps axis ↦ coordinate) -/
def locNe (p l : NLoc) : Bool := (keysOf p ++ keysOf l).any (fun a => coord p a != coord l a)

theorem locNe_symm (p l : NLoc) : locNe p l = locNe l p := by
  unfold locNe
  rw [List.any_append, List.any_append, Bool.or_comm]
  have : (fun a => coord p a != coord l a) = (fun a => coord l a != coord p a) := by
    funext a; exact bne_comm
  rw [this]

/-- masters in model order: every location is a dict of non-zero coordinates in [-1, 1]; pairwise different locations; sorted by
    the number of axes (the first component of `getMasterLocationsSortKeyFunc`'s key - nothing else of the order is needed).
    A default master at the origin is NOT needed for the law (fontTools refuses to build a model without one: `wfInput` below). -/
def wfN (ls : List NLoc) : Prop :=
  (∀ l ∈ ls, LocOk l) ∧ ls.Pairwise (fun p l => locNe p l = true) ∧ ls.Pairwise (fun p l => p.length ≤ l.length)

instance (l : NLoc) : Decidable (LocOk l) := by unfold LocOk; infer_instance
instance (ls : List NLoc) : Decidable (wfN ls) := by unfold wfN; infer_instance

/-- (a) the support scalar of every master at its own location is 1 -/
theorem support_self (ls : List NLoc) (hok : ∀ l ∈ ls, LocOk l) (i : Nat) (h : i < ls.length) :
    supportScalar ls[i] ((supportsN ls)[i]'(by rw [supportsN_length]; exact h)) = 1 := by
  rw [supportsN_get ls i h]
  have hl := hok ls[i] (List.getElem_mem h)
  obtain ⟨hpk, _, _⟩ := regionOf_spec (ls.take i) ls[i] hl (fun p hp => (hok p (List.mem_of_mem_take hp)).1)
  apply supportScalar_peak
  intro e he
  have : (e.1, e.2.2.1) ∈ ls[i] := by
    rw [← hpk]; exact List.mem_map.mpr ⟨e, he, rfl⟩
  exact coord_of_mem ls[i] hl.1 (e.1, e.2.2.1) this

/-- (b) the support of a LATER master vanishes at every EARLIER master's location -/
theorem support_later_zero (ls : List NLoc) (hwf : wfN ls) (i j : Nat) (hij : i < j) (hj : j < ls.length) :
    supportScalar (ls[i]'(by omega)) ((supportsN ls)[j]'(by rw [supportsN_length]; exact hj)) = 0 := by
  obtain ⟨hok, hdist, hrank⟩ := hwf
  have hi : i < ls.length := by omega
  rw [supportsN_get ls j hj]
  have hl := hok ls[j] (List.getElem_mem hj)
  have hp := hok ls[i] (List.getElem_mem hi)
  obtain ⟨hpk, hinv, hout⟩ := regionOf_spec (ls.take j) ls[j] hl (fun p hp => (hok p (List.mem_of_mem_take hp)).1)
  apply supportScalar_out _ _ hinv
  have hmem : ls[i] ∈ ls.take j := List.mem_take_iff_getElem.mpr ⟨i, by omega, rfl⟩
  have hd : locNe ls[i] ls[j] = true := List.pairwise_iff_getElem.mp hdist i j hi hj hij
  have hr : ls[i].length ≤ ls[j].length := List.pairwise_iff_getElem.mp hrank i j hi hj hij
  by_cases hs : sameKeys (keysOf ls[i]) (keysOf ls[j]) = true
  · apply hout _ hmem
    refine ⟨hs, ?_⟩
    unfold locNe at hd
    obtain ⟨a, ha, hne⟩ := List.any_eq_true.mp hd
    have hne' : coord ls[i] a ≠ coord ls[j] a := by simpa using hne
    have hk : a ∈ keysOf ls[j] := by
      rcases List.mem_append.mp ha with ha | ha
      · exact ((sameKeys_iff _ _).mp hs a).mp ha
      · exact ha
    obtain ⟨e', he', rfl⟩ := List.mem_map.mp hk
    refine ⟨e', he', ?_⟩
    rw [← coord_of_mem ls[j] hl.1 e' he']
    exact hne'
  · have hns : ¬ ∀ x, x ∈ keysOf ls[i] ↔ x ∈ keysOf ls[j] := fun h => hs ((sameKeys_iff _ _).mpr h)
    obtain ⟨a, haj, hai⟩ := exists_key_not_mem (keysOf ls[i]) (keysOf ls[j]) hl.1 (by simpa [keysOf] using hr) hns
    rw [← keysOf_eq_of_peaks _ _ hpk] at haj
    obtain ⟨e, he, rfl⟩ := List.mem_map.mp haj
    refine ⟨e, he, ?_⟩
    have hok' := hinv e he
    unfold OutAt
    rw [coord_of_not_mem ls[i] e.1 hai]
    unfold TripleOk at hok'
    grind

theorem scalarsN_length (ls : List NLoc) : (scalarsN ls).length = ls.length := by simp [scalarsN, supportsN_length]

theorem scalarsN_get (ls : List NLoc) (k : Nat) (h : k < ls.length) (x : NLoc) :
    ((scalarsN ls)[k]'(by rw [scalarsN_length]; exact h)) x = supportScalar x ((supportsN ls)[k]'(by rw [supportsN_length]; exact h)) := by
  unfold scalarsN
  rw [List.getElem_map]

/-- (c) MASTER REPRODUCTION FOR n AXES: for any number of axes and any number of masters (on the axes, at corners, anywhere in
    between) in model order, `interpolateFromDeltas(loc_i, getDeltas(values)) = values[i]` for every master `i` -/
theorem nAxis_law (ls : List NLoc) (hwf : wfN ls) (i : Nat) (vs : List Q) (h : i < ls.length) (hv : vs.length = ls.length) :
    interpolateN ls ls[i] vs = vs[i] := by
  unfold interpolateN
  refine deltaModel_law _ ls (scalarsN_length ls) ?_ ?_ i vs h hv
  · intro k h1 h2
    rw [scalarsN_get ls k h2]
    exact support_self ls hwf.1 k h2
  · intro a b ha hb hab
    have hb' : b < ls.length := by rw [← scalarsN_length ls]; exact hb
    rw [scalarsN_get ls b hb']
    exact support_later_zero ls hwf a b hab hb'

/-- the n-axis piecewise-linear model as a `VarModel` -/
def nAxisModel (ls : List NLoc) (hwf : wfN ls) : VarModel NLoc :=
  { locs := ls, interp := interpolateN ls, law := fun i vs h hv => nAxis_law ls hwf i vs h hv }


/-! ## 4. the master order `getMasterLocationsSortKeyFunc`: a total preorder whose first criterion is the number of axes -/

section order
open Std

theorem cmpQ_swap (a b : Q) : cmpQ a b = (cmpQ b a).swap := by
  unfold cmpQ
  by_cases h1 : a < b
  · have h2 : ¬ b < a := by grind
    simp [h1, h2]
  · by_cases h2 : b < a
    · simp [h1, h2]
    · simp [h1, h2]

theorem cmpQ_isLE (a b : Q) : (cmpQ a b).isLE = true ↔ a ≤ b := by
  unfold cmpQ
  by_cases h1 : a < b
  · simp only [h1, if_true, Ordering.isLE_lt, true_iff]; grind
  · by_cases h2 : b < a
    · simp only [h1, h2, if_false, if_true, Ordering.isLE_gt, Bool.false_eq_true, false_iff]; grind
    · simp only [h1, h2, if_false, Ordering.isLE_eq, true_iff]; grind

instance : TransCmp cmpQ where
  eq_swap := cmpQ_swap _ _
  isLE_trans := by
    intro a b c h1 h2
    rw [cmpQ_isLE] at *
    exact Rat.le_trans h1 h2

/-- compare two things through a projection -/
def cmpVia {α β : Type} (cmp : β → β → Ordering) (f : α → β) : α → α → Ordering := fun a b => cmp (f a) (f b)

instance {α β : Type} (cmp : β → β → Ordering) (f : α → β) [TransCmp cmp] : TransCmp (cmpVia cmp f) where
  eq_swap := OrientedCmp.eq_swap (cmp := cmp)
  isLE_trans := TransCmp.isLE_trans (cmp := cmp)

theorem cmpKeyN_eq : cmpKeyN =
    compareLex (cmpVia compare (fun k : SortKey => k.1)) (compareLex (cmpVia compare (fun k : SortKey => k.2.1))
      (compareLex (cmpVia (List.compareLex compare) (fun k : SortKey => k.2.2.1))
        (compareLex (cmpVia (List.compareLex compare) (fun k : SortKey => k.2.2.2.1))
          (compareLex (cmpVia (List.compareLex compare) (fun k : SortKey => k.2.2.2.2.1))
            (cmpVia (List.compareLex cmpQ) (fun k : SortKey => k.2.2.2.2.2)))))) := by
  funext a b
  rfl

instance : TransCmp cmpKeyN := by
  rw [cmpKeyN_eq]
  infer_instance

theorem keyLeN_trans (ap : List (String × Q)) (ao : List String) (a b c : NLoc) :
    keyLeN ap ao a b = true → keyLeN ap ao b c = true → keyLeN ap ao a c = true := by
  unfold keyLeN
  exact TransCmp.isLE_trans

theorem keyLeN_total (ap : List (String × Q)) (ao : List String) (a b : NLoc) :
    (keyLeN ap ao a b || keyLeN ap ao b a) = true := by
  unfold keyLeN
  rw [OrientedCmp.eq_swap (cmp := cmpKeyN) (a := sortKeyN ap ao b)]
  cases cmpKeyN (sortKeyN ap ao a) (sortKeyN ap ao b) <;> rfl

/-- the first criterion of the order is the rank (number of axes away from the default) -/
theorem keyLeN_rank (ap : List (String × Q)) (ao : List String) (a b : NLoc) (h : keyLeN ap ao a b = true) : a.length ≤ b.length := by
  unfold keyLeN cmpKeyN at h
  rw [Ordering.isLE_then_iff_and] at h
  have h1 := h.1
  simp only [sortKeyN] at h1
  rw [Ordering.isLE_iff_ne_gt] at h1
  apply Classical.byContradiction
  intro hn
  exact h1 (Nat.compare_eq_gt.mpr (by omega))

end order

theorem sortN_perm (ao : List String) (ls : List NLoc) : (sortN ao ls).Perm ls := List.mergeSort_perm _ _

/-- the sorted list is sorted for the key order ... -/
theorem sortN_sorted (ao : List String) (ls : List NLoc) :
    (sortN ao ls).Pairwise (fun a b => keyLeN (axisPointsOf ls) ao a b = true) :=
  List.pairwise_mergeSort (keyLeN_trans _ _) (keyLeN_total _ _) ls

/-- ... hence by rank: what `support_later_zero` needs -/
theorem sortN_rank (ao : List String) (ls : List NLoc) : (sortN ao ls).Pairwise (fun p l => p.length ≤ l.length) :=
  (sortN_sorted ao ls).imp (fun h => keyLeN_rank _ _ _ _ h)


/-! ## 5. the constructor `VariationModel(locations, axisOrder)`: masters and values in the USER's order -/

theorem keysOf_cons {ν : Type} (e : String × ν) (r : List (String × ν)) : keysOf (e :: r) = e.1 :: keysOf r := rfl

theorem keysOf_dropZeros_sublist (l : NLoc) : (keysOf (dropZeros l)).Sublist (keysOf l) :=
  List.Sublist.map _ List.filter_sublist

theorem coord_dropZeros (l : NLoc) (hn : (keysOf l).Nodup) (a : String) : coord (dropZeros l) a = coord l a := by
  induction l with
  | nil => rfl
  | cons e r ih =>
    obtain ⟨k, v⟩ := e
    rw [keysOf_cons, List.nodup_cons] at hn
    have ih' := ih hn.2
    by_cases hv : v = 0
    · subst hv
      have hd : dropZeros ((k, 0) :: r) = dropZeros r := by simp [dropZeros]
      rw [hd, ih']
      by_cases hka : k = a
      · subst hka
        rw [coord_of_not_mem r k hn.1]
        simp [coord, alookup]
      · have : (k == a) = false := by simpa using hka
        simp [coord, alookup, this]
    · have hd : dropZeros ((k, v) :: r) = (k, v) :: dropZeros r := by simp [dropZeros, hv]
      rw [hd]
      unfold coord at *
      simp only [alookup]
      split
      · rfl
      · exact ih'

theorem locOk_dropZeros (l : NLoc) (hn : (keysOf l).Nodup) (hr : ∀ e ∈ l, -1 ≤ e.2 ∧ e.2 ≤ 1) : LocOk (dropZeros l) := by
  refine ⟨List.Nodup.sublist (keysOf_dropZeros_sublist l) hn, ?_⟩
  intro e he
  obtain ⟨hm, hz⟩ := List.mem_filter.mp he
  exact ⟨by simpa using hz, hr e hm⟩

theorem supportScalarGo_congr (x y : NLoc) (h : ∀ a, coord x a = coord y a) (R : Region) (s : Q) :
    supportScalarGo x s R = supportScalarGo y s R := by
  induction R generalizing s with
  | nil => rfl
  | cons e R ih =>
    obtain ⟨a, lo, pk, hi⟩ := e
    simp only [supportScalarGo, h a, ih]

theorem dot_congr {Loc : Type} (S : List (Loc → Q)) (x y : Loc) (D : List Q) (h : ∀ f ∈ S, f x = f y) : dot S x D = dot S y D := by
  induction S generalizing D with
  | nil => cases D <;> simp [dot]
  | cons f S ih =>
    cases D with
    | nil => simp [dot]
    | cons d D =>
      simp only [dot]
      rw [h f (by simp), ih D (fun g hg => h g (by simp [hg]))]

/-- interpolation sees a location only through its coordinates (explicit zeros do not matter) -/
theorem interpolateN_congr (ls : List NLoc) (x y : NLoc) (vs : List Q) (h : ∀ a, coord x a = coord y a) :
    interpolateN ls x vs = interpolateN ls y vs := by
  unfold interpolateN interpolate
  apply dot_congr
  intro f hf
  unfold scalarsN at hf
  obtain ⟨r, _, rfl⟩ := List.mem_map.mp hf
  exact supportScalarGo_congr x y h r 1

theorem allDistinct_iff (ls : List NLoc) : allDistinct ls = true ↔ ls.Pairwise (fun p l => dictEq p l = false) := by
  induction ls with
  | nil => simp [allDistinct]
  | cons l rest ih =>
    simp only [allDistinct, Bool.and_eq_true, List.all_eq_true, Bool.not_eq_true', List.pairwise_cons, ih]

theorem dictEq_refl (l : NLoc) (hn : (keysOf l).Nodup) : dictEq l l = true := by
  unfold dictEq
  simp only [Bool.and_eq_true, List.all_eq_true, beq_iff_eq]
  exact ⟨(sameKeys_iff _ _).mpr (fun _ => Iff.rfl), fun e he => mem_alookup_of_nodup l e.1 e.2 hn he⟩

/-- for dicts of non-zero coordinates, Python's dict inequality is inequality as maps -/
theorem locNe_of_dictEq_false (p l : NLoc) (hp : LocOk p) (hl : LocOk l) (h : dictEq p l = false) : locNe p l = true := by
  apply Classical.byContradiction
  intro hne
  have hne' : locNe p l = false := by simpa using hne
  unfold locNe at hne'
  have hall : ∀ a ∈ keysOf p ++ keysOf l, coord p a = coord l a := by
    intro a ha
    have := List.any_eq_false.mp hne' a ha
    simpa using this
  have key : ∀ (p l : NLoc), LocOk p → (∀ a ∈ keysOf p, coord p a = coord l a) → ∀ x ∈ keysOf p, x ∈ keysOf l := by
    intro p l hp hall x hx
    apply Classical.byContradiction
    intro hxl
    obtain ⟨e, he, rfl⟩ := List.mem_map.mp hx
    have h1 := coord_of_mem p hp.1 e he
    have h2 := coord_of_not_mem l e.1 hxl
    have h3 := hall e.1 hx
    exact (hp.2 e he).1 (by rw [← h1, h3, h2])
  have hpl := key p l hp (fun a ha => hall a (List.mem_append.mpr (Or.inl ha)))
  have hlp := key l p hl (fun a ha => (hall a (List.mem_append.mpr (Or.inr ha))).symm)
  have : dictEq p l = true := by
    unfold dictEq
    simp only [Bool.and_eq_true, List.all_eq_true, beq_iff_eq]
    refine ⟨(sameKeys_iff _ _).mpr (fun x => ⟨hpl x, hlp x⟩), ?_⟩
    intro e he
    have hk := hpl e.1 (mem_keysOf p e he)
    obtain ⟨e', he', hek⟩ := List.mem_map.mp hk
    have h1 := coord_of_mem p hp.1 e he
    have h2 := coord_of_mem l hl.1 e' he'
    have h3 := hall e.1 (List.mem_append.mpr (Or.inl (mem_keysOf p e he)))
    rw [← hek, mem_alookup_of_nodup l e'.1 e'.2 hl.1 he']
    rw [hek] at h2
    rw [← h1, h3, h2]
  rw [this] at h
  exact Bool.noConfusion h

/-- the masters in model order satisfy `wfN` -/
theorem wfN_sortN (ao : List String) (locations : List NLoc) (hwf : wfInput locations) : wfN (sortN ao (locations.map dropZeros)) := by
  obtain ⟨hloc, _, hd, _⟩ := hwf
  have hok : ∀ l ∈ locations.map dropZeros, LocOk l := by
    intro l hl
    obtain ⟨l0, hl0, rfl⟩ := List.mem_map.mp hl
    exact locOk_dropZeros l0 (hloc l0 hl0).1 (hloc l0 hl0).2
  refine ⟨fun l hl => hok l ((sortN_perm ao _).mem_iff.mp hl), ?_, sortN_rank ao _⟩
  have h1 : (locations.map dropZeros).Pairwise (fun p l => locNe p l = true) :=
    ((allDistinct_iff _).mp hd).imp_of_mem (fun ha hb h => locNe_of_dictEq_false _ _ (hok _ ha) (hok _ hb) h)
  exact h1.perm (sortN_perm ao _).symm (fun h => by rw [locNe_symm]; exact h)

/-- MASTER REPRODUCTION FOR THE MODELLED `VariationModel`: for every well-formed master set in ANY order, on any number of axes,
    the constructor succeeds and `interpolateFromDeltas(locations[i], getDeltas(values)) = values[i]` for every master `i`
    (locations and values in the user's order, the location as the user wrote it - explicit zeros included) -/
theorem variationModel_law (ao : List String) (locations : List NLoc) (hwf : wfInput locations) :
    ∃ m, variationModel ao locations = .ok m ∧ m.locations = sortN ao (locations.map dropZeros) ∧
      m.supports = supportsN m.locations ∧
      ∀ (values : List Q) (i : Nat) (h : i < locations.length) (hv : values.length = locations.length),
        m.interpolateFromMasters locations[i] values = values[i] := by
  have hwfN := wfN_sortN ao locations hwf
  obtain ⟨hloc, hd0, hd, hbase⟩ := hwf
  refine ⟨_, by simp only [variationModel, hd0, hd, hbase, Bool.not_true, Bool.false_eq_true, if_false]; rfl, rfl, rfl, ?_⟩
  intro values i h hv
  simp only [VModel.interpolateFromMasters]
  generalize hlocs : locations.map dropZeros = locs at *
  have hlen : locs.length = locations.length := by rw [← hlocs]; simp
  have hi : i < locs.length := by omega
  have hli : locs[i] = dropZeros locations[i] := by subst hlocs; simp
  have hmem : locs[i] ∈ sortN ao locs := (sortN_perm ao locs).mem_iff.mpr (List.getElem_mem hi)
  obtain ⟨k, hk, hke⟩ := List.getElem_of_mem hmem
  have hcoord : ∀ a, coord locations[i] a = coord (sortN ao locs)[k] a := by
    intro a
    rw [hke, hli, coord_dropZeros _ (hloc _ (List.getElem_mem h)).1]
  rw [interpolateN_congr _ _ _ _ hcoord]
  rw [nAxis_law (sortN ao locs) hwfN k _ hk (by simp)]
  simp only [List.getElem_map]
  have hnd : (keysOf locs[i]).Nodup := by
    rw [hli]; exact (locOk_dropZeros _ (hloc _ (List.getElem_mem h)).1 (hloc _ (List.getElem_mem h)).2).1
  have hfi : locs.findIdx (fun p => dictEq p (sortN ao locs)[k]) = i := by
    rw [List.findIdx_eq hi]
    rw [hke]
    refine ⟨dictEq_refl _ hnd, ?_⟩
    intro j hji
    exact List.pairwise_iff_getElem.mp ((allDistinct_iff _).mp hd) j i (by omega) hi hji
  rw [hfi]
  simp [List.getD_eq_getElem?_getD, show i < values.length by omega]


/-! ## 6. one axis: the definitions of Model/C10Var §"one axis" are the special case -/

/-- a one-axis location as a dict (zeros dropped) -/
def loc1 (a : String) (x : Q) : NLoc := if x == 0 then [] else [(a, x)]
/-- a one-axis support as a dict -/
def reg1 (a : String) : Option Triple → Region
  | none => []
  | some t => [(a, t)]

theorem coord_loc1 (a : String) (x : Q) : coord (loc1 a x) a = x := by
  unfold loc1
  by_cases h : x = 0
  · simp [h, coord, alookup]
  · simp [h, coord, alookup]

/-- `supportScalar` on one axis is `scalar1` -/
theorem supportScalar_one (a : String) (r : Option Triple) (x : Q) : supportScalar (loc1 a x) (reg1 a r) = scalar1 r x := by
  cases r with
  | none => rfl
  | some t =>
    obtain ⟨lo, pk, hi⟩ := t
    simp only [reg1, supportScalar, supportScalarGo, coord_loc1, scalar1, Rat.one_mul]
    repeat' split
    all_goals rfl

theorem narrow_one (a : String) (l : Q) (box : Q × Q) (p : Q) :
    narrow [(a, box.1, l, box.2)] (loc1 a p) = [(a, (splitBox l box p).1, l, (splitBox l box p).2)] := by
  by_cases h0 : p = 0
  · subst h0
    rw [sb_zero]
    simp [narrow, loc1, sameKeys, keysOf]
  · have hl1 : loc1 a p = [(a, p)] := by simp [loc1, h0]
    have hsame : sameKeys (keysOf [(a, p)]) (keysOf [(a, box.1, l, box.2)]) = true := by simp [sameKeys, keysOf]
    have hrel : relevant [(a, box.1, l, box.2)] [(a, p)] = (p == l || (decide (box.1 < p) && decide (p < box.2))) := by
      simp [relevant, coord, alookup]
    rw [hl1]
    unfold narrow
    simp only [hsame, hrel, Bool.not_true, Bool.false_eq_true, if_false]
    by_cases hpl : p = l
    · subst hpl
      have hb : bestAxes [(a, box.1, p, box.2)] [(a, p)] = [] := by
        simp [bestAxes, bestStep, alookup, Rat.lt_irrefl]
      have hs : splitBox p box p = box := by
        unfold splitBox
        simp [h0, Rat.lt_irrefl]
      simp [hb, hs, applyBest, alookup]
    · by_cases hin : box.1 < p ∧ p < box.2
      · have hc : (p == l || (decide (box.1 < p) && decide (p < box.2))) = true := by simp [hin.1, hin.2]
        simp only [hc, Bool.not_true, Bool.false_eq_true, if_false]
        by_cases hlt : p < l
        · rw [sb_lo l p box h0 hin.1 hin.2 hlt]
          have hr : -1 < (p - l) / (box.1 - l) := ratio_gt_of_neg _ _ (by grind) (by grind)
          have hb : bestAxes [(a, box.1, l, box.2)] [(a, p)] = [(a, (p, l, box.2))] := by
            simp only [bestAxes, List.foldl_cons, List.foldl_nil, bestStep, alookup, beq_self_eq_true, if_true, hlt]
            rw [bestUpd_gt _ _ _ _ hr]
          simp [hb, applyBest, alookup]
        · have hgt : l < p := by grind
          rw [sb_hi l p box h0 hin.1 hin.2 hgt]
          have hr : -1 < (p - l) / (box.2 - l) := ratio_gt_of_pos _ _ (by grind) (by grind)
          have hb : bestAxes [(a, box.1, l, box.2)] [(a, p)] = [(a, (box.1, l, p))] := by
            simp only [bestAxes, List.foldl_cons, List.foldl_nil, bestStep, alookup, beq_self_eq_true, if_true, hlt, if_false, hgt]
            rw [bestUpd_gt _ _ _ _ hr]
          simp [hb, applyBest, alookup]
      · rw [sb_irrel l p box hpl hin]
        have hc : (p == l || (decide (box.1 < p) && decide (p < box.2))) = false := by
          simp only [Bool.or_eq_false_iff, beq_eq_false_iff_ne, ne_eq, hpl, not_false_eq_true, true_and, Bool.and_eq_false_iff,
            decide_eq_false_iff_not]
          by_cases h1 : box.1 < p
          · right; exact fun h2 => hin ⟨h1, h2⟩
          · left; exact h1
        simp [hc]

theorem narrowFold_one (a : String) (l : Q) (prev : List Q) (box : Q × Q) :
    (prev.map (loc1 a)).foldl narrow [(a, box.1, l, box.2)] =
      [(a, (prev.foldl (splitBox l) box).1, l, (prev.foldl (splitBox l) box).2)] := by
  induction prev generalizing box with
  | nil => rfl
  | cons p prev ih =>
    simp only [List.map_cons, List.foldl_cons]
    rw [narrow_one, ih]

theorem narrowFold_nil (prev : List NLoc) : prev.foldl narrow [] = [] := by
  induction prev with
  | nil => rfl
  | cons p prev ih =>
    simp only [List.foldl_cons]
    have : narrow [] p = [] := by
      unfold narrow applyBest
      split
      · rfl
      · split <;> rfl
    rw [this, ih]

/-- `_computeMasterSupports` on one axis is `region1` -/
theorem regionOf_one (a : String) (prev : List Q) (l : Q) :
    regionOf (prev.map (loc1 a)) (loc1 a l) = reg1 a (region1 prev l) := by
  unfold regionOf region1
  by_cases h0 : l = 0
  · simp [h0, loc1, initRegion, narrowFold_nil, reg1]
  · have hl1 : loc1 a l = [(a, l)] := by simp [loc1, h0]
    simp only [hl1, beq_iff_eq, h0, if_false, reg1]
    by_cases hpos : l > 0
    · have : initRegion [(a, l)] = [(a, ((0 : Q), (1 : Q)).1, l, ((0 : Q), (1 : Q)).2)] := by simp [initRegion, hpos]
      rw [this, narrowFold_one]
      simp [hpos]
    · have : initRegion [(a, l)] = [(a, ((-1 : Q), (0 : Q)).1, l, ((-1 : Q), (0 : Q)).2)] := by simp [initRegion, hpos]
      rw [this, narrowFold_one]
      simp [hpos]

theorem supportsNGo_one (a : String) (prev ls : List Q) :
    supportsNGo (prev.map (loc1 a)) (ls.map (loc1 a)) = (supports1Go prev ls).map (reg1 a) := by
  induction ls generalizing prev with
  | nil => rfl
  | cons l ls ih =>
    simp only [List.map_cons, supportsNGo, supports1Go, regionOf_one]
    have := ih (prev ++ [l])
    simp only [List.map_append, List.map_cons, List.map_nil] at this
    rw [this]

theorem supportsN_one (a : String) (ls : List Q) : supportsN (ls.map (loc1 a)) = (supports1 ls).map (reg1 a) := by
  have := supportsNGo_one a [] ls
  simpa [supportsN, supports1] using this

section transport
variable {L L' T : Type} (φ : L → L') (f : T → L → Q) (g : T → L' → Q) (hfg : ∀ r x, g r (φ x) = f r x)
include hfg

theorem dot_transport (P : List T) (x : L) (D : List Q) : dot (P.map g) (φ x) D = dot (P.map f) x D := by
  induction P generalizing D with
  | nil => cases D <;> simp [dot]
  | cons r P ih =>
    cases D with
    | nil => simp [dot]
    | cons d D => simp only [List.map_cons, dot, hfg, ih]

theorem deltasGo_transport (P U : List T) (pD : List Q) (locs : List L) (vs : List Q) :
    deltasGo (P.map g) pD ((U.map g).zip ((locs.map φ).zip vs)) = deltasGo (P.map f) pD ((U.map f).zip (locs.zip vs)) := by
  induction U generalizing P pD locs vs with
  | nil => simp [deltasGo]
  | cons r U ih =>
    cases locs with
    | nil => simp [deltasGo]
    | cons l locs =>
      cases vs with
      | nil => simp [deltasGo]
      | cons v vs =>
        simp only [List.map_cons, List.zip_cons_cons, deltasGo]
        rw [dot_transport φ f g hfg]
        have := ih (P ++ [r]) (pD ++ [v - dot (P.map f) l pD]) locs vs
        simpa using this

theorem interpolate_transport (U : List T) (locs : List L) (x : L) (vs : List Q) :
    interpolate (U.map g) (locs.map φ) (φ x) vs = interpolate (U.map f) locs x vs := by
  unfold interpolate deltas
  have := deltasGo_transport φ f g hfg [] U [] locs vs
  simp only [List.map_nil] at this
  rw [this, dot_transport φ f g hfg]

end transport

/-- the n-axis model restricted to one axis IS the one-axis model (supports, deltas, interpolation) -/
theorem interpolateN_one (a : String) (ls : List Q) (x : Q) (vs : List Q) :
    interpolateN (ls.map (loc1 a)) (loc1 a x) vs = interpolate1 ls x vs := by
  unfold interpolateN interpolate1 scalarsN
  rw [supportsN_one, List.map_map]
  exact interpolate_transport (loc1 a) (fun r => scalar1 r) (fun r y => supportScalar y (reg1 a r))
    (fun r x => supportScalar_one a r x) (supports1 ls) ls x vs


/-! ## 7. the property on the model's output, rejected inputs, `supportScalar` as a product -/

/-- C10 for the modelled `VariationModel`: what is read back at the masters' locations IS the master values (tolerance 0) -/
theorem C10_varmodel (ao : List String) (locations : List NLoc) (values : List Q) (hwf : wfInput locations)
    (hv : values.length = locations.length) :
    ∃ m, variationModel ao locations = .ok m ∧
      holdsReproduce values (locations.map (fun x => m.interpolateFromMasters x values)) 0 = true := by
  obtain ⟨m, hm, _, _, hlaw⟩ := variationModel_law ao locations hwf
  refine ⟨m, hm, ?_⟩
  unfold holdsReproduce
  simp only [List.length_map, hv, beq_self_eq_true, Bool.true_and, List.all_eq_true, decide_eq_true_eq]
  intro p hp
  obtain ⟨i, hi, rfl⟩ := List.getElem_of_mem hp
  simp only [List.length_zip, List.length_map] at hi
  have hi' : i < locations.length := by omega
  simp only [List.getElem_zip, List.getElem_map]
  rw [hlaw values i hi' hv]
  simp [absQ, Rat.sub_self]

/-- rejected inputs: `Locations must be unique.` -/
theorem variationModel_unique (ao : List String) (locations : List NLoc) (h : allDistinct locations = false) :
    variationModel ao locations = .error "unique" := by
  simp [variationModel, h]

/-- rejected inputs: `Base master not found.` -/
theorem variationModel_nobase (ao : List String) (locations : List NLoc) (h : allDistinct locations = true)
    (hb : (locations.map dropZeros).contains [] = false) : variationModel ao locations = .error "nobase" := by
  unfold variationModel
  simp only [h, hb, Bool.not_true, Bool.false_eq_true, if_false, Bool.not_false, if_true]

/-- product of the per-axis tents -/
def prodFactors (loc : NLoc) : Region → Q
  | [] => 1
  | e :: rest => axisFactor loc e * prodFactors loc rest

/-- `supportScalar` (a loop with a running product and a `break`) is the product of the per-axis tents `scalar1` -/
theorem supportScalarGo_prod (loc : NLoc) (R : Region) (s : Q) : supportScalarGo loc s R = s * prodFactors loc R := by
  induction R generalizing s with
  | nil => simp [supportScalarGo, prodFactors, Rat.mul_one]
  | cons e R ih =>
    obtain ⟨a, lo, pk, hi⟩ := e
    simp only [supportScalarGo, prodFactors, axisFactor, scalar1]
    repeat' split
    all_goals (first | (rw [ih]; grind) | grind)

theorem supportScalar_prod (loc : NLoc) (R : Region) : supportScalar loc R = prodFactors loc R := by
  unfold supportScalar
  rw [supportScalarGo_prod, Rat.one_mul]

/-! ## 8. non-vacuity: two axes, on-axis masters (one intermediate), a corner and two intermediate masters inside the quadrant -/

def exMasters : List NLoc :=
  [[], [("wght", 1/2)], [("wght", 1)], [("wdth", -1)], [("wdth", 1)],
   [("wght", 1), ("wdth", 1)], [("wdth", 1/2), ("wght", 1/2)], [("wght", 1/2), ("wdth", 3/4)]]

example : wfN exMasters := by decide +kernel
/-- the box of the last master was narrowed by the earlier master (1/2, 1/2): lower bound of `wdth` moved from 0 to 1/2 -/
example : regionOf (exMasters.take 7) [("wght", 1/2), ("wdth", 3/4)] = [("wght", 0, 1/2, 1), ("wdth", 1/2, 3/4, 1)] := by
  decide +kernel
example : interpolateN exMasters [("wght", 1/2), ("wdth", 1/2)] [10, 40, 20, 0, 7, 100, -30, 55] = -30 := by decide +kernel
example : interpolateN exMasters [("wght", 1/2), ("wdth", 3/4)] [10, 40, 20, 0, 7, 100, -30, 55] = 55 := by decide +kernel
/-- between the masters the model really interpolates (not a master's value) -/
example : interpolateN exMasters [("wght", 3/4), ("wdth", 3/4)] [10, 40, 20, 0, 7, 100, -30, 55] = 135/2 := by decide +kernel

/-- the user's order and dict style: shuffled, explicit zeros -/
def exInput : List NLoc :=
  [[("wght", 1), ("wdth", 1)], [("wdth", 3/4), ("wght", 1/2)], [("wght", 0), ("wdth", 0)], [("wght", 1), ("wdth", 0)],
   [("wght", 0), ("wdth", 1)], [("wght", 1/2), ("wdth", 1/2)], [("wdth", -1)], [("wght", 1/2)]]
example : wfInput exInput := by decide +kernel
/-- three axes: the law's hypotheses hold for a cube corner, a face intermediate and a body intermediate -/
example : wfN [[], [("a", 1)], [("b", 1)], [("c", -1)], [("a", 1), ("b", 1/2)], [("a", 1), ("b", 1)],
    [("a", 1/2), ("b", 1/2), ("c", -1/2)], [("a", 1), ("b", 1), ("c", -1)]] := by decide +kernel


/-! ## 9. one axis: the master order -/

theorem mem_axisPoints_one (a : String) (ls : List Q) (x : Q) (hx : x ∈ ls) (h0 : x ≠ 0) :
    (a, x) ∈ axisPointsOf (ls.map (loc1 a)) := by
  unfold axisPointsOf
  rw [List.mem_filterMap]
  refine ⟨loc1 a x, List.mem_map.mpr ⟨x, hx, rfl⟩, ?_⟩
  simp [loc1, h0]

theorem sortKeyN_one_zero (a : String) (ap : List (String × Q)) : sortKeyN ap [] (loc1 a 0) = (0, 0, [], [], [], []) := by
  simp [sortKeyN, loc1, orderedAxes, keysOf, sortStr]

theorem sortKeyN_one (a : String) (ap : List (String × Q)) (x : Q) (h0 : x ≠ 0) (hm : (a, x) ∈ ap) :
    sortKeyN ap [] (loc1 a x) = (1, -1, [0x10000], [a], [sgn x], [absQ x]) := by
  have hon : onPoint ap (a, x) = true := by
    unfold onPoint
    simp only [Bool.and_eq_true, List.any_eq_true, Bool.or_eq_true]
    exact ⟨⟨(a, x), hm, by simp⟩, Or.inr ⟨(a, x), hm, by simp⟩⟩
  simp [sortKeyN, loc1, h0, orderedAxes, keysOf, sortStr, hon, coord, alookup]

theorem sgn_nonzero (x : Q) (h0 : x ≠ 0) : sgn x = if x < 0 then -1 else 1 := by
  unfold sgn
  by_cases h : x < 0
  · simp [h]
  · have : 0 < x := by grind
    simp [h, this]

theorem keyLe_one (a : String) (ls : List Q) (x y : Q) (hx : x ∈ ls) (hy : y ∈ ls) :
    keyLe1 x y = keyLeN (axisPointsOf (ls.map (loc1 a))) [] (loc1 a x) (loc1 a y) := by
  unfold keyLeN
  by_cases hx0 : x = 0
  · subst hx0
    rw [sortKeyN_one_zero]
    by_cases hy0 : y = 0
    · subst hy0
      rw [sortKeyN_one_zero]
      decide +kernel
    · rw [sortKeyN_one a _ y hy0 (mem_axisPoints_one a ls y hy hy0)]
      have h01 : compare (0 : Nat) 1 = Ordering.lt := by decide
      simp [keyLe1, sortKey1, hy0, cmpKeyN, h01]
  · rw [sortKeyN_one a _ x hx0 (mem_axisPoints_one a ls x hx hx0)]
    by_cases hy0 : y = 0
    · subst hy0
      rw [sortKeyN_one_zero]
      have h10 : compare (1 : Nat) 0 = Ordering.gt := by decide
      simp [keyLe1, sortKey1, hx0, cmpKeyN, h10]
    · rw [sortKeyN_one a _ y hy0 (mem_axisPoints_one a ls y hy hy0)]
      have hcs : compare a a = Ordering.eq := Std.ReflCmp.compare_self
      simp only [keyLe1, sortKey1, hx0, hy0, beq_iff_eq, if_false, cmpKeyN, sgn_nonzero, ne_eq, not_false_eq_true,
        List.compareLex_cons_cons, List.compareLex_nil_nil, hcs, Ordering.then_eq, Nat.compare_eq_eq.mpr rfl,
        Int.compare_eq_eq.mpr rfl, Ordering.eq_then]
      have hlt : compare (-1 : Int) 1 = Ordering.lt := by decide
      have hgt : compare (1 : Int) (-1) = Ordering.gt := by decide
      have heq : decide (absQ x ≤ absQ y) = (cmpQ (absQ x) (absQ y)).isLE := by
        rw [Bool.eq_iff_iff, decide_eq_true_eq, cmpQ_isLE]
      by_cases hxn : x < 0 <;> by_cases hyn : y < 0 <;> simp [hxn, hyn, hlt, hgt, heq]

/-- `getMasterLocationsSortKeyFunc` on one axis is `sort1` -/
theorem sortN_one (a : String) (ls : List Q) : sortN [] (ls.map (loc1 a)) = (sort1 ls).map (loc1 a) := by
  unfold sortN sort1
  exact (List.map_mergeSort (fun x hx y hy => keyLe_one a ls x y hx hy)).symm



/-! ## 10. rounded deltas: `getDeltas(values, round=...)` as varLib stores them -/

theorem deltasWithGo_append {Loc : Type} (rnd : Q → Q) (pS : List (Loc → Q)) (pD : List Q) (m1 m2 : List ((Loc → Q) × Loc × Q)) :
    deltasWithGo rnd pS pD (m1 ++ m2) = deltasWithGo rnd (pS ++ m1.map (·.1)) (deltasWithGo rnd pS pD m1) m2 := by
  induction m1 generalizing pS pD with
  | nil => simp [deltasWithGo]
  | cons m m1 ih =>
    obtain ⟨f, l, v⟩ := m
    simp only [List.cons_append, deltasWithGo, ih, List.map_cons, List.append_assoc, List.nil_append]

theorem deltasWithGo_prefix {Loc : Type} (rnd : Q → Q) (pS : List (Loc → Q)) (pD : List Q) (ms : List ((Loc → Q) × Loc × Q)) :
    ∃ t, deltasWithGo rnd pS pD ms = pD ++ t ∧ t.length = ms.length := by
  induction ms generalizing pS pD with
  | nil => exact ⟨[], by simp [deltasWithGo]⟩
  | cons m ms ih =>
    obtain ⟨f, l, v⟩ := m
    obtain ⟨t, ht, hl⟩ := ih (pS ++ [f]) (pD ++ [rnd (v - dot pS l pD)])
    exact ⟨rnd (v - dot pS l pD) :: t, by simp [deltasWithGo, ht], by simp [hl]⟩

/-- with `round = id` this is the exact construction -/
theorem deltasWithGo_id {Loc : Type} (pS : List (Loc → Q)) (pD : List Q) (ms : List ((Loc → Q) × Loc × Q)) :
    deltasWithGo id pS pD ms = deltasGo pS pD ms := by
  induction ms generalizing pS pD with
  | nil => rfl
  | cons m ms ih => obtain ⟨f, l, v⟩ := m; simp only [deltasWithGo, deltasGo, ih, id]

/-- what the rounded construction gives back at master `i`: with `x` = the number that was rounded to get master `i`'s delta
    (its value minus the contributions of the earlier ROUNDED deltas), the interpolated value is `v - x + rnd x`: the error is
    the error of that ONE rounding -/
theorem deltasWith_reproduce {Loc : Type} (rnd : Q → Q) (A B : List ((Loc → Q) × Loc × Q)) (f : Loc → Q) (l : Loc) (v : Q)
    (hd : f l = 1) (hu : ∀ b ∈ B, b.1 l = 0) :
    dot ((A ++ (f, l, v) :: B).map (·.1)) l (deltasWith rnd (A ++ (f, l, v) :: B)) =
      v - (v - dot (A.map (·.1)) l (deltasWith rnd A)) + rnd (v - dot (A.map (·.1)) l (deltasWith rnd A)) := by
  unfold deltasWith
  rw [deltasWithGo_append]
  obtain ⟨tA, hA, hlA⟩ := deltasWithGo_prefix rnd ([] : List (Loc → Q)) [] A
  simp only [List.nil_append] at hA
  simp only [deltasWithGo, List.nil_append, hA]
  obtain ⟨tB, hB, hlB⟩ := deltasWithGo_prefix rnd (A.map (·.1) ++ [f]) (tA ++ [rnd (v - dot (A.map (·.1)) l tA)]) B
  rw [hB]
  simp only [List.map_append, List.map_cons]
  have e1 : (A.map (·.1) ++ f :: B.map (·.1)) = (A.map (·.1) ++ [f]) ++ B.map (·.1) := by simp
  rw [e1, dot_append _ _ _ _ _ (by simp [hlA]), dot_append _ _ _ _ _ (by simp [hlA])]
  rw [dot_zero (B.map (·.1)) l tB (by
    intro g hg
    obtain ⟨b, hb, rfl⟩ := List.mem_map.mp hg
    exact hu b hb)]
  simp only [dot, hd]
  grind

/-- the number that is rounded to get the delta of master `i` -/
def preDelta {Loc : Type} (rnd : Q → Q) (S : List (Loc → Q)) (locs : List Loc) (vs : List Q) (i : Nat) (l : Loc) (v : Q) : Q :=
  v - dot (((S.zip (locs.zip vs)).take i).map (·.1)) l (deltasWith rnd ((S.zip (locs.zip vs)).take i))

theorem deltaModel_law_with {Loc : Type} (rnd : Q → Q) (S : List (Loc → Q)) (locs : List Loc) (hlen : S.length = locs.length)
    (hd : ∀ i (h1 : i < S.length) (h2 : i < locs.length), S[i] locs[i] = 1)
    (hu : ∀ i j (hi : i < locs.length) (hj : j < S.length), i < j → S[j] locs[i] = 0)
    (i : Nat) (vs : List Q) (h : i < locs.length) (hv : vs.length = locs.length) :
    interpolateWith rnd S locs locs[i] vs =
      vs[i] - preDelta rnd S locs vs i locs[i] vs[i] + rnd (preDelta rnd S locs vs i locs[i] vs[i]) := by
  unfold interpolateWith preDelta
  have hms : (S.zip (locs.zip vs)).length = locs.length := by simp [hlen, hv]
  have hi : i < (S.zip (locs.zip vs)).length := by omega
  have hsplit : S.zip (locs.zip vs) = (S.zip (locs.zip vs)).take i ++ (S.zip (locs.zip vs))[i] :: (S.zip (locs.zip vs)).drop (i + 1) := by
    rw [List.getElem_cons_drop, List.take_append_drop]
  have hel : (S.zip (locs.zip vs))[i] = (S[i], locs[i], vs[i]) := by simp
  have hS : (S.zip (locs.zip vs)).map (·.1) = S := by
    apply List.map_fst_zip
    simp [hlen, hv]
  have key := deltasWith_reproduce rnd ((S.zip (locs.zip vs)).take i) ((S.zip (locs.zip vs)).drop (i + 1)) S[i] locs[i] vs[i]
    (hd i (by omega) h) (by
      intro b hb
      obtain ⟨k, hk, rfl⟩ := List.mem_iff_getElem.mp hb
      simp only [List.length_drop] at hk
      simp only [List.getElem_drop, List.getElem_zip]
      exact hu i (i + 1 + k) h (by omega) (by omega))
  rw [← hel, ← hsplit, hS] at key
  exact key

/-- (2) ROUNDED MASTER REPRODUCTION: with integer deltas computed as `getDeltas(values, round=otRound)` does, the value
    interpolated at master `i`'s location is within 1/2 of master `i`'s value (more precisely in `(v - 1/2, v + 1/2]`), for
    any number of axes and masters: the error is the error of the ONE rounding of master `i`'s own delta, because the later
    supports vanish there and the own support is 1 -/
theorem nAxis_law_rounded (ls : List NLoc) (hwf : wfN ls) (i : Nat) (vs : List Q) (h : i < ls.length) (hv : vs.length = ls.length) :
    vs[i] - 1/2 < interpolateNRound otRound ls ls[i] vs ∧ interpolateNRound otRound ls ls[i] vs ≤ vs[i] + 1/2 ∧
      absQ (interpolateNRound otRound ls ls[i] vs - vs[i]) ≤ 1/2 := by
  unfold interpolateNRound
  rw [deltaModel_law_with _ (scalarsN ls) ls (scalarsN_length ls) (fun k h1 h2 => by
      rw [scalarsN_get ls k h2]; exact support_self ls hwf.1 k h2) (fun a b ha hb hab => by
      have hb' : b < ls.length := by rw [← scalarsN_length ls]; exact hb
      rw [scalarsN_get ls b hb']; exact support_later_zero ls hwf a b hab hb') i vs h hv]
  generalize preDelta _ (scalarsN ls) ls vs i ls[i] vs[i] = x
  have hx := otRound_near x
  refine ⟨by grind, by grind, ?_⟩
  unfold absQ
  split <;> grind


/-! ### integer master values -/

def IsInt (q : Q) : Prop := ∃ n : Int, q = (n : Q)

theorem isInt_zero : IsInt 0 := ⟨0, by simp⟩
theorem isInt_add {a b : Q} (ha : IsInt a) (hb : IsInt b) : IsInt (a + b) := by
  obtain ⟨m, rfl⟩ := ha; obtain ⟨n, rfl⟩ := hb; exact ⟨m + n, by simp [Rat.intCast_add]⟩
theorem isInt_sub {a b : Q} (ha : IsInt a) (hb : IsInt b) : IsInt (a - b) := by
  obtain ⟨m, rfl⟩ := ha; obtain ⟨n, rfl⟩ := hb; exact ⟨m - n, by simp [Rat.intCast_sub]⟩
theorem isInt_mul {a b : Q} (ha : IsInt a) (hb : IsInt b) : IsInt (a * b) := by
  obtain ⟨m, rfl⟩ := ha; obtain ⟨n, rfl⟩ := hb; exact ⟨m * n, by simp [Rat.intCast_mul]⟩

/-- rounding an integer does nothing -/
theorem otRound_intCast (n : Int) : otRound (n : Q) = n := by
  unfold otRound
  have h1 : n ≤ ((n : Q) + 1/2).floor := Rat.le_floor_iff.mpr (by grind)
  have h2 : ((n : Q) + 1/2).floor < n + 1 := Rat.floor_lt_iff.mpr (by simp [Rat.intCast_add]; grind)
  omega

theorem dot_isInt {Loc : Type} (S : List (Loc → Q)) (x : Loc) (D : List Q) (hS : ∀ f ∈ S, IsInt (f x)) (hD : ∀ d ∈ D, IsInt d) :
    IsInt (dot S x D) := by
  induction S generalizing D with
  | nil => cases D <;> exact isInt_zero
  | cons f S ih =>
    cases D with
    | nil => exact isInt_zero
    | cons d D =>
      simp only [dot]
      exact isInt_add (isInt_mul (hS f (by simp)) (hD d (by simp)))
        (ih D (fun g hg => hS g (by simp [hg])) (fun e he => hD e (by simp [he])))

theorem deltasWithGo_all {Loc : Type} (P : Q → Prop) (rnd : Q → Q) (hr : ∀ x, P (rnd x)) (pS : List (Loc → Q)) (pD : List Q)
    (ms : List ((Loc → Q) × Loc × Q)) (hp : ∀ d ∈ pD, P d) : ∀ d ∈ deltasWithGo rnd pS pD ms, P d := by
  induction ms generalizing pS pD with
  | nil => exact hp
  | cons m ms ih =>
    obtain ⟨f, l, v⟩ := m
    simp only [deltasWithGo]
    apply ih
    intro d hd
    rcases List.mem_append.mp hd with hd | hd
    · exact hp d hd
    · simp only [List.mem_singleton] at hd; subst hd; exact hr _

/-- every stored delta is an integer -/
theorem deltasNRound_isInt (rnd : Q → Int) (ls : List NLoc) (vs : List Q) : ∀ d ∈ deltasNRound rnd ls vs, IsInt d :=
  deltasWithGo_all IsInt _ (fun x => ⟨rnd x, rfl⟩) [] [] _ (by simp)

/-- (2') EXACT reproduction of an integer master value when the scalars of the earlier masters at this master's location are
    integers (0 or 1 in practice: masters on the axes, at corners, intermediates on one axis).  With FRACTIONAL earlier scalars the
    reproduction is in general NOT exact even for integer master values: `rounded_not_exact_witness`. -/
theorem nAxis_law_rounded_int (ls : List NLoc) (hwf : wfN ls) (i : Nat) (vs : List Q) (h : i < ls.length) (hv : vs.length = ls.length)
    (hvi : IsInt vs[i])
    (hw : ∀ j (hj : j < i), IsInt (supportScalar ls[i] ((supportsN ls)[j]'(by rw [supportsN_length]; omega)))) :
    interpolateNRound otRound ls ls[i] vs = vs[i] := by
  unfold interpolateNRound
  rw [deltaModel_law_with _ (scalarsN ls) ls (scalarsN_length ls) (fun k h1 h2 => by
      rw [scalarsN_get ls k h2]; exact support_self ls hwf.1 k h2) (fun a b ha hb hab => by
      have hb' : b < ls.length := by rw [← scalarsN_length ls]; exact hb
      rw [scalarsN_get ls b hb']; exact support_later_zero ls hwf a b hab hb') i vs h hv]
  have hx : IsInt (preDelta (fun x => ((otRound x : Int) : Q)) (scalarsN ls) ls vs i ls[i] vs[i]) := by
    unfold preDelta
    apply isInt_sub hvi
    apply dot_isInt
    · intro f hf
      obtain ⟨e, he, rfl⟩ := List.mem_map.mp hf
      obtain ⟨j, hj, rfl⟩ := List.mem_take_iff_getElem.mp he
      have hj' : j < i := by omega
      have hjl : j < ls.length := by omega
      simp only [List.getElem_zip]
      rw [scalarsN_get ls j hjl]
      exact hw j hj'
    · exact deltasWithGo_all IsInt _ (fun x => ⟨otRound x, rfl⟩) [] [] _ (by simp)
  obtain ⟨n, hn⟩ := hx
  rw [hn, otRound_intCast]
  grind

/-- two axes: default, the two axis extremes, the corner, two intermediate masters inside the quadrant (in model order) -/
def exQuad : List NLoc :=
  [[], [("a", 1)], [("b", 1)], [("a", 1), ("b", 1)], [("a", 1/2), ("b", 1/2)], [("a", 1/2), ("b", 3/4)]]

example : wfN exQuad := by decide +kernel

/-- integer master values, but the corner's support is 1/4 at the intermediate master (1/2, 1/2): the corner's integer delta 1
    contributes 1/4 there, the intermediate master's own delta rounds -1/4 to 0, and the value read back is 1/4, not 0 -/
theorem rounded_not_exact_witness :
    interpolateNRound otRound exQuad [("a", 1/2), ("b", 1/2)] [0, 0, 0, 1, 0, 0] = 1/4 ∧
      supportScalar [("a", 1/2), ("b", 1/2)] (regionOf (exQuad.take 3) [("a", 1), ("b", 1)]) = 1/4 := by
  decide +kernel

/-- CONTRAST (why `getDeltas` subtracts the ROUNDED earlier deltas): rounding the exact deltas independently misses an integer
    master by 3/4 - the exact deltas of the two intermediate masters are both -1/2, each rounds to 0, and at the last master
    both errors add up (1/2 + 1/2·1/2); the sequential rounding of the code gives the last delta -1 and stays within 1/2 (-1/4) -/
theorem roundedAfter_witness :
    interpolateRoundedAfter (fun x => ((otRound x : Int) : Q)) (scalarsN exQuad) exQuad [("a", 1/2), ("b", 3/4)] [0, 0, 0, 2, 0, 0] = 3/4 ∧
      interpolateNRound otRound exQuad [("a", 1/2), ("b", 3/4)] [0, 0, 0, 2, 0, 0] = -1/4 ∧
      deltasN exQuad [0, 0, 0, 2, 0, 0] = [0, 0, 0, 2, -1/2, -1/2] ∧
      deltasNRound otRound exQuad [0, 0, 0, 2, 0, 0] = [0, 0, 0, 2, 0, -1] := by
  decide +kernel


/-! ### the constructor on the user's order, and what a rounding consumer reads back -/

theorem interpolateNRound_congr (rnd : Q → Int) (ls : List NLoc) (x y : NLoc) (vs : List Q) (h : ∀ a, coord x a = coord y a) :
    interpolateNRound rnd ls x vs = interpolateNRound rnd ls y vs := by
  unfold interpolateNRound interpolateWith
  apply dot_congr
  intro f hf
  unfold scalarsN at hf
  obtain ⟨r, _, rfl⟩ := List.mem_map.mp hf
  exact supportScalarGo_congr x y h r 1

/-- where the user's master `i` sits in the model order, and that `reverseMapping` brings its value there -/
theorem userOrder_spec (ao : List String) (locations locs : List NLoc) (hlocs : locs = locations.map dropZeros)
    (hwf : wfInput locations) (values : List Q) (i : Nat) (h : i < locations.length) (hv : values.length = locations.length) :
    ∃ (k : Nat) (hk : k < (sortN ao locs).length),
      (∀ a, coord locations[i] a = coord (sortN ao locs)[k] a) ∧
      (((sortN ao locs).map (fun l => locs.findIdx (fun p => dictEq p l))).map
        (fun k => values.getD k 0))[k]'(by simpa using hk) = values[i] := by
  obtain ⟨hloc, hd0, hd, hbase⟩ := hwf
  rw [← hlocs] at hd hbase
  have hlen : locs.length = locations.length := by rw [hlocs]; simp
  have hi : i < locs.length := by omega
  have hli : locs[i] = dropZeros locations[i] := by subst hlocs; simp
  have hmem : locs[i] ∈ sortN ao locs := (sortN_perm ao locs).mem_iff.mpr (List.getElem_mem hi)
  obtain ⟨k, hk, hke⟩ := List.getElem_of_mem hmem
  refine ⟨k, hk, ?_, ?_⟩
  · intro a
    rw [hke, hli, coord_dropZeros _ (hloc _ (List.getElem_mem h)).1]
  · simp only [List.getElem_map]
    have hnd : (keysOf locs[i]).Nodup := by
      rw [hli]; exact (locOk_dropZeros _ (hloc _ (List.getElem_mem h)).1 (hloc _ (List.getElem_mem h)).2).1
    have hfi : locs.findIdx (fun p => dictEq p (sortN ao locs)[k]) = i := by
      rw [List.findIdx_eq hi]
      rw [hke]
      refine ⟨dictEq_refl _ hnd, ?_⟩
      intro j hji
      exact List.pairwise_iff_getElem.mp ((allDistinct_iff _).mp hd) j i (by omega) hi hji
    rw [hfi]
    simp [List.getD_eq_getElem?_getD, show i < values.length by omega]

/-- ROUNDED MASTER REPRODUCTION FOR THE MODELLED `VariationModel`: for every well-formed master set in any order, on any number
    of axes, `interpolateFromDeltas(locations[i], getDeltas(values, round=otRound))` is within 1/2 of `values[i]` -/
theorem variationModel_law_rounded (ao : List String) (locations : List NLoc) (hwf : wfInput locations) :
    ∃ m, variationModel ao locations = .ok m ∧
      ∀ (values : List Q) (i : Nat) (h : i < locations.length) (hv : values.length = locations.length),
        absQ (m.interpolateRounded otRound locations[i] values - values[i]) ≤ 1/2 := by
  have hwfN := wfN_sortN ao locations hwf
  have hwf' := hwf
  obtain ⟨hloc, hd0, hd, hbase⟩ := hwf
  refine ⟨_, by simp only [variationModel, hd0, hd, hbase, Bool.not_true, Bool.false_eq_true, if_false]; rfl, ?_⟩
  intro values i h hv
  obtain ⟨k, hk, hcoord, hval⟩ := userOrder_spec ao locations _ rfl hwf' values i h hv
  simp only [VModel.interpolateRounded]
  rw [interpolateNRound_congr _ _ _ _ _ hcoord]
  have := (nAxis_law_rounded (sortN ao (locations.map dropZeros)) hwfN k
    (((sortN ao (locations.map dropZeros)).map (fun l => (locations.map dropZeros).findIdx (fun p => dictEq p l))).map
      (fun k => values.getD k 0)) hk (by simp)).2.2
  rw [hval] at this
  exact this

/-- a consumer that rounds what it reads (the instancer writing integer coordinates) lands within 1 of an integer it is within
    1/2 of -/
theorem round_of_near_int (y : Q) (n : Int) (h : absQ (y - n) ≤ 1/2) : absQ ((otRound y : Q) - n) ≤ 1 := by
  have hy := otRound_near y
  unfold absQ at *
  split at h <;> split <;> grind

/-- **C10_outline_rounded** (replaces the former `C10_outline_partial`, whose ≤ 1 rested on the exact law as a hypothesis).
    What ufo2ft hands to varLib per outline coordinate / advance is one INTEGER per master (the interpolatable masters are
    compiled, i.e. rounded, first: `masters[i] = otRound(source[i])`).  For the modelled `VariationModel` - any number of axes and
    masters, any order - the integer deltas `getDeltas(masters, round=otRound)` evaluated at master `i`'s location give a number
    within 1/2 of `masters[i]`, and a consumer that rounds it (fontTools' instancer writing glyf/hmtx) gets an integer within 1
    of `masters[i]`.
    PROVED here: the delta-rounding part, for the model of fontTools' VariationModel on exact rationals.
    STILL ASSUMED (measured by the harness on every family): (a) gvar / HVAR / CFF2 blend / GPOS variation stores written by
    varLib and read by the instancer evaluate `Σ_j supportScalar(loc, support_j) · delta_j` with these supports and these deltas
    (F2Dot14 region coordinates: master locations on the 2^-14 grid); (b) VariationModel's double arithmetic agrees with the
    rational model (compared exactly on dyadic grids); (c) IUP-optimised gvar (omitted points inferred) reproduces the
    unoptimised deltas within its tolerance. -/
theorem C10_outline_rounded (ao : List String) (locations : List NLoc) (hwf : wfInput locations) :
    ∃ m, variationModel ao locations = .ok m ∧
      ∀ (source : List Q) (i : Nat) (h : i < locations.length) (hs : source.length = locations.length),
        let masters := source.map (fun c => ((otRound c : Int) : Q))
        let stored := m.interpolateRounded otRound locations[i] masters
        absQ (stored - (otRound source[i] : Q)) ≤ 1/2 ∧ absQ ((otRound stored : Q) - (otRound source[i] : Q)) ≤ 1 := by
  obtain ⟨m, hm, hlaw⟩ := variationModel_law_rounded ao locations hwf
  refine ⟨m, hm, ?_⟩
  intro source i h hs
  have := hlaw (source.map (fun c => ((otRound c : Int) : Q))) i h (by simpa using hs)
  simp only [List.getElem_map] at this
  exact ⟨this, round_of_near_int _ _ this⟩

end Ufo2ft.C10
