import Ufo2ftModel.Props.Total
/-!
TransformationsFilter and the REQUESTED point map, over exact rationals.

`Spec.requestedMap o` is the declarative description of what the options ask for (slant, then scale, about the origin
height, then offset).  `tMatrix_eq_requested` (Props/C15.lean) shows that the MATRIX `set_context` builds is the matrix of
that map.  This file closes the remaining gap between the matrix and the OUTLINE the model produces:

* `C15_requested_simple` : for EVERY rational `tanSlant`, `ScaleX`, `ScaleY`, origin height and offsets (no hypothesis on
  the determinant, none on the include set) the model's filter output for an included non-empty glyph without components is
  the input with `requestedMap o` applied to every point of every contour and to every anchor (types, order, names kept),
  the advance mapped by the linear part; its resolved outline is the old resolved outline mapped pointwise;
* `C15_requested_composite` : the same statement about the RESOLVED outline for every included non-empty glyph, composites
  included, under the hypotheses of `C15_transform` (det > 0 ⇔ 0 < ScaleX·ScaleY, convex include set);
* `C15_transform_approx` / `C15_requested_approx` / `C15_requested_total` : the tolerance form of the predicate,
  `transformWrongApprox eps`, holds of the MODEL output for every `eps ≥ 0` (against the matrix `m`, resp. against
  `requestedMatrix o` when the model runs with `tMatrix o`), with and without the `= .ok` hypothesis.

What is exact here and what is not: `tanSlant` is a parameter (any rational); the theorems say that the model, run with the
value of `tan` the harness supplies, maps by exactly `requestedMap` with that value.  That the doubles of the real filter stay
within 1e-6 of these rationals is NOT a theorem (it is what the tolerance stream of the correspondence run observes).
-/
namespace Ufo2ft.C15
open Ufo2ft List

/-! ### `requestedMap` on point / anchor records, and on the advance vector -/

/-- `requestedMap` applied to a point record (segment type kept) -/
def reqPt (o : TOpts) (p : Pt) : Pt := let q := requestedMap o (p.x, p.y); { p with x := q.1, y := q.2 }

/-- `requestedMap` applied to an anchor (name kept) -/
def reqAnchor (o : TOpts) (a : Anchor) : Anchor := let q := requestedMap o (a.x, a.y); { a with x := q.1, y := q.2 }

/-- the advance is a VECTOR: it is mapped by the linear part of the requested map, `v ↦ requestedMap v − requestedMap 0` -/
def reqVec (o : TOpts) (v : Q × Q) : Q × Q :=
  ((requestedMap o v).1 - (requestedMap o (0, 0)).1, (requestedMap o v).2 - (requestedMap o (0, 0)).2)

theorem ptMap_tMatrix (o : TOpts) (p : Pt) : Pt.map (tMatrix o) p = reqPt o p := by
  unfold Pt.map reqPt
  rw [C15_transform_requested]

theorem contourMap_tMatrix (o : TOpts) (c : Contour) : Contour.map (tMatrix o) c = List.map (reqPt o) c := by
  unfold Contour.map
  exact List.map_congr_left (fun p _ => ptMap_tMatrix o p)

theorem ptMap_requestedMatrix (o : TOpts) (p : Pt) : Pt.map (requestedMatrix o) p = reqPt o p := by
  rw [← tMatrix_eq_requested]; exact ptMap_tMatrix o p

theorem contourMap_requestedMatrix (o : TOpts) (c : Contour) : Contour.map (requestedMatrix o) c = List.map (reqPt o) c := by
  rw [← tMatrix_eq_requested]; exact contourMap_tMatrix o c

theorem applyVec_requestedMatrix (o : TOpts) (v : Q × Q) : (requestedMatrix o).applyVec v = reqVec o v := by
  simp only [requestedMatrix, requestedMap, Affine.applyVec, reqVec]
  ext <;> simp only [] <;> grind

/-- the determinant of the requested matrix: slant and offsets do not enter -/
theorem requestedMatrix_det (o : TOpts) : (requestedMatrix o).det = (o.scaleX / 100) * (o.scaleY / 100) := by
  simp only [requestedMatrix, requestedMap, Affine.det]
  grind

/-- orientation is preserved exactly when the two scale factors have the same sign (and neither is 0) -/
theorem requestedMatrix_det_pos (o : TOpts) (h : 0 < o.scaleX * o.scaleY) : 0 < (requestedMatrix o).det := by
  rw [requestedMatrix_det]
  have e : o.scaleX / 100 * (o.scaleY / 100) = (o.scaleX * o.scaleY) * (1 / 10000) := by grind
  rw [e]
  exact Rat.mul_pos h (by decide +kernel)

/-! ### one rewritten glyph -/

/-- `transformBody` with the filter's matrix, field by field, in terms of `requestedMap` (any `minv`, any `modified`) -/
theorem transformBody_requested (o : TOpts) (minv : Affine) (md : List String) (g : Glyph) :
    (transformBody (tMatrix o) minv md g).name = g.name ∧
    (transformBody (tMatrix o) minv md g).contours = g.contours.map (List.map (reqPt o)) ∧
    (transformBody (tMatrix o) minv md g).anchors = g.anchors.map (reqAnchor o) ∧
    ((transformBody (tMatrix o) minv md g).width, (transformBody (tMatrix o) minv md g).height)
      = reqVec o (g.width, g.height) ∧
    (transformBody (tMatrix o) minv md g).comps.map (·.base) = g.comps.map (·.base) := by
  refine ⟨rfl, ?_, ?_, ?_, ?_⟩
  · simp only [transformBody]
    exact List.map_congr_left (fun c _ => contourMap_tMatrix o c)
  · simp only [transformBody]
    apply List.map_congr_left
    intro a _
    simp only [reqAnchor]
    rw [C15_transform_requested]
  · simp only [transformBody]
    rw [tMatrix_eq_requested, ← applyVec_requestedMatrix]
  · simp only [transformBody, List.map_map]
    exact List.map_congr_left (fun k _ => rfl)

/-! ### the run: what becomes of an included non-empty glyph, for ANY matrix -/

/-- For every matrix other than the identity (singular and mirroring ones included), every include predicate (convex or
    not) and every acyclic named glyph set: after a successful run an included non-empty glyph is `transformBody` of its
    ORIGINAL — its own contours, anchors and advance are mapped exactly once.  (What is not determined without convexity is
    only the compensation of its component matrices, i.e. what the composite RENDERS: the known finding.) -/
theorem transform_own_data (m : Affine) (p : String → Bool) (gs : GlyphSet) (rank : String → Nat) (st : FState)
    (hr : Ranked gs rank) (hn : Named gs) (hid : m ≠ Affine.id)
    (h : runFilter (transformStep m p) p gs = .ok st)
    (n : String) (g : Glyph) (hg : gs.get? n = some g) (hp : p n = true) (hne : emptyG g = false) :
    ∃ g' md0, st.gs.get? n = some g' ∧ g' = transformBody m m.inverse md0 g := by
  unfold runFilter at h
  cases ho : orderedGlyphs gs with
  | error e => rw [ho] at h; cases h
  | ok order =>
    rw [ho] at h
    dsimp only at h
    have hid' : (m == Affine.id) = false := by simpa using hid
    obtain ⟨inv, _, hall⟩ := transformLoop_inv m p gs rank hr hn hid' order _ st h (TInv.init m m.inverse p gs)
    have hmem : n ∈ order := C01.orderedGlyphs_mem gs order ho n g hg
    obtain ⟨g', hg', hcase⟩ := inv.hsome n g hg
    rcases hcase with ⟨hc1, _⟩ | ⟨_, _, _, md0, e, _⟩
    · rw [hall n hmem g hg hp hne] at hc1; cases hc1
    · exact ⟨g', md0, hg', e⟩

/-- the identity run changes nothing -/
theorem transform_id_run (p : String → Bool) (gs : GlyphSet) (st : FState)
    (h : runFilter (transformStep Affine.id p) p gs = .ok st) : st.gs = gs := by
  unfold runFilter at h
  cases ho : orderedGlyphs gs with
  | error e => rw [ho] at h; cases h
  | ok order =>
    rw [ho] at h
    dsimp only at h
    have := transformLoop_id p order _ st h
    subst this
    rfl

/-- the resolved outline of a glyph without components is its own contour list -/
theorem renderGlyph_simple (gs : GlyphSet) (g : Glyph) (hs : g.comps = []) : renderGlyph gs g = g.contours := by
  unfold renderGlyph
  rw [render, hs]
  simp only [renderComps, List.append_nil]
  have hd : ¬ (Affine.id.det < 0) := by simp only [Affine.id, Affine.det]; grind
  rw [List.map_congr_left (g := fun c => c) (fun c _ => by rw [if_neg hd, Contour.map_id])]
  simp

/-- **C15 (transformations, requested map, simple glyphs — exact form).**  For ALL options — any rational `tanSlant`
    (Slant on or off), any `ScaleX`, `ScaleY` (zero and negative included), any origin height, any offsets —, every include
    predicate and every acyclic named glyph set: if the model's filter run succeeds, an included non-empty glyph WITHOUT
    components comes out as the input with `requestedMap o` applied to every point of every contour and to every anchor
    (same contours, order, segment types, anchor names), the advance vector mapped by the linear part of `requestedMap o`,
    still without components; hence its resolved outline is the old resolved outline with every point mapped by
    `requestedMap o`.
    (With `ScaleX·ScaleY = 0` the real filter raises ZeroDivisionError when it inverts the matrix; the model function is
    total there and the driver mirrors the raise separately — for such options this theorem speaks about the model only.) -/
theorem C15_requested_simple (o : TOpts) (p : String → Bool) (gs : GlyphSet) (rank : String → Nat) (st : FState)
    (hr : Ranked gs rank) (hn : Named gs)
    (h : runFilter (transformStep (tMatrix o) p) p gs = .ok st)
    (n : String) (g : Glyph) (hg : gs.get? n = some g) (hp : p n = true) (hne : emptyG g = false)
    (hs : g.comps = []) :
    ∃ g', st.gs.get? n = some g' ∧ g'.name = g.name ∧ g'.comps = [] ∧
      g'.contours = g.contours.map (List.map (reqPt o)) ∧
      g'.anchors = g.anchors.map (reqAnchor o) ∧
      (g'.width, g'.height) = reqVec o (g.width, g.height) ∧
      renderGlyph st.gs g' = (renderGlyph gs g).map (List.map (reqPt o)) := by
  have key : ∃ g', st.gs.get? n = some g' ∧ g'.name = g.name ∧ g'.comps = [] ∧
      g'.contours = g.contours.map (List.map (reqPt o)) ∧
      g'.anchors = g.anchors.map (reqAnchor o) ∧
      (g'.width, g'.height) = reqVec o (g.width, g.height) := by
    by_cases hid : tMatrix o = Affine.id
    · -- the options ask for the identity: nothing changes, and `requestedMap o` is the identity map
      rw [hid] at h
      have e := transform_id_run p gs st h
      have hmap : ∀ q : Q × Q, requestedMap o q = q := by
        intro q; rw [← C15_transform_requested, hid, Affine.apply_id]
      refine ⟨g, by rw [e]; exact hg, rfl, hs, ?_, ?_, ?_⟩
      · have hpt : ∀ pt : Pt, reqPt o pt = pt := by intro pt; simp only [reqPt, hmap]
        rw [List.map_congr_left (g := fun c => c) (fun c _ => by
          rw [List.map_congr_left (g := fun pt => pt) (fun pt _ => hpt pt)]; simp)]
        simp
      · have ha : ∀ a : Anchor, reqAnchor o a = a := by intro a; simp only [reqAnchor, hmap]
        rw [List.map_congr_left (g := fun a => a) (fun a _ => ha a)]
        simp
      · simp only [reqVec, hmap]
        ext <;> simp only [] <;> grind
    · obtain ⟨g', md0, hg', e⟩ := transform_own_data (tMatrix o) p gs rank st hr hn hid h n g hg hp hne
      obtain ⟨h1, h2, h3, h4, h5⟩ := transformBody_requested o (tMatrix o).inverse md0 g
      rw [← e] at h1 h2 h3 h4 h5
      refine ⟨g', hg', h1, ?_, h2, h3, h4⟩
      rw [hs] at h5
      simpa using h5
  obtain ⟨g', hg', h1, h2, h3, h4, h5⟩ := key
  refine ⟨g', hg', h1, h2, h3, h4, h5, ?_⟩
  rw [renderGlyph_simple st.gs g' h2, renderGlyph_simple gs g hs, h3]

/-! ### composites: the resolved outline, under the hypotheses of `C15_transform` -/

/-- **C15 (transformations, requested map, all included glyphs — exact form).**  Under the hypotheses of `C15_transform`
    (acyclic named glyph set, convex include set) and `0 < ScaleX·ScaleY` (the requested map preserves orientation), for any
    rational `tanSlant`, origin height and offsets: every included non-empty glyph — composites, nested composites and
    composites of included bases as well — has as its RESOLVED outline the old resolved outline with `requestedMap o`
    applied to every point (same contours, order, types, direction); its anchors are mapped by `requestedMap o`, its advance
    by the linear part.  Every other glyph is unchanged. -/
theorem C15_requested_composite (o : TOpts) (p : String → Bool) (gs : GlyphSet) (rank : String → Nat) (st : FState)
    (hr : Ranked gs rank) (hn : Named gs) (hpos : 0 < o.scaleX * o.scaleY) (hc : IncludeConvex gs p)
    (h : runFilter (transformStep (tMatrix o) p) p gs = .ok st) :
    st.gs.names = gs.names ∧
    ∀ n g, gs.get? n = some g → ∃ g', st.gs.get? n = some g' ∧
      ((p n = true ∧ emptyG g = false) →
        renderGlyph st.gs g' = (renderGlyph gs g).map (List.map (reqPt o)) ∧
        g'.anchors = g.anchors.map (reqAnchor o) ∧
        (g'.width, g'.height) = reqVec o (g.width, g.height)) ∧
      (¬ (p n = true ∧ emptyG g = false) → g' = g) := by
  have hm : 0 < (tMatrix o).det := by rw [tMatrix_eq_requested]; exact requestedMatrix_det_pos o hpos
  obtain ⟨hnames, hall⟩ := transform_convex (tMatrix o) p gs rank hr hn hm hc st h
  refine ⟨hnames, fun n g hg => ?_⟩
  obtain ⟨g', hg', ha, hb⟩ := hall n g hg
  refine ⟨g', hg', fun hh => ?_, hb⟩
  have M := ha hh
  refine ⟨?_, ?_, ?_⟩
  · rw [M.outline]
    exact List.map_congr_left (fun c _ => contourMap_tMatrix o c)
  · rw [M.anchors]
    apply List.map_congr_left
    intro a _
    simp only [reqAnchor]
    rw [C15_transform_requested]
  · rw [M.advance, tMatrix_eq_requested, applyVec_requestedMatrix]

/-! ### the tolerance form of the predicate holds of the model output -/

theorem closeQ_refl (eps : Q) (h : 0 ≤ eps) (a : Q) : closeQ eps a a = true := by
  simp [closeQ, Rat.sub_self, h]

theorem closeAnchors_refl (eps : Q) (h : 0 ≤ eps) (l : List Anchor) : all2 (closeAnchor eps) l l = true := by
  apply all2_refl; intro a
  simp [closeAnchor, closeQ_refl eps h]

/-- **C15 (transformations, tolerance form).**  Under exactly the hypotheses of `C15_transform` (where the exact predicate
    `transformWrong` applies) the tolerance form `transformWrongApprox eps` finds nothing wrong in the MODEL output, for
    every tolerance `eps ≥ 0` (`eps = 0` included: position by position the model output IS the mapped outline). -/
theorem C15_transform_approx (eps : Q) (heps : 0 ≤ eps) (m : Affine) (p : String → Bool) (gs : GlyphSet)
    (rank : String → Nat) (st : FState)
    (hr : Ranked gs rank) (hn : Named gs) (hnd : gs.names.Nodup) (hm : 0 < m.det) (hc : IncludeConvex gs p)
    (h : runFilter (transformStep m p) p gs = .ok st) : transformWrongApprox eps m p gs st.gs = [] := by
  obtain ⟨hnames, hall⟩ := transform_convex m p gs rank hr hn hm hc st h
  unfold transformWrongApprox
  rw [List.map_eq_nil_iff, List.filter_eq_nil_iff]
  intro e he
  obtain ⟨n, g'⟩ := e
  have hn' : n ∈ gs.names := by rw [← hnames]; exact mem_map_of_mem (f := (·.1)) he
  obtain ⟨g, hg⟩ := mem_names_get gs n hn'
  obtain ⟨g'', hg'', ha, hb⟩ := hall n g hg
  have hg' : st.gs.get? n = some g' := get_of_mem_nodup st.gs (by rw [hnames]; exact hnd) n g' he
  rw [hg'] at hg''
  have e := Option.some.inj hg''
  subst e
  simp only [hg]
  by_cases hh : p n = true ∧ emptyG g = false
  · have M := ha hh
    have hcond : (p n && !(g.contours.isEmpty && g.comps.isEmpty && g.anchors.isEmpty)) = true := by
      have h2 : (g.contours.isEmpty && g.comps.isEmpty && g.anchors.isEmpty) = false := hh.2
      rw [hh.1, h2]; rfl
    have hw : g'.width = (m.applyVec (g.width, g.height)).1 := congrArg Prod.fst M.advance
    have hh' : g'.height = (m.applyVec (g.width, g.height)).2 := congrArg Prod.snd M.advance
    rw [if_pos hcond, M.outline, M.anchors, hw, hh', closeDrawing_refl eps heps, closeAnchors_refl eps heps,
      closeQ_refl eps heps, closeQ_refl eps heps]
    simp
  · have e := hb hh
    subst e
    by_cases hp : p n = true
    · have h2 : (g'.contours.isEmpty && g'.comps.isEmpty && g'.anchors.isEmpty) = true := by
        cases h3 : emptyG g' with
        | true => exact h3
        | false => exact absurd ⟨hp, h3⟩ hh
      simp [hp, h2]
    · simp [hp]

/-- **C15 (transformations, requested matrix, both forms of the predicate).**  What the driver evaluates on the observed
    output — `transformWrong` (exact stream) resp. `transformWrongApprox eps` (Slant stream), both against the REQUESTED
    matrix `requestedMatrix o` — holds of the output of the model run with the filter's own matrix `tMatrix o`: for any
    rational `tanSlant`, origin height, offsets, any scales with `0 < ScaleX·ScaleY`, any `eps ≥ 0`. -/
theorem C15_requested_approx (eps : Q) (heps : 0 ≤ eps) (o : TOpts) (p : String → Bool) (gs : GlyphSet)
    (rank : String → Nat) (st : FState)
    (hr : Ranked gs rank) (hn : Named gs) (hnd : gs.names.Nodup) (hpos : 0 < o.scaleX * o.scaleY)
    (hc : IncludeConvex gs p)
    (h : runFilter (transformStep (tMatrix o) p) p gs = .ok st) :
    transformWrongApprox eps (requestedMatrix o) p gs st.gs = [] ∧
    holdsTransform (requestedMatrix o) p gs st.gs = true := by
  have hm : 0 < (requestedMatrix o).det := requestedMatrix_det_pos o hpos
  rw [tMatrix_eq_requested] at h
  exact ⟨C15_transform_approx eps heps _ p gs rank st hr hn hnd hm hc h,
    C15_transform _ p gs rank st hr hn hnd hm hc h⟩

/-- **totality form**: on every well-formed closed glyph set (`WF`: acyclic, named, distinct keys, closed — what `wfCert`
    certifies) the run exists, and both forms of the predicate hold of it against the requested matrix. -/
theorem C15_requested_total (eps : Q) (heps : 0 ≤ eps) (o : TOpts) (p : String → Bool) (gs : GlyphSet)
    (rank : String → Nat) (hw : WF gs rank) (hpos : 0 < o.scaleX * o.scaleY) (hc : IncludeConvex gs p) :
    ∃ st, runFilter (transformStep (tMatrix o) p) p gs = .ok st ∧
      transformWrongApprox eps (requestedMatrix o) p gs st.gs = [] ∧
      holdsTransform (requestedMatrix o) p gs st.gs = true ∧ WF st.gs rank := by
  obtain ⟨st, h, hk, hc'⟩ := runFilter_transformStep_ok (tMatrix o) p p gs rank hw.ranked hw.named hw.nodup hw.closed
  obtain ⟨a, b⟩ := C15_requested_approx eps heps o p gs rank st hw.ranked hw.named hw.nodup hpos hc h
  exact ⟨st, h, a, b, hw.of_keeps hk hc'⟩

/-! ### non-vacuity

`gs3` (Props/Transform.lean): A → B → C, C a simple glyph with one point (1, 0).  Options: Slant on with tan = 1/4,
ScaleX = 50 %, ScaleY = 200 % (so slant and scale do not commute), origin height 8, offset (10, −3). -/

def oEx : TOpts := ⟨10, -3, 50, 200, true, 1/4, 8⟩

theorem gs3_closed : Closed gs3 := closedGS_sound gs3 (by decide +kernel)
theorem gs3_wf : WF gs3 rank3 := ⟨gs3_ranked, gs3_named, by decide, gs3_closed⟩
theorem oEx_pos : 0 < oEx.scaleX * oEx.scaleY := by decide +kernel

theorem gs3_render_A : renderGlyph gs3 gA = [[⟨1, 0, some .line⟩]] := by
  have hd : ¬ (Affine.id.det < 0) := by simp only [Affine.id, Affine.det]; grind
  simp [renderGlyph, render, renderComps, gs3, gA, gB, gC, dot, GlyphSet.get?, alookup, Affine.compose_id, hd,
    Contour.map_id]

/-- the requested image of C's point (1, 0): slant by 1/4 about height 8 gives x = 1 + (0−8)/4 = −1, scaled by 1/2 and offset
    by 10: 19/2; y = (0−8)·2 + 8 − 3 = −11 -/
example : requestedMap oEx (1, 0) = (19/2, -11) := by decide +kernel

/-- non-vacuity of `C15_requested_simple`: the run on `gs3` with `oEx`, everything included, exists, and the simple glyph C
    comes out with its point at the requested place -/
example : ∃ st gC', runFilter (transformStep (tMatrix oEx) (fun _ => true)) (fun _ => true) gs3 = .ok st ∧
    st.gs.get? "C" = some gC' ∧ gC'.contours = [[⟨19/2, -11, some .line⟩]] ∧ gC'.comps = [] := by
  obtain ⟨st, h, _, _⟩ := runFilter_transformStep_ok (tMatrix oEx) (fun _ => true) (fun _ => true) gs3 rank3
    gs3_ranked gs3_named (by decide) gs3_closed
  obtain ⟨g', hg', _, h2, h3, _⟩ := C15_requested_simple oEx (fun _ => true) gs3 rank3 st gs3_ranked gs3_named h
    "C" gC (by decide +kernel) rfl (by decide +kernel) rfl
  refine ⟨st, g', h, hg', ?_, h2⟩
  rw [h3]
  decide +kernel

/-- non-vacuity of `C15_requested_composite`, `C15_requested_approx`, `C15_requested_total`: include = {A, B} (convex, C a
    non-included base): the run exists, the composite-of-composite A resolves to C's outline mapped by `requestedMap oEx`,
    and the tolerance predicate with `eps = 0` and with `eps = 1e-6` finds nothing -/
example : ∃ st gA', runFilter (transformStep (tMatrix oEx) pAB) pAB gs3 = .ok st ∧
    st.gs.get? "A" = some gA' ∧ renderGlyph st.gs gA' = [[⟨19/2, -11, some .line⟩]] ∧
    transformWrongApprox 0 (requestedMatrix oEx) pAB gs3 st.gs = [] ∧
    transformWrongApprox (1/1000000) (requestedMatrix oEx) pAB gs3 st.gs = [] := by
  obtain ⟨st, h, a, _, _⟩ := C15_requested_total 0 (by decide +kernel) oEx pAB gs3 rank3 gs3_wf oEx_pos gs3_convex_AB
  obtain ⟨_, hall⟩ := C15_requested_composite oEx pAB gs3 rank3 st gs3_ranked gs3_named oEx_pos gs3_convex_AB h
  obtain ⟨g', hg', hm, _⟩ := hall "A" gA (by decide +kernel)
  obtain ⟨ho, _, _⟩ := hm ⟨by decide +kernel, by decide +kernel⟩
  refine ⟨st, g', h, hg', ?_, a, ?_⟩
  · rw [ho, gs3_render_A]
    decide +kernel
  · exact (C15_requested_approx (1/1000000) (by decide +kernel) oEx pAB gs3 rank3 st gs3_ranked gs3_named (by decide)
      oEx_pos gs3_convex_AB h).1

end Ufo2ft.C15
