import Ufo2ftModel.Props.PropagateNum
import Ufo2ftModel.Props.Total
/-!
PropagateAnchorsFilter, the numbering discipline — TOTALITY restatements.

`C15_propagate_numbering` / `C15_propagateN` (Props/PropagateNum.lean) assume that the run(s) returned (`… = .ok st`).
With Props/Total*.lean (`runFilter_propagateStep_ok` / `_res`: the recursion over the bases never exhausts its fuel
`len(glyphSet) + 1` on an acyclic set and the only possible error is the promotion's `Exception`; `propagate_second_run_ok`:
the second run always exists) the hypothesis disappears:

* `C15_propagate_numbering_total` : the run exists and `numberingWrong` finds nothing;
* `C15_propagateN_total`          : both runs exist and the WHOLE predicate `holdsPropagateN` holds of them;
* `C15_propagateN_outcome`        : without any assumption on the bounds: either that, or the first run raises `Exception` and
                                    a ligature-mark-named glyph has a component without bounds;
* `C15_propagateN_wf`             : as `_total`, for a well-formed closed set (`WF`), handing on a `WF` set again;
* `C15_propagateN_total_cert`     : the hypotheses discharged by the decidable certificate `wfCert` (what the driver reports
                                    as `hyp`).
-/
namespace Ufo2ft.C15
open Ufo2ft List

variable {bnd : Comp → Option (Q × Q)}

/-- **`C15_propagate_numbering_total`**: for every acyclic glyph set with distinct keys equal to the glyph names (closed or
    not), mark list and include predicate: if no component of a ligature-mark-named glyph lacks bounds, the run EXISTS and
    every added anchor obeys the numbering discipline (`numberingWrong` finds nothing). -/
theorem C15_propagate_numbering_total (marks : List String) (incl : String → Bool) (gs : GlyphSet) (rank : String → Nat)
    (hr : Ranked gs rank) (hn : Named gs) (hnd : gs.names.Nodup) (hb : ¬ BndMissing bnd gs) :
    ∃ st, runFilter (propagateStep bnd marks) incl gs = .ok st ∧ numberingWrong gs st.gs = [] := by
  obtain ⟨st, h, _, _⟩ := runFilter_propagateStep_ok (bnd := bnd) marks incl gs rank hr hn hnd hb
  exact ⟨st, h, C15_propagate_numbering marks incl gs rank st hr hn hnd h⟩

/-- **`C15_propagateN_total`**: under the same hypotheses BOTH runs exist and the whole predicate `holdsPropagateN` (nothing
    overridden, placement, completeness, promotion, numbering, idempotence) holds of them. -/
theorem C15_propagateN_total (marks : List String) (incl : String → Bool) (gs : GlyphSet) (rank : String → Nat)
    (hr : Ranked gs rank) (hn : Named gs) (hnd : gs.names.Nodup) (hb : ¬ BndMissing bnd gs) :
    ∃ st st2, runFilter (propagateStep bnd marks) incl gs = .ok st ∧
      runFilter (propagateStep bnd marks) incl st.gs = .ok st2 ∧
      holdsPropagateN bnd marks incl gs st.gs st2.modified (st2.gs == st.gs) = true := by
  obtain ⟨st, h, _, _⟩ := runFilter_propagateStep_ok (bnd := bnd) marks incl gs rank hr hn hnd hb
  obtain ⟨st2, h2⟩ := propagate_second_run_ok marks incl gs rank st hr hn hnd h
  exact ⟨st, st2, h, h2, C15_propagateN marks incl gs rank st st2 hr hn hnd h h2⟩

/-- the outcome in general (no assumption on the bounds): a pair of runs satisfying everything, the numbering included, or
    `Exception` with a culprit -/
theorem C15_propagateN_outcome (marks : List String) (incl : String → Bool) (gs : GlyphSet) (rank : String → Nat)
    (hr : Ranked gs rank) (hn : Named gs) (hnd : gs.names.Nodup) :
    (∃ st st2, runFilter (propagateStep bnd marks) incl gs = .ok st ∧
      runFilter (propagateStep bnd marks) incl st.gs = .ok st2 ∧
      holdsPropagateN bnd marks incl gs st.gs st2.modified (st2.gs == st.gs) = true) ∨
    (runFilter (propagateStep bnd marks) incl gs = .error .exception ∧ BndMissing bnd gs) := by
  rcases runFilter_propagateStep_res (bnd := bnd) marks incl gs rank hr hn hnd with ⟨st, h, _, _⟩ | herr
  · obtain ⟨st2, h2⟩ := propagate_second_run_ok marks incl gs rank st hr hn hnd h
    exact Or.inl ⟨st, st2, h, h2, C15_propagateN marks incl gs rank st st2 hr hn hnd h h2⟩
  · exact Or.inr herr

/-- on a well-formed closed glyph set the result is well-formed and closed again (same witness) -/
theorem C15_propagateN_wf (marks : List String) (incl : String → Bool) (gs : GlyphSet) (rank : String → Nat)
    (hw : WF gs rank) (hb : ¬ BndMissing bnd gs) :
    ∃ st st2, runFilter (propagateStep bnd marks) incl gs = .ok st ∧
      runFilter (propagateStep bnd marks) incl st.gs = .ok st2 ∧
      holdsPropagateN bnd marks incl gs st.gs st2.modified (st2.gs == st.gs) = true ∧ WF st.gs rank := by
  obtain ⟨st, st2, h, h2, hp⟩ := C15_propagateN_total (bnd := bnd) marks incl gs rank hw.ranked hw.named hw.nodup hb
  exact ⟨st, st2, h, h2, hp, C15_propagate_wf marks incl gs rank st hw h⟩

/-- the hypotheses discharged by the decidable certificate: `wfCert gs = true` (closedGS, distinct keys, depth certificate)
    and bounds for the components of ligature-mark-named glyphs -/
theorem C15_propagateN_total_cert (marks : List String) (incl : String → Bool) (gs : GlyphSet)
    (hcert : wfCert gs = true) (hb : ¬ BndMissing bnd gs) :
    ∃ st st2, runFilter (propagateStep bnd marks) incl gs = .ok st ∧
      runFilter (propagateStep bnd marks) incl st.gs = .ok st2 ∧
      holdsPropagateN bnd marks incl gs st.gs st2.modified (st2.gs == st.gs) = true ∧
      numberingWrong gs st.gs = [] := by
  obtain ⟨_, hw, _⟩ := wfCert_sound gs hcert
  obtain ⟨st, st2, h, h2, hp⟩ := C15_propagateN_total (bnd := bnd) marks incl gs _ hw.ranked hw.named hw.nodup hb
  exact ⟨st, st2, h, h2, hp, C15_propagate_numbering marks incl gs _ st hw.ranked hw.named hw.nodup h⟩

/-! ### non-vacuity -/

/-- the mark ligature of Props/C15.lean (`acutecomb_gravecomb`, promotion branch taken, both components have bounds):
    hypotheses of `C15_propagateN_total` / `C15_propagate_numbering_total` met, no run assumed -/
example : ∃ st st2, runFilter (propagateStep bndL []) (fun _ => true) gsL = .ok st ∧
    runFilter (propagateStep bndL []) (fun _ => true) st.gs = .ok st2 ∧
    holdsPropagateN bndL [] (fun _ => true) gsL st.gs st2.modified (st2.gs == st.gs) = true :=
  C15_propagateN_total [] _ gsL rankL gsL_ranked gsL_named (by decide) TotalEx.gsL_bnd

/-- `gsP` (c = b + a, b = a scaled; two carriers of `top` in `c` → `top_1`, `top_2`): no glyph name is a ligature-mark
    name, so no bounds are needed at all (`bnd0` = none everywhere) -/
theorem gsP_bnd : ¬ BndMissing bnd0 gsP := by
  rintro ⟨n, g0, k, hg, hl, _, _⟩
  revert hl
  refine gsP_cases (P := fun n _ => isLigatureMark n = true → False) n g0 hg ?_ ?_ ?_ <;> simp [isLigatureMark]

example : ∃ st, runFilter (propagateStep bnd0 []) (fun _ => true) gsP = .ok st ∧ numberingWrong gsP st.gs = [] :=
  C15_propagate_numbering_total [] _ gsP rankP gsP_ranked gsP_named (by decide) gsP_bnd

/-- the certificate route on the same glyph set -/
example : ∃ st st2, runFilter (propagateStep bnd0 []) (fun _ => true) gsP = .ok st ∧
    runFilter (propagateStep bnd0 []) (fun _ => true) st.gs = .ok st2 ∧
    holdsPropagateN bnd0 [] (fun _ => true) gsP st.gs st2.modified (st2.gs == st.gs) = true ∧
    numberingWrong gsP st.gs = [] :=
  C15_propagateN_total_cert [] _ gsP (by decide +kernel) gsP_bnd

/-- and where bounds are missing the general outcome is the second alternative (`TotalEx.gsL_raise`) -/
example : runFilter (propagateStep bnd0 []) (fun _ => true) gsL = .error .exception ∧ BndMissing bnd0 gsL := by
  rcases C15_propagateN_outcome (bnd := bnd0) [] (fun _ => true) gsL rankL gsL_ranked gsL_named (by decide) with
    ⟨st, _, h, _, _⟩ | h
  · rw [TotalEx.gsL_raise] at h; cases h
  · exact h

end Ufo2ft.C15
