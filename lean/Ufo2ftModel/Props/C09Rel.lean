import Ufo2ftModel.Props.C09Inv
set_option linter.unusedSectionVars false
/-!
C09, pipeline level, part 3: "alike" as a RELATION between glyph sets.  Two glyph sets *agree* (w.r.t. an abstraction of
contours and of component matrices) when the glyphs they have in common have equal abstractions; a family is alike when
its members agree pairwise.  Sparse masters are allowed (nothing is said about glyphs only one of them has), the order of
the glyphs does not matter.  Decomposition and flattening are shown to respect agreement by running the two computations
side by side (different glyph sets, different fuel).

Abstractions used: `absN` (component NAMES only), `absL` (names + 2×2 parts), `absS` (point types, names, determinant signs).
-/
namespace Ufo2ft.C09
open Ufo2ft List

/-- an abstraction of a glyph's contour list (`Γ`) and of component matrices (`κ`) that the pen operations respect -/
structure Abs (σ τ : Type) where
  Γ : List Contour → σ
  κ : Affine → τ
  κ_compose : ∀ s s' t t', κ s = κ s' → κ t = κ t' → κ (s.compose t) = κ (s'.compose t')
  κ_flat : ∀ o o' c c', κ o = κ o' → κ c = κ c' →
    κ ((o.translate c.dx c.dy).compose ⟨c.xx, c.xy, c.yx, c.yy, 0, 0⟩) =
    κ ((o'.translate c'.dx c'.dy).compose ⟨c'.xx, c'.xy, c'.yx, c'.yy, 0, 0⟩)
  Γ_append : ∀ a a' b b', Γ a = Γ a' → Γ b = Γ b' → Γ (a ++ b) = Γ (a' ++ b')
  Γ_draw : ∀ (rf : Bool) t t' cs cs', κ t = κ t' → Γ cs = Γ cs' → Γ (drawContours rf t cs) = Γ (drawContours rf t' cs')
  Γ_rev : ∀ cs cs', Γ cs = Γ cs' → Γ (cs.map reverseContour) = Γ (cs'.map reverseContour)

/-! ### agreement w.r.t. ANY function of glyphs; the per-master loop (no Instantiator) -/

section anyab
variable {β : Type} (ab : Glyph → β)

/-- the glyphs two glyph sets have in common look the same -/
def AgreeB (m1 m2 : GlyphSet) : Prop := ∀ n g1 g2, m1.get? n = some g1 → m2.get? n = some g2 → ab g1 = ab g2

/-- a family whose glyph sets agree pairwise -/
def AlikeB (ms : Masters) : Prop := ∀ m1 ∈ ms, ∀ m2 ∈ ms, AgreeB ab m1 m2

/-- a per-master operation that respects agreement -/
def OpRelB (f : GlyphSet → Glyph → Except GErr (Option Glyph × Bool)) : Prop :=
  ∀ m1 m2 g1 g2 r1 r2, AgreeB ab m1 m2 → ab g1 = ab g2 → f m1 g1 = .ok r1 → f m2 g2 = .ok r2 →
    (r1.1.map ab = r2.1.map ab)

theorem updOne_agree (n : String) (f : GlyphSet → Glyph → Except GErr (Option Glyph × Bool)) (hf : OpRelB ab f)
    (m1 m2 m1' m2' : GlyphSet) (hag : AgreeB ab m1 m2) (e1 : updOne n f m1 = .ok m1') (e2 : updOne n f m2 = .ok m2') :
    AgreeB ab m1' m2' := by
  intro x g1' g2' hx1 hx2
  unfold updOne at e1 e2
  cases hg1 : m1.get? n with
  | none =>
    rw [hg1] at e1; simp only [Except.ok.injEq] at e1; subst e1
    cases hg2 : m2.get? n with
    | none => rw [hg2] at e2; simp only [Except.ok.injEq] at e2; subst e2; exact hag x g1' g2' hx1 hx2
    | some g2 =>
      rw [hg2] at e2; dsimp only at e2
      cases hf2 : f m2 g2 with
      | error e => rw [hf2] at e2; cases e2
      | ok r2 =>
        obtain ⟨og2, fl2⟩ := r2
        rw [hf2] at e2
        cases og2 with
        | none => simp only [Except.ok.injEq] at e2; subst e2; exact hag x g1' g2' hx1 hx2
        | some g2n =>
          simp only [Except.ok.injEq] at e2; subst e2
          rw [get?_set m2 n x g2 g2n hg2] at hx2
          by_cases hxn : x = n
          · subst hxn; rw [hg1] at hx1; cases hx1
          · rw [if_neg hxn] at hx2; exact hag x g1' g2' hx1 hx2
  | some g1 =>
    rw [hg1] at e1; dsimp only at e1
    cases hf1 : f m1 g1 with
    | error e => rw [hf1] at e1; cases e1
    | ok r1 =>
      obtain ⟨og1, fl1⟩ := r1
      rw [hf1] at e1
      cases hg2 : m2.get? n with
      | none =>
        rw [hg2] at e2; simp only [Except.ok.injEq] at e2; subst e2
        cases og1 with
        | none => simp only [Except.ok.injEq] at e1; subst e1; exact hag x g1' g2' hx1 hx2
        | some g1n =>
          simp only [Except.ok.injEq] at e1; subst e1
          rw [get?_set m1 n x g1 g1n hg1] at hx1
          by_cases hxn : x = n
          · subst hxn; rw [hg2] at hx2; cases hx2
          · rw [if_neg hxn] at hx1; exact hag x g1' g2' hx1 hx2
      | some g2 =>
        rw [hg2] at e2; dsimp only at e2
        cases hf2 : f m2 g2 with
        | error e => rw [hf2] at e2; cases e2
        | ok r2 =>
          obtain ⟨og2, fl2⟩ := r2
          rw [hf2] at e2
          have hrel := hf m1 m2 g1 g2 _ _ hag (hag n g1 g2 hg1 hg2) hf1 hf2
          dsimp only at hrel
          cases og1 with
          | none =>
            cases og2 with
            | some _ => simp at hrel
            | none =>
              simp only [Except.ok.injEq] at e1 e2; subst e1; subst e2
              exact hag x g1' g2' hx1 hx2
          | some g1n =>
            cases og2 with
            | none => simp at hrel
            | some g2n =>
              simp only [Except.ok.injEq] at e1 e2; subst e1; subst e2
              simp only [Option.map_some, Option.some.injEq] at hrel
              rw [get?_set m1 n x g1 g1n hg1] at hx1
              rw [get?_set m2 n x g2 g2n hg2] at hx2
              by_cases hxn : x = n
              · rw [if_pos hxn] at hx1 hx2
                cases hx1; cases hx2; exact hrel
              · rw [if_neg hxn] at hx1 hx2; exact hag x g1' g2' hx1 hx2

theorem perMaster_none_alike (n : String) (visit : GlyphSet → Glyph → List String)
    (f : GlyphSet → Glyph → Except GErr (Option Glyph × Bool)) (hf : OpRelB ab f)
    (s s' : St) (fl fl' : Bool) (hA : AlikeB ab s.ms)
    (h : perMaster none n visit f (List.range s.ms.length) s fl = .ok (s', fl')) : AlikeB ab s'.ms := by
  obtain ⟨hl, hall⟩ := perMaster_none_all n visit f s s' fl fl' h
  intro m1' hm1 m2' hm2
  obtain ⟨j1, hj1', rfl⟩ := List.mem_iff_getElem.mp hm1
  obtain ⟨j2, hj2', rfl⟩ := List.mem_iff_getElem.mp hm2
  have hj1 : j1 < s.ms.length := by omega
  have hj2 : j2 < s.ms.length := by omega
  exact updOne_agree ab n f hf _ _ _ _ (hA _ (List.getElem_mem hj1) _ (List.getElem_mem hj2)) (hall j1 hj1 hj1') (hall j2 hj2 hj2')

theorem decomposeIStep_alike (hd : OpRelB ab (decomposeOp true none)) (s : St) (n : String) (s' : St) (r : Bool)
    (hP : AlikeB ab s.ms) (h : decomposeIStep none s n = .ok (s', r)) : AlikeB ab s'.ms := by
  unfold decomposeIStep at h
  split at h
  · simp only [Except.ok.injEq, Prod.mk.injEq] at h; rw [← h.1]; exact hP
  · simp only [ensureComposite] at h
    cases hp : perMaster none n (decomposeVisit true none) (decomposeOp true none) (List.range s.ms.length) s true with
    | error e => rw [hp] at h; cases h
    | ok res =>
      obtain ⟨s2, fl⟩ := res
      rw [hp] at h
      simp only [Except.ok.injEq, Prod.mk.injEq] at h
      rw [← h.1]
      exact perMaster_none_alike ab n _ _ hd s s2 true fl hP hp

theorem decomposeTransformedIStep_alike (hd : OpRelB ab (decomposeOp true none)) (s : St) (n : String) (s' : St) (r : Bool)
    (hP : AlikeB ab s.ms) (h : decomposeTransformedIStep none s n = .ok (s', r)) : AlikeB ab s'.ms := by
  unfold decomposeTransformedIStep at h
  split at h
  · simp only [Except.ok.injEq, Prod.mk.injEq] at h; rw [← h.1]; exact hP
  · exact decomposeIStep_alike ab hd s n s' r hP h

theorem skipIStep_alike (skip : List String) (hd : OpRelB ab (decomposeOp false (some skip))) (s : St) (n : String) (s' : St) (r : Bool)
    (hP : AlikeB ab s.ms) (h : skipIStep none skip s n = .ok (s', r)) : AlikeB ab s'.ms := by
  unfold skipIStep at h
  dsimp only at h
  split at h
  · simp only [Except.ok.injEq, Prod.mk.injEq] at h; rw [← h.1]; exact hP
  · simp only [ensureComposite] at h
    cases hp : perMaster none n (decomposeVisit false (some skip)) (decomposeOp false (some skip))
        (List.range s.ms.length) s true with
    | error e => rw [hp] at h; cases h
    | ok res =>
      obtain ⟨s2, fl⟩ := res
      rw [hp] at h
      simp only [Except.ok.injEq, Prod.mk.injEq] at h
      rw [← h.1]
      exact perMaster_none_alike ab n _ _ hd s s2 true fl hP hp

theorem flattenIStep_alike (hfl : OpRelB ab flattenOp) (s : St) (n : String) (s' : St) (r : Bool)
    (hP : AlikeB ab s.ms) (h : flattenIStep none s n = .ok (s', r)) : AlikeB ab s'.ms := by
  unfold flattenIStep at h
  dsimp only at h
  split at h
  · simp only [Except.ok.injEq, Prod.mk.injEq] at h; rw [← h.1]; exact hP
  · split at h
    · simp only [Except.ok.injEq, Prod.mk.injEq] at h; rw [← h.1]; exact hP
    · exact perMaster_none_alike ab n _ _ hfl s s' false r hP h

theorem runIU_alike (incl : Glyph → Bool) (step : St → String → Except GErr (St × Bool))
    (hstep : ∀ s n s' r, AlikeB ab s.ms → step s n = .ok (s', r) → AlikeB ab s'.ms)
    (s s' : St) (hP : AlikeB ab s.ms) (h : runIU incl step s = .ok s') : AlikeB ab s'.ms := by
  unfold runIU at h
  cases hr : runI incl step s with
  | error e => rw [hr] at h; cases h
  | ok res =>
    obtain ⟨s1, md⟩ := res
    rw [hr] at h
    simp only [Except.ok.injEq] at h
    rw [← h, updated_ms]
    exact runI_inv (fun s => AlikeB ab s.ms) incl step hstep (fun _ _ h => h) s s1 md hP hr

theorem get?_filter (m : GlyphSet) (p : String → Bool) (n : String) :
    GlyphSet.get? (m.filter (fun e => p e.1)) n = if p n then m.get? n else none := by
  induction m with
  | nil => simp [GlyphSet.get?, alookup]
  | cons a m ih =>
    obtain ⟨k, v⟩ := a
    simp only [GlyphSet.get?] at ih ⊢
    by_cases hp : p k = true
    · rw [List.filter_cons_of_pos (by simpa using hp)]
      simp only [alookup]
      by_cases hk : (k == n) = true
      · have : k = n := by simpa using hk
        subst this; simp [hp]
      · rw [if_neg hk, if_neg hk]; exact ih
    · rw [List.filter_cons_of_neg (by simpa using hp)]
      simp only [alookup]
      by_cases hk : (k == n) = true
      · have : k = n := by simpa using hk
        subst this
        rw [ih]; simp [hp]
      · rw [if_neg hk]; exact ih

theorem filter_alike (ms : Masters) (hA : AlikeB ab ms) (p : String → Bool) :
    AlikeB ab (ms.map (fun (m : GlyphSet) => m.filter (fun e => p e.1))) := by
  intro m1' hm1 m2' hm2
  obtain ⟨m1, hx1, rfl⟩ := List.mem_map.mp hm1
  obtain ⟨m2, hx2, rfl⟩ := List.mem_map.mp hm2
  intro n g1 g2 h1 h2
  rw [get?_filter] at h1 h2
  by_cases hp : p n = true
  · rw [if_pos hp] at h1 h2; exact hA m1 hx1 m2 hx2 n g1 g2 h1 h2
  · rw [if_neg hp] at h1; cases h1

theorem skipI_alike (skip : List String) (hd : OpRelB ab (decomposeOp false (some skip))) (s s' : St) (hP : AlikeB ab s.ms) (h : skipI none skip s = .ok s') :
    AlikeB ab s'.ms := by
  unfold skipI at h
  split at h
  · simp only [Except.ok.injEq] at h; rw [← h]; exact hP
  · cases hr : runI (fun _ => true) (skipIStep none skip) s with
    | error e => rw [hr] at h; cases h
    | ok res =>
      obtain ⟨s1, md⟩ := res
      rw [hr] at h
      simp only [Except.ok.injEq] at h
      rw [← h, updated_ms]
      have h1 := runI_inv (fun s => AlikeB ab s.ms) _ _ (skipIStep_alike ab skip hd) (fun _ _ h => h) s s1 md hP hr
      exact filter_alike ab s1.ms h1 (fun n => !skip.contains n)

theorem runCustom_alike (hd : OpRelB ab (decomposeOp true none)) (cfg : Cfg) (hi : cfg.inst = none) (hu : UniformCustom cfg) (pre : Bool) (s s' : St)
    (hP : AlikeB ab s.ms) (h : runCustom cfg pre s = .ok s') : AlikeB ab s'.ms := by
  unfold runCustom at h
  dsimp only at h
  split at h
  · simp only [Except.ok.injEq] at h; rw [← h]; exact hP
  · rename_i hne
    split at h
    · rw [hi] at h
      exact runIU_alike ab _ _ (decomposeTransformedIStep_alike ab hd) s s' hP h
    · rename_i hns
      rcases hu pre with hu | hu
      · exact absurd hu hns
      · exact absurd hu hne

theorem decomposeNeeded_alike (hd : OpRelB ab (decomposeOp true none)) (s s' : St) (hP : AlikeB ab s.ms) (h : decomposeNeeded none s = .ok s') : AlikeB ab s'.ms := by
  unfold decomposeNeeded at h
  dsimp only at h
  split at h
  · simp only [Except.ok.injEq] at h; rw [← h]; exact hP
  · exact runIU_alike ab _ _ (decomposeIStep_alike ab hd) s s' hP h

theorem flattenI_alike (hfl : OpRelB ab flattenOp) (s s' : St) (hP : AlikeB ab s.ms) (h : flattenI none s = .ok s') : AlikeB ab s'.ms :=
  runIU_alike ab _ _ (flattenIStep_alike ab hfl) s s' hP h

theorem get?_map_val (m : GlyphSet) (F : Glyph → Glyph) (n : String) :
    GlyphSet.get? (m.map (fun e => (e.1, F e.2))) n = (m.get? n).map F := by
  induction m with
  | nil => rfl
  | cons a m ih =>
    obtain ⟨k, v⟩ := a
    simp only [GlyphSet.get?, List.map_cons, alookup] at ih ⊢
    by_cases hk : (k == n) = true
    · simp [hk]
    · simp [hk, ih]

theorem reverseAll_alike (hrev : ∀ g1 g2, ab g1 = ab g2 →
      ab { g1 with contours := g1.contours.map reverseContour } = ab { g2 with contours := g2.contours.map reverseContour })
    (ms : Masters) (hA : AlikeB ab ms) : AlikeB ab (reverseAll ms) := by
  intro m1' hm1 m2' hm2
  obtain ⟨m1, hy1, rfl⟩ := List.mem_map.mp hm1
  obtain ⟨m2, hy2, rfl⟩ := List.mem_map.mp hm2
  intro n g1 g2 h1 h2
  rw [get?_map_val m1 (fun g => { g with contours := g.contours.map reverseContour })] at h1
  rw [get?_map_val m2 (fun g => { g with contours := g.contours.map reverseContour })] at h2
  cases hg1 : m1.get? n with
  | none => rw [hg1] at h1; cases h1
  | some x1 =>
    cases hg2 : m2.get? n with
    | none => rw [hg2] at h2; cases h2
    | some x2 =>
      rw [hg1] at h1; rw [hg2] at h2
      simp only [Option.map_some, Option.some.injEq] at h1 h2
      rw [← h1, ← h2]
      exact hrev x1 x2 (hA m1 hy1 m2 hy2 n x1 x2 hg1 hg2)

end anyab

section rel
variable {σ τ : Type} (A : Abs σ τ)

def abK (k : Comp) : String × τ := (k.base, A.κ k.t)
def abG (g : Glyph) : σ × List (String × τ) := (A.Γ g.contours, g.comps.map (abK A))
def abD (d : Drawn) : σ × List (String × τ) := (A.Γ d.contours, d.comps.map (abK A))

abbrev Agree (m1 m2 : GlyphSet) : Prop := AgreeB (abG A) m1 m2
abbrev Alike (ms : Masters) : Prop := AlikeB (abG A) ms

theorem map_rel {α β : Type} (f : α → β) (F F' : α → α) (h : ∀ c c', f c = f c' → f (F c) = f (F' c')) :
    ∀ (l1 l2 : List α), l1.map f = l2.map f → (l1.map F).map f = (l2.map F').map f := by
  intro l1
  induction l1 with
  | nil => intro l2 e; cases l2 with | nil => rfl | cons b l2 => simp at e
  | cons a l1 ih =>
    intro l2 e
    cases l2 with
    | nil => simp at e
    | cons b l2 =>
      simp only [List.map_cons, List.cons.injEq] at e ⊢
      exact ⟨h a b e.1, ih l2 e.2⟩

/-- agreement on the names in `S` only -/
def AgreeOn (S : String → Prop) (m1 m2 : GlyphSet) : Prop :=
  ∀ n g1 g2, S n → m1.get? n = some g1 → m2.get? n = some g2 → abG A g1 = abG A g2

/-- `S` is closed under the component references of the first glyph set -/
def ClosedIn (S : String → Prop) (m : GlyphSet) : Prop := ∀ b g, S b → m.get? b = some g → ∀ k ∈ g.comps, S k.base

def RelOne (S : String → Prop) (m1 m2 : GlyphSet) (f1 : Nat) : Prop :=
  ∀ f2 rf nested incl base t1 t2 d1 d2, S base → A.κ t1 = A.κ t2 →
    addComp f1 m1 rf nested incl base t1 = .ok d1 → addComp f2 m2 rf nested incl base t2 = .ok d2 → abD A d1 = abD A d2

def RelMany (S : String → Prop) (m1 m2 : GlyphSet) (f1 : Nat) : Prop :=
  ∀ f2 rf nested incl t1 t2 ks1 ks2 d1 d2, (∀ k ∈ ks1, S k.base) → A.κ t1 = A.κ t2 → ks1.map (abK A) = ks2.map (abK A) →
    addComps f1 m1 rf nested incl t1 ks1 = .ok d1 → addComps f2 m2 rf nested incl t2 ks2 = .ok d2 → abD A d1 = abD A d2

theorem relMany_of_one (S : String → Prop) (m1 m2 : GlyphSet) (f1 : Nat) (h1 : RelOne A S m1 m2 f1) : RelMany A S m1 m2 f1 := by
  intro f2 rf nested incl t1 t2 ks1
  induction ks1 with
  | nil =>
    intro ks2 d1 d2 _ _ hk e1 e2
    cases ks2 with
    | cons b l => simp at hk
    | nil =>
      simp only [addComps, Except.ok.injEq] at e1 e2
      rw [← e1, ← e2]
  | cons k1 ks1 ih =>
    intro ks2 d1 d2 hS ht hk e1 e2
    cases ks2 with
    | nil => simp at hk
    | cons k2 ks2 =>
      simp only [List.map_cons, List.cons.injEq] at hk
      obtain ⟨hk0, hks⟩ := hk
      have hb : k1.base = k2.base := (Prod.mk.inj hk0).1
      have hkt : A.κ k1.t = A.κ k2.t := (Prod.mk.inj hk0).2
      simp only [addComps] at e1 e2
      cases ha1 : addComp f1 m1 rf nested incl k1.base (t1.compose k1.t) with
      | error e => rw [ha1] at e1; cases e1
      | ok x1 =>
        rw [ha1] at e1
        cases hr1 : addComps f1 m1 rf nested incl t1 ks1 with
        | error e => rw [hr1] at e1; cases e1
        | ok y1 =>
          rw [hr1] at e1
          cases ha2 : addComp f2 m2 rf nested incl k2.base (t2.compose k2.t) with
          | error e => rw [ha2] at e2; cases e2
          | ok x2 =>
            rw [ha2] at e2
            cases hr2 : addComps f2 m2 rf nested incl t2 ks2 with
            | error e => rw [hr2] at e2; cases e2
            | ok y2 =>
              rw [hr2] at e2
              simp only [Except.ok.injEq] at e1 e2
              rw [← e1, ← e2]
              rw [← hb] at ha2
              have hx := h1 f2 rf nested incl k1.base _ _ x1 x2 (hS k1 List.mem_cons_self) (A.κ_compose _ _ _ _ ht hkt) ha1 ha2
              have hy := ih ks2 y1 y2 (fun k hk => hS k (List.mem_cons_of_mem _ hk)) ht hks hr1 hr2
              simp only [abD, Drawn.append, List.map_append, Prod.mk.injEq] at hx hy ⊢
              exact ⟨A.Γ_append _ _ _ _ hx.1 hy.1, by rw [hx.2, hy.2]⟩

theorem relOne_succ (S : String → Prop) (m1 m2 : GlyphSet) (hag : AgreeOn A S m1 m2) (hcl : ClosedIn S m1) (f1 : Nat)
    (h2 : RelMany A S m1 m2 f1) : RelOne A S m1 m2 (f1 + 1) := by
  intro f2 rf nested incl base t1 t2 d1 d2 hSb ht e1 e2
  cases f2 with
  | zero => simp only [addComp] at e2; cases e2
  | succ f2 =>
    unfold addComp at e1 e2
    by_cases hi : isIncluded incl base = true
    · rw [if_pos hi] at e1 e2
      cases hb1 : m1.get? base with
      | none => rw [hb1] at e1; cases e1
      | some b1 =>
        rw [hb1] at e1; dsimp only at e1
        cases hb2 : m2.get? base with
        | none => rw [hb2] at e2; cases e2
        | some b2 =>
          rw [hb2] at e2; dsimp only at e2
          have hab := hag base b1 b2 hSb hb1 hb2
          simp only [abG, Prod.mk.injEq] at hab
          cases hc1 : addComps f1 m1 rf nested (inclNested nested incl) t1 b1.comps with
          | error e => rw [hc1] at e1; cases e1
          | ok x1 =>
            rw [hc1] at e1
            cases hc2 : addComps f2 m2 rf nested (inclNested nested incl) t2 b2.comps with
            | error e => rw [hc2] at e2; cases e2
            | ok x2 =>
              rw [hc2] at e2
              simp only [Except.ok.injEq] at e1 e2
              rw [← e1, ← e2]
              have hx := h2 f2 rf nested _ t1 t2 b1.comps b2.comps x1 x2 (hcl base b1 hSb hb1) ht hab.2 hc1 hc2
              simp only [abD, Prod.mk.injEq] at hx ⊢
              exact ⟨A.Γ_append _ _ _ _ (A.Γ_draw rf t1 t2 _ _ ht hab.1) hx.1, hx.2⟩
    · rw [if_neg hi] at e1 e2
      simp only [Except.ok.injEq] at e1 e2
      rw [← e1, ← e2]
      simp only [abD, abK, List.map_cons, List.map_nil, ht]

theorem rel_all (S : String → Prop) (m1 m2 : GlyphSet) (hag : AgreeOn A S m1 m2) (hcl : ClosedIn S m1) :
    ∀ f1, RelOne A S m1 m2 f1 ∧ RelMany A S m1 m2 f1 := by
  intro f1
  induction f1 with
  | zero =>
    have h0 : RelOne A S m1 m2 0 := by
      intro f2 rf nested incl base t1 t2 d1 d2 _ _ e1 _; simp only [addComp] at e1; cases e1
    exact ⟨h0, relMany_of_one A S m1 m2 0 h0⟩
  | succ n ih =>
    have h1 := relOne_succ A S m1 m2 hag hcl n ih.2
    exact ⟨h1, relMany_of_one A S m1 m2 (n + 1) h1⟩

/-- **decomposition respects agreement** — on a set `S` of names that contains the glyph's components' bases and is closed
    under component references: in two glyph sets that agree on `S`, glyphs that look the same decompose to glyphs that
    look the same (when both decompositions succeed) -/
theorem decomposeGlyph_relOn (S : String → Prop) (m1 m2 : GlyphSet) (hag : AgreeOn A S m1 m2) (hcl : ClosedIn S m1)
    (nested : Bool) (incl : Option (List String))
    (g1 g2 g1' g2' : Glyph) (hg : abG A g1 = abG A g2) (hgS : ∀ k ∈ g1.comps, S k.base)
    (e1 : decomposeGlyph m1 nested incl g1 = .ok g1') (e2 : decomposeGlyph m2 nested incl g2 = .ok g2') :
    abG A g1' = abG A g2' := by
  unfold decomposeGlyph at e1 e2
  simp only [abG, Prod.mk.injEq] at hg
  cases h1 : addComps (m1.length + 1) m1 true nested incl Affine.id g1.comps with
  | error e => rw [h1] at e1; cases e1
  | ok d1 =>
    rw [h1] at e1
    cases h2 : addComps (m2.length + 1) m2 true nested incl Affine.id g2.comps with
    | error e => rw [h2] at e2; cases e2
    | ok d2 =>
      rw [h2] at e2
      simp only [Except.ok.injEq] at e1 e2
      rw [← e1, ← e2]
      have hx := (rel_all A S m1 m2 hag hcl _).2 _ true nested incl Affine.id Affine.id g1.comps g2.comps d1 d2 hgS rfl hg.2 h1 h2
      simp only [abD, abG, Prod.mk.injEq] at hx ⊢
      exact ⟨A.Γ_append _ _ _ _ hg.1 hx.1, hx.2⟩

theorem decomposeGlyph_rel (m1 m2 : GlyphSet) (hag : Agree A m1 m2) (nested : Bool) (incl : Option (List String))
    (g1 g2 g1' g2' : Glyph) (hg : abG A g1 = abG A g2)
    (e1 : decomposeGlyph m1 nested incl g1 = .ok g1') (e2 : decomposeGlyph m2 nested incl g2 = .ok g2') :
    abG A g1' = abG A g2' :=
  decomposeGlyph_relOn A (fun _ => True) m1 m2 (fun n g1 g2 _ h1 h2 => hag n g1 g2 h1 h2) (fun _ _ _ _ _ _ => trivial)
    nested incl g1 g2 g1' g2' hg (fun _ _ => trivial) e1 e2

theorem decomposeOp_rel (nested : Bool) (incl : Option (List String)) : OpRelB (abG A) (decomposeOp nested incl) := by
  intro m1 m2 g1 g2 r1 r2 hag hg e1 e2
  unfold decomposeOp at e1 e2
  cases h1 : decomposeGlyph m1 nested incl g1 with
  | error e => rw [h1] at e1; cases e1
  | ok g1' =>
    rw [h1] at e1
    cases h2 : decomposeGlyph m2 nested incl g2 with
    | error e => rw [h2] at e2; cases e2
    | ok g2' =>
      rw [h2] at e2
      simp only [Except.ok.injEq] at e1 e2
      rw [← e1, ← e2]
      simp only [Option.map_some, Option.some.injEq]
      exact decomposeGlyph_rel A m1 m2 hag nested incl g1 g2 g1' g2' hg h1 h2


/-! flattening looks at component names / matrices and at whether a base is "simple or mixed" -/

def abF (g : Glyph) : Bool × List (String × τ) := (isSimpleOrMixed g, g.comps.map (abK A))

def FRelOne (m1 m2 : GlyphSet) (f1 : Nat) : Prop :=
  ∀ f2 k1 k2 fl1 fl2, abK A k1 = abK A k2 → flattenComp f1 m1 k1 = .ok fl1 → flattenComp f2 m2 k2 = .ok fl2 →
    fl1.map (abK A) = fl2.map (abK A)

def FRelMany (m1 m2 : GlyphSet) (f1 : Nat) : Prop :=
  ∀ f2 o1 o2 ks1 ks2 r1 r2, A.κ o1.t = A.κ o2.t → ks1.map (abK A) = ks2.map (abK A) →
    flattenNested f1 m1 o1 ks1 = .ok r1 → flattenNested f2 m2 o2 ks2 = .ok r2 → r1.map (abK A) = r2.map (abK A)

theorem flat_map_rel (o1 o2 : Comp) (ho : A.κ o1.t = A.κ o2.t) : ∀ (l1 l2 : List Comp), l1.map (abK A) = l2.map (abK A) →
    (l1.map (fun c => (⟨c.base, ((o1.t.translate c.t.dx c.t.dy).compose ⟨c.t.xx, c.t.xy, c.t.yx, c.t.yy, 0, 0⟩)⟩ : Comp))).map (abK A) =
    (l2.map (fun c => (⟨c.base, ((o2.t.translate c.t.dx c.t.dy).compose ⟨c.t.xx, c.t.xy, c.t.yx, c.t.yy, 0, 0⟩)⟩ : Comp))).map (abK A) := by
  intro l1
  induction l1 with
  | nil => intro l2 e; cases l2 with | nil => rfl | cons b l2 => simp at e
  | cons a l1 ih =>
    intro l2 e
    cases l2 with
    | nil => simp at e
    | cons b l2 =>
      simp only [List.map_cons, List.cons.injEq] at e ⊢
      refine ⟨?_, ih l2 e.2⟩
      have hb := (Prod.mk.inj e.1)
      simp only [abK, Prod.mk.injEq]
      exact ⟨hb.1, A.κ_flat _ _ _ _ ho hb.2⟩

theorem frelMany_of_one (m1 m2 : GlyphSet) (f1 : Nat) (h1 : FRelOne A m1 m2 f1) : FRelMany A m1 m2 f1 := by
  intro f2 o1 o2 ks1
  induction ks1 with
  | nil =>
    intro ks2 r1 r2 _ hk e1 e2
    cases ks2 with
    | cons b l => simp at hk
    | nil => simp only [flattenNested, Except.ok.injEq] at e1 e2; rw [← e1, ← e2]
  | cons k1 ks1 ih =>
    intro ks2 r1 r2 ho hk e1 e2
    cases ks2 with
    | nil => simp at hk
    | cons k2 ks2 =>
      simp only [List.map_cons, List.cons.injEq] at hk
      simp only [flattenNested] at e1 e2
      cases ha1 : flattenComp f1 m1 k1 with
      | error e => rw [ha1] at e1; cases e1
      | ok x1 =>
        rw [ha1] at e1; dsimp only at e1
        cases hr1 : flattenNested f1 m1 o1 ks1 with
        | error e => rw [hr1] at e1; cases e1
        | ok y1 =>
          rw [hr1] at e1
          cases ha2 : flattenComp f2 m2 k2 with
          | error e => rw [ha2] at e2; cases e2
          | ok x2 =>
            rw [ha2] at e2; dsimp only at e2
            cases hr2 : flattenNested f2 m2 o2 ks2 with
            | error e => rw [hr2] at e2; cases e2
            | ok y2 =>
              rw [hr2] at e2
              simp only [Except.ok.injEq] at e1 e2
              rw [← e1, ← e2]
              have hx := h1 f2 k1 k2 x1 x2 hk.1 ha1 ha2
              have hy := ih ks2 y1 y2 ho hk.2 hr1 hr2
              rw [List.map_append, List.map_append, flat_map_rel A o1 o2 ho x1 x2 hx, hy]

theorem frelOne_succ (m1 m2 : GlyphSet) (hag : AgreeB (abF A) m1 m2) (f1 : Nat) (h2 : FRelMany A m1 m2 f1) :
    FRelOne A m1 m2 (f1 + 1) := by
  intro f2 k1 k2 fl1 fl2 hk e1 e2
  cases f2 with
  | zero => simp only [flattenComp] at e2; cases e2
  | succ f2 =>
    unfold flattenComp at e1 e2
    have hb := (Prod.mk.inj hk)
    rw [← hb.1] at e2
    cases hb1 : m1.get? k1.base with
    | none => rw [hb1] at e1; cases e1
    | some b1 =>
      rw [hb1] at e1; dsimp only at e1
      cases hb2 : m2.get? k1.base with
      | none => rw [hb2] at e2; cases e2
      | some b2 =>
        rw [hb2] at e2; dsimp only at e2
        have hab := hag k1.base b1 b2 hb1 hb2
        simp only [abF, Prod.mk.injEq] at hab
        rw [← hab.1] at e2
        by_cases hs : isSimpleOrMixed b1 = true
        · rw [if_pos hs] at e1 e2
          simp only [Except.ok.injEq] at e1 e2
          rw [← e1, ← e2]
          simp only [List.map_cons, List.map_nil, hk]
        · rw [if_neg hs] at e1 e2
          exact h2 f2 k1 k2 b1.comps b2.comps fl1 fl2 hb.2 hab.2 e1 e2

theorem frel_all (m1 m2 : GlyphSet) (hag : AgreeB (abF A) m1 m2) : ∀ f1, FRelOne A m1 m2 f1 ∧ FRelMany A m1 m2 f1 := by
  intro f1
  induction f1 with
  | zero =>
    have h0 : FRelOne A m1 m2 0 := by intro f2 k1 k2 fl1 fl2 _ e1 _; simp only [flattenComp] at e1; cases e1
    exact ⟨h0, frelMany_of_one A m1 m2 0 h0⟩
  | succ n ih =>
    have h1 := frelOne_succ A m1 m2 hag n ih.2
    exact ⟨h1, frelMany_of_one A m1 m2 (n + 1) h1⟩

/-- **flattening respects agreement** -/
theorem flattenGlyphComps_rel (m1 m2 : GlyphSet) (hag : AgreeB (abF A) m1 m2) :
    ∀ (ks1 ks2 : List Comp) (r1 r2 : List Comp × Bool), ks1.map (abK A) = ks2.map (abK A) →
      flattenGlyphComps m1 ks1 = .ok r1 → flattenGlyphComps m2 ks2 = .ok r2 → r1.1.map (abK A) = r2.1.map (abK A) := by
  intro ks1
  induction ks1 with
  | nil =>
    intro ks2 r1 r2 hk e1 e2
    cases ks2 with
    | cons b l => simp at hk
    | nil => simp only [flattenGlyphComps, Except.ok.injEq] at e1 e2; rw [← e1, ← e2]
  | cons k1 ks1 ih =>
    intro ks2 r1 r2 hk e1 e2
    cases ks2 with
    | nil => simp at hk
    | cons k2 ks2 =>
      simp only [List.map_cons, List.cons.injEq] at hk
      simp only [flattenGlyphComps] at e1 e2
      cases ha1 : flattenComp (m1.length + 1) m1 k1 with
      | error e => rw [ha1] at e1; cases e1
      | ok x1 =>
        rw [ha1] at e1; dsimp only at e1
        cases ha2 : flattenComp (m2.length + 1) m2 k2 with
        | error e => rw [ha2] at e2; cases e2
        | ok x2 =>
          rw [ha2] at e2; dsimp only at e2
          cases hh1 : x1.head? with
          | none => rw [hh1] at e1; cases e1
          | some hd1 =>
            rw [hh1] at e1; dsimp only at e1
            cases hh2 : x2.head? with
            | none => rw [hh2] at e2; cases e2
            | some hd2 =>
              rw [hh2] at e2; dsimp only at e2
              cases hr1 : flattenGlyphComps m1 ks1 with
              | error e => rw [hr1] at e1; cases e1
              | ok y1 =>
                rw [hr1] at e1
                cases hr2 : flattenGlyphComps m2 ks2 with
                | error e => rw [hr2] at e2; cases e2
                | ok y2 =>
                  rw [hr2] at e2
                  simp only [Except.ok.injEq] at e1 e2
                  rw [← e1, ← e2]
                  have hx := (frel_all A m1 m2 hag _).1 _ k1 k2 x1 x2 hk.1 ha1 ha2
                  have hy := ih ks2 y1 y2 hk.2 hr1 hr2
                  simp only [List.map_append, hx, hy]

/-- flattening respects agreement on (`isSimpleOrMixed`, components) -/
theorem flattenOp_relF : OpRelB (abF A) flattenOp := by
  intro m1 m2 g1 g2 r1 r2 hag hg e1 e2
  unfold flattenOp at e1 e2
  have hg' := hg
  simp only [abF, Prod.mk.injEq] at hg'
  have hc : g1.comps.isEmpty = g2.comps.isEmpty := by
    have := congrArg List.length hg'.2
    simp only [List.length_map] at this
    cases hc1 : g1.comps <;> cases hc2 : g2.comps <;> simp_all
  rw [← hc] at e2
  by_cases he : g1.comps.isEmpty = true
  · rw [if_pos he] at e1 e2
    simp only [Except.ok.injEq] at e1 e2
    rw [← e1, ← e2]
  · rw [if_neg he] at e1 e2
    cases h1 : flattenGlyphComps m1 g1.comps with
    | error e => rw [h1] at e1; cases e1
    | ok x1 =>
      rw [h1] at e1
      cases h2 : flattenGlyphComps m2 g2.comps with
      | error e => rw [h2] at e2; cases e2
      | ok x2 =>
        rw [h2] at e2
        obtain ⟨cs1, fl1⟩ := x1
        obtain ⟨cs2, fl2⟩ := x2
        simp only [Except.ok.injEq] at e1 e2
        rw [← e1, ← e2]
        have hx := flattenGlyphComps_rel A m1 m2 hag g1.comps g2.comps _ _ hg'.2 h1 h2
        dsimp only at hx
        simp only [Option.map_some, Option.some.injEq, abF, Prod.mk.injEq]
        refine ⟨?_, hx⟩
        -- the glyph had components and no contours-or-some: `isSimpleOrMixed` only depends on the contours now
        have hce : cs1.isEmpty = cs2.isEmpty := by
          have := congrArg List.length hx
          simp only [List.length_map] at this
          cases hc1 : cs1 <;> cases hc2 : cs2 <;> simp_all
        have h1' := hg'.1
        have he2 : g2.comps.isEmpty = false := by rw [← hc]; simpa using he
        have he1 : g1.comps.isEmpty = false := by simpa using he
        simp only [isSimpleOrMixed, he1, he2, Bool.false_or] at h1'
        simp only [isSimpleOrMixed, hce, h1']

/-- full decomposition leaves a simple glyph whatever the glyph set -/
theorem decomposeOp_relF : OpRelB (abF A) (decomposeOp true none) := by
  intro m1 m2 g1 g2 r1 r2 _ _ e1 e2
  unfold decomposeOp at e1 e2
  cases h1 : decomposeGlyph m1 true none g1 with
  | error e => rw [h1] at e1; cases e1
  | ok g1' =>
    rw [h1] at e1
    cases h2 : decomposeGlyph m2 true none g2 with
    | error e => rw [h2] at e2; cases e2
    | ok g2' =>
      rw [h2] at e2
      simp only [Except.ok.injEq] at e1 e2
      rw [← e1, ← e2]
      have c1 := decomposeGlyph_no_comps m1 true g1 g1' h1
      have c2 := decomposeGlyph_no_comps m2 true g2 g2' h2
      simp [abF, isSimpleOrMixed, c1, c2]

/-- for an abstraction that sees whether there are contours, flattening respects agreement -/
theorem flattenOp_rel (hE : ∀ cs cs', A.Γ cs = A.Γ cs' → cs.isEmpty = cs'.isEmpty) : OpRelB (abG A) flattenOp := by
  have toF : ∀ g1 g2, abG A g1 = abG A g2 → abF A g1 = abF A g2 := by
    intro g1 g2 h
    simp only [abG, Prod.mk.injEq] at h
    have h2 : g1.comps.isEmpty = g2.comps.isEmpty := by
      have := congrArg List.length h.2
      simp only [List.length_map] at this
      cases hc1 : g1.comps <;> cases hc2 : g2.comps <;> simp_all
    simp only [abF, isSimpleOrMixed, hE _ _ h.1, h2, h.2]
  intro m1 m2 g1 g2 r1 r2 hag hg e1 e2
  have hagF : AgreeB (abF A) m1 m2 := fun n b1 b2 h1 h2 => toF b1 b2 (hag n b1 b2 h1 h2)
  have hrel := flattenOp_relF A m1 m2 g1 g2 r1 r2 hagF (toF g1 g2 hg) e1 e2
  -- contours are untouched
  unfold flattenOp at e1 e2
  split at e1
  · simp only [Except.ok.injEq] at e1
    rw [← e1] at hrel ⊢
    cases hr2 : r2.1 with
    | none => rfl
    | some _ => rw [hr2] at hrel; simp at hrel
  · cases h1 : flattenGlyphComps m1 g1.comps with
    | error e => rw [h1] at e1; cases e1
    | ok x1 =>
      rw [h1] at e1
      simp only [Except.ok.injEq] at e1
      split at e2
      · simp only [Except.ok.injEq] at e2
        rw [← e1, ← e2] at hrel; simp at hrel
      · cases h2 : flattenGlyphComps m2 g2.comps with
        | error e => rw [h2] at e2; cases e2
        | ok x2 =>
          rw [h2] at e2
          simp only [Except.ok.injEq] at e2
          rw [← e1, ← e2] at hrel ⊢
          simp only [Option.map_some, Option.some.injEq, abF, abG, Prod.mk.injEq] at hrel hg ⊢
          exact ⟨hg.1, hrel.2⟩

end rel

/-! ### the three abstractions -/

/-- component base names only -/
def absN : Abs Unit Unit where
  Γ := fun _ => ()
  κ := fun _ => ()
  κ_compose := fun _ _ _ _ _ _ => rfl
  κ_flat := fun _ _ _ _ _ _ => rfl
  Γ_append := fun _ _ _ _ _ _ => rfl
  Γ_draw := fun _ _ _ _ _ _ _ => rfl
  Γ_rev := fun _ _ _ => rfl

theorem linear_compose (s s' t t' : Affine) (hs : s.linear = s'.linear) (ht : t.linear = t'.linear) :
    (s.compose t).linear = (s'.compose t').linear := by
  simp only [Affine.linear, Prod.mk.injEq] at hs ht
  obtain ⟨a1, a2, a3, a4⟩ := hs
  obtain ⟨b1, b2, b3, b4⟩ := ht
  simp only [Affine.linear, Affine.compose, a1, a2, a3, a4, b1, b2, b3, b4]

/-- component base names and 2×2 parts -/
def absL : Abs Unit (Q × Q × Q × Q) where
  Γ := fun _ => ()
  κ := Affine.linear
  κ_compose := fun s s' t t' hs ht => linear_compose s s' t t' hs ht
  κ_flat := by
    intro o o' c c' ho hc
    apply linear_compose
    · simp only [Affine.translate]
      exact linear_compose o o' _ _ ho rfl
    · simpa [Affine.linear] using hc
  Γ_append := fun _ _ _ _ _ _ => rfl
  Γ_draw := fun _ _ _ _ _ _ _ => rfl
  Γ_rev := fun _ _ _ => rfl

/-- point types, component base names, determinant signs (the abstraction of `Props/C09.lean`, relationally) -/
def absS : Abs (List CShape) Int where
  Γ := fun cs => cs.map contourShape
  κ := fun t => sgn t.det
  κ_compose := by
    intro s s' t t' hs ht
    rw [sgn_det_compose, sgn_det_compose, hs, ht]
  κ_flat := by
    intro o o' c c' ho hc
    rw [sgn_det_compose, sgn_det_compose, det_translate, det_translate, ho]
    have e1 : (⟨c.xx, c.xy, c.yx, c.yy, 0, 0⟩ : Affine).det = c.det := by simp [Affine.det]
    have e2 : (⟨c'.xx, c'.xy, c'.yx, c'.yy, 0, 0⟩ : Affine).det = c'.det := by simp [Affine.det]
    rw [e1, e2, hc]
  Γ_append := by
    intro a a' b b' h1 h2
    simp only [List.map_append, h1, h2]
  Γ_draw := by
    intro rf t t' cs cs' ht hc
    rw [drawContours_shape, drawContours_shape, ht, hc]
  Γ_rev := by
    intro cs cs' hc
    have e : ∀ l : List Contour, (l.map reverseContour).map contourShape = (l.map contourShape).map reverseShape := by
      intro l
      simp only [List.map_map]
      apply List.map_congr_left
      intro c _
      exact reverseContour_shape c
    rw [e, e, hc]

theorem absS_isEmpty : ∀ cs cs' : List Contour, absS.Γ cs = absS.Γ cs' → cs.isEmpty = cs'.isEmpty := by
  intro cs cs' h
  have := congrArg List.length h
  simp only [absS, List.length_map] at this
  cases cs <;> cases cs' <;> simp_all

theorem abG_absS (g : Glyph) : abG absS g = (g.contours.map contourShape, g.comps.map (fun k => (k.base, sgn k.t.det))) := rfl

end Ufo2ft.C09
