import Ufo2ftModel.Spec.C03
/-! Property C03: theorems about the model. -/
namespace Ufo2ft.C03
open List

theorem contains_erase_of_nodup {l : List String} (h : l.Nodup) (n x : String) :
    (l.erase n).contains x = (x != n && l.contains x) := by
  rw [Bool.eq_iff_iff]
  simp [h.mem_erase_iff]

/-- loop invariant of `orderLoop` in closed form -/
theorem orderLoop_eq (go rem acc : List String) (h : rem.Nodup) :
    orderLoop go rem acc =
      (rem.filter (fun x => !((go.filter rem.contains).eraseDups).contains x),
       acc ++ (go.filter rem.contains).eraseDups) := by
  induction go generalizing rem acc with
  | nil =>
    simp only [orderLoop, filter_nil, eraseDups_nil, contains_nil, Bool.not_false, append_nil]
    rw [filter_eq_self.mpr (by simp)]
  | cons n go ih =>
    unfold orderLoop
    by_cases hn : rem.contains n = true
    · have hnd : (rem.erase n).Nodup := h.erase n
      simp only [hn, if_true, filter_cons_of_pos, eraseDups_cons]
      rw [ih _ _ hnd]
      have e1 : (go.filter (rem.erase n).contains) = (go.filter rem.contains).filter (fun b => !b == n) := by
        rw [filter_filter]; apply filter_congr; intro x _
        rw [contains_erase_of_nodup h]; simp [bne]
      rw [e1, h.erase_eq_filter, filter_filter]
      refine Prod.ext ?_ ?_
      · apply filter_congr; intro x _
        simp only [contains_cons, Bool.not_or, bne]
        cases hx : (x == n) <;> simp
      · simp [append_assoc]
    · simp only [hn]
      have : ((n :: go).filter rem.contains) = go.filter rem.contains := by
        have : n ∉ rem := by simpa using hn
        simp [this]
      rw [this]; exact ih _ _ h

theorem withNotdef_nodup {names : List String} (h : names.Nodup) : (withNotdef names).Nodup := by
  unfold withNotdef; split
  · exact h
  · rename_i hn
    simp only [contains_eq_mem, decide_eq_true_eq] at hn
    exact nodup_append.mpr ⟨h, by simp, by
      intro a ha b hb; simp at hb; subst hb; intro e; subst e; exact hn ha⟩

theorem withNotdef_contains (names : List String) : (withNotdef names).contains ND = true := by
  unfold withNotdef; split <;> simp_all [ND]

theorem withNotdef_filter (names : List String) :
    (withNotdef names).filter (fun x => x != ND) = names.filter (fun x => x != ND) := by
  unfold withNotdef; split <;> simp [ND]

theorem withNotdef_contains_ne (names : List String) (x : String) :
    (x != ND && (withNotdef names).contains x) = (x != ND && names.contains x) := by
  unfold withNotdef; split
  · rfl
  · cases hx : (x != ND) <;> simp_all [ND]

/-- **C03_order (1/3)**: the model of the compiler's glyph order is the declarative order. -/
theorem order_eq_spec (names go : List String) (h : names.Nodup) :
    compileOrder names go = specOrder names go := by
  have hnd := withNotdef_nodup h
  unfold compileOrder officialOrder
  have hc : (withNotdef names).contains ".notdef" = true := withNotdef_contains names
  simp only [hc, if_true]
  rw [orderLoop_eq _ _ _ (hnd.erase _)]
  have e0 : (go.filter ((withNotdef names).erase ".notdef").contains)
      = go.filter (fun n => n != ND && names.contains n) := by
    apply filter_congr; intro x _
    rw [contains_erase_of_nodup hnd]; exact withNotdef_contains_ne names x
  simp only [e0]
  unfold specOrder listed
  simp only [cons_append, nil_append]
  congr 2
  rw [hnd.erase_eq_filter]
  have := withNotdef_filter names
  simp only [ND] at this
  rw [this, filter_filter]
  congr 1
  apply filter_congr; intro x _
  simp [ND, Bool.and_comm]

theorem nodup_eraseDups (l : List String) : l.eraseDups.Nodup := by
  generalize hn : l.length = n
  induction n using Nat.strongRecOn generalizing l with
  | _ n ih =>
    cases l with
    | nil => simp
    | cons a t =>
      rw [eraseDups_cons]
      refine nodup_cons.mpr ⟨?_, ?_⟩
      · simp [mem_eraseDups]
      · have hl : (t.filter fun b => !b == a).length < n := by
          subst hn; simp only [length_cons]; exact Nat.lt_succ_of_le (length_filter_le _ _)
        exact ih _ hl _ rfl

theorem listed_nodup (names go : List String) : (listed names go).Nodup := nodup_eraseDups _

theorem mem_listed {names go : List String} {x : String} :
    x ∈ listed names go ↔ x ∈ go ∧ x ≠ ND ∧ x ∈ names := by
  simp [listed, mem_eraseDups]

/-- **C03_order (2/3)**: every exported glyph exactly once; `.notdef` first whether present or synthesised. -/
theorem specOrder_perm (names go : List String) (h : names.Nodup) :
    (specOrder names go).Perm (ND :: names.filter (fun x => x != ND)) := by
  unfold specOrder
  refine Perm.cons _ ?_
  have hsort := sortStr_perm (names.filter (fun n => n != ND && !(listed names go).contains n))
  refine (Perm.append_left _ hsort).trans ?_
  have hpart := filter_append_perm (fun x => (listed names go).contains x) (names.filter (fun x => x != ND))
  refine Perm.trans ?_ hpart
  refine Perm.append ?_ ?_
  · refine (perm_ext_iff_of_nodup (listed_nodup _ _) ((h.filter _).filter _)).mpr ?_
    intro a; simp only [mem_filter, contains_eq_mem, decide_eq_true_eq, bne_iff_ne, ne_eq]
    rw [mem_listed]; constructor
    · rintro ⟨hgo, hne, hin⟩; exact ⟨⟨hin, hne⟩, hgo, hne, hin⟩
    · rintro ⟨_, hl⟩; exact hl
  · rw [filter_filter]
    apply Perm.of_eq; apply filter_congr; intro x _; simp [Bool.and_comm]

theorem specOrder_nodup (names go : List String) (h : names.Nodup) : (specOrder names go).Nodup := by
  refine (specOrder_perm names go h).nodup_iff.mpr ?_
  exact nodup_cons.mpr ⟨by simp, h.filter _⟩

theorem specOrder_head (names go : List String) : (specOrder names go).head? = some ".notdef" := rfl

/-- **C03_order (3/3)**: the tail after the listed glyphs is sorted by name. -/
theorem specOrder_rest_sorted (names go : List String) :
    ∃ rest, specOrder names go = ND :: (listed names go ++ rest) ∧ rest.Pairwise (· ≤ ·) :=
  ⟨_, rfl, sortStr_sorted _⟩

/-- **C03_order**, packaged as the decidable predicate holding of the model's output. -/
theorem C03_order (names go : List String) (h : names.Nodup) :
    holdsOrder names go (compileOrder names go) = true := by
  simp [holdsOrder, order_eq_spec names go h]

/-- '.notdef' is glyph 0 of the modelled compile for EVERY name set and EVERY requested order — in particular when glyph
names compare lower than the string ".notdef" ("-", ".alt", ".n", …), where a plain `sorted()` would put them first. -/
theorem C03_notdef_first (names go : List String) (h : names.Nodup) :
    (compileOrder names go).head? = some ".notdef" := by
  rw [order_eq_spec names go h]; rfl

/-- with nothing to honour (no stored order, an empty one, or an explicit `glyphOrder=[]`) the order is '.notdef' followed by
ALL other glyphs sorted by name — not the sorted list of all names. -/
theorem C03_empty_order (names : List String) (h : names.Nodup) :
    compileOrder names [] = ".notdef" :: sortStr (names.filter (fun n => n != ".notdef")) := by
  rw [order_eq_spec names [] h]; simp [specOrder, listed, ND]

/-- witness that the two differ (the shape of seeded change C03e): for the glyph set {"-"} plain alphabetical order of the
completed glyph set is ["-", ".notdef"], which is not the compile order. -/
theorem plain_sorted_ne_order : sortStr (withNotdef ["-"]) ≠ compileOrder ["-"] [] := by
  intro hh
  have := congrArg List.head? hh
  rw [C03_notdef_first _ _ (by simp)] at this
  have hp : sortStr (withNotdef ["-"]) = ["-", ".notdef"] := by
    unfold sortStr
    exact List.mergeSort_of_pairwise (by simp [withNotdef, strLe])
  rw [hp] at this
  simp at this

example : compileOrder ["-", ".alt", "a"] [] = [".notdef", "-", ".alt", "a"] := by
  rw [C03_empty_order _ (by decide)]
  have hf : (["-", ".alt", "a"].filter (fun n => n != ".notdef")) = ["-", ".alt", "a"] := by decide
  rw [hf]; unfold sortStr
  rw [List.mergeSort_of_pairwise (by simp [strLe])]

end Ufo2ft.C03

namespace Ufo2ft.C03
open List

def keys (m : CMap) : List Nat := m.map (·.1)

theorem alookup_isSome (u : Nat) (m : CMap) : (alookup u m).isSome = (keys m).contains u := by
  induction m with
  | nil => rfl
  | cons e m ih =>
    obtain ⟨k, v⟩ := e
    simp only [alookup, keys, map_cons, contains_cons]
    by_cases h : k = u
    · subst h; simp
    · have h1 : (k == u) = false := by simpa using h
      have h2 : (u == k) = false := by simpa using (fun e : u = k => h e.symm)
      simp only [h1, h2, Bool.false_or, Bool.false_eq_true, if_false]; exact ih

theorem mapGlyph_spec (g : String) (us : List Nat) (m : CMap) :
    mapGlyph g us m =
      if (∀ u ∈ us, u ∉ keys m) ∧ us.Nodup then .ok (m ++ us.map (fun u => (u, g)))
      else .error .invalidFontData := by
  induction us generalizing m with
  | nil => simp [mapGlyph]
  | cons u us ih =>
    unfold mapGlyph
    rw [alookup_isSome]
    by_cases hm : u ∈ keys m
    · have hu : (keys m).contains u = true := by simpa using hm
      rw [if_pos hu, if_neg]
      intro h; exact h.1 u (mem_cons_self ..) hm
    · have hu : ¬ (keys m).contains u = true := by simpa using hm
      rw [if_neg hu, ih]
      have hk : keys (m ++ [(u, g)]) = keys m ++ [u] := by simp [keys]
      have hiff : ((∀ v ∈ us, v ∉ keys (m ++ [(u, g)])) ∧ us.Nodup) ↔
          ((∀ v ∈ u :: us, v ∉ keys m) ∧ (u :: us).Nodup) := by
        rw [hk]; constructor
        · rintro ⟨h1, h2⟩
          refine ⟨?_, nodup_cons.mpr ⟨fun hu' => h1 u hu' (by simp), h2⟩⟩
          intro v hv; rcases mem_cons.mp hv with rfl | hv
          · exact hm
          · intro hvm; exact h1 v hv (mem_append_left _ hvm)
        · rintro ⟨h1, h2⟩
          refine ⟨?_, (nodup_cons.mp h2).2⟩
          intro v hv hvm
          rcases mem_append.mp hvm with hvm | hvm
          · exact h1 v (mem_cons_of_mem _ hv) hvm
          · have : v = u := by simpa using hvm
            subst this; exact (nodup_cons.mp h2).1 hv
      by_cases hc : (∀ v ∈ u :: us, v ∉ keys m) ∧ (u :: us).Nodup
      · rw [if_pos hc, if_pos (hiff.mpr hc)]; simp
      · rw [if_neg hc, if_neg (fun h => hc (hiff.mp h))]

theorem declared_cons (g : String) (us : List Nat) (gs : List (String × List Nat)) :
    declared ((g, us) :: gs) = us.map (fun u => (u, g)) ++ declared gs := by
  simp [declared]

theorem mapLoop_spec (gs : List (String × List Nat)) (m : CMap) (hm : (keys m).Nodup) :
    mapLoop gs m =
      if (keys m ++ (declared gs).map (·.1)).Nodup then .ok (m ++ declared gs)
      else .error .invalidFontData := by
  induction gs generalizing m with
  | nil => simp [mapLoop, declared, hm]
  | cons e gs ih =>
    obtain ⟨g, us⟩ := e
    unfold mapLoop
    rw [mapGlyph_spec, declared_cons]
    have hmap : (us.map (fun u => (u, g)) ++ declared gs).map (·.1) = us ++ (declared gs).map (·.1) := by
      simp [map_append, Function.comp_def]
    rw [hmap]
    by_cases hc : (∀ u ∈ us, u ∉ keys m) ∧ us.Nodup
    · simp only [if_pos hc]
      have hk : keys (m ++ us.map (fun u => (u, g))) = keys m ++ us := by
        simp [keys, Function.comp_def]
      have hnd : (keys m ++ us).Nodup :=
        nodup_append.mpr ⟨hm, hc.2, by
          intro a ha b hb e; subst e; exact hc.1 a hb ha⟩
      rw [ih _ (hk ▸ hnd), hk, append_assoc, append_assoc]
    · simp only [if_neg hc]
      rw [if_neg]
      intro h; apply hc
      rw [← append_assoc] at h
      have h1 := (nodup_append.mp h).1
      obtain ⟨_, hus, hdisj⟩ := nodup_append.mp h1
      exact ⟨fun u hu hk => hdisj u hk u hu rfl, hus⟩

/-- **C03_cmap / C03_dup**: the mapping is exactly the source's declarations when no code
point is declared twice, and an invalid-font-data error otherwise (never last-wins). -/
theorem unicodeMap_spec (gs : List (String × List Nat)) :
    unicodeMap gs = if noDup gs then .ok (declared gs) else .error .invalidFontData := by
  unfold unicodeMap
  rw [mapLoop_spec gs [] (by simp [keys])]
  simp [keys, noDup]

theorem C03_dup (gs : List (String × List Nat)) (h : noDup gs = false) :
    unicodeMap gs = .error .invalidFontData := by
  rw [unicodeMap_spec]; simp [h]

/-- **C03_cmap**: the subtables of the model satisfy the declarative cmap predicate. -/
theorem C03_cmap (gs : List (String × List Nat)) (_h : noDup gs = true) :
    holdsCmap gs (cmapTables (declared gs)).fmt4 (cmapTables (declared gs)).fmt12 = true := by
  unfold holdsCmap cmapTables
  by_cases he : ((declared gs).filter (fun e => e.1 > 65535)).isEmpty = true
  · simp only [he, if_true]
    have hall : ∀ e ∈ declared gs, e.1 ≤ 65535 := by
      intro e hmem
      have := (filter_eq_nil_iff.mp (isEmpty_iff.mp he)) e hmem
      simpa using this
    simp only [Bool.and_eq_true, all_eq_true, decide_eq_true_eq]
    refine ⟨isPerm_iff.mpr ?_, fun e hmem => hall e hmem⟩
    rw [filter_eq_self.mpr (by intro e hmem; simpa using hall e hmem)]
  · simp only [he]
    simp only [Bool.false_eq_true, if_false, Bool.and_eq_true]
    refine ⟨isPerm_iff.mpr (Perm.refl _), ?_, isPerm_iff.mpr ?_⟩
    · have hne : (declared gs).filter (fun e => e.1 > 65535) ≠ [] := by
        intro h; apply he; simp [h]
      obtain ⟨e, hmem⟩ := exists_mem_of_ne_nil _ hne
      have := mem_filter.mp hmem
      exact any_eq_true.mpr ⟨e, this.1, this.2⟩
    · have := filter_append_perm (fun e : Nat × String => decide (e.1 > 65535)) (declared gs)
      refine Perm.trans (Perm.append_left _ (Perm.of_eq ?_)) this
      apply filter_congr; intro e _
      by_cases h : 65535 < e.1 <;> simp [h] <;> omega

/-- the compiler feeds `setupTable_cmap` with `unicodeMap`; end-to-end statement -/
theorem C03_cmap_model (gs : List (String × List Nat)) (h : noDup gs = true) :
    ∃ m, unicodeMap gs = .ok m ∧ holdsCmap gs (cmapTables m).fmt4 (cmapTables m).fmt12 = true :=
  ⟨declared gs, by rw [unicodeMap_spec]; simp [h], C03_cmap gs h⟩

/-- every code point of every glyph is a declaration - whatever the glyph's FIRST code point is (no "encoded glyph"
pre-filter on `glyph.unicode`, whose value 0 for U+0000 is falsy in Python) -/
theorem mem_declared {gs : List (String × List Nat)} {g : String} {us : List Nat} {u : Nat}
    (hg : (g, us) ∈ gs) (hu : u ∈ us) : (u, g) ∈ declared gs := by
  unfold declared
  exact mem_flatMap.mpr ⟨(g, us), hg, mem_map.mpr ⟨u, hu, rfl⟩⟩

/-- **C03_cmap_every**: in the model, every code point `u` (U+0000 included, first or secondary) of every glyph of a
duplicate-free source is mapped to that glyph: in the 16-bit subtables when `u ≤ 0xFFFF`, and in the 32-bit subtables
whenever these exist. -/
theorem C03_cmap_every (gs : List (String × List Nat)) (h : noDup gs = true) (g : String) (us : List Nat) (u : Nat)
    (hg : (g, us) ∈ gs) (hu : u ∈ us) :
    ∃ m, unicodeMap gs = .ok m ∧ (u ≤ 65535 → (u, g) ∈ (cmapTables m).fmt4) ∧
      (∀ t, (cmapTables m).fmt12 = some t → (u, g) ∈ t) := by
  refine ⟨declared gs, by rw [unicodeMap_spec]; simp [h], ?_, ?_⟩
  · intro hle
    have hd := mem_declared hg hu
    unfold cmapTables
    by_cases he : ((declared gs).filter (fun e => e.1 > 65535)).isEmpty = true
    · simp only [he, if_true]; exact hd
    · simp only [he, Bool.false_eq_true, if_false]
      exact mem_filter.mpr ⟨hd, by simpa using hle⟩
  · intro t ht
    have hd := mem_declared hg hu
    unfold cmapTables at ht
    by_cases he : ((declared gs).filter (fun e => e.1 > 65535)).isEmpty = true
    · simp [he] at ht
    · simp only [he, Bool.false_eq_true, if_false, Option.some.injEq] at ht
      subst ht
      by_cases hle : u ≤ 65535
      · exact mem_append.mpr (Or.inr (mem_filter.mpr ⟨hd, by simpa using hle⟩))
      · exact mem_append.mpr (Or.inl (mem_filter.mpr ⟨hd, by simpa using hle⟩))

/-- witness: a NULL glyph whose first code point is U+0000 keeps both its code points -/
example : unicodeMap [(".notdef", []), ("NULL", [0, 13]), ("A", [65])] = .ok [(0, "NULL"), (13, "NULL"), (65, "A")] := by
  rw [unicodeMap_spec, if_pos (by decide)]; rfl
/-- and a clash with one of its secondary code points is rejected -/
example : unicodeMap [(".notdef", []), ("NULL", [0, 13]), ("CR", [13])] = .error .invalidFontData :=
  C03_dup _ (by decide)

theorem fst_nodup_unique {m : List (Nat × String)} (hnd : (m.map (·.1)).Nodup) {u : Nat} {g g' : String}
    (h1 : (u, g) ∈ m) (h2 : (u, g') ∈ m) : g = g' := by
  induction m with
  | nil => cases h1
  | cons e m ih =>
    simp only [map_cons, nodup_cons] at hnd
    rcases mem_cons.mp h1 with e1 | m1 <;> rcases mem_cons.mp h2 with e2 | m2
    · rw [← e1] at e2; exact (Prod.mk.inj e2).2.symm
    · exact absurd (mem_map.mpr ⟨(u, g'), m2, by rw [← e1]⟩) hnd.1
    · exact absurd (mem_map.mpr ⟨(u, g), m1, by rw [← e2]⟩) hnd.1
    · exact ih hnd.2 m1 m2

/-- the mapping is a function: with no duplicates, each code point has exactly one glyph -/
theorem C03_cmap_functional (gs : List (String × List Nat)) (h : noDup gs = true)
    (u : Nat) (g g' : String) (h1 : (u, g) ∈ declared gs) (h2 : (u, g') ∈ declared gs) : g = g' := by
  have hnd : ((declared gs).map (·.1)).Nodup := by simpa [noDup] using h
  exact fst_nodup_unique hnd h1 h2

theorem alookup_declared (gs : List (String × List Nat)) (h : noDup gs = true) (u : Nat) (g : String) :
    alookup u (declared gs) = some g ↔ (u, g) ∈ declared gs := by
  have hnd : ((declared gs).map (·.1)).Nodup := by simpa [noDup] using h
  generalize declared gs = m at hnd
  induction m with
  | nil => simp [alookup]
  | cons e m ih =>
    obtain ⟨k, v⟩ := e
    simp only [map_cons, nodup_cons] at hnd
    simp only [alookup, mem_cons, Prod.mk.injEq]
    by_cases hk : k = u
    · subst hk
      simp only [beq_self_eq_true, if_true, Option.some.injEq, true_and]
      constructor
      · intro e; exact Or.inl e.symm
      · rintro (e | hm)
        · exact e.symm
        · exact absurd (mem_map.mpr ⟨(k, g), hm, rfl⟩) hnd.1
    · have : (k == u) = false := by simpa using hk
      simp only [this, Bool.false_eq_true, if_false]
      constructor
      · intro h; exact Or.inr ((ih hnd.2).mp h)
      · rintro (⟨e, _⟩ | hm)
        · exact absurd e.symm hk
        · exact (ih hnd.2).mpr hm

/-- **C03_uvs**: each variation-sequence record whose base code point is mapped becomes a
default record iff it names the base mapping's glyph. -/
theorem C03_uvs (gs : List (String × List Nat)) (h : noDup gs = true) (u : Nat) (g g' : String)
    (hb : alookup u (declared gs) = some g') :
    uvsEntry (declared gs) u g = .ok (if (declared gs).contains (u, g) then (u, none) else (u, some g)) := by
  unfold uvsEntry
  rw [hb]
  by_cases hg : g = g'
  · subst hg
    have : (u, g) ∈ declared gs := (alookup_declared gs h u g).mp hb
    simp [this]
  · have hn : (u, g) ∉ declared gs := by
      intro hm
      have := (alookup_declared gs h u g).mpr hm
      rw [hb] at this; exact hg (Option.some.inj this).symm
    simp [hg, hn]

end Ufo2ft.C03
