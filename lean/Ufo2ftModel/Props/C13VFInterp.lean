import Ufo2ftModel.Props.C13VFMix
/-!
C13 (variable fonts), part 2: the Instantiator's one-axis interpolation `C09.interpAt` is the piecewise-linear function
through the masters: at a location strictly between two neighbouring masters it is their `mixGlyph`, and on any interval
free of masters (inside the range the masters span on that side of the default) it is linear.
-/
namespace Ufo2ft.C13
open Ufo2ft Ufo2ft.C09 List

/-! ### a fold that selects the best admissible element -/

def pick {α} (better : α → α → Bool) (ok : α → Bool) (acc : Option α) (e : α) : Option α :=
  if ok e then (match acc with | none => some e | some a => if better e a then some e else some a) else acc

theorem foldl_pick_spec {α} (better : α → α → Bool) (ok : α → Bool) (key : α → Q)
    (hb : ∀ e a, better e a = decide (key e < key a)) :
    ∀ (pts : List α) (acc : Option α),
      ((pts.foldl (pick better ok) acc = none) → acc = none ∧ ∀ e ∈ pts, ok e = false) ∧
      ∀ x, pts.foldl (pick better ok) acc = some x →
        ((x ∈ pts ∧ ok x = true) ∨ acc = some x) ∧ (∀ e ∈ pts, ok e = true → key x ≤ key e) ∧
        (∀ a, acc = some a → key x ≤ key a) := by
  intro pts
  induction pts with
  | nil =>
    intro acc
    refine ⟨fun h => ⟨h, fun e he => by cases he⟩, ?_⟩
    intro x hx
    simp only [foldl_nil] at hx
    refine ⟨Or.inr hx, (fun e he => by cases he), ?_⟩
    intro a ha
    rw [hx] at ha
    have := Option.some.inj ha; subst this
    exact Rat.le_refl
  | cons e pts ih =>
    intro acc
    simp only [foldl_cons]
    obtain ⟨ih1, ih2⟩ := ih (pick better ok acc e)
    constructor
    · intro h
      obtain ⟨h1, h2⟩ := ih1 h
      unfold pick at h1
      by_cases hok : ok e = true
      · rw [if_pos hok] at h1
        cases acc with
        | none => cases h1
        | some a => dsimp only at h1; split at h1 <;> cases h1
      · rw [if_neg hok] at h1
        refine ⟨h1, ?_⟩
        intro e' he'
        rcases mem_cons.mp he' with rfl | he'
        · simpa using hok
        · exact h2 e' he'
    · intro x hx
      obtain ⟨h1, h2, h3⟩ := ih2 x hx
      unfold pick at h1 h3
      by_cases hok : ok e = true
      · rw [if_pos hok] at h1 h3
        cases acc with
        | none =>
          dsimp only at h1 h3
          have hxe : key x ≤ key e := h3 e rfl
          refine ⟨?_, ?_, fun a ha => by cases ha⟩
          · rcases h1 with ⟨hm, ho⟩ | h1
            · exact Or.inl ⟨mem_cons_of_mem _ hm, ho⟩
            · have := Option.some.inj h1; subst this
              exact Or.inl ⟨mem_cons_self, hok⟩
          · intro e' he' hok'
            rcases mem_cons.mp he' with rfl | he'
            · exact hxe
            · exact h2 e' he' hok'
        | some a =>
          dsimp only at h1 h3
          by_cases hbt : better e a = true
          · rw [if_pos hbt] at h1 h3
            have hxe : key x ≤ key e := h3 e rfl
            have hea : key e < key a := by rw [hb] at hbt; simpa using hbt
            refine ⟨?_, ?_, ?_⟩
            · rcases h1 with ⟨hm, ho⟩ | h1
              · exact Or.inl ⟨mem_cons_of_mem _ hm, ho⟩
              · have := Option.some.inj h1; subst this
                exact Or.inl ⟨mem_cons_self, hok⟩
            · intro e' he' hok'
              rcases mem_cons.mp he' with rfl | he'
              · exact hxe
              · exact h2 e' he' hok'
            · intro a' ha'
              have := Option.some.inj ha'; subst this
              grind
          · rw [if_neg hbt] at h1 h3
            have hxa : key x ≤ key a := h3 a rfl
            have hae : ¬ key e < key a := by rw [hb] at hbt; simpa using hbt
            refine ⟨?_, ?_, ?_⟩
            · rcases h1 with ⟨hm, ho⟩ | h1
              · exact Or.inl ⟨mem_cons_of_mem _ hm, ho⟩
              · exact Or.inr h1
            · intro e' he' hok'
              rcases mem_cons.mp he' with rfl | he'
              · grind
              · exact h2 e' he' hok'
            · intro a' ha'
              have := Option.some.inj ha'; subst this
              exact hxa
      · rw [if_neg hok] at h1 h3
        refine ⟨?_, ?_, h3⟩
        · rcases h1 with ⟨hm, ho⟩ | h1
          · exact Or.inl ⟨mem_cons_of_mem _ hm, ho⟩
          · exact Or.inr h1
        · intro e' he' hok'
          rcases mem_cons.mp he' with rfl | he'
          · exact absurd hok' hok
          · exact h2 e' he' hok'

/-! ### `above` / `below` as selecting folds -/

theorem above_eq_pick (pts : List (Q × Glyph)) (t : Q) :
    above pts t = pts.foldl (pick (fun e a => decide (absQ e.1 < absQ a.1))
      (fun e => (decide (0 < t) && decide (t ≤ e.1)) || (decide (t < 0) && decide (e.1 ≤ t)))) none := by
  unfold above
  congr 1
  funext acc e
  simp only [pick, decide_eq_true_eq]
  split
  · cases acc with
    | none => rfl
    | some a => rfl
  · rfl

theorem below_eq_pick (pts : List (Q × Glyph)) (t : Q) :
    below pts t = pts.foldl (pick (fun e a => decide (absQ a.1 < absQ e.1))
      (fun e => (decide (0 < t) && decide (0 < e.1) && decide (e.1 ≤ t)) || (decide (t < 0) && decide (e.1 < 0) && decide (t ≤ e.1)))) none := by
  unfold below
  congr 1
  funext acc e
  simp only [pick, decide_eq_true_eq]
  split
  · cases acc with
    | none => rfl
    | some a => rfl
  · rfl

theorem above_pos (pts : List (Q × Glyph)) (t : Q) (ht : 0 < t) :
    (above pts t = none → ∀ e ∈ pts, e.1 < t) ∧
    (∀ hi, above pts t = some hi → hi ∈ pts ∧ t ≤ hi.1 ∧ ∀ e ∈ pts, t ≤ e.1 → hi.1 ≤ e.1) := by
  rw [above_eq_pick]
  obtain ⟨h1, h2⟩ := foldl_pick_spec (fun (e a : Q × Glyph) => decide (absQ e.1 < absQ a.1))
    (fun e => (decide (0 < t) && decide (t ≤ e.1)) || (decide (t < 0) && decide (e.1 ≤ t))) (fun e => absQ e.1)
    (fun _ _ => rfl) pts none
  have hnt : ¬ t < 0 := by grind
  have hok : ∀ e : Q × Glyph, ((decide (0 < t) && decide (t ≤ e.1)) || (decide (t < 0) && decide (e.1 ≤ t))) = decide (t ≤ e.1) := by
    intro e; simp [ht, hnt]
  constructor
  · intro h e he
    have := (h1 h).2 e he
    rw [hok] at this
    have : ¬ t ≤ e.1 := by simpa using this
    grind
  · intro hi h
    obtain ⟨a, b, _⟩ := h2 hi h
    rcases a with ⟨hm, ho⟩ | a
    · rw [hok] at ho
      have hthi : t ≤ hi.1 := by simpa using ho
      refine ⟨hm, hthi, ?_⟩
      intro e he hte
      have := b e he (by rw [hok]; simpa using hte)
      simp only [absQ] at this
      grind
    · cases a

theorem below_pos (pts : List (Q × Glyph)) (t : Q) (ht : 0 < t) :
    (below pts t = none → ∀ e ∈ pts, ¬(0 < e.1 ∧ e.1 ≤ t)) ∧
    (∀ lo, below pts t = some lo → lo ∈ pts ∧ 0 < lo.1 ∧ lo.1 ≤ t ∧ ∀ e ∈ pts, 0 < e.1 → e.1 ≤ t → e.1 ≤ lo.1) := by
  rw [below_eq_pick]
  obtain ⟨h1, h2⟩ := foldl_pick_spec (fun (e a : Q × Glyph) => decide (absQ a.1 < absQ e.1))
    (fun e => (decide (0 < t) && decide (0 < e.1) && decide (e.1 ≤ t)) || (decide (t < 0) && decide (e.1 < 0) && decide (t ≤ e.1)))
    (fun e => -absQ e.1) (fun e a => decide_eq_decide.mpr (by grind)) pts none
  have hnt : ¬ t < 0 := by grind
  have hok : ∀ e : Q × Glyph, ((decide (0 < t) && decide (0 < e.1) && decide (e.1 ≤ t)) || (decide (t < 0) && decide (e.1 < 0) && decide (t ≤ e.1)))
      = decide (0 < e.1 ∧ e.1 ≤ t) := by
    intro e; simp [ht, hnt]
  constructor
  · intro h e he
    have := (h1 h).2 e he
    rw [hok] at this
    simpa using this
  · intro lo h
    obtain ⟨a, b, _⟩ := h2 lo h
    rcases a with ⟨hm, ho⟩ | a
    · rw [hok] at ho
      have hlo : 0 < lo.1 ∧ lo.1 ≤ t := by simpa using ho
      refine ⟨hm, hlo.1, hlo.2, ?_⟩
      intro e he h0 hte
      have := b e he (by rw [hok]; simpa using And.intro h0 hte)
      simp only [absQ] at this
      grind
    · cases a

/-- masters of one glyph: pairwise alike -/
def AlikePts (pts : List (Q × Glyph)) : Prop := ∀ e1 ∈ pts, ∀ e2 ∈ pts, sh e1.2 = sh e2.2

theorem interpAt_master (pts : List (Q × Glyph)) (t : Q) (e : Q × Glyph) (he : e ∈ pts) (ht : e.1 = t) :
    ∃ e' ∈ pts, e'.1 = t ∧ interpAt pts t = some e'.2 := by
  unfold interpAt
  cases hf : pts.find? (fun e => e.1 == t) with
  | none =>
    have := List.find?_eq_none.mp hf e he
    simp [ht] at this
  | some e' =>
    refine ⟨e', List.mem_of_find?_eq_some hf, ?_, rfl⟩
    have := List.find?_some hf
    simpa using this


theorem interpAt_eq (pts : List (Q × Glyph)) (t : Q) (d hi : Q × Glyph)
    (hf : pts.find? (fun e => e.1 == t) = none) (hd : pts.find? (fun e => e.1 == 0) = some d)
    (hab : above pts t = some hi) :
    interpAt pts t =
      (pts.find? (fun e => e.1 == ((below pts t).getD d).1 || e.1 == hi.1)).bind (fun first =>
        if first.1 == ((below pts t).getD d).1
        then lerpGlyph ((t - ((below pts t).getD d).1) / (hi.1 - ((below pts t).getD d).1)) ((below pts t).getD d).2 hi.2
        else lerpGlyph (1 - (t - ((below pts t).getD d).1) / (hi.1 - ((below pts t).getD d).1)) hi.2 ((below pts t).getD d).2) := by
  unfold interpAt
  rw [hf, hd, hab]
  dsimp only
  cases below pts t with
  | none =>
    simp only [Option.getD_none]
    cases pts.find? (fun e => e.1 == d.1 || e.1 == hi.1) <;> rfl
  | some lo =>
    simp only [Option.getD_some]
    cases pts.find? (fun e => e.1 == lo.1 || e.1 == hi.1) <;> rfl

theorem interpAt_pos (pts : List (Q × Glyph)) (t : Q) (ht : 0 < t) (hal : AlikePts pts)
    (hd : ∃ d ∈ pts, d.1 = 0) (hnot : ∀ e ∈ pts, e.1 ≠ t) (hup : ∃ e ∈ pts, t ≤ e.1) :
    ∃ lo ∈ pts, ∃ hi ∈ pts, 0 ≤ lo.1 ∧ lo.1 < t ∧ t < hi.1 ∧ (∀ e ∈ pts, e.1 ≤ lo.1 ∨ hi.1 ≤ e.1) ∧
      interpAt pts t = some (mixGlyph ((t - lo.1) / (hi.1 - lo.1)) lo.2 hi.2) := by
  have hf : pts.find? (fun e => e.1 == t) = none := by
    apply List.find?_eq_none.mpr
    intro e he
    simpa using hnot e he
  obtain ⟨d0, hd0, hd00⟩ := hd
  cases hfd : pts.find? (fun e => e.1 == 0) with
  | none =>
    have := List.find?_eq_none.mp hfd d0 hd0
    simp [hd00] at this
  | some d =>
    have hdm : d ∈ pts := List.mem_of_find?_eq_some hfd
    have hd0' : d.1 = 0 := by have := List.find?_some hfd; simpa using this
    obtain ⟨ha1, ha2⟩ := above_pos pts t ht
    obtain ⟨hb1, hb2⟩ := below_pos pts t ht
    cases hab : above pts t with
    | none =>
      obtain ⟨e, he, hte⟩ := hup
      have := ha1 hab e he
      grind
    | some hi =>
      obtain ⟨him, hthi, hmin⟩ := ha2 hi hab
      have hthi' : t < hi.1 := by have := hnot hi him; grind
      rw [interpAt_eq pts t d hi hf hfd hab]
      -- the lower neighbour
      have key : ∃ lo ∈ pts, (below pts t).getD d = lo ∧ 0 ≤ lo.1 ∧ lo.1 < t ∧
          ∀ e ∈ pts, e.1 < t → e.1 ≤ lo.1 := by
        cases hbl : below pts t with
        | none =>
          refine ⟨d, hdm, rfl, by grind, by grind, ?_⟩
          intro e he het
          have := hb1 hbl e he
          grind
        | some lo =>
          obtain ⟨lom, h0lo, hlot, hmax⟩ := hb2 lo hbl
          have : lo.1 ≠ t := hnot lo lom
          refine ⟨lo, lom, rfl, by grind, by grind, ?_⟩
          intro e he het
          by_cases h0 : 0 < e.1
          · exact hmax e he h0 (by grind)
          · grind
      obtain ⟨lo, lom, hlo, h0lo, hlot, hmax⟩ := key
      rw [hlo]
      refine ⟨lo, lom, hi, him, h0lo, hlot, hthi', ?_, ?_⟩
      · intro e he
        by_cases h : e.1 < t
        · exact Or.inl (hmax e he h)
        · exact Or.inr (hmin e he (by grind))
      · have hsh : sh lo.2 = sh hi.2 := hal lo lom hi him
        cases hff : pts.find? (fun e => e.1 == lo.1 || e.1 == hi.1) with
        | none =>
          have := List.find?_eq_none.mp hff lo lom
          simp at this
        | some first =>
          simp only [Option.bind_some]
          by_cases hfl : (first.1 == lo.1) = true
          · rw [if_pos hfl, lerpGlyph_eq_mix _ _ _ hsh]
          · rw [if_neg hfl, lerpGlyph_eq_mix _ _ _ hsh.symm, mix_swap _ _ _ hsh]

/-! ### the other side of the default: reflection -/

def negE (e : Q × Glyph) : Q × Glyph := (-e.1, e.2)

theorem foldl_pick_map {α} (f : α → α) (b b' : α → α → Bool) (ok ok' : α → Bool)
    (hok : ∀ e, ok' (f e) = ok e) (hb : ∀ e a, b' (f e) (f a) = b e a) :
    ∀ (l : List α) (acc : Option α), (l.map f).foldl (pick b' ok') (acc.map f) = (l.foldl (pick b ok) acc).map f := by
  intro l
  induction l with
  | nil => intro acc; rfl
  | cons e l ih =>
    intro acc
    simp only [map_cons, foldl_cons]
    have : pick b' ok' (acc.map f) (f e) = (pick b ok acc e).map f := by
      unfold pick
      rw [hok]
      by_cases h : ok e = true
      · simp only [h, if_true]
        cases acc with
        | none => rfl
        | some a =>
          simp only [Option.map_some, hb]
          split <;> rfl
      · simp only [h]
        rfl
    rw [this, ih]

theorem above_neg (pts : List (Q × Glyph)) (t : Q) : above (pts.map negE) (-t) = (above pts t).map negE := by
  rw [above_eq_pick, above_eq_pick]
  refine foldl_pick_map negE _ _ _ _ ?_ ?_ pts none
  · intro e
    simp only [negE]
    rw [Bool.eq_iff_iff]
    simp only [Bool.or_eq_true, Bool.and_eq_true, decide_eq_true_eq]
    grind
  · intro e a
    simp only [negE, absQ]
    apply decide_eq_decide.mpr
    grind

theorem below_neg (pts : List (Q × Glyph)) (t : Q) : below (pts.map negE) (-t) = (below pts t).map negE := by
  rw [below_eq_pick, below_eq_pick]
  refine foldl_pick_map negE _ _ _ _ ?_ ?_ pts none
  · intro e
    simp only [negE]
    rw [Bool.eq_iff_iff]
    simp only [Bool.or_eq_true, Bool.and_eq_true, decide_eq_true_eq]
    grind
  · intro e a
    simp only [negE, absQ]
    apply decide_eq_decide.mpr
    grind

theorem find?_neg (pts : List (Q × Glyph)) (p p' : Q × Glyph → Bool) (h : ∀ e, p' (negE e) = p e) :
    (pts.map negE).find? p' = (pts.find? p).map negE := by
  rw [List.find?_map]
  have : (p' ∘ negE) = p := funext h
  rw [this]

theorem interpAt_neg (pts : List (Q × Glyph)) (t : Q) : interpAt (pts.map negE) (-t) = interpAt pts t := by
  unfold interpAt
  rw [find?_neg pts (fun e => e.1 == t) (fun e => e.1 == -t) (by intro e; simp only [negE]; rw [Bool.eq_iff_iff]; simp; grind)]
  cases pts.find? (fun e => e.1 == t) with
  | some e => rfl
  | none =>
    simp only [Option.map_none]
    rw [find?_neg pts (fun e => e.1 == 0) (fun e => e.1 == 0) (by intro e; simp only [negE]; rw [Bool.eq_iff_iff]; simp; grind)]
    cases pts.find? (fun e => e.1 == 0) with
    | none => rfl
    | some d =>
      simp only [Option.map_some]
      rw [above_neg, below_neg]
      cases above pts t with
      | none => rfl
      | some hi =>
        simp only [Option.map_some]
        have tail : ∀ lo : Q × Glyph,
            (match (pts.map negE).find? (fun e => e.1 == (negE lo).1 || e.1 == (negE hi).1) with
              | none => none
              | some first => if first.1 == (negE lo).1
                  then lerpGlyph ((-t - (negE lo).1) / ((negE hi).1 - (negE lo).1)) (negE lo).2 (negE hi).2
                  else lerpGlyph (1 - (-t - (negE lo).1) / ((negE hi).1 - (negE lo).1)) (negE hi).2 (negE lo).2) =
            (match pts.find? (fun e => e.1 == lo.1 || e.1 == hi.1) with
              | none => none
              | some first => if first.1 == lo.1
                  then lerpGlyph ((t - lo.1) / (hi.1 - lo.1)) lo.2 hi.2
                  else lerpGlyph (1 - (t - lo.1) / (hi.1 - lo.1)) hi.2 lo.2) := by
          intro lo
          rw [find?_neg pts (fun e => e.1 == lo.1 || e.1 == hi.1) (fun e => e.1 == (negE lo).1 || e.1 == (negE hi).1)
            (by intro e; simp only [negE]; rw [Bool.eq_iff_iff]; simp; grind)]
          have hs : (-t - (negE lo).1) / ((negE hi).1 - (negE lo).1) = (t - lo.1) / (hi.1 - lo.1) := by
            simp only [negE]
            by_cases h : hi.1 - lo.1 = 0
            · have h2 : -hi.1 - -lo.1 = 0 := by grind
              rw [h, h2, Rat.div_def, Rat.div_def, Rat.inv_zero, Rat.mul_zero, Rat.mul_zero]
            · grind
          rw [hs]
          cases pts.find? (fun e => e.1 == lo.1 || e.1 == hi.1) with
          | none => rfl
          | some first =>
            simp only [Option.map_some]
            have hc : ((negE first).1 == (negE lo).1) = (first.1 == lo.1) := by
              simp only [negE]; rw [Bool.eq_iff_iff]; simp; grind
            rw [hc]
            rfl
        cases below pts t with
        | none => exact tail d
        | some lo => exact tail lo

theorem alikePts_neg (pts : List (Q × Glyph)) (h : AlikePts pts) : AlikePts (pts.map negE) := by
  intro e1 h1 e2 h2
  obtain ⟨x1, hx1, rfl⟩ := List.mem_map.mp h1
  obtain ⟨x2, hx2, rfl⟩ := List.mem_map.mp h2
  exact h x1 hx1 x2 hx2

/-- off the master locations, inside the range spanned on that side of the default: the two neighbouring masters, mixed -/
theorem interpAt_off (pts : List (Q × Glyph)) (t : Q) (hal : AlikePts pts)
    (hd : ∃ d ∈ pts, d.1 = 0) (hnot : ∀ e ∈ pts, e.1 ≠ t)
    (hull : (0 < t ∧ ∃ e ∈ pts, t ≤ e.1) ∨ (t < 0 ∧ ∃ e ∈ pts, e.1 ≤ t)) :
    ∃ lo ∈ pts, ∃ hi ∈ pts, lo.1 < t ∧ t < hi.1 ∧ (∀ e ∈ pts, e.1 ≤ lo.1 ∨ hi.1 ≤ e.1) ∧
      interpAt pts t = some (mixGlyph ((t - lo.1) / (hi.1 - lo.1)) lo.2 hi.2) := by
  rcases hull with ⟨ht, hup⟩ | ⟨ht, hdn⟩
  · obtain ⟨lo, lom, hi, him, _, h1, h2, h3, h4⟩ := interpAt_pos pts t ht hal hd hnot hup
    exact ⟨lo, lom, hi, him, h1, h2, h3, h4⟩
  · have hd' : ∃ d ∈ pts.map negE, d.1 = 0 := by
      obtain ⟨d, hdm, hd0⟩ := hd
      exact ⟨negE d, List.mem_map.mpr ⟨d, hdm, rfl⟩, by simp only [negE, hd0]; grind⟩
    have hnot' : ∀ e ∈ pts.map negE, e.1 ≠ -t := by
      intro e he
      obtain ⟨x, hx, rfl⟩ := List.mem_map.mp he
      have := hnot x hx
      simp only [negE]; grind
    have hup' : ∃ e ∈ pts.map negE, -t ≤ e.1 := by
      obtain ⟨e, he, hle⟩ := hdn
      exact ⟨negE e, List.mem_map.mpr ⟨e, he, rfl⟩, by simp only [negE]; grind⟩
    obtain ⟨lo', lom', hi', him', _, h1, h2, h3, h4⟩ :=
      interpAt_pos (pts.map negE) (-t) (by grind) (alikePts_neg pts hal) hd' hnot' hup'
    obtain ⟨hiN, hiNm, rfl⟩ := List.mem_map.mp lom'
    obtain ⟨loN, loNm, rfl⟩ := List.mem_map.mp him'
    simp only [negE] at h1 h2 h3 h4
    refine ⟨loN, loNm, hiN, hiNm, by grind, by grind, ?_, ?_⟩
    · intro e he
      have := h3 (negE e) (List.mem_map.mpr ⟨e, he, rfl⟩)
      simp only [negE] at this
      grind
    · rw [← interpAt_neg, h4]
      have hsh : sh loN.2 = sh hiN.2 := hal loN loNm hiN hiNm
      have hs : (-t - -hiN.1) / (-loN.1 - -hiN.1) = 1 - (t - loN.1) / (hiN.1 - loN.1) := by
        have : hiN.1 - loN.1 ≠ 0 := by grind
        grind
      rw [hs, mix_swap _ _ _ hsh]

/-- locations determine masters -/
def LocInj (pts : List (Q × Glyph)) : Prop := ∀ e1 ∈ pts, ∀ e2 ∈ pts, e1.1 = e2.1 → e1 = e2

/-- inside (or at the ends of) a cell between neighbouring masters `lo`, `hi` the interpolation is their mix -/
theorem interpAt_in_cell (pts : List (Q × Glyph)) (hal : AlikePts pts) (hinj : LocInj pts) (hd : ∃ d ∈ pts, d.1 = 0)
    (lo hi : Q × Glyph) (lom : lo ∈ pts) (him : hi ∈ pts) (hlh : lo.1 < hi.1)
    (hadj : ∀ e ∈ pts, e.1 ≤ lo.1 ∨ hi.1 ≤ e.1) (x : Q) (h1 : lo.1 ≤ x) (h2 : x ≤ hi.1) :
    interpAt pts x = some (mixGlyph ((x - lo.1) / (hi.1 - lo.1)) lo.2 hi.2) := by
  have hsh : sh lo.2 = sh hi.2 := hal lo lom hi him
  have hne : hi.1 - lo.1 ≠ 0 := by grind
  by_cases hxl : x = lo.1
  · obtain ⟨e', he', hloc, hv⟩ := interpAt_master pts x lo lom hxl.symm
    have : e' = lo := hinj e' he' lo lom (by rw [hloc, hxl])
    subst this
    have hs : (x - e'.1) / (hi.1 - e'.1) = 0 := by rw [hxl]; grind
    rw [hv, hs, mix_zero _ _ hsh]
  · by_cases hxh : x = hi.1
    · obtain ⟨e', he', hloc, hv⟩ := interpAt_master pts x hi him hxh.symm
      have : e' = hi := hinj e' he' hi him (by rw [hloc, hxh])
      subst this
      have hs : (x - lo.1) / (e'.1 - lo.1) = 1 := by rw [hxh]; grind
      rw [hv, hs, mix_one _ _ hsh]
    · have hlx : lo.1 < x := by grind
      have hxh' : x < hi.1 := by grind
      have hnot : ∀ e ∈ pts, e.1 ≠ x := by
        intro e he
        have := hadj e he
        grind
      have hull : (0 < x ∧ ∃ e ∈ pts, x ≤ e.1) ∨ (x < 0 ∧ ∃ e ∈ pts, e.1 ≤ x) := by
        obtain ⟨d, hdm, hd0⟩ := hd
        have := hnot d hdm
        by_cases h0 : 0 < x
        · exact Or.inl ⟨h0, hi, him, by grind⟩
        · exact Or.inr ⟨by grind, lo, lom, by grind⟩
      obtain ⟨lo2, lom2, hi2, him2, k1, k2, k3, k4⟩ := interpAt_off pts x hal hd hnot hull
      have e1 : lo2 = lo := by
        apply hinj lo2 lom2 lo lom
        have a := hadj lo2 lom2
        have b := k3 lo lom
        grind
      have e2 : hi2 = hi := by
        apply hinj hi2 him2 hi him
        have a := hadj hi2 him2
        have b := k3 hi him
        grind
      rw [k4, e1, e2]

/-- **the interpolation is linear on every interval free of masters** (with masters on both sides of it) -/
theorem interpAt_between (pts : List (Q × Glyph)) (hal : AlikePts pts) (hinj : LocInj pts) (hd : ∃ d ∈ pts, d.1 = 0)
    (a t b : Q) (hat : a ≤ t) (htb : t ≤ b) (hab : a < b) (hfree : ∀ e ∈ pts, e.1 ≤ a ∨ b ≤ e.1)
    (hlow : ∃ e ∈ pts, e.1 ≤ a) (hhigh : ∃ e ∈ pts, b ≤ e.1) :
    ∃ ga gb, interpAt pts a = some ga ∧ interpAt pts b = some gb ∧ (∀ e ∈ pts, sh ga = sh e.2) ∧ (∀ e ∈ pts, sh gb = sh e.2) ∧
      interpAt pts t = some (mixGlyph ((t - a) / (b - a)) ga gb) := by
  have hm1 : a < (a + b) / 2 := by grind
  have hm2 : (a + b) / 2 < b := by grind
  have hnot : ∀ e ∈ pts, e.1 ≠ (a + b) / 2 := by
    intro e he
    have := hfree e he
    grind
  have hull : (0 < (a + b) / 2 ∧ ∃ e ∈ pts, (a + b) / 2 ≤ e.1) ∨ ((a + b) / 2 < 0 ∧ ∃ e ∈ pts, e.1 ≤ (a + b) / 2) := by
    obtain ⟨d, hdm, hd0⟩ := hd
    have := hnot d hdm
    by_cases h0 : 0 < (a + b) / 2
    · obtain ⟨e, he, hbe⟩ := hhigh
      exact Or.inl ⟨h0, e, he, by grind⟩
    · obtain ⟨e, he, hea⟩ := hlow
      exact Or.inr ⟨by grind, e, he, by grind⟩
  obtain ⟨lo, lom, hi, him, k1, k2, hadj, _⟩ := interpAt_off pts ((a + b) / 2) hal hd hnot hull
  have hla : lo.1 ≤ a := by have := hfree lo lom; grind
  have hbh : b ≤ hi.1 := by have := hfree hi him; grind
  have hlh : lo.1 < hi.1 := by grind
  have cell := interpAt_in_cell pts hal hinj hd lo hi lom him hlh hadj
  have hsh : sh lo.2 = sh hi.2 := hal lo lom hi him
  refine ⟨_, _, cell a hla (by grind), cell b (by grind) hbh, ?_, ?_, ?_⟩
  · intro e he
    rw [sh_mix _ _ _ hsh]
    exact hal lo lom e he
  · intro e he
    rw [sh_mix _ _ _ hsh]
    exact hal lo lom e he
  · rw [cell t (by grind) (by grind), mix_mix]
    congr 2
    have h1 : hi.1 - lo.1 ≠ 0 := by grind
    have h2 : b - a ≠ 0 := by grind
    grind

end Ufo2ft.C13
