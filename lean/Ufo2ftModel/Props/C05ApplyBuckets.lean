import Ufo2ftModel.Spec.C05Apply
import Ufo2ftModel.Props.C05Together
/-! C05 end-to-end, layer C1: where the rules of one lookup come from — provenance of the contents of a `splitKerning` bucket
    ("the rules of one lookup = the sorted cells of its bucket, every cell is a direction cell of a pair of the list, filed under
    the merged script set that contains the cell's own script key"), and: all cells containing one glyph pair are in ONE bucket. -/
namespace Ufo2ft.C05
open Ufo2ft List

/-! ### raw buckets: every element was put there by `partitionByScript` under the bucket's key -/

theorem bucketAdd_prov (P : List String → KPair → Prop) (b : List (List String × List KPair)) (k : List String) (sp : KPair)
    (hP : P k sp) (h : ∀ e ∈ b, ∀ x ∈ e.2, P e.1 x) : ∀ e ∈ bucketAdd b k sp, ∀ x ∈ e.2, P e.1 x := by
  unfold bucketAdd
  cases hf : b.find? (fun e => e.1 == k) with
  | some v =>
    dsimp only
    intro e he x hx
    obtain ⟨e0, he0, rfl⟩ := mem_map.mp he
    split at hx
    · rename_i hk
      have hk' : e0.1 = k := by simpa using hk
      rw [if_pos hk]
      dsimp only at hx ⊢
      rcases mem_append.mp hx with hx | hx
      · exact h e0 he0 x hx
      · simp only [mem_singleton] at hx; rw [hx, hk']; exact hP
    · rename_i hk
      rw [if_neg hk]
      exact h e0 he0 x hx
  | none =>
    dsimp only
    intro e he x hx
    rcases mem_append.mp he with he | he
    · exact h e he x hx
    · simp only [mem_singleton] at he
      subst he
      simp only [mem_singleton] at hx
      rw [hx]; exact hP

theorem rawBuckets_prov (c : Ctx) (pairs : List KPair) :
    ∀ e ∈ rawBuckets c pairs, ∀ x ∈ e.2, ∃ p ∈ pairs, (e.1, x) ∈ partitionByScript c p := by
  unfold rawBuckets
  suffices h : ∀ (ps : List KPair) (b : List (List String × List KPair)), (∀ p ∈ ps, p ∈ pairs) →
      (∀ e ∈ b, ∀ x ∈ e.2, ∃ p ∈ pairs, (e.1, x) ∈ partitionByScript c p) →
      ∀ e ∈ ps.foldl (fun b p => (partitionByScript c p).foldl (fun b (x : List String × KPair) => bucketAdd b x.1 x.2) b) b,
        ∀ x ∈ e.2, ∃ p ∈ pairs, (e.1, x) ∈ partitionByScript c p from
    h pairs [] (fun _ h => h) (by intro e he; cases he)
  intro ps
  induction ps with
  | nil => intro b _ h; exact h
  | cons p ps ih =>
    intro b hps h
    rw [foldl_cons]
    apply ih _ (fun x hx => hps x (mem_cons_of_mem _ hx))
    have inner : ∀ (xs : List (List String × KPair)) (b : List (List String × List KPair)), (∀ x ∈ xs, x ∈ partitionByScript c p) →
        (∀ e ∈ b, ∀ x ∈ e.2, ∃ p ∈ pairs, (e.1, x) ∈ partitionByScript c p) →
        ∀ e ∈ xs.foldl (fun b (x : List String × KPair) => bucketAdd b x.1 x.2) b,
          ∀ x ∈ e.2, ∃ p ∈ pairs, (e.1, x) ∈ partitionByScript c p := by
      intro xs
      induction xs with
      | nil => intro b _ h; exact h
      | cons y xs ih2 =>
        intro b hxs h
        rw [foldl_cons]
        apply ih2 _ (fun x hx => hxs x (mem_cons_of_mem _ hx))
        exact bucketAdd_prov (fun k sp => ∃ p ∈ pairs, (k, sp) ∈ partitionByScript c p) b y.1 y.2
          ⟨p, hps p mem_cons_self, hxs y mem_cons_self⟩ h
    exact inner _ b (fun _ h => h) h

/-! ### pouring: where the content of a merged bucket comes from -/

theorem pour_origin (sets : List (List String)) : ∀ (b acc : List (List String × List KPair)),
    ∀ x ∈ b.foldl (pourStep sets) acc, ∀ sp ∈ x.2,
      (∃ y ∈ acc, y.1 = x.1 ∧ sp ∈ y.2) ∨
      (∃ e ∈ b, ∃ s2, sets.find? (fun s2 => s2.any e.1.contains) = some s2 ∧ x.1 = sortStr s2 ∧ sp ∈ e.2) := by
  intro b
  induction b with
  | nil => intro acc x hx sp hsp; exact Or.inl ⟨x, hx, rfl, hsp⟩
  | cons e b ih =>
    intro acc x hx sp hsp
    rw [foldl_cons] at hx
    rcases ih _ x hx sp hsp with ⟨y, hy, hyk, hsy⟩ | ⟨e', he', s2, hf, hk, hs⟩
    · unfold pourStep at hy
      cases hf : sets.find? (fun s2 => s2.any e.1.contains) with
      | none => rw [hf] at hy; exact Or.inl ⟨y, hy, hyk, hsy⟩
      | some s2 =>
        rw [hf] at hy
        dsimp only at hy
        obtain ⟨y0, hy0, rfl⟩ := mem_map.mp hy
        split at hsy
        · rename_i hkk
          rw [if_pos hkk] at hyk
          dsimp only at hsy hyk
          rcases mem_append.mp hsy with h1 | h1
          · exact Or.inl ⟨y0, hy0, hyk, h1⟩
          · right
            refine ⟨e, mem_cons_self, s2, hf, ?_, h1⟩
            rw [← hyk]; simpa using hkk
        · rename_i hkk
          rw [if_neg hkk] at hyk
          exact Or.inl ⟨y0, hy0, hyk, hsy⟩
    · exact Or.inr ⟨e', mem_cons_of_mem _ he', s2, hf, hk, hs⟩

theorem emptyBuckets_empty (sets : List (List String)) : ∀ y ∈ emptyBuckets sets, y.2 = [] := by
  intro y hy
  have := (emptyBuckets_keys sets).2.2
  cases h : y.2 with
  | nil => rfl
  | cons a t =>
    have : a ∈ (emptyBuckets sets).flatMap (·.2) := mem_flatMap.mpr ⟨y, hy, by rw [h]; exact mem_cons_self⟩
    rw [(emptyBuckets_keys sets).2.2] at this
    cases this

/-- every pair in an output bucket of `mergeScripts` comes from an input bucket whose (non-empty) key lies inside the merged
    script set that names the output bucket -/
theorem mergeScripts_prov (b : List (List String × List KPair)) (x : List String × List KPair) (hx : x ∈ mergeScripts b)
    (sp : KPair) (hsp : sp ∈ x.2) :
    ∃ e ∈ b, sp ∈ e.2 ∧ e.1 ≠ [] ∧ ∃ t ∈ mergedSets b, x.1 = sortStr t ∧ Sub e.1 t := by
  rw [mergeScripts_eq] at hx
  rcases pour_origin (mergedSets b) b _ x hx sp hsp with ⟨y, hy, _, hsy⟩ | ⟨e, he, s2, hf, hk, hs⟩
  · rw [emptyBuckets_empty _ y hy] at hsy; cases hsy
  · have hne : e.1 ≠ [] := by
      intro h0
      rw [find_none_of_empty (mergedSets b) e.1 h0] at hf
      cases hf
    obtain ⟨t, ht, hsub, _, hf'⟩ := mergedSets_unique b e he hne
    rw [hf] at hf'
    cases hf'
    exact ⟨e, he, hs, hne, s2, ht, hk, hsub⟩

/-- Layer C1 ("rules of one lookup"): an element of a `splitKerning` bucket is a direction cell of a pair of the list, filed
    under a non-empty script key that lies inside the merged script set naming the bucket -/
theorem splitKerning_prov (c : Ctx) (pairs : List KPair) (e : List String × List KPair) (he : e ∈ splitKerning c pairs)
    (sp : KPair) (hsp : sp ∈ e.2) :
    ∃ p ∈ pairs, ∃ k, (k, sp) ∈ partitionByScript c p ∧ k ≠ [] ∧
      ∃ t ∈ mergedSets (rawBuckets c pairs), e.1 = sortStr t ∧ Sub k t := by
  rw [splitKerning_eq] at he
  obtain ⟨y, hy, rfl⟩ := mem_map.mp he
  dsimp only at hsp ⊢
  have hsp' : sp ∈ y.2 := (mem_sortPairs _ _).mp hsp
  obtain ⟨e0, he0, hin, hne, t, ht, hk, hsub⟩ := mergeScripts_prov _ y hy sp hsp'
  obtain ⟨p, hp, hpart⟩ := rawBuckets_prov c pairs e0 he0 sp hin
  exact ⟨p, hp, e0.1, hpart, hne, t, ht, hk, hsub⟩

theorem splitKerning_keys_nodup (c : Ctx) (pairs : List KPair) : ((splitKerning c pairs).map (·.1)).Nodup := by
  rw [splitKerning_eq, map_map]
  exact mergeScripts_keys_nodup _

/-- the scripts shared by two glyphs' cells: some script other than Common of one of them, or Common when both are neutral -/
def SharesScript (c : Ctx) (g1 g2 : String) : Prop :=
  (∃ s, (s ∈ c.resolved g1 ∨ s ∈ c.resolved g2) ∧ s ≠ COMMON) ∨ (COMMON ∈ c.resolved g1 ∧ COMMON ∈ c.resolved g2)

/-- Layer C1 ("a pair lands in exactly one lookup of a pair list"): two buckets of one `splitKerning` that each hold a cell
    containing (g1, g2) are the same bucket; and that bucket's script set holds every non-Common script of the two glyphs
    (Common, when both are neutral) -/
theorem splitKerning_one_bucket (c : Ctx) (pairs : List KPair) (g1 g2 : String) (hs : SharesScript c g1 g2)
    (e e' : List String × List KPair) (he : e ∈ splitKerning c pairs) (he' : e' ∈ splitKerning c pairs)
    (sp sp' : KPair) (hsp : sp ∈ e.2) (hsp' : sp' ∈ e'.2) (hm : Matches sp g1 g2) (hm' : Matches sp' g1 g2) : e = e' := by
  obtain ⟨p, _, k, hpart, _, t, ht, hk, hsub⟩ := splitKerning_prov c pairs e he sp hsp
  obtain ⟨p', _, k', hpart', _, t', ht', hk', hsub'⟩ := splitKerning_prov c pairs e' he' sp' hsp'
  have key := partition_key c p k sp hpart g1 g2 hm
  have key' := partition_key c p' k' sp' hpart' g1 g2 hm'
  have hshare : ∃ s, s ∈ k ∧ s ∈ k' := by
    rcases hs with ⟨s, hs, hne⟩ | ⟨h1, h2⟩
    · exact ⟨s, key.1 s hs hne, key'.1 s hs hne⟩
    · exact ⟨COMMON, key.2 h1 h2, key'.2 h1 h2⟩
  obtain ⟨s, hs1, hs2⟩ := hshare
  have htt : t = t' := apart_unique _ (mergedSets_apart _) t t' s ht ht' (hsub s hs1) (hsub' s hs2)
  subst htt
  exact map_nodup_inj (·.1) _ (splitKerning_keys_nodup c pairs) e e' he he' (hk.trans hk'.symm)

theorem splitKerning_bucket_scripts (c : Ctx) (pairs : List KPair) (g1 g2 : String)
    (e : List String × List KPair) (he : e ∈ splitKerning c pairs) (sp : KPair) (hsp : sp ∈ e.2) (hm : Matches sp g1 g2) :
    (∀ s, (s ∈ c.resolved g1 ∨ s ∈ c.resolved g2) → s ≠ COMMON → s ∈ e.1) ∧
    (COMMON ∈ c.resolved g1 → COMMON ∈ c.resolved g2 → COMMON ∈ e.1) := by
  obtain ⟨p, _, k, hpart, _, t, ht, hk, hsub⟩ := splitKerning_prov c pairs e he sp hsp
  have key := partition_key c p k sp hpart g1 g2 hm
  constructor
  · intro s hs hne
    rw [hk, mem_sortStr]; exact hsub s (key.1 s hs hne)
  · intro h1 h2
    rw [hk, mem_sortStr]; exact hsub COMMON (key.2 h1 h2)

/-- a direction cell of a pair of the list that contains (g1, g2) is in some bucket of `splitKerning` -/
theorem splitKerning_has (c : Ctx) (pairs : List KPair) (p : KPair) (hp : p ∈ pairs) (x : List String × KPair)
    (hx : x ∈ partitionByScript c p) (g1 g2 : String) (hm : Matches x.2 g1 g2) (hs : SharesScript c g1 g2) :
    ∃ e ∈ splitKerning c pairs, x.2 ∈ e.2 := by
  obtain ⟨e, he, h1, _⟩ := splitKerning_together c pairs p p hp hp x x hx hx g1 g2 hm hm hs
  exact ⟨e, he, h1⟩

/-! ### merged script sets keep a property that the keys have and that unions along a shared element keep -/

/-- all scripts of the set are written in one direction -/
def Uni (c : Ctx) (t : List String) : Prop := ∀ a ∈ t, ∀ b ∈ t, c.dir a = c.dir b

theorem uni_union (c : Ctx) (a b : List String) (ha : Uni c a) (hb : Uni c b) (hshare : b.any a.contains = true) :
    Uni c (unionStr a b) := by
  simp only [any_eq_true, contains_iff_mem] at hshare
  obtain ⟨z, hzb, hza⟩ := hshare
  intro x hx y hy
  rw [mem_unionStr] at hx hy
  have hxz : c.dir x = c.dir z := by
    rcases hx with h | h
    · exact ha x h z hza
    · exact hb x h z hzb
  have hyz : c.dir y = c.dir z := by
    rcases hy with h | h
    · exact ha y h z hza
    · exact hb y h z hzb
  rw [hxz, hyz]

theorem sweepFold_uni (c : Ctx) : ∀ (rest : List (List String)) (acc : List String × List (List String) × Bool),
    Uni c acc.1 → (∀ s ∈ acc.2.1, Uni c s) → (∀ s ∈ rest, Uni c s) →
    Uni c (rest.foldl sweepStep acc).1 ∧ ∀ s ∈ (rest.foldl sweepStep acc).2.1, Uni c s := by
  intro rest
  induction rest with
  | nil => intro acc h1 h2 _; exact ⟨h1, h2⟩
  | cons s rest ih =>
    intro acc h1 h2 h3
    rw [foldl_cons]
    apply ih _ _ _ (fun x hx => h3 x (mem_cons_of_mem _ hx))
    · unfold sweepStep
      split
      · rename_i hh; exact uni_union c acc.1 s h1 (h3 s mem_cons_self) hh
      · exact h1
    · unfold sweepStep
      split
      · exact h2
      · intro x hx
        rcases mem_append.mp hx with hx | hx
        · exact h2 x hx
        · simp only [mem_singleton] at hx; rw [hx]; exact h3 s mem_cons_self

theorem mergeSweep_uni (c : Ctx) : ∀ (fuel : Nat) (sets : List (List String)), (∀ s ∈ sets, Uni c s) →
    ∀ s ∈ (mergeSweep fuel sets).1, Uni c s := by
  intro fuel
  induction fuel with
  | zero => intro sets h; exact h
  | succ fuel ih =>
    intro sets h
    cases sets with
    | nil => rw [mergeSweep_nil]; intro s hs; cases hs
    | cons common rest =>
      rw [mergeSweep_cons]
      obtain ⟨u1, u2⟩ := sweepFold_uni c rest (common, [], false) (h common mem_cons_self) (by intro s hs; cases hs)
        (fun s hs => h s (mem_cons_of_mem _ hs))
      intro s hs
      rcases mem_cons.mp hs with rfl | hs
      · exact u1
      · exact ih _ u2 s hs

theorem mergeFix_uni (c : Ctx) : ∀ (fuel : Nat) (sets : List (List String)), (∀ s ∈ sets, Uni c s) →
    ∀ s ∈ mergeFix fuel sets, Uni c s := by
  intro fuel
  induction fuel with
  | zero => intro sets h; exact h
  | succ fuel ih =>
    intro sets h
    rw [mergeFix_succ]
    split
    · exact ih _ (mergeSweep_uni c _ sets h)
    · exact mergeSweep_uni c _ sets h

/-- if every bucket key is written in one direction, so is every merged script set -/
theorem mergedSets_uni (c : Ctx) (b : List (List String × List KPair)) (h : ∀ e ∈ b, Uni c e.1) :
    ∀ t ∈ mergedSets b, Uni c t := by
  apply mergeFix_uni
  intro s hs
  obtain ⟨hs, _⟩ := mem_filter.mp hs
  obtain ⟨e, he, rfl⟩ := mem_map.mp hs
  exact h e he

end Ufo2ft.C05
