import Ufo2ftModel.Props.C06Exist
/-! C06, part 12: a matching pair is attached by a generated lookup (mark-to-base, mark-to-mark, mark-to-ligature). -/
namespace Ufo2ft.C06
open List

theorem attach_isSome_of_mem {P : Program} {ls : List Lookup} {L : Lookup} {b m : String} {c : Option Nat}
    (hL : L ∈ ls) (h : (attachLookup P L b m c).isSome = true) : (attach P ls b m c).isSome = true := by
  unfold attach
  rw [findSome?_isSome_iff]
  exact ⟨L, mem_reverse.mpr hL, h⟩

/-- a lookup attaches (b, m, c) as soon as whatever entry for `b` and whatever referenced class holding `m`
    the shaper finds fit together -/
theorem attachLookup_isSome {P : Program} {L : Lookup} {b m : String} {c : Option Nat}
    (hk : kindMatches L.kind c = true)
    (hent : ∃ e ∈ L.entries, e.glyph = b)
    (hmark : ∃ cls ∈ P.classes, cls.1 ∈ usedClasses L ∧ ∃ r ∈ cls.2, r.glyph = m)
    (hgood : ∀ e ∈ L.entries, e.glyph = b → ∀ cls ∈ P.classes, cls.1 ∈ usedClasses L → (∃ r ∈ cls.2, r.glyph = m) →
      ∃ comp, e.comps[c.getD 0]? = some comp ∧ ∃ t ∈ comp, t.1 = cls.1) :
    (attachLookup P L b m c).isSome = true := by
  unfold attachLookup
  rw [if_pos hk]
  have h1 : (L.entries.find? (fun e => e.glyph == b)).isSome = true := by
    rw [find?_isSome]; obtain ⟨e, he, hg⟩ := hent; exact ⟨e, he, by simp [hg]⟩
  have h2 : (markIn P L m).isSome = true := by
    unfold markIn
    rw [findSome?_isSome_iff]
    obtain ⟨cls, hcls, hu, r, hr, hrg⟩ := hmark
    refine ⟨cls, hcls, ?_⟩
    have hu' : (usedClasses L).contains cls.1 = true := by simpa using hu
    rw [if_pos hu']
    have : (cls.2.find? (fun r => r.glyph == m)).isSome = true := by
      rw [find?_isSome]; exact ⟨r, hr, by simp [hrg]⟩
    cases hf : cls.2.find? (fun r => r.glyph == m) with
    | none => rw [hf] at this; simp at this
    | some _ => simp
  cases hfe : L.entries.find? (fun e => e.glyph == b) with
  | none => rw [hfe] at h1; simp at h1
  | some e =>
    cases hmi : markIn P L m with
    | none => rw [hmi] at h2; simp at h2
    | some x =>
      obtain ⟨cn, mx, my⟩ := x
      obtain ⟨cls, hcls, hu, r, hr, hrm, hx⟩ := markIn_some hmi
      simp only [Prod.mk.injEq] at hx
      obtain ⟨rfl, rfl, rfl⟩ := hx
      obtain ⟨comp, hcomp, t, ht, htc⟩ := hgood e (mem_of_find?_eq_some hfe) (by simpa using find?_some hfe) cls hcls hu ⟨r, hr, hrm⟩
      simp only [hcomp]
      have hne : comp.filter (fun t => t.1 == cls.1) ≠ [] :=
        ne_nil_of_mem (mem_filter.mpr ⟨ht, by simp [htc]⟩)
      cases hl : (comp.filter (fun t => t.1 == cls.1)).getLast? with
      | none => rw [getLast?_eq_none_iff] at hl; exact absurd hl hne
      | some _ => simp

theorem classOf_same_key {km : List (String × String)} {a a' : NA} {c c' : String} (h : classOf km a = some c)
    (h' : classOf km a' = some c') (hk : a.key = a'.key) : c = c' := by
  unfold classOf at h h'
  split at h
  · simp at h
  · split at h'
    · simp at h'
    · rw [hk] at h; rw [h] at h'; exact Option.some.inj h'

theorem mem_usedClasses {L : Lookup} {cn : String} :
    cn ∈ usedClasses L ↔ ∃ e ∈ L.entries, ∃ comp ∈ e.comps, ∃ t ∈ comp, t.1 = cn := by
  simp only [usedClasses, mem_flatMap, mem_map]

/-! ### groups -/
theorem mem_singleGroups {km : List (String × String)} {grp : List String} (h : grp ∈ singleGroups km) :
    ∃ c, grp = [c] := by
  obtain ⟨k, _, hk⟩ := mem_filterMap.mp h
  cases hl : alookup k km with
  | none => rw [hl] at hk; simp at hk
  | some c => rw [hl] at hk; simp only [Option.map_some, Option.some.injEq] at hk; exact ⟨c, hk.symm⟩

theorem singleGroups_has {km : List (String × String)} {k c : String} (h : alookup k km = some c) :
    [c] ∈ singleGroups km := by
  refine mem_filterMap.mpr ⟨k, mem_sortStr.mpr (mem_map.mpr ⟨(k, c), alookup_some_mem h, rfl⟩), ?_⟩
  rw [h]; rfl

/-- in either mode: two classes of one lookup group that both hold glyph `m` are the same class -/
theorem same_class_in_group {i : Input} {al : AList} (w : ALwf i al) (used : List String) {grp : List String}
    (hgrp : grp ∈ (if i.group then groupMarkClasses (clsOf i al) used else singleGroups (kmOf i al)))
    {c1 c2 : String} (h1 : c1 ∈ grp) (h2 : c2 ∈ grp) {r1 r2 : List MarkRec}
    (hc1 : (c1, r1) ∈ clsOf i al) (hc2 : (c2, r2) ∈ clsOf i al) {m : String}
    (hm1 : ∃ r ∈ r1, r.glyph = m) (hm2 : ∃ r ∈ r2, r.glyph = m) : c1 = c2 := by
  split at hgrp
  · have hp := groupMarkClasses_proper _ _ hgrp h1 h2
    by_cases e : c1 = c2
    · exact e
    · exfalso
      unfold conflict at hp
      rw [members_clsOf w hc1, members_clsOf w hc2, bne_iff_ne.mpr e, Bool.true_and, any_eq_false] at hp
      obtain ⟨ra, hra, hga⟩ := hm1
      obtain ⟨rb, hrb, hgb⟩ := hm2
      have := hp m (mem_map.mpr ⟨ra, hra, hga⟩)
      simp only [contains_iff_mem, mem_map, not_exists, not_and] at this
      exact this rb hrb hgb
  · obtain ⟨c, rfl⟩ := mem_singleGroups hgrp
    simp only [mem_singleton] at h1 h2
    rw [h1, h2]

/-- in either mode some lookup group holds the class of the pair -/
theorem group_has {i : Input} {al : AList} (used : List String) {k cn : String}
    (hk : alookup k (kmOf i al) = some cn) (hu : cn ∈ used) (hm : members (clsOf i al) cn ≠ []) :
    ∃ grp ∈ (if i.group then groupMarkClasses (clsOf i al) used else singleGroups (kmOf i al)), cn ∈ grp := by
  split
  · exact groupMarkClasses_cover _ _ hu hm
  · exact ⟨[cn], singleGroups_has hk, by simp⟩

theorem classOf_alookup {km : List (String × String)} {a : NA} {c : String} (h : classOf km a = some c) :
    alookup a.key km = some c := by
  unfold classOf at h
  split at h
  · simp at h
  · exact h

end Ufo2ft.C06
