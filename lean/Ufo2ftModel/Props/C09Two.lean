import Ufo2ftModel.Spec.C09Hyp
import Ufo2ftModel.Props.C09Rel
import Ufo2ftModel.Props.C09Names
set_option linter.unusedSectionVars false
/-!
C09, pipeline level, part 4: lemmas for `C09_twoByTwo` (TrueType pre-processor without Instantiator):
what `DecomposeComponentsIFilter(include=needs_decomposition)` leaves behind.
-/
namespace Ufo2ft.C09
open Ufo2ft List

/-! ### keys are glyph names -/

def KOk (n : String) (g : Glyph) : Prop := g.name = n

theorem kOk_GInv : GInv KOk where
  name := fun n g h => h
  lerp := by intro n s a b g _ _ ha _ hl; exact (lerpGlyph_name s a b g hl).trans ha
  decomp := by intro layer nested incl n g g' _ hg hd; exact (decomposeGlyph_name layer nested incl g g' hd).trans hg
  flat := fun layer n g cs f _ hg _ => hg
  rev := fun n g h => h

/-! ### a run whose invariant may mention the pending iteration orders -/

theorem runI_inv' (P : St → Prop) (incl : Glyph → Bool) (step : St → String → Except GErr (St × Bool))
    (hstep : ∀ s n s' r, P s → step s n = .ok (s', r) → P s') (hord : ∀ s, P s → P { s with orders := s.orders.drop 1 })
    (s s' : St) (md : List String)
    (hP : P s) (h : runI incl step s = .ok (s', md)) : P s' := by
  unfold runI at h
  dsimp only at h
  split at h
  · cases h
  · exact iLoop_inv P incl step hstep _ _ s' [] md (hord s hP) h

/-! ### one interpolatable decompose step without Instantiator: only the key `n` is touched -/

theorem updOne_other (n : String) (f : GlyphSet → Glyph → Except GErr (Option Glyph × Bool)) (m m' : GlyphSet)
    (h : updOne n f m = .ok m') (x : String) (hx : x ≠ n) : m'.get? x = m.get? x := by
  unfold updOne at h
  cases hg : m.get? n with
  | none => rw [hg] at h; simp only [Except.ok.injEq] at h; rw [← h]
  | some g =>
    rw [hg] at h; dsimp only at h
    cases hf : f m g with
    | error e => rw [hf] at h; cases h
    | ok r =>
      obtain ⟨og, fl⟩ := r
      rw [hf] at h
      cases og with
      | none => simp only [Except.ok.injEq] at h; rw [← h]
      | some g' =>
        simp only [Except.ok.injEq] at h
        rw [← h, get?_set m n x g g' hg, if_neg hx]

theorem getD_eq_getElem_of_lt (ms : Masters) (j : Nat) (h : j < ms.length) : ms.getD j [] = ms[j] := by
  simp only [List.getD_eq_getElem?_getD, List.getElem?_eq_getElem h, Option.getD_some]

/-- `DecomposeComponentsIFilter.filter` (no Instantiator) for the name `n`: no other key changes, no name appears or
    disappears, and a glyph `n` without components stays without -/
theorem decomposeIStep_none_other (s : St) (n : String) (s' : St) (r : Bool) (h : decomposeIStep none s n = .ok (s', r)) :
    s'.ms.length = s.ms.length ∧ namesOf s'.ms = namesOf s.ms ∧ s'.orders = s.orders ∧
    ∀ j x, x ≠ n → (s'.ms.getD j []).get? x = (s.ms.getD j []).get? x := by
  unfold decomposeIStep at h
  split at h
  · simp only [Except.ok.injEq, Prod.mk.injEq] at h; rw [← h.1]; exact ⟨rfl, rfl, rfl, fun _ _ _ => rfl⟩
  · simp only [ensureComposite] at h
    cases hp : perMaster none n (decomposeVisit true none) (decomposeOp true none) (List.range s.ms.length) s true with
    | error e => rw [hp] at h; cases h
    | ok res =>
      obtain ⟨s2, fl⟩ := res
      rw [hp] at h
      simp only [Except.ok.injEq, Prod.mk.injEq] at h
      rw [← h.1]
      obtain ⟨hl, hall⟩ := perMaster_none_all n _ _ s s2 true fl hp
      have hord : s2.orders = s.orders := by
        -- `perMaster` never touches the pending orders
        have : ∀ (idxs : List Nat) (a b : St) (f1 f2 : Bool),
            perMaster none n (decomposeVisit true none) (decomposeOp true none) idxs a f1 = .ok (b, f2) → b.orders = a.orders := by
          intro idxs
          induction idxs with
          | nil => intro a b f1 f2 hh; simp only [perMaster, Except.ok.injEq, Prod.mk.injEq] at hh; rw [← hh.1]
          | cons i rest ih =>
            intro a b f1 f2 hh
            unfold perMaster at hh
            cases hg : (a.ms.getD i []).get? n with
            | none => rw [hg] at hh; exact ih a b f1 f2 hh
            | some g =>
              rw [hg] at hh; dsimp only at hh
              cases hfr : decomposeOp true none (layerSet none a i) g with
              | error e => rw [hfr] at hh; cases hh
              | ok rr =>
                obtain ⟨og, flx⟩ := rr
                rw [hfr] at hh; dsimp only at hh
                cases og with
                | none => exact ih _ b _ f2 hh
                | some g' => dsimp only at hh; rw [ih _ b _ f2 hh]; rfl
        exact this _ s s2 true fl hp
      refine ⟨hl, perMaster_names none n _ _ _ s s2 true fl hp, hord, ?_⟩
      intro j x hx
      by_cases hj : j < s.ms.length
      · have hj' : j < s2.ms.length := by omega
        rw [getD_eq_getElem_of_lt _ j hj, getD_eq_getElem_of_lt _ j hj']
        exact updOne_other n _ _ _ (hall j hj hj') x hx
      · rw [getD_nil_of_le s.ms j (by omega), getD_nil_of_le s2.ms j (by omega)]

/-- all glyphs called `n` are free of components -/
def CompFree (ms : Masters) (n : String) : Prop := ∀ m ∈ ms, ∀ g, m.get? n = some g → g.comps = []

theorem mem_getD_of_mem (ms : Masters) (m : GlyphSet) (h : m ∈ ms) : ∃ j, j < ms.length ∧ ms.getD j [] = m := by
  obtain ⟨j, hj, rfl⟩ := List.mem_iff_getElem.mp h
  exact ⟨j, hj, getD_eq_getElem_of_lt ms j hj⟩

theorem decomposeIStep_none_compFree (s : St) (n : String) (s' : St) (r : Bool) (h : decomposeIStep none s n = .ok (s', r)) :
    CompFree s'.ms n ∧ ∀ x, CompFree s.ms x → CompFree s'.ms x := by
  have hoth := decomposeIStep_none_other s n s' r h
  have hn : CompFree s'.ms n := by
    rcases C09_joint_step s s' n r h with ⟨_, hs⟩ | ⟨_, _, hall⟩
    · subst hs
      unfold decomposeIStep at h
      split at h
      · rename_i hc
        intro m hm g hg
        have : (glyphsNamed s'.ms n).any (fun g => !g.comps.isEmpty) = false := by simpa using hc
        have hh := List.any_eq_false.mp this g (by
          simp only [glyphsNamed, List.mem_filterMap]; exact ⟨m, hm, hg⟩)
        simpa using hh
      · -- the branch that decomposes returns `true`
        simp only [ensureComposite] at h
        cases hp : perMaster none n (decomposeVisit true none) (decomposeOp true none) (List.range s'.ms.length) s' true with
        | error e => rw [hp] at h; cases h
        | ok res => rw [hp] at h; simp only [Except.ok.injEq, Prod.mk.injEq] at h; exact absurd h.2 (by simp_all)
    · exact hall
  refine ⟨hn, ?_⟩
  intro x hx
  by_cases hxn : x = n
  · subst hxn; exact hn
  · intro m' hm' g hg
    obtain ⟨j, hj, hjm⟩ := mem_getD_of_mem s'.ms m' hm'
    have := hoth.2.2.2 j x hxn
    rw [hjm, hg] at this
    have hj2 : j < s.ms.length := by rw [← hoth.1]; exact hj
    exact hx (s.ms.getD j []) (by rw [getD_eq_getElem_of_lt _ j hj2]; exact List.getElem_mem hj2) g this.symm

/-! ### the run of `DecomposeComponentsIFilter(include=need)` -/

theorem mem_addMod (l : List String) (n x : String) (h : x ∈ addMod l n) : x ∈ l ∨ x = n := by
  unfold addMod at h
  split at h
  · exact Or.inl h
  · rcases List.mem_append.mp h with h | h
    · exact Or.inl h
    · exact Or.inr (by simpa using h)

theorem mem_addMod_of_mem (l : List String) (n x : String) (h : x ∈ l) : x ∈ addMod l n := by
  unfold addMod; split
  · exact h
  · exact List.mem_append_left _ h

/-- `CompFree` survives the loop -/
theorem iLoop_compFree (incl : Glyph → Bool) (x : String) : ∀ (order : List String) (a b : St) (ma mb : List String),
    iLoop incl (decomposeIStep none) order (a, ma) = .ok (b, mb) → CompFree a.ms x → CompFree b.ms x := by
  intro order
  induction order with
  | nil => intro a b ma mb hh hc; simp only [iLoop, Except.ok.injEq, Prod.mk.injEq] at hh; rw [← hh.1]; exact hc
  | cons y ys ihy =>
    intro a b ma mb hh hc
    unfold iLoop at hh
    split at hh
    · exact ihy a b ma mb hh hc
    · split at hh
      · cases hst : decomposeIStep none a y with
        | error e => rw [hst] at hh; cases hh
        | ok rr =>
          obtain ⟨a1, r1⟩ := rr
          rw [hst] at hh
          exact ihy a1 b _ mb hh ((decomposeIStep_none_compFree a y a1 r1 hst).2 x hc)
      · exact ihy a b ma mb hh hc

/-- the modified list only grows -/
theorem iLoop_grow (incl : Glyph → Bool) (step : St → String → Except GErr (St × Bool)) :
    ∀ (order : List String) (a b : St) (ma mb : List String),
    iLoop incl step order (a, ma) = .ok (b, mb) → ∀ y ∈ ma, y ∈ mb := by
  intro order
  induction order with
  | nil => intro a b ma mb hh y hy; simp only [iLoop, Except.ok.injEq, Prod.mk.injEq] at hh; rw [← hh.2]; exact hy
  | cons z zs ihz =>
    intro a b ma mb hh y hy
    unfold iLoop at hh
    split at hh
    · exact ihz a b ma mb hh y hy
    · split at hh
      · cases hst : step a z with
        | error e => rw [hst] at hh; cases hh
        | ok rr =>
          obtain ⟨a1, r1⟩ := rr
          rw [hst] at hh
          apply ihz a1 b _ mb hh y
          split
          · exact mem_addMod_of_mem _ _ _ hy
          · exact hy
      · exact ihz a b ma mb hh y hy

section needrun
variable (need : List String) (s0 : St)

/-- the loop invariant: keys are names; what has been reported modified is free of components; nothing outside `need`
    has changed; names and lengths are as at the start -/
structure NeedInv (s : St) (md : List String) : Prop where
  keys : StQ KOk s
  done : ∀ n ∈ md, CompFree s.ms n
  len : s.ms.length = s0.ms.length
  names : namesOf s.ms = namesOf s0.ms
  ords : s.orders = s0.orders
  same : ∀ j x, x ∉ need → (s.ms.getD j []).get? x = (s0.ms.getD j []).get? x

theorem needLoop : ∀ (order : List String) (s s' : St) (md md' : List String),
    NeedInv need s0 s md → iLoop (fun g => need.contains g.name) (decomposeIStep none) order (s, md) = .ok (s', md') →
    NeedInv need s0 s' md' ∧ ∀ n ∈ order, n ∈ need → CompFree s'.ms n := by
  intro order
  induction order with
  | nil =>
    intro s s' md md' hI h
    simp only [iLoop, Except.ok.injEq, Prod.mk.injEq] at h
    rw [← h.1, ← h.2]; exact ⟨hI, fun n hn => by cases hn⟩
  | cons n ns ih =>
    intro s s' md md' hI h
    unfold iLoop at h
    by_cases h1 : md.contains n = true
    · rw [if_pos h1] at h
      obtain ⟨hI', hrest⟩ := ih s s' md md' hI h
      refine ⟨hI', ?_⟩
      intro x hx hxn
      rcases List.mem_cons.mp hx with rfl | hx
      · exact hI'.done x (iLoop_grow _ _ ns s s' md md' h x (by simpa using h1))
      · exact hrest x hx hxn
    · rw [if_neg h1] at h
      by_cases h2 : (glyphsNamed s.ms n).any (fun g => need.contains g.name) = true
      · rw [if_pos h2] at h
        have hnneed : n ∈ need := by
          obtain ⟨g, hg, hc⟩ := List.any_eq_true.mp h2
          obtain ⟨m, hm, hget⟩ := glyphsNamed_mem s.ms n g hg
          have : g.name = n := hI.keys.ms m hm _ (get?_mem m n g hget)
          rw [this] at hc; simpa using hc
        cases hst : decomposeIStep none s n with
        | error e => rw [hst] at h; cases h
        | ok rr =>
          obtain ⟨s1, r1⟩ := rr
          rw [hst] at h; dsimp only at h
          have hoth := decomposeIStep_none_other s n s1 r1 hst
          have hcf := decomposeIStep_none_compFree s n s1 r1 hst
          have hI1 : NeedInv need s0 s1 (if r1 = true then addMod md n else md) := by
            refine ⟨decomposeIStep_Q kOk_GInv none s n s1 r1 hI.keys hst, ?_, by rw [hoth.1]; exact hI.len,
              by rw [hoth.2.1]; exact hI.names, by rw [hoth.2.2.1]; exact hI.ords, ?_⟩
            · intro y hy
              have hy' : y ∈ md ∨ y = n := by
                split at hy
                · exact mem_addMod md n y hy
                · exact Or.inl hy
              rcases hy' with hy' | hy'
              · exact hcf.2 y (hI.done y hy')
              · rw [hy']; exact hcf.1
            · intro j x hx
              have hxn : x ≠ n := fun e => hx (e ▸ hnneed)
              rw [hoth.2.2.2 j x hxn]; exact hI.same j x hx
          obtain ⟨hI', hrest⟩ := ih s1 s' _ md' hI1 h
          refine ⟨hI', ?_⟩
          intro x hx hxn
          rcases List.mem_cons.mp hx with rfl | hx
          · exact iLoop_compFree _ x ns s1 s' _ md' h hcf.1
          · exact hrest x hx hxn
      · rw [if_neg h2] at h
        obtain ⟨hI', hrest⟩ := ih s s' md md' hI h
        refine ⟨hI', ?_⟩
        intro x hx hxn
        rcases List.mem_cons.mp hx with rfl | hx
        · apply iLoop_compFree _ x ns s s' md md' h
          intro m hm g hg
          exfalso
          have hf : (glyphsNamed s.ms x).any (fun g => need.contains g.name) = false := by simpa using h2
          have := List.any_eq_false.mp hf g (by simp only [glyphsNamed, List.mem_filterMap]; exact ⟨m, hm, hg⟩)
          have hname : g.name = x := hI.keys.ms m hm _ (get?_mem m x g hg)
          rw [hname] at this
          exact this (by simpa using hxn)
        · exact hrest x hx hxn

end needrun

/-! ### the iteration order covers the names it was made from -/

theorem depthsI_fst (ms : Masters) : ∀ (names : List String) (ds : List (String × Nat)), depthsI ms names = .ok ds →
    ds.map (·.1) = names := by
  intro names
  induction names with
  | nil => intro ds h; simp only [depthsI, Except.ok.injEq] at h; rw [← h]; rfl
  | cons n l ih =>
    intro ds h
    simp only [depthsI] at h
    cases h1 : compDepth ms n with
    | error e => rw [h1] at h; cases h
    | ok d =>
      cases h2 : depthsI ms l with
      | error e => rw [h1, h2] at h; cases h
      | ok r =>
        rw [h1, h2] at h
        simp only [Except.ok.injEq] at h
        rw [← h]; simp only [List.map_cons, ih r h2]

theorem orderI_mem (ms : Masters) (names order : List String) (h : orderI ms names = .ok order) (n : String) :
    n ∈ order ↔ n ∈ names := by
  unfold orderI at h
  cases hd : depthsI ms names with
  | error e => rw [hd] at h; cases h
  | ok ds =>
    rw [hd] at h
    simp only [Except.ok.injEq] at h
    rw [← h, ← depthsI_fst ms names ds hd]
    simp only [List.mem_map]
    constructor
    · rintro ⟨e, he, rfl⟩; exact ⟨e, (List.mergeSort_perm ds _).mem_iff.mp he, rfl⟩
    · rintro ⟨e, he, rfl⟩; exact ⟨e, (List.mergeSort_perm ds _).mem_iff.mpr he, rfl⟩

theorem mem_allNames (ms : Masters) (n : String) : n ∈ allNames ms ↔ ∃ m ∈ ms, n ∈ m.names := by
  simp only [allNames, mem_dedupFirst, List.mem_flatMap]

theorem allNames_of_namesOf (ms ms' : Masters) (h : namesOf ms' = namesOf ms) (n : String) :
    n ∈ allNames ms' ↔ n ∈ allNames ms := by
  have key : ∀ ms : Masters, n ∈ allNames ms ↔ ∃ L ∈ namesOf ms, n ∈ L := by
    intro ms
    rw [mem_allNames]
    simp only [namesOf, List.mem_map]
    constructor
    · rintro ⟨m, hm, hn⟩; exact ⟨m.names, ⟨m, hm, rfl⟩, hn⟩
    · rintro ⟨L, ⟨m, hm, rfl⟩, hn⟩; exact ⟨m, hm, hn⟩
  rw [key, key, h]

/-! ### what is NOT in `needs_decomposition` has matching 2×2 parts -/

theorem foldl_min_const (c : Nat) : ∀ (l : List Nat), (∀ x ∈ l, x = c) → l.foldl min c = c := by
  intro l
  induction l with
  | nil => intro _; rfl
  | cons a l ih =>
    intro h
    simp only [List.foldl_cons]
    rw [h a List.mem_cons_self, Nat.min_self]
    exact ih (fun x hx => h x (List.mem_cons_of_mem _ hx))

theorem abN_comps (g1 g2 : Glyph) (h : abG absN g1 = abG absN g2) :
    g1.comps.map (·.base) = g2.comps.map (·.base) := by
  simp only [abG, abK, Prod.mk.injEq] at h
  have := congrArg (List.map (·.1)) h.2
  simpa [abK, List.map_map, Function.comp_def] using this

/-- **not in `needs_decomposition`** (masters agreeing on component names): the glyphs called `n` agree on whether they
    are simple-or-mixed and on the 2×2 part of every component -/
theorem notNeeded_agree (ms : Masters) (hA : AlikeB (abG absN) ms) (n : String) (hn : n ∉ needsDecomposition ms)
    (m1 m2 : GlyphSet) (hm1 : m1 ∈ ms) (hm2 : m2 ∈ ms) (g1 g2 : Glyph) (h1 : m1.get? n = some g1) (h2 : m2.get? n = some g2) :
    abF absL g1 = abF absL g2 := by
  have hnall : n ∈ allNames ms := (mem_allNames ms n).mpr ⟨m1, hm1, (get?_isSome_iff_names m1 n).mp (by rw [h1]; rfl)⟩
  have hj := fun hx => hn ((C09_joint ms n).mpr hx)
  have hmix : ∀ m ∈ ms, ∀ g, m.get? n = some g → isMixed g = false := by
    intro m hm g hg
    cases hx : isMixed g with
    | false => rfl
    | true => exact absurd (Or.inl ⟨m, hm, g, get?_mem m n g hg, hx⟩) hj
  have hnm : nonMatching ms n = false := by
    cases hx : nonMatching ms n with
    | false => rfl
    | true => exact absurd (Or.inr ⟨hnall, hx⟩) hj
  have hbase := abN_comps g1 g2 (hA m1 hm1 m2 hm2 n g1 g2 h1 h2)
  have hlen : g1.comps.length = g2.comps.length := by
    have := congrArg List.length hbase; simpa using this
  by_cases hc : g1.comps = []
  · have hc2 : g2.comps = [] := by
      cases hh : g2.comps with
      | nil => rfl
      | cons a l => rw [hc, hh] at hlen; simp at hlen
    simp [abF, isSimpleOrMixed, hc, hc2]
  · have hc2 : g2.comps ≠ [] := by
      intro hh; rw [hh] at hlen
      cases hx : g1.comps with
      | nil => exact hc hx
      | cons a l => rw [hx] at hlen; simp at hlen
    have e1 : g1.contours.isEmpty = true := by
      have := hmix m1 hm1 g1 h1
      simp only [isMixed, Bool.and_eq_false_iff, Bool.not_eq_false'] at this
      rcases this with h | h
      · exact h
      · exact absurd (by simpa using h) hc
    have e2 : g2.contours.isEmpty = true := by
      have := hmix m2 hm2 g2 h2
      simp only [isMixed, Bool.and_eq_false_iff, Bool.not_eq_false'] at this
      rcases this with h | h
      · exact h
      · exact absurd (by simpa using h) hc2
    have i1 : g1.comps.isEmpty = false := by cases hx : g1.comps with | nil => exact absurd hx hc | cons a l => rfl
    have i2 : g2.comps.isEmpty = false := by cases hx : g2.comps with | nil => exact absurd hx hc2 | cons a l => rfl
    simp only [abF, isSimpleOrMixed, e1, e2, i1, i2, Prod.mk.injEq, true_and]
    -- the 2×2 parts, index by index
    have hg1 : g1 ∈ glyphsNamed ms n := by simp only [glyphsNamed, List.mem_filterMap]; exact ⟨m1, hm1, h1⟩
    have hg2 : g2 ∈ glyphsNamed ms n := by simp only [glyphsNamed, List.mem_filterMap]; exact ⟨m2, hm2, h2⟩
    have hcount : ∀ l ∈ glyphsNamed ms n, l.comps.length = g1.comps.length := by
      intro l hl
      obtain ⟨m, hm, hg⟩ := glyphsNamed_mem ms n l hl
      have := congrArg List.length (abN_comps l g1 (hA m hm m1 hm1 n l g1 hg h1))
      simpa using this
    unfold nonMatching at hnm
    dsimp only at hnm
    have hany : ((glyphsNamed ms n).map (fun l => l.comps.length)).any (fun c => c != 0) = true := by
      rw [List.any_eq_true]
      refine ⟨g1.comps.length, List.mem_map.mpr ⟨g1, hg1, rfl⟩, ?_⟩
      cases hx : g1.comps with
      | nil => exact absurd hx hc
      | cons a l => simp
    rw [hany] at hnm
    simp only [Bool.not_true, Bool.false_eq_true, if_false] at hnm
    have hmin : ((glyphsNamed ms n).map (fun l => l.comps.length)).foldl min
        (((glyphsNamed ms n).map (fun l => l.comps.length)).headD 0) = g1.comps.length := by
      have hall : ∀ x ∈ (glyphsNamed ms n).map (fun l => l.comps.length), x = g1.comps.length := by
        intro x hx
        obtain ⟨l, hl, rfl⟩ := List.mem_map.mp hx
        exact hcount l hl
      have hhd : ((glyphsNamed ms n).map (fun l => l.comps.length)).headD 0 = g1.comps.length := by
        cases hx : (glyphsNamed ms n) with
        | nil => rw [hx] at hg1; cases hg1
        | cons l0 rest =>
          simp only [List.map_cons, List.headD_cons]
          exact hcount l0 (by rw [hx]; exact List.mem_cons_self)
      rw [hhd]; exact foldl_min_const _ _ hall
    rw [hmin] at hnm
    have hlin : ∀ i (hi1 : i < g1.comps.length) (hi2 : i < g2.comps.length),
        g1.comps[i].t.linear = g2.comps[i].t.linear := by
      intro i hi1 hi2
      have hf := List.any_eq_false.mp hnm i (List.mem_range.mpr hi1)
      have hf' : twoByTwoDiffer (glyphsNamed ms n) i = false := by simpa using hf
      unfold twoByTwoDiffer at hf'
      cases hx : glyphsNamed ms n with
      | nil => rw [hx] at hg1; cases hg1
      | cons l0 rest =>
        rw [hx] at hf'; dsimp only at hf'
        have hl0 : l0.comps.length = g1.comps.length := hcount l0 (by rw [hx]; exact List.mem_cons_self)
        have hi0 : i < l0.comps.length := by omega
        rw [List.getElem?_eq_getElem hi0] at hf'
        dsimp only at hf'
        have hall := List.any_eq_false.mp hf'
        have a1 := hall g1 (by rw [← hx]; exact hg1)
        have a2 := hall g2 (by rw [← hx]; exact hg2)
        rw [List.getElem?_eq_getElem hi1] at a1
        rw [List.getElem?_eq_getElem hi2] at a2
        have b1 : g1.comps[i].t.linear = l0.comps[i].t.linear := by simpa using a1
        have b2 : g2.comps[i].t.linear = l0.comps[i].t.linear := by simpa using a2
        rw [b1, b2]
    apply List.ext_getElem
    · simp only [List.length_map]; exact hlen
    · intro i hi1 hi2
      simp only [List.length_map] at hi1 hi2
      simp only [List.getElem_map, abK, absL, Prod.mk.injEq]
      refine ⟨?_, hlin i hi1 hi2⟩
      have := congrArg (fun l => l[i]?) hbase
      simp only [List.getElem?_map, List.getElem?_eq_getElem hi1, List.getElem?_eq_getElem hi2, Option.map_some,
        Option.some.injEq] at this
      exact this

/-! ### the stage: masters agreeing on component names come out agreeing on 2×2 parts -/

theorem decomposeNeeded_two (s s' : St) (hk : StQ KOk s) (hA : AlikeB (abG absN) s.ms)
    (hcover : ∀ o ∈ s.orders, ∀ n ∈ allNames s.ms, n ∈ o)
    (h : decomposeNeeded none s = .ok s') :
    AlikeB (abF absL) s'.ms ∧ namesOf s'.ms = namesOf s.ms := by
  unfold decomposeNeeded at h
  dsimp only at h
  split at h
  · rename_i hne
    simp only [Except.ok.injEq] at h
    rw [← h]
    refine ⟨?_, rfl⟩
    intro m1 hm1 m2 hm2 n g1 g2 h1 h2
    have : needsDecomposition s.ms = [] := List.isEmpty_iff.mp hne
    exact notNeeded_agree s.ms hA n (by rw [this]; simp) m1 m2 hm1 hm2 g1 g2 h1 h2
  · unfold runIU at h
    cases hr : runI (fun g => (needsDecomposition s.ms).contains g.name) (decomposeIStep none) s with
    | error e => rw [hr] at h; cases h
    | ok res =>
      obtain ⟨s1, md⟩ := res
      rw [hr] at h
      simp only [Except.ok.injEq] at h
      rw [← h, updated_ms]
      unfold runI at hr
      dsimp only at hr
      split at hr
      · cases hr
      · rename_i order ho
        have hI0 : NeedInv (needsDecomposition s.ms) { s with orders := s.orders.drop 1 } { s with orders := s.orders.drop 1 } [] :=
          ⟨StQ_orders s _ hk, (fun n hn => by cases hn), rfl, rfl, rfl, fun _ _ _ => rfl⟩
        obtain ⟨hI, hfree⟩ := needLoop (needsDecomposition s.ms) _ order _ s1 [] md hI0 hr
        have hnames : namesOf s1.ms = namesOf s.ms := hI.names
        refine ⟨?_, hnames⟩
        intro m1 hm1 m2 hm2 n g1 g2 h1 h2
        obtain ⟨j1, hj1, hjm1⟩ := mem_getD_of_mem s1.ms m1 hm1
        obtain ⟨j2, hj2, hjm2⟩ := mem_getD_of_mem s1.ms m2 hm2
        by_cases hn : n ∈ needsDecomposition s.ms
        · -- decomposed everywhere
          have hin : n ∈ order := by
            have hnall : n ∈ allNames s.ms := by
              rw [← allNames_of_namesOf s.ms s1.ms hnames]
              exact (mem_allNames s1.ms n).mpr ⟨m1, hm1, (get?_isSome_iff_names m1 n).mp (by rw [h1]; rfl)⟩
            have hmem := (orderI_mem s.ms _ order ho n).mpr
            apply hmem
            cases hso : s.orders with
            | nil => exact hnall
            | cons o rest => exact hcover o (by rw [hso]; exact List.mem_cons_self) n hnall
          have c1 := hfree n hin hn m1 hm1 g1 h1
          have c2 := hfree n hin hn m2 hm2 g2 h2
          simp [abF, isSimpleOrMixed, c1, c2]
        · -- untouched
          have len : s1.ms.length = s.ms.length := hI.len
          have e1 := hI.same j1 n hn
          have e2 := hI.same j2 n hn
          rw [hjm1, h1] at e1
          rw [hjm2, h2] at e2
          dsimp only at e1 e2
          have hj1' : j1 < s.ms.length := by omega
          have hj2' : j2 < s.ms.length := by omega
          exact notNeeded_agree s.ms hA n hn (s.ms.getD j1 []) (s.ms.getD j2 [])
            (by rw [getD_eq_getElem_of_lt _ j1 hj1']; exact List.getElem_mem hj1')
            (by rw [getD_eq_getElem_of_lt _ j2 hj2']; exact List.getElem_mem hj2') g1 g2 e1.symm e2.symm

/-! ### bookkeeping without Instantiator: pending orders and names -/

theorem perMaster_none_orders (n : String) (visit : GlyphSet → Glyph → List String)
    (f : GlyphSet → Glyph → Except GErr (Option Glyph × Bool)) : ∀ (idxs : List Nat) (a b : St) (f1 f2 : Bool),
    perMaster none n visit f idxs a f1 = .ok (b, f2) → b.orders = a.orders := by
  intro idxs
  induction idxs with
  | nil => intro a b f1 f2 hh; simp only [perMaster, Except.ok.injEq, Prod.mk.injEq] at hh; rw [← hh.1]
  | cons i rest ih =>
    intro a b f1 f2 hh
    unfold perMaster at hh
    cases hg : (a.ms.getD i []).get? n with
    | none => rw [hg] at hh; exact ih a b f1 f2 hh
    | some g =>
      rw [hg] at hh; dsimp only at hh
      cases hfr : f (layerSet none a i) g with
      | error e => rw [hfr] at hh; cases hh
      | ok rr =>
        obtain ⟨og, flx⟩ := rr
        rw [hfr] at hh; dsimp only at hh
        cases og with
        | none => exact ih _ b _ f2 hh
        | some g' => dsimp only at hh; rw [ih _ b _ f2 hh]; rfl

theorem skipIStep_none_meta (skip : List String) (s : St) (n : String) (s' : St) (r : Bool)
    (h : skipIStep none skip s n = .ok (s', r)) : s'.orders = s.orders ∧ namesOf s'.ms = namesOf s.ms := by
  unfold skipIStep at h
  dsimp only at h
  split at h
  · simp only [Except.ok.injEq, Prod.mk.injEq] at h; rw [← h.1]; exact ⟨rfl, rfl⟩
  · simp only [ensureComposite] at h
    cases hp : perMaster none n (decomposeVisit false (some skip)) (decomposeOp false (some skip))
        (List.range s.ms.length) s true with
    | error e => rw [hp] at h; cases h
    | ok res =>
      obtain ⟨s2, fl⟩ := res
      rw [hp] at h
      simp only [Except.ok.injEq, Prod.mk.injEq] at h
      rw [← h.1]
      exact ⟨perMaster_none_orders n _ _ _ s s2 true fl hp, perMaster_names none n _ _ _ s s2 true fl hp⟩

theorem decomposeTransformedIStep_none_meta (s : St) (n : String) (s' : St) (r : Bool)
    (h : decomposeTransformedIStep none s n = .ok (s', r)) : s'.orders = s.orders ∧ namesOf s'.ms = namesOf s.ms := by
  unfold decomposeTransformedIStep at h
  split at h
  · simp only [Except.ok.injEq, Prod.mk.injEq] at h; rw [← h.1]; exact ⟨rfl, rfl⟩
  · have := decomposeIStep_none_other s n s' r h
    exact ⟨this.2.2.1, this.2.1⟩

theorem flattenIStep_none_meta (s : St) (n : String) (s' : St) (r : Bool)
    (h : flattenIStep none s n = .ok (s', r)) : s'.orders = s.orders ∧ namesOf s'.ms = namesOf s.ms := by
  unfold flattenIStep at h
  dsimp only at h
  split at h
  · simp only [Except.ok.injEq, Prod.mk.injEq] at h; rw [← h.1]; exact ⟨rfl, rfl⟩
  · split at h
    · simp only [Except.ok.injEq, Prod.mk.injEq] at h; rw [← h.1]; exact ⟨rfl, rfl⟩
    · exact ⟨perMaster_none_orders n _ _ _ s s' false r h, perMaster_names none n _ _ _ s s' false r h⟩

/-- the pending orders all cover `names`, and the names are exactly `L` -/
def Meta (names : List String) (L : List (List String)) (s : St) : Prop :=
  (∀ o ∈ s.orders, ∀ n ∈ names, n ∈ o) ∧ namesOf s.ms = L

theorem runI_meta (names : List String) (L : List (List String)) (incl : Glyph → Bool)
    (step : St → String → Except GErr (St × Bool))
    (hstep : ∀ s n s' r, step s n = .ok (s', r) → s'.orders = s.orders ∧ namesOf s'.ms = namesOf s.ms)
    (s s' : St) (md : List String) (hs : Meta names L s) (h : runI incl step s = .ok (s', md)) : Meta names L s' := by
  apply runI_inv' (Meta names L) incl step _ _ s s' md hs h
  · intro a n b r ha hab
    obtain ⟨h1, h2⟩ := hstep a n b r hab
    exact ⟨by rw [h1]; exact ha.1, by rw [h2]; exact ha.2⟩
  · intro a ha
    exact ⟨fun o ho => ha.1 o (List.mem_of_mem_drop ho), ha.2⟩

theorem runIU_meta (names : List String) (L : List (List String)) (incl : Glyph → Bool)
    (step : St → String → Except GErr (St × Bool))
    (hstep : ∀ s n s' r, step s n = .ok (s', r) → s'.orders = s.orders ∧ namesOf s'.ms = namesOf s.ms)
    (s s' : St) (hs : Meta names L s) (h : runIU incl step s = .ok s') : Meta names L s' := by
  unfold runIU at h
  cases hr : runI incl step s with
  | error e => rw [hr] at h; cases h
  | ok res =>
    obtain ⟨s1, md⟩ := res
    rw [hr] at h
    simp only [Except.ok.injEq] at h
    have := runI_meta names L incl step hstep s s1 md hs hr
    rw [← h]
    unfold St.updated
    split
    · exact this
    · exact this

theorem namesOf_prune (ms : Masters) (skip : List String) :
    namesOf (ms.map (fun (m : GlyphSet) => m.filter (fun e => !skip.contains e.1))) =
      (namesOf ms).map (List.filter (fun n => !skip.contains n)) := by
  simp only [namesOf, List.map_map]
  apply List.map_congr_left
  intro m _
  exact names_filter m (fun n => !skip.contains n)

theorem skipI_meta (names : List String) (L : List (List String)) (skip : List String) (s s' : St)
    (hs : Meta names L s) (h : skipI none skip s = .ok s') :
    Meta names (L.map (List.filter (fun n => !skip.contains n))) s' := by
  unfold skipI at h
  split at h
  · rename_i he
    simp only [Except.ok.injEq] at h
    rw [← h]
    have : skip = [] := List.isEmpty_iff.mp he
    refine ⟨hs.1, ?_⟩
    rw [hs.2, this]
    have : ∀ l : List String, l.filter (fun n => !([] : List String).contains n) = l := by
      intro l; apply List.filter_eq_self.mpr; intro a _; simp
    rw [List.map_congr_left (fun l _ => this l), List.map_id']
  · cases hr : runI (fun _ => true) (skipIStep none skip) s with
    | error e => rw [hr] at h; cases h
    | ok res =>
      obtain ⟨s1, md⟩ := res
      rw [hr] at h
      simp only [Except.ok.injEq] at h
      have h1 := runI_meta names L _ _ (skipIStep_none_meta skip) s s1 md hs hr
      rw [← h]
      refine ⟨?_, ?_⟩
      · unfold St.updated; split <;> exact h1.1
      · rw [updated_ms]; dsimp only; rw [namesOf_prune, h1.2]

theorem runCustom_meta (names : List String) (L : List (List String)) (cfg : Cfg) (hi : cfg.inst = none)
    (hu : UniformCustom cfg) (pre : Bool) (s s' : St) (hs : Meta names L s) (h : runCustom cfg pre s = .ok s') :
    Meta names L s' := by
  unfold runCustom at h
  dsimp only at h
  split at h
  · simp only [Except.ok.injEq] at h; rw [← h]; exact hs
  · rename_i hne
    split at h
    · rw [hi] at h
      exact runIU_meta names L _ _ decomposeTransformedIStep_none_meta s s' hs h
    · rename_i hns
      rcases hu pre with hu | hu
      · exact absurd hu hns
      · exact absurd hu hne

/-! ### cu2qu keeps the skeleton: agreement on (`isSimpleOrMixed`, components) is carried over -/

theorem skel_get? : ∀ (m1 m2 : GlyphSet) (n : String) (g1 : Glyph), skel m1 = skel m2 → m1.get? n = some g1 →
    ∃ g2, m2.get? n = some g2 ∧ g1.comps = g2.comps ∧ g1.contours.isEmpty = g2.contours.isEmpty := by
  intro m1
  induction m1 with
  | nil => intro m2 n g1 _ h; cases h
  | cons a m1 ih =>
    intro m2 n g1 hs h
    cases m2 with
    | nil => simp [skel] at hs
    | cons b m2 =>
      simp only [skel, List.map_cons, List.cons.injEq, Prod.mk.injEq] at hs
      obtain ⟨⟨h1, _, _, _, h5, h6⟩, hrest⟩ := hs
      obtain ⟨ka, va⟩ := a
      obtain ⟨kb, vb⟩ := b
      simp only at h1 h5 h6
      subst h1
      simp only [GlyphSet.get?, alookup] at h ⊢
      by_cases hk : (ka == n) = true
      · rw [if_pos hk] at h ⊢
        simp only [Option.some.injEq] at h
        subst h
        exact ⟨vb, rfl, h5, h6⟩
      · rw [if_neg hk] at h ⊢
        exact ih m2 n g1 hrest h

theorem skel_masters_mem : ∀ (q pre : Masters), q.map skel = pre.map skel → ∀ m' ∈ q, ∃ m ∈ pre, skel m' = skel m := by
  intro q
  induction q with
  | nil => intro pre _ m' hm'; cases hm'
  | cons a q ih =>
    intro pre hs m' hm'
    cases pre with
    | nil => simp at hs
    | cons b pre =>
      simp only [List.map_cons, List.cons.injEq] at hs
      rcases List.mem_cons.mp hm' with rfl | hm'
      · exact ⟨b, List.mem_cons_self, hs.1⟩
      · obtain ⟨m, hm, he⟩ := ih pre hs.2 m' hm'
        exact ⟨m, List.mem_cons_of_mem _ hm, he⟩

theorem abF_of_skel {σ τ : Type} (A : Abs σ τ) (g1 g2 : Glyph) (hc : g1.comps = g2.comps)
    (he : g1.contours.isEmpty = g2.contours.isEmpty) : abF A g1 = abF A g2 := by
  simp only [abF, isSimpleOrMixed, hc, he]

theorem skel_alikeF {σ τ : Type} (A : Abs σ τ) (q pre : Masters) (hs : q.map skel = pre.map skel)
    (hA : AlikeB (abF A) pre) : AlikeB (abF A) q := by
  intro m1' hm1 m2' hm2 n g1' g2' h1 h2
  obtain ⟨m1, hx1, e1⟩ := skel_masters_mem q pre hs m1' hm1
  obtain ⟨m2, hx2, e2⟩ := skel_masters_mem q pre hs m2' hm2
  obtain ⟨g1, hg1, c1, i1⟩ := skel_get? m1' m1 n g1' e1 h1
  obtain ⟨g2, hg2, c2, i2⟩ := skel_get? m2' m2 n g2' e2 h2
  rw [abF_of_skel A g1' g1 c1 i1, abF_of_skel A g2' g2 c2 i2]
  exact hA m1 hx1 m2 hx2 n g1 g2 hg1 hg2

theorem abF_rev {σ τ : Type} (A : Abs σ τ) (g1 g2 : Glyph) (h : abF A g1 = abF A g2) :
    abF A { g1 with contours := g1.contours.map reverseContour } = abF A { g2 with contours := g2.contours.map reverseContour } := by
  simp only [abF, isSimpleOrMixed, Prod.mk.injEq, List.isEmpty_map] at h ⊢
  exact h

end Ufo2ft.C09
