import Ufo2ftModel.Spec.C08Env
/-! Property C08, theorems for the environment / UFO-library part (Model/C08Env.lean). -/
namespace Ufo2ft.C08
open List

/-- **created_pinned**: once SOURCE_DATE_EPOCH is in the environment (or the fontinfo names a creation date) the wall clock
does not reach `head.created` -/
theorem created_pinned (explicit : Option (List Nat)) (env : Epoch) (h : explicit.isSome = true ∨ env ≠ .unset) (now₁ now₂ : Nat) :
    headCreated explicit env now₁ = headCreated explicit env now₂ := by
  cases explicit with
  | some v => rfl
  | none =>
    cases env with
    | unset => simp at h
    | invalid => rfl
    | value e => rfl

/-- every value of the variable pins, the epoch itself (`0`) included; the model satisfies `holdsCreated` up to `denotes` -/
theorem created_value (e now : Nat) : headCreated none (.value e) now = .ok (stampOf e) := rfl

/-- without the variable the clock does reach the output (why the property needs its proviso) -/
theorem created_unset_clock : headCreated none .unset 0 ≠ headCreated none .unset 86400 := by
  intro h
  have h' : stampOf 0 = stampOf 86400 := by injection h
  revert h'; decide

example : stampOf 0 = [1970, 1, 1, 0, 0, 0] := by decide
example : denotes (stampOf 0) 0 = true := by decide
example : denotes (stampOf 951782400) 951782400 = true ∧ stampOf 951782400 = [2000, 2, 29, 0, 0, 0] := by decide
example : denotes (stampOf 1700000000) 1700000000 = true ∧ stampOf 1700000000 = [2023, 11, 14, 22, 13, 20] := by decide
example : denotes [2023, 11, 14, 22, 13, 21] 1700000000 = false := by decide

theorem minIdxAux_spec (ks : List Q) : ∀ (pre : List Q) (best : Nat) (bk : Q), pre[best]? = some bk → (∀ x ∈ pre, bk ≤ x) →
    (∀ x ∈ pre.take best, bk < x) →
    ∃ rk, (pre ++ ks)[minIdxAux ks pre.length best bk]? = some rk ∧ (∀ x ∈ pre ++ ks, rk ≤ x) ∧
      (∀ x ∈ (pre ++ ks).take (minIdxAux ks pre.length best bk), rk < x) := by
  induction ks with
  | nil => intro pre best bk h1 h2 h3; exact ⟨bk, by simpa [minIdxAux] using h1, by simpa using h2, by simpa [minIdxAux] using h3⟩
  | cons k ks ih =>
    intro pre best bk h1 h2 h3
    have hb : best < pre.length := (List.getElem?_eq_some_iff.mp h1).1
    have hlen : (pre ++ [k]).length = pre.length + 1 := by simp
    simp only [minIdxAux]
    split
    · next hk =>
      have := ih (pre ++ [k]) pre.length k (by simp) (by
        intro x hx
        rcases List.mem_append.mp hx with hx | hx
        · have := h2 x hx; grind
        · simp at hx; subst hx; exact Rat.le_refl) (by
        intro x hx
        rw [List.take_left'] at hx
        · have := h2 x hx; grind
        · rfl)
      rw [hlen] at this
      simpa [List.append_assoc] using this
    · next hk =>
      have hk' : bk ≤ k := Rat.not_lt.mp hk
      have := ih (pre ++ [k]) best bk (by rw [List.getElem?_append_left hb]; exact h1) (by
        intro x hx
        rcases List.mem_append.mp hx with hx | hx
        · exact h2 x hx
        · simp at hx; subst hx; exact hk') (by
        intro x hx
        rw [List.take_append_of_le_length (Nat.le_of_lt hb)] at hx
        exact h3 x hx)
      rw [hlen] at this
      simpa [List.append_assoc] using this

/-- Python's `min(…, key=…)` returns the FIRST element with the smallest key -/
theorem minIdx_spec (keys : List Q) (c : Nat) (h : minIdx keys = some c) :
    ∃ ck, keys[c]? = some ck ∧ (∀ x ∈ keys, ck ≤ x) ∧ (∀ x ∈ keys.take c, ck < x) := by
  cases keys with
  | nil => simp [minIdx] at h
  | cons k ks =>
    simp only [minIdx, Option.some.injEq] at h
    have := minIdxAux_spec ks [k] 0 k (by simp) (by intro x hx; simp at hx; subst hx; exact Rat.le_refl) (by simp)
    simp only [List.length_cons, List.length_nil, Nat.zero_add, List.singleton_append] at this
    rw [h] at this
    exact this

/-- **closest_spec**: the promoted component is the first one nearest to the origin, for every list of bounds -/
theorem closest_spec (bounds : BoundsLib → List (Q × Q)) (lib : BoundsLib) (c : Nat) (h : closestToOrigin bounds lib = some c) :
    holdsClosest (bounds lib) c = true := by
  obtain ⟨ck, h1, h2, h3⟩ := minIdx_spec _ c h
  rw [List.getElem?_map] at h1
  cases hb : (bounds lib)[c]? with
  | none => simp [hb] at h1
  | some p =>
    simp only [hb, Option.map_some, Option.some.injEq] at h1
    subst h1
    simp only [holdsClosest, hb, Bool.and_eq_true, List.all_eq_true, decide_eq_true_eq]
    refine ⟨fun q hq => h2 _ (List.mem_map_of_mem hq), fun q hq => h3 _ ?_⟩
    rw [← List.map_take]
    exact List.mem_map_of_mem hq

/-- **closest_lib_agnostic**: the choice depends on the UFO library only through the bounds its branch of `_bounds` returns -/
theorem closest_lib_agnostic (bounds : BoundsLib → List (Q × Q)) (h : bounds .defcon = bounds .ufoLib2) :
    closestToOrigin bounds .defcon = closestToOrigin bounds .ufoLib2 := by
  simp [closestToOrigin, h]

/-- and it does depend on them: an exact box and a control box of the same two components elect different ones (the
off-curve points of the second component's curve reach x = 0, the curve itself only x = 50) -/
example : closestToOrigin (fun | .defcon => [(30, 550), (50, 550)] | .ufoLib2 => [(30, 550), (0, 550)]) .defcon = some 0 ∧
    closestToOrigin (fun | .defcon => [(30, 550), (50, 550)] | .ufoLib2 => [(30, 550), (0, 550)]) .ufoLib2 = some 1 := by decide +kernel

end Ufo2ft.C08
