import Ufo2ftModel.Props.C06Cov
import Ufo2ftModel.Props.C06Color
/-! C06, part 11: a matching anchor pair survives pruning, makes a mark class, and the base anchor refers to it. -/
namespace Ufo2ft.C06
open List

theorem mem_unique_of_nodup_keys {β} {l : List (String × β)} (hn : (l.map (·.1)).Nodup) {g : String} {x y : β}
    (hx : (g, x) ∈ l) (hy : (g, y) ∈ l) : x = y := by
  have := injOn_of_nodup_map hn (g, x) hx (g, y) hy rfl
  simpa using this

/-- a base-side anchor `ab` (on glyph gb) and a mark anchor `am` (on glyph gm) with the same key -/
structure Pair (al : AList) (gb gm : String) (ab am : NA) : Prop where
  hb : AnchorIn al gb ab
  hm : AnchorIn al gm am
  nb : ab.isMark = false
  mm : am.isMark = true
  cm : am.ctx = none
  key : am.key = ab.key

section
variable {i : Input} {al : AList} (w : ALwf i al) {gb gm : String} {ab am : NA} (p : Pair al gb gm ab am)
include w p

theorem pair_markName : markAnchorName ab = am.name := by
  obtain ⟨as, has, ha⟩ := p.hm
  rw [markName_of_key (w.shape _ has _ ha p.cm) p.mm, p.key]; rfl

theorem pair_paired : paired al ab = true := by
  obtain ⟨as, has, ha⟩ := p.hm
  rw [paired_iff]
  exact ⟨p.nb, mem_markNames0.mpr ⟨_, has, am, ha, p.mm, (pair_markName w p).symm⟩⟩

theorem pair_mn : am.name ∈ markNames al := by
  obtain ⟨as, has, ha⟩ := p.hb
  exact mem_markNames.mpr ⟨_, has, ab, ha, pair_paired w p, pair_markName w p⟩

theorem pair_keep_b : keep al ab = true := by
  obtain ⟨as, has, ha⟩ := p.hb
  have : ab.name ∈ baseNames al := mem_baseNames.mpr ⟨_, has, ab, ha, pair_paired w p, rfl⟩
  simp [keep, this]

theorem pair_keep_m : keep al am = true := by
  have := pair_mn w p
  simp [keep, this]

theorem pair_prune_b : AnchorIn (prune al) gb ab := by
  obtain ⟨as, has, ha⟩ := p.hb
  have hmem : ab ∈ as.filter (keep al) := mem_filter.mpr ⟨ha, pair_keep_b w p⟩
  exact ⟨_, mem_prune_of has (ne_nil_of_mem hmem), hmem⟩

theorem pair_prune_m : AnchorIn (prune al) gm am := by
  obtain ⟨as, has, ha⟩ := p.hm
  have hmem : am ∈ as.filter (keep al) := mem_filter.mpr ⟨ha, pair_keep_m w p⟩
  exact ⟨_, mem_prune_of has (ne_nil_of_mem hmem), hmem⟩

/-- the mark glyph's entry among the mark entries -/
theorem pair_me (hok : markOK i gm = true) : ∃ ms, (gm, ms) ∈ meOf i al ∧ am ∈ ms := by
  obtain ⟨as', has', ha'⟩ := pair_prune_m w p
  have hmem : am ∈ as'.filter (fun a => (markNames al).contains a.name) :=
    mem_filter.mpr ⟨ha', by simpa using pair_mn w p⟩
  exact ⟨_, mem_markEntries_of has' hok (ne_nil_of_mem hmem), hmem⟩

theorem pair_mg (hok : markOK i gm = true) : gm ∈ mgOf i al := by
  obtain ⟨ms, hms, _⟩ := pair_me w p hok
  exact mem_map.mpr ⟨_, hms, rfl⟩

theorem pair_groupName (hok : markOK i gm = true) : am.name ∈ groupNames (meOf i al) := by
  obtain ⟨ms, hms, ha⟩ := pair_me w p hok
  exact mem_groupNames.mpr ⟨_, hms, am, ha, rfl⟩

/-- the mark class of the pair exists and contains the mark glyph -/
theorem pair_class (hok : markOK i gm = true) :
    ∃ recs, (cnOf i al am.name, recs) ∈ clsOf i al ∧ ∃ r ∈ recs, r.glyph = gm := by
  obtain ⟨ms, hms, ha⟩ := pair_me w p hok
  obtain ⟨_, _, _, _, _, hnd⟩ := mem_meOf w hms
  rw [clsOf_eq w]
  refine ⟨_, mem_map.mpr ⟨am.name, pair_groupName w p hok, rfl⟩, recOf (gm, am), ?_, rfl⟩
  exact mem_map.mpr ⟨(gm, am), mem_groupOf_of hms ha hnd, rfl⟩

/-- the base-side anchor refers to that class -/
theorem pair_classOf (hok : markOK i gm = true) : classOf (kmOf i al) ab = some (cnOf i al am.name) := by
  obtain ⟨as, has, ha⟩ := p.hm
  have hsm := w.shape _ has _ ha p.cm
  have hkne : ab.key ≠ "" := by
    rw [← p.key]
    obtain ⟨_, hpk, _⟩ := hsm.mark p.mm
    obtain ⟨⟨c, r, e, _⟩, _⟩ := (plainKey_iff _).mp hpk
    intro e'; rw [e'] at e; simp at e
  have hlook : alookup ab.key (kmOf i al) = some (cnOf i al am.name) := by
    rw [kmOf_eq w]
    apply alookup_of_mem_nodup
    · -- keys are pairwise different (shown in makeClasses_meOf; re-derived here from the closed form)
      rw [map_map]
      apply nodup_map_of_injOn (nodup_groupNames _)
      intro x hx y hy hxy
      simp only [Function.comp] at hxy
      obtain ⟨ex, hex, ax, hax, haxn⟩ := mem_groupNames.mp hx
      obtain ⟨ey, hey, ay, hay, hayn⟩ := mem_groupNames.mp hy
      obtain ⟨_, _, asx, hasx, hallx, _⟩ := mem_meOf w hex
      obtain ⟨_, _, asy, hasy, hally, _⟩ := mem_meOf w hey
      obtain ⟨hx1, hx2, hx3⟩ := hallx ax hax
      obtain ⟨hy1, hy2, hy3⟩ := hally ay hay
      have sx := shape_of_mem_markNames w hasx hx1 hx3
      have sy := shape_of_mem_markNames w hasy hy1 hy3
      rw [← haxn, ← hayn] at hxy ⊢
      rw [keyOfMarkName_eq sx hx2, keyOfMarkName_eq sy hy2] at hxy
      rw [markName_of_key sx hx2, markName_of_key sy hy2, hxy]
    · refine mem_map.mpr ⟨am.name, pair_groupName w p hok, ?_⟩
      rw [keyOfMarkName_eq hsm p.mm, p.key]
  unfold classOf
  have : (ab.isMark || ab.key == "") = false := by simp [p.nb, hkne]
  rw [this]; exact hlook

end

/-- the class names of `build` are pairwise different -/
theorem clsOf_names_nodup {i : Input} {al : AList} (w : ALwf i al) : ((clsOf i al).map (·.1)).Nodup := by
  rw [clsOf_eq w, map_map]
  apply nodup_map_of_injOn (nodup_groupNames _)
  intro x hx y hy hxy
  exact (makeClasses_meOf w).2 x hx y hy hxy

/-- the members of a class of `build`, by name -/
theorem members_clsOf {i : Input} {al : AList} (w : ALwf i al) {cn : String} {recs : List MarkRec}
    (h : (cn, recs) ∈ clsOf i al) : members (clsOf i al) cn = recs.map (·.glyph) := by
  unfold members
  rw [alookup_of_mem_nodup (clsOf_names_nodup w) h]; rfl

end Ufo2ft.C06
