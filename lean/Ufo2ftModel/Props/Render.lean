import Ufo2ftModel.Props.Geom
/-!
Render preservation: decomposing components (fully, partially, nested or not, in any order) never changes what any
glyph of the set draws.  Shared by C01, C02, C13, C15.
-/
namespace Ufo2ft
open List

/-! ### glyph-set lookups -/

theorem alookup_map_set (gs : GlyphSet) (n m : String) (g' : Glyph) :
    alookup m (gs.map (fun e => if e.1 == n then (n, g') else e)) =
      if m = n then (alookup n gs).map (fun _ => g') else alookup m gs := by
  induction gs with
  | nil => simp [alookup]
  | cons e gs ih =>
    obtain ⟨k, v⟩ := e
    simp only [List.map_cons, beq_iff_eq] at ih ⊢
    by_cases hk : k = n
    · subst hk
      by_cases hm : m = k
      · subst hm; simp [alookup]
      · have h2 : ¬ k = m := fun e => hm e.symm
        simp only [alookup, beq_iff_eq, if_true, h2, if_false, hm, ih]
    · by_cases hm : m = n
      · subst hm
        simp only [alookup, beq_iff_eq, hk, if_false, if_true, ih]
      · simp only [alookup, beq_iff_eq, hk, if_false, hm, ih]

theorem get?_set (gs : GlyphSet) (n m : String) (g g' : Glyph) (h : gs.get? n = some g) :
    (gs.set n g').get? m = if m = n then some g' else gs.get? m := by
  unfold GlyphSet.get? GlyphSet.set at *
  rw [alookup_map_set]
  by_cases hm : m = n
  · simp [hm, h]
  · simp [hm]

theorem flatMap_congr' {α β} {f g : α → List β} {l : List α} (h : ∀ a ∈ l, f a = g a) :
    l.flatMap f = l.flatMap g := by
  induction l with
  | nil => rfl
  | cons a l ih =>
    simp only [List.flatMap_cons]
    rw [h a mem_cons_self, ih (fun b hb => h b (mem_cons_of_mem _ hb))]

theorem perm_flatMap_left {α β} {f g : α → List β} {l : List α} (h : ∀ a ∈ l, (f a).Perm (g a)) :
    (l.flatMap f).Perm (l.flatMap g) := by
  induction l with
  | nil => exact Perm.refl _
  | cons a l ih =>
    simp only [List.flatMap_cons]
    exact Perm.append (h a mem_cons_self) (ih (fun b hb => h b (mem_cons_of_mem _ hb)))

/-! ### render as a flatMap -/

def renderOne (f : Nat) (gs : GlyphSet) (t : Affine) (k : Comp) : List Contour :=
  match gs.get? k.base with
  | some b => render f gs (t.compose k.t) b
  | none => []

theorem renderComps_eq (f : Nat) (gs : GlyphSet) (t : Affine) (ks : List Comp) :
    renderComps f gs t ks = ks.flatMap (renderOne f gs t) := by
  induction ks with
  | nil => simp [renderComps]
  | cons k ks ih =>
    simp only [renderComps, List.flatMap_cons, ih, renderOne]
    cases gs.get? k.base <;> rfl

theorem render_succ (f : Nat) (gs : GlyphSet) (t : Affine) (g : Glyph) :
    render (f + 1) gs t g = drawContours true t g.contours ++ g.comps.flatMap (renderOne f gs t) := by
  rw [render, renderComps_eq]; simp [drawContours]

/-! ### ranked (acyclic) glyph sets and fuel independence -/

/-- an acyclicity witness: every component's base has a smaller rank than its user -/
def Ranked (gs : GlyphSet) (rank : String → Nat) : Prop :=
  ∀ n g, gs.get? n = some g → ∀ k ∈ g.comps, rank k.base < rank n

theorem render_fuel (gs : GlyphSet) (rank : String → Nat) (hr : Ranked gs rank) :
    ∀ (r : Nat) (g : Glyph) (t : Affine) (f1 f2 : Nat), (∀ k ∈ g.comps, rank k.base < r) → r < f1 → r < f2 →
      render f1 gs t g = render f2 gs t g := by
  intro r
  induction r using Nat.strongRecOn with
  | _ r ih =>
    intro g t f1 f2 hb h1 h2
    obtain ⟨f1', rfl⟩ : ∃ x, f1 = x + 1 := ⟨f1 - 1, by omega⟩
    obtain ⟨f2', rfl⟩ : ∃ x, f2 = x + 1 := ⟨f2 - 1, by omega⟩
    rw [render_succ, render_succ]
    congr 1
    apply flatMap_congr'
    intro k hk
    unfold renderOne
    cases hbase : gs.get? k.base with
    | none => rfl
    | some b =>
      have hlt := hb k hk
      exact ih (rank k.base) hlt b _ f1' f2' (hr k.base b hbase) (by omega) (by omega)

end Ufo2ft

namespace Ufo2ft
open List

/-- what the theorems assume of a glyph set: acyclic (ranked), all component matrices non-singular, and reversal an
    involution on its contours (true of closed contours; checked by the driver on every generated contour) -/
structure Good (gs : GlyphSet) (rank : String → Nat) : Prop where
  ranked : Ranked gs rank
  nonsing : ∀ n g, gs.get? n = some g → ∀ k ∈ g.comps, k.t.det ≠ 0
  invol : ∀ n g, gs.get? n = some g → ∀ c ∈ g.contours, reverseContour (reverseContour c) = c

theorem drawContours_append (rf : Bool) (t : Affine) (a b : List Contour) :
    drawContours rf t (a ++ b) = drawContours rf t a ++ drawContours rf t b := by
  simp [drawContours]

/-- statement about one `addComponent` call of the decomposing pen -/
def PenOne (gs : GlyphSet) (rank : String → Nat) (nested : Bool) (fuel : Nat) : Prop :=
  ∀ incl base t D, addComp fuel gs true nested incl base t = .ok D → t.det ≠ 0 →
    ∀ S f, S.det ≠ 0 → rank base < f →
      (drawContours true S D.contours ++ D.comps.flatMap (renderOne f gs S)).Perm (renderOne f gs S ⟨base, t⟩)

/-- statement about the nested components of a base -/
def PenMany (gs : GlyphSet) (rank : String → Nat) (nested : Bool) (fuel : Nat) : Prop :=
  ∀ incl t ks D, addComps fuel gs true nested incl t ks = .ok D → t.det ≠ 0 → (∀ k ∈ ks, k.t.det ≠ 0) →
    ∀ S f, S.det ≠ 0 → (∀ k ∈ ks, rank k.base < f) →
      (drawContours true S D.contours ++ D.comps.flatMap (renderOne f gs S)).Perm
        (ks.flatMap (fun k => renderOne f gs S ⟨k.base, t.compose k.t⟩))

theorem det_compose_ne {s t : Affine} (hs : s.det ≠ 0) (ht : t.det ≠ 0) : (s.compose t).det ≠ 0 := by
  rw [Affine.det_compose]
  intro h
  rcases Rat.mul_eq_zero.mp h with h | h
  · exact hs h
  · exact ht h

theorem penMany_of_penOne (gs : GlyphSet) (rank : String → Nat) (nested : Bool) (fuel : Nat)
    (h1 : PenOne gs rank nested fuel) : PenMany gs rank nested fuel := by
  intro incl t ks
  induction ks with
  | nil =>
    intro D hD _ _ S f _ _
    simp only [addComps] at hD
    cases hD
    simp [drawContours]
  | cons k ks ih =>
    intro D hD ht hks S f hS hrank
    simp only [addComps] at hD
    cases hk : addComp fuel gs true nested incl k.base (t.compose k.t) with
    | error e => rw [hk] at hD; cases hD
    | ok d =>
      rw [hk] at hD
      cases hr : addComps fuel gs true nested incl t ks with
      | error e => rw [hr] at hD; cases hD
      | ok d' =>
        rw [hr] at hD
        have hD' := Except.ok.inj hD
        subst hD'
        have p1 := h1 incl k.base (t.compose k.t) d hk
          (det_compose_ne ht (hks k mem_cons_self)) S f hS (hrank k mem_cons_self)
        have p2 := ih d' hr ht (fun k' hk' => hks k' (mem_cons_of_mem _ hk')) S f hS
          (fun k' hk' => hrank k' (mem_cons_of_mem _ hk'))
        simp only [Drawn.append, drawContours_append, List.flatMap_append, List.flatMap_cons]
        -- (A1 ++ A2) ++ (C1 ++ C2) ~ (A1 ++ C1) ++ (A2 ++ C2)
        refine Perm.trans ?_ (Perm.append p1 p2)
        simp only [List.append_assoc]
        refine Perm.append_left _ ?_
        rw [← List.append_assoc, ← List.append_assoc]
        exact Perm.append_right _ perm_append_comm

theorem penOne_succ (gs : GlyphSet) (rank : String → Nat) (hg : Good gs rank) (nested : Bool) (fuel : Nat)
    (h2 : PenMany gs rank nested fuel) : PenOne gs rank nested (fuel + 1) := by
  intro incl base t D hD ht S f hS hrank
  unfold addComp at hD
  by_cases hi : isIncluded incl base = true
  · -- included: the base is drawn through the pens
    rw [if_pos hi] at hD
    cases hb : gs.get? base with
    | none => rw [hb] at hD; cases hD
    | some b =>
      rw [hb] at hD
      dsimp only at hD
      cases hd : addComps fuel gs true nested (inclNested nested incl) t b.comps with
      | error e => rw [hd] at hD; cases hD
      | ok d =>
        rw [hd] at hD
        have hD' := Except.ok.inj hD
        subst hD'
        obtain ⟨f', rfl⟩ : ∃ x, f = x + 1 := ⟨f - 1, by omega⟩
        have hbk : ∀ k ∈ b.comps, k.t.det ≠ 0 := hg.nonsing base b hb
        have hbr : ∀ k ∈ b.comps, rank k.base < rank base := hg.ranked base b hb
        have p := h2 _ t b.comps d hd ht hbk S (f' + 1) hS (fun k hk => by have := hbr k hk; omega)
        simp only [renderOne, hb, render_succ, drawContours_append]
        rw [bake S t hS ht b.contours (hg.invol base b hb), List.append_assoc]
        refine Perm.append_left _ (p.trans (Perm.of_eq ?_))
        apply flatMap_congr'
        intro k hk
        simp only [renderOne]
        cases hkb : gs.get? k.base with
        | none => rfl
        | some b' =>
          simp only [Affine.compose_assoc]
          exact render_fuel gs rank hg.ranked (rank k.base) b' _ (f' + 1) f'
            (hg.ranked k.base b' hkb) (by have := hbr k hk; omega) (by have := hbr k hk; omega)
  · -- not included: passed through as a component
    rw [if_neg hi] at hD
    have hD' := Except.ok.inj hD
    subst hD'
    simp [drawContours]

/-- **pen = spec renderer**: whatever `DecomposingFilterPointPen` (any include set, nested or not) turns a component into
    — contours plus passed-through components — draws exactly what the component drew. -/
theorem pen_render (gs : GlyphSet) (rank : String → Nat) (hg : Good gs rank) (nested : Bool) :
    ∀ fuel, PenOne gs rank nested fuel ∧ PenMany gs rank nested fuel := by
  intro fuel
  induction fuel with
  | zero =>
    have h0 : PenOne gs rank nested 0 := by
      intro incl base t D hD; simp only [addComp] at hD; cases hD
    exact ⟨h0, penMany_of_penOne gs rank nested 0 h0⟩
  | succ n ih =>
    have h1 := penOne_succ gs rank hg nested n ih.2
    exact ⟨h1, penMany_of_penOne gs rank nested (n + 1) h1⟩

end Ufo2ft

namespace Ufo2ft
open List

/-- passed-through components refer to (transitive) bases of the drawn component: their rank is bounded by it -/
def RankOne (gs : GlyphSet) (rank : String → Nat) (nested : Bool) (fuel : Nat) : Prop :=
  ∀ incl base t D, addComp fuel gs true nested incl base t = .ok D → ∀ k ∈ D.comps, rank k.base ≤ rank base
def RankMany (gs : GlyphSet) (rank : String → Nat) (nested : Bool) (fuel : Nat) : Prop :=
  ∀ incl t ks D, addComps fuel gs true nested incl t ks = .ok D → ∀ k ∈ D.comps, ∃ k' ∈ ks, rank k.base ≤ rank k'.base

theorem rankMany_of_rankOne (gs : GlyphSet) (rank : String → Nat) (nested : Bool) (fuel : Nat)
    (h1 : RankOne gs rank nested fuel) : RankMany gs rank nested fuel := by
  intro incl t ks
  induction ks with
  | nil => intro D hD k hk; simp only [addComps] at hD; cases hD; cases hk
  | cons k0 ks ih =>
    intro D hD k hk
    simp only [addComps] at hD
    cases h0 : addComp fuel gs true nested incl k0.base (t.compose k0.t) with
    | error e => rw [h0] at hD; cases hD
    | ok d =>
      rw [h0] at hD
      cases hr : addComps fuel gs true nested incl t ks with
      | error e => rw [hr] at hD; cases hD
      | ok d' =>
        rw [hr] at hD
        have hD' := Except.ok.inj hD
        subst hD'
        simp only [Drawn.append, mem_append] at hk
        rcases hk with hk | hk
        · exact ⟨k0, mem_cons_self, h1 incl k0.base _ d h0 k hk⟩
        · obtain ⟨k', hk', hle⟩ := ih d' hr k hk
          exact ⟨k', mem_cons_of_mem _ hk', hle⟩

theorem rankOne_succ (gs : GlyphSet) (rank : String → Nat) (hr : Ranked gs rank) (nested : Bool) (fuel : Nat)
    (h2 : RankMany gs rank nested fuel) : RankOne gs rank nested (fuel + 1) := by
  intro incl base t D hD k hk
  unfold addComp at hD
  by_cases hi : isIncluded incl base = true
  · rw [if_pos hi] at hD
    cases hb : gs.get? base with
    | none => rw [hb] at hD; cases hD
    | some b =>
      rw [hb] at hD
      dsimp only at hD
      cases hd : addComps fuel gs true nested (inclNested nested incl) t b.comps with
      | error e => rw [hd] at hD; cases hD
      | ok d =>
        rw [hd] at hD
        have hD' := Except.ok.inj hD
        subst hD'
        obtain ⟨k', hk', hle⟩ := h2 _ t b.comps d hd k hk
        have := hr base b hb k' hk'
        omega
  · rw [if_neg hi] at hD
    have hD' := Except.ok.inj hD
    subst hD'
    simp only [mem_singleton] at hk
    subst hk
    exact Nat.le_refl _

theorem pen_rank (gs : GlyphSet) (rank : String → Nat) (hr : Ranked gs rank) (nested : Bool) :
    ∀ fuel, RankOne gs rank nested fuel ∧ RankMany gs rank nested fuel := by
  intro fuel
  induction fuel with
  | zero =>
    have h0 : RankOne gs rank nested 0 := by
      intro incl base t D hD; simp only [addComp] at hD; cases hD
    exact ⟨h0, rankMany_of_rankOne gs rank nested 0 h0⟩
  | succ n ih =>
    have h1 := rankOne_succ gs rank hr nested n ih.2
    exact ⟨h1, rankMany_of_rankOne gs rank nested (n + 1) h1⟩

/-- **Theorem A — decomposing a glyph does not change what it draws.**  For any include set, nested or not: the glyph
    returned by `decomposeCompositeGlyph` renders (under any outer transform) a permutation of what it rendered before. -/
theorem decomposeGlyph_render (gs : GlyphSet) (rank : String → Nat) (hg : Good gs rank) (nested : Bool)
    (incl : Option (List String)) (g g' : Glyph) (hk : ∀ k ∈ g.comps, k.t.det ≠ 0)
    (h : decomposeGlyph gs nested incl g = .ok g') (S : Affine) (hS : S.det ≠ 0) (f : Nat)
    (hf : ∀ k ∈ g.comps, rank k.base < f) :
    (render (f + 1) gs S g').Perm (render (f + 1) gs S g) := by
  unfold decomposeGlyph at h
  cases hd : addComps (gs.length + 1) gs true nested incl Affine.id g.comps with
  | error e => rw [hd] at h; cases h
  | ok d =>
    rw [hd] at h
    have h' := Except.ok.inj h
    subst h'
    have hid : Affine.id.det ≠ 0 := by simp only [Affine.id, Affine.det]; grind
    have p := (pen_render gs rank hg nested (gs.length + 1)).2 incl Affine.id g.comps d hd hid hk S f hS hf
    simp only [render_succ, drawContours_append, List.append_assoc]
    refine Perm.append_left _ (p.trans (Perm.of_eq ?_))
    apply flatMap_congr'
    intro k _
    simp [renderOne, Affine.id_compose]

/-- the components left after decomposition point strictly below the glyph -/
theorem decomposeGlyph_rank (gs : GlyphSet) (rank : String → Nat) (hr : Ranked gs rank) (nested : Bool)
    (incl : Option (List String)) (g g' : Glyph) (r : Nat) (hk : ∀ k ∈ g.comps, rank k.base < r)
    (h : decomposeGlyph gs nested incl g = .ok g') : ∀ k ∈ g'.comps, rank k.base < r := by
  unfold decomposeGlyph at h
  cases hd : addComps (gs.length + 1) gs true nested incl Affine.id g.comps with
  | error e => rw [hd] at h; cases h
  | ok d =>
    rw [hd] at h
    have h' := Except.ok.inj h
    subst h'
    intro k hkm
    obtain ⟨k', hk', hle⟩ := (pen_rank gs rank hr nested (gs.length + 1)).2 incl Affine.id g.comps d hd k hkm
    have := hk k' hk'
    omega

/-- **Theorem B — replacing a glyph by a render-equivalent one changes no glyph's drawing.**
    If `g'` (whose components still point below `name`) draws what `g = gs[name]` drew, then in `gs.set name g'`
    every component list draws what it drew in `gs`. -/
theorem set_preserves_render (gs : GlyphSet) (rank : String → Nat) (hr : Ranked gs rank)
    (hns : ∀ n g, gs.get? n = some g → ∀ k ∈ g.comps, k.t.det ≠ 0)
    (name : String) (g g' : Glyph) (hget : gs.get? name = some g)
    (hrank' : ∀ k ∈ g'.comps, rank k.base < rank name) (hns' : ∀ k ∈ g'.comps, k.t.det ≠ 0)
    (heq : ∀ S f, S.det ≠ 0 → rank name < f → (render f gs S g').Perm (render f gs S g)) :
    ∀ (r : Nat) (ks : List Comp) (S : Affine) (f : Nat), (∀ k ∈ ks, rank k.base < r) → (∀ k ∈ ks, k.t.det ≠ 0) →
      S.det ≠ 0 → r ≤ f →
      (ks.flatMap (renderOne f (gs.set name g') S)).Perm (ks.flatMap (renderOne f gs S)) := by
  intro r
  induction r using Nat.strongRecOn with
  | _ r ih =>
    intro ks S f hks hkd hS hrf
    apply perm_flatMap_left
    intro k hk
    have hlt := hks k hk
    have hSk : (S.compose k.t).det ≠ 0 := det_compose_ne hS (hkd k hk)
    unfold renderOne
    rw [get?_set gs name k.base g g' hget]
    obtain ⟨f', rfl⟩ : ∃ x, f = x + 1 := ⟨f - 1, by omega⟩
    by_cases hn : k.base = name
    · rw [if_pos hn]
      have hgk : gs.get? k.base = some g := by rw [hn]; exact hget
      rw [hgk]
      dsimp only
      refine Perm.trans ?_ (heq (S.compose k.t) (f' + 1) hSk (by rw [← hn]; omega))
      rw [render_succ, render_succ]
      refine Perm.append_left _ ?_
      exact ih (rank name) (by rw [← hn]; exact hlt) g'.comps _ f' hrank' hns' hSk (by rw [← hn]; omega)
    · rw [if_neg hn]
      cases hb : gs.get? k.base with
      | none => exact Perm.refl _
      | some b =>
        dsimp only
        rw [render_succ, render_succ]
        refine Perm.append_left _ ?_
        exact ih (rank k.base) hlt b.comps _ f' (hr k.base b hb) (hns k.base b hb) hSk (by omega)

end Ufo2ft

namespace Ufo2ft
open List

theorem drawContours_invol (t : Affine) (cs : List Contour)
    (h : ∀ c ∈ cs, reverseContour (reverseContour c) = c) :
    ∀ c ∈ drawContours true t cs, reverseContour (reverseContour c) = c := by
  intro c' hc'
  simp only [drawContours, mem_map] at hc'
  obtain ⟨c, hc, rfl⟩ := hc'
  rw [reverseContour_map, reverseContour_map]
  congr 1
  by_cases hd : (true && decide (t.det < 0)) = true
  · simp only [hd, if_true]; rw [h c hc]
  · simp only [hd]; exact h c hc

/-- what the pen emits is again non-singular and reversal-involutive -/
def KeepOne (gs : GlyphSet) (nested : Bool) (fuel : Nat) : Prop :=
  ∀ incl base t D, addComp fuel gs true nested incl base t = .ok D → t.det ≠ 0 →
    (∀ k ∈ D.comps, k.t.det ≠ 0) ∧ (∀ c ∈ D.contours, reverseContour (reverseContour c) = c)
def KeepMany (gs : GlyphSet) (nested : Bool) (fuel : Nat) : Prop :=
  ∀ incl t ks D, addComps fuel gs true nested incl t ks = .ok D → t.det ≠ 0 → (∀ k ∈ ks, k.t.det ≠ 0) →
    (∀ k ∈ D.comps, k.t.det ≠ 0) ∧ (∀ c ∈ D.contours, reverseContour (reverseContour c) = c)

theorem keepMany_of_keepOne (gs : GlyphSet) (nested : Bool) (fuel : Nat)
    (h1 : KeepOne gs nested fuel) : KeepMany gs nested fuel := by
  intro incl t ks
  induction ks with
  | nil =>
    intro D hD _ _
    simp only [addComps] at hD; cases hD
    exact ⟨fun k hk => (by cases hk), fun c hc => (by cases hc)⟩
  | cons k0 ks ih =>
    intro D hD ht hks
    simp only [addComps] at hD
    cases h0 : addComp fuel gs true nested incl k0.base (t.compose k0.t) with
    | error e => rw [h0] at hD; cases hD
    | ok d =>
      rw [h0] at hD
      cases hr : addComps fuel gs true nested incl t ks with
      | error e => rw [hr] at hD; cases hD
      | ok d' =>
        rw [hr] at hD
        have hD' := Except.ok.inj hD
        subst hD'
        have p1 := h1 incl k0.base _ d h0 (det_compose_ne ht (hks k0 mem_cons_self))
        have p2 := ih d' hr ht (fun k' hk' => hks k' (mem_cons_of_mem _ hk'))
        simp only [Drawn.append, mem_append]
        exact ⟨fun k hk => hk.elim (p1.1 k) (p2.1 k), fun c hc => hc.elim (p1.2 c) (p2.2 c)⟩

theorem keepOne_succ (gs : GlyphSet) (rank : String → Nat) (hg : Good gs rank) (nested : Bool) (fuel : Nat)
    (h2 : KeepMany gs nested fuel) : KeepOne gs nested (fuel + 1) := by
  intro incl base t D hD ht
  unfold addComp at hD
  by_cases hi : isIncluded incl base = true
  · rw [if_pos hi] at hD
    cases hb : gs.get? base with
    | none => rw [hb] at hD; cases hD
    | some b =>
      rw [hb] at hD
      dsimp only at hD
      cases hd : addComps fuel gs true nested (inclNested nested incl) t b.comps with
      | error e => rw [hd] at hD; cases hD
      | ok d =>
        rw [hd] at hD
        have hD' := Except.ok.inj hD
        subst hD'
        have p := h2 _ t b.comps d hd ht (hg.nonsing base b hb)
        refine ⟨p.1, ?_⟩
        intro c hc
        rcases mem_append.mp hc with hc | hc
        · exact drawContours_invol t b.contours (hg.invol base b hb) c hc
        · exact p.2 c hc
  · rw [if_neg hi] at hD
    have hD' := Except.ok.inj hD
    subst hD'
    exact ⟨fun k hk => (by simp only [mem_singleton] at hk; subst hk; exact ht), fun c hc => (by cases hc)⟩

theorem pen_keep (gs : GlyphSet) (rank : String → Nat) (hg : Good gs rank) (nested : Bool) :
    ∀ fuel, KeepOne gs nested fuel ∧ KeepMany gs nested fuel := by
  intro fuel
  induction fuel with
  | zero =>
    have h0 : KeepOne gs nested 0 := by
      intro incl base t D hD; simp only [addComp] at hD; cases hD
    exact ⟨h0, keepMany_of_keepOne gs nested 0 h0⟩
  | succ n ih =>
    have h1 := keepOne_succ gs rank hg nested n ih.2
    exact ⟨h1, keepMany_of_keepOne gs nested (n + 1) h1⟩

/-- one in-place decomposition keeps the glyph set `Good` (same rank function) -/
theorem decompose_set_good (gs : GlyphSet) (rank : String → Nat) (hg : Good gs rank) (nested : Bool)
    (incl : Option (List String)) (name : String) (g g' : Glyph) (hget : gs.get? name = some g)
    (h : decomposeGlyph gs nested incl g = .ok g') : Good (gs.set name g') rank := by
  have hrk := decomposeGlyph_rank gs rank hg.ranked nested incl g g' (rank name) (hg.ranked name g hget) h
  have hkeep : (∀ k ∈ g'.comps, k.t.det ≠ 0) ∧ (∀ c ∈ g'.contours, reverseContour (reverseContour c) = c) := by
    unfold decomposeGlyph at h
    cases hd : addComps (gs.length + 1) gs true nested incl Affine.id g.comps with
    | error e => rw [hd] at h; cases h
    | ok d =>
      rw [hd] at h
      have h' := Except.ok.inj h
      subst h'
      have hid : Affine.id.det ≠ 0 := by simp only [Affine.id, Affine.det]; grind
      have p := (pen_keep gs rank hg nested (gs.length + 1)).2 incl Affine.id g.comps d hd hid (hg.nonsing name g hget)
      refine ⟨p.1, ?_⟩
      intro c hc
      rcases mem_append.mp hc with hc | hc
      · exact hg.invol name g hget c hc
      · exact p.2 c hc
  refine ⟨?_, ?_, ?_⟩
  · intro n h' hn k hk
    rw [get?_set gs name n g g' hget] at hn
    by_cases e : n = name
    · rw [if_pos e] at hn; have := Option.some.inj hn; subst this; rw [e]; exact hrk k hk
    · rw [if_neg e] at hn; exact hg.ranked n h' hn k hk
  · intro n h' hn k hk
    rw [get?_set gs name n g g' hget] at hn
    by_cases e : n = name
    · rw [if_pos e] at hn; have := Option.some.inj hn; subst this; exact hkeep.1 k hk
    · rw [if_neg e] at hn; exact hg.nonsing n h' hn k hk
  · intro n h' hn c hc
    rw [get?_set gs name n g g' hget] at hn
    by_cases e : n = name
    · rw [if_pos e] at hn; have := Option.some.inj hn; subst this; exact hkeep.2 c hc
    · rw [if_neg e] at hn; exact hg.invol n h' hn c hc

/-- two glyph sets draw the same: same keys, and for every name the two glyphs render (under any transform,
    with enough fuel) permutations of each other -/
def SameRender (rank : String → Nat) (a b : GlyphSet) : Prop :=
  ∀ n, (a.get? n).isSome = (b.get? n).isSome ∧
    ∀ ga gb, a.get? n = some ga → b.get? n = some gb →
      ∀ S f, S.det ≠ 0 → rank n < f → (render f a S ga).Perm (render f b S gb)

/-- **Theorem C (one step)**: decomposing one glyph of the set in place (any include set, nested or not) leaves
    what EVERY glyph of the set draws unchanged. -/
theorem decompose_set_sameRender (gs : GlyphSet) (rank : String → Nat) (hg : Good gs rank) (nested : Bool)
    (incl : Option (List String)) (name : String) (g g' : Glyph) (hget : gs.get? name = some g)
    (h : decomposeGlyph gs nested incl g = .ok g') : SameRender rank (gs.set name g') gs := by
  have hrk := decomposeGlyph_rank gs rank hg.ranked nested incl g g' (rank name) (hg.ranked name g hget) h
  have heq : ∀ S f, S.det ≠ 0 → rank name < f → (render f gs S g').Perm (render f gs S g) := by
    intro S f hS hf
    obtain ⟨f', rfl⟩ : ∃ x, f = x + 1 := ⟨f - 1, by omega⟩
    exact decomposeGlyph_render gs rank hg nested incl g g' (hg.nonsing name g hget) h S hS f'
      (fun k hk => by have := hg.ranked name g hget k hk; omega)
  intro n
  constructor
  · rw [get?_set gs name n g g' hget]
    by_cases e : n = name
    · rw [if_pos e, e, hget]; rfl
    · rw [if_neg e]
  · intro ga gb ha hb S f hS hf
    rw [get?_set gs name n g g' hget] at ha
    obtain ⟨f', rfl⟩ : ∃ x, f = x + 1 := ⟨f - 1, by omega⟩
    have hkeep := decompose_set_good gs rank hg nested incl name g g' hget h
    have hns' : ∀ k ∈ g'.comps, k.t.det ≠ 0 := by
      intro k hk
      have : (gs.set name g').get? name = some g' := by rw [get?_set gs name name g g' hget]; simp
      exact hkeep.nonsing name g' this k hk
    have B := set_preserves_render gs rank hg.ranked hg.nonsing name g g' hget hrk hns' heq
    by_cases e : n = name
    · rw [if_pos e] at ha
      have := Option.some.inj ha; subst this
      have hgb : gb = g := by rw [e, hget] at hb; exact (Option.some.inj hb).symm
      subst hgb
      refine Perm.trans ?_ (heq S (f' + 1) hS (by rw [← e]; exact hf))
      rw [render_succ, render_succ]
      refine Perm.append_left _ ?_
      exact B (rank name) g'.comps S f' hrk hns' hS (by rw [← e]; omega)
    · rw [if_neg e] at ha
      have hgb : gb = ga := by rw [ha] at hb; exact (Option.some.inj hb).symm
      subst hgb
      rw [render_succ, render_succ]
      refine Perm.append_left _ ?_
      exact B (rank n) gb.comps S f' (hg.ranked n gb ha) (hg.nonsing n gb ha) hS (by omega)

end Ufo2ft

namespace Ufo2ft
open List

/-- dict keys are the glyph names -/
def Named (gs : GlyphSet) : Prop := ∀ n g, gs.get? n = some g → g.name = n

theorem SameRender.refl (rank : String → Nat) (a : GlyphSet) : SameRender rank a a := by
  intro n
  refine ⟨rfl, ?_⟩
  intro ga gb ha hb S f _ _
  rw [ha] at hb; rw [Option.some.inj hb]

theorem SameRender.trans {rank : String → Nat} {a b c : GlyphSet}
    (h1 : SameRender rank a b) (h2 : SameRender rank b c) : SameRender rank a c := by
  intro n
  obtain ⟨e1, p1⟩ := h1 n
  obtain ⟨e2, p2⟩ := h2 n
  refine ⟨e1.trans e2, ?_⟩
  intro ga gc ha hc S f hS hf
  cases hb : b.get? n with
  | none => rw [ha, hb] at e1; cases e1
  | some gb => exact (p1 ga gb ha hb S f hS hf).trans (p2 gb gc hb hc S f hS hf)

/-- a filter step that either leaves the glyph set alone or decomposes the visited glyph in place -/
def IsDecompStep (step : FState → Glyph → Except GErr (FState × Bool)) : Prop :=
  ∀ st g st' r, step st g = .ok (st', r) →
    st'.gs = st.gs ∨ ∃ nested incl g', decomposeGlyph st.gs nested incl g = .ok g' ∧ st'.gs = st.gs.set g.name g'

theorem decomposeStep_isDecomp : IsDecompStep decomposeStep := by
  intro st g st' r h
  unfold decomposeStep at h
  by_cases he : g.comps.isEmpty = true
  · rw [if_pos he] at h; have := Except.ok.inj h; left; rw [← (Prod.mk.inj this).1]
  · rw [if_neg he] at h
    cases hd : decomposeGlyph st.gs true none g with
    | error e => rw [hd] at h; cases h
    | ok g' =>
      rw [hd] at h
      have := Except.ok.inj h
      right; exact ⟨true, none, g', hd, by rw [← (Prod.mk.inj this).1]⟩

theorem decomposeTransformedStep_isDecomp : IsDecompStep decomposeTransformedStep := by
  intro st g st' r h
  unfold decomposeTransformedStep at h
  by_cases he : g.comps.any isTransformed = true
  · rw [if_pos he] at h; exact decomposeStep_isDecomp st g st' r h
  · rw [if_neg he] at h; have := Except.ok.inj h; left; rw [← (Prod.mk.inj this).1]

theorem skipExportStep_isDecomp (skip : List String) : IsDecompStep (skipExportStep skip) := by
  intro st g st' r h
  unfold skipExportStep at h
  by_cases he : (g.comps.isEmpty || !(g.comps.any (fun k => skip.contains k.base))) = true
  · rw [if_pos he] at h; have := Except.ok.inj h; left; rw [← (Prod.mk.inj this).1]
  · rw [if_neg he] at h
    cases hd : decomposeGlyph st.gs false (some skip) g with
    | error e => rw [hd] at h; cases h
    | ok g' =>
      rw [hd] at h
      have := Except.ok.inj h
      right; exact ⟨false, some skip, g', hd, by rw [← (Prod.mk.inj this).1]⟩

theorem decomposeGlyph_name (gs : GlyphSet) (nested : Bool) (incl : Option (List String)) (g g' : Glyph)
    (h : decomposeGlyph gs nested incl g = .ok g') : g'.name = g.name := by
  unfold decomposeGlyph at h
  cases hd : addComps (gs.length + 1) gs true nested incl Affine.id g.comps with
  | error e => rw [hd] at h; cases h
  | ok d => rw [hd] at h; have := Except.ok.inj h; subst this; rfl

theorem named_set (gs : GlyphSet) (hn : Named gs) (name : String) (g g' : Glyph) (hget : gs.get? name = some g)
    (hname : g'.name = name) : Named (gs.set name g') := by
  intro n h hh
  rw [get?_set gs name n g g' hget] at hh
  by_cases e : n = name
  · rw [if_pos e] at hh; have := Option.some.inj hh; subst this; rw [hname, e]
  · rw [if_neg e] at hh; exact hn n h hh

/-- a filter step that keeps the glyph set well-formed and keeps every glyph's drawing -/
def StepOK (rank : String → Nat) (step : FState → Glyph → Except GErr (FState × Bool)) : Prop :=
  ∀ st g st' r, step st g = .ok (st', r) → st.gs.get? g.name = some g → Good st.gs rank → Named st.gs →
    Good st'.gs rank ∧ Named st'.gs ∧ SameRender rank st'.gs st.gs

theorem stepOK_of_isDecomp (rank : String → Nat) (step : FState → Glyph → Except GErr (FState × Bool))
    (hstep : IsDecompStep step) : StepOK rank step := by
  intro st g st1 r hs hget hg hn
  rcases hstep st g st1 r hs with e | ⟨nested, incl', g', hd, e⟩
  · rw [e]; exact ⟨hg, hn, SameRender.refl rank _⟩
  · rw [e]
    exact ⟨decompose_set_good st.gs rank hg nested incl' g.name g g' hget hd,
      named_set st.gs hn g.name g g' hget (decomposeGlyph_name st.gs nested incl' g g' hd),
      decompose_set_sameRender st.gs rank hg nested incl' g.name g g' hget hd⟩

/-- **Theorem C — the whole traversal.**  Whatever the visiting order (the list is arbitrary: depth-ordered, with the
    measured depth under-count, or any other), whatever the include predicate, and whichever render-preserving step is
    used (full / transformed-only decomposition, skip-export with nested=False, flattening): the resulting glyph set is
    again well-formed and every glyph draws what it drew before. -/
theorem filterLoop_sameRender (step : FState → Glyph → Except GErr (FState × Bool)) (rank : String → Nat)
    (hstep : StepOK rank step) (incl : String → Bool) :
    ∀ (order : List String) (st st' : FState), filterLoop step incl order st = .ok st' →
      Good st.gs rank → Named st.gs →
      Good st'.gs rank ∧ Named st'.gs ∧ SameRender rank st'.gs st.gs := by
  intro order
  induction order with
  | nil =>
    intro st st' h hg hn
    simp only [filterLoop] at h
    have := Except.ok.inj h; subst this
    exact ⟨hg, hn, SameRender.refl rank _⟩
  | cons n ns ih =>
    intro st st' h hg hn
    unfold filterLoop at h
    by_cases hm : st.modified.contains n = true
    · rw [if_pos hm] at h; exact ih st st' h hg hn
    · rw [if_neg hm] at h
      cases hget : st.gs.get? n with
      | none => rw [hget] at h; cases h
      | some g =>
        rw [hget] at h
        dsimp only at h
        by_cases hi : incl n = true
        · rw [if_pos hi] at h
          cases hs : step st g with
          | error e => rw [hs] at h; cases h
          | ok res =>
            obtain ⟨st1, r⟩ := res
            rw [hs] at h
            dsimp only at h
            have hname : g.name = n := hn n g hget
            have key := hstep st g st1 r hs (by rw [hname]; exact hget) hg hn
            by_cases hr : r = true
            · rw [if_pos hr] at h
              have := ih _ st' h key.1 key.2.1
              exact ⟨this.1, this.2.1, this.2.2.trans key.2.2⟩
            · rw [if_neg hr] at h
              have := ih _ st' h key.1 key.2.1
              exact ⟨this.1, this.2.1, this.2.2.trans key.2.2⟩
        · rw [if_neg hi] at h; exact ih st st' h hg hn

/-- **C15 / C01 / C02 / C13 corollary**: running DecomposeComponentsFilter, DecomposeTransformedComponentsFilter or
    the decomposition phase of SkipExportGlyphsFilter over a well-formed glyph set changes no glyph's drawing. -/
theorem runFilter_sameRender (step : FState → Glyph → Except GErr (FState × Bool)) (rank : String → Nat)
    (hstep : StepOK rank step) (incl : String → Bool) (gs : GlyphSet) (st : FState)
    (h : runFilter step incl gs = .ok st) (hg : Good gs rank) (hn : Named gs) :
    Good st.gs rank ∧ Named st.gs ∧ SameRender rank st.gs gs := by
  unfold runFilter at h
  cases ho : orderedGlyphs gs with
  | error e => rw [ho] at h; cases h
  | ok order =>
    rw [ho] at h
    exact filterLoop_sameRender step rank hstep incl order ⟨gs, [], []⟩ st h hg hn

end Ufo2ft
