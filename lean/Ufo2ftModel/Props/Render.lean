import Ufo2ftModel.Props.Geom
/-!
Render preservation: decomposing components (fully, partially, nested or not, in any order) never changes what any
glyph of the set draws.  Shared by C01, C02, C13, C15.
-/
namespace Ufo2ft
open List

/-! ### glyph-set lookups -/

theorem alookup_map_set (gs : GlyphSet) (n m : String) (g' : Glyph) :
    alookup m (gs.map (fun e => if e.1 == n then (n, g') else e)) =
      if m = n then (alookup n gs).map (fun _ => g') else alookup m gs := by
  induction gs with
  | nil => simp [alookup]
  | cons e gs ih =>
    obtain ⟨k, v⟩ := e
    simp only [List.map_cons, beq_iff_eq] at ih ⊢
    by_cases hk : k = n
    · subst hk
      by_cases hm : m = k
      · subst hm; simp [alookup]
      · have h2 : ¬ k = m := fun e => hm e.symm
        simp only [alookup, beq_iff_eq, if_true, h2, if_false, hm, ih]
    · by_cases hm : m = n
      · subst hm
        simp only [alookup, beq_iff_eq, hk, if_false, if_true, ih]
      · simp only [alookup, beq_iff_eq, hk, if_false, hm, ih]

theorem get?_set (gs : GlyphSet) (n m : String) (g g' : Glyph) (h : gs.get? n = some g) :
    (gs.set n g').get? m = if m = n then some g' else gs.get? m := by
  unfold GlyphSet.get? GlyphSet.set at *
  rw [alookup_map_set]
  by_cases hm : m = n
  · simp [hm, h]
  · simp [hm]

theorem flatMap_congr' {α β} {f g : α → List β} {l : List α} (h : ∀ a ∈ l, f a = g a) :
    l.flatMap f = l.flatMap g := by
  induction l with
  | nil => rfl
  | cons a l ih =>
    simp only [List.flatMap_cons]
    rw [h a mem_cons_self, ih (fun b hb => h b (mem_cons_of_mem _ hb))]

theorem perm_flatMap_left {α β} {f g : α → List β} {l : List α} (h : ∀ a ∈ l, (f a).Perm (g a)) :
    (l.flatMap f).Perm (l.flatMap g) := by
  induction l with
  | nil => exact Perm.refl _
  | cons a l ih =>
    simp only [List.flatMap_cons]
    exact Perm.append (h a mem_cons_self) (ih (fun b hb => h b (mem_cons_of_mem _ hb)))

/-! ### render as a flatMap -/

def renderOne (f : Nat) (gs : GlyphSet) (t : Affine) (k : Comp) : List Contour :=
  match gs.get? k.base with
  | some b => render f gs (t.compose k.t) b
  | none => []

theorem renderComps_eq (f : Nat) (gs : GlyphSet) (t : Affine) (ks : List Comp) :
    renderComps f gs t ks = ks.flatMap (renderOne f gs t) := by
  induction ks with
  | nil => simp [renderComps]
  | cons k ks ih =>
    simp only [renderComps, List.flatMap_cons, ih, renderOne]
    cases gs.get? k.base <;> rfl

theorem render_succ (f : Nat) (gs : GlyphSet) (t : Affine) (g : Glyph) :
    render (f + 1) gs t g = drawContours true t g.contours ++ g.comps.flatMap (renderOne f gs t) := by
  rw [render, renderComps_eq]; simp [drawContours]

/-! ### ranked (acyclic) glyph sets and fuel independence -/

/-- an acyclicity witness: every component's base has a smaller rank than its user -/
def Ranked (gs : GlyphSet) (rank : String → Nat) : Prop :=
  ∀ n g, gs.get? n = some g → ∀ k ∈ g.comps, rank k.base < rank n

theorem render_fuel (gs : GlyphSet) (rank : String → Nat) (hr : Ranked gs rank) :
    ∀ (r : Nat) (g : Glyph) (t : Affine) (f1 f2 : Nat), (∀ k ∈ g.comps, rank k.base < r) → r < f1 → r < f2 →
      render f1 gs t g = render f2 gs t g := by
  intro r
  induction r using Nat.strongRecOn with
  | _ r ih =>
    intro g t f1 f2 hb h1 h2
    obtain ⟨f1', rfl⟩ : ∃ x, f1 = x + 1 := ⟨f1 - 1, by omega⟩
    obtain ⟨f2', rfl⟩ : ∃ x, f2 = x + 1 := ⟨f2 - 1, by omega⟩
    rw [render_succ, render_succ]
    congr 1
    apply flatMap_congr'
    intro k hk
    unfold renderOne
    cases hbase : gs.get? k.base with
    | none => rfl
    | some b =>
      have hlt := hb k hk
      exact ih (rank k.base) hlt b _ f1' f2' (hr k.base b hbase) (by omega) (by omega)

end Ufo2ft

namespace Ufo2ft
open List

/-- what the theorems assume of a glyph set: acyclic (ranked), all component matrices non-singular, and reversal an
    involution on its contours (true of closed contours; checked by the driver on every generated contour) -/
structure Good (gs : GlyphSet) (rank : String → Nat) : Prop where
  ranked : Ranked gs rank
  nonsing : ∀ n g, gs.get? n = some g → ∀ k ∈ g.comps, k.t.det ≠ 0
  invol : ∀ n g, gs.get? n = some g → ∀ c ∈ g.contours, reverseContour (reverseContour c) = c

theorem drawContours_append (rf : Bool) (t : Affine) (a b : List Contour) :
    drawContours rf t (a ++ b) = drawContours rf t a ++ drawContours rf t b := by
  simp [drawContours]

/-- statement about one `addComponent` call of the decomposing pen -/
def PenOne (gs : GlyphSet) (rank : String → Nat) (nested : Bool) (fuel : Nat) : Prop :=
  ∀ incl base t D, addComp fuel gs true nested incl base t = .ok D → t.det ≠ 0 →
    ∀ S f, S.det ≠ 0 → rank base < f →
      (drawContours true S D.contours ++ D.comps.flatMap (renderOne f gs S)).Perm (renderOne f gs S ⟨base, t⟩)

/-- statement about the nested components of a base -/
def PenMany (gs : GlyphSet) (rank : String → Nat) (nested : Bool) (fuel : Nat) : Prop :=
  ∀ incl t ks D, addComps fuel gs true nested incl t ks = .ok D → t.det ≠ 0 → (∀ k ∈ ks, k.t.det ≠ 0) →
    ∀ S f, S.det ≠ 0 → (∀ k ∈ ks, rank k.base < f) →
      (drawContours true S D.contours ++ D.comps.flatMap (renderOne f gs S)).Perm
        (ks.flatMap (fun k => renderOne f gs S ⟨k.base, t.compose k.t⟩))

theorem det_compose_ne {s t : Affine} (hs : s.det ≠ 0) (ht : t.det ≠ 0) : (s.compose t).det ≠ 0 := by
  rw [Affine.det_compose]
  intro h
  rcases Rat.mul_eq_zero.mp h with h | h
  · exact hs h
  · exact ht h

theorem penMany_of_penOne (gs : GlyphSet) (rank : String → Nat) (nested : Bool) (fuel : Nat)
    (h1 : PenOne gs rank nested fuel) : PenMany gs rank nested fuel := by
  intro incl t ks
  induction ks with
  | nil =>
    intro D hD _ _ S f _ _
    simp only [addComps] at hD
    cases hD
    simp [drawContours]
  | cons k ks ih =>
    intro D hD ht hks S f hS hrank
    simp only [addComps] at hD
    cases hk : addComp fuel gs true nested incl k.base (t.compose k.t) with
    | error e => rw [hk] at hD; cases hD
    | ok d =>
      rw [hk] at hD
      cases hr : addComps fuel gs true nested incl t ks with
      | error e => rw [hr] at hD; cases hD
      | ok d' =>
        rw [hr] at hD
        have hD' := Except.ok.inj hD
        subst hD'
        have p1 := h1 incl k.base (t.compose k.t) d hk
          (det_compose_ne ht (hks k mem_cons_self)) S f hS (hrank k mem_cons_self)
        have p2 := ih d' hr ht (fun k' hk' => hks k' (mem_cons_of_mem _ hk')) S f hS
          (fun k' hk' => hrank k' (mem_cons_of_mem _ hk'))
        simp only [Drawn.append, drawContours_append, List.flatMap_append, List.flatMap_cons]
        -- (A1 ++ A2) ++ (C1 ++ C2) ~ (A1 ++ C1) ++ (A2 ++ C2)
        refine Perm.trans ?_ (Perm.append p1 p2)
        simp only [List.append_assoc]
        refine Perm.append_left _ ?_
        rw [← List.append_assoc, ← List.append_assoc]
        exact Perm.append_right _ perm_append_comm

theorem penOne_succ (gs : GlyphSet) (rank : String → Nat) (hg : Good gs rank) (nested : Bool) (fuel : Nat)
    (h2 : PenMany gs rank nested fuel) : PenOne gs rank nested (fuel + 1) := by
  intro incl base t D hD ht S f hS hrank
  unfold addComp at hD
  by_cases hi : isIncluded incl base = true
  · -- included: the base is drawn through the pens
    rw [if_pos hi] at hD
    cases hb : gs.get? base with
    | none => rw [hb] at hD; cases hD
    | some b =>
      rw [hb] at hD
      dsimp only at hD
      cases hd : addComps fuel gs true nested (inclNested nested incl) t b.comps with
      | error e => rw [hd] at hD; cases hD
      | ok d =>
        rw [hd] at hD
        have hD' := Except.ok.inj hD
        subst hD'
        obtain ⟨f', rfl⟩ : ∃ x, f = x + 1 := ⟨f - 1, by omega⟩
        have hbk : ∀ k ∈ b.comps, k.t.det ≠ 0 := hg.nonsing base b hb
        have hbr : ∀ k ∈ b.comps, rank k.base < rank base := hg.ranked base b hb
        have p := h2 _ t b.comps d hd ht hbk S (f' + 1) hS (fun k hk => by have := hbr k hk; omega)
        simp only [renderOne, hb, render_succ, drawContours_append]
        rw [bake S t hS ht b.contours (hg.invol base b hb), List.append_assoc]
        refine Perm.append_left _ (p.trans (Perm.of_eq ?_))
        apply flatMap_congr'
        intro k hk
        simp only [renderOne]
        cases hkb : gs.get? k.base with
        | none => rfl
        | some b' =>
          simp only [Affine.compose_assoc]
          exact render_fuel gs rank hg.ranked (rank k.base) b' _ (f' + 1) f'
            (hg.ranked k.base b' hkb) (by have := hbr k hk; omega) (by have := hbr k hk; omega)
  · -- not included: passed through as a component
    rw [if_neg hi] at hD
    have hD' := Except.ok.inj hD
    subst hD'
    simp [drawContours]

/-- **pen = spec renderer**: whatever `DecomposingFilterPointPen` (any include set, nested or not) turns a component into
    — contours plus passed-through components — draws exactly what the component drew. -/
theorem pen_render (gs : GlyphSet) (rank : String → Nat) (hg : Good gs rank) (nested : Bool) :
    ∀ fuel, PenOne gs rank nested fuel ∧ PenMany gs rank nested fuel := by
  intro fuel
  induction fuel with
  | zero =>
    have h0 : PenOne gs rank nested 0 := by
      intro incl base t D hD; simp only [addComp] at hD; cases hD
    exact ⟨h0, penMany_of_penOne gs rank nested 0 h0⟩
  | succ n ih =>
    have h1 := penOne_succ gs rank hg nested n ih.2
    exact ⟨h1, penMany_of_penOne gs rank nested (n + 1) h1⟩

end Ufo2ft

namespace Ufo2ft
open List

/-- passed-through components refer to (transitive) bases of the drawn component: their rank is bounded by it -/
def RankOne (gs : GlyphSet) (rank : String → Nat) (nested : Bool) (fuel : Nat) : Prop :=
  ∀ incl base t D, addComp fuel gs true nested incl base t = .ok D → ∀ k ∈ D.comps, rank k.base ≤ rank base
def RankMany (gs : GlyphSet) (rank : String → Nat) (nested : Bool) (fuel : Nat) : Prop :=
  ∀ incl t ks D, addComps fuel gs true nested incl t ks = .ok D → ∀ k ∈ D.comps, ∃ k' ∈ ks, rank k.base ≤ rank k'.base

theorem rankMany_of_rankOne (gs : GlyphSet) (rank : String → Nat) (nested : Bool) (fuel : Nat)
    (h1 : RankOne gs rank nested fuel) : RankMany gs rank nested fuel := by
  intro incl t ks
  induction ks with
  | nil => intro D hD k hk; simp only [addComps] at hD; cases hD; cases hk
  | cons k0 ks ih =>
    intro D hD k hk
    simp only [addComps] at hD
    cases h0 : addComp fuel gs true nested incl k0.base (t.compose k0.t) with
    | error e => rw [h0] at hD; cases hD
    | ok d =>
      rw [h0] at hD
      cases hr : addComps fuel gs true nested incl t ks with
      | error e => rw [hr] at hD; cases hD
      | ok d' =>
        rw [hr] at hD
        have hD' := Except.ok.inj hD
        subst hD'
        simp only [Drawn.append, mem_append] at hk
        rcases hk with hk | hk
        · exact ⟨k0, mem_cons_self, h1 incl k0.base _ d h0 k hk⟩
        · obtain ⟨k', hk', hle⟩ := ih d' hr k hk
          exact ⟨k', mem_cons_of_mem _ hk', hle⟩

theorem rankOne_succ (gs : GlyphSet) (rank : String → Nat) (hr : Ranked gs rank) (nested : Bool) (fuel : Nat)
    (h2 : RankMany gs rank nested fuel) : RankOne gs rank nested (fuel + 1) := by
  intro incl base t D hD k hk
  unfold addComp at hD
  by_cases hi : isIncluded incl base = true
  · rw [if_pos hi] at hD
    cases hb : gs.get? base with
    | none => rw [hb] at hD; cases hD
    | some b =>
      rw [hb] at hD
      dsimp only at hD
      cases hd : addComps fuel gs true nested (inclNested nested incl) t b.comps with
      | error e => rw [hd] at hD; cases hD
      | ok d =>
        rw [hd] at hD
        have hD' := Except.ok.inj hD
        subst hD'
        obtain ⟨k', hk', hle⟩ := h2 _ t b.comps d hd k hk
        have := hr base b hb k' hk'
        omega
  · rw [if_neg hi] at hD
    have hD' := Except.ok.inj hD
    subst hD'
    simp only [mem_singleton] at hk
    subst hk
    exact Nat.le_refl _

theorem pen_rank (gs : GlyphSet) (rank : String → Nat) (hr : Ranked gs rank) (nested : Bool) :
    ∀ fuel, RankOne gs rank nested fuel ∧ RankMany gs rank nested fuel := by
  intro fuel
  induction fuel with
  | zero =>
    have h0 : RankOne gs rank nested 0 := by
      intro incl base t D hD; simp only [addComp] at hD; cases hD
    exact ⟨h0, rankMany_of_rankOne gs rank nested 0 h0⟩
  | succ n ih =>
    have h1 := rankOne_succ gs rank hr nested n ih.2
    exact ⟨h1, rankMany_of_rankOne gs rank nested (n + 1) h1⟩

/-- **Theorem A — decomposing a glyph does not change what it draws.**  For any include set, nested or not: the glyph
    returned by `decomposeCompositeGlyph` renders (under any outer transform) a permutation of what it rendered before. -/
theorem decomposeGlyph_render (gs : GlyphSet) (rank : String → Nat) (hg : Good gs rank) (nested : Bool)
    (incl : Option (List String)) (g g' : Glyph) (hk : ∀ k ∈ g.comps, k.t.det ≠ 0)
    (h : decomposeGlyph gs nested incl g = .ok g') (S : Affine) (hS : S.det ≠ 0) (f : Nat)
    (hf : ∀ k ∈ g.comps, rank k.base < f) :
    (render (f + 1) gs S g').Perm (render (f + 1) gs S g) := by
  unfold decomposeGlyph at h
  cases hd : addComps (gs.length + 1) gs true nested incl Affine.id g.comps with
  | error e => rw [hd] at h; cases h
  | ok d =>
    rw [hd] at h
    have h' := Except.ok.inj h
    subst h'
    have hid : Affine.id.det ≠ 0 := by simp only [Affine.id, Affine.det]; grind
    have p := (pen_render gs rank hg nested (gs.length + 1)).2 incl Affine.id g.comps d hd hid hk S f hS hf
    simp only [render_succ, drawContours_append, List.append_assoc]
    refine Perm.append_left _ (p.trans (Perm.of_eq ?_))
    apply flatMap_congr'
    intro k _
    simp [renderOne, Affine.id_compose]

/-- the components left after decomposition point strictly below the glyph -/
theorem decomposeGlyph_rank (gs : GlyphSet) (rank : String → Nat) (hr : Ranked gs rank) (nested : Bool)
    (incl : Option (List String)) (g g' : Glyph) (r : Nat) (hk : ∀ k ∈ g.comps, rank k.base < r)
    (h : decomposeGlyph gs nested incl g = .ok g') : ∀ k ∈ g'.comps, rank k.base < r := by
  unfold decomposeGlyph at h
  cases hd : addComps (gs.length + 1) gs true nested incl Affine.id g.comps with
  | error e => rw [hd] at h; cases h
  | ok d =>
    rw [hd] at h
    have h' := Except.ok.inj h
    subst h'
    intro k hkm
    obtain ⟨k', hk', hle⟩ := (pen_rank gs rank hr nested (gs.length + 1)).2 incl Affine.id g.comps d hd k hkm
    have := hk k' hk'
    omega

/-- **Theorem B — replacing a glyph by a render-equivalent one changes no glyph's drawing.**
    If `g'` (whose components still point below `name`) draws what `g = gs[name]` drew, then in `gs.set name g'`
    every component list draws what it drew in `gs`. -/
theorem set_preserves_render (gs : GlyphSet) (rank : String → Nat) (hr : Ranked gs rank)
    (name : String) (g g' : Glyph) (hget : gs.get? name = some g)
    (hrank' : ∀ k ∈ g'.comps, rank k.base < rank name)
    (heq : ∀ S f, rank name < f → (render f gs S g').Perm (render f gs S g)) :
    ∀ (r : Nat) (ks : List Comp) (S : Affine) (f : Nat), (∀ k ∈ ks, rank k.base < r) → r ≤ f →
      (ks.flatMap (renderOne f (gs.set name g') S)).Perm (ks.flatMap (renderOne f gs S)) := by
  intro r
  induction r using Nat.strongRecOn with
  | _ r ih =>
    intro ks S f hks hrf
    apply perm_flatMap_left
    intro k hk
    have hlt := hks k hk
    unfold renderOne
    rw [get?_set gs name k.base g g' hget]
    obtain ⟨f', rfl⟩ : ∃ x, f = x + 1 := ⟨f - 1, by omega⟩
    by_cases hn : k.base = name
    · rw [if_pos hn]
      have hgk : gs.get? k.base = some g := by rw [hn]; exact hget
      rw [hgk]
      dsimp only
      refine Perm.trans ?_ (heq (S.compose k.t) (f' + 1) (by rw [← hn]; omega))
      rw [render_succ, render_succ]
      refine Perm.append_left _ ?_
      exact ih (rank name) (by rw [← hn]; exact hlt) g'.comps _ f' hrank' (by rw [← hn]; omega)
    · rw [if_neg hn]
      cases hb : gs.get? k.base with
      | none => exact Perm.refl _
      | some b =>
        dsimp only
        rw [render_succ, render_succ]
        refine Perm.append_left _ ?_
        exact ih (rank k.base) hlt b.comps _ f' (hr k.base b hb) (by omega)

end Ufo2ft
