import Ufo2ftModel.Props.C06Lists
/-! C06, part 3: _makeMarkClassDefinitions without class-name collisions has a closed form. -/
namespace Ufo2ft.C06
open List

theorem alookup_append_not_mem {ν} (k : String) (l₁ l₂ : List (String × ν)) (h : ∀ e ∈ l₁, e.1 ≠ k) :
    alookup k (l₁ ++ l₂) = alookup k l₂ := by
  induction l₁ with
  | nil => rfl
  | cons e l ih =>
    obtain ⟨k', v⟩ := e
    have hne : k' ≠ k := h (k', v) (by simp)
    simp only [cons_append, alookup, beq_iff_eq, hne, if_false]
    exact ih (fun e he => h e (by simp [he]))

theorem alookup_none_of_not_mem {ν} (k : String) (l : List (String × ν)) (h : ∀ e ∈ l, e.1 ≠ k) : alookup k l = none := by
  have := alookup_append_not_mem k l [] h
  simpa [alookup] using this

theorem alookup_some_mem {ν} {k : String} {l : List (String × ν)} {v : ν} (h : alookup k l = some v) : (k, v) ∈ l := by
  induction l with
  | nil => simp [alookup] at h
  | cons e l ih =>
    obtain ⟨k', v'⟩ := e
    simp only [alookup] at h
    split at h
    · rename_i hk; simp only [Option.some.injEq] at h; subst h; rw [beq_iff_eq] at hk; subst hk; simp
    · simp [ih h]

theorem alookup_of_mem_nodup {ν} {k : String} {l : List (String × ν)} {v : ν} (hn : (l.map (·.1)).Nodup) (h : (k, v) ∈ l) :
    alookup k l = some v := by
  induction l with
  | nil => simp at h
  | cons e l ih =>
    obtain ⟨k', v'⟩ := e
    simp only [map_cons, nodup_cons] at hn
    simp only [alookup]
    rcases mem_cons.mp h with h | h
    · cases h; simp
    · have : k' ≠ k := by
        intro e; subst e; exact hn.1 (mem_map.mpr ⟨(k', v), h, rfl⟩)
      simp only [beq_iff_eq, this, if_false]
      exact ih hn.2 h

/-- the MarkClassDefinition made from a mark anchor -/
def recOf (gm : String × NA) : MarkRec := ⟨gm.1, otRound gm.2.x, otRound gm.2.y⟩

theorem defineMarkClass_new (r : MarkRec) (cn : String) (cl : Classes) (h : ∀ e ∈ cl, e.1 ≠ cn) :
    defineMarkClass r cn cl = (cl ++ [(cn, [r])], cn) := by
  simp [defineMarkClass, alookup_none_of_not_mem cn cl h]

theorem defineMarkClass_add (r : MarkRec) (cn : String) (cl : Classes) (done : List MarkRec)
    (h : ∀ e ∈ cl, e.1 ≠ cn) (hg : ∀ r' ∈ done, r'.glyph ≠ r.glyph) :
    defineMarkClass r cn (cl ++ [(cn, done)]) = (cl ++ [(cn, done ++ [r])], cn) := by
  have h1 : alookup cn (cl ++ [(cn, done)]) = some done := by
    rw [alookup_append_not_mem cn cl _ h]; simp [alookup]
  have h2 : done.find? (fun r' => r'.glyph == r.glyph) = none := by
    rw [find?_eq_none]; intro r' hr'; simpa using hg r' hr'
  simp only [defineMarkClass, h1, h2, map_append, map_cons, map_nil, beq_self_eq_true, if_true]
  congr 1
  congr 1
  conv => rhs; rw [← map_id cl]
  apply map_congr_left
  intro e he
  have := h e he
  simp [this]

theorem aset_new (k v : String) (d : List (String × String)) (h : ∀ e ∈ d, e.1 ≠ k) : aset k v d = d ++ [(k, v)] := by
  have : d.any (fun e => e.1 == k) = false := by
    rw [any_eq_false]; intro e he; simpa using h e he
  simp [aset, this]

theorem aset_same (k v : String) (d : List (String × String)) (h : ∀ e ∈ d, e.1 ≠ k) :
    aset k v (d ++ [(k, v)]) = d ++ [(k, v)] := by
  have : (d ++ [(k, v)]).any (fun e => e.1 == k) = true := by simp
  simp only [aset, this, if_true, map_append, map_cons, map_nil, beq_self_eq_true]
  congr 1
  conv => rhs; rw [← map_id d]
  apply map_congr_left
  intro e he
  have := h e he
  simp [this]

/-- the loop over one group, entered with a fresh class name and a fresh key -/
theorem defineGroup_fresh (members : List (String × NA)) (cn k : String) (st : ClsState)
    (hne : members ≠ []) (hcn : ∀ e ∈ st.classes, e.1 ≠ cn) (hk : ∀ e ∈ st.keyMap, e.1 ≠ k)
    (hg : (members.map (·.1)).Nodup) (hkey : ∀ gm ∈ members, gm.2.key = k) :
    defineGroup members cn st = (⟨st.classes ++ [(cn, members.map recOf)], st.keyMap ++ [(k, cn)]⟩, cn) := by
  cases members with
  | nil => exact absurd rfl hne
  | cons m0 rest =>
    have key0 : m0.2.key = k := hkey m0 (by simp)
    -- generalised: after `done`, processing `rest`
    have gen : ∀ (rest done : List (String × NA)), (∀ x ∈ done, ∀ y ∈ rest, x.1 ≠ y.1) → (rest.map (·.1)).Nodup →
        (∀ gm ∈ rest, gm.2.key = k) →
        rest.foldl (fun (s : ClsState × String) gm =>
          let r := defineMarkClass ⟨gm.1, otRound gm.2.x, otRound gm.2.y⟩ s.2 s.1.classes
          (⟨r.1, aset gm.2.key r.2 s.1.keyMap⟩, r.2))
          (⟨st.classes ++ [(cn, done.map recOf)], st.keyMap ++ [(k, cn)]⟩, cn) =
        (⟨st.classes ++ [(cn, (done ++ rest).map recOf)], st.keyMap ++ [(k, cn)]⟩, cn) := by
      intro rest
      induction rest with
      | nil => intro done _ _ _; simp
      | cons m rest ih =>
        intro done hd hn hk'
        simp only [foldl_cons]
        have hm : m.2.key = k := hk' m (by simp)
        have hstep := defineMarkClass_add ⟨m.1, otRound m.2.x, otRound m.2.y⟩ cn st.classes (done.map recOf) hcn
          (by intro r' hr'; obtain ⟨x, hx, rfl⟩ := mem_map.mp hr'; exact hd x hx m (by simp))
        simp only [hstep, hm, aset_same k cn st.keyMap hk]
        have e1 : done.map recOf ++ [(⟨m.1, otRound m.2.x, otRound m.2.y⟩ : MarkRec)] = (done ++ [m]).map recOf := by
          simp [recOf]
        rw [e1]
        have := ih (done ++ [m])
          (by
            intro x hx y hy
            rcases mem_append.mp hx with hx | hx
            · exact hd x hx y (by simp [hy])
            · simp only [mem_singleton] at hx; subst hx
              simp only [map_cons, nodup_cons] at hn
              intro e; exact hn.1 (mem_map.mpr ⟨y, hy, e.symm⟩))
          (by simp only [map_cons, nodup_cons] at hn; exact hn.2)
          (fun gm hgm => hk' gm (by simp [hgm]))
        simpa using this
    simp only [defineGroup, foldl_cons]
    have h0 := defineMarkClass_new ⟨m0.1, otRound m0.2.x, otRound m0.2.y⟩ cn st.classes hcn
    simp only [h0, key0, aset_new k cn st.keyMap hk]
    have := gen rest [m0]
      (by
        intro x hx y hy
        simp only [mem_singleton] at hx; subst hx
        simp only [map_cons, nodup_cons] at hg
        intro e; exact hg.1 (mem_map.mpr ⟨y, hy, e.symm⟩))
      (by simp only [map_cons, nodup_cons] at hg; exact hg.2)
      (fun gm hgm => hkey gm (by simp [hgm]))
    simpa [recOf] using this

theorem groupClassName_fresh (members : List (String × NA)) (cn : String) (cl : Classes) (h : ∀ e ∈ cl, e.1 ≠ cn) :
    groupClassName members cn cl = cn := by
  simp [groupClassName, alookup_none_of_not_mem cn cl h]

/-- _makeMarkClassDefinitions when the class names of the groups are pairwise different -/
theorem makeClasses_closed (me : AList) (ns : List String) (K : String → String)
    (hcn : (ns.map (fun n => sanitize ("MC" ++ n))).Nodup) (hK : (ns.map K).Nodup)
    (hgrp : ∀ n ∈ ns, groupOf me n ≠ [] ∧ ((groupOf me n).map (·.1)).Nodup ∧ ∀ gm ∈ groupOf me n, gm.2.key = K n) :
    ns.foldl (fun st n =>
      (defineGroup (groupOf me n) (groupClassName (groupOf me n) (sanitize ("MC" ++ n)) st.classes) st).1) ⟨[], []⟩ =
      ⟨ns.map (fun n => (sanitize ("MC" ++ n), (groupOf me n).map recOf)), ns.map (fun n => (K n, sanitize ("MC" ++ n)))⟩ := by
  have gen : ∀ (rest done : List String), ((done ++ rest).map (fun n => sanitize ("MC" ++ n))).Nodup →
      ((done ++ rest).map K).Nodup →
      (∀ n ∈ rest, groupOf me n ≠ [] ∧ ((groupOf me n).map (·.1)).Nodup ∧ ∀ gm ∈ groupOf me n, gm.2.key = K n) →
      rest.foldl (fun st n =>
        (defineGroup (groupOf me n) (groupClassName (groupOf me n) (sanitize ("MC" ++ n)) st.classes) st).1)
        ⟨done.map (fun n => (sanitize ("MC" ++ n), (groupOf me n).map recOf)), done.map (fun n => (K n, sanitize ("MC" ++ n)))⟩ =
      ⟨(done ++ rest).map (fun n => (sanitize ("MC" ++ n), (groupOf me n).map recOf)),
       (done ++ rest).map (fun n => (K n, sanitize ("MC" ++ n)))⟩ := by
    intro rest
    induction rest with
    | nil => intro done _ _ _; simp
    | cons n rest ih =>
      intro done h1 h2 h3
      simp only [foldl_cons]
      obtain ⟨g1, g2, g3⟩ := h3 n (by simp)
      have hfresh1 : ∀ e ∈ done.map (fun n => (sanitize ("MC" ++ n), (groupOf me n).map recOf)), e.1 ≠ sanitize ("MC" ++ n) := by
        intro e he
        obtain ⟨n', hn', rfl⟩ := mem_map.mp he
        simp only [map_append, map_cons] at h1
        intro e'
        have hd := (nodup_append.mp h1).2.2 _ (mem_map.mpr ⟨n', hn', rfl⟩) (sanitize ("MC" ++ n)) (by simp)
        exact hd e'
      have hfresh2 : ∀ e ∈ done.map (fun n => (K n, sanitize ("MC" ++ n))), e.1 ≠ K n := by
        intro e he
        obtain ⟨n', hn', rfl⟩ := mem_map.mp he
        simp only [map_append, map_cons] at h2
        intro e'
        have hd := (nodup_append.mp h2).2.2 _ (mem_map.mpr ⟨n', hn', rfl⟩) (K n) (by simp)
        exact hd e'
      rw [groupClassName_fresh _ _ _ hfresh1,
        defineGroup_fresh (groupOf me n) (sanitize ("MC" ++ n)) (K n) _ g1 hfresh1 hfresh2 g2 g3]
      have := ih (done ++ [n]) (by simpa using h1) (by simpa using h2) (fun n' hn' => h3 n' (by simp [hn']))
      simpa using this
  have := gen ns [] (by simpa using hcn) (by simpa using hK) hgrp
  simpa using this

end Ufo2ft.C06
