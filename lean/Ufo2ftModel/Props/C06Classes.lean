import Ufo2ftModel.Props.C06Lists
/-! C06, part 3: _makeMarkClassDefinitions without class-name collisions has a closed form. -/
namespace Ufo2ft.C06
open List

theorem alookup_append_not_mem {ν} (k : String) (l₁ l₂ : List (String × ν)) (h : ∀ e ∈ l₁, e.1 ≠ k) :
    alookup k (l₁ ++ l₂) = alookup k l₂ := by
  induction l₁ with
  | nil => rfl
  | cons e l ih =>
    obtain ⟨k', v⟩ := e
    have hne : k' ≠ k := h (k', v) (by simp)
    simp only [cons_append, alookup, beq_iff_eq, hne, if_false]
    exact ih (fun e he => h e (by simp [he]))

theorem alookup_none_of_not_mem {ν} (k : String) (l : List (String × ν)) (h : ∀ e ∈ l, e.1 ≠ k) : alookup k l = none := by
  have := alookup_append_not_mem k l [] h
  simpa [alookup] using this

theorem alookup_some_mem {ν} {k : String} {l : List (String × ν)} {v : ν} (h : alookup k l = some v) : (k, v) ∈ l := by
  induction l with
  | nil => simp [alookup] at h
  | cons e l ih =>
    obtain ⟨k', v'⟩ := e
    simp only [alookup] at h
    split at h
    · rename_i hk; simp only [Option.some.injEq] at h; subst h; rw [beq_iff_eq] at hk; subst hk; simp
    · simp [ih h]

theorem alookup_of_mem_nodup {ν} {k : String} {l : List (String × ν)} {v : ν} (hn : (l.map (·.1)).Nodup) (h : (k, v) ∈ l) :
    alookup k l = some v := by
  induction l with
  | nil => simp at h
  | cons e l ih =>
    obtain ⟨k', v'⟩ := e
    simp only [map_cons, nodup_cons] at hn
    simp only [alookup]
    rcases mem_cons.mp h with h | h
    · cases h; simp
    · have : k' ≠ k := by
        intro e; subst e; exact hn.1 (mem_map.mpr ⟨(k', v), h, rfl⟩)
      simp only [beq_iff_eq, this, if_false]
      exact ih hn.2 h

/-- the MarkClassDefinition made from a mark anchor -/
def recOf (gm : String × NA) : MarkRec := ⟨gm.1, otRound gm.2.x, otRound gm.2.y⟩

theorem defineMarkClass_new (r : MarkRec) (cn : String) (cl : Classes) (h : ∀ e ∈ cl, e.1 ≠ cn) :
    defineMarkClass r cn cl = (cl ++ [(cn, [r])], cn) := by
  simp [defineMarkClass, alookup_none_of_not_mem cn cl h]

theorem defineMarkClass_add (r : MarkRec) (cn : String) (cl : Classes) (done : List MarkRec)
    (h : ∀ e ∈ cl, e.1 ≠ cn) (hg : ∀ r' ∈ done, r'.glyph ≠ r.glyph) :
    defineMarkClass r cn (cl ++ [(cn, done)]) = (cl ++ [(cn, done ++ [r])], cn) := by
  have h1 : alookup cn (cl ++ [(cn, done)]) = some done := by
    rw [alookup_append_not_mem cn cl _ h]; simp [alookup]
  have h2 : done.find? (fun r' => r'.glyph == r.glyph) = none := by
    rw [find?_eq_none]; intro r' hr'; simpa using hg r' hr'
  simp only [defineMarkClass, h1, h2, map_append, map_cons, map_nil, beq_self_eq_true, if_true]
  congr 1
  congr 1
  conv => rhs; rw [← map_id cl]
  apply map_congr_left
  intro e he
  have := h e he
  simp [this]

theorem aset_new (k v : String) (d : List (String × String)) (h : ∀ e ∈ d, e.1 ≠ k) : aset k v d = d ++ [(k, v)] := by
  have : d.any (fun e => e.1 == k) = false := by
    rw [any_eq_false]; intro e he; simpa using h e he
  simp [aset, this]

theorem aset_same (k v : String) (d : List (String × String)) (h : ∀ e ∈ d, e.1 ≠ k) :
    aset k v (d ++ [(k, v)]) = d ++ [(k, v)] := by
  have : (d ++ [(k, v)]).any (fun e => e.1 == k) = true := by simp
  simp only [aset, this, if_true, map_append, map_cons, map_nil, beq_self_eq_true]
  congr 1
  conv => rhs; rw [← map_id d]
  apply map_congr_left
  intro e he
  have := h e he
  simp [this]

/-- the loop over one group, entered with a fresh class name and a fresh key -/
theorem defineGroup_fresh (members : List (String × NA)) (cn k : String) (st : ClsState)
    (hne : members ≠ []) (hcn : ∀ e ∈ st.classes, e.1 ≠ cn) (hk : ∀ e ∈ st.keyMap, e.1 ≠ k)
    (hg : (members.map (·.1)).Nodup) (hkey : ∀ gm ∈ members, gm.2.key = k) :
    defineGroup members cn st = (⟨st.classes ++ [(cn, members.map recOf)], st.keyMap ++ [(k, cn)]⟩, cn) := by
  cases members with
  | nil => exact absurd rfl hne
  | cons m0 rest =>
    have key0 : m0.2.key = k := hkey m0 (by simp)
    -- generalised: after `done`, processing `rest`
    have gen : ∀ (rest done : List (String × NA)), (∀ x ∈ done, ∀ y ∈ rest, x.1 ≠ y.1) → (rest.map (·.1)).Nodup →
        (∀ gm ∈ rest, gm.2.key = k) →
        rest.foldl (fun (s : ClsState × String) gm =>
          let r := defineMarkClass ⟨gm.1, otRound gm.2.x, otRound gm.2.y⟩ s.2 s.1.classes
          (⟨r.1, aset gm.2.key r.2 s.1.keyMap⟩, r.2))
          (⟨st.classes ++ [(cn, done.map recOf)], st.keyMap ++ [(k, cn)]⟩, cn) =
        (⟨st.classes ++ [(cn, (done ++ rest).map recOf)], st.keyMap ++ [(k, cn)]⟩, cn) := by
      intro rest
      induction rest with
      | nil => intro done _ _ _; simp
      | cons m rest ih =>
        intro done hd hn hk'
        simp only [foldl_cons]
        have hm : m.2.key = k := hk' m (by simp)
        have hstep := defineMarkClass_add ⟨m.1, otRound m.2.x, otRound m.2.y⟩ cn st.classes (done.map recOf) hcn
          (by intro r' hr'; obtain ⟨x, hx, rfl⟩ := mem_map.mp hr'; exact hd x hx m (by simp))
        simp only [hstep, hm, aset_same k cn st.keyMap hk]
        have e1 : done.map recOf ++ [(⟨m.1, otRound m.2.x, otRound m.2.y⟩ : MarkRec)] = (done ++ [m]).map recOf := by
          simp [recOf]
        rw [e1]
        have := ih (done ++ [m])
          (by
            intro x hx y hy
            rcases mem_append.mp hx with hx | hx
            · exact hd x hx y (by simp [hy])
            · simp only [mem_singleton] at hx; subst hx
              simp only [map_cons, nodup_cons] at hn
              intro e; exact hn.1 (mem_map.mpr ⟨y, hy, e.symm⟩))
          (by simp only [map_cons, nodup_cons] at hn; exact hn.2)
          (fun gm hgm => hk' gm (by simp [hgm]))
        simpa using this
    simp only [defineGroup, foldl_cons]
    have h0 := defineMarkClass_new ⟨m0.1, otRound m0.2.x, otRound m0.2.y⟩ cn st.classes hcn
    simp only [h0, key0, aset_new k cn st.keyMap hk]
    have := gen rest [m0]
      (by
        intro x hx y hy
        simp only [mem_singleton] at hx; subst hx
        simp only [map_cons, nodup_cons] at hg
        intro e; exact hg.1 (mem_map.mpr ⟨y, hy, e.symm⟩))
      (by simp only [map_cons, nodup_cons] at hg; exact hg.2)
      (fun gm hgm => hkey gm (by simp [hgm]))
    simpa [recOf] using this

theorem groupClassName_fresh (members : List (String × NA)) (cn : String) (cl : Classes) (h : ∀ e ∈ cl, e.1 ≠ cn) :
    groupClassName members cn cl = cn := by
  simp [groupClassName, alookup_none_of_not_mem cn cl h]

/-! ### fresh class names -/

theorem nodup_map_of_injOn' {α β} {f : α → β} {l : List α} (hn : l.Nodup)
    (hinj : ∀ x ∈ l, ∀ y ∈ l, f x = f y → x = y) : (l.map f).Nodup := by
  induction l with
  | nil => simp
  | cons a l ih =>
    simp only [nodup_cons] at hn
    simp only [map_cons, nodup_cons]
    refine ⟨?_, ih hn.2 (fun x hx y hy => hinj x (by simp [hx]) y (by simp [hy]))⟩
    intro hmem
    obtain ⟨b, hb, hfb⟩ := mem_map.mp hmem
    have := hinj b (by simp [hb]) a (by simp) hfb
    subst this; exact hn.1 hb

theorem digitsToNat_append_single (l : List Char) (c : Char) :
    digitsToNat (l ++ [c]) = 10 * digitsToNat l + (c.toNat - 48) := by
  simp [digitsToNat, foldl_append]

/-- reading back the decimal digits of a number gives the number -/
theorem digitsToNat_toDigits (n : Nat) : digitsToNat (Nat.toDigits 10 n) = n := by
  induction n using Nat.strongRecOn with
  | _ n ih =>
    by_cases h : n < 10
    · rw [Nat.toDigits_of_lt_base h]
      simp [digitsToNat, Nat.toNat_digitChar_sub_48_of_lt_ten h]
    · have hle : 10 ≤ n := by omega
      rw [Nat.toDigits_of_base_le (by decide) hle, digitsToNat_append_single, ih (n / 10) (by omega),
        Nat.toNat_digitChar_sub_48_of_lt_ten (Nat.mod_lt _ (by decide))]
      omega

theorem toString_nat_inj {a b : Nat} (h : toString a = toString b) : a = b := by
  have h' : (toString a).toList = (toString b).toList := by rw [h]
  rw [Nat.toString_eq_repr, Nat.toString_eq_repr, Nat.toList_repr, Nat.toList_repr] at h'
  rw [← digitsToNat_toDigits a, ← digitsToNat_toDigits b, h']

theorem length_le_of_nodup_subset {l m : List String} (hn : l.Nodup) (hs : ∀ x ∈ l, x ∈ m) : l.length ≤ m.length := by
  induction l generalizing m with
  | nil => simp
  | cons x l ih =>
    simp only [nodup_cons] at hn
    have hx : x ∈ m := hs x (by simp)
    have := ih hn.2 (m := m.erase x) (fun y hy => by
      have hne : y ≠ x := fun e => hn.1 (e ▸ hy)
      exact (mem_erase_of_ne hne).mpr (hs y (by simp [hy])))
    rw [length_erase_of_mem hx] at this
    have hpos : 0 < m.length := length_pos_of_mem hx
    simp only [length_cons]; omega

/-- the candidate names of the `while name in existing` loop -/
def candName (orig : String) (j : Nat) : String := orig ++ "_" ++ toString j

theorem candName_inj {orig : String} {j j' : Nat} (h : candName orig j = candName orig j') : j = j' := by
  unfold candName at h
  exact toString_nat_inj ((String.append_right_inj _).mp h)

theorem uniqueName_spec (orig : String) (cl : Classes) (f i : Nat) :
    (∀ e ∈ cl, e.1 ≠ uniqueName orig cl f i) ∨ ∀ j, i ≤ j → j < i + f → ∃ e ∈ cl, e.1 = candName orig j := by
  induction f generalizing i with
  | zero => right; intro j h1 h2; omega
  | succ f ih =>
    simp only [uniqueName]
    split
    · rename_i hin
      obtain ⟨e, he, hee⟩ := any_eq_true.mp hin
      rcases ih (i + 1) with h | h
      · exact Or.inl h
      · right
        intro j h1 h2
        by_cases hj : j = i
        · subst hj; exact ⟨e, he, by simpa [candName] using hee⟩
        · exact h j (by omega) (by omega)
    · rename_i hin
      left
      intro e he heq
      exact hin (any_eq_true.mpr ⟨e, he, by simp [heq]⟩)

/-- the loop finds a free name -/
theorem uniqueName_fresh (orig : String) (cl : Classes) : ∀ e ∈ cl, e.1 ≠ uniqueName orig cl (cl.length + 1) 1 := by
  rcases uniqueName_spec orig cl (cl.length + 1) 1 with h | h
  · exact h
  · exfalso
    have hn : ((List.range (cl.length + 1)).map (fun j => candName orig (j + 1))).Nodup := by
      apply nodup_map_of_injOn' nodup_range
      intro x _ y _ hxy
      have := candName_inj hxy; omega
    have hs : ∀ x ∈ (List.range (cl.length + 1)).map (fun j => candName orig (j + 1)), x ∈ cl.map (·.1) := by
      intro x hx
      obtain ⟨j, hj, rfl⟩ := mem_map.mp hx
      obtain ⟨e, he, hee⟩ := h (j + 1) (by omega) (by have := mem_range.mp hj; omega)
      exact mem_map.mpr ⟨e, he, hee⟩
    have := length_le_of_nodup_subset hn hs
    simp only [length_map, length_range] at this
    omega

theorem freshName_fresh_or (cn : String) (cl : Classes) : ∀ e ∈ cl, e.1 ≠ freshName cn cl := by
  unfold freshName
  split
  · exact uniqueName_fresh cn cl
  · rename_i h
    intro e he heq
    exact h (any_eq_true.mpr ⟨e, he, by simp [heq]⟩)

/-- the classes and the key map made of a list of (group name, class name) pairs -/
def classesOfAsg (me : AList) (asg : List (String × String)) : Classes :=
  asg.map (fun p => (p.2, (groupOf me p.1).map recOf))
def kmOfAsg (K : String → String) (asg : List (String × String)) : List (String × String) :=
  asg.map (fun p => (K p.1, p.2))

/-- _makeMarkClassDefinitions without hand-written classes: every group gets a class of its own, under a name that no
    other group has -/
theorem makeClasses_closed (me : AList) (ns : List String) (K : String → String) (hK : (ns.map K).Nodup)
    (hgrp : ∀ n ∈ ns, groupOf me n ≠ [] ∧ ((groupOf me n).map (·.1)).Nodup ∧ ∀ gm ∈ groupOf me n, gm.2.key = K n) :
    ∃ asg : List (String × String), asg.map (·.1) = ns ∧ (asg.map (·.2)).Nodup ∧
      ns.foldl (groupStep me) (⟨[], []⟩, []) = (⟨classesOfAsg me asg, kmOfAsg K asg⟩, asg.map (·.2)) := by
  have gen : ∀ (rest : List String) (done : List (String × String)), (done.map (·.2)).Nodup →
      ((done.map (·.1) ++ rest).map K).Nodup →
      (∀ n ∈ rest, groupOf me n ≠ [] ∧ ((groupOf me n).map (·.1)).Nodup ∧ ∀ gm ∈ groupOf me n, gm.2.key = K n) →
      ∃ asg : List (String × String), asg.map (·.1) = done.map (·.1) ++ rest ∧ (asg.map (·.2)).Nodup ∧
        rest.foldl (groupStep me) (⟨classesOfAsg me done, kmOfAsg K done⟩, done.map (·.2)) =
          (⟨classesOfAsg me asg, kmOfAsg K asg⟩, asg.map (·.2)) := by
    intro rest
    induction rest with
    | nil => intro done h1 _ _; exact ⟨done, by simp, h1, rfl⟩
    | cons n rest ih =>
      intro done h1 h2 h3
      obtain ⟨g1, g2, g3⟩ := h3 n (by simp)
      -- the class name of this group
      generalize hcn : (if (done.map (·.2)).contains (sanitize ("MC" ++ n))
        then freshName (sanitize ("MC" ++ n)) (classesOfAsg me done) else sanitize ("MC" ++ n)) = cn
      have hnames : (classesOfAsg me done).map (·.1) = done.map (·.2) := by simp [classesOfAsg]
      have hfresh : cn ∉ done.map (·.2) := by
        rw [← hcn]
        split
        · intro hm
          rw [← hnames] at hm
          obtain ⟨e, he, hee⟩ := mem_map.mp hm
          exact freshName_fresh_or _ _ e he hee
        · rename_i hc; simpa using hc
      have hfresh1 : ∀ e ∈ classesOfAsg me done, e.1 ≠ cn := by
        intro e he heq
        exact hfresh (by rw [← hnames]; exact mem_map.mpr ⟨e, he, heq⟩)
      have hfresh2 : ∀ e ∈ kmOfAsg K done, e.1 ≠ K n := by
        intro e he heq
        obtain ⟨p, hp, rfl⟩ := mem_map.mp he
        simp only [map_append, map_cons, map_map] at h2
        have hd := (nodup_append.mp h2).2.2 (K p.1) (mem_map.mpr ⟨p, hp, rfl⟩) (K n) (by simp)
        exact hd heq
      have hstep : groupStep me (⟨classesOfAsg me done, kmOfAsg K done⟩, done.map (·.2)) n =
          (⟨classesOfAsg me (done ++ [(n, cn)]), kmOfAsg K (done ++ [(n, cn)])⟩, (done ++ [(n, cn)]).map (·.2)) := by
        unfold groupStep
        simp only [hcn]
        rw [groupClassName_fresh _ _ _ hfresh1, defineGroup_fresh (groupOf me n) cn (K n) _ g1 hfresh1 hfresh2 g2 g3]
        simp [classesOfAsg, kmOfAsg]
      simp only [foldl_cons, hstep]
      obtain ⟨asg, a1, a2, a3⟩ := ih (done ++ [(n, cn)])
        (by
          rw [map_append, nodup_append]
          refine ⟨h1, by simp, ?_⟩
          intro a ha b hb
          simp only [map_cons, map_nil, mem_singleton] at hb
          subst hb; intro e; subst e; exact hfresh ha)
        (by simpa using h2) (fun n' hn' => h3 n' (by simp [hn']))
      exact ⟨asg, by rw [a1]; simp, a2, a3⟩
  obtain ⟨asg, a1, a2, a3⟩ := gen ns [] (by simp) (by simpa using hK) hgrp
  exact ⟨asg, by simpa using a1, a2, by simpa [classesOfAsg, kmOfAsg] using a3⟩

end Ufo2ft.C06
