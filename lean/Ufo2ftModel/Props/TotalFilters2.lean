import Ufo2ftModel.Props.TotalFilters
/-!
TOTALITY, part 3: TransformationsFilter (any matrix, any include predicate) and PropagateAnchorsFilter — the latter
raises exactly in the mark-ligature promotion, when a mark component has no bounds.
-/
namespace Ufo2ft
open List

/-! ### transformations -/

theorem transformBody_name (m minv : Affine) (md : List String) (g : Glyph) : (transformBody m minv md g).name = g.name := rfl

theorem transformBody_bases (m minv : Affine) (md : List String) (g : Glyph) (k : Comp)
    (hk : k ∈ (transformBody m minv md g).comps) : ∃ k0 ∈ g.comps, k.base = k0.base := by
  simp only [transformBody, mem_map] at hk
  obtain ⟨k0, hk0, rfl⟩ := hk
  exact ⟨k0, hk0, rfl⟩

def TransOne (m minv : Affine) (incl : String → Bool) (gs0 : GlyphSet) (rank : String → Nat) (fuel : Nat) : Prop :=
  ∀ st name, Keeps gs0 st.gs → Closed st.gs → Present gs0 name → rank name < fuel →
    ∃ st' r, transformGlyph fuel m minv incl st name = .ok (st', r) ∧ Keeps gs0 st'.gs ∧ Closed st'.gs
def TransMany (m minv : Affine) (incl : String → Bool) (gs0 : GlyphSet) (rank : String → Nat) (fuel : Nat) : Prop :=
  ∀ st ks, Keeps gs0 st.gs → Closed st.gs → (∀ k ∈ ks, Present gs0 k.base ∧ rank k.base < fuel) →
    ∃ st', transformBases fuel m minv incl st ks = .ok st' ∧ Keeps gs0 st'.gs ∧ Closed st'.gs

theorem transMany_of_one (m minv : Affine) (incl : String → Bool) (gs0 : GlyphSet) (rank : String → Nat) (fuel : Nat)
    (h1 : TransOne m minv incl gs0 rank fuel) : TransMany m minv incl gs0 rank fuel := by
  intro st ks
  induction ks generalizing st with
  | nil => intro hk hc _; exact ⟨st, by simp only [transformBases], hk, hc⟩
  | cons k ks ih =>
    intro hk hc hks
    have hks' : ∀ k' ∈ ks, Present gs0 k'.base ∧ rank k'.base < fuel := fun k' hk' => hks k' (mem_cons_of_mem _ hk')
    unfold transformBases
    by_cases hm : st.modified.contains k.base = true
    · rw [if_pos hm]; exact ih st hk hc hks'
    · rw [if_neg hm]
      have hp : Present st.gs k.base := (present_of_names_eq hk.2.2 k.base).mpr (hks k mem_cons_self).1
      unfold Present at hp
      cases hb : st.gs.get? k.base with
      | none => rw [hb] at hp; cases hp
      | some b =>
        dsimp only
        by_cases hi : incl k.base = true
        · rw [if_pos hi]
          obtain ⟨st1, r, h, hk1, hc1⟩ := h1 st k.base hk hc (hks k mem_cons_self).1 (hks k mem_cons_self).2
          rw [h]
          dsimp only
          by_cases hr : r = true
          · rw [if_pos hr]; exact ih _ hk1 hc1 hks'
          · rw [if_neg hr]; exact ih _ hk1 hc1 hks'
        · rw [if_neg hi]; exact ih st hk hc hks'

theorem transOne_succ (m minv : Affine) (incl : String → Bool) (gs0 : GlyphSet) (rank : String → Nat)
    (hr : Ranked gs0 rank) (fuel : Nat) (h2 : TransMany m minv incl gs0 rank fuel) :
    TransOne m minv incl gs0 rank (fuel + 1) := by
  intro st name hk hc hp hlt
  unfold transformGlyph
  have hp1 : Present st.gs name := (present_of_names_eq hk.2.2 name).mpr hp
  unfold Present at hp1
  cases hg : st.gs.get? name with
  | none => rw [hg] at hp1; cases hp1
  | some g =>
    dsimp only
    by_cases hcond : (m == Affine.id || (g.contours.isEmpty && g.comps.isEmpty && g.anchors.isEmpty)) = true
    · rw [if_pos hcond]; exact ⟨st, false, rfl, hk, hc⟩
    · rw [if_neg hcond]
      obtain ⟨st1, h, hk1, hc1⟩ := h2 st g.comps hk hc (fun k hkm =>
        ⟨(present_of_names_eq hk.2.2 k.base).mp (hc name g hg k hkm),
         by have := hk.1 rank hr name g hg k hkm; omega⟩)
      rw [h]
      dsimp only
      have hp2 : Present st1.gs name := (present_of_names_eq hk1.2.2 name).mpr hp
      unfold Present at hp2
      cases hg1 : st1.gs.get? name with
      | none => rw [hg1] at hp2; cases hp2
      | some g1 =>
        dsimp only
        have hname : g1.name = name := hk1.2.1 name g1 hg1
        refine ⟨_, true, rfl, ?_, ?_⟩
        · show Keeps gs0 (st1.gs.set name (transformBody m minv st1.modified g1))
          refine Keeps.set hk1 name g1 _ hg1 (by rw [transformBody_name]; exact hname) ?_
          intro r hr' k hkm
          obtain ⟨k0, hk0, e⟩ := transformBody_bases m minv st1.modified g1 k hkm
          rw [e]; exact hr' name g1 hg1 k0 hk0
        · show Closed (st1.gs.set name (transformBody m minv st1.modified g1))
          refine closed_set st1.gs hc1 name g1 _ hg1 ?_
          intro k hkm
          obtain ⟨k0, hk0, e⟩ := transformBody_bases m minv st1.modified g1 k hkm
          rw [e]; exact hc1 name g1 hg1 k0 hk0

theorem trans_total (m minv : Affine) (incl : String → Bool) (gs0 : GlyphSet) (rank : String → Nat)
    (hr : Ranked gs0 rank) : ∀ fuel, TransOne m minv incl gs0 rank fuel ∧ TransMany m minv incl gs0 rank fuel := by
  intro fuel
  induction fuel with
  | zero =>
    have h0 : TransOne m minv incl gs0 rank 0 := by intro st name _ _ _ h; omega
    exact ⟨h0, transMany_of_one m minv incl gs0 rank 0 h0⟩
  | succ n ih =>
    have h1 := transOne_succ m minv incl gs0 rank hr n ih.2
    exact ⟨h1, transMany_of_one m minv incl gs0 rank (n + 1) h1⟩

/-- **`runFilter_ok` for TransformationsFilter**: for EVERY matrix (singular ones included: the model's `inverse` is then
    junk but total — Python would divide by zero; `C15_transform` assumes a positive determinant) and every include
    predicate the run succeeds on every acyclic closed glyph set with distinct keys equal to the glyph names; the recursion
    over the bases never exhausts `len(glyphSet) + 1`; the result is again closed with the same keys and witnesses. -/
theorem runFilter_transformStep_ok (m : Affine) (p incl : String → Bool) (gs : GlyphSet) (rank : String → Nat)
    (hr : Ranked gs rank) (hn : Named gs) (hnd : gs.names.Nodup) (hc : Closed gs) :
    ∃ st, runFilter (transformStep m p) incl gs = .ok st ∧ Keeps gs st.gs ∧ Closed st.gs := by
  have hr' := normRank_ranked gs rank hr
  have := runFilter_res (transformStep m p) incl (fun gs' => Keeps gs gs' ∧ Closed gs') (fun _ => False) gs rank hr hn hnd
    (fun gs' h => h.1.2.1) (fun gs' h => h.1.2.2)
    (by
      intro st g hi hget _
      left
      unfold transformStep
      have hp : Present gs g.name := by
        rw [← present_of_names_eq hi.1.2.2 g.name]; unfold Present; rw [hget]; rfl
      exact (trans_total m m.inverse p gs (normRank gs rank) hr' (st.gs.length + 1)).1 st g.name hi.1 hi.2 hp
        (by have := normRank_le gs rank g.name; have := hi.1.length; omega))
    ⟨Keeps.refl hn, hc⟩
  rcases this with h | ⟨e, _, he⟩
  · exact h
  · exact absurd he id

/-! ### propagateAnchors -/

variable {bnd : Comp → Option (Q × Q)}

/-- the component lists are those of `gs0` (the filter only appends anchors) -/
def SameComps (gs0 gs : GlyphSet) : Prop := ∀ n g, gs.get? n = some g → ∃ g0, gs0.get? n = some g0 ∧ g.comps = g0.comps

theorem SameComps.refl (gs : GlyphSet) : SameComps gs gs := fun _ g h => ⟨g, h, rfl⟩

theorem SameComps.set {gs0 gs : GlyphSet} (h : SameComps gs0 gs) (n : String) (g g' : Glyph) (hget : gs.get? n = some g)
    (hc : g'.comps = g.comps) : SameComps gs0 (gs.set n g') := by
  intro m h' hm
  rw [get?_set gs n m g g' hget] at hm
  by_cases e : m = n
  · rw [if_pos e] at hm; have := Option.some.inj hm; subst this
    obtain ⟨g0, hg0, hc0⟩ := h n g hget
    exact ⟨g0, by rw [e]; exact hg0, hc.trans hc0⟩
  · rw [if_neg e] at hm; exact h m h' hm

theorem Keeps.set_sameComps {gs0 gs : GlyphSet} (h : Keeps gs0 gs) (n : String) (g g' : Glyph) (hget : gs.get? n = some g)
    (hname : g'.name = n) (hc : g'.comps = g.comps) : Keeps gs0 (gs.set n g') :=
  h.set n g g' hget hname (fun _ hr k hk => hr n g hget k (hc ▸ hk))

/-- some glyph with a ligature-mark name (`a_b`, not starting with `_`) has a component for which `_bounds` is `None` -/
def BndMissing (bnd : Comp → Option (Q × Q)) (gs0 : GlyphSet) : Prop :=
  ∃ n g0 k, gs0.get? n = some g0 ∧ isLigatureMark n = true ∧ k ∈ g0.comps ∧ bnd k = none

/-- the only error anchor propagation can produce on a well-formed set -/
def PropErr (bnd : Comp → Option (Q × Q)) (gs0 : GlyphSet) (e : GErr) : Prop := e = .exception ∧ BndMissing bnd gs0

/-- **when the mark-ligature promotion raises — precisely**: `promoteSplit` fails iff the promotion branch is entered (there
    are mark components, no base component, and the glyph's name is a ligature-mark name) AND some mark component has no
    bounds; the error is then `Exception` (never the model's unreachable `assertion`s). -/
theorem promoteSplit_error_iff (name : String) (sp0 : PSplit) (e : GErr) :
    promoteSplit bnd name sp0 = .error e ↔
      e = .exception ∧ PromoCond name sp0 ∧ ∃ kb ∈ sp0.markComps, bnd kb.1 = none := by
  by_cases hc : PromoCond name sp0
  · constructor
    · intro h
      by_cases hex : ∃ kb ∈ sp0.markComps, bnd kb.1 = none
      · have := (promoteSplit_raises name sp0 hc).mp hex
        rw [this] at h
        exact ⟨(Except.error.inj h).symm, hc, hex⟩
      · exfalso
        unfold promoteSplit at h
        rw [if_pos ((promoCond_iff name sp0).mpr hc)] at h
        cases hk : distKeys bnd sp0.markComps with
        | none => exact hex ((distKeys_none _).mp hk)
        | some keys =>
          rw [hk] at h
          dsimp only at h
          obtain ⟨hlen, _⟩ := distKeys_spec sp0.markComps keys hk
          have hne : keys ≠ [] := by
            intro e'; rw [e'] at hlen
            exact hc.1 (List.length_eq_zero_iff.mp hlen.symm)
          obtain ⟨⟨i, m⟩, hf⟩ := firstMin_isSome keys hne
          rw [hf] at h
          dsimp only at h
          obtain ⟨f1, _, _⟩ := firstMin_spec keys i m hf
          have hi : i < sp0.markComps.length := by rw [← hlen]; exact (List.getElem?_eq_some_iff.mp f1).1
          rw [List.getElem?_eq_getElem hi] at h
          cases h
    · rintro ⟨rfl, _, hex⟩
      exact (promoteSplit_raises name sp0 hc).mp hex
  · rw [promoteSplit_unchanged name sp0 hc]
    constructor
    · intro h; cases h
    · rintro ⟨_, h, _⟩; exact absurd h hc

/-- the promotion succeeds whenever every mark component has bounds -/
theorem promoteSplit_ok (name : String) (sp0 : PSplit) (h : ∀ kb ∈ sp0.markComps, bnd kb.1 ≠ none) :
    ∃ sp, promoteSplit bnd name sp0 = .ok sp := by
  cases hp : promoteSplit bnd name sp0 with
  | ok sp => exact ⟨sp, rfl⟩
  | error e =>
    obtain ⟨_, _, kb, hkb, hn⟩ := (promoteSplit_error_iff name sp0 e).mp hp
    exact absurd hn (h kb hkb)

def PropTOne (bnd : Comp → Option (Q × Q)) (marks : List String) (gs0 : GlyphSet) (rank : String → Nat) (fuel : Nat) : Prop :=
  ∀ st name, Keeps gs0 st.gs → SameComps gs0 st.gs → Present gs0 name → rank name < fuel →
    (∃ st', propagate fuel bnd marks st name = .ok st' ∧ Keeps gs0 st'.gs ∧ SameComps gs0 st'.gs) ∨
    (∃ e, propagate fuel bnd marks st name = .error e ∧ PropErr bnd gs0 e)
def PropTMany (bnd : Comp → Option (Q × Q)) (marks : List String) (gs0 : GlyphSet) (rank : String → Nat) (fuel : Nat) : Prop :=
  ∀ st ks sp, Keeps gs0 st.gs → SameComps gs0 st.gs → (∀ k ∈ ks, rank k.base < fuel) →
    (∃ st' sp', propagateComps fuel bnd marks st ks sp = .ok (st', sp') ∧ Keeps gs0 st'.gs ∧ SameComps gs0 st'.gs ∧
      ∀ kb ∈ sp'.markComps, kb.1 ∈ ks ∨ kb ∈ sp.markComps) ∨
    (∃ e, propagateComps fuel bnd marks st ks sp = .error e ∧ PropErr bnd gs0 e)

theorem propTMany_of_one (marks : List String) (gs0 : GlyphSet) (rank : String → Nat) (fuel : Nat)
    (h1 : PropTOne bnd marks gs0 rank fuel) : PropTMany bnd marks gs0 rank fuel := by
  intro st ks
  induction ks generalizing st with
  | nil => intro sp hk hs _; exact Or.inl ⟨st, sp, by simp only [propagateComps], hk, hs, fun kb h => Or.inr h⟩
  | cons k ks ih =>
    intro sp hk hs hks
    have hks' : ∀ k' ∈ ks, rank k'.base < fuel := fun k' hk' => hks k' (mem_cons_of_mem _ hk')
    unfold propagateComps
    cases hb : st.gs.get? k.base with
    | none =>
      dsimp only
      rcases ih st sp hk hs hks' with ⟨st', sp', h, a, b, c⟩ | herr
      · refine Or.inl ⟨st', sp', h, a, b, ?_⟩
        intro kb hkb
        rcases c kb hkb with c | c
        · exact Or.inl (mem_cons_of_mem _ c)
        · exact Or.inr c
      · exact Or.inr herr
    | some b0 =>
      dsimp only
      have hp : Present gs0 k.base := by
        rw [← present_of_names_eq hk.2.2 k.base]; unfold Present; rw [hb]; rfl
      rcases h1 st k.base hk hs hp (hks k mem_cons_self) with ⟨st1, h, hk1, hs1⟩ | ⟨e, h, he⟩
      · rw [h]
        dsimp only
        have hp1 : Present st1.gs k.base := (present_of_names_eq hk1.2.2 k.base).mpr hp
        unfold Present at hp1
        cases hb1 : st1.gs.get? k.base with
        | none => rw [hb1] at hp1; cases hp1
        | some b =>
          dsimp only
          by_cases hm : (b.anchors.any fun a => a.name.startsWith "_") = true
          · rw [if_pos hm]
            rcases ih st1 _ hk1 hs1 hks' with ⟨st', sp', h', a, b', c⟩ | herr
            · refine Or.inl ⟨st', sp', h', a, b', ?_⟩
              intro kb hkb
              rcases c kb hkb with c | c
              · exact Or.inl (mem_cons_of_mem _ c)
              · rcases mem_append.mp c with c | c
                · exact Or.inr c
                · simp only [mem_singleton] at c; rw [c]; exact Or.inl mem_cons_self
            · exact Or.inr herr
          · rw [if_neg hm]
            rcases ih st1 _ hk1 hs1 hks' with ⟨st', sp', h', a, b', c⟩ | herr
            · refine Or.inl ⟨st', sp', h', a, b', ?_⟩
              intro kb hkb
              rcases c kb hkb with c | c
              · exact Or.inl (mem_cons_of_mem _ c)
              · exact Or.inr c
            · exact Or.inr herr
      · rw [h]; exact Or.inr ⟨e, rfl, he⟩

theorem propTOne_succ (marks : List String) (gs0 : GlyphSet) (rank : String → Nat) (hr : Ranked gs0 rank) (fuel : Nat)
    (h2 : PropTMany bnd marks gs0 rank fuel) : PropTOne bnd marks gs0 rank (fuel + 1) := by
  intro st name hk hs hp hlt
  unfold propagate
  by_cases hpr : st.processed.contains name = true
  · rw [if_pos hpr]; exact Or.inl ⟨st, rfl, hk, hs⟩
  · rw [if_neg hpr]
    dsimp only
    have hp1 : Present st.gs name := (present_of_names_eq hk.2.2 name).mpr hp
    unfold Present at hp1
    cases hg : st.gs.get? name with
    | none => rw [hg] at hp1; cases hp1
    | some g =>
      dsimp only
      by_cases hskip : (g.comps.isEmpty || (marks.contains name && !g.anchors.isEmpty)) = true
      · rw [if_pos hskip]; exact Or.inl ⟨_, rfl, hk, hs⟩
      · rw [if_neg hskip]
        rcases h2 { st with processed := st.processed ++ [name] } g.comps ⟨[], [], []⟩ hk hs
          (fun k hkm => by have := hk.1 rank hr name g hg k hkm; omega) with ⟨st1, sp0, h, hk1, hs1, hmk⟩ | ⟨e, h, he⟩
        · rw [h]
          dsimp only
          obtain ⟨g0, hg0, hc0⟩ := hs name g hg
          cases hpm : promoteSplit bnd name sp0 with
          | error e =>
            dsimp only
            refine Or.inr ⟨e, rfl, ?_⟩
            obtain ⟨he, hcond, kb, hkb, hnone⟩ := (promoteSplit_error_iff name sp0 e).mp hpm
            refine ⟨he, name, g0, kb.1, hg0, hcond.2.2, ?_, hnone⟩
            rcases hmk kb hkb with c | c
            · rw [← hc0]; exact c
            · cases c
          | ok sp =>
            dsimp only
            refine Or.inl ⟨_, rfl, ?_⟩
            split
            · exact ⟨hk1, hs1⟩
            · have hp2 : Present st1.gs name := (present_of_names_eq hk1.2.2 name).mpr hp
              unfold Present at hp2
              cases hg1 : st1.gs.get? name with
              | none => rw [hg1] at hp2; cases hp2
              | some g1 =>
                obtain ⟨g0', hg0', hc1⟩ := hs1 name g1 hg1
                have e0 : g0' = g0 := by rw [hg0] at hg0'; exact (Option.some.inj hg0').symm
                have hcomps : g.comps = g1.comps := by rw [hc0, hc1, e0]
                have hname : g.name = name := hk.2.1 name g hg
                exact ⟨hk1.set_sameComps name g1 _ hg1 hname hcomps, hs1.set name g1 _ hg1 hcomps⟩
        · rw [h]; exact Or.inr ⟨e, rfl, he⟩

theorem prop_total (marks : List String) (gs0 : GlyphSet) (rank : String → Nat) (hr : Ranked gs0 rank) :
    ∀ fuel, PropTOne bnd marks gs0 rank fuel ∧ PropTMany bnd marks gs0 rank fuel := by
  intro fuel
  induction fuel with
  | zero =>
    have h0 : PropTOne bnd marks gs0 rank 0 := by intro st name _ _ _ h; omega
    exact ⟨h0, propTMany_of_one marks gs0 rank 0 h0⟩
  | succ n ih =>
    have h1 := propTOne_succ marks gs0 rank hr n ih.2
    exact ⟨h1, propTMany_of_one marks gs0 rank (n + 1) h1⟩

/-- **PropagateAnchorsFilter, outcome**: on every acyclic glyph set with distinct keys equal to the glyph names (closed or
    not: a missing base is only warned about) the run either succeeds — same keys, same components, same acyclicity
    witnesses — or raises `Exception`, and then some glyph with a ligature-mark name has a component without bounds.  The
    recursion never exhausts `len(glyphSet) + 1`; no `KeyError`. -/
theorem runFilter_propagateStep_res (marks : List String) (incl : String → Bool) (gs : GlyphSet) (rank : String → Nat)
    (hr : Ranked gs rank) (hn : Named gs) (hnd : gs.names.Nodup) :
    (∃ st, runFilter (propagateStep bnd marks) incl gs = .ok st ∧ Keeps gs st.gs ∧ SameComps gs st.gs) ∨
    (runFilter (propagateStep bnd marks) incl gs = .error .exception ∧ BndMissing bnd gs) := by
  have hr' := normRank_ranked gs rank hr
  have := runFilter_res (propagateStep bnd marks) incl (fun gs' => Keeps gs gs' ∧ SameComps gs gs') (PropErr bnd gs)
    gs rank hr hn hnd (fun gs' h => h.1.2.1) (fun gs' h => h.1.2.2)
    (by
      intro st g hi hget _
      unfold propagateStep
      by_cases he : g.comps.isEmpty = true
      · rw [if_pos he]; exact Or.inl ⟨st, false, rfl, hi⟩
      · rw [if_neg he]
        have hp : Present gs g.name := by
          rw [← present_of_names_eq hi.1.2.2 g.name]; unfold Present; rw [hget]; rfl
        rcases (prop_total marks gs (normRank gs rank) hr' (st.gs.length + 1)).1 st g.name hi.1 hi.2 hp
          (by have := normRank_le gs rank g.name; have := hi.1.length; omega) with ⟨st', h, a, b⟩ | ⟨e, h, he'⟩
        · rw [h]; exact Or.inl ⟨st', _, rfl, a, b⟩
        · rw [h]; exact Or.inr ⟨e, rfl, he'⟩)
    ⟨Keeps.refl hn, SameComps.refl gs⟩
  rcases this with h | ⟨e, h, he, hb⟩
  · exact Or.inl h
  · subst he; exact Or.inr ⟨h, hb⟩

/-- **`runFilter_ok` for PropagateAnchorsFilter**: if every component of every glyph with a ligature-mark name has bounds
    (in particular: if no glyph name is a ligature-mark name), the run succeeds. -/
theorem runFilter_propagateStep_ok (marks : List String) (incl : String → Bool) (gs : GlyphSet) (rank : String → Nat)
    (hr : Ranked gs rank) (hn : Named gs) (hnd : gs.names.Nodup) (hb : ¬ BndMissing bnd gs) :
    ∃ st, runFilter (propagateStep bnd marks) incl gs = .ok st ∧ Keeps gs st.gs ∧ SameComps gs st.gs := by
  rcases runFilter_propagateStep_res (bnd := bnd) marks incl gs rank hr hn hnd with h | ⟨_, h⟩
  · exact h
  · exact absurd h hb

/-- anchor propagation keeps a closed glyph set closed (components are untouched) -/
theorem closed_of_sameComps {gs0 gs : GlyphSet} (hc : Closed gs0) (hk : Keeps gs0 gs) (hs : SameComps gs0 gs) : Closed gs := by
  intro n g hg k hkm
  obtain ⟨g0, hg0, e⟩ := hs n g hg
  rw [present_of_names_eq hk.2.2]
  exact hc n g0 hg0 k (e ▸ hkm)

theorem BndMissing.of_sameComps {gs0 gs : GlyphSet} (hs : SameComps gs0 gs) (h : BndMissing bnd gs) : BndMissing bnd gs0 := by
  obtain ⟨n, g, k, hg, hl, hk, hb⟩ := h
  obtain ⟨g0, hg0, hc⟩ := hs n g hg
  exact ⟨n, g0, k, hg0, hl, hc ▸ hk, hb⟩

end Ufo2ft
