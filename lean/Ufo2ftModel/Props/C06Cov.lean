import Ufo2ftModel.Props.C06Sound
/-! C06, part 9: from source anchors to NamedAnchors (the completeness direction of _getAnchorLists). -/
namespace Ufo2ft.C06
open List

theorem namedAnchor_fields {q : Q} {s : SrcAnchor} {a : NA} (h : namedAnchor q s = .ok (some a)) :
    ∃ p, parseAnchor s.name.toList = .ok p ∧ a.isMark = p.isMark ∧ a.key = String.ofList p.key ∧ a.number = p.number := by
  unfold namedAnchor at h
  split at h
  · simp at h
  · cases hp : parseAnchor s.name.toList with
    | error e => rw [hp] at h; simp at h
    | ok p =>
      rw [hp] at h; simp only at h
      split at h
      · simp at h
      · simp only [Except.ok.injEq, Option.some.injEq] at h; subst h
        exact ⟨p, rfl, rfl, rfl, rfl⟩

theorem namedAnchor_same_name {q : Q} {s s' : SrcAnchor} {a a' : NA} (h : namedAnchor q s = .ok (some a))
    (h' : namedAnchor q s' = .ok (some a')) (hn : s.name = s'.name) :
    a'.isMark = a.isMark ∧ a'.key = a.key ∧ a'.number = a.number := by
  obtain ⟨p, hp, e1, e2, e3⟩ := namedAnchor_fields h
  obtain ⟨p', hp', e1', e2', e3'⟩ := namedAnchor_fields h'
  rw [← hn, hp] at hp'
  simp only [Except.ok.injEq] at hp'; subst hp'
  exact ⟨by rw [e1, e1'], by rw [e2, e2'], by rw [e3, e3']⟩

/-- every source anchor of an included glyph that makes a NamedAnchor is represented in the anchor lists -/
structure ALcov (i : Input) (al : AList) : Prop where
  cov : ∀ sg ∈ i.glyphs, included i sg.name = true → ∀ s ∈ sg.anchors, ∀ a, namedAnchor i.quant s = .ok (some a) →
    ∃ as, (sg.name, as) ∈ al ∧ ∃ a' ∈ as, a'.name = a.name ∧ a'.isMark = a.isMark ∧ a'.key = a.key ∧ a'.number = a.number
  noerr : ∀ sg ∈ i.glyphs, included i sg.name = true → ∀ s ∈ sg.anchors, ∃ o, namedAnchor i.quant s = .ok o

theorem alcov_of_ok {i : Input} {al : AList} (h : anchorLists i = .ok al) : ALcov i al := by
  obtain ⟨_, h2, _⟩ := anchorLists_ok h
  constructor
  · intro sg hsg hinc s hs a hsa
    obtain ⟨as, hg, hmem⟩ := h2 sg hsg hinc
    obtain ⟨g1, g2, _, _⟩ := glyphAnchors_ok hg
    obtain ⟨a', ha', hn⟩ := g2 s hs a hsa
    obtain ⟨s', _, hs'a⟩ := g1 a' ha'
    have hnn : s.name = s'.name := by
      rw [← (namedAnchor_some hsa).1, ← (namedAnchor_some hs'a).1, hn]
    exact ⟨as, hmem (ne_nil_of_mem ha'), a', ha', hn, namedAnchor_same_name hsa hs'a hnn⟩
  · intro sg hsg hinc s hs
    obtain ⟨as, hg, _⟩ := h2 sg hsg hinc
    exact (glyphAnchors_ok hg).2.2.2 s hs

theorem name_ne_empty_of_toList {s : String} {c : Char} {r : List Char} (h : s.toList = c :: r) : s ≠ "" := by
  intro e; subst e; simp at h

/-- a source anchor named `_k` (k plain) is a mark NamedAnchor of key k -/
theorem src_mark {q : Q} {s : SrcAnchor} {k : List Char} (hn : s.name.toList = '_' :: k)
    (hk : plainKey k = true) :
    ∃ a, namedAnchor q s = .ok (some a) ∧ a.name = s.name ∧ a.isMark = true ∧ a.key = String.ofList k ∧ a.number = none := by
  have hp := parse_mark hk
  rw [← hn] at hp
  have hi : keyIgnorable k = false := (headAlpha_head ((plainKey_iff k).mp hk).1).2.2.2
  exact ⟨_, namedAnchor_of_parse (name_ne_empty_of_toList hn) hp rfl hi, rfl, rfl, rfl, rfl⟩

/-- a source anchor named `k` (k plain) is a base NamedAnchor of key k -/
theorem src_base {q : Q} {s : SrcAnchor} {k : List Char} (hn : s.name.toList = k)
    (hk : plainKey k = true) :
    ∃ a, namedAnchor q s = .ok (some a) ∧ a.name = s.name ∧ a.isMark = false ∧ a.key = String.ofList k ∧ a.number = none := by
  subst hn
  have hp := parse_base hk
  obtain ⟨c, r, e, hc⟩ := ((plainKey_iff _).mp hk).1
  have hi : keyIgnorable s.name.toList = false := (headAlpha_head ((plainKey_iff _).mp hk).1).2.2.2
  exact ⟨_, namedAnchor_of_parse (name_ne_empty_of_toList e) hp rfl hi, rfl, rfl, rfl, rfl⟩

/-- a source anchor named `k_N` (k starting with a letter, N ≥ 1) is a ligature NamedAnchor of key k, number N -/
theorem src_lig {q : Q} {s : SrcAnchor} {k : List Char} {n : Nat}
    (hl : isLigName k n s.name.toList = true)
    (hk : HeadAlpha k) (hn : 1 ≤ n) :
    ∃ a, namedAnchor q s = .ok (some a) ∧ a.name = s.name ∧ a.isMark = false ∧ a.key = String.ofList k ∧ a.number = some n := by
  obtain ⟨ds, ⟨hne, hd, e⟩, hnum⟩ := sepDigits_of_isLigName hl
  subst hnum
  have hp := parse_lig hk hne hd hn
  rw [← e] at hp
  obtain ⟨c, r, e', hc⟩ := hk
  have hi : keyIgnorable k = false := (headAlpha_head ⟨c, r, e', hc⟩).2.2.2
  have hne' : s.name ≠ "" := by
    apply name_ne_empty_of_toList (c := c) (r := r ++ '_' :: ds); rw [e, e']; rfl
  exact ⟨_, namedAnchor_of_parse hne' hp rfl hi, rfl, rfl, rfl, rfl⟩

theorem effName_ne_nil_name {s : String} {k : List Char} (h : effName s.toList = k) (hk : k ≠ []) : s ≠ "" := by
  intro e; subst e
  have : effName ("" : String).toList = [] := by decide
  rw [this] at h; exact hk h.symm

/-- a source anchor that answers key `k` under its pairing name (plain `k` / `k_N`, or contextual `*k…` / `*k_N…` with
    object-lib data) is a base-side NamedAnchor of key k; it is contextual iff its name starts with '*' -/
theorem src_side {q : Q} {s : SrcAnchor} {k : List Char} (c : Option Nat)
    (hm : baseNameMatches k c (pairName s) = true) (hk : plainKey k = true) :
    ∃ a, namedAnchor q s = .ok (some a) ∧ a.name = s.name ∧ a.isMark = false ∧ a.key = String.ofList k ∧
      a.number = c.map (· + 1) ∧ a.ctx = (if (s.name.toList.head? == some '*') = true then s.lib else none) := by
  have hka := ((plainKey_iff k).mp hk).1
  obtain ⟨c0, r0, ek, hc0⟩ := hka
  -- the effective name answers k, and a '*' name has lib data
  have heff : baseNameMatches k c (effName s.name.toList) = true ∧
      ((s.name.toList.head? == some '*') = true → s.lib.isSome = true) := by
    unfold pairName at hm
    cases hl : s.lib.isSome with
    | true => rw [hl] at hm; exact ⟨by simpa using hm, fun _ => rfl⟩
    | false =>
      rw [hl] at hm
      simp only [Bool.false_eq_true, if_false] at hm
      have hhead : (s.name.toList.head? == some '*') = false := by
        cases c with
        | none =>
          have : s.name.toList = k := by simpa [baseNameMatches] using hm
          rw [this, ek]
          simp only [head?_cons, beq_eq_false_iff_ne, ne_eq, Option.some.injEq]
          exact alpha_ne_star c0 hc0
        | some j =>
          have hl' : isLigName k (j + 1) s.name.toList = true := by simpa [baseNameMatches] using hm
          obtain ⟨ds, ⟨_, _, e⟩, _⟩ := sepDigits_of_isLigName hl'
          rw [e, ek]
          simp only [cons_append, head?_cons, beq_eq_false_iff_ne, ne_eq, Option.some.injEq]
          exact alpha_ne_star c0 hc0
      exact ⟨by rw [effName_plain hhead]; exact hm, fun h => by rw [hhead] at h; simp at h⟩
  obtain ⟨hm', hlib⟩ := heff
  have hi : keyIgnorable k = false := (headAlpha_head ⟨c0, r0, ek, hc0⟩).2.2.2
  cases c with
  | none =>
    have he : effName s.name.toList = k := by simpa [baseNameMatches] using hm'
    have hne : s.name ≠ "" := effName_ne_nil_name he (by rw [ek]; simp)
    have hp := parse_base_eff he hk
    exact ⟨_, namedAnchor_of_parse_gen hne hp hlib hi, rfl, rfl, rfl, rfl, rfl⟩
  | some j =>
    have hl' : isLigName k (j + 1) (effName s.name.toList) = true := by simpa [baseNameMatches] using hm'
    obtain ⟨ds, ⟨hne', hd, e⟩, hnum⟩ := sepDigits_of_isLigName hl'
    have hne : s.name ≠ "" := effName_ne_nil_name e (by simp)
    have hp := parse_lig_eff e ⟨c0, r0, ek, hc0⟩ hne' hd (by omega)
    rw [hnum] at hp
    exact ⟨_, namedAnchor_of_parse_gen hne hp hlib hi, rfl, rfl, rfl, rfl, rfl⟩

/-- under `anchorLists = ok`, a name `k_0…` cannot occur on an included glyph -/
theorem lig_number_pos {i : Input} {al : AList} (cv : ALcov i al) {sg : SrcGlyph} (hsg : sg ∈ i.glyphs)
    (hinc : included i sg.name = true) {s : SrcAnchor} (hs : s ∈ sg.anchors) {k ds : List Char}
    (hk : HeadAlpha k ∨ k = []) (hsd : SepDigits s.name.toList k ds) : 1 ≤ digitsToNat ds := by
  by_cases hlt : 1 ≤ digitsToNat ds
  · exact hlt
  exfalso
  have h0 : digitsToNat ds = 0 := by omega
  obtain ⟨hne, hd, e⟩ := hsd
  have hp := parse_zero_error hk hne hd h0
  rw [← e] at hp
  obtain ⟨o, ho⟩ := cv.noerr sg hsg hinc s hs
  have hne' : s.name ≠ "" := by
    rcases hk with ⟨c, r, e', _⟩ | e'
    · apply name_ne_empty_of_toList (c := c) (r := r ++ '_' :: ds); rw [e, e']; rfl
    · apply name_ne_empty_of_toList (c := '_') (r := ds); rw [e, e']; rfl
  simp [namedAnchor, hne', hp] at ho


/-- the same for the effective name of a contextual anchor with lib data -/
theorem lig_number_pos_eff {i : Input} {al : AList} (cv : ALcov i al) {sg : SrcGlyph} (hsg : sg ∈ i.glyphs)
    (hinc : included i sg.name = true) {s : SrcAnchor} (hs : s ∈ sg.anchors) {k ds : List Char}
    (hk : HeadAlpha k) (hsd : SepDigits (effName s.name.toList) k ds) : 1 ≤ digitsToNat ds := by
  by_cases hlt : 1 ≤ digitsToNat ds
  · exact hlt
  exfalso
  have h0 : digitsToNat ds = 0 := by omega
  obtain ⟨hne, hd, e⟩ := hsd
  have hp := parse_zero_error_eff e hk hne hd h0
  obtain ⟨o, ho⟩ := cv.noerr sg hsg hinc s hs
  have hne' : s.name ≠ "" := effName_ne_nil_name e (by simp)
  simp [namedAnchor, hne', hp] at ho

end Ufo2ft.C06
