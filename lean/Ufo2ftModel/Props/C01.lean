import Ufo2ftModel.Props.RenderExact
import Ufo2ftModel.Props.GoodCert
import Ufo2ftModel.Props.Reverse
import Ufo2ftModel.Spec.C01
/-! Property C01 theorems. -/
namespace Ufo2ft.C01
open Ufo2ft List

/-! ### rounding -/

theorem otRound_spec (v : Q) : ((otRound v : Int) : Q) ≤ v + 1/2 ∧ v + 1/2 < ((otRound v : Int) : Q) + 1 := by
  unfold otRound
  have h1 := Rat.floor_le (v + 1/2)
  have h2 := Rat.lt_floor_add_one (v + 1/2)
  simp only [Rat.intCast_add, Rat.intCast_one] at h2
  exact ⟨h1, h2⟩

/-- halves round up, for negative numbers too: otRound (k + 1/2) = k + 1 -/
theorem otRound_half (k : Int) : otRound ((k : Q) + 1/2) = k + 1 := by
  unfold otRound
  have : (k : Q) + 1/2 + 1/2 = ((k + 1 : Int) : Q) := by simp only [Rat.intCast_add, Rat.intCast_one]; grind
  rw [this, Rat.floor_intCast]

theorem otRound_int (k : Int) : otRound (k : Q) = k := by
  unfold otRound
  apply Int.le_antisymm
  · have := Rat.floor_lt_iff (a := (k : Q) + 1/2) (x := k + 1)
    have h : (k : Q) + 1/2 < ((k + 1 : Int) : Q) := by simp only [Rat.intCast_add, Rat.intCast_one]; grind
    have := this.mpr h
    omega
  · apply Rat.le_floor_iff.mpr; grind

/-- the nearest integer: never further than 1/2 -/
theorem otRound_near (v : Q) : absQ ((otRound v : Q) - v) ≤ 1/2 := by
  obtain ⟨h1, h2⟩ := otRound_spec v
  unfold absQ
  split <;> grind

/-- **C01_round**: with tolerance ≥ 1/2 (the default) every coordinate is `otRound`ed; with tolerance 0 nothing is rounded;
    in between a coordinate is either rounded to the nearest integer or left alone, and never moves by more than the tolerance. -/
theorem C01_round (tol v : Q) (ht : 0 ≤ tol) :
    (tol ≥ 1/2 → roundCoord tol v = (otRound v : Q)) ∧
    (tol = 0 → roundCoord tol v = v) ∧
    (tol < 1/2 → absQ (roundCoord tol v - v) ≤ tol) ∧
    roundedOk tol v (roundCoord tol v) = true := by
  have habs0 : absQ (v - v) = 0 := by unfold absQ; split <;> grind
  refine ⟨?_, ?_, ?_, ?_⟩
  · intro h
    unfold roundCoord
    have : ¬ tol = 0 := by grind
    rw [if_neg this, if_pos h]
  · intro h; unfold roundCoord; rw [if_pos h]
  · intro h
    unfold roundCoord
    by_cases h0 : tol = 0
    · rw [if_pos h0, habs0]; exact ht
    · rw [if_neg h0]
      have : ¬ tol ≥ 1/2 := by grind
      rw [if_neg this]
      by_cases hc : absQ ((otRound v : Q) - v) ≤ tol
      · rw [if_pos hc]; exact hc
      · rw [if_neg hc, habs0]; exact ht
  · unfold roundedOk roundCoord
    by_cases h0 : tol = 0
    · subst h0
      have : ¬ ((0:Q) ≥ 1/2) := by grind
      simp only [this, if_false, if_true, beq_self_eq_true, Bool.true_or]
    · by_cases h1 : tol ≥ 1/2
      · simp [h0, h1]
      · by_cases hc : absQ ((otRound v : Q) - v) ≤ tol
        · simp [h0, h1, hc]
        · simp [h0, h1, hc]

/-- **C01_advance**: the advance stored in hmtx is the source width rounded half-up; a width that rounds to a negative
    number is rejected. -/
theorem C01_advance (g : Glyph) :
    (∀ a, advance g = .ok a → holdsAdvance g a = true) ∧ (advance g = .error .valueError ↔ otRound g.width < 0) := by
  unfold advance holdsAdvance
  by_cases h : otRound g.width < 0
  · rw [if_pos h]; exact ⟨fun a ha => (by cases ha), by simp [h]⟩
  · rw [if_neg h]
    refine ⟨?_, by simp [h]⟩
    intro a ha
    have := Except.ok.inj ha; subst this
    simp only [beq_self_eq_true, Bool.true_and, decide_eq_true_eq]; omega

end Ufo2ft.C01

namespace Ufo2ft.C01
open Ufo2ft List

theorem drawContours_id (cs : List Contour) : drawContours true Affine.id cs = cs := by
  have hd : ¬ (Affine.id.det < 0) := by simp only [Affine.id, Affine.det]; grind
  simp only [drawContours, Bool.true_and, hd, decide_false, Bool.false_eq_true, if_false, Contour.map_id]
  exact List.map_id' cs

theorem depthsOf_names (gs : GlyphSet) : ∀ (l : List (String × Glyph)) (ds : List (String × Nat)),
    depthsOf gs l = .ok ds → ds.map (·.1) = l.map (·.1) := by
  intro l
  induction l with
  | nil => intro ds h; simp only [depthsOf] at h; cases h; rfl
  | cons e l ih =>
    intro ds h
    obtain ⟨n, g⟩ := e
    simp only [depthsOf] at h
    cases hd : maxComponentDepth gs g with
    | error err => rw [hd] at h; cases h
    | ok d =>
      rw [hd] at h
      cases hr : depthsOf gs l with
      | error err => rw [hr] at h; cases h
      | ok r =>
        rw [hr] at h
        have := Except.ok.inj h; subst this
        simp [ih r hr]

theorem alookup_mem_names (n : String) (g : Glyph) : ∀ (gs : GlyphSet), alookup n gs = some g → n ∈ gs.map (·.1) := by
  intro gs
  induction gs with
  | nil => intro h; cases h
  | cons e gs ih =>
    intro h
    obtain ⟨k, v⟩ := e
    simp only [alookup] at h
    by_cases hk : (k == n) = true
    · simp only [List.map_cons, mem_cons]; left; exact (by simpa using hk : k = n).symm
    · rw [if_neg hk] at h; exact mem_cons_of_mem _ (ih h)

theorem orderedGlyphs_mem (gs : GlyphSet) (order : List String) (h : orderedGlyphs gs = .ok order)
    (n : String) (g : Glyph) (hget : gs.get? n = some g) : n ∈ order := by
  unfold orderedGlyphs at h
  cases hd : depthsOf gs gs with
  | error e => rw [hd] at h; cases h
  | ok ds =>
    rw [hd] at h
    have := Except.ok.inj h; subst this
    have hp : (ds.mergeSort (fun a b => decide (a.2 ≥ b.2))).Perm ds := List.mergeSort_perm _ _
    have hm : n ∈ ds.map (·.1) := by rw [depthsOf_names gs gs ds hd]; exact alookup_mem_names n g gs hget
    exact (hp.map (·.1)).mem_iff.mpr hm

/-- **C01_outline** (default pipeline, no skip list): for every acyclic glyph set with non-singular components and
    closed contours, and every glyph of it, the commands the compiled CFF font draws are exactly the specification:
    the source outline with all components resolved (one composed matrix per leaf, reversed iff the composed
    determinant is negative), converted to drawing commands, every coordinate rounded — same contours, same order,
    none lost or duplicated. -/
theorem C01_outline (tol : Q) (gs pre : GlyphSet) (rank : String → Nat) (hg : Good gs rank) (hn : Named gs)
    (h : preprocess [] gs = .ok pre)
    (n : String) (g : Glyph) (hget : gs.get? n = some g) (hb : rank n ≤ gs.length) :
    cffOutline tol pre n = specOutline tol gs g := by
  unfold preprocess at h
  simp only [List.isEmpty_nil, if_true] at h
  cases hr : runFilter decomposeStep (fun _ => true) gs with
  | error e => rw [hr] at h; cases h
  | ok st =>
    rw [hr] at h
    have := Except.ok.inj h; subst this
    unfold runFilter at hr
    cases ho : orderedGlyphs gs with
    | error e => rw [ho] at hr; cases hr
    | ok order =>
      rw [ho] at hr
      obtain ⟨_, _, hs, _, hflat, _⟩ := fullLoop rank order ⟨gs, [], []⟩ st hr hg hn (fun x hx => (by cases hx))
      obtain ⟨hsome, heq⟩ := hs n
      have hmem := orderedGlyphs_mem gs order ho n g hget
      cases hp : st.gs.get? n with
      | none => rw [hp, hget] at hsome; cases hsome
      | some g' =>
        have hc : g'.comps = [] := hflat n hmem g' hp
        have hid : Affine.id.det ≠ 0 := by simp only [Affine.id, Affine.det]; grind
        have e := heq g' g hp hget Affine.id (gs.length + 2) hid (by omega)
        unfold cffOutline specOutline renderGlyph
        rw [hp]
        dsimp only
        rw [← e, render_succ, hc, drawContours_id]
        simp

theorem nonsingularFrom_of_good (gs : GlyphSet) (rank : String → Nat) (hg : Good gs rank) :
    ∀ (f : Nat) (g : Glyph), (∀ k ∈ g.comps, k.t.det ≠ 0) → nonsingularFrom f gs g = true := by
  intro f
  induction f with
  | zero => intro g _; rfl
  | succ f ih =>
    intro g hk
    simp only [nonsingularFrom, List.all_eq_true, Bool.and_eq_true, bne_iff_ne, ne_eq]
    intro k hkm
    refine ⟨hk k hkm, ?_⟩
    cases hb : gs.get? k.base with
    | none => rfl
    | some b => exact ih b (hg.nonsing k.base b hb)

/-- the decidable predicate holds of the model's output -/
theorem C01_outline_holds (tol : Q) (gs pre : GlyphSet) (rank : String → Nat) (hg : Good gs rank) (hn : Named gs)
    (h : preprocess [] gs = .ok pre)
    (n : String) (g : Glyph) (hget : gs.get? n = some g) (hb : rank n ≤ gs.length)
    (ops : List Op) (hops : cffOutline tol pre n = .ok ops) :
    holdsOutline true tol gs g ops = true := by
  rw [C01_outline tol gs pre rank hg hn h n g hget hb] at hops
  have hns := nonsingularFrom_of_good gs rank hg (gs.length + 1) g (hg.nonsing n g hget)
  simp [holdsOutline, hops, hns]

end Ufo2ft.C01

namespace Ufo2ft.C01
open Ufo2ft

/-- **C01_outline from a checked certificate**: whenever the decidable well-formedness check passes (the driver evaluates it
    on every generated font), the model's CFF outline of every glyph is the specified one. -/
theorem C01_outline_cert (tol : Q) (gs pre : GlyphSet) (cert : List (String × Nat)) (hc : goodCert gs cert = true)
    (h : preprocess [] gs = .ok pre) (n : String) (g : Glyph) (hget : gs.get? n = some g) :
    cffOutline tol pre n = specOutline tol gs g := by
  obtain ⟨hg, hn, hb⟩ := goodCert_sound gs cert hc
  exact C01_outline tol gs pre (rankOf cert) hg hn h n g hget (hb n g hget)

end Ufo2ft.C01
