/-
Shared vocabulary of the ufo2ft model.  No Mathlib, no `import Lean`:
everything here is core Lean so that the driver starts fast.
-/
namespace Ufo2ft

abbrev Q := Rat

/-- fontTools.misc.roundTools.otRound: `int(math.floor(x + 0.5))`. -/
def otRound (x : Q) : Int := (x + 1/2).floor

/-- Python `abs` on exact rationals -/
def absQ (x : Q) : Q := if x < 0 then -x else x

/-- Python `str` comparison = code point lexicographic = Lean `String` order. -/
def strLe (a b : String) : Bool := decide (a ≤ b)

/-- Python `sorted(names)` on strings. -/
def sortStr (l : List String) : List String := l.mergeSort strLe

theorem strLe_trans (a b c : String) : strLe a b = true → strLe b c = true → strLe a c = true := by
  simp only [strLe, decide_eq_true_eq]; exact String.le_trans

theorem strLe_total (a b : String) : (strLe a b || strLe b a) = true := by
  simp only [strLe, Bool.or_eq_true, decide_eq_true_eq]; exact String.le_total a b

theorem sortStr_perm (l : List String) : (sortStr l).Perm l := List.mergeSort_perm l strLe

theorem sortStr_sorted (l : List String) : (sortStr l).Pairwise (fun a b => a ≤ b) := by
  have h := List.pairwise_mergeSort strLe_trans strLe_total l
  simpa [strLe, sortStr] using h

/-- `Int` ordering as a Bool comparator for `mergeSort`. -/
def intLe (a b : Int) : Bool := decide (a ≤ b)
def sortInt (l : List Int) : List Int := l.mergeSort intLe
def natLe (a b : Nat) : Bool := decide (a ≤ b)
def sortNat (l : List Nat) : List Nat := l.mergeSort natLe

theorem sortNat_perm (l : List Nat) : (sortNat l).Perm l := List.mergeSort_perm l natLe
theorem sortInt_perm (l : List Int) : (sortInt l).Perm l := List.mergeSort_perm l intLe

theorem sortInt_sorted (l : List Int) : (sortInt l).Pairwise (fun a b => a ≤ b) := by
  have h := List.pairwise_mergeSort (le := intLe)
    (by intro a b c; simp only [intLe, decide_eq_true_eq]; exact Int.le_trans)
    (by intro a b; simp only [intLe, Bool.or_eq_true, decide_eq_true_eq]; exact Int.le_total a b) l
  simpa [intLe, sortInt] using h

theorem sortNat_sorted (l : List Nat) : (sortNat l).Pairwise (fun a b => a ≤ b) := by
  have h := List.pairwise_mergeSort (le := natLe)
    (by intro a b c; simp only [natLe, decide_eq_true_eq]; exact Nat.le_trans)
    (by intro a b; simp only [natLe, Bool.or_eq_true, decide_eq_true_eq]; exact Nat.le_total a b) l
  simpa [natLe, sortNat] using h

/-- First-occurrence de-duplication (Python: `list(dict.fromkeys(l))`),
written with an explicit `seen` accumulator like the Python loops it models. -/
def dedupAux [BEq α] : List α → List α → List α
  | [], _ => []
  | a :: l, seen => if seen.contains a then dedupAux l seen else a :: dedupAux l (a :: seen)

def dedupFirst [BEq α] (l : List α) : List α := dedupAux l []

/-- association-list lookup (Python dict read). -/
def alookup [BEq κ] (k : κ) : List (κ × ν) → Option ν
  | [] => none
  | (k', v) :: l => if k' == k then some v else alookup k l

end Ufo2ft
