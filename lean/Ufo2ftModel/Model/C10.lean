import Ufo2ftModel.Model.C05
/-!
Model of ufo2ft's own contribution to variable fonts:

* `featureWriters/kernFeatureWriter.py`  `KernFeatureWriter.getVariableKerningPairs` (and the multi-source
  `getKerningGroups`, which is `C05.getKerningGroups` on the concatenated group dicts of all sources),
  together with `fontTools.ufoLib.kerning.lookupKerningValue` as it is called there (keys may be class names);
* `featureWriters/baseFeatureWriter.py`  `_getAnchor`, variable branch;
* `util.py`  `collapse_varscalar`, `get_userspace_location` (= `DesignSpaceDocument.map_backward` + axis tags,
  `AxisDescriptor.map_backward`, `varLib.models.piecewiseLinearMap`), `quantize` (from C05);
* `featureCompiler.py`  `_featuresCompatible`;
* `feaLib.variableScalar`: `Location` (sorted item tuple) and `VariableScalar.values` (an insertion-ordered dict).

`varLib.build_many`, the merger, the instancer and feaLib's variation-store builder are NOT modelled: see `Model/C10Var.lean`
for the `VarModel` interface whose law they are assumed to satisfy.
-/
namespace Ufo2ft.C10
open Ufo2ft Ufo2ft.C05

/-! ### dictionaries -/

/-- `d[k] = f(d.get(k))` on an insertion-ordered dict with unique keys -/
def aupd [BEq κ] (d : List (κ × ν)) (k : κ) (f : Option ν → ν) : List (κ × ν) :=
  match d with
  | [] => [(k, f none)]
  | (k', v) :: r => if k' == k then (k', f (some v)) :: r else (k', v) :: aupd r k f

/-- `feaLib.variableScalar.Location(dict)` = `tuple(sorted(dict.items()))`; items are (axis tag, user value) -/
abbrev Loc := List (String × Q)

/-- `VariableScalar.values` -/
abbrev Scalar := List (Loc × Q)

/-- `scalar.values[loc] = v` -/
def sset (s : Scalar) (l : Loc) (v : Q) : Scalar := aupd s l (fun _ => v)

inductive Value
  | num (v : Q)
  | var (s : Scalar)
  deriving DecidableEq, Repr

/-- `util.collapse_varscalar(varscalar, threshold=0)`: the first value if no other value differs from it.
    (An empty scalar raises IndexError in Python; the callers never pass one — the model keeps it.) -/
def collapse (s : Scalar) : Value :=
  match s with
  | [] => .var []
  | (_, v0) :: rest => if rest.any (fun e => absQ (e.2 - v0) > 0) then .var s else .num v0

/-! ### user-space locations -/

structure Axis where
  name : String
  tag : String
  default : Q                 -- user-space default
  map : List (Q × Q)          -- (user, design)
  deriving Repr

/-- the dict `{design: user for user, design in axis.map}`: a later entry with the same design value wins -/
def invMap (m : List (Q × Q)) : List (Q × Q) :=
  m.foldl (fun d (e : Q × Q) => aupd d e.2 (fun _ => e.1)) []

def minQ : List Q → Q → Q
  | [], a => a
  | x :: l, a => minQ l (if x < a then x else a)
def maxQ : List Q → Q → Q
  | [], a => a
  | x :: l, a => maxQ l (if a < x then x else a)

/-- `fontTools.varLib.models.piecewiseLinearMap` -/
def piecewiseLinearMap (v : Q) (mapping : List (Q × Q)) : Q :=
  match mapping with
  | [] => v
  | (k0, _) :: _ =>
    match alookup v mapping with
    | some r => r
    | none =>
      let keys := mapping.map (·.1)
      let kmin := minQ keys k0
      let kmax := maxQ keys k0
      if v < kmin then v + (alookup kmin mapping).getD 0 - kmin
      else if v > kmax then v + (alookup kmax mapping).getD 0 - kmax
      else
        let a := maxQ (keys.filter (· < v)) kmin
        let b := minQ (keys.filter (· > v)) kmax
        let va := (alookup a mapping).getD 0
        let vb := (alookup b mapping).getD 0
        va + (vb - va) * (v - a) / (b - a)

/-- `AxisDescriptor.map_backward` -/
def Axis.mapBackward (a : Axis) (v : Q) : Q :=
  if a.map.isEmpty then v else piecewiseLinearMap v (invMap a.map)

/-- insertion sort by tag = `sorted(items)` (tags are unique) -/
def insLoc (e : String × Q) : Loc → Loc
  | [] => [e]
  | x :: l => if e.1 < x.1 then e :: x :: l else x :: insLoc e l
def mkLoc (items : List (String × Q)) : Loc := items.foldr insLoc []

/-- `Location(get_userspace_location(designspace, source.location))`; `dloc` = the source's design location by axis NAME -/
def userLoc (axes : List Axis) (dloc : List (String × Q)) : Loc :=
  mkLoc (axes.map (fun a => (a.tag, match alookup a.name dloc with
    | some v => a.mapBackward v
    | none => a.default)))

/-! ### lookupKerningValue, as called by getVariableKerningPairs -/

/-- `{glyph: group for group, glyphs in classes.items() for glyph in glyphs}` read at `g` (a later group wins) -/
def glyphToGroup (classes : List (String × List String)) (g : String) : Option String :=
  ((classes.filter (fun e => e.2.contains g)).getLast?).map (·.1)

structure KCtx where
  side1Classes : List (String × List String)      -- group name → sorted member tuple (from getKerningGroups)
  side2Classes : List (String × List String)
  glyphSet : List String
  q : Q

/-- `pair in kerning` / `kerning[pair]` where a component of the pair may be `None` (never a key); keys are unique -/
def kget (kerning : List (String × String × Q)) (a b : Option String) : Option Q :=
  match a, b with
  | some x, some y => (kerning.find? (fun e => e.1 == x && e.2.1 == y)).map (·.2.2)
  | _, _ => none

/-- `lookupKerningValue(pair, kerning, groups, glyphToFirstGroup=…, glyphToSecondGroup=…)` -/
def lookupKV (cx : KCtx) (kerning : List (String × String × Q)) (p : String × String) : Q :=
  match kget kerning (some p.1) (some p.2) with
  | some v => v
  | none =>
    let (first, firstGroup) : Option String × Option String :=
      if p.1.startsWith SIDE1_PREFIX then (none, some p.1) else (some p.1, glyphToGroup cx.side1Classes p.1)
    let (second, secondGroup) : Option String × Option String :=
      if p.2.startsWith SIDE2_PREFIX then (none, some p.2) else (some p.2, glyphToGroup cx.side2Classes p.2)
    match kget kerning first second with
    | some v => v
    | none => match kget kerning first secondGroup with
      | some v => v
      | none => match kget kerning firstGroup second with
        | some v => v
        | none => (kget kerning firstGroup secondGroup).getD 0

/-! ### getVariableKerningPairs -/

structure Source where
  loc : Loc                                   -- user-space location (see `userLoc`)
  sparse : Bool                               -- `source.layerName is not None`
  kerning : List (String × String × Q)        -- `source.font.kerning` (unique keys)

abbrev Key := Side × Side
abbrev Table := List (Key × Scalar)           -- `kerning_pairs_in_progress`

/-- `all_pairs`: union of the kerning keys of the full sources (a Python set: the order is arbitrary; the model
    uses first-appearance order and the harness compares as sorted lists) -/
def allPairs (srcs : List Source) : List (String × String) :=
  dedupFirst ((srcs.filter (fun s => !s.sparse)).flatMap (fun s => s.kerning.map (fun e => (e.1, e.2.1))))

/-- "Filter out pairs that reference missing groups or glyphs." -/
def validPair (cx : KCtx) (p : String × String) : Bool :=
  ((alookup p.1 cx.side1Classes).isSome || cx.glyphSet.contains p.1) &&
  ((alookup p.2 cx.side2Classes).isSome || cx.glyphSet.contains p.2)

def substKey (cx : KCtx) (p : String × String) : Key :=
  (match alookup p.1 cx.side1Classes with | some c => .cls c | none => .glyph p.1,
   match alookup p.2 cx.side2Classes with | some c => .cls c | none => .glyph p.2)

/-- `kerning_pairs_in_progress.setdefault(key, VariableScalar()).values[loc] = v` -/
def tset (t : Table) (k : Key) (l : Loc) (v : Q) : Table := aupd t k (fun o => sset (o.getD []) l v)

/-- body of `for source in designspace.sources` for one full source -/
def vkSource (cx : KCtx) (pairs : List (String × String)) (t : Table) (s : Source) : Table :=
  pairs.foldl (fun t p =>
    if !validPair cx p then t
    else tset t (substKey cx p) s.loc (quantize (lookupKV cx s.kerning p) cx.q)) t

def vkTable (cx : KCtx) (pairs : List (String × String)) (srcs : List Source) : Table :=
  (srcs.filter (fun s => !s.sparse)).foldl (vkSource cx pairs) []

/-- the final loop: default-location fill, collapse, zero class-class filter -/
def vkFinish (defaultLoc : Loc) (t : Table) : List (Key × Value) :=
  t.filterMap (fun (e : Key × Scalar) =>
    let sc := if (alookup defaultLoc e.2).isSome then e.2 else sset e.2 defaultLoc 0
    let v := collapse sc
    if e.1.1.isClass && e.1.2.isClass && v == .num 0 then none else some (e.1, v))

def getVariableKerningPairs (cx : KCtx) (srcs : List Source) (defaultLoc : Loc) : List (Key × Value) :=
  vkFinish defaultLoc (vkTable cx (allPairs srcs) srcs)

/-! ### variable anchors (`_getAnchor`, variable branch) -/

structure AnchorLayer where
  loc : Loc                                              -- user-space location of the source
  glyphs : List (String × List (String × Q × Q))         -- glyphs of the source's layer with their anchors (name, x, y)

/-- the loop over `designspace.sources`; `None` when no layer has the glyph with such an anchor -/
def anchorScalars (layers : List AnchorLayer) (glyph anchor : String) : Scalar × Scalar × Bool :=
  layers.foldl (fun (acc : Scalar × Scalar × Bool) ly =>
    match alookup glyph ly.glyphs with
    | none => acc
    | some anchors => anchors.foldl (fun (acc : Scalar × Scalar × Bool) a =>
        if a.1 == anchor then (sset acc.1 ly.loc (otRound a.2.1), sset acc.2.1 ly.loc (otRound a.2.2), true) else acc) acc)
    ([], [], false)

def getAnchorVar (layers : List AnchorLayer) (glyph anchor : String) : Option (Value × Value) :=
  let r := anchorScalars layers glyph anchor
  if r.2.2 then some (collapse r.1, collapse r.2.1) else none

/-! ### _featuresCompatible -/

/-- Python's `\s` on str -/
def isPySpace (c : Char) : Bool :=
  let n := c.toNat
  (9 ≤ n && n ≤ 13) || (28 ≤ n && n ≤ 32) || n == 0x85 || n == 0xA0 || n == 0x1680 || (0x2000 ≤ n && n ≤ 0x200A) ||
  n == 0x2028 || n == 0x2029 || n == 0x202F || n == 0x205F || n == 0x3000

/-- `re.sub("(?m)#.*$", "", text)`: drop from '#' up to (not including) the next newline -/
def stripComments : List Char → Bool → List Char
  | [], _ => []
  | c :: l, inComment =>
    if c == '\n' then c :: stripComments l false
    else if inComment then stripComments l true
    else if c == '#' then stripComments l true
    else c :: stripComments l false

/-- `re.sub(r"\s+", " ", text)` -/
def collapseWs : List Char → Bool → List Char
  | [], _ => []
  | c :: l, prevSpace =>
    if isPySpace c then (if prevSpace then collapseWs l true else ' ' :: collapseWs l true)
    else c :: collapseWs l false

def transform (text : String) : List Char := collapseWs (stripComments text.toList false) false

/-- `_featuresCompatible`: `texts` in source order, `dflt` = index of the default source -/
def featuresCompatible (texts : List String) (dflt : Nat) : Bool :=
  let first := transform (texts.getD dflt "")
  let rest := (texts.eraseIdx dflt).map transform
  rest.all (· == first) || rest.all (·.isEmpty)

end Ufo2ft.C10
