import Ufo2ftModel.Basic
import Ufo2ftModel.Model.C16Float
/-!
Model of ufo2ft/fontInfoData.py (getAttrWithFallback, staticFallbackData, every function of
specialFallbacks, normalizeStringForPostscript, normalizeNameForPostscript, intListToNum) and of the
info-fed field computations of BaseOutlineCompiler.setupTable_head / name / OS2 / hhea / vhea / post,
OutlineOTFCompiler.setupTable_CFF (top dict + private dict values), InstructionCompiler.setupTable_gasp
and InfoCompiler (merge of designspace `public.fontInfo` into a compiled font).

Python strings are lists of Unicode scalar values (`Str`), Python numbers are exact rationals (every
double is one; float operations round with `fl`).  External functions enter as data in `Env`:
`unicodedata.normalize("NFKD", c)`, `math.tan(math.radians(-italicAngle))`, `time.strptime`.
-/
namespace Ufo2ft.C16

abbrev Str := List Char

inductive Attr
  | versionMajor | versionMinor | copyright | trademark | familyName | styleName | unitsPerEm
  | italicAngle | year | note | openTypeHeadLowestRecPPEM | openTypeHeadFlags | openTypeHheaLineGap
  | openTypeHheaCaretOffset | openTypeNameDesigner | openTypeNameDesignerURL | openTypeNameManufacturer
  | openTypeNameManufacturerURL | openTypeNameLicense | openTypeNameLicenseURL
  | openTypeNameDescription | openTypeNameCompatibleFullName | openTypeNameSampleText
  | openTypeNameRecords | openTypeOS2WidthClass | openTypeOS2WeightClass | openTypeOS2Selection
  | openTypeOS2VendorID | openTypeOS2Panose | openTypeOS2FamilyClass | openTypeOS2UnicodeRanges
  | openTypeOS2CodePageRanges | openTypeOS2Type | openTypeOS2SubscriptXSize | openTypeOS2SubscriptYSize
  | openTypeOS2SubscriptXOffset | openTypeOS2SubscriptYOffset | openTypeOS2SuperscriptXSize
  | openTypeOS2SuperscriptYSize | openTypeOS2SuperscriptXOffset | openTypeOS2SuperscriptYOffset
  | openTypeOS2StrikeoutSize | openTypeOS2StrikeoutPosition | openTypeVheaVertTypoAscender
  | openTypeVheaVertTypoDescender | openTypeVheaVertTypoLineGap | openTypeVheaCaretSlopeRise
  | openTypeVheaCaretSlopeRun | openTypeVheaCaretOffset | postscriptUniqueID | postscriptWeightName
  | postscriptIsFixedPitch | postscriptBlueValues | postscriptOtherBlues | postscriptFamilyBlues
  | postscriptFamilyOtherBlues | postscriptStemSnapH | postscriptStemSnapV | postscriptBlueFuzz
  | postscriptBlueShift | postscriptForceBold | postscriptDefaultWidthX | postscriptNominalWidthX
  | postscriptDefaultCharacter | postscriptWindowsCharacterSet | macintoshFONDFamilyID
  | macintoshFONDName | ascender | descender | capHeight | xHeight | styleMapFamilyName
  | styleMapStyleName | openTypeHeadCreated | openTypeHheaAscender | openTypeHheaDescender
  | openTypeHheaCaretSlopeRise | openTypeHheaCaretSlopeRun | openTypeNameVersion | openTypeNameUniqueID
  | openTypeNamePreferredFamilyName | openTypeNamePreferredSubfamilyName | openTypeNameWWSFamilyName
  | openTypeNameWWSSubfamilyName | openTypeOS2TypoAscender | openTypeOS2TypoDescender
  | openTypeOS2TypoLineGap | openTypeOS2WinAscent | openTypeOS2WinDescent | postscriptFontName
  | postscriptFullName | postscriptSlantAngle | postscriptUnderlineThickness
  | postscriptUnderlinePosition | postscriptBlueScale | openTypeGaspRangeRecords
  deriving DecidableEq, Repr

def Attr.all : List Attr := [
  .versionMajor, .versionMinor, .copyright, .trademark, .familyName, .styleName, .unitsPerEm, 
  .italicAngle, .year, .note, .openTypeHeadLowestRecPPEM, .openTypeHeadFlags, .openTypeHheaLineGap, 
  .openTypeHheaCaretOffset, .openTypeNameDesigner, .openTypeNameDesignerURL, 
  .openTypeNameManufacturer, .openTypeNameManufacturerURL, .openTypeNameLicense, 
  .openTypeNameLicenseURL, .openTypeNameDescription, .openTypeNameCompatibleFullName, 
  .openTypeNameSampleText, .openTypeNameRecords, .openTypeOS2WidthClass, .openTypeOS2WeightClass, 
  .openTypeOS2Selection, .openTypeOS2VendorID, .openTypeOS2Panose, .openTypeOS2FamilyClass, 
  .openTypeOS2UnicodeRanges, .openTypeOS2CodePageRanges, .openTypeOS2Type, .openTypeOS2SubscriptXSize, 
  .openTypeOS2SubscriptYSize, .openTypeOS2SubscriptXOffset, .openTypeOS2SubscriptYOffset, 
  .openTypeOS2SuperscriptXSize, .openTypeOS2SuperscriptYSize, .openTypeOS2SuperscriptXOffset, 
  .openTypeOS2SuperscriptYOffset, .openTypeOS2StrikeoutSize, .openTypeOS2StrikeoutPosition, 
  .openTypeVheaVertTypoAscender, .openTypeVheaVertTypoDescender, .openTypeVheaVertTypoLineGap, 
  .openTypeVheaCaretSlopeRise, .openTypeVheaCaretSlopeRun, .openTypeVheaCaretOffset, 
  .postscriptUniqueID, .postscriptWeightName, .postscriptIsFixedPitch, .postscriptBlueValues, 
  .postscriptOtherBlues, .postscriptFamilyBlues, .postscriptFamilyOtherBlues, .postscriptStemSnapH, 
  .postscriptStemSnapV, .postscriptBlueFuzz, .postscriptBlueShift, .postscriptForceBold, 
  .postscriptDefaultWidthX, .postscriptNominalWidthX, .postscriptDefaultCharacter, 
  .postscriptWindowsCharacterSet, .macintoshFONDFamilyID, .macintoshFONDName, .ascender, .descender, 
  .capHeight, .xHeight, .styleMapFamilyName, .styleMapStyleName, .openTypeHeadCreated, 
  .openTypeHheaAscender, .openTypeHheaDescender, .openTypeHheaCaretSlopeRise, 
  .openTypeHheaCaretSlopeRun, .openTypeNameVersion, .openTypeNameUniqueID, 
  .openTypeNamePreferredFamilyName, .openTypeNamePreferredSubfamilyName, .openTypeNameWWSFamilyName, 
  .openTypeNameWWSSubfamilyName, .openTypeOS2TypoAscender, .openTypeOS2TypoDescender, 
  .openTypeOS2TypoLineGap, .openTypeOS2WinAscent, .openTypeOS2WinDescent, .postscriptFontName, 
  .postscriptFullName, .postscriptSlantAngle, .postscriptUnderlineThickness, 
  .postscriptUnderlinePosition, .postscriptBlueScale, .openTypeGaspRangeRecords]

/-- one entry of `openTypeNameRecords` -/
structure NameRec where
  nameID : Nat
  platformID : Nat
  encodingID : Nat
  languageID : Nat
  string : Str
  deriving DecidableEq, Repr

/-- a font-info value as Python holds it -/
inductive Val
  | none                                  -- `None` / attribute absent
  | num (q : Q)                           -- int, float or bool (False = 0, True = 1)
  | str (s : Str)
  | nums (l : List Q)                     -- bit lists, panose, family class, blues, stems
  | recs (l : List NameRec)               -- openTypeNameRecords
  | gasp (l : List (Q × List Q))          -- openTypeGaspRangeRecords: (rangeMaxPPEM, behaviour bits)
  deriving DecidableEq, Repr

/-- totalised accessors; `wfInfo` (Spec) states the typing under which the defaults are never used -/
def Val.q : Val → Q | .num q => q | _ => 0
def Val.s : Val → Str | .str s => s | _ => []
def Val.l : Val → List Q | .nums l => l | _ => []
def Val.r : Val → List NameRec | .recs l => l | _ => []
def Val.g : Val → List (Q × List Q) | .gasp l => l | _ => []

/-- Python truthiness (`if v:`, `not v`) -/
def Val.truthy : Val → Bool
  | .none => false
  | .num q => q != 0
  | .str s => !s.isEmpty
  | .nums l => !l.isEmpty
  | .recs l => !l.isEmpty
  | .gasp l => !l.isEmpty

/-- `info`: attribute ↦ value, `.none` when the attribute is missing or None -/
abbrev Info := Attr → Val

inductive Err | recursion | keyError | assertion | valueError | indexError | unicodeEncode | unicodeDecode
  deriving DecidableEq, Repr

abbrev R := Except Err

/-- what the model takes from outside ufo2ft -/
structure Env where
  /-- `unicodedata.normalize("NFKD", c)` -/
  nfkd : Char → Str
  /-- `math.tan(math.radians(-italicAngle))` of the effective italic angle (a double) -/
  tan : Q
  /-- `dateStringForNow()` / the SOURCE_DATE_EPOCH string returned by openTypeHeadCreatedFallback -/
  nowString : Str
  /-- `dateStringToTimeValue` on the date strings that occur (strptime + timegm; 0 for unparsable) -/
  dates : List (Str × Int)

/-! ### string helpers (Python `str` methods used by the anchored code) -/

def S (s : String) : Str := s.toList

/-- `str.isspace()` of one character (the Unicode White_Space + separators table of CPython) -/
def pyIsSpace (c : Char) : Bool :=
  let n := c.toNat
  (9 ≤ n && n ≤ 13) || (28 ≤ n && n ≤ 32) || n == 0x85 || n == 0xA0 || n == 0x1680 ||
  (0x2000 ≤ n && n ≤ 0x200A) || n == 0x2028 || n == 0x2029 || n == 0x202F || n == 0x205F || n == 0x3000

def lstrip : Str → Str
  | [] => []
  | c :: s => if pyIsSpace c then lstrip s else c :: s

/-- `s.strip()` -/
def strip (s : Str) : Str := (lstrip (lstrip s).reverse).reverse

/-- `s.lower()` restricted to ASCII letters.  Only used to test membership in / produce one of the four
    ASCII style-map names; no non-ASCII character lowercases to one of their letters (checked by the
    harness over all of Unicode: the only non-ASCII character with an ASCII lower() is U+212A → 'k'). -/
def lowerA (s : Str) : Str := s.map (fun c => if 'A' ≤ c ∧ c ≤ 'Z' then Char.ofNat (c.toNat + 32) else c)

def isAsciiLetter (c : Char) : Bool := ('A' ≤ c && c ≤ 'Z') || ('a' ≤ c && c ≤ 'z')

/-- `s.title()` on ASCII text -/
def titleAux : Bool → Str → Str
  | _, [] => []
  | prevCased, c :: s =>
    if isAsciiLetter c then
      (if prevCased then (lowerA [c]) else [if 'a' ≤ c ∧ c ≤ 'z' then Char.ofNat (c.toNat - 32) else c]) ++ titleAux true s
    else c :: titleAux false s
def title (s : Str) : Str := titleAux false s

/-- `s.ljust(n)` -/
def ljust (n : Nat) (s : Str) : Str := s ++ List.replicate (n - s.length) ' '

/-- `s.zfill(n)` (a leading sign stays in front) -/
def zfill (n : Nat) (s : Str) : Str :=
  match s with
  | c :: r => if c = '-' ∨ c = '+' then c :: (List.replicate (n - s.length) '0' ++ r) else List.replicate (n - s.length) '0' ++ s
  | [] => List.replicate n '0'

/-- `s.replace(pat, rep)` for a non-empty pattern: leftmost non-overlapping occurrences
    (`skip` = characters of a matched occurrence still to be dropped) -/
def replaceAux (pat rep : Str) : Nat → Str → Str
  | _, [] => []
  | skip + 1, _ :: s => replaceAux pat rep skip s
  | 0, c :: s =>
    if pat.isPrefixOf (c :: s) ∧ pat ≠ [] then rep ++ replaceAux pat rep (pat.length - 1) s
    else c :: replaceAux pat rep 0 s
def replaceAll (pat rep s : Str) : Str := replaceAux pat rep 0 s

/-- `"%d" % n` / `str(n)` for an integral number -/
def dec (q : Q) : Str := (toString (truncQ q)).toList

/-! ### staticFallbackData -/

def zeros (n : Nat) : List Q := List.replicate n 0

def static : Attr → Val
  | .versionMajor => .num 0 | .versionMinor => .num 0
  | .familyName => .str (S "New Font") | .styleName => .str (S "Regular")
  | .unitsPerEm => .num 1000 | .italicAngle => .num 0
  | .openTypeHeadLowestRecPPEM => .num 6 | .openTypeHeadFlags => .nums [0, 1]
  | .openTypeHheaLineGap => .num 0 | .openTypeHheaCaretOffset => .num 0
  | .openTypeNameRecords => .recs []
  | .openTypeOS2WidthClass => .num 5 | .openTypeOS2WeightClass => .num 400
  | .openTypeOS2Selection => .nums [] | .openTypeOS2VendorID => .str (S "NONE")
  | .openTypeOS2Panose => .nums (zeros 10) | .openTypeOS2FamilyClass => .nums [0, 0]
  | .openTypeOS2Type => .nums [2]
  | .openTypeVheaCaretSlopeRise => .num 0 | .openTypeVheaCaretSlopeRun => .num 1 | .openTypeVheaCaretOffset => .num 0
  | .postscriptIsFixedPitch => .num 0
  | .postscriptBlueValues => .nums [] | .postscriptOtherBlues => .nums []
  | .postscriptFamilyBlues => .nums [] | .postscriptFamilyOtherBlues => .nums []
  | .postscriptStemSnapH => .nums [] | .postscriptStemSnapV => .nums []
  | .postscriptBlueFuzz => .num 0 | .postscriptBlueShift => .num 7 | .postscriptForceBold => .num 0
  | .postscriptDefaultWidthX => .num 200 | .postscriptNominalWidthX => .num 0
  | _ => .none

/-- `attr in specialFallbacks` -/
def isSpecial : Attr → Bool
  | .ascender | .descender | .capHeight | .xHeight | .styleMapFamilyName | .styleMapStyleName
  | .openTypeHeadCreated | .openTypeHheaAscender | .openTypeHheaDescender | .openTypeHheaCaretSlopeRise
  | .openTypeHheaCaretSlopeRun | .openTypeNameVersion | .openTypeNameUniqueID
  | .openTypeNamePreferredFamilyName | .openTypeNamePreferredSubfamilyName | .openTypeNameWWSFamilyName
  | .openTypeNameWWSSubfamilyName | .openTypeOS2TypoAscender | .openTypeOS2TypoDescender
  | .openTypeOS2TypoLineGap | .openTypeOS2WinAscent | .openTypeOS2WinDescent | .postscriptFontName
  | .postscriptFullName | .postscriptSlantAngle | .postscriptUnderlineThickness
  | .postscriptUnderlinePosition | .postscriptBlueScale => true
  | _ => false

/-- `attr in staticFallbackData` (every modelled attribute except the special ones and the gasp records) -/
def isStatic (a : Attr) : Bool := !isSpecial a && a != .openTypeGaspRangeRecords

/-! ### normalizeStringForPostscript -/

/-- `_postscriptFontNameExceptions = set("[](){}<>/%")` -/
def psExceptions : Str := S "[](){}<>/%"
/-- `_postscriptFontNameAllowed = {chr(i) for i in range(33, 127)}` -/
def psAllowed (c : Char) : Bool := 33 ≤ c.toNat && c.toNat ≤ 126
def psAllowedList : Str := (List.range 94).map (fun i => Char.ofNat (i + 33))

/-- `set(d) < _postscriptFontNameAllowed`: subset and not equal (a *strict* subset test) -/
def strictSubsetAllowed (d : Str) : Bool :=
  d.all psAllowed && !(decide (94 ≤ d.length) && psAllowedList.all (fun a => d.contains a))

/-- `c.encode("ascii", errors="replace").decode()` -/
def asciiReplace (d : Str) : Str := d.map (fun c => if c.toNat < 128 then c else '?')

/-- the second filter (added by the repair f81aa08): from the decomposed / ascii-replaced characters drop the
    exceptions and (unless spaces are allowed) the spaces, and turn whatever else is not allowed into '?' -/
def refilter (allowSpaces : Bool) (d : Str) : Str :=
  (d.filter (fun ch => !psExceptions.contains ch && !(ch == ' ' && !allowSpaces))).map
    (fun ch => if psAllowed ch || (ch == ' ' && allowSpaces) then ch else '?')

/-- one iteration of the loop of normalizeStringForPostscript: what character `c` appends -/
def normChar (nfkd : Char → Str) (allowSpaces : Bool) (c : Char) : Str :=
  if c = ' ' ∧ !allowSpaces then []
  else if psExceptions.contains c then []
  else if !psAllowed c then
    let d := nfkd c
    refilter allowSpaces (if !strictSubsetAllowed d then asciiReplace d else d)
  else [c]

def normalizePS (nfkd : Char → Str) (allowSpaces : Bool) : Str → Str
  | [] => []
  | c :: s => normChar nfkd allowSpaces c ++ normalizePS nfkd allowSpaces s

/-- normalizeNameForPostscript -/
def normalizeName (nfkd : Char → Str) (s : Str) : Str := normalizePS nfkd false s

/-! ### intListToNum -/

/-- the loop: `bin` is the current (partial) byte, most significant bit first; `all` the finished bytes in
    the order they were appended -/
def bitsLoop (l : List Q) : Nat → Nat → List (List Bool) → List Bool → List (List Bool) × List Bool
  | _, 0, all, bin => (all, bin)
  | i, k + 1, all, bin =>
    let bin' := l.contains (i : Q) :: bin
    if (i + 1) % 8 = 0 then bitsLoop l (i + 1) k (all ++ [bin']) [] else bitsLoop l (i + 1) k all bin'

/-- fontTools.misc.textTools.binary2num on the digits (blanks already removed) -/
def binary2num (bits : List Bool) : Nat := bits.foldl (fun v b => 2 * v + (if b then 1 else 0)) 0

def intListToNum (l : List Q) (start length : Nat) : Nat :=
  let r := bitsLoop l start length [] []
  let all := if r.2.isEmpty then r.1 else r.1 ++ [r.2]
  binary2num all.reverse.flatten

/-! ### specialFallbacks and getAttrWithFallback -/

def styleMapNames : List Str := [S "regular", S "bold", S "italic", S "bold italic"]

def c0_8 : Q := lit 8 10
def c0_2 : Q := lit 2 10
def c0_7 : Q := lit 7 10
def c0_5 : Q := lit 5 10
def c1_2 : Q := lit 12 10
def c0_05 : Q := lit 5 100
def cm0_075 : Q := lit (-75) 1000
def c0_039625 : Q := lit 39625 1000000

/-- `for x, y in zip(blues[:-1:2], blues[1::2]): m = max(m, abs(y - x))` -/
def zoneLoop : List Q → Q → Q
  | x :: y :: rest, m => zoneLoop rest (max m (absQ (fsub y x)))
  | _, m => m

/-- the functions of `specialFallbacks`; `g` is `getAttrWithFallback(info, ·)` -/
def special (g : Attr → R Val) (info : Info) (env : Env) : Attr → R Val
  | .ascender => do let upm ← g .unitsPerEm; return .num (otRoundF (fmul upm.q c0_8))
  | .descender => do let upm ← g .unitsPerEm; return .num (-(otRoundF (fmul upm.q c0_2)))
  | .capHeight => do let upm ← g .unitsPerEm; return .num (otRoundF (fmul upm.q c0_7))
  | .xHeight => do let upm ← g .unitsPerEm; return .num (otRoundF (fmul upm.q c0_5))
  | .styleMapFamilyName => do
    let fam ← g .openTypeNamePreferredFamilyName
    let sn0 := info .styleMapStyleName
    let sn ← if !sn0.truthy then g .openTypeNamePreferredSubfamilyName else pure sn0
    let sn' : Str := if sn = .none then [] else if styleMapNames.contains (lowerA sn.s) then [] else sn.s
    return .str (strip (fam.s ++ [' '] ++ sn'))
  | .styleMapStyleName => do
    let sn ← g .openTypeNamePreferredSubfamilyName
    if sn = .none then return .str (S "regular")
    else if !styleMapNames.contains (lowerA (strip sn.s)) then return .str (S "regular")
    else return .str (lowerA (strip sn.s))
  | .openTypeHeadCreated => return .str env.nowString
  | .openTypeHheaAscender => do
    let a ← g .ascender; let lg ← g .openTypeOS2TypoLineGap; return .num (fadd a.q lg.q)
  | .openTypeHheaDescender => g .descender
  | .openTypeHheaCaretSlopeRise => do
    let ia ← g .italicAngle
    if ia.q ≠ 0 ∧ info .openTypeHheaCaretSlopeRun ≠ .none then
      return .num (otRoundF (fdiv (info .openTypeHheaCaretSlopeRun).q env.tan))
    else g .unitsPerEm
  | .openTypeHheaCaretSlopeRun => do
    let ia ← g .italicAngle
    if ia.q ≠ 0 then
      let rise ← g .openTypeHheaCaretSlopeRise
      return .num (otRoundF (fmul env.tan rise.q))
    else return .num 0
  | .openTypeNameVersion => do
    let ma ← g .versionMajor; let mi ← g .versionMinor
    return .str (S "Version " ++ dec ma.q ++ ['.'] ++ zfill 3 (dec mi.q))
  | .openTypeNameUniqueID => do
    let v ← g .openTypeNameVersion; let vendor ← g .openTypeOS2VendorID; let fn ← g .postscriptFontName
    return .str (replaceAll (S "Version ") [] v.s ++ [';'] ++ vendor.s ++ [';'] ++ fn.s)
  | .openTypeNamePreferredFamilyName => g .familyName
  | .openTypeNamePreferredSubfamilyName => g .styleName
  | .openTypeNameWWSFamilyName => return .none
  | .openTypeNameWWSSubfamilyName => return .none
  | .openTypeOS2TypoAscender => g .ascender
  | .openTypeOS2TypoDescender => g .descender
  | .openTypeOS2TypoLineGap => do
    let upm ← g .unitsPerEm; let a ← g .ascender; let d ← g .descender
    return .num (max (fadd (fsub (truncQ (fmul upm.q c1_2)) a.q) d.q) 0)
  | .openTypeOS2WinAscent => do
    let a ← g .ascender; let lg ← g .openTypeOS2TypoLineGap; return .num (fadd a.q lg.q)
  | .openTypeOS2WinDescent => do let d ← g .descender; return .num (absQ d.q)
  | .postscriptFontName => do
    let f ← g .openTypeNamePreferredFamilyName; let s ← g .openTypeNamePreferredSubfamilyName
    return .str (normalizeName env.nfkd (f.s ++ ['-'] ++ s.s))
  | .postscriptFullName => do
    let f ← g .openTypeNamePreferredFamilyName; let s ← g .openTypeNamePreferredSubfamilyName
    return .str (f.s ++ [' '] ++ s.s)
  | .postscriptSlantAngle => g .italicAngle
  | .postscriptUnderlineThickness => do let upm ← g .unitsPerEm; return .num (fmul upm.q c0_05)
  | .postscriptUnderlinePosition => do let upm ← g .unitsPerEm; return .num (fmul upm.q cm0_075)
  | .postscriptBlueScale => do
    let blues ← g .postscriptBlueValues; let other ← g .postscriptOtherBlues
    if blues.truthy ∧ blues.l.length % 2 ≠ 0 then throw .assertion
    let m1 := if blues.truthy then zoneLoop blues.l 0 else 0
    if other.truthy ∧ other.l.length % 2 ≠ 0 then throw .assertion
    let m2 := if other.truthy then zoneLoop other.l m1 else m1
    if m2 ≠ 0 then return .num (fdiv 3 (fmul 4 m2)) else return .num c0_039625
  | _ => throw .keyError

/-- the call graph of the special fallbacks as data: which attributes `specialFallbacks[a]` may ask
    `getAttrWithFallback` for (direct reads of `info.x` are not calls) -/
def deps : Attr → List Attr
  | .ascender | .descender | .capHeight | .xHeight => [.unitsPerEm]
  | .styleMapFamilyName => [.openTypeNamePreferredFamilyName, .openTypeNamePreferredSubfamilyName]
  | .styleMapStyleName => [.openTypeNamePreferredSubfamilyName]
  | .openTypeHheaAscender => [.ascender, .openTypeOS2TypoLineGap]
  | .openTypeHheaDescender => [.descender]
  | .openTypeHheaCaretSlopeRise => [.italicAngle, .unitsPerEm]
  | .openTypeHheaCaretSlopeRun => [.italicAngle, .openTypeHheaCaretSlopeRise]
  | .openTypeNameVersion => [.versionMajor, .versionMinor]
  | .openTypeNameUniqueID => [.openTypeNameVersion, .openTypeOS2VendorID, .postscriptFontName]
  | .openTypeNamePreferredFamilyName => [.familyName]
  | .openTypeNamePreferredSubfamilyName => [.styleName]
  | .openTypeOS2TypoAscender => [.ascender]
  | .openTypeOS2TypoDescender => [.descender]
  | .openTypeOS2TypoLineGap => [.unitsPerEm, .ascender, .descender]
  | .openTypeOS2WinAscent => [.ascender, .openTypeOS2TypoLineGap]
  | .openTypeOS2WinDescent => [.descender]
  | .postscriptFontName => [.openTypeNamePreferredFamilyName, .openTypeNamePreferredSubfamilyName]
  | .postscriptFullName => [.openTypeNamePreferredFamilyName, .openTypeNamePreferredSubfamilyName]
  | .postscriptSlantAngle => [.italicAngle]
  | .postscriptUnderlineThickness => [.unitsPerEm]
  | .postscriptUnderlinePosition => [.unitsPerEm]
  | .postscriptBlueScale => [.postscriptBlueValues, .postscriptOtherBlues]
  | _ => []

/-- a rank that strictly decreases along every edge of `deps` (Props: `deps_rank`) -/
def rank : Attr → Nat
  | .ascender | .descender | .capHeight | .xHeight | .openTypeHheaCaretSlopeRise | .openTypeNameVersion
  | .openTypeNamePreferredFamilyName | .openTypeNamePreferredSubfamilyName | .postscriptSlantAngle
  | .postscriptUnderlineThickness | .postscriptUnderlinePosition | .postscriptBlueScale => 1
  | .styleMapFamilyName | .styleMapStyleName | .openTypeHheaDescender | .openTypeHheaCaretSlopeRun
  | .openTypeOS2TypoAscender | .openTypeOS2TypoDescender | .openTypeOS2TypoLineGap | .openTypeOS2WinDescent
  | .postscriptFontName | .postscriptFullName => 2
  | .openTypeHheaAscender | .openTypeNameUniqueID | .openTypeOS2WinAscent => 3
  | _ => 0

/-- getAttrWithFallback with a recursion budget (`0` = Python's RecursionError) -/
def get : Nat → Info → Env → Attr → R Val
  | 0, _, _, _ => throw .recursion
  | n + 1, info, env, a =>
    if info a ≠ .none then pure (info a)
    else if isSpecial a then special (get n info env) info env a
    else if isStatic a then pure (static a)
    else throw .keyError

/-- the budget used by the executable model; `Props` shows every budget ≥ 4 gives the same answer -/
def fuel : Nat := 8

/-- the info-fed table fields the model predicts -/
inductive Field
  | head_fontRevision | head_unitsPerEm | head_created | head_macStyle | head_flags
  | head_lowestRecPPEM | hhea_ascent | hhea_descent | hhea_lineGap | hhea_caretSlopeRise
  | hhea_caretSlopeRun | hhea_caretOffset | vhea_ascent | vhea_descent | vhea_lineGap
  | vhea_caretSlopeRise | vhea_caretSlopeRun | vhea_caretOffset | OS2_usWeightClass | OS2_usWidthClass
  | OS2_fsType | OS2_ySubscriptXSize | OS2_ySubscriptYSize | OS2_ySubscriptXOffset
  | OS2_ySubscriptYOffset | OS2_ySuperscriptXSize | OS2_ySuperscriptYSize | OS2_ySuperscriptXOffset
  | OS2_ySuperscriptYOffset | OS2_yStrikeoutSize | OS2_yStrikeoutPosition | OS2_sFamilyClass
  | OS2_panose | OS2_ulUnicodeRange1 | OS2_ulUnicodeRange2 | OS2_ulUnicodeRange3 | OS2_ulUnicodeRange4
  | OS2_ulCodePageRange1 | OS2_ulCodePageRange2 | OS2_achVendID | OS2_sxHeight | OS2_sCapHeight
  | OS2_sTypoAscender | OS2_sTypoDescender | OS2_sTypoLineGap | OS2_usWinAscent | OS2_usWinDescent
  | OS2_fsSelection | post_italicAngle | post_underlinePosition | post_underlineThickness
  | post_isFixedPitch | gasp | CFF_fontName | CFF_version | CFF_Notice | CFF_Copyright | CFF_FullName
  | CFF_FamilyName | CFF_Weight | CFF_isFixedPitch | CFF_ItalicAngle | CFF_UnderlinePosition
  | CFF_UnderlineThickness | CFF_FontMatrix | CFF_defaultWidthX | CFF_nominalWidthX | CFF_BlueFuzz
  | CFF_BlueShift | CFF_BlueScale | CFF_ForceBold | CFF_BlueValues | CFF_OtherBlues | CFF_FamilyBlues
  | CFF_FamilyOtherBlues | CFF_StemSnapH | CFF_StdHW | CFF_StemSnapV | CFF_StdVW
  deriving DecidableEq, Repr

def Field.all : List Field := [
  .head_fontRevision, .head_unitsPerEm, .head_created, .head_macStyle, .head_flags,
  .head_lowestRecPPEM, .hhea_ascent, .hhea_descent, .hhea_lineGap, .hhea_caretSlopeRise,
  .hhea_caretSlopeRun, .hhea_caretOffset, .vhea_ascent, .vhea_descent, .vhea_lineGap,
  .vhea_caretSlopeRise, .vhea_caretSlopeRun, .vhea_caretOffset, .OS2_usWeightClass, .OS2_usWidthClass,
  .OS2_fsType, .OS2_ySubscriptXSize, .OS2_ySubscriptYSize, .OS2_ySubscriptXOffset,
  .OS2_ySubscriptYOffset, .OS2_ySuperscriptXSize, .OS2_ySuperscriptYSize, .OS2_ySuperscriptXOffset,
  .OS2_ySuperscriptYOffset, .OS2_yStrikeoutSize, .OS2_yStrikeoutPosition, .OS2_sFamilyClass,
  .OS2_panose, .OS2_ulUnicodeRange1, .OS2_ulUnicodeRange2, .OS2_ulUnicodeRange3, .OS2_ulUnicodeRange4,
  .OS2_ulCodePageRange1, .OS2_ulCodePageRange2, .OS2_achVendID, .OS2_sxHeight, .OS2_sCapHeight,
  .OS2_sTypoAscender, .OS2_sTypoDescender, .OS2_sTypoLineGap, .OS2_usWinAscent, .OS2_usWinDescent,
  .OS2_fsSelection, .post_italicAngle, .post_underlinePosition, .post_underlineThickness,
  .post_isFixedPitch, .gasp, .CFF_fontName, .CFF_version, .CFF_Notice, .CFF_Copyright, .CFF_FullName,
  .CFF_FamilyName, .CFF_Weight, .CFF_isFixedPitch, .CFF_ItalicAngle, .CFF_UnderlinePosition,
  .CFF_UnderlineThickness, .CFF_FontMatrix, .CFF_defaultWidthX, .CFF_nominalWidthX, .CFF_BlueFuzz,
  .CFF_BlueShift, .CFF_BlueScale, .CFF_ForceBold, .CFF_BlueValues, .CFF_OtherBlues, .CFF_FamilyBlues,
  .CFF_FamilyOtherBlues, .CFF_StemSnapH, .CFF_StdHW, .CFF_StemSnapV, .CFF_StdVW]

/-- value of a table field -/
inductive FVal
  | none                      -- field / dict key not written
  | unspecified               -- written, but not determined by font info (computed from glyphs or the cmap)
  | num (q : Q)
  | str (s : Str)
  | nums (l : List Q)
  deriving DecidableEq, Repr

def numI (i : Int) : FVal := .num (i : Q)
def numN (n : Nat) : FVal := .num (n : Q)

/-! ### name table -/

structure NameKey where
  id : Nat
  plat : Nat
  enc : Nat
  lang : Nat
  deriving DecidableEq, Repr

abbrev NameTable := List (NameKey × Str)

/-- `_isNonBMP` -/
def isNonBMP (s : Str) : Bool := s.any (fun c => decide (0xFFFF < c.toNat))

/-- `name.setName(string, …)`: overwrite the first record with the same key, else append -/
def setName (k : NameKey) (v : Str) : NameTable → NameTable
  | [] => [(k, v)]
  | (k', v') :: t => if k' = k then (k, v) :: t else (k', v') :: setName k v t

/-- `name.getName(…)` -/
def getName (k : NameKey) (t : NameTable) : Option Str := (t.find? (fun e => e.1 = k)).map (·.2)

/-- the `nameVals` dict, in `sorted(nameVals.keys())` order, after the elision and the nameID 6 normalisation -/
def nameVals (g : Attr → Val) (env : Env) : List (Nat × Val) :=
  let fam := g .styleMapFamilyName
  let sty := Val.str (title (g .styleMapStyleName).s)
  let pfam := g .openTypeNamePreferredFamilyName
  let psub := g .openTypeNamePreferredSubfamilyName
  let full := Val.str (pfam.s ++ [' '] ++ psub.s)
  let ps := g .postscriptFontName
  let ps6 := if ps.truthy then Val.str (normalizePS env.nfkd true ps.s) else ps
  let typo := if fam = pfam ∧ sty = psub then [] else [(16, pfam), (17, psub)]
  [(0, g .copyright), (1, fam), (2, sty), (3, g .openTypeNameUniqueID), (4, full), (5, g .openTypeNameVersion),
   (6, ps6), (7, g .trademark), (8, g .openTypeNameManufacturer), (9, g .openTypeNameDesigner),
   (10, g .openTypeNameDescription), (11, g .openTypeNameManufacturerURL), (12, g .openTypeNameDesignerURL),
   (13, g .openTypeNameLicense), (14, g .openTypeNameLicenseURL)] ++ typo ++
  [(18, g .openTypeNameCompatibleFullName), (19, g .openTypeNameSampleText),
   (21, g .openTypeNameWWSFamilyName), (22, g .openTypeNameWWSSubfamilyName)]

/-- first loop of setupTable_name -/
def builtinLoop : List (Nat × Val) → NameTable → NameTable
  | [], t => t
  | (id, v) :: rest, t =>
    if !v.truthy then builtinLoop rest t
    else
      let k : NameKey := ⟨id, 3, if isNonBMP v.s then 10 else 1, 0x409⟩
      if (getName k t).isSome then builtinLoop rest t else builtinLoop rest (setName k v.s t)

/-- second loop: `openTypeNameRecords` -/
def recordsLoop : List NameRec → NameTable → NameTable
  | [], t => t
  | r :: rest, t => recordsLoop rest (setName ⟨r.nameID, r.platformID, r.encodingID, r.languageID⟩ r.string t)

def nameTable (g : Attr → Val) (env : Env) : NameTable :=
  recordsLoop (g .openTypeNameRecords).r (builtinLoop (nameVals g env) [])

/-! ### table fields -/

structure Ctx where
  otf : Bool
  reloaded : Bool
  /-- the font has TrueType outlines and `maxp.recalc` has run (OutlineTTFCompiler.setupTable_glyf calls it):
      fontTools then sets bit 1 of head.flags iff every glyph's left side bearing equals its xMin, which
      setupTable_hmtx guarantees -/
  glyf : Bool
  /-- the CFF table has been serialised (TTFont.save, or the subroutiniser inside compileOTF) -/
  cffWritten : Bool

/-- `self.vertical`: all three vhea metrics are not None -/
def isVertical (g : Attr → Val) : Bool :=
  g .openTypeVheaVertTypoAscender ≠ .none ∧ g .openTypeVheaVertTypoDescender ≠ .none ∧
  g .openTypeVheaVertTypoLineGap ≠ .none

def roundV (v : Val) : FVal := numI (otRoundF v.q)
def bits (v : Val) (start len : Nat) : FVal := numN (intListToNum v.l start len)

/-- `adjustOffset(offset, angle)` of setupTable_OS2 -/
def adjustOffset (env : Env) (offset angle : Q) : Q := if angle ≠ 0 then fmul offset env.tan else 0

def subXSize (g : Attr → Val) : Int :=
  let v := g .openTypeOS2SubscriptXSize
  otRoundF (if v = .none then fmul (g .unitsPerEm).q (lit 65 100) else v.q)
def subYSize (g : Attr → Val) : Int :=
  let v := g .openTypeOS2SubscriptYSize
  otRoundF (if v = .none then fmul (g .unitsPerEm).q (lit 6 10) else v.q)
def subYOffset (g : Attr → Val) : Int :=
  let v := g .openTypeOS2SubscriptYOffset
  otRoundF (if v = .none then fmul (g .unitsPerEm).q (lit 75 1000) else v.q)
def subXOffset (g : Attr → Val) (env : Env) : Int :=
  let v := g .openTypeOS2SubscriptXOffset
  otRoundF (if v = .none then adjustOffset env (-(subYOffset g : Q)) (g .italicAngle).q else v.q)
def supXSize (g : Attr → Val) : Int :=
  let v := g .openTypeOS2SuperscriptXSize
  otRoundF (if v = .none then (subXSize g : Q) else v.q)
def supYSize (g : Attr → Val) : Int :=
  let v := g .openTypeOS2SuperscriptYSize
  otRoundF (if v = .none then (subYSize g : Q) else v.q)
def supYOffset (g : Attr → Val) : Int :=
  let v := g .openTypeOS2SuperscriptYOffset
  otRoundF (if v = .none then fmul (g .unitsPerEm).q (lit 35 100) else v.q)
def supXOffset (g : Attr → Val) (env : Env) : Int :=
  let v := g .openTypeOS2SuperscriptXOffset
  otRoundF (if v = .none then adjustOffset env (supYOffset g : Q) (g .italicAngle).q else v.q)
def strikeSize (g : Attr → Val) : Int :=
  let v := g .openTypeOS2StrikeoutSize
  otRoundF (if v = .none then (g .postscriptUnderlineThickness).q else v.q)
def strikePos (g : Attr → Val) : Int :=
  let v := g .openTypeOS2StrikeoutPosition
  let xh := g .xHeight
  otRoundF (if v = .none then (if xh.truthy then fmul xh.q (lit 6 10) else fmul (g .unitsPerEm).q (lit 22 100)) else v.q)

/-- the macStyle bit list of setupTable_head -/
def macStyleBits (sm : Val) : List Q :=
  if sm = .str (S "bold") then [0] else if sm = .str (S "bold italic") then [0, 1]
  else if sm = .str (S "italic") then [1] else []

/-- the fsSelection bit list of setupTable_OS2 -/
def selectionBits (sel sm : Val) : List Q :=
  if sm = .str (S "regular") then sel.l ++ [6] else if sm = .str (S "bold") then sel.l ++ [5]
  else if sm = .str (S "italic") then sel.l ++ [0] else if sm = .str (S "bold italic") then sel.l ++ [0, 5]
  else sel.l

/-- `float("%d.%03d" % (major, minor))` then `round(·, 3)` -/
def fontRevision (major minor : Q) : Q :=
  let mi := (truncQ minor).toNat
  let digits := max 3 (toString mi).length
  round3 (fl ((truncQ major : Q) + (mi : Q) / ((10 ^ digits : Nat) : Q)))

/-- `dateStringToTimeValue` via the table in `env` -/
def timeValue (env : Env) (s : Str) : Int := ((env.dates.find? (fun e => e.1 = s)).map (·.2)).getD 0

/-- `mac_epoch_diff = calendar.timegm((1904, 1, 1, 0, 0, 0, 0, 0, 0))` -/
def macEpochDiff : Int := -2082844800

/-- InstructionCompiler.setupTable_gasp: dict ppem ↦ behaviour (later records overwrite), shown sorted by ppem -/
def gaspInsert (k v : Q) : List (Q × Q) → List (Q × Q)
  | [] => [(k, v)]
  | (k', v') :: t => if k' = k then (k, v) :: t else (k', v') :: gaspInsert k v t
def gaspDict : List (Q × List Q) → List (Q × Q) → List (Q × Q)
  | [], d => d
  | (ppem, b) :: rest, d => gaspDict rest (gaspInsert ppem (intListToNum b 0 4 : Q) d)
def gaspField (v : Val) : FVal :=
  if !v.truthy then .none
  else .nums (((gaspDict v.g []).mergeSort (fun a b => decide (a.1 ≤ b.1))).flatMap (fun e => [e.1, e.2]))

def roundList (v : Val) : List Q := v.l.map (fun x => ((otRoundF x : Int) : Q))

/-- normalised Notice / Copyright of the CFF top dict -/
def cffNotice (env : Env) (v : Val) : Str :=
  if v.truthy then normalizePS env.nfkd true (replaceAll [Char.ofNat 0xA9] (S "Copyright") v.s)
  else v.s   -- None → "", "" stays ""

def anyBlues (g : Attr → Val) : Bool :=
  !(roundList (g .postscriptBlueValues)).isEmpty || !(roundList (g .postscriptOtherBlues)).isEmpty ||
  !(roundList (g .postscriptFamilyBlues)).isEmpty || !(roundList (g .postscriptFamilyOtherBlues)).isEmpty

def bothStems (g : Attr → Val) : Bool :=
  !(roundList (g .postscriptStemSnapH)).isEmpty && !(roundList (g .postscriptStemSnapV)).isEmpty

def listField (cond : Bool) (v : Val) : FVal := if cond ∧ !(roundList v).isEmpty then .nums (roundList v) else .none

/-- every info-fed field as a reader of the font sees it (a private-dict operator ufo2ft does not write shows
    the CFF default: BlueFuzz 1, BlueShift 7, BlueScale 0.039625, ForceBold 0, widths 0), given `g = getAttrWithFallback(info, ·)` (already evaluated), the raw `info`
    (for the two direct reads) and the externals -/
def fieldVal (g : Attr → Val) (info : Info) (env : Env) (ctx : Ctx) : Field → FVal
  | .head_fontRevision =>
    let r := fontRevision (g .versionMajor).q (g .versionMinor).q
    .num (if ctx.reloaded then fixed16 r else r)
  | .head_unitsPerEm => roundV (g .unitsPerEm)
  | .head_created => numI (timeValue env (g .openTypeHeadCreated).s - macEpochDiff)
  | .head_macStyle => numN (intListToNum (macStyleBits (g .styleMapStyleName)) 0 16)
  | .head_flags => numN (intListToNum ((g .openTypeHeadFlags).l ++ (if ctx.glyf then [1] else [])) 0 16)
  | .head_lowestRecPPEM => roundV (g .openTypeHeadLowestRecPPEM)
  | .hhea_ascent => roundV (g .openTypeHheaAscender)
  | .hhea_descent => roundV (g .openTypeHheaDescender)
  | .hhea_lineGap => roundV (g .openTypeHheaLineGap)
  | .hhea_caretSlopeRise => roundV (g .openTypeHheaCaretSlopeRise)
  | .hhea_caretSlopeRun => roundV (g .openTypeHheaCaretSlopeRun)
  | .hhea_caretOffset => roundV (g .openTypeHheaCaretOffset)
  | .vhea_ascent => if isVertical g then roundV (g .openTypeVheaVertTypoAscender) else .none
  | .vhea_descent => if isVertical g then roundV (g .openTypeVheaVertTypoDescender) else .none
  | .vhea_lineGap => if isVertical g then roundV (g .openTypeVheaVertTypoLineGap) else .none
  | .vhea_caretSlopeRise => if isVertical g then roundV (g .openTypeVheaCaretSlopeRise) else .none
  | .vhea_caretSlopeRun => if isVertical g then roundV (g .openTypeVheaCaretSlopeRun) else .none
  | .vhea_caretOffset => if isVertical g then roundV (g .openTypeVheaCaretOffset) else .none
  | .OS2_usWeightClass => .num (g .openTypeOS2WeightClass).q
  | .OS2_usWidthClass => .num (g .openTypeOS2WidthClass).q
  | .OS2_fsType => bits (g .openTypeOS2Type) 0 16
  | .OS2_ySubscriptXSize => numI (subXSize g)
  | .OS2_ySubscriptYSize => numI (subYSize g)
  | .OS2_ySubscriptXOffset => numI (subXOffset g env)
  | .OS2_ySubscriptYOffset => numI (subYOffset g)
  | .OS2_ySuperscriptXSize => numI (supXSize g)
  | .OS2_ySuperscriptYSize => numI (supYSize g)
  | .OS2_ySuperscriptXOffset => numI (supXOffset g env)
  | .OS2_ySuperscriptYOffset => numI (supYOffset g)
  | .OS2_yStrikeoutSize => numI (strikeSize g)
  | .OS2_yStrikeoutPosition => numI (strikePos g)
  | .OS2_sFamilyClass =>
    let fc := (g .openTypeOS2FamilyClass).l
    .num (fc.getD 0 0 * 256 + fc.getD 1 0)
  | .OS2_panose => .nums ((g .openTypeOS2Panose).l.take 10)
  | .OS2_ulUnicodeRange1 => if g .openTypeOS2UnicodeRanges = .none then .unspecified else bits (g .openTypeOS2UnicodeRanges) 0 32
  | .OS2_ulUnicodeRange2 => if g .openTypeOS2UnicodeRanges = .none then .unspecified else bits (g .openTypeOS2UnicodeRanges) 32 32
  | .OS2_ulUnicodeRange3 => if g .openTypeOS2UnicodeRanges = .none then .unspecified else bits (g .openTypeOS2UnicodeRanges) 64 32
  | .OS2_ulUnicodeRange4 => if g .openTypeOS2UnicodeRanges = .none then .unspecified else bits (g .openTypeOS2UnicodeRanges) 96 32
  | .OS2_ulCodePageRange1 => if g .openTypeOS2CodePageRanges = .none then .unspecified else bits (g .openTypeOS2CodePageRanges) 0 32
  | .OS2_ulCodePageRange2 => if g .openTypeOS2CodePageRanges = .none then .unspecified else bits (g .openTypeOS2CodePageRanges) 32 32
  | .OS2_achVendID => .str (ljust 4 (g .openTypeOS2VendorID).s)
  | .OS2_sxHeight => roundV (g .xHeight)
  | .OS2_sCapHeight => roundV (g .capHeight)
  | .OS2_sTypoAscender => roundV (g .openTypeOS2TypoAscender)
  | .OS2_sTypoDescender => roundV (g .openTypeOS2TypoDescender)
  | .OS2_sTypoLineGap => roundV (g .openTypeOS2TypoLineGap)
  | .OS2_usWinAscent => roundV (g .openTypeOS2WinAscent)
  | .OS2_usWinDescent => roundV (g .openTypeOS2WinDescent)
  | .OS2_fsSelection => numN (intListToNum (selectionBits (g .openTypeOS2Selection) (g .styleMapStyleName)) 0 16)
  | .post_italicAngle => .num (if ctx.reloaded then fixed16 (g .italicAngle).q else (g .italicAngle).q)
  | .post_underlinePosition => roundV (g .postscriptUnderlinePosition)
  | .post_underlineThickness => roundV (g .postscriptUnderlineThickness)
  | .post_isFixedPitch => numI (truncQ (g .postscriptIsFixedPitch).q)
  | .gasp => if ctx.otf then .none else gaspField (info .openTypeGaspRangeRecords)
  | .CFF_fontName => if ctx.otf then .str (g .postscriptFontName).s else .none
  | .CFF_version => if ctx.otf then .str (dec (g .versionMajor).q ++ ['.'] ++ dec (g .versionMinor).q) else .none
  | .CFF_Notice => if ctx.otf then .str (cffNotice env (g .trademark)) else .none
  | .CFF_Copyright => if ctx.otf then .str (cffNotice env (g .copyright)) else .none
  | .CFF_FullName => if ctx.otf then .str (g .postscriptFullName).s else .none
  | .CFF_FamilyName => if ctx.otf then .str (g .openTypeNamePreferredFamilyName).s else .none
  | .CFF_Weight => if ctx.otf ∧ g .postscriptWeightName ≠ .none then .str (g .postscriptWeightName).s else .none
  | .CFF_isFixedPitch => if ctx.otf then numI (truncQ (g .postscriptIsFixedPitch).q) else .none
  | .CFF_ItalicAngle => if ctx.otf then .num (g .italicAngle).q else .none
  | .CFF_UnderlinePosition => if ctx.otf then roundV (g .postscriptUnderlinePosition) else .none
  | .CFF_UnderlineThickness => if ctx.otf then roundV (g .postscriptUnderlineThickness) else .none
  | .CFF_FontMatrix =>
    if !ctx.otf then .none else if ctx.reloaded then .unspecified else .num (fdiv 1 (otRoundF (g .unitsPerEm).q))
  | .CFF_defaultWidthX =>
    if !ctx.otf then .none
    else if info .postscriptDefaultWidthX = .none ∧ info .postscriptNominalWidthX = .none then .unspecified
    else roundV (g .postscriptDefaultWidthX)    -- `if defaultWidthX:` skips 0, which is also the CFF default
  | .CFF_nominalWidthX =>
    if !ctx.otf then .none
    else if info .postscriptDefaultWidthX = .none ∧ info .postscriptNominalWidthX = .none then .unspecified
    else roundV (g .postscriptNominalWidthX)
  | .CFF_BlueFuzz => if !ctx.otf then .none else if anyBlues g then roundV (g .postscriptBlueFuzz) else .num 1
  | .CFF_BlueShift => if !ctx.otf then .none else if anyBlues g then roundV (g .postscriptBlueShift) else .num 7
  | .CFF_BlueScale =>
    if !ctx.otf then .none else if ctx.reloaded then .unspecified   -- CFF reals are stored as decimal text
    else if anyBlues g then .num (g .postscriptBlueScale).q else .num c0_039625
  | .CFF_ForceBold => if !ctx.otf then .none else if anyBlues g then .num (g .postscriptForceBold).q else .num 0
  | .CFF_BlueValues => listField (ctx.otf ∧ anyBlues g) (g .postscriptBlueValues)
  | .CFF_OtherBlues => listField (ctx.otf ∧ anyBlues g) (g .postscriptOtherBlues)
  | .CFF_FamilyBlues => listField (ctx.otf ∧ anyBlues g) (g .postscriptFamilyBlues)
  | .CFF_FamilyOtherBlues => listField (ctx.otf ∧ anyBlues g) (g .postscriptFamilyOtherBlues)
  | .CFF_StemSnapH => listField (ctx.otf ∧ bothStems g) (g .postscriptStemSnapH)
  | .CFF_StdHW => if ctx.otf ∧ bothStems g then .num ((roundList (g .postscriptStemSnapH)).getD 0 0) else .none
  | .CFF_StemSnapV => listField (ctx.otf ∧ bothStems g) (g .postscriptStemSnapV)
  | .CFF_StdVW => if ctx.otf ∧ bothStems g then .num ((roundList (g .postscriptStemSnapV)).getD 0 0) else .none

/-! ### whole compile: errors, then the fields -/

def isLatin1 (s : Str) : Bool := s.all (fun c => decide (c.toNat < 256))
def isAscii (s : Str) : Bool := s.all (fun c => decide (c.toNat < 128))

/-- the strings cffLib must encode when the CFF table is compiled (ASCII for `version`/`Weight`,
    Latin-1 for the font name, FullName, FamilyName, Notice, Copyright) -/
def cffEncodable (g : Attr → Val) (env : Env) : Bool :=
  isLatin1 (g .postscriptFontName).s && isLatin1 (g .postscriptFullName).s &&
  isLatin1 (g .openTypeNamePreferredFamilyName).s && isAscii (g .postscriptWeightName).s &&
  isLatin1 (cffNotice env (g .trademark)) && isLatin1 (cffNotice env (g .copyright))

structure Out where
  fields : Field → FVal
  names : NameTable

/-- `getAttrWithFallback(info, a)` as a total function once no error can occur -/
def getV (info : Info) (env : Env) (a : Attr) : Val :=
  match get fuel info env a with | .ok v => v | .error _ => .none

/-- postscriptBlueScaleFallback trips one of its `assert len(...) % 2 == 0` -/
def blueScaleAsserts (info : Info) (env : Env) : Bool :=
  match get fuel info env .postscriptBlueScale with | .error .assertion => true | _ => false

/-- compile + save: the first error the code raises, or every info-fed field -/
def compile (info : Info) (env : Env) (ctx : Ctx) : R Out :=
  let g := getV info env
  -- setupTable_OS2: `a, b = familyClass` then `data[0] … data[9]`
  if (g .openTypeOS2FamilyClass).l.length ≠ 2 then throw .valueError
  else if (g .openTypeOS2Panose).l.length < 10 then throw .indexError
  -- setupTable_CFF: postscriptBlueScaleFallback's asserts
  else if ctx.otf ∧ blueScaleAsserts info env then throw .assertion
  -- TTFont.save: cffLib encodes the top dict strings
  else if ctx.otf ∧ ctx.cffWritten ∧ !cffEncodable g env then throw .unicodeEncode
  -- TTFont load (after save, or inside the subroutiniser): cffLib reads the Name INDEX back as ASCII (it wrote Latin-1)
  else if ctx.otf ∧ ctx.cffWritten ∧ !isAscii (g .postscriptFontName).s then throw .unicodeDecode
  else pure { fields := fieldVal g info env ctx, names := nameTable g env }

/-! ### InfoCompiler: designspace `public.fontInfo` applied to a compiled font -/

/-- `data.update(info)` / `setattr(temp_ufo.info, k, v)` -/
def mergeInfo (base over : Info) : Info := fun a => if over a ≠ .none then over a else base a

/-- the table attributes InfoCompiler copies back into the original font -/
def infoCompilerField : Field → Bool
  | .head_fontRevision | .head_unitsPerEm | .head_created | .head_macStyle | .head_flags | .head_lowestRecPPEM
  | .hhea_ascent | .hhea_descent | .hhea_lineGap | .hhea_caretSlopeRise | .hhea_caretSlopeRun | .hhea_caretOffset
  | .vhea_ascent | .vhea_descent | .vhea_lineGap | .vhea_caretSlopeRise | .vhea_caretSlopeRun | .vhea_caretOffset
  | .OS2_usWeightClass | .OS2_usWidthClass | .OS2_fsType | .OS2_ySubscriptXSize | .OS2_ySubscriptYSize
  | .OS2_ySubscriptXOffset | .OS2_ySubscriptYOffset | .OS2_ySuperscriptXSize | .OS2_ySuperscriptYSize
  | .OS2_ySuperscriptXOffset | .OS2_ySuperscriptYOffset | .OS2_yStrikeoutSize | .OS2_yStrikeoutPosition
  | .OS2_sFamilyClass | .OS2_panose | .OS2_ulUnicodeRange1 | .OS2_ulUnicodeRange2 | .OS2_ulUnicodeRange3
  | .OS2_ulUnicodeRange4 | .OS2_ulCodePageRange1 | .OS2_ulCodePageRange2 | .OS2_achVendID | .OS2_sxHeight
  | .OS2_sCapHeight | .OS2_sTypoAscender | .OS2_sTypoDescender | .OS2_sTypoLineGap | .OS2_usWinAscent
  | .OS2_usWinDescent | .OS2_fsSelection
  | .post_italicAngle | .post_underlinePosition | .post_underlineThickness | .post_isFixedPitch | .gasp => true
  | _ => false

/-- `orig_names.update(temp_names)` on dicts keyed by (nameID, platformID, platEncID, langID) -/
def namesUpdate : NameTable → NameTable → NameTable
  | orig, [] => orig
  | orig, (k, v) :: t => namesUpdate (setName k v orig) t

/-- `{(n.nameID, n.platformID, n.platEncID, n.langID): n for n in names}`: a dict comprehension over a record list —
    the FIRST occurrence of a key fixes its position, the LAST record under a key supplies the value -/
def namesDict (t : NameTable) : NameTable := namesUpdate [] t

/-- `InfoCompiler.setupTable_name`, statement by statement: `temp_names = {…}`, `orig_names = {…}`,
    `orig_names.update(temp_names)`, `orig.names = list(orig_names.values())`.  (`infoCompile` applies `namesUpdate` to
    the two record lists directly; `Props/C16Names.lean` proves that this is the same list whenever the original
    font's records have distinct keys, which `C16_names_nodup` shows for every compiled font.) -/
def namesMerge (orig temp : NameTable) : NameTable := namesUpdate (namesDict orig) (namesDict temp)

def isVheaField : Field → Bool
  | .vhea_ascent | .vhea_descent | .vhea_lineGap | .vhea_caretSlopeRise | .vhea_caretSlopeRun | .vhea_caretOffset => true
  | _ => false

/-- the two situations in which the temporary compile of InfoCompiler does not build a table that the
    corresponding setupTable override then wants to merge: vertical metrics given for a font without vhea
    (`if self.vertical: self.setupTable_vhea()` with "vhea" not among the tables of the original font), and a
    font with a gasp table whose merged info has no gasp records left -/
def missingTable (merged : Info) (env : Env) (baseVertical baseGasp : Bool) : Bool :=
  (isVertical (getV merged env) && !baseVertical) || (baseGasp && !(merged .openTypeGaspRangeRecords).truthy)

/-- InfoCompiler(otf, ufo, over).compile() on a font compiled from `base` (in memory): the temporary compile
    builds only the info tables the original font has; a field it produced (value not None) replaces the
    original one; everything else stays.  `_set_attrs` returns at once when the temporary font has no such
    table (`if tag not in self.otf: return`): the table of the original font is then left as it is. -/
def infoCompile (base over : Info) (env envBase : Env) (ctx : Ctx) (baseVertical baseGasp : Bool) : R Out := do
  let o ← compile base envBase ctx
  let merged := mergeInfo base over
  let m ← compile merged env { ctx with otf := false, glyf := false, cffWritten := false }
  let pick (f : Field) : FVal :=
    if f = .gasp then
      (if baseGasp ∧ (merged .openTypeGaspRangeRecords).truthy then m.fields f else o.fields f)
    else if isVheaField f then (if baseVertical ∧ isVertical (getV merged env) then m.fields f else o.fields f)
    else if infoCompilerField f then
      match m.fields f with
      | .none => o.fields f
      | .unspecified => o.fields f
      | v => v
    else o.fields f
  pure { fields := pick, names := namesUpdate o.names m.names }

/-- history: `_set_attrs` BEFORE the repair indexed the temporary font unconditionally, so a table the temporary
    compile had skipped was a KeyError -/
def infoCompileOld (base over : Info) (env envBase : Env) (ctx : Ctx) (baseVertical baseGasp : Bool) : R Out :=
  if missingTable (mergeInfo base over) env baseVertical baseGasp then
    (do let _ ← compile base envBase ctx
        let _ ← compile (mergeInfo base over) env { ctx with otf := false, glyf := false, cffWritten := false }
        throw .keyError)
  else infoCompile base over env envBase ctx baseVertical baseGasp

/-! ### InfoCompiler and the caller's source: a history of compiles on the same objects

`InfoCompiler.__init__` never writes to the source it is given: the defcon branch goes through
`getDataForSerialization()` (a new dict), the ufoLib2 branch through `temp_ufo.info = copy.copy(ufo.info)` followed by
`setattr(temp_ufo.info, k, v)` on the COPY.  The state that survives one application is therefore (compiled font,
source info), with the source info as it was.  A designspace with several `<variable-font>` elements, or any later
compile from the same UFO object, is a sequence of such steps threading the source info. -/

/-- `copy.copy(ufo.info)` (ufoLib2) / `getDataForSerialization()` (defcon): a new object with the same attributes -/
def copyInfo (src : Info) : Info := fun a => src a

/-- `if self.info:` on the `public.fontInfo` dict: no key at all -/
def noOverrides (over : Info) : Bool := Attr.all.all (fun a => over a == .none)

/-- PostProcessor.process on a font compiled from `src`: `if self.info: self.apply_fontinfo()` — without overrides the
    compiled font is returned as it is (InfoCompiler is not even constructed) -/
def postInfo (src over : Info) (env envBase : Env) (ctx : Ctx) (baseVertical baseGasp : Bool) : R Out :=
  if noOverrides over then compile src envBase ctx
  else infoCompile src over env envBase ctx baseVertical baseGasp

/-- one font post-processed from the source object `src`: returns the font and the source info as left behind.  The
    overrides are written to `tmp`, the copy; `src` is only read. -/
def infoCompileStep (src over : Info) (env envBase : Env) (ctx : Ctx) (baseVertical baseGasp : Bool) : R (Out × Info) :=
  if noOverrides over then do
    let o ← compile src envBase ctx
    pure (o, src)
  else do
    let tmp := copyInfo src
    let o ← infoCompile tmp over env envBase ctx baseVertical baseGasp
    pure (o, src)

/-- one `<variable-font>` element / one later use of the source: its `public.fontInfo`, the environment of the merged
    info, and which optional tables the font being post-processed has -/
structure SeqStep where
  over : Info
  env : Env
  baseVertical : Bool
  baseGasp : Bool

/-- successive fonts post-processed from the same source object (each one a fresh compile of the source as it is at
    that moment): the fonts in order, and the source info at the end -/
def infoCompileSeq (src : Info) (envBase : Env) (ctx : Ctx) : List SeqStep → R (List Out × Info)
  | [] => pure ([], src)
  | s :: t => do
    let (o, src') ← infoCompileStep src s.over s.env envBase ctx s.baseVertical s.baseGasp
    let (os, fin) ← infoCompileSeq src' envBase ctx t
    pure (o :: os, fin)

/-- NOT the code: what the ufoLib2 branch would do without the copy (`temp_ufo.info = ufo.info`): the overrides are
    written onto the caller's source and stay there.  Kept to show what the copy is for (`C16_infocompiler_alias_leaks`). -/
def infoCompileStepAliased (src over : Info) (env envBase : Env) (ctx : Ctx) (baseVertical baseGasp : Bool) : R (Out × Info) := do
  let o ← infoCompile src over env envBase ctx baseVertical baseGasp
  pure (o, mergeInfo src over)

end Ufo2ft.C16
