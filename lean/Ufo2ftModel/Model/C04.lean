import Ufo2ftModel.Basic
import Ufo2ftModel.Model.StdGlyphs
/-!
Model of the derived fields computed by ufo2ft's outline compilers:
setupTable_hmtx / vmtx, _setupTable_hhea_or_vhea, makeFontBoundingBox,
OutlineOTFCompiler.makeGlyphsBoundingBoxes (the `toInt` rule), OS/2 first/last char index,
setupTable_post (format 2 extraNames), setupTable_VORG.
-/
namespace Ufo2ft.C04

structure Box where
  xMin : Int
  yMin : Int
  xMax : Int
  yMax : Int
  deriving DecidableEq, Repr

/-- exact (unrounded) outline bounds as fontTools' `calcBounds` reports them -/
structure RawBox where
  xMin : Q
  yMin : Q
  xMax : Q
  yMax : Q

def ceilQ (x : Q) : Int := -((-x).floor)

/-- `toInt` of OutlineOTFCompiler.makeGlyphsBoundingBoxes; `tol = none` is the default
    (roundTolerance 0.5).  `up = false` → floor, `up = true` → ceil. -/
def toInt (tol : Q) (up : Bool) (v : Q) : Int :=
  let r := otRound v
  if tol ≥ 1/2 ∨ absQ ((r : Q) - v) ≤ tol then r else (if up then ceilQ v else v.floor)

def roundBox (tol : Q) (b : RawBox) : Option Box :=
  let r : Box := ⟨toInt tol false b.xMin, toInt tol false b.yMin, toInt tol true b.xMax, toInt tol true b.yMax⟩
  if r == ⟨0, 0, 0, 0⟩ then none else some r

structure G where
  name : String
  width : Q
  height : Q
  vorg : Option Q          -- glyph.verticalOrigin
  box : Option Box         -- glyph bounding box as used by the compiler (None for empty glyphs)

def unionBox (a b : Box) : Box :=
  ⟨min a.xMin b.xMin, min a.yMin b.yMin, max a.xMax b.xMax, max a.yMax b.yMax⟩

/-- makeFontBoundingBox -/
def fontBoxLoop : List (Option Box) → Option Box → Option Box
  | [], acc => acc
  | none :: l, acc => fontBoxLoop l acc
  | some b :: l, none => fontBoxLoop l (some b)
  | some b :: l, some a => fontBoxLoop l (some (unionBox a b))

def fontBox (gs : List G) : Box := (fontBoxLoop (gs.map (·.box)) none).getD ⟨0, 0, 0, 0⟩

inductive Err | valueError
  deriving DecidableEq, Repr

/-- `bounds.xMin if bounds else 0` -/
def lsbOf (g : G) : Int := match g.box with | some b => b.xMin | none => 0
/-- `bounds.yMax if bounds else 0` -/
def topOf (g : G) : Int := match g.box with | some b => b.yMax | none => 0

/-- setupTable_hmtx: (advance, lsb) per glyph, ValueError on a negative rounded width
    (the loop raises at the first such glyph; no partial result is observable) -/
def hmtx (gs : List G) : Except Err (List (Int × Int)) :=
  if gs.any (fun g => decide (otRound g.width < 0)) then .error .valueError
  else .ok (gs.map (fun g => (otRound g.width, lsbOf g)))

def vertOrigin (typoAsc : Int) (g : G) : Int :=
  match g.vorg with | some v => otRound v | none => typoAsc   -- otRound of an Int is itself

/-- setupTable_vmtx: (height, tsb) -/
def vmtx (typoAsc : Int) (gs : List G) : Except Err (List (Int × Int)) :=
  if gs.any (fun g => decide (otRound g.height < 0)) then .error .valueError
  else .ok (gs.map (fun g => (otRound g.height,
      vertOrigin typoAsc g - topOf g)))

def maxL : List Int → Int
  | [] => 0
  | a :: l => l.foldl max a
def minL : List Int → Int
  | [] => 0
  | a :: l => l.foldl min a

/-- the `while advances[numLongMetrics - 2] == lastAdvance` loop, entered with n ≥ 2 -/
def nlmLoop (a : List Int) (last : Int) : Nat → Nat
  | 0 => 0
  | 1 => 1
  | k + 2 => if a[k]? == some last then nlmLoop a last (k + 1) else k + 2

def numLongMetrics (a : List Int) : Nat :=
  match a.getLast? with
  | none => 0
  | some last => nlmLoop a last a.length

structure Header where
  advanceMax : Int
  minFirst : Int
  minSecond : Int
  maxExtent : Int
  numLong : Nat
  deriving DecidableEq, Repr

/-- `_setupTable_hhea_or_vhea`: `mtx` = (advance, first side bearing) in glyph order,
    `spans` = bounding-box extent along the axis (xMax-xMin / yMax-yMin), none for empty glyphs -/
def header (mtx : List (Int × Int)) (spans : List (Option Int)) : Header :=
  let rows := (mtx.zip spans).filterMap (fun (m, s) => s.map (fun d => (m.1, m.2, d)))
  { advanceMax := maxL (mtx.map (·.1))
    minFirst := minL (rows.map (fun r => r.2.1))
    minSecond := minL (rows.map (fun r => r.1 - r.2.1 - r.2.2))
    maxExtent := maxL (rows.map (fun r => r.2.1 + r.2.2))
    numLong := numLongMetrics (mtx.map (·.1)) }

def hSpans (gs : List G) : List (Option Int) := gs.map (fun g => g.box.map (fun b => b.xMax - b.xMin))
def vSpans (gs : List G) : List (Option Int) := gs.map (fun g => g.box.map (fun b => b.yMax - b.yMin))

/-- OS/2 fsFirstCharIndex / fsLastCharIndex from the mapped code points -/
def charRange (cps : List Int) : Int × Int :=
  match cps with
  | [] => (0xFFFF, 0xFFFF)
  | _ => (minL cps, if maxL cps > 0xFFFF then 0xFFFF else maxL cps)

/-- what a saved font carries: fontTools' OS/2 compiler unconditionally recalculates both fields from
    the cmap, clamping to 0xFFFF; ufo2ft's own first index is not clamped and is never serialised -/
def charRangeSaved (cps : List Int) : Int × Int :=
  (min (charRange cps).1 0xFFFF, (charRange cps).2)

/-- post format 2: names outside the standard Macintosh order, in glyph order -/
def extraNames (order : List String) : List String :=
  order.filter (fun g => !standardGlyphOrder.contains g)

/-- `collections.Counter(vs)` by its meaning: one entry per distinct value, in order of first
    occurrence, holding the number of occurrences -/
def counter (vs : List Int) : List (Int × Nat) := vs.eraseDups.map (fun v => (v, vs.count v))

/-- `most_common(1)[0][0]` = `max(items, key=count)`: the first entry with the largest count -/
def mostCommon : List (Int × Nat) → Option (Int × Nat)
  | [] => none
  | e :: l => match mostCommon l with
    | none => some e
    | some m => if m.2 > e.2 then some m else some e

structure Vorg where
  default : Int
  records : List (String × Int)
  deriving DecidableEq, Repr

/-- setupTable_VORG.  `co` = the glyphs in the iteration order of the glyph-set dict (source order,
    synthesised '.notdef' last), which decides ties of the most frequent origin; `gs` = glyph order. -/
def vorgTable (typoAsc : Int) (co gs : List G) : Vorg :=
  let vs := co.map (vertOrigin typoAsc)
  let cnt := counter vs
  let d := match mostCommon cnt with | some m => m.1 | none => 0
  { default := d
    records := if cnt.length > 1 then
        gs.filterMap (fun g => if vertOrigin typoAsc g == d then none else some (g.name, vertOrigin typoAsc g))
      else [] }

/-! ### CFF advance widths (OutlineOTFCompiler.getCharStringForGlyph / setupTable_CFF)

`d`, `n` = the pair returned by `getDefaultAndNominalWidths` (fontinfo values through `otRound`, or
`fontTools.cffLib.width.optimizeWidths` of the rounded advances: an external optimiser, hence an input). -/

/-- `getCharStringForGlyph` + `T2CharStringPen.getCharString`: the width operand in front of the charstring
    program: omitted (`none`) when the UNROUNDED width equals defaultWidthX, else
    `otRound(otRound(width - nominalWidthX))` (the pen rounds once more) -/
def csWidth (d n : Int) (w : Q) : Option Int :=
  if w = (d : Q) then none else some (otRound ((otRound (w - (n : Q)) : Int) : Q))

/-- the two width operators of the CFF Private dict; `none` = operator not written -/
structure PrivW where
  defaultWidthX : Option Int
  nominalWidthX : Option Int
  deriving DecidableEq, Repr

/-- setupTable_CFF, "populate the width values": two independent `if value:` tests -/
def privWidths (d n : Int) : PrivW :=
  { defaultWidthX := if d ≠ 0 then some d else none
    nominalWidthX := if n ≠ 0 then some n else none }

structure CffW where
  priv : PrivW
  cs : List (Option Int)     -- width operand per glyph, glyph order
  deriving DecidableEq, Repr

def cffWidths (d n : Int) (gs : List G) : CffW :=
  { priv := privWidths d n, cs := gs.map (fun g => csWidth d n g.width) }

end Ufo2ft.C04
