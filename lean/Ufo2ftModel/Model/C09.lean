import Ufo2ftModel.Model.Filters
/-!
Model of ufo2ft's *interpolatable* pre-processing (all masters of a family at once):

* `BaseIFilter.__call__`  (zipped same-named glyphs, depth order, shared `modified` set, `any(include(g))`),
  `glyphSourceLocations`, `locationsFromComponentGlyphs`, `ensureCompositeDefinedAtComponentLocations`,
  `getDefaultGlyphSet`, `getInterpolatedLayers`;
* `DecomposeComponentsIFilter`, `DecomposeTransformedComponentsIFilter`, `FlattenComponentsIFilter`,
  `SkipExportGlyphsIFilter` (filters/*.py);
* `BaseInterpolatablePreProcessor.__init__/_run/_try_as_interpolatable_filter`,
  `TTFInterpolatablePreProcessor.process`, `check_for_nonmatching_components`, `OTFInterpolatablePreProcessor`;
* `OutlineCompiler.makeMissingRequiredGlyphs` (+ the TrueType override that adds empty placeholders for missing
  component bases to non-default masters), `util._notdefGlyphFallback`;
* the `Instantiator`'s `InterpolatedLayer` on ONE axis (varLib's `VariationModel` restricted to one axis is the
  piecewise-linear interpolation through the masters that have the glyph; outside the outermost master of a side
  its tents vanish and the default master's glyph is returned).

External and therefore *inputs*: `fonts_to_quadratic` (cu2qu; the glyph sets it returns are given), the stub
`.notdef` drawn by `StubGlyph` (given per master).  The per-glyph work is delegated to the shared geometry model
(`decomposeGlyph`, `flattenGlyphComps`, `reverseContour`, `maxComponentDepth`).
-/
namespace Ufo2ft.C09
open Ufo2ft

abbrev Masters := List GlyphSet

/-- what the filters can see of `Instantiator`: one design location per source (single axis, already normalised)
    and the index of the default source -/
structure Inst where
  locs : List Q
  defaultIdx : Nat

/-! ### the Instantiator's interpolated layers (one axis) -/

def lerp (a b s : Q) : Q := a + s * (b - a)

/-- fontMath pairs points by index and never looks at the other glyph's segment types -/
def lerpPt (s : Q) (p q : Pt) : Option Pt := some ⟨lerp p.x q.x s, lerp p.y q.y s, p.seg⟩

def zipWithM? (f : α → β → Option γ) : List α → List β → Option (List γ)
  | [], _ => some []        -- what the second operand has in excess is ignored (fontMath indexes by the first)
  | a :: as, b :: bs => match f a b, zipWithM? f as bs with
    | some c, some cs => some (c :: cs)
    | _, _ => none
  | _, _ => none

def lerpAffine (s : Q) (a b : Affine) : Affine :=
  ⟨lerp a.xx b.xx s, lerp a.xy b.xy s, lerp a.yx b.yx s, lerp a.yy b.yy s, lerp a.dx b.dx s, lerp a.dy b.dy s⟩

def lerpComp (s : Q) (a b : Comp) : Comp := ⟨a.base, lerpAffine s a.t b.t⟩

def lerpAnchor (s : Q) (a b : Anchor) : Option Anchor :=
  if a.name = b.name then some ⟨a.name, lerp a.x b.x s, lerp a.y b.y s⟩ else none

def removeFirst (p : α → Bool) : List α → Option (α × List α)
  | [] => none
  | a :: l => if p a then some (a, l) else match removeFirst p l with
    | some (b, l') => some (b, a :: l')
    | none => none

/-- fontMath `_pairComponents`: each component of the first glyph with the first unused component of the second that
    has the same base glyph; unpaired components are dropped -/
def pairComps : List Comp → List Comp → List (Comp × Comp)
  | [], _ => []
  | c :: cs, ds =>
    match removeFirst (fun d => d.base == c.base) ds with
    | some (d, ds') => (c, d) :: pairComps cs ds'
    | none => pairComps cs ds

/-- `MathGlyph` arithmetic `a·(1-s) + b·s` keeping `a`'s structure; `none` when `b` has fewer contours / points than `a`
    (fontMath raises IndexError; from `InterpolatedLayer.__getitem__` only InstantiatorError becomes `KeyError`) -/
def lerpGlyph (s : Q) (a b : Glyph) : Option Glyph :=
  match zipWithM? (zipWithM? (lerpPt s)) a.contours b.contours, zipWithM? (lerpAnchor s) a.anchors b.anchors with
  | some cs, some an =>
    some ⟨a.name, lerp a.width b.width s, lerp a.height b.height s, cs,
          (pairComps a.comps b.comps).map (fun p => lerpComp s p.1 p.2), an⟩
  | _, _ => none

def glyphEmpty (g : Glyph) : Bool := g.contours.isEmpty && g.comps.isEmpty

/-- `collect_glyph_masters`: (location, glyph) of every source that has the glyph; `none` when the default source
    lacks it; empty non-default glyphs are dropped when the default glyph is not empty -/
def collectMasters (I : Inst) (ms : Masters) (name : String) : Option (List (Q × Glyph)) :=
  match (ms.getD I.defaultIdx []).get? name with
  | none => none
  | some d =>
    let all := (ms.zip I.locs).filterMap (fun (m, l) => (m.get? name).map (fun g => (l, g)))
    if !glyphEmpty d && all.any (fun e => glyphEmpty e.2) then some (all.filter (fun e => !glyphEmpty e.2))
    else some all

/-- nearest master between the default (0) and `t`: greatest location in (0, t] on t's side -/
def below (pts : List (Q × Glyph)) (t : Q) : Option (Q × Glyph) :=
  pts.foldl (fun acc e =>
    if (0 < t && 0 < e.1 && e.1 ≤ t) || (t < 0 && e.1 < 0 && t ≤ e.1) then
      match acc with
      | none => some e
      | some a => if absQ a.1 < absQ e.1 then some e else some a
    else acc) none

/-- nearest master at or beyond `t` on t's side -/
def above (pts : List (Q × Glyph)) (t : Q) : Option (Q × Glyph) :=
  pts.foldl (fun acc e =>
    if (0 < t && t ≤ e.1) || (t < 0 && e.1 ≤ t) then
      match acc with
      | none => some e
      | some a => if absQ e.1 < absQ a.1 then some e else some a
    else acc) none

/-- `Variator.instance_at(t)` on one axis (default source at 0).  A location that IS a master location of the glyph gives
    that master's data unchanged.  Otherwise `interpolateFromMasters`: Σ master·scalar over the masters with a non-zero
    master scalar — on one axis the two neighbours `lo`, `hi` of `t` with weights `1-s`, `s` (only the default master
    beyond the outermost master of a side) — accumulated in SOURCE ORDER: the first of the two in `pts` provides the
    structure (point types, names), fontMath pairs the rest by index. -/
def interpAt (pts : List (Q × Glyph)) (t : Q) : Option Glyph :=
  match pts.find? (fun e => e.1 == t) with
  | some e => some e.2
  | none =>
    match pts.find? (fun e => e.1 == 0) with
    | none => none
    | some d =>
      match above pts t with
      | none => some d.2
      | some hi =>
        let lo := match below pts t with | some l => l | none => d
        let s := (t - lo.1) / (hi.1 - lo.1)
        match pts.find? (fun e => e.1 == lo.1 || e.1 == hi.1) with
        | none => none
        | some first => if first.1 == lo.1 then lerpGlyph s lo.2 hi.2 else lerpGlyph (1 - s) hi.2 lo.2

def allNames (ms : Masters) : List String := dedupFirst (ms.flatMap GlyphSet.names)

/-- `Instantiator.glyph_mutators`: per glyph name the masters its Variator was built from -/
abbrev Cache := List (String × List (Q × Glyph))

/-- the glyph sets being filtered together with what the Instantiator holds:
    `pristine = some layers` while `instantiator.source_layers` are other objects than the glyph sets being filtered,
    `none` once `replace_source_layers(self.glyphSets)` has made them the live glyph sets.  Since /repo fix 61a81a2 the
    pre-processor calls `_update_instantiator()` right after making its copies: the pre-processors below start with `none`
    (before the fix the Instantiator kept reading the caller's layers until the first filter reported a change);
    `cache` = `glyph_mutators`, emptied by every `replace_source_layers` -/
structure St where
  ms : Masters
  pristine : Option Masters := none
  cache : Cache := []
  orders : List (List String) := []   -- iteration orders of the Python SETS of glyph names, one per filter run (an input)

def St.layers (s : St) : Masters := match s.pristine with | some o => o | none => s.ms

/-- `_update_instantiator()` after a filter (or cu2qu) reported modified glyphs -/
def St.updated (s : St) (modified : Bool) : St := if modified then { s with pristine := none, cache := [] } else s

/-- the masters `generate_glyph_instance` interpolates between: the cached Variator's, else freshly collected -/
def mastersFor (I : Inst) (s : St) (name : String) : Option (List (Q × Glyph)) :=
  match alookup name s.cache with
  | some p => some p
  | none => collectMasters I s.layers name

/-- `Instantiator.generate_glyph_instance(name, t)` -/
def interpGlyph (I : Inst) (s : St) (name : String) (t : Q) : Option Glyph :=
  match mastersFor I s name with
  | none => none
  | some pts => interpAt pts t

/-- first request for an interpolated `name` builds and caches its Variator from the current source layers -/
def touch (inst : Option Inst) (names : List String) (s : St) : St :=
  match inst with
  | none => s
  | some I => names.foldl (fun s n =>
      if (alookup n s.cache).isSome then s
      else match collectMasters I s.layers n with
        | some p => { s with cache := s.cache ++ [(n, p)] }
        | none => s) s

/-- does source `i`'s `InterpolatedLayer` interpolate `n` (rather than hand out the source's own glyph)?
    `__getitem__` is `self._get(name) or self._interpolate(name)` and a glyph object is falsy when it has NO CONTOURS -/
def interpolates (own : GlyphSet) (n : String) : Bool :=
  match own.get? n with
  | some g => g.contours.isEmpty
  | none => true

/-- `InterpolatedLayer` of source `i`, materialised: the source's own glyph is used only when it has contours; every
    other name (absent, empty, or made of components only) is interpolated at the source's location, and is
    unavailable (`KeyError`) when that fails.
    Without an Instantiator: `interpolatedLayer or glyphSet` = the glyph set itself. -/
def layerSet (inst : Option Inst) (s : St) (i : Nat) : GlyphSet :=
  match inst with
  | none => s.ms.getD i []
  | some I =>
    let own := s.layers.getD i []
    let t := I.locs.getD i 0
    own.filterMap (fun e =>
      if !e.2.contours.isEmpty then some e
      else (interpGlyph I s e.1 t).map (fun g => (e.1, g))) ++
    (allNames s.layers).filterMap (fun n =>
      if (own.get? n).isSome then none
      else (interpGlyph I s n t).map (fun g => (n, g)))

/-- the names among `names` whose lookup in source `i`'s layer went through the Instantiator -/
def requested (inst : Option Inst) (s : St) (i : Nat) (names : List String) : List String :=
  match inst with
  | none => []
  | some _ => names.filter (interpolates (s.layers.getD i []))

/-! ### BaseIFilter -/

def glyphsNamed (ms : Masters) (n : String) : List Glyph := ms.filterMap (fun m => m.get? n)

/-- `comp_depth`: depth in the first glyph set that has the glyph -/
def compDepth (ms : Masters) (n : String) : Except GErr Nat :=
  match ms.find? (fun m => (m.get? n).isSome) with
  | none => .error .assertion
  | some m => match m.get? n with
    | none => .error .assertion
    | some g => maxComponentDepth m g

def depthsI (ms : Masters) : List String → Except GErr (List (String × Nat))
  | [] => .ok []
  | n :: l => match compDepth ms n, depthsI ms l with
    | .ok d, .ok r => .ok ((n, d) :: r)
    | .error e, _ => .error e
    | _, .error e => .error e

/-- `sorted(allGlyphNames, key=comp_depth)`; `names` = the glyph names in the iteration order of the Python set -/
def orderI (ms : Masters) (names : List String) : Except GErr (List String) :=
  match depthsI ms names with
  | .error e => .error e
  | .ok ds => .ok ((ds.mergeSort (fun a b => decide (a.2 ≥ b.2))).map (·.1))

/-- the loop of `BaseIFilter.__call__`: `step` is `filter(glyphName, glyphs)` acting on ALL glyph sets;
    the second component is `context.modified` -/
def iLoop (incl : Glyph → Bool) (step : St → String → Except GErr (St × Bool)) :
    List String → St × List String → Except GErr (St × List String)
  | [], st => .ok st
  | n :: ns, (s, modified) =>
    if modified.contains n then iLoop incl step ns (s, modified)
    else if (glyphsNamed s.ms n).any incl then
      match step s n with
      | .error e => .error e
      | .ok (s', r) => iLoop incl step ns (s', if r then addMod modified n else modified)
    else iLoop incl step ns (s, modified)

/-- one `BaseIFilter.__call__`.  The iteration order of `allGlyphNames` (a Python set) is arbitrary: the run consumes the
    next of the given orders (first-occurrence order when none is given) -/
def runI (incl : Glyph → Bool) (step : St → String → Except GErr (St × Bool)) (s : St) :
    Except GErr (St × List String) :=
  let names := match s.orders with | o :: _ => o | [] => allNames s.ms
  match orderI s.ms names with
  | .error e => .error e
  | .ok order => iLoop incl step order ({ s with orders := s.orders.drop 1 }, [])

/-- `_run_interpolatable`: run, then `_update_instantiator()` if anything was modified -/
def runIU (incl : Glyph → Bool) (step : St → String → Except GErr (St × Bool)) (s : St) : Except GErr St :=
  match runI incl step s with
  | .error e => .error e
  | .ok (s', modified) => .ok (s'.updated (!modified.isEmpty))

/-- `glyphSourceLocations` -/
def sourceLocs (I : Inst) (ms : Masters) (n : String) : List Q :=
  (ms.zip I.locs).filterMap (fun (m, l) => if (m.get? n).isSome then some l else none)

def unionQ (a b : List Q) : List Q := b.foldl (fun acc x => if acc.contains x then acc else acc ++ [x]) a

mutual
/-- `locationsFromComponentGlyphs(glyphName, include)` (the memo cache is not represented) -/
def locsFromComps (fuel : Nat) (I : Inst) (ms : Masters) (incl : Option (List String)) (n : String) : List Q :=
  match fuel with
  | 0 => []
  | fuel + 1 =>
    (glyphsNamed ms n).foldl (fun acc g => unionQ acc (locsOfComps fuel I ms incl g.comps)) []
def locsOfComps (fuel : Nat) (I : Inst) (ms : Masters) (incl : Option (List String)) (ks : List Comp) : List Q :=
  match ks with
  | [] => []
  | k :: ks =>
    let rest := locsOfComps fuel I ms incl ks
    if isIncluded incl k.base then
      unionQ (unionQ (sourceLocs I ms k.base) (locsFromComps fuel I ms incl k.base)) rest
    else rest
end

def setAt (ms : Masters) (i : Nat) (m : GlyphSet) : Masters := ms.set i m

/-- the loop of `ensureCompositeDefinedAtComponentLocations` over (glyphSet, interpolatedLayer) pairs -/
def ensureLoop (I : Inst) (n : String) (toAdd : List Q) : List (Nat × Q) → St → Except GErr St
  | [], s => .ok s
  | (i, l) :: rest, s =>
    if toAdd.contains l then
      match (s.ms.getD i []).get? n with
      | some _ => .error .assertion
      | none =>
        let s := touch (some I) [n] s
        match interpGlyph I s n l with
        | none => .error (.missing n)
        | some g => ensureLoop I n toAdd rest { s with ms := setAt s.ms i ((s.ms.getD i []) ++ [(n, g)]) }
    else ensureLoop I n toAdd rest s

/-- `ensureCompositeDefinedAtComponentLocations(glyphName, include)` -/
def ensureComposite (inst : Option Inst) (s : St) (incl : Option (List String)) (n : String) : Except GErr St :=
  match inst with
  | none => .ok s
  | some I =>
    let have_ := sourceLocs I s.ms n
    let need := locsFromComps ((allNames s.ms).length + 1) I s.ms incl n
    let toAdd := need.filter (fun l => !have_.contains l)
    if toAdd.isEmpty then .ok s
    else ensureLoop I n toAdd ((List.range s.ms.length).zip I.locs) s

mutual
/-- base glyphs `DecomposingFilterPointPen` looks up while drawing one component -/
def visitComp (fuel : Nat) (layer : GlyphSet) (nested : Bool) (incl : Option (List String)) (base : String) : List String :=
  match fuel with
  | 0 => []
  | fuel + 1 =>
    if isIncluded incl base then
      base :: (match layer.get? base with
        | none => []
        | some b => visitComps fuel layer nested (inclNested nested incl) b.comps)
    else []
def visitComps (fuel : Nat) (layer : GlyphSet) (nested : Bool) (incl : Option (List String)) (ks : List Comp) : List String :=
  match ks with
  | [] => []
  | k :: ks => visitComp fuel layer nested incl k.base ++ visitComps fuel layer nested incl ks
end

/-- apply a per-glyph operation to glyph `n` of every glyph set that has it, resolving bases in that source's layer
    (`for glyphSet, interpolatedLayer in zip(glyphSets, getInterpolatedLayers())`).  `f` returns the new glyph
    (`none`: left untouched) and a flag; the flags are OR-ed (`flattened |= …`, since the fix commit 90a86ee).
    `visit` = the base names the operation looks up (their Variators get cached). -/
def perMaster (inst : Option Inst) (n : String) (visit : GlyphSet → Glyph → List String)
    (f : GlyphSet → Glyph → Except GErr (Option Glyph × Bool)) : List Nat → St → Bool → Except GErr (St × Bool)
  | [], s, fl => .ok (s, fl)
  | i :: rest, s, fl =>
    match (s.ms.getD i []).get? n with
    | none => perMaster inst n visit f rest s fl
    | some g =>
      let layer := layerSet inst s i
      match f layer g with
      | .error e => .error e
      | .ok (og, fl') =>
        let s := touch inst (requested inst s i (visit layer g)) s
        match og with
        | none => perMaster inst n visit f rest s (fl || fl')
        | some g' => perMaster inst n visit f rest { s with ms := setAt s.ms i ((s.ms.getD i []).set n g') } (fl || fl')

/-! ### the interpolatable filters -/

def decomposeVisit (nested : Bool) (incl : Option (List String)) (layer : GlyphSet) (g : Glyph) : List String :=
  visitComps (layer.length + 1) layer nested incl g.comps

/-- `decomposeCompositeGlyph(glyph, layer, decomposeNested=nested, include=incl)` as a per-master operation -/
def decomposeOp (nested : Bool) (incl : Option (List String)) (layer : GlyphSet) (g : Glyph) :
    Except GErr (Option Glyph × Bool) :=
  match decomposeGlyph layer nested incl g with
  | .error e => .error e
  | .ok g' => .ok (some g', true)

/-- `DecomposeComponentsIFilter.filter` -/
def decomposeIStep (inst : Option Inst) (s : St) (n : String) : Except GErr (St × Bool) :=
  if !(glyphsNamed s.ms n).any (fun g => !g.comps.isEmpty) then .ok (s, false)
  else match ensureComposite inst s none n with
    | .error e => .error e
    | .ok s1 =>
      match perMaster inst n (decomposeVisit true none) (decomposeOp true none) (List.range s1.ms.length) s1 true with
      | .error e => .error e
      | .ok (s2, _) => .ok (s2, true)

/-- `DecomposeTransformedComponentsIFilter.filter` -/
def decomposeTransformedIStep (inst : Option Inst) (s : St) (n : String) : Except GErr (St × Bool) :=
  if !(glyphsNamed s.ms n).any (fun g => g.comps.any isTransformed) then .ok (s, false)
  else decomposeIStep inst s n

/-- `SkipExportGlyphsIFilter.filter` -/
def skipIStep (inst : Option Inst) (skip : List String) (s : St) (n : String) : Except GErr (St × Bool) :=
  let gl := glyphsNamed s.ms n
  if !gl.any (fun g => !g.comps.isEmpty) || gl.all (fun g => !(g.comps.any (fun k => skip.contains k.base))) then .ok (s, false)
  else match ensureComposite inst s (some skip) n with
    | .error e => .error e
    | .ok s1 =>
      match perMaster inst n (decomposeVisit false (some skip)) (decomposeOp false (some skip))
              (List.range s1.ms.length) s1 true with
      | .error e => .error e
      | .ok (s2, _) => .ok (s2, true)

/-- `SkipExportGlyphsIFilter.__call__` (run through `_run_interpolatable`) -/
def skipI (inst : Option Inst) (skip : List String) (s : St) : Except GErr St :=
  if skip.isEmpty then .ok s
  else match runI (fun _ => true) (skipIStep inst skip) s with
    | .error e => .error e
    | .ok (s', modified) =>
      let removed := s'.ms.any (fun m => m.any (fun e => skip.contains e.1))
      let pruned : Masters := s'.ms.map (fun (m : GlyphSet) => m.filter (fun e => !skip.contains e.1))
      .ok (St.updated { s' with ms := pruned } (!modified.isEmpty || removed))

/-- `getDefaultGlyphSet` -/
def defaultGlyphSet (inst : Option Inst) (ms : Masters) : GlyphSet :=
  match inst with
  | some I => ms.getD I.defaultIdx []
  | none => ms.foldl (fun best m => if best.length < m.length then m else best) (ms.headD [])

/-- `_haveNestedComponents(glyph, glyphSet)` -/
def haveNested (gs : GlyphSet) (g : Glyph) : Bool :=
  !isSimpleOrMixed g && g.comps.any (fun k => match gs.get? k.base with | some b => !b.comps.isEmpty | none => false)

/-- base glyphs `_flattenComponent` looks up -/
def flattenVisit (fuel : Nat) (layer : GlyphSet) (k : Comp) : List String :=
  match fuel with
  | 0 => []
  | fuel + 1 =>
    k.base :: (match layer.get? k.base with
      | none => []
      | some b => if isSimpleOrMixed b then [] else b.comps.flatMap (flattenVisit fuel layer))

/-- `_flattenGlyphComponents(glyph, layer)` as a per-master operation -/
def flattenOp (layer : GlyphSet) (g : Glyph) : Except GErr (Option Glyph × Bool) :=
  if g.comps.isEmpty then .ok (none, false)
  else match flattenGlyphComps layer g.comps with
    | .error e => .error e
    | .ok (cs, f) => .ok (some { g with comps := cs }, f)

def flattenVisits (layer : GlyphSet) (g : Glyph) : List String :=
  g.comps.flatMap (flattenVisit (layer.length + 1) layer)

/-- `FlattenComponentsIFilter.filter`: `True` when the glyph was flattened in ANY master -/
def flattenIStep (inst : Option Inst) (s : St) (n : String) : Except GErr (St × Bool) :=
  let gl := glyphsNamed s.ms n
  if !gl.any (fun g => !g.comps.isEmpty) then .ok (s, false)
  else if !gl.any (haveNested (defaultGlyphSet inst s.ms)) then .ok (s, false)
  else perMaster inst n flattenVisits flattenOp (List.range s.ms.length) s false

/-! ### the pre-processors -/

/-- a custom filter from `ufo.lib[…filters]`: here `DecomposeTransformedComponentsFilter(pre=…, include=[…])` -/
structure Custom where
  pre : Bool
  incl : Option (List String)

structure Cfg where
  ttf : Bool
  inst : Option Inst
  sparse : List Bool                -- `layerName is not None`, per source
  skip : List String
  flatten : Bool
  convertCubics : Bool
  reverse : Bool
  custom : List (Option Custom)     -- per source
  cu2qu : Option Masters            -- what `fonts_to_quadratic` left in the glyph sets (external)
  cu2quModified : Bool              -- did it report modified glyphs
  notdefFallback : Bool             -- `_notdefGlyphFallback` returned an (empty) glyph
  stubs : List (Option Glyph)       -- the `StubGlyph` `.notdef` of each source (external drawing)
  orders : List (List String) := [] -- set iteration orders, one per interpolatable filter run

def customIncl (cs : List Custom) (g : Glyph) : Bool :=
  cs.any (fun c => match c.incl with | none => true | some l => l.contains g.name)

/-- non-interpolatable `DecomposeTransformedComponentsFilter` on one glyph set -/
def customSingle (c : Custom) (m : GlyphSet) : Except GErr GlyphSet :=
  match runFilter decomposeTransformedStep (fun n => match c.incl with | none => true | some l => l.contains n) m with
  | .error e => .error e
  | .ok st => .ok st.gs

def customOpt (c : Option Custom) (m : GlyphSet) : Except GErr GlyphSet :=
  match c with
  | none => .ok m
  | some c => customSingle c m

def customEach : List (Option Custom) → Masters → Except GErr Masters
  | c :: cs, m :: ms =>
    match customOpt c m, customEach cs ms with
    | .ok m', .ok r => .ok (m' :: r)
    | .error e, _ => .error e
    | _, .error e => .error e
  | _, ms => .ok ms

/-- the custom filters of one phase (`self.preFilters` / `self.postFilters`), `none` where a UFO has none -/
def customPhase (cfg : Cfg) (pre : Bool) : List (Option Custom) :=
  cfg.custom.map (fun c => match c with | some c => if c.pre == pre then some c else none | none => none)

/-- `_run(*filters)` for the custom filters of one phase (`pre` or post):
    all sources carry an equal filter → ONE interpolatable filter whose include is the union;
    otherwise each filter is applied to its own glyph set ("and hope for the best") -/
def runCustom (cfg : Cfg) (pre : Bool) (s : St) : Except GErr St :=
  let fs := customPhase cfg pre
  let present := fs.filterMap id
  if present.isEmpty then .ok s
  else if fs.all Option.isSome then runIU (customIncl present) (decomposeTransformedIStep cfg.inst) s
  else match customEach fs s.ms with
    | .error e => .error e
    | .ok ms' => .ok (St.updated { s with ms := ms' } (ms' != s.ms))

def isMixed (g : Glyph) : Bool := !g.contours.isEmpty && !g.comps.isEmpty

/-- `{gname for glyphSet in glyphSets for gname, glyph in glyphSet.items() if len(glyph) > 0 and glyph.components}` -/
def mixedNames (ms : Masters) : List String :=
  dedupFirst (ms.flatMap (fun m => (m.filter (fun e => isMixed e.2)).map (·.1)))

/-- do the 2×2 parts at index `i` differ from the first layer's? (`i` below every layer's component count) -/
def twoByTwoDiffer (layers : List Glyph) (i : Nat) : Bool :=
  match layers with
  | [] => false
  | l0 :: _ =>
    match l0.comps[i]? with
    | none => false
    | some k0 => layers.any (fun l => match l.comps[i]? with | some k => k.t.linear != k0.t.linear | none => false)

/-- one glyph name of `check_for_nonmatching_components` -/
def nonMatching (ms : Masters) (n : String) : Bool :=
  let layers := glyphsNamed ms n
  let counts := layers.map (fun l => l.comps.length)
  if !counts.any (fun c => c != 0) then false
  else (List.range (counts.foldl min (counts.headD 0))).any (twoByTwoDiffer layers)

/-- `needs_decomposition` after `check_for_nonmatching_components` -/
def needsDecomposition (ms : Masters) : List String :=
  let mixed := mixedNames ms
  mixed ++ (allNames ms).filter (fun n => !mixed.contains n && nonMatching ms n)

/-- `ReverseContourDirectionFilter(include=lambda g: len(g))` applied to each glyph set on its own -/
def reverseAll (ms : Masters) : Masters :=
  ms.map (fun m => m.map (fun e => (e.1, { e.2 with contours := e.2.contours.map reverseContour })))

/-- `if needs_decomposition: self._run(DecomposeComponentsIFilter(include=needs_decomposition))` -/
def decomposeNeeded (inst : Option Inst) (s : St) : Except GErr St :=
  let need := needsDecomposition s.ms
  if need.isEmpty then .ok s
  else runIU (fun g => need.contains g.name) (decomposeIStep inst) s

/-- `FlattenComponentsIFilter(include=lambda g: len(g.components))` -/
def flattenI (inst : Option Inst) (s : St) : Except GErr St :=
  runIU (fun g => !g.comps.isEmpty) (flattenIStep inst) s

structure PreOut where
  beforeCu2qu : Option Masters     -- the glyph sets handed to `fonts_to_quadratic`
  final : Masters

/-- `fonts_to_quadratic` (external: `cfg.cu2qu` is what it left behind), or the per-UFO reversal filter -/
def curvesStep (cfg : Cfg) (s : St) : Except GErr (Option Masters × St) :=
  if cfg.convertCubics then
    -- it raises (IncompatibleFontsError, …) when it gives no glyph sets back
    match cfg.cu2qu with
    | some q => .ok (some s.ms, St.updated { s with ms := q } cfg.cu2quModified)
    | none => .error .valueError
  else if cfg.reverse then
    .ok (none, St.updated { s with ms := reverseAll s.ms } (s.ms.any (fun (m : GlyphSet) => m.any (fun e => !e.2.contours.isEmpty))))
  else .ok (none, s)

/-- `BaseInterpolatablePreProcessor.__init__` (skipExportGlyphs) + `TTFInterpolatablePreProcessor.process` -/
def preprocessTTF (cfg : Cfg) (ms : Masters) : Except GErr PreOut :=
  match skipI cfg.inst cfg.skip ⟨ms, none, [], cfg.orders⟩ with
  | .error e => .error e
  | .ok s =>
  match runCustom cfg true s with
  | .error e => .error e
  | .ok s =>
  match decomposeNeeded cfg.inst s with
  | .error e => .error e
  | .ok s =>
  match curvesStep cfg s with
  | .error e => .error e
  | .ok (before, s) =>
  match (if cfg.flatten then flattenI cfg.inst s else .ok s) with
  | .error e => .error e
  | .ok s =>
  match runCustom cfg false s with
  | .error e => .error e
  | .ok s => .ok ⟨before, s.ms⟩

/-- `OTFInterpolatablePreProcessor`: custom pre-filters, `DecomposeComponentsIFilter()`, custom post-filters -/
def preprocessOTF (cfg : Cfg) (ms : Masters) : Except GErr PreOut :=
  match skipI cfg.inst cfg.skip ⟨ms, none, [], cfg.orders⟩ with
  | .error e => .error e
  | .ok s =>
  match runCustom cfg true s with
  | .error e => .error e
  | .ok s =>
  match runIU (fun _ => true) (decomposeIStep cfg.inst) s with
  | .error e => .error e
  | .ok s =>
  match runCustom cfg false s with
  | .error e => .error e
  | .ok s => .ok ⟨none, s.ms⟩

/-! ### makeMissingRequiredGlyphs -/

def sentinel : Q := 65535

def emptyGlyph (n : String) : Glyph := ⟨n, sentinel, sentinel, [], [], []⟩

/-- the TrueType override: empty placeholders for component bases a non-default master lacks -/
def addPlaceholders (m : GlyphSet) : GlyphSet :=
  m.foldl (fun acc e => e.2.comps.foldl (fun acc k =>
    if (acc.get? k.base).isSome then acc else acc ++ [(k.base, emptyGlyph k.base)]) acc) m

/-- `makeMissingRequiredGlyphs` for source `i` -/
def addRequired (cfg : Cfg) (i : Nat) (m : GlyphSet) : GlyphSet :=
  let m := if (m.get? ".notdef").isSome then m
    else if cfg.notdefFallback then m ++ [(".notdef", emptyGlyph ".notdef")]
    else match cfg.stubs.getD i none with
      | some g => m ++ [(".notdef", g)]
      | none => m
  let isDefault := match cfg.inst with | some I => i == I.defaultIdx | none => true
  if cfg.ttf && !isDefault then addPlaceholders m else m

/-- the whole of `BaseInterpolatableCompiler.compile` as far as glyph sets are concerned -/
def compileFamily (cfg : Cfg) (ms : Masters) : Except GErr PreOut :=
  match (if cfg.ttf then preprocessTTF cfg ms else preprocessOTF cfg ms) with
  | .error e => .error e
  | .ok o => .ok ⟨o.beforeCu2qu, (List.range o.final.length).zipWith (fun i m => addRequired cfg i m) o.final⟩

end Ufo2ft.C09
