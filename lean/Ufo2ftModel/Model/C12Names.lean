import Ufo2ftModel.Model.C12
import Ufo2ftModel.Model.C11
/-!
C12, glyph identity: which charstring, advance width and layout rule belongs to which glyph must not depend
on the CFF version either.  The two CFF flavours carry glyph NAMES in different places - a 'CFF ' table has
its own `charset` and a `CharStrings` dict keyed by name, a CFF2 font has neither (names live in 'post',
charstrings are addressed by glyph index) - and `PostProcessor.rename_glyphs` has one branch per flavour.
Everything else (hmtx, cmap, GSUB/GPOS/GDEF) is an index-based binary when `rename_glyphs` runs, because
`process_glyph_names` reloads the font first.

The naming code itself (`process_glyph_names` decision table, `_build_production_names`, `_unique_name`,
`rename_glyphs`) is the model of property C11 (`Model/C11.lean`), reused here unchanged.  Added for C12:

* `Carriers`, `initial`   – the name-carrying structures of the reloaded font, per CFF version
* `renameCarriers`        – `process_glyph_names` → `_rename_glyphs_from_ufo` → `rename_glyphs` on them
* `savedIndex`            – fontTools writing the font: `TopDictCompiler.getChildren` walks `charset` and looks
                            each name up in `CharStrings` (CFF 1); CFF2 charstrings keep their index.  The result
                            says, for every glyph index of the saved font, which SOURCE glyph's charstring it holds
                            (hmtx & co. stay where they were, so anything but 0,1,2,… means outlines and metrics
                            have come apart)
* `savedNames`            – the names a reader finds: the CFF 1 charset, 'post' format 2, or nothing (format 3)
-/
namespace Ufo2ft.C12
open Ufo2ft.C11 (Name Input Switches decide' buildProductionNames renameGlyphs applyMap)

/-- `[(name, k), (name', k+1), …]`: a `CharStrings.charStrings` dict of a lazily loaded 'CFF ' table
    (name ↦ index into the CharStrings INDEX) -/
def indexed : Nat → List Name → List (Name × Nat)
  | _, [] => []
  | k, n :: l => (n, k) :: indexed (k + 1) l

/-- what carries glyph identity in a CFF-flavoured `TTFont` right after `_reloadFont` -/
structure Carriers where
  /-- `otf.getGlyphOrder()` -/
  order : List Name
  /-- CFF 1: `CharStrings.charStrings`; CFF2: unused (the table is not even loaded) -/
  charStrings : List (Name × Nat)
  /-- CFF 1: `topDict.charset`; CFF2: unused -/
  charset : List Name
  /-- `post.formatType * 10` -/
  post : Nat
  deriving DecidableEq, Repr

/-- the reloaded font before renaming: the outline compiler and `process_cff` leave glyph `k` of the source
    order at index `k`, under its source name; 'post' is format 3 for OTF output -/
def initial (v : Ver) (order : List Name) : Carriers :=
  match v with
  | .v1 => { order := order, charStrings := indexed 0 order, charset := order, post := 30 }
  | .v2 => { order := order, charStrings := [], charset := [], post := 30 }

/-- `process_glyph_names` on a font with a CFF table of version `v` (`s.cff1` is overridden by `v`) -/
def renameCarriers (v : Ver) (s : Switches) (i : Input) : Carriers :=
  let c := initial v i.order
  let d := decide' { s with cff1 := decide (v = .v1) }
  let post := match d.post with | .set2 => 20 | .set3 => 30 | .leave => c.post
  if d.rename then
    -- `cff_tag == "CFF " or (cff_tag == "CFF2" and otf.isLoaded(cff_tag))`: after the reload nothing is loaded,
    -- so only a 'CFF ' table is touched; for CFF2 the two lists are empty and stay so
    let r := renameGlyphs (buildProductionNames i) c.order c.charStrings c.charset
    { order := r.order, charStrings := r.charStrings, charset := r.charset, post := post }
  else { c with post := post }

inductive SaveErr | keyError
  deriving DecidableEq, Repr

/-- `for name in charset: items.append(charStrings[name])` -/
def lookupAll (d : List (Name × Nat)) : List Name → Except SaveErr (List Nat)
  | [] => .ok []
  | n :: l =>
    match alookup n d with
    | none => .error .keyError
    | some k =>
      match lookupAll d l with
      | .error e => .error e
      | .ok r => .ok (k :: r)

/-- for each glyph index of the saved font, the source index of the charstring stored there -/
def savedIndex (v : Ver) (c : Carriers) : Except SaveErr (List Nat) :=
  match v with
  | .v1 => lookupAll c.charStrings c.charset
  | .v2 => .ok (List.range c.order.length)

/-- the glyph names stored in the saved font (`none`: the font stores no names) -/
def savedNames (v : Ver) (c : Carriers) : Option (List Name) :=
  match v with
  | .v1 => some c.charset
  | .v2 => if c.post = 20 then some c.order else none

/-- MEASURED behaviour of fontTools (`cffLib.CharsetCompiler.__init__`: `assert charset[0] == ".notdef"`), not
    ufo2ft logic: a 'CFF ' table whose first glyph is not called '.notdef' cannot be written.
    `_build_production_names` now exempts '.notdef' (and reserves its name), so for every font whose glyph order
    starts with '.notdef' - every font ufo2ft compiles - this holds after renaming (`C12_cff1_writable`).  Before that
    repair a `public.postscriptNames` entry for '.notdef' made every CFF 1 build unsaveable while the CFF 2 builds
    of the same sources were fine (finding C12-cff1-notdef-renamed, fixed). -/
def cff1Writable (names : List Name) : Bool := names.head? == some ['.', 'n', 'o', 't', 'd', 'e', 'f']

/-- `modelFont` for sources built with production-name switches `s`: the prediction is made from the build
    WITHOUT renaming (`base`), glyph identity being untouched by renaming (`C12_names_content`).  fontTools'
    requirement on the charset stays in the model (a CFF 1 font whose first glyph is not '.notdef' fails when it is
    saved); `C12_cff1_writable` shows the branch is dead for glyph orders that start with '.notdef'. -/
def modelFontNamed (s : Switches) (i : Input) (base : Out) (c : Combo) : Except String Out :=
  match modelFont (i.order.map String.ofList) base c with
  | .error e => .error e
  | .ok o =>
    if o.tag = .v1 ∧ cff1Writable (renameCarriers .v1 s i).charset = false then .error "save:AssertionError"
    else .ok o

/-- the seeded defect C12c as a model variant (used only in `example`s, to show the theorems have teeth):
    the charset is rebuilt from the glyph order that has ALREADY been renamed -/
def renameGlyphsTwice (rm : List (Name × Name)) (c : Carriers) : Carriers :=
  let r := renameGlyphs rm c.order c.charStrings c.charset
  { c with order := r.order, charStrings := r.charStrings, charset := r.order.map (applyMap rm) }

end Ufo2ft.C12
