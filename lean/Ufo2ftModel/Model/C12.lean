import Ufo2ftModel.Basic
/-!
Model of ufo2ft's own logic behind property C12 (CFF optimisation level, subroutiniser backend and
CFF version affect encoding only).

* `specializeOn`        – `OutlineOTFCompiler.__init__`  (`optimizeCFF >= CFFOptimization.SPECIALIZE`)
* `subroutinizeOn`      – `PostProcessor.process`        (`optimizeCFF >= CFFOptimization.SUBROUTINIZE`)
* `processCff`/`process`– `PostProcessor.process_cff`, `_subroutinize`, `_subroutinize_with_compreffor`
                          (guard), `_subroutinize_with_cffsubr`, `DEFAULT_SUBROUTINIZER_FOR_CFF_VERSION`,
                          `CFFVersion(..)`, `SubroutinizerBackend(..)`
* `otfCompilerDefaults` – `_compilers/otfCompiler.py` field defaults
* `defNom`, `encodeWidth` – `OutlineOTFCompiler.getDefaultAndNominalWidths` / `getCharStringForGlyph`
                          (+ the `otRound(self._width)` of `T2CharStringPen.getCharString`)
* `decodeWidth`         – fontTools `T2WidthExtractor.popallWidth` (how every reader recovers the advance)
* `writtenDW`/`readDW`  – `setupTable_CFF`'s `if defaultWidthX:` elision and the CFF Private default 0
* `specTopo`            – the topology-changing passes 1–3 of fontTools `specializeCommands`
                          (`preserveTopology=False`, which is what `T2CharStringPen.getCharString(optimize=True)`
                          gives ufo2ft): combine successive rmoveto, demote 00curveto, delete 0lineto,
                          merge adjacent hlineto/vlineto.  Passes 4–7 and everything behind them
                          (cffsubr, compreffor, CFF→CFF2) only re-encode: hypotheses, see Props.
* `toCmds`/`render`     – absolute drawing ⟷ relative Type-2 commands (T2CharStringPen._p / T2OutlineExtractor)
* `dropLoneMoves`, `txQuirk` – MEASURED behaviour of the external tx binary (cffsubr); findings, not ufo2ft logic
* `modelFont`           – one source font under one option combination, predicted from the optimizeCFF=0 font
* `Encoders`, `pipeline`– the encoding path with the external encoders abstract (hypotheses live in Props)
-/
namespace Ufo2ft.C12

deriving instance DecidableEq for Except

/-! ### the dispatcher -/

/-- the `optimizeCFF` argument as passed by the caller: a Python `bool` or an int / `CFFOptimization` -/
inductive OptArg
  | bool (b : Bool)
  | int (n : Int)
  deriving DecidableEq, Repr

inductive Ver | v1 | v2
  deriving DecidableEq, Repr

inductive Backend | cffsubr | compreffor
  deriving DecidableEq, Repr

inductive Err | notImplemented | valueError
  deriving DecidableEq, Repr

/-- what the post-processor does to the CFF table -/
inductive Action
  | leave
  | convert                              -- convertCFFToCFF2
  | subr (b : Backend) (out : Ver)       -- subroutinise with backend `b`, writing table version `out`
  deriving DecidableEq, Repr

/-- OutlineOTFCompiler.__init__: `if not isinstance(optimizeCFF, bool): optimizeCFF = optimizeCFF >= SPECIALIZE` -/
def specializeOn : OptArg → Bool
  | .bool b => b
  | .int n => decide (n ≥ 1)

/-- PostProcessor.process: `if not isinstance(optimizeCFF, bool): optimizeCFF = optimizeCFF >= SUBROUTINIZE` -/
def subroutinizeOn : OptArg → Bool
  | .bool b => b
  | .int n => decide (n ≥ 2)

/-- `CFFVersion(cffVersion)` (enum lookup) -/
def parseVer (n : Int) : Except Err Ver :=
  if n = 1 then .ok .v1 else if n = 2 then .ok .v2 else .error .valueError

/-- `SubroutinizerBackend(subroutinizer)` (enum lookup by value) -/
def parseBackend (s : String) : Except Err Backend :=
  if s = "cffsubr" then .ok .cffsubr else if s = "compreffor" then .ok .compreffor else .error .valueError

/-- `DEFAULT_SUBROUTINIZER_FOR_CFF_VERSION` -/
def defaultBackend : Ver → Backend
  | .v1 => .cffsubr
  | .v2 => .cffsubr

/-- `_subroutinize` → `_subroutinize_with_compreffor` (guard) / `_subroutinize_with_cffsubr` -/
def subroutinize (b : Backend) (iv out : Ver) : Except Err Action :=
  match b with
  | .compreffor => if iv ≠ .v1 ∨ out ≠ .v1 then .error .notImplemented else .ok (.subr .compreffor .v1)
  | .cffsubr => .ok (.subr .cffsubr out)

/-- `PostProcessor.process_cff` (the font has a CFF table of version `iv`) -/
def processCff (iv : Ver) (optimize : Bool) (ver : Option Int) (sub : Option String) : Except Err Action :=
  match (match ver with | none => Except.ok iv | some n => parseVer n) with
  | .error e => .error e
  | .ok out =>
    if optimize then
      match (match sub with | none => Except.ok (defaultBackend out) | some s => parseBackend s) with
      | .error e => .error e
      | .ok backend => subroutinize backend iv out
    else if iv ≠ out then
      if iv = .v1 ∧ out = .v2 then .ok .convert else .error .notImplemented
    else .ok .leave

/-- `PostProcessor.process`, CFF part; `iv = none` is a font without CFF/CFF2 table (TrueType) -/
def process (iv : Option Ver) (opt : OptArg) (ver : Option Int) (sub : Option String) : Except Err Action :=
  match iv with
  | none => .ok .leave
  | some iv => processCff iv (subroutinizeOn opt) ver sub

/-- table version after the action -/
def outVersion (iv : Ver) : Action → Ver
  | .leave => iv
  | .convert => .v2
  | .subr _ out => out

/-- `OTFCompiler` dataclass defaults: optimizeCFF = SUBROUTINIZE, cffVersion = 1, subroutinizer = None -/
def otfCompilerDefaults : OptArg × Option Int × Option String := (.int 2, some 1, none)

/-- what `compileOTF(ufo, optimizeCFF, cffVersion, subroutinizer)` does: the outline compiler always writes
    'CFF ' (version 1), specialised or not; then the post-processor acts -/
def compileOTF (opt : OptArg) (ver : Option Int) (sub : Option String) : Except Err (Bool × Action) :=
  match process (some .v1) opt ver sub with
  | .error e => .error e
  | .ok a => .ok (specializeOn opt, a)

/-! ### advance width in the charstring -/

/-- `getDefaultAndNominalWidths`: explicit info values (each falling back to 200 / 0) or, when neither is
    set, whatever `fontTools.cffLib.width.optimizeWidths` picked (`auto`, an input) -/
def defNom (infoD infoN : Option Q) (auto : Int × Int) : Int × Int :=
  match infoD, infoN with
  | none, none => auto
  | _, _ => (otRound (infoD.getD 200), otRound (infoN.getD 0))

/-- `getCharStringForGlyph` + `T2CharStringPen.getCharString`: the width operand put in front of the
    program; `none` = omitted -/
def encodeWidth (w : Q) (d n : Int) : Option Int :=
  if w = (d : Q) then none else some (otRound ((otRound (w - (n : Q)) : Int) : Q))

/-- `T2WidthExtractor.popallWidth` -/
def decodeWidth (d n : Int) : Option Int → Int
  | none => d
  | some e => n + e

/-- setupTable_CFF: `if defaultWidthX: private.rawDict["defaultWidthX"] = defaultWidthX` (same for nominal) -/
def writtenDW (v : Int) : Option Int := if v ≠ 0 then some v else none
/-- reading a Private dict: absent key = 0 (CFF default) -/
def readDW : Option Int → Int
  | none => 0
  | some v => v

/-! ### drawings and Type-2 commands -/

/-- what a pen receives from a compiled CFF glyph (coordinates are integers at the default roundTolerance) -/
inductive Op
  | moveTo (x y : Int)
  | lineTo (x y : Int)
  | curveTo (x1 y1 x2 y2 x3 y3 : Int)
  | closePath
  deriving DecidableEq, Repr

abbrev Drawing := List Op

/-- generic Type-2 commands as `T2CharStringPen` emits them (relative) -/
inductive Cmd
  | rmoveto (dx dy : Int)
  | rlineto (dx dy : Int)
  | rrcurveto (dx1 dy1 dx2 dy2 dx3 dy3 : Int)
  deriving DecidableEq, Repr

/-- `T2CharStringPen._p` seen from the drawing: deltas against the running point, which a closePath
    does not move -/
def toCmdsFrom : Int × Int → Drawing → List Cmd
  | _, [] => []
  | (cx, cy), .moveTo x y :: l => .rmoveto (x - cx) (y - cy) :: toCmdsFrom (x, y) l
  | (cx, cy), .lineTo x y :: l => .rlineto (x - cx) (y - cy) :: toCmdsFrom (x, y) l
  | (cx, cy), .curveTo x1 y1 x2 y2 x3 y3 :: l =>
      .rrcurveto (x1 - cx) (y1 - cy) (x2 - x1) (y2 - y1) (x3 - x2) (y3 - y2) :: toCmdsFrom (x3, y3) l
  | c, .closePath :: l => toCmdsFrom c l

def toCmds (d : Drawing) : List Cmd := toCmdsFrom (0, 0) d

/-- `T2OutlineExtractor`: a moveto closes the open sub-path first, the end of the charstring closes the last -/
def renderFrom : Int × Int → Bool → List Cmd → Drawing
  | _, saw, [] => if saw then [.closePath] else []
  | (cx, cy), saw, .rmoveto dx dy :: l =>
      (if saw then [.closePath] else []) ++ .moveTo (cx + dx) (cy + dy) :: renderFrom (cx + dx, cy + dy) true l
  | (cx, cy), saw, .rlineto dx dy :: l => .lineTo (cx + dx) (cy + dy) :: renderFrom (cx + dx, cy + dy) saw l
  | (cx, cy), saw, .rrcurveto a b c d e f :: l =>
      .curveTo (cx + a) (cy + b) (cx + a + c) (cy + b + d) (cx + a + c + e) (cy + b + d + f)
        :: renderFrom (cx + a + c + e, cy + b + d + f) saw l

def render (c : List Cmd) : Drawing := renderFrom (0, 0) false c

/-! ### specializeCommands, passes 1–3 -/

/-- pass 1: "Combine successive rmoveto operations" (the loop runs from the end, so a run of movetos
    collapses into its first element) -/
def combineMoves : List Cmd → List Cmd
  | [] => []
  | c :: l =>
    match c, combineMoves l with
    | .rmoveto a b, .rmoveto a' b' :: rest => .rmoveto (a + a') (b + b') :: rest
    | c, r => c :: r

/-- `_categorizeVector` -/
inductive Cat | r | h | v | z
  deriving DecidableEq, Repr

def categorize (dx dy : Int) : Cat :=
  if dx = 0 then (if dy = 0 then .z else .v) else (if dy = 0 then .h else .r)

/-- commands after pass 2: a lineto carries the category its operator name encodes -/
inductive SCmd
  | move (dx dy : Int)
  | line (c : Cat) (dx dy : Int)
  | curve (dx1 dy1 dx2 dy2 dx3 dy3 : Int)
  deriving DecidableEq, Repr

/-- pass 2 -/
def specialize2 : Cmd → SCmd
  | .rmoveto a b => .move a b
  | .rlineto a b => .line (categorize a b) a b
  | .rrcurveto a b c d e f => .curve a b c d e f

/-- pass 3, first `if`: "A 00curveto is demoted to a (specialized) lineto" -/
def demote : SCmd → SCmd
  | .curve a b c d e f =>
      if categorize a b = .z ∧ categorize e f = .z then .line (categorize c d) c d else .curve a b c d e f
  | s => s

/-- pass 3, third `if`: "Merge adjacent hlineto's and vlineto's": `cur` (already demoted) against the
    still untouched previous command -/
def mergeInto (cur prev : SCmd) : Option SCmd :=
  match cur, prev with
  | .line .h a b, .line .h a' b' => some (.line .h (a' + a) (b' + b))
  | .line .v a b, .line .v a' b' => some (.line .v (a' + a) (b' + b))
  | _, _ => none

/-- pass 3: the loop `for i in range(len-1, -1, -1)`; `cur` = commands[i] (it may already have absorbed
    later linetos), `prevs` = commands[i-1], commands[i-2], … (untouched), `acc` = final commands after i -/
def pass3 : SCmd → List SCmd → List SCmd → List SCmd
  | cur, [], acc =>
      match demote cur with
      | .line .z _ _ => acc
      | c => c :: acc
  | cur, p :: ps, acc =>
      match demote cur with
      | .line .z _ _ => pass3 p ps acc
      | c =>
        match mergeInto c p with
        | some m => pass3 m ps acc
        | none => pass3 p ps (c :: acc)

def topo3 (l : List SCmd) : List SCmd :=
  match l.reverse with
  | [] => []
  | cur :: prevs => pass3 cur prevs []

/-- back to generic commands (what passes 4–6 re-encode) -/
def generalize : SCmd → Cmd
  | .move a b => .rmoveto a b
  | .line _ a b => .rlineto a b
  | .curve a b c d e f => .rrcurveto a b c d e f

/-- the drawing-relevant effect of `specializeCommands(commands, generalizeFirst=False)` -/
def specTopo (c : List Cmd) : List Cmd := (topo3 ((combineMoves c).map specialize2)).map generalize

/-- the drawing a specialised charstring produces, predicted from the unspecialised drawing -/
def specDrawing (d : Drawing) : Drawing := render (specTopo (toCmds d))

/-! ### one source font under all option combinations -/

/-- what is observed of one compiled font -/
structure Out where
  tag : Ver                          -- 'CFF ' or 'CFF2'
  drawing : List Drawing             -- per glyph, in glyph order
  adv : List Int                     -- hmtx advance per glyph
  layout : List String               -- digests of the raw GSUB, GPOS, GDEF tables
  deriving DecidableEq, Repr

/-- (optimizeCFF, cffVersion, subroutinizer) as passed to compileOTF -/
abbrev Combo := OptArg × Option Int × Option String

def errName : Err → String
  | .notImplemented => "NotImplementedError"
  | .valueError => "ValueError"

/-- MEASURED behaviour of the external `tx` binary behind cffsubr - not ufo2ft logic, and a finding
    (see the report): writing CFF2 for a font none of whose glyphs has an outline fails inside tx
    ("(cfw) out of memory" → cffsubr.Error), and a CFF 1 font whose glyph order is just `.notdef` or
    `.notdef, space` comes back without a charset operator, which fontTools cannot compile again
    (AttributeError: charset, raised when the font is saved). -/
def txQuirk (order : List String) (allEmpty : Bool) : Action → Option String
  | .subr .cffsubr .v2 => if allEmpty then some "Other:Error" else none
  | .subr .cffsubr .v1 =>
      if order = [".notdef"] ∨ order = [".notdef", "space"] then some "save:AttributeError" else none
  | _ => none

/-- MEASURED behaviour of tx (cffsubr), part of the same finding as the specialiser's topology passes:
    a sub-path consisting of a moveto only is not written -/
def dropLoneMoves : Drawing → Drawing
  | .moveTo _ _ :: .closePath :: l => dropLoneMoves l
  | op :: l => op :: dropLoneMoves l
  | [] => []

/-- what the post-processing action does to a glyph's drawing -/
def actionDrawing (a : Action) (d : Drawing) : Drawing :=
  match a with
  | .subr .cffsubr _ => dropLoneMoves d
  | _ => d

/-- the font `compileOTF` returns for combination `c`, predicted from the reference font `base`
    (optimizeCFF = 0, CFF 1, nothing post-processed) and its glyph order: the three options reach only
    the charstring encoder (specialise or not) and the CFF post-processing; hmtx and the layout tables
    are built without looking at them -/
def modelFont (order : List String) (base : Out) (c : Combo) : Except String Out :=
  match compileOTF c.1 c.2.1 c.2.2 with
  | .error e => .error (errName e)
  | .ok (sp, a) =>
    match txQuirk order (base.drawing.all (fun d => d.isEmpty)) a with
    | some e => .error e
    | none =>
      .ok { tag := outVersion .v1 a
            drawing := (if sp then base.drawing.map specDrawing else base.drawing).map (actionDrawing a)
            adv := base.adv
            layout := base.layout }

/-! ### the whole encoding path with the external encoders abstract -/

/-- the external encoders; `P` is an encoded charstring (opaque) -/
structure Encoders (P : Type) where
  encode : List Cmd → P               -- commandsToProgram on the pen's commands (optimizeCFF = 0)
  specialize : List Cmd → P           -- specializeCommands (all passes) + commandsToProgram
  subr : Backend → Ver → P → P        -- cffsubr.subroutinize / compreffor.compress
  convert : P → P                     -- convertCFFToCFF2
  draw : P → Drawing                  -- what a reader's pen receives

/-- `getCharStringForGlyph` followed by `PostProcessor.process_cff`, for one glyph's pen commands -/
def pipeline (E : Encoders P) (cmds : List Cmd) (c : Combo) : Except Err P :=
  match compileOTF c.1 c.2.1 c.2.2 with
  | .error e => .error e
  | .ok (sp, a) =>
    let p0 := if sp then E.specialize cmds else E.encode cmds
    .ok (match a with
      | .leave => p0
      | .convert => E.convert p0
      | .subr b v => E.subr b v p0)

end Ufo2ft.C12
