import Ufo2ftModel.Basic
/-!
Model of `featureWriters/kernFeatureWriter.py` (KernFeatureWriter, static fonts):
getKerningGroups, getKerningPairs, quantize, _splitBaseAndMarkPairs, splitKerning / partitionByScript / mergeScripts,
KerningPair.__lt__, _makeSplitScriptKernLookups (bidi filter, RTL value records, empty-lookup pruning),
_registerLookups / ast.addLookupReferences.
Unicode-derived data (scripts per glyph after GSUB closure, bidi sets, script directions, OpenType tags,
dist-enabled scripts) are inputs supplied by the harness from the implementation's own context.
-/
namespace Ufo2ft.C05
open Ufo2ft

def COMMON : String := "Zyyy"
def DFLT_SCRIPTS : List String := ["Zyyy", "Zinh"]
def SIDE1_PREFIX : String := "public.kern1."
def SIDE2_PREFIX : String := "public.kern2."

/-- `util.quantize`: `factor * otRound(number / factor)` -/
def quantize (v q : Q) : Q := q * (otRound (v / q) : Q)

/-- one side of a kerning pair: a glyph name or a (sorted) tuple of glyph names -/
inductive Side
  | glyph (g : String)
  | cls (gs : List String)
  deriving DecidableEq, Repr

def Side.isClass : Side → Bool | .glyph _ => false | .cls _ => true
def Side.glyphs : Side → List String | .glyph g => [g] | .cls gs => gs

structure KPair where
  side1 : Side
  side2 : Side
  value : Q
  deriving DecidableEq, Repr

def KPair.glyphs (p : KPair) : List String := p.side1.glyphs ++ p.side2.glyphs

/-- Python tuple-of-str comparison -/
def strListLt : List String → List String → Bool
  | [], [] => false
  | [], _ :: _ => true
  | _ :: _, [] => false
  | a :: as, b :: bs => if a < b then true else if b < a then false else strListLt as bs

/-- comparison of two sides of the same kind (the code never compares a str with a tuple) -/
def sideLt : Side → Side → Bool
  | .glyph a, .glyph b => decide (a < b)
  | .cls a, .cls b => strListLt a b
  | .glyph _, .cls _ => true
  | .cls _, .glyph _ => false

/-- `KerningPair.__lt__`: (firstIsClass, secondIsClass, side1, side2) lexicographically -/
def pairLt (a b : KPair) : Bool :=
  if a.side1.isClass != b.side1.isClass then !a.side1.isClass
  else if a.side2.isClass != b.side2.isClass then !a.side2.isClass
  else if a.side1 != b.side1 then sideLt a.side1 b.side1
  else sideLt a.side2 b.side2

/-- `pairs.sort()` — a stable sort using only `__lt__` -/
def sortPairs (l : List KPair) : List KPair := l.mergeSort (fun a b => !pairLt b a)

/-! ### getKerningGroups -/

structure Groups where
  side1 : List (String × List String)        -- group name → sorted members
  side2 : List (String × List String)
  member1 : List (String × String)           -- glyph → truncated group name
  member2 : List (String × String)

def addGroup (prefixLen : Nat) (groups : List (String × List String)) (membership : List (String × String))
    (name : String) (members : List String) : List (String × List String) × List (String × String) :=
  let truncated := (name.drop prefixLen).toString
  if members.any (fun m => (alookup m membership).isSome) then (groups, membership)  -- overlap: skip whole group
  else match alookup name groups with
    | some _ => (groups, membership)
    | none => (groups ++ [(name, sortStr members)], membership ++ members.map (fun m => (m, truncated)))

def getKerningGroups (glyphSet : List String) (groups : List (String × List String)) : Groups :=
  groups.foldl (fun (acc : Groups) (e : String × List String) =>
    let members := (e.2.filter glyphSet.contains).eraseDups
    if members.isEmpty then acc
    else if e.1.startsWith SIDE1_PREFIX then
      let r := addGroup SIDE1_PREFIX.length acc.side1 acc.member1 e.1 members
      { acc with side1 := r.1, member1 := r.2 }
    else if e.1.startsWith SIDE2_PREFIX then
      let r := addGroup SIDE2_PREFIX.length acc.side2 acc.member2 e.1 members
      { acc with side2 := r.1, member2 := r.2 }
    else acc) ⟨[], [], [], []⟩

/-! ### getKerningPairs -/

def getKerningPairs (glyphSet : List String) (g : Groups) (q : Q) (kerning : List (String × String × Q)) : List KPair :=
  kerning.filterMap (fun (s1, s2, v) =>
    let c1 := alookup s1 g.side1
    let c2 := alookup s2 g.side2
    if c1.isNone && !glyphSet.contains s1 then none
    else if c2.isNone && !glyphSet.contains s2 then none
    else if c1.isSome && c2.isSome && v == 0 then none
    else some ⟨match c1 with | some c => .cls c | none => .glyph s1,
               match c2 with | some c => .cls c | none => .glyph s2, quantize v q⟩)

/-! ### _splitBaseAndMarkPairs -/

def splitSide (marks : List String) : Side → Option Side × Option Side
  | .cls gs =>
    let b := gs.filter (fun g => !marks.contains g)
    let m := gs.filter marks.contains
    (if b.isEmpty then none else some (.cls b), if m.isEmpty then none else some (.cls m))
  | .glyph g => if marks.contains g then (none, some (.glyph g)) else (some (.glyph g), none)

def splitBaseAndMarkPairs (pairs : List KPair) (marks : Option (List String)) : List KPair × List KPair :=
  match marks with
  | none => (pairs, [])
  | some ms =>
    if ms.isEmpty then (pairs, []) else
    pairs.foldl (fun (acc : List KPair × List KPair) p =>
      let (b1, m1) := splitSide ms p.side1
      let (b2, m2) := splitSide ms p.side2
      let mk := fun (a b : Option Side) => match a, b with
        | some x, some y => [(⟨x, y, p.value⟩ : KPair)] | _, _ => []
      (acc.1 ++ mk b1 b2, acc.2 ++ mk b1 m2 ++ mk m1 b2 ++ mk m1 m2)) ([], [])

/-! ### partitionByScript / splitKerning / mergeScripts -/

structure Ctx where
  glyphScripts : List (String × List String)
  scriptDir : List (String × String)            -- script → "LTR" | "RTL" | "Auto"
  bidiR : List String
  bidiL : List String
  spacing : Bool := false     -- some GDEF mark glyph has a non-zero advance (then lookups carry a mark-filtering class)

def Ctx.dir (c : Ctx) (s : String) : String := (alookup s c.scriptDir).getD "LTR"

/-- `glyphScripts.get(glyph, DFLT_SCRIPTS)`, collapsed to {Zyyy} when it meets Common/Inherited -/
def Ctx.resolved (c : Ctx) (g : String) : List String :=
  let s := (alookup g c.glyphScripts).getD DFLT_SCRIPTS
  if s.any DFLT_SCRIPTS.contains then [COMMON] else s

/-- dict direction → set of glyphs, in insertion order -/
def addDir (d : List (String × List String)) (dir g : String) : List (String × List String) :=
  match alookup dir d with
  | some _ => d.map (fun e => if e.1 == dir then (e.1, if e.2.contains g then e.2 else e.2 ++ [g]) else e)
  | none => d ++ [(dir, [g])]

def sideDirections (c : Ctx) (glyphs : List String) : List (String × List String) :=
  glyphs.foldl (fun d g => (sortStr (c.resolved g)).foldl (fun d s => addDir d (c.dir s) g) d) []

def unionStr (a b : List String) : List String := a ++ b.filter (fun x => !a.contains x)

/-- `partitionByScript`: (scripts, split pair) for each direction combination that is not mixed -/
def partitionByScript (c : Ctx) (p : KPair) : List (List String × KPair) :=
  let d1 := sideDirections c p.side1.glyphs
  let d2 := sideDirections c p.side2.glyphs
  (d1.flatMap (fun e1 => d2.map (fun e2 => (e1, e2)))).filterMap (fun (e1, e2) =>
    let local1 : Side := if p.side1.isClass then .cls (sortStr e1.2) else .glyph (e1.2.headD "")
    let local2 : Side := if p.side2.isClass then .cls (sortStr e2.2) else .glyph (e2.2.headD "")
    let s1 := local1.glyphs.foldl (fun acc g => unionStr acc (c.resolved g)) []
    let s2 := local2.glyphs.foldl (fun acc g => unionStr acc (c.resolved g)) []
    if e1.1 != e2.1 && e1.1 != "Auto" && e2.1 != "Auto" then none   -- mixed direction: skipped
    else
      let scripts := unionStr s1 s2
      let scripts := if s1.contains COMMON && s2.contains COMMON then scripts
                     else scripts.filter (· != COMMON)
      some (sortStr scripts, ⟨local1, local2, p.value⟩))

def bucketAdd (b : List (List String × List KPair)) (k : List String) (p : KPair) : List (List String × List KPair) :=
  match b.find? (fun e => e.1 == k) with
  | some _ => b.map (fun e => if e.1 == k then (e.1, e.2 ++ [p]) else e)
  | none => b ++ [(k, [p])]

/-- one sweep of the inner `while sets:` loop -/
def mergeSweep (fuel : Nat) (sets : List (List String)) : List (List String) × Bool :=
  match fuel with
  | 0 => (sets, false)
  | fuel + 1 =>
    match sets with
    | [] => ([], false)
    | common :: rest =>
      let (common', remaining, merged) := rest.foldl (fun (acc : List String × List (List String) × Bool) s =>
        if s.any acc.1.contains then (unionStr acc.1 s, acc.2.1, true) else (acc.1, acc.2.1 ++ [s], acc.2.2))
        (common, [], false)
      let (r, m) := mergeSweep fuel remaining
      (common' :: r, merged || m)

/-- the outer `while merged:` fixpoint -/
def mergeFix (fuel : Nat) (sets : List (List String)) : List (List String) :=
  match fuel with
  | 0 => sets
  | fuel + 1 =>
    let (r, merged) := mergeSweep (sets.length + 1) sets
    if merged then mergeFix fuel r else r

def mergeScripts (b : List (List String × List KPair)) : List (List String × List KPair) :=
  let sets := mergeFix (b.length + 1) ((b.map (·.1)).filter (fun k => !k.isEmpty))
  let empty : List (List String × List KPair) := sets.foldl (fun acc s =>
    if acc.any (fun e => e.1 == sortStr s) then acc else acc ++ [(sortStr s, [])]) []
  b.foldl (fun acc (scripts, pairs) =>
    match sets.find? (fun s2 => s2.any scripts.contains) with
    | some s2 => acc.map (fun e => if e.1 == sortStr s2 then (e.1, e.2 ++ pairs) else e)
    | none => acc) empty

def splitKerning (c : Ctx) (pairs : List KPair) : List (List String × List KPair) :=
  let buckets := pairs.foldl (fun b p => (partitionByScript c p).foldl (fun b (k, sp) => bucketAdd b k sp) b) []
  (mergeScripts buckets).map (fun e => (e.1, sortPairs e.2))

/-! ### lookups -/

structure Rule where
  side1 : List String
  side2 : List String
  firstIsClass : Bool
  secondIsClass : Bool
  enumerated : Bool
  value : Q
  rtl : Bool
  deriving DecidableEq, Repr

structure Lookup where
  name : String
  ignoreMarks : Bool
  rules : List Rule
  deriving DecidableEq, Repr

/-- Python `str.replace(pat, rep)` on a character list (pat non-empty): the leftmost, non-overlapping occurrences are replaced;
    `skip` counts the characters of a matched occurrence that are still to be dropped -/
def replaceChars (pat rep : List Char) : Nat → List Char → List Char
  | _, [] => []
  | skip + 1, _ :: t => replaceChars pat rep skip t
  | 0, c :: t =>
    if pat.isPrefixOf (c :: t) then rep ++ replaceChars pat rep (pat.length - 1) t else c :: replaceChars pat rep 0 t

/-- Python `sep.join(parts)` on character lists -/
def joinChars (sep : List Char) : List (List Char) → List Char
  | [] => []
  | [a] => a
  | a :: b :: r => a ++ sep ++ joinChars sep (b :: r)

/-- `f"kern_{'_'.join(scripts)}{suffix}".replace(COMMON_SCRIPT, COMMON_CLASS_NAME)`, written over explicit character lists (the
    core `String.replace` / `String.intercalate` are opaque to proof; the emitted strings are the same) -/
def lookupName (scripts : List String) (suffix : String) : String :=
  String.ofList (replaceChars COMMON.toList "Default".toList 0
    ("kern_".toList ++ joinChars ['_'] (scripts.map String.toList) ++ suffix.toList))

def makeRules (c : Ctx) (scripts : List String) (pairs : List KPair) : List Rule :=
  pairs.filterMap (fun p =>
    let gl := p.glyphs
    let hasR := gl.any c.bidiR.contains
    let hasL := gl.any c.bidiL.contains
    if hasR && hasL then none          -- ambiguous direction: skipped
    else
      let scriptIsRtl := scripts.all (fun s => c.dir s == "RTL")
      some { side1 := p.side1.glyphs, side2 := p.side2.glyphs, firstIsClass := p.side1.isClass,
             secondIsClass := p.side2.isClass, enumerated := p.side1.isClass != p.side2.isClass,
             value := p.value, rtl := scriptIsRtl && !hasL })

/-- `lookups: dict[script, dict[lookupName, lookup]]` in insertion order -/
abbrev LookupMap := List (String × List (String × Lookup))

def lmSet (m : LookupMap) (script : String) (lk : Lookup) : LookupMap :=
  let upd := fun (l : List (String × Lookup)) =>
    if l.any (fun e => e.1 == lk.name) then l.map (fun e => if e.1 == lk.name then (e.1, lk) else e) else l ++ [(lk.name, lk)]
  if m.any (fun e => e.1 == script) then m.map (fun e => if e.1 == script then (e.1, upd e.2) else e)
  else m ++ [(script, upd [])]

/-- `_makeSplitScriptKernLookups` -/
def makeSplitScriptKernLookups (c : Ctx) (m : LookupMap) (pairs : List KPair) (ignoreMarks : Bool) (suffix : String) : LookupMap :=
  let m := (splitKerning c pairs).foldl (fun m (scripts, ps) =>
    let lk : Lookup := ⟨lookupName scripts suffix, ignoreMarks, makeRules c scripts ps⟩
    scripts.foldl (fun m s => lmSet m s lk) m) m
  -- clean out empty lookups
  -- a lookup counts as empty only if it holds nothing but a lookupflag statement: the MFS_ class definition of a
  -- mark-filtering lookup keeps it alive even without rules
  (m.map (fun e => (e.1, e.2.filter (fun l => !l.2.rules.isEmpty || (l.2.ignoreMarks && c.spacing))))).filter (fun e => !e.2.isEmpty)

def makeKerningLookups (c : Ctx) (pairs : List KPair) (marks : Option (List String)) (ignoreMarks : Bool) : LookupMap :=
  if ignoreMarks then
    let (bp, mp) := splitBaseAndMarkPairs pairs marks
    let m := if bp.isEmpty then [] else makeSplitScriptKernLookups c [] bp true ""
    if mp.isEmpty then m else makeSplitScriptKernLookups c m mp false "_marks"
  else
    -- `_makeKerningLookup(name, ignoreMarks=True)` sets the flag only `if ignoreMarks and self.options.ignoreMarks`
    makeSplitScriptKernLookups c [] pairs false ""

/-! ### _registerLookups -/

structure Reg where
  script : String            -- OpenType script tag
  languages : List String    -- "dflt" first, then the other declared languages (each includes the default lookups)
  lookups : List String      -- lookup names, in order
  deriving DecidableEq, Repr

structure RegCtx where
  dist : List String                      -- DIST_ENABLED scripts (among those that occur)
  otTags : List (String × List String)    -- script → OpenType tags
  langs : List (String × List String)     -- feaLanguagesByScript

def dedupNames (l : List String) : List String := l.eraseDups

def langsOf (r : RegCtx) (tag : String) : List String :=
  let ls := (alookup tag r.langs).getD ["dflt"]
  "dflt" :: ls.filter (· != "dflt")

def registerLookups (c : Ctx) (r : RegCtx) (isKern : Bool) (m : LookupMap) : List Reg :=
  let names := fun (s : String) => ((alookup s m).getD []).map (·.1)
  let dflt0 := if isKern then dedupNames (names COMMON) else []
  let sortedScripts := sortStr (m.map (·.1))
  let ltr := sortedScripts.filter (fun s => !r.dist.contains s && c.dir s == "LTR")
  let rtl := sortedScripts.filter (fun s => !r.dist.contains s && c.dir s == "RTL")
  let lLTR := ltr.flatMap names
  let lRTL := rtl.flatMap names
  let dflt := if isKern then dedupNames (dflt0 ++ (if lLTR.isEmpty then lRTL else lLTR)) else dflt0
  let first := if dflt.isEmpty then [] else [(⟨"DFLT", langsOf r "DFLT", dflt⟩ : Reg)]
  let toRef := sortedScripts.filter (fun s => (if isKern then !r.dist.contains s else r.dist.contains s) && !DFLT_SCRIPTS.contains s)
  first ++ toRef.flatMap (fun s =>
    ((alookup s r.otTags).getD []).map (fun tag =>
      -- dict.update: default-script lookups first, then the script's own (a repeated name keeps its first position)
      let ls := dedupNames ((DFLT_SCRIPTS.flatMap names) ++ names s)
      (⟨tag, langsOf r tag, ls⟩ : Reg)))

structure Program where
  lookups : List Lookup          -- distinct lookups in emission order
  kern : List Reg
  dist : List Reg

def program (c : Ctx) (r : RegCtx) (glyphSet : List String) (groups : List (String × List String))
    (kerning : List (String × String × Q)) (q : Q) (marks : Option (List String)) (ignoreMarks : Bool)
    (todoKern todoDist : Bool) : Program :=
  let g := getKerningGroups glyphSet groups
  let pairs := getKerningPairs glyphSet g q kerning
  let m := makeKerningLookups c pairs marks ignoreMarks
  let lks := (sortStr (m.map (·.1))).flatMap (fun s => ((alookup s m).getD []).map (·.2))
  { lookups := lks.foldl (fun acc l => if acc.any (fun x => x.name == l.name) then acc else acc ++ [l]) []
    kern := if todoKern then registerLookups c r true m else []
    dist := if todoDist then registerLookups c r false m else [] }

end Ufo2ft.C05
