import Ufo2ftModel.Model.C02
/-!
Model of `dropImpliedOnCurves=True` on the TrueType path.

* single font: `OutlineTTFCompiler.compileGlyphs` asks `TTGlyphPointPen.glyph(dropImpliedOnCurves=True, round=otRound)`;
  there `dropImpliedOnCurvePoints(glyph)` runs on the UNROUNDED float coordinates and `glyph.coordinates.toInt(round=round)`
  rounds what is left.  The test `_is_mid_point(p0, p1, p2)` is a disjunction: the point is the exact midpoint of its two
  off-curve neighbours on the unrounded coordinates (`math.isclose`, modelled as equality of rationals), OR it is the exact
  midpoint of the neighbours after `otRound` of all three points.
* variable font: `InterpolatableTTFCompiler.compileOutlines` builds every master with `dropImpliedOnCurves=False` and
  `roundCoordinates=False`; `varLib.build_many(..., drop_implied_oncurves=True)` → `drop_implied_oncurve_points(*masters)` →
  `dropImpliedOnCurvePoints(*glyphs)` per glyph name: only points droppable in ALL (simple, non-empty) masters are dropped,
  the same index set in every master; masters with different contour counts / flags / contour ends raise `ValueError`
  (which varLib logs and swallows: the glyph then keeps all its points).

A simple glyph is a list of closed contours, a contour a list of points with an on-curve flag: the nested form of glyf's
flat (coordinates, flags, endPtsOfContours); neighbours are taken cyclically inside one contour, as the Python index
arithmetic `prv = i - 1 if i > start else last`, `nxt = i + 1 if i < last else start` does.  Only quadratic glyphs
(flags 0 / 1) are modelled; glyf-v1 cubic off-curve flags are not.
-/
namespace Ufo2ft.C02
open Ufo2ft

/-- a glyf point while `GlyphCoordinates` still holds floats (before `toInt`) -/
structure QPt where
  x : Q
  y : Q
  on : Bool
  deriving DecidableEq, Repr

/-- `((p0 + p2) * 0.5).isclose(p1)` on the float coordinates (`math.isclose` modelled as equality) -/
def exactMid (a p b : QPt) : Bool := decide ((a.x + b.x) / 2 = p.x) && decide ((a.y + b.y) / 2 = p.y)

/-- `_roundv(p0) + _roundv(p2) == _roundv(p1) * 2` (`_roundv` = otRound per coordinate) -/
def roundedMid (a p b : QPt) : Bool :=
  decide (otRound a.x + otRound b.x = otRound p.x * 2) && decide (otRound a.y + otRound b.y = otRound p.y * 2)

/-- `_is_mid_point(p0, p1, p2)`: "True if p1 is in the middle of p0 and p2, either before or after rounding" -/
def isMidPoint (a p b : QPt) : Bool := exactMid a p b || roundedMid a p b

/-- loop body of `dropImpliedOnCurvePoints`: the point is on-curve, the previous point is off-curve, the next point has the
    same flag as the previous one, and the point is the midpoint -/
def dropTest (a p b : QPt) : Bool := p.on && !a.on && !b.on && isMidPoint a p b

/-- the inner loop over one contour: `prev` is the point before the head of the list, `first` the contour's first point
    (the successor of its last point) -/
def maskGo (t : QPt → QPt → QPt → Bool) (first : QPt) : QPt → List QPt → List Bool
  | _, [] => []
  | prev, p :: r => t prev p (r.headD first) :: maskGo t first p r

/-- which points of a closed contour the test selects (one Bool per point) -/
def contourMask (t : QPt → QPt → QPt → Bool) (c : List QPt) : List Bool :=
  match c with
  | [] => []
  | p :: r => maskGo t p (r.getLastD p) (p :: r)

def trueIdx : List Bool → Nat → List Nat
  | [], _ => []
  | b :: m, i => if b then i :: trueIdx m (i + 1) else trueIdx m (i + 1)

/-- `may_drop` for one contour: the indices (inside the contour) of the impliable on-curve points -/
def mayDrop (c : List QPt) : List Nat := trueIdx (contourMask dropTest c) 0

/-- `coords[i] for i in range(len(coords)) if i not in drop` -/
def dropMask : List α → List Bool → List α
  | [], _ => []
  | p :: l, m => if m.headD false then dropMask l m.tail else p :: dropMask l m.tail

/-- one contour of a single glyph -/
def dropSingleC (c : List QPt) : List QPt := dropMask c (contourMask dropTest c)

abbrev QGlyph := List (List QPt)
abbrev GMask := List (List Bool)

def glyphMask (g : QGlyph) : GMask := g.map (contourMask dropTest)
def dropGlyph (g : QGlyph) (m : GMask) : QGlyph := List.zipWith dropMask g m

/-- `dropImpliedOnCurvePoints(glyph)` -/
def dropSingle (g : QGlyph) : QGlyph := dropGlyph g (glyphMask g)

/-- `drop.intersection_update(may_drop)` -/
def andMask (a b : GMask) : GMask := List.zipWith (List.zipWith (fun x y => x && y)) a b

/-- (numberOfContours, flags, endPtsOfContours) of the flat glyf form, as one nested value -/
def shape (g : QGlyph) : GMask := g.map (fun c => c.map (·.on))

inductive DropErr | valueError
  deriving DecidableEq, Repr

/-- the masters that take part: `if glyph.numberOfContours < 1: continue` -/
def simpleMasters (masters : List QGlyph) : List QGlyph := masters.filter (fun g => !g.isEmpty)

/-- the jointly droppable points: the intersection over the participating masters -/
def jointMask (g0 : QGlyph) (rest : List QGlyph) : GMask := rest.foldl (fun acc g => andMask acc (glyphMask g)) (glyphMask g0)

/-- `dropImpliedOnCurvePoints(*interpolatable_glyphs)`: composite / empty masters are skipped and left alone (dropping from
    an empty glyph gives the empty glyph); the others must agree in contour count, flags and contour ends -/
def dropJoint (masters : List QGlyph) : Except DropErr (List QGlyph) :=
  match simpleMasters masters with
  | [] => .ok masters
  | g0 :: rest =>
    if rest.all (fun g => shape g == shape g0) then
      .ok (masters.map (fun g => dropGlyph g (jointMask g0 rest)))
    else .error .valueError

/-! ### the static TrueType path with the option on -/

def toQPts (c : Contour) : List QPt := List.map (fun (p : Pt) => (⟨p.x, p.y, p.seg.isSome⟩ : QPt)) c

/-- `glyph.coordinates.toInt(round=otRound)` -/
def roundQ (c : List QPt) : List TTPoint := List.map (fun (p : QPt) => (⟨otRound p.x, otRound p.y, p.on⟩ : TTPoint)) c

def ofTT (c : List TTPoint) : List QPt := List.map (fun (p : TTPoint) => (⟨(p.x : Q), (p.y : Q), p.on⟩ : QPt)) c

/-- one contour through `TTGlyphPointPen.glyph(dropImpliedOnCurves=True, round=otRound)`: test and drop on the float
    coordinates, round afterwards -/
def ttDropC (c : List QPt) : List TTPoint := roundQ (dropSingleC c)

/-- `ttGlyph` with `dropImpliedOnCurves=True` (composites are untouched) -/
def ttGlyphDrop (o : Opts) (g : Glyph) : TTGlyph :=
  if g.comps.isEmpty || !g.contours.isEmpty then
    .simple ((dropSingle (g.contours.map (fun c => toQPts (ttContour o c)))).map roundQ)
  else .composite (g.comps.map (fun k => ⟨k.base, otRound k.t.dx, otRound k.t.dy, k.t.linear⟩))

/-- the variable path as far as the default master's glyf entry goes: masters unrounded and undropped, joint drop, the
    default master's coordinates rounded when the glyf table is compiled; a `ValueError` is swallowed by
    `drop_implied_oncurve_points` and the glyph keeps every point -/
def vfDefault (masters : List QGlyph) (dflt : Nat) : List (List TTPoint) :=
  match dropJoint masters with
  | .ok ms => (ms.getD dflt []).map roundQ
  | .error _ => (masters.getD dflt []).map roundQ

/-- master `k`'s glyf entry as the variable font reproduces it at master `k`'s location: the master with the joint mask applied,
    rounded; when the masters are incompatible the glyph gets no variations and looks like the default master everywhere -/
def vfMaster (masters : List QGlyph) (dflt k : Nat) : List (List TTPoint) :=
  match dropJoint masters with
  | .ok ms => (ms.getD k []).map roundQ
  | .error _ => (masters.getD dflt []).map roundQ

end Ufo2ft.C02
