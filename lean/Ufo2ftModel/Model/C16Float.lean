import Ufo2ftModel.Basic
/-!
IEEE-754 binary64 arithmetic as Python performs it, on exact rationals.

Every Python `float` *is* a dyadic rational; `a * b`, `a / b`, `a + b` on floats return the exact result
rounded to the nearest representable double, ties to even.  `fl` is that rounding (53 significant bits;
overflow and subnormals are outside the value ranges of font info and are not modelled).
This file is vocabulary (like `otRound` in Basic): both the model and the specification speak about
"the double nearest to x".
-/
namespace Ufo2ft.C16

/-- round to the nearest integer, ties to the even one -/
def roundHalfEven (m : Q) : Int :=
  let f := m.floor
  let r := m - (f : Q)
  if r < 1/2 then f else if 1/2 < r then f + 1 else if f % 2 = 0 then f else f + 1

/-- 2^e for an integer exponent -/
def pow2 (e : Int) : Q := if 0 ≤ e then ((2 ^ e.toNat : Nat) : Q) else 1 / ((2 ^ (-e).toNat : Nat) : Q)

/-- the double nearest to `q` (round-half-even on a 53-bit significand) -/
def fl (q : Q) : Q :=
  if q = 0 then 0 else
  let n := q.num.natAbs
  let d := q.den
  -- 2^a ≤ n < 2^(a+1), 2^b ≤ d < 2^(b+1)  ⇒  |q|·2^-e0 ∈ (2^51, 2^53)
  let e0 : Int := (Nat.log2 n : Int) - (Nat.log2 d : Int) - 52
  let e : Int := if (2 ^ 52 : Nat) ≤ absQ q / pow2 e0 then e0 else e0 - 1
  (roundHalfEven (q / pow2 e) : Q) * pow2 e

/-- Python float multiplication / division / addition / subtraction -/
def fmul (a b : Q) : Q := fl (a * b)
def fdiv (a b : Q) : Q := fl (a / b)
def fadd (a b : Q) : Q := fl (a + b)
def fsub (a b : Q) : Q := fl (a - b)

/-- a decimal literal of the source text, e.g. `lit 8 10` for `0.8` (correctly rounded, as Python's parser does) -/
def lit (n : Int) (d : Nat) : Q := fl (Rat.divInt n d)

/-- fontTools.misc.roundTools.otRound on a Python number: `int(math.floor(v + 0.5))` with the float addition -/
def otRoundF (v : Q) : Int := (fadd v (1/2)).floor

/-- Python `int(x)`: truncation toward zero -/
def truncQ (x : Q) : Int := if 0 ≤ x then x.floor else -((-x).floor)

/-- Python `round(x, 3)` on a float: decimal rounding (half-even on the exact binary value), result as a double -/
def round3 (x : Q) : Q := fl ((roundHalfEven (x * 1000) : Q) / 1000)

/-- fontTools floatToFixed/fixedToFloat round trip for a 16.16 field (what a reloaded font shows) -/
def fixed16 (x : Q) : Q := (otRoundF (x * 65536) : Q) / 65536

end Ufo2ft.C16
