import Ufo2ftModel.Model.C14
/-!
The entry of `BaseFilter.__call__` (filters/base.py): which glyph set the filter works on.
```python
if glyphSet is None:
    glyphSet = _GlyphSet.from_layer(font)      # non-copying view of the font's default layer: in place
context = self.set_context(font, glyphSet)
```
The test is `is None`, not truthiness: a glyph set that was given but has no glyphs in it (what is left of a sparse
layer, `{}`) is still the object the filter works on.  `layer` is the view of the source font's default layer.
-/
namespace Ufo2ft.C14

/-- the object `self.context.glyphSet` refers to -/
inductive Target
  | given      -- the glyph set passed by the caller
  | layer      -- a view of the source font's default layer (edits go to the font)
  deriving DecidableEq, Repr

def entryTarget (given : Option GlyphSet) : Target :=
  match given with
  | none => .layer
  | some _ => .given

def entryGlyphSet (given : Option GlyphSet) (layer : GlyphSet) : GlyphSet :=
  match given with
  | none => layer
  | some gs => gs

/-- `F.__call__(font, glyphSet)`: what it works on, and the outcome -/
def entryCall (k : Kind) (incl : Include) (obj : Obj) (given : Option GlyphSet) (layer : GlyphSet) :
    Target × Obj × Except Err Out :=
  (entryTarget given, call k incl obj (entryGlyphSet given layer))

end Ufo2ft.C14
