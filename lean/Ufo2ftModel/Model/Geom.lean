import Ufo2ftModel.Basic
/-!
Shared geometry vocabulary: fontTools' `Transform`, point-pen contours, glyphs, glyph sets, and the
models of the fontTools pens ufo2ft drives (`ReverseContourPointPen`, `TransformPointPen`,
`DecomposingFilterPointPen`), of `util.decomposeCompositeGlyph`, `util.getMaxComponentDepth`
and of the traversal in `BaseFilter.__call__`.
-/
namespace Ufo2ft

/-- fontTools.misc.transform.Transform: p ↦ (xx·x + yx·y + dx, xy·x + yy·y + dy) -/
structure Affine where
  xx : Q
  xy : Q
  yx : Q
  yy : Q
  dx : Q
  dy : Q
  deriving DecidableEq, Repr

namespace Affine
def id : Affine := ⟨1, 0, 0, 1, 0, 0⟩
/-- `Transform.transformPoint` -/
def apply (t : Affine) (p : Q × Q) : Q × Q := (t.xx * p.1 + t.yx * p.2 + t.dx, t.xy * p.1 + t.yy * p.2 + t.dy)
/-- `Transform.transformVector` (linear part only) -/
def applyVec (t : Affine) (p : Q × Q) : Q × Q := (t.xx * p.1 + t.yx * p.2, t.xy * p.1 + t.yy * p.2)
/-- `s.transform(o)`: apply `o` first, then `s` -/
def compose (s o : Affine) : Affine :=
  ⟨o.xx * s.xx + o.xy * s.yx, o.xx * s.xy + o.xy * s.yy, o.yx * s.xx + o.yy * s.yx, o.yx * s.xy + o.yy * s.yy,
   s.xx * o.dx + s.yx * o.dy + s.dx, s.xy * o.dx + s.yy * o.dy + s.dy⟩
def det (t : Affine) : Q := t.xx * t.yy - t.xy * t.yx
def translate (t : Affine) (x y : Q) : Affine := t.compose ⟨1, 0, 0, 1, x, y⟩
def scale (t : Affine) (x y : Q) : Affine := t.compose ⟨x, 0, 0, y, 0, 0⟩
/-- `Transform.inverse` (identity for singular input is NOT what Python does: it divides by zero; callers guard) -/
def inverse (t : Affine) : Affine :=
  let d := t.det
  let xx := t.yy / d; let xy := -t.xy / d; let yx := -t.yx / d; let yy := t.xx / d
  ⟨xx, xy, yx, yy, -xx * t.dx - yx * t.dy, -xy * t.dx - yy * t.dy⟩
def linear (t : Affine) : Q × Q × Q × Q := (t.xx, t.xy, t.yx, t.yy)
end Affine

inductive Seg | move | line | curve | qcurve
  deriving DecidableEq, Repr

structure Pt where
  x : Q
  y : Q
  seg : Option Seg      -- `none` = off-curve
  deriving DecidableEq, Repr

abbrev Contour := List Pt

def Pt.map (t : Affine) (p : Pt) : Pt := let q := t.apply (p.x, p.y); { p with x := q.1, y := q.2 }
def Contour.map (t : Affine) (c : Contour) : Contour := List.map (Pt.map t) c

structure Comp where
  base : String
  t : Affine
  deriving DecidableEq, Repr

structure Anchor where
  name : String
  x : Q
  y : Q
  deriving DecidableEq, Repr

structure Glyph where
  name : String
  width : Q
  height : Q
  contours : List Contour
  comps : List Comp
  anchors : List Anchor
  deriving DecidableEq, Repr

/-- Python dict name → glyph: insertion ordered -/
abbrev GlyphSet := List (String × Glyph)

def GlyphSet.get? (gs : GlyphSet) (n : String) : Option Glyph := alookup n gs
def GlyphSet.set (gs : GlyphSet) (n : String) (g : Glyph) : GlyphSet :=
  gs.map (fun e => if e.1 == n then (n, g) else e)
def GlyphSet.names (gs : GlyphSet) : List String := gs.map (·.1)

/-! ### ReverseContourPointPen -/

/-- second loop of `_flushContour`: every on-curve point takes the segment type of the previous
    on-curve point in the new order -/
def retype : List Pt → Option Seg → List Pt
  | [], _ => []
  | p :: ps, last =>
    match p.seg with
    | some t => { p with seg := last } :: retype ps (some t)
    | none => p :: retype ps last

def firstOnCurve : List Pt → Option Seg
  | [] => none
  | p :: ps => match p.seg with | some t => some t | none => firstOnCurve ps

/-- `ReverseContourPointPen._flushContour` -/
def reverseContour (c : Contour) : Contour :=
  match c with
  | [] => []
  | p0 :: rest =>
    if p0.seg = some .move then
      -- open contour: reverse, drop leading off-curves, first point becomes the `move`
      retype ((p0 :: rest).reverse.dropWhile (fun p => p.seg.isNone)) (some .move)
    else
      -- closed: the start point stays first
      retype (p0 :: rest.reverse) (firstOnCurve (rest ++ [p0]))

/-! ### DecomposingFilterPointPen driven by decomposeCompositeGlyph -/

inductive GErr | missing (base : String) | recursion | cyclic | valueError | assertion | exception
  deriving DecidableEq, Repr

/-- what drawing one component through the pen stack appends to the output glyph -/
structure Drawn where
  contours : List Contour
  comps : List Comp

def Drawn.append (a b : Drawn) : Drawn := ⟨a.contours ++ b.contours, a.comps ++ b.comps⟩

/-- contours of a base drawn through `ReverseContourPointPen(TransformPointPen(out, T))` -/
def drawContours (reverseFlipped : Bool) (t : Affine) (cs : List Contour) : List Contour :=
  cs.map (fun c => Contour.map t (if reverseFlipped && decide (t.det < 0) then reverseContour c else c))

/-- `self.include is None or baseGlyphName in self.include` -/
def isIncluded (incl : Option (List String)) (base : String) : Bool :=
  match incl with | none => true | some l => l.contains base

/-- `if self.decomposeNested and self.include: self.include = None` (a non-empty set is truthy) -/
def inclNested (nested : Bool) (incl : Option (List String)) : Option (List String) :=
  match incl with
  | some l => if nested && !l.isEmpty then none else some l
  | none => none

mutual
/-- `DecomposingFilterPointPen.addComponent(base, T)`; `incl = none` ⇔ include is None -/
def addComp (fuel : Nat) (gs : GlyphSet) (reverseFlipped nested : Bool) (incl : Option (List String))
    (base : String) (t : Affine) : Except GErr Drawn :=
  match fuel with
  | 0 => .error .recursion
  | fuel + 1 =>
    if isIncluded incl base then
      match gs.get? base with
      | none => .error (.missing base)
      | some b =>
        match addComps fuel gs reverseFlipped nested (inclNested nested incl) t b.comps with
        | .error e => .error e
        | .ok d => .ok ⟨drawContours reverseFlipped t b.contours ++ d.contours, d.comps⟩
    else .ok ⟨[], [⟨base, t⟩]⟩
/-- the nested components of a base, each arriving through `TransformPointPen.addComponent` (composed matrix) -/
def addComps (fuel : Nat) (gs : GlyphSet) (reverseFlipped nested : Bool) (incl : Option (List String))
    (t : Affine) (ks : List Comp) : Except GErr Drawn :=
  match ks with
  | [] => .ok ⟨[], []⟩
  | k :: ks =>
    match addComp fuel gs reverseFlipped nested incl k.base (t.compose k.t) with
    | .error e => .error e
    | .ok d => match addComps fuel gs reverseFlipped nested incl t ks with
      | .error e => .error e
      | .ok d' => .ok (d.append d')
end

/-- `util.decomposeCompositeGlyph(glyph, glyphSet, reverseFlipped=True, include, decomposeNested)` -/
def decomposeGlyph (gs : GlyphSet) (nested : Bool) (incl : Option (List String)) (g : Glyph) : Except GErr Glyph :=
  match addComps (gs.length + 1) gs true nested incl Affine.id g.comps with
  | .error e => .error e
  | .ok d => .ok { g with contours := g.contours ++ d.contours, comps := d.comps }

/-! ### getMaxComponentDepth and the traversal order of BaseFilter.__call__ -/

mutual
def depthGlyph (fuel : Nat) (gs : GlyphSet) (g : Glyph) (maxDepth : Nat) (visited stack : List String) :
    Except GErr (Nat × List String) :=
  match fuel with
  | 0 => .error .recursion
  | fuel + 1 =>
    if g.comps.isEmpty then .ok (maxDepth, visited)
    else if visited.contains g.name then .error .assertion
    else depthComps fuel gs g.comps (maxDepth + 1) (maxDepth + 1) (g.name :: visited) (g.name :: stack)
def depthComps (fuel : Nat) (gs : GlyphSet) (ks : List Comp) (initial cur : Nat) (visited stack : List String) :
    Except GErr (Nat × List String) :=
  match ks with
  | [] => .ok (cur, visited)
  | k :: ks =>
    match gs.get? k.base with
    | none => depthComps fuel gs ks initial cur visited stack
    | some b =>
      if !visited.contains k.base then
        match depthGlyph fuel gs b initial visited stack with
        | .error e => .error e
        | .ok (d, visited') => depthComps fuel gs ks initial (max cur d) visited' stack
      else if stack.contains k.base then .error .cyclic
      else depthComps fuel gs ks initial cur visited stack
end

def maxComponentDepth (gs : GlyphSet) (g : Glyph) : Except GErr Nat :=
  match depthGlyph (gs.length + 2) gs g 0 [] [] with
  | .error e => .error e
  | .ok (d, _) => .ok d

def depthsOf (gs : GlyphSet) : List (String × Glyph) → Except GErr (List (String × Nat))
  | [] => .ok []
  | (n, g) :: l => match maxComponentDepth gs g, depthsOf gs l with
    | .ok d, .ok r => .ok ((n, d) :: r)
    | .error e, _ => .error e
    | _, .error e => .error e

/-- `sorted(glyphSet.keys(), key=lambda g: -depth(g))` (stable) -/
def orderedGlyphs (gs : GlyphSet) : Except GErr (List String) :=
  match depthsOf gs gs with
  | .error e => .error e
  | .ok ds => .ok ((ds.mergeSort (fun a b => decide (a.2 ≥ b.2))).map (·.1))

end Ufo2ft
