import Ufo2ftModel.Basic
/-!
Model for property C08 (output is a pure function of UFO content and options).

Every place where the anchored feature writers / filters serialise a Python `set` (or a dict whose
insertion order comes from one, or from the order in which a UFO library happens to store
kerning / groups / glyphs) is modelled as a function of a `List`: the list is *one arbitrary
iteration order* of the set.  `Props/C08.lean` proves `l₁.Perm l₂ → emit l₁ = emit l₂`.

  kernFeatureWriter.py   getKerningGroups (366/390)  _write (298-304)  _registerLookups (787-854)
                         splitKerning / partitionByScript / mergeScripts (857-993)  KerningPair.__lt__ (77-88)
                         makeAllGlyphClassDefinitions iteration order (1016/1049)
  markFeatureWriter.py   _marksAsAST (43/93)  colorGraph (239-249)  _groupMarkClasses (517-552)
                         _makeMarkClassDefinitions (451)  _groupAttachments (593)  _makeFeatures (724)  _write (1174)
  cursFeatureWriter.py   _getCursiveAnchorPairs (22-34)
  gdefFeatureWriter.py   _getLigatureCarets (57-81)  _sortedGlyphClass (83-84)
  propagateAnchors.py    _propagate_glyph_anchors: anchor_names / to_add (106-151)
  _compilers/baseCompiler.py  the compiler object as a state machine (cached skipExportGlyphs / featureCompilerClass)
  infoCompiler.py        InfoCompiler.__init__ (29-44): the temporary UFO's Info = the default master's Info + the
                         designspace <variable-font> overrides (lib["public.fontInfo"]), with Python object identity
-/
namespace Ufo2ft.C08

/-! ### orders -/

/-- Python `<=` on tuples of `str` (first difference decides, a prefix is smaller). -/
def lexLe : List String → List String → Bool
  | [], _ => true
  | _ :: _, [] => false
  | a :: as, b :: bs => if a = b then lexLe as bs else strLe a b

/-- `sorted(xs, key=key)` / `sorted(d.items())` for a dict (unique keys: the values are never compared). -/
def sortOn (le : κ → κ → Bool) (key : α → κ) (l : List α) : List α :=
  l.mergeSort (fun a b => le (key a) (key b))

/-- set union `a |= b` on list-represented sets -/
def union (a b : List String) : List String := a ++ b.filter (fun x => !a.contains x)

def disjoint (a b : List String) : Bool := a.all (fun x => !b.contains x)

/-! ### kernFeatureWriter -/

/-- `tuple(sorted(members))`, `tuple(sorted(scripts))`, `sorted(side1Directions[d])`: the argument is a set. -/
def setTuple (s : List String) : List String := sortStr s

/-- `_write`: `[c for _, c in sorted(classDefs.items())]` -/
def classDefsOut (classDefs : List (String × β)) : List β := (sortOn strLe Prod.fst classDefs).map Prod.snd

/-- `_write`: `for _, grp in sorted(lookups.items()): lookupGroups.extend(l for l in grp.values() if l not in lookupGroups)`.
A lookup object is represented by its (unique) name. -/
def lookupGroupsOut (lookups : List (String × List (String × String))) : List String :=
  dedupFirst ((sortOn strLe Prod.fst lookups).flatMap (fun e => e.2.map Prod.snd))

/-- `d.update(e)` on an insertion-ordered dict -/
def dictUpdate (d : List (String × String)) : List (String × String) → List (String × String)
  | [] => d
  | (k, v) :: e =>
    if (d.map Prod.fst).contains k then dictUpdate (d.map (fun x => if x.1 == k then (k, v) else x)) e
    else dictUpdate (d ++ [(k, v)]) e

structure RegCtx where
  isKern : Bool
  distEnabled : List String              -- DIST_ENABLED_SCRIPTS
  dfltScripts : List String              -- DFLT_SCRIPTS = {"Zyyy", "Zinh"}: a SET, iterated at line 844
  dir : List (String × String)           -- script_direction
  otTags : List (String × List String)   -- unicodedata.ot_tags_from_script
  feaLangs : List (String × List String) -- feaLanguagesByScript

def COMMON : String := "Zyyy"

inductive Stmt | script (t : String) | language (l : String) | lookup (n : String) | comment
  deriving DecidableEq, Repr

/-- ast.addLookupReferences(feature, lookups, script, languages) with exclude_dflt=False -/
def addLookupReferences (lookups : List String) (script : String) (languages : List String) : List Stmt :=
  [Stmt.script script, Stmt.language "dflt"] ++ lookups.map Stmt.lookup ++
    (languages.filter (· != "dflt")).map Stmt.language

def dirOf (c : RegCtx) (s : String) : String := (alookup s c.dir).getD "LTR"

/-- the loop `for script in sorted(scriptsToReference - DFLT_SCRIPTS): for tag in ot_tags_from_script(script): ...` -/
def regScripts (c : RegCtx) (lookups : List (String × List (String × String))) :
    List String → List Stmt → List Stmt
  | [], acc => acc
  | script :: rest, acc =>
    let forScript : List (String × String) :=
      dictUpdate (c.dfltScripts.foldl (fun d ds => match alookup ds lookups with
        | some l => dictUpdate d l
        | none => d) []) ((alookup script lookups).getD [])
    let acc' := ((alookup script c.otTags).getD []).foldl (fun acc tag =>
      (if acc.isEmpty then acc else acc ++ [Stmt.comment]) ++
        addLookupReferences (forScript.map Prod.snd) tag ((alookup tag c.feaLangs).getD ["dflt"])) acc
    regScripts c lookups rest acc'

/-- KernFeatureWriter._registerLookups: the statements appended to the feature block. -/
def registerLookups (c : RegCtx) (lookups : List (String × List (String × String))) : List Stmt :=
  let sorted := sortOn strLe Prod.fst lookups
  let dflt0 : List String :=
    if c.isKern then match alookup COMMON lookups with
      | some l => dedupFirst (l.map Prod.snd)
      | none => []
    else []
  let ltr := (sorted.filter (fun e => !c.distEnabled.contains e.1 && dirOf c e.1 == "LTR")).flatMap (fun e => e.2.map Prod.snd)
  let rtl := (sorted.filter (fun e => !c.distEnabled.contains e.1 && dirOf c e.1 == "RTL")).flatMap (fun e => e.2.map Prod.snd)
  let dflt : List String := if c.isKern then dedupFirst (dflt0 ++ (if ltr.isEmpty then rtl else ltr)) else dflt0
  let head : List Stmt := if dflt.isEmpty then [] else addLookupReferences dflt "DFLT" ((alookup "DFLT" c.feaLangs).getD ["dflt"])
  let keys := lookups.map Prod.fst
  let toRef := if c.isKern then keys.filter (fun s => !c.distEnabled.contains s) else keys.filter (fun s => c.distEnabled.contains s)
  let toRef := sortStr (toRef.filter (fun s => !c.dfltScripts.contains s))
  regScripts c lookups toRef head

/-- `_filterSpacingMarks(marks)` (590-602): `[mark for mark in marks if font[mark].width != 0]` with `marks` a SET —
the one place where a set is written out in iteration order (into the `@MFS_…` class of the feature text). -/
def spacingMarks (nonzero : String → Bool) (marks : List String) : List String := marks.filter nonzero

/-- what reaches the font: the Coverage of the mark filtering set, which otlLib sorts by glyph ID -/
def markFilterCoverage (gid : String → Nat) (cls : List String) : List String := sortOn natLe gid cls

/-- one side of a kerning pair: a glyph name (`str`) or a class (`tuple[str, ...]`) -/
inductive Side | glyph (g : String) | cls (gs : List String)
  deriving DecidableEq, Repr

def Side.isClass : Side → Bool | .glyph _ => false | .cls _ => true
def Side.glyphs : Side → List String | .glyph g => [g] | .cls gs => gs

structure KPair where
  side1 : Side
  side2 : Side
  value : Q
  deriving DecidableEq, Repr

/-- what `KerningPair.__lt__` compares: `(firstIsClass, secondIsClass, side1, side2)`; when the two flags agree
the sides have the same Python type, and a `str` compares like the 1-tuple holding it. -/
def KPair.key (p : KPair) : Nat × List String × List String :=
  ((if p.side1.isClass then 2 else 0) + (if p.side2.isClass then 1 else 0), p.side1.glyphs, p.side2.glyphs)

def keyLe (a b : Nat × List String × List String) : Bool :=
  if a.1 = b.1 then (if a.2.1 = b.2.1 then lexLe a.2.2 b.2.2 else lexLe a.2.1 b.2.1) else natLe a.1 b.1

/-- `pairs.sort()` (Python's sort is stable and uses `<` only) -/
def sortPairs (l : List KPair) : List KPair := sortOn keyLe KPair.key l

/-- `glyphScripts.get(glyph, DFLT_SCRIPTS)`, then `if scripts & DFLT_SCRIPTS: scripts = COMMON_SCRIPTS_SET` -/
def resolveScripts (dflt : List String) (glyphScripts : List (String × List String)) (g : String) : List String :=
  let scripts := (alookup g glyphScripts).getD dflt
  if scripts.any dflt.contains then [COMMON] else scripts

/-- `d.setdefault(direction, set()).add(glyph)` -/
def addDir (d : List (String × List String)) (direction glyph : String) : List (String × List String) :=
  if (d.map Prod.fst).contains direction then
    d.map (fun e => if e.1 == direction then (e.1, if e.2.contains glyph then e.2 else e.2 ++ [glyph]) else e)
  else d ++ [(direction, [glyph])]

/-- the two `for glyph in pair.firstGlyphs / secondGlyphs` loops of partitionByScript -/
def sideDirections (dflt : List String) (dir : List (String × String)) (gs : List (String × List String))
    (glyphs : List String) : List (String × List String) :=
  glyphs.foldl (fun d g =>
    (setTuple (resolveScripts dflt gs g)).foldl (fun d s =>
      addDir d (if s == COMMON then "Auto" else (alookup s dir).getD "LTR") g) d) []

def sideScripts (dflt : List String) (gs : List (String × List String)) (glyphs : List String) : List String :=
  glyphs.foldl (fun acc g => union acc (resolveScripts dflt gs g)) []

/-- partitionByScript(pair, glyphScripts): the yielded (scripts, split pair) in order;
the scripts set is returned as `tuple(sorted(scripts))` (what splitKerning does with it at once). -/
def partitionByScript (dflt : List String) (dir : List (String × String)) (gs : List (String × List String))
    (p : KPair) : List (List String × KPair) :=
  let d1 := sideDirections dflt dir gs p.side1.glyphs
  let d2 := sideDirections dflt dir gs p.side2.glyphs
  d1.flatMap (fun e1 => d2.filterMap (fun e2 =>
    let local1 := setTuple e1.2
    let local2 := setTuple e2.2
    let s1 := sideScripts dflt gs local1
    let s2 := sideScripts dflt gs local2
    if e1.1 != e2.1 && !(e1.1 == "Auto" || e2.1 == "Auto") then none
    else
      let scripts := union s1 s2
      let scripts := if s1.contains COMMON && s2.contains COMMON then scripts else scripts.filter (· != COMMON)
      some (setTuple scripts,
        { side1 := if p.side1.isClass then .cls local1 else .glyph (local1.headD ""),
          side2 := if p.side2.isClass then .cls local2 else .glyph (local2.headD ""),
          value := p.value })))

/-- `kerningPerScript.setdefault(scripts, []).append(splitPair)` -/
def bucketAdd (d : List (List String × List KPair)) (k : List String) (p : KPair) : List (List String × List KPair) :=
  if (d.map Prod.fst).contains k then d.map (fun e => if e.1 == k then (e.1, e.2 ++ [p]) else e)
  else d ++ [(k, [p])]

/-- mergeScripts, inner `for scripts in rest:` with the growing `common` -/
def absorb : List (List String) → List String → List (List String) → Bool → List String × List (List String) × Bool
  | [], common, keep, m => (common, keep, m)
  | s :: rest, common, keep, m =>
    if disjoint s common then absorb rest common (keep ++ [s]) m
    else absorb rest (union common s) keep true

/-- mergeScripts, `while sets:` -/
def mergePass : Nat → List (List String) → List (List String) → Bool → List (List String) × Bool
  | 0, _, result, m => (result, m)
  | _, [], result, m => (result, m)
  | fuel + 1, common :: rest, result, m =>
    let r := absorb rest common [] m
    mergePass fuel r.2.1 (result ++ [r.1]) r.2.2

/-- mergeScripts, `while merged:` -/
def mergeLoop : Nat → List (List String) → List (List String)
  | 0, sets => sets
  | fuel + 1, sets =>
    let r := mergePass (sets.length + 1) sets [] false
    if r.2 then mergeLoop fuel r.1 else r.1

def mergedSets (keys : List (List String)) : List (List String) :=
  mergeLoop (keys.length + 1) (keys.filter (fun k => !k.isEmpty))

/-- mergeScripts(kerningPerScript): `none` models the `raise AssertionError`. -/
def mergeScripts (kps : List (List String × List KPair)) : Option (List (List String × List KPair)) :=
  let sets := mergedSets (kps.map Prod.fst)
  let init : List (List String × List KPair) := dedupKeys (sets.map (fun s => (setTuple s, [])))
  kps.foldl (fun acc e => match acc with
    | none => none
    | some res => match sets.find? (fun s2 => !disjoint s2 e.1) with
      | none => none
      | some s2 => some (res.map (fun r => if r.1 == setTuple s2 then (r.1, r.2 ++ e.2) else r))) (some init)
where
  dedupKeys (l : List (List String × List KPair)) : List (List String × List KPair) :=
    l.foldl (fun acc e => if (acc.map Prod.fst).contains e.1 then acc else acc ++ [e]) []

/-- splitKerning(pairs, glyphScripts): the returned dict, in its insertion order. -/
def splitKerning (dflt : List String) (dir : List (String × String)) (gs : List (String × List String))
    (pairs : List KPair) : Option (List (List String × List KPair)) :=
  let buckets := pairs.foldl (fun d p =>
    (partitionByScript dflt dir gs p).foldl (fun d sp => bucketAdd d sp.1 sp.2) d) []
  (mergeScripts buckets).map (fun r => r.map (fun e => (e.1, sortPairs e.2)))

/-- makeAllGlyphClassDefinitions: the order in which the buckets are visited for naming classes:
first the bucket whose script set is {Zyyy}, then `sorted(kerningPerScript.items())` without it. -/
def classNamingOrder (kps : List (List String × β)) : List (List String × β) :=
  kps.filter (fun e => e.1 == [COMMON]) ++ (sortOn lexLe Prod.fst kps).filter (fun e => e.1 != [COMMON])

/-! ### markFeatureWriter -/

/-- `sorted(self.marks, key=lambda a: a.name)` (43, 93) -/
def marksSorted (marks : List (String × β)) : List (String × β) := sortOn strLe Prod.fst marks

/-- `sorted(d.items())` then the values: 451, 593, 724, 949, 1042, 1174 -/
def byKey (d : List (String × β)) : List (String × β) := sortOn strLe Prod.fst d

/-- two mark classes conflict iff some mark glyph belongs to both (the `adjacency` dict of sets, read as a relation) -/
def adjacent (m : List (String × List String)) (a b : String) : Bool :=
  a != b && m.any (fun e => e.2.contains a && e.2.contains b)

/-- firstAvailable(colorSet) -/
def firstAvailable (used : List Nat) : Nat :=
  ((List.range (used.length + 1)).find? (fun n => !used.contains n)).getD used.length

/-- colorGraph: `for node in sorted(adjacency): colors[node] = firstAvailable({colors[n] for n in adjacency[node] if n in colors})` -/
def colorNodes (m : List (String × List String)) : List String → List (String × Nat) → List (String × Nat)
  | [], colors => colors
  | node :: rest, colors =>
    let used := (colors.filter (fun c => adjacent m node c.1)).map Prod.snd
    colorNodes m rest (colors ++ [(node, firstAvailable used)])

/-- `groups[color].append(node)`; `list(groups.values())` -/
def groupByColor (colors : List (String × Nat)) : List (List String) :=
  let cs := dedupFirst (colors.map Prod.snd)
  cs.map (fun c => (colors.filter (fun e => e.2 == c)).map Prod.fst)

def graphNodes (m : List (String × List String)) : List String := sortStr (dedupFirst (m.flatMap Prod.snd))

def colorGraph (m : List (String × List String)) : List (List String) :=
  groupByColor (colorNodes m (graphNodes m) [])

def intLeB (a b : Int) : Bool := decide (a ≤ b)

def stripPrefix (pre s : String) : String := if s.startsWith pre then (s.drop pre.length).toString else s

/-- key of `_groupMarkClasses`' final sort: `(-min(anchorSortKey.get(name without prefix, 0) for …), group)` -/
def groupKey (pre : String) (sortKey : List (String × Int)) (g : List String) : Int × List String :=
  let ks := g.map (fun mc => (alookup (stripPrefix pre mc) sortKey).getD 0)
  (- (ks.foldl min (ks.headD 0)), g)

def groupKeyLe (a b : Int × List String) : Bool := if a.1 = b.1 then lexLe a.2 b.2 else intLeB a.1 b.1

/-- MarkFeatureWriter._groupMarkClasses(markGlyphToMarkClasses) -/
def groupMarkClasses (pre : String) (sortKey : List (String × Int)) (m : List (String × List String)) : List (List String) :=
  sortOn groupKeyLe (groupKey pre sortKey) ((colorGraph m).map sortStr)

/-! ### cursFeatureWriter -/

/-- _getCursiveAnchorPairs: `anchors` is the set of all anchor names of the glyphs. -/
def cursivePairs (anchors : List String) : List (String × String) :=
  let ps : List (String × String) :=
    (if anchors.contains "entry" && anchors.contains "exit" then [("entry", "exit")] else []) ++
    anchors.filterMap (fun a =>
      if a.startsWith "entry." && anchors.contains ("exit." ++ (a.drop 6).toString) then some (a, "exit." ++ (a.drop 6).toString) else none)
  sortOn strLe Prod.fst ps

/-! ### gdefFeatureWriter -/

def qLe (a b : Q) : Bool := decide (a ≤ b)

/-- `[otRound(c) for c in sorted(glyphCarets)]` with `glyphCarets` a set of numbers -/
def ligCarets (carets : List Q) : List Int := (carets.mergeSort qLe).map otRound

/-- `sorted(n for n in orderedGlyphSet if n in glyphNames)`, `glyphNames` a frozenset -/
def sortedGlyphClass (ordered glyphNames : List String) : List String := sortStr (ordered.filter glyphNames.contains)

/-! ### propagateAnchors -/

/-- the loop body over the anchor names IN THE GIVEN ORDER:
`if not any(a.name.startswith(anchor_name) for a in composite.anchors): _get_anchor_data(to_add, …)`;
then `_adjust_anchors` (a per-key overwrite); then `sorted(to_add.items())`.
`data name` = what `_get_anchor_data` writes for that name (one entry, or `name_1 … name_k`), an input here. -/
def anchorsToAddUnsorted (compositeAnchors : List String) (data : String → List (String × Q × Q))
    (adjust : String × Q × Q → String × Q × Q) (anchorNames : List String) : List (String × Q × Q) :=
  let toAdd := anchorNames.foldl (fun d n =>
    if compositeAnchors.any (fun a => a.startsWith n) then d
    else (data n).foldl (fun d e => if (d.map Prod.fst).contains e.1 then d.map (fun x => if x.1 == e.1 then e else x) else d ++ [e]) d) []
  sortOn strLe Prod.fst (toAdd.map adjust)

/-- `_propagate_glyph_anchors`, 140-151: `for anchor_name in sorted(anchor_names): …` (`anchor_names` is a set;
the `sorted` is the fix of commit 3e34893 — before it the set was iterated directly = `anchorsToAddUnsorted`). -/
def anchorsToAdd (compositeAnchors : List String) (data : String → List (String × Q × Q))
    (adjust : String × Q × Q → String × Q × Q) (anchorNames : List String) : List (String × Q × Q) :=
  anchorsToAddUnsorted compositeAnchors data adjust (sortStr anchorNames)

/-! ### util._copyGlyph (117-172): what a library-agnostic glyph copy carries -/

structure AnchorRec where
  name : String
  x : Q
  y : Q
  identifier : Option String
  color : Option String
  deriving DecidableEq, Repr

/-- a source glyph as the compilers can see it; `lib` and `points` are opaque payloads (canonical JSON text) -/
structure GlyphRec where
  name : String
  width : Q
  height : Q
  unicodes : List Nat
  anchors : List AnchorRec
  lib : String
  points : String
  note : Option String          -- 'guidelines', 'note', 'image' are documented as NOT copied
  guidelines : List String
  image : Option String
  deriving DecidableEq, Repr

/-- `_copyGlyph(glyph)`: `copy.anchors = [dict(a) for a in glyph.anchors]` keeps every anchor field;
`copy.lib = deepcopy(glyph.lib)`; `glyph.drawPoints(pointPen)`; the same for a defcon or a ufoLib2 glyph
(`_getNewGlyphFactory` only picks the class). -/
def copyGlyph (g : GlyphRec) : GlyphRec :=
  { name := g.name, width := g.width, height := g.height, unicodes := g.unicodes,
    anchors := g.anchors.map (fun a => { name := a.name, x := a.x, y := a.y, identifier := a.identifier, color := a.color }),
    lib := g.lib, points := g.points, note := none, guidelines := [], image := none }

/-- everything the outline / feature compilers read from a glyph -/
def GlyphRec.observable (g : GlyphRec) : String × Q × Q × List Nat × List AnchorRec × String × String :=
  (g.name, g.width, g.height, g.unicodes, g.anchors, g.lib, g.points)

/-! ### infoCompiler.py, InfoCompiler.__init__ (29-44)

`postProcessor.apply_fontinfo` (called for a variable font whose designspace `<variable-font>` element has
`lib["public.fontInfo"]`) builds `InfoCompiler(otf, ufo, info)` with `ufo` = the DEFAULT MASTER the caller passed in
(`vfNameToBaseUfo`, baseCompiler.py 314-317).  The constructor makes a temporary UFO whose Info is the master's Info with
the overrides written over it.  Whether the master's own Info object is written to is a question of Python object
identity, so Info objects live in a heap and fonts hold addresses. -/

/-- a fontinfo object: attribute ↦ value (canonical text); an attribute that is `None` is absent -/
abbrev InfoD := List (String × String)

structure Heap where
  objs : List InfoD

def Heap.get (h : Heap) (r : Nat) : InfoD := h.objs.getD r []

/-- a new object: `copy.copy(x)`, `type(ufo)()` -/
def Heap.alloc (h : Heap) (d : InfoD) : Heap × Nat := (⟨h.objs ++ [d]⟩, h.objs.length)

/-- `setattr(obj, k, v)` on the object at address `r` -/
def Heap.setattr (h : Heap) (r : Nat) (k v : String) : Heap := ⟨h.objs.set r (dictUpdate (h.get r) [(k, v)])⟩

inductive UfoLib | ufoLib2 | defcon
  deriving DecidableEq, Repr

/-- `InfoCompiler.__init__(otf, ufo, info)`, lines 33-44; `src` = address of `ufo.info`, `ov` = `info.items()`.
Returns the heap afterwards and the address of `temp_ufo.info`.
* defcon:  `data = ufo.info.getDataForSerialization(); data.update(info); temp_ufo.info.setDataFromSerialization(data)`
* ufoLib2: `temp_ufo.info = copy.copy(ufo.info); for k, v in info.items(): setattr(temp_ufo.info, k, v)` -/
def infoInit : UfoLib → Heap → Nat → InfoD → Heap × Nat
  | .defcon, h, src, ov => h.alloc (dictUpdate (h.get src) ov)
  | .ufoLib2, h, src, ov =>
    let r := h.alloc (h.get src)
    (ov.foldl (fun h kv => h.setattr r.2 kv.1 kv.2) r.1, r.2)

/-- the ufoLib2 branch WITHOUT the copy (`temp_ufo.info = ufo.info`: the setter keeps an Info instance as it is, two names
for one object).  Not what the code does; `Props`: this is what the copy is needed for. -/
def infoInitAliased (h : Heap) (src : Nat) (ov : InfoD) : Heap × Nat :=
  (ov.foldl (fun h kv => h.setattr src kv.1 kv.2) h, src)

/-- what a variable build with overrides `ov` leaves in the default master's Info `d`: read the master's object back
after `InfoCompiler.__init__` ran (the `touch` of `history` on the Info component of a source) -/
def touchInfo (lib : UfoLib) (ov : InfoD) (d : InfoD) : InfoD := (infoInit lib ⟨[d]⟩ 0 ov).1.get 0

/-! ### the compiler object as a state machine (baseCompiler.py 72-82, 132-139) -/

structure Source (C : Type) where
  skipExport : List String      -- lib["public.skipExportGlyphs"]
  hasMti : Bool                 -- any data file "com.github.googlei18n.ufo2ft.mti.*.mti"
  content : C

inductive FeaClass | fea | mti
  deriving DecidableEq, Repr

/-- the fields of a compiler object that are filled in on first use -/
structure Compiler (O : Type) where
  opts : O
  skipExportGlyphs : Option (List String)
  featureCompilerClass : Option FeaClass

/-- `XCompiler(**kwargs)`: what the public functions do on every call -/
def Compiler.fresh (opts : O) (skip : Option (List String)) (fc : Option FeaClass) : Compiler O :=
  { opts, skipExportGlyphs := skip, featureCompilerClass := fc }

/-- `compiler.compile(ufo)`: returns the updated compiler object and the font.  `build` is everything else
(pre-processing, outlines, features, post-processing) as a function of the options, the effective skip list,
the effective feature compiler class and the source content. -/
def Compiler.compile (build : O → List String → FeaClass → C → F) (c : Compiler O) (s : Source C) : Compiler O × F :=
  let skip := c.skipExportGlyphs.getD s.skipExport
  let fc := c.featureCompilerClass.getD (if s.hasMti then .mti else .fea)
  ({ c with skipExportGlyphs := some skip, featureCompilerClass := some fc }, build c.opts skip fc s.content)

/-- a public entry point `compileX(ufo, **kwargs)` = `XCompiler(**kwargs).compile(ufo)` -/
def publicCompile (build : O → List String → FeaClass → C → F) (opts : O) (skip : Option (List String))
    (fc : Option FeaClass) (s : Source C) : F :=
  ((Compiler.fresh opts skip fc).compile build s).2

/-- a history of public calls on the same source object, under the C07 hypothesis made explicit as `touch`:
each call may leave the source as `touch s` (identity when C07 holds). -/
def history (build : O → List String → FeaClass → C → F) (touch : Source C → Source C) :
    Source C → List (O × Option (List String) × Option FeaClass) → List F
  | _, [] => []
  | s, (o, sk, fc) :: rest => publicCompile build o sk fc s :: history build touch (touch s) rest

/-- re-using ONE compiler object for several sources (what the public functions never do) -/
def reuse (build : O → List String → FeaClass → C → F) : Compiler O → List (Source C) → List F
  | _, [] => []
  | c, s :: rest => let r := c.compile build s; r.2 :: reuse build r.1 rest

end Ufo2ft.C08
