import Ufo2ftModel.Basic
/-!
Model of `ufo2ft/instantiator.py`:

* `Variator.from_masters`, `Variator.instance_at`, `location_to_key`
* `collect_info_masters`, `collect_kerning_masters`, `collect_glyph_masters`
* `Instantiator.__post_init__` (default source), `from_designspace` (axis bounds, default, masters),
  `generate_instance`, `generate_glyph_instance`, `_generate_instance_info`
* `process_rules_swaps`, `swap_glyph_names`
* `weight_class_from_wght_value`, `width_class_from_wdth_value`, `italic_angle_from_slnt_value`

plus the small external pieces whose logic the property is about, re-stated here and differential-tested
like ufo2ft's own code: fontTools `normalizeValue`/`normalizeLocation`, `piecewiseLinearMap`,
`designspaceLib.evaluateRule`, `AxisDescriptor.map_forward/map_backward`, `findDefault`;
fontMath `MathGlyph` (strict) `+`, `*`, `round`, `MathKerning` `+`, `*`, `round`, `cleanup`, `get`,
`MathInfo` `+`, `*`, `round` for six numeric attributes; `VariationModel.interpolateFromMasters`
(= `interpolateFromValuesAndScalars` over `getMasterScalars`).  `getMasterScalars` itself is modelled for ONE axis
(`scalars1`, piecewise-linear hats); for several axes the scalars are an input (`table`) measured by the harness.
-/
namespace Ufo2ft.C19

inductive Err
  | instantiator   -- InstantiatorError
  | keyError       -- KeyError (evaluateConditions: `location[cd["name"]]`)
  | valueError     -- ValueError (normalizeValue: axis triple not ordered)
  | indexError     -- IndexError inside fontMath (incompatible outlines); always re-raised as InstantiatorError
  deriving DecidableEq, Repr

/-! ## fontMath.MathGlyph (strict=True), the observable part -/

structure Pt where
  x : Q
  y : Q
  seg : Option String      -- segment type; `none` = off-curve
  deriving DecidableEq, Repr

structure Comp where
  base : String
  xx : Q
  xy : Q
  yx : Q
  yy : Q
  dx : Q
  dy : Q
  deriving DecidableEq, Repr

structure Anchor where
  name : String
  x : Q
  y : Q
  deriving DecidableEq, Repr

structure MGlyph where
  width : Q
  height : Q
  contours : List (List Pt)
  comps : List Comp
  anchors : List Anchor
  deriving DecidableEq, Repr

def MGlyph.empty : MGlyph := ⟨0, 0, [], [], []⟩

def ptAdd (a b : Pt) : Pt := { a with x := a.x + b.x, y := a.y + b.y }
def ptMul (a : Pt) (s : Q) : Pt := { a with x := a.x * s, y := a.y * s }

/-- `_processMathOneContours`, inner loop: `points2[index]` raises IndexError when the other contour is shorter;
    surplus points of the other contour are silently ignored. -/
def addPts : List Pt → List Pt → Except Err (List Pt)
  | [], _ => .ok []
  | _ :: _, [] => .error .indexError
  | a :: l, b :: r =>
    match addPts l r with
    | .ok t => .ok (ptAdd a b :: t)
    | .error e => .error e

/-- `_processMathOneContours`, outer loop (`contours2[index]`). -/
def addContours : List (List Pt) → List (List Pt) → Except Err (List (List Pt))
  | [], _ => .ok []
  | _ :: _, [] => .error .indexError
  | a :: l, b :: r =>
    match addPts a b, addContours l r with
    | .ok c, .ok t => .ok (c :: t)
    | .error e, _ => .error e
    | _, .error e => .error e

def compAdd (a b : Comp) : Comp :=
  { a with xx := a.xx + b.xx, xy := a.xy + b.xy, yx := a.yx + b.yx, yy := a.yy + b.yy,
           dx := a.dx + b.dx, dy := a.dy + b.dy }
/-- `_processMathTwoTransformation` with `scaleComponentTransform=True`: all six entries are scaled -/
def compMul (a : Comp) (s : Q) : Comp :=
  { a with xx := a.xx * s, xy := a.xy * s, yx := a.yx * s, yy := a.yy * s, dx := a.dx * s, dy := a.dy * s }

/-- `_pairComponents` (all identifiers `None`): each component of the left glyph takes the first not yet used
    component of the right glyph with the same base glyph; unmatched ones are dropped. -/
def pairComps : List Comp → List Comp → List (Comp × Comp)
  | [], _ => []
  | a :: l, r =>
    match r.find? (fun b => b.base == a.base) with
    | none => pairComps l r
    | some b => (a, b) :: pairComps l (r.eraseP (fun b => b.base == a.base))

def anchorAdd (a b : Anchor) : Anchor := { a with x := a.x + b.x, y := a.y + b.y }
def anchorMul (a : Anchor) (s : Q) : Anchor := { a with x := a.x * s, y := a.y * s }

/-- `_anchorTree` + `_pairAnchors` (identifiers `None`): for each anchor name in order of first appearance on the
    left, the anchors of that name are paired in order with the right glyph's anchors of that name. -/
def pairAnchors (l r : List Anchor) : List (Anchor × Anchor) :=
  (dedupFirst (l.map (·.name))).flatMap (fun n =>
    (l.filter (fun a => a.name == n)).zip (r.filter (fun a => a.name == n)))

/-- `MathGlyph.__add__` -/
def gadd (a b : MGlyph) : Except Err MGlyph :=
  match addContours a.contours b.contours with
  | .error e => .error e
  | .ok cs => .ok {
      width := a.width + b.width
      height := a.height + b.height
      contours := cs
      comps := (pairComps a.comps b.comps).map (fun p => compAdd p.1 p.2)
      anchors := (pairAnchors a.anchors b.anchors).map (fun p => anchorAdd p.1 p.2) }

/-- `MathGlyph.__mul__` with a scalar factor -/
def gmul (a : MGlyph) (s : Q) : MGlyph :=
  { width := a.width * s
    height := a.height * s
    contours := a.contours.map (fun c => c.map (fun p => ptMul p s))
    comps := a.comps.map (fun c => compMul c s)
    anchors := a.anchors.map (fun c => anchorMul c s) }

def rnd (x : Q) : Q := (otRound x : Q)

/-- `MathGlyph.round()` with fontMath's integer rounding function set to `otRound` (instantiator.py:71):
    coordinates, advance, anchors and component OFFSETS are rounded; the component 2x2 is not. -/
def ground (a : MGlyph) : MGlyph :=
  { width := rnd a.width
    height := rnd a.height
    contours := a.contours.map (fun c => c.map (fun p => { p with x := rnd p.x, y := rnd p.y }))
    comps := a.comps.map (fun c => { c with dx := rnd c.dx, dy := rnd c.dy })
    anchors := a.anchors.map (fun c => { c with x := rnd c.x, y := rnd c.y }) }

/-! ## fontMath.MathKerning -/

abbrev Pair := String × String
abbrev KDict := List (Pair × Q)          -- Python dict: unique keys
abbrev Groups := List (String × List String)

def isK1 (s : String) : Bool := s.startsWith "public.kern1."
def isK2 (s : String) : Bool := s.startsWith "public.kern2."

/-- `_side1GroupMap` / `_side2GroupMap`: glyph → group; a later group overrides (the newest binding is first). -/
structure GroupMaps where
  side1 : List (String × String)
  side2 : List (String × String)
  deriving Repr

def bindAll (g : String) (members : List String) (m : List (String × String)) : List (String × String) :=
  members.foldl (fun m x => (x, g) :: m) m

/-- `MathKerning.updateGroups` -/
def groupMaps (groups : Groups) : GroupMaps :=
  groups.foldl (fun gm (g, ms) =>
    if isK1 g then { gm with side1 := bindAll g ms gm.side1 }
    else if isK2 g then { gm with side2 := bindAll g ms gm.side2 }
    else gm) ⟨[], []⟩

/-- the kerning groups kept by MathKerning (`self._groups`), in the default font's order -/
def kernGroups (groups : Groups) : Groups := groups.filter (fun g => isK1 g.1 || isK2 g.1)

def kfind (K : KDict) : Option String × Option String → Option Q
  | (some a, some b) => alookup (a, b) K
  | _ => none

def sideOf (isK : String → Bool) (m : List (String × String)) (s : String) : Option String × Option String :=
  if isK s then (none, some s) else (some s, alookup s m)

/-- `MathKerning.__getitem__`: the pair itself, else (group1, glyph2), (glyph1, group2), (group1, group2), else 0 -/
def kget (gm : GroupMaps) (K : KDict) (p : Pair) : Q :=
  match alookup p K with
  | some v => v
  | none =>
    let s1 := sideOf isK1 gm.side1 p.1
    let s2 := sideOf isK2 gm.side2 p.2
    match kfind K (s1.2, s2.1) with
    | some v => v
    | none =>
      match kfind K (s1.1, s2.2) with
      | some v => v
      | none =>
        match kfind K (s1.2, s2.2) with
        | some v => v
        | none => 0

/-- `guessPairType` says "exception" for a side that is a glyph belonging to a kerning group of that side -/
def isExc (gm : GroupMaps) (p : Pair) : Bool :=
  (!isK1 p.1 && (alookup p.1 gm.side1).isSome) || (!isK2 p.2 && (alookup p.2 gm.side2).isSome)

/-- `MathKerning.cleanup`: zero-valued pairs are deleted unless one side is an exception -/
def kcleanup (gm : GroupMaps) (K : KDict) : KDict :=
  K.filter (fun e => !(e.2 == 0 && !isExc gm e.1))

/-- `comboPairs = set(self.keys()) | set(other.keys())` (as a list: set order is arbitrary, compared sorted) -/
def unionKeys (A B : KDict) : List Pair :=
  A.map (·.1) ++ (B.map (·.1)).filter (fun k => !(A.map (·.1)).contains k)

def kaddRaw (gm : GroupMaps) (A B : KDict) : KDict :=
  (unionKeys A B).map (fun k => (k, kget gm A k + kget gm B k))

/-- `MathKerning.__add__` -/
def kadd (gm : GroupMaps) (A B : KDict) : KDict := kcleanup gm (kaddRaw gm A B)

/-- `MathKerning.__mul__` -/
def kmul (gm : GroupMaps) (A : KDict) (s : Q) : KDict := kcleanup gm (A.map (fun e => (e.1, e.2 * s)))

/-- Python-2 `round` as used by `MathKerning.round` (`round2`: decimal ROUND_HALF_UP = half away from zero) -/
def roundHalfAway (v : Q) : Int := if 0 ≤ v then (v + 1/2).floor else -((-v + 1/2).floor)

/-- `MathKerning.round()`: in place, no cleanup afterwards -/
def kround (K : KDict) : KDict := K.map (fun e => (e.1, (roundHalfAway e.2 : Q)))

/-! ## fontMath.MathInfo, six numeric attributes:
    unitsPerEm, descender, xHeight, capHeight, ascender, italicAngle (in this order) -/

abbrev MInfo := List (Option Q)

def optAdd : Option Q → Option Q → Option Q
  | some a, some b => some (a + b)
  | some a, none => some a
  | none, some b => some b
  | none, none => none

/-- `MathInfo.__add__` (attribute-wise; an attribute missing on one side takes the other side's value) -/
def iadd : MInfo → MInfo → MInfo
  | a :: l, b :: r => optAdd a b :: iadd l r
  | l, [] => l
  | [], _ => []

def imul (a : MInfo) (s : Q) : MInfo := a.map (fun v => v.map (· * s))

/-- `MathInfo.round()`: every attribute except postscriptBlueScale and italicAngle (index 5 here) -/
def iroundAux : Nat → MInfo → MInfo
  | _, [] => []
  | i, v :: l => (if i == 5 then v else v.map rnd) :: iroundAux (i + 1) l
def iround (a : MInfo) : MInfo := iroundAux 0 a

/-! ## fontTools helpers -/

abbrev Loc := List (String × Q)     -- Python dict axis name → value

/-- `varLib.models.piecewiseLinearMap` (mapping given as key/value list with distinct keys) -/
def piecewiseLinearMap (v : Q) (m : List (Q × Q)) : Q :=
  match m with
  | [] => v
  | e :: rest =>
    match alookup v m with
    | some o => o
    | none =>
      let kmin := rest.foldl (fun a e => if e.1 < a.1 then e else a) e
      let kmax := rest.foldl (fun a e => if a.1 < e.1 then e else a) e
      if v < kmin.1 then v + kmin.2 - kmin.1
      else if kmax.1 < v then v + kmax.2 - kmax.1
      else
        -- a = max(k < v), b = min(k > v)
        let a := m.foldl (fun a e => if e.1 < v && a.1 < e.1 then e else a) kmin
        let b := m.foldl (fun b e => if v < e.1 && e.1 < b.1 then e else b) kmax
        a.2 + (b.2 - a.2) * (v - a.1) / (b.1 - a.1)

structure Axis where
  name : String
  tag : String
  minimum : Q
  default : Q
  maximum : Q
  map : List (Q × Q)     -- (input = user, output = design)
  deriving Repr

def Axis.mapForward (a : Axis) (v : Q) : Q := piecewiseLinearMap v a.map
def Axis.mapBackward (a : Axis) (v : Q) : Q := piecewiseLinearMap v (a.map.map (fun e => (e.2, e.1)))

/-- `axis_bounds[axis.name] = (map_forward(minimum), map_forward(default), map_forward(maximum))` -/
def axisBounds (axes : List Axis) : List (String × (Q × Q × Q)) :=
  axes.map (fun a => (a.name, (a.mapForward a.minimum, a.mapForward a.default, a.mapForward a.maximum)))

def boundsOk (b : List (String × (Q × Q × Q))) : Bool :=
  b.all (fun e => decide (e.2.1 ≤ e.2.2.1) && decide (e.2.2.1 ≤ e.2.2.2))

/-- `varLib.models.normalizeValue` (extrapolate=False) for an ordered triple -/
def normalizeValue (v : Q) (t : Q × Q × Q) : Q :=
  let lower := t.1; let default := t.2.1; let upper := t.2.2
  let v := max (min v upper) lower
  if v == default || lower == upper then 0
  else if (v < default && lower != default) || (default < v && upper == default) then (v - default) / (default - lower)
  else (v - default) / (upper - default)

/-- `varLib.models.normalizeLocation`: one entry per axis, missing axes at their default -/
def normalizeLocation (loc : Loc) (bounds : List (String × (Q × Q × Q))) : Loc :=
  bounds.map (fun (n, t) => (n, normalizeValue ((alookup n loc).getD t.2.1) t))

/-- `location_to_key`: `tuple(sorted(location.items()))` -/
def locKey (l : Loc) : Loc := l.mergeSort (fun a b => strLe a.1 b.1)

/-- `{**a, **b}` -/
def dictMerge (a b : Loc) : Loc :=
  a.map (fun (k, v) => (k, (alookup k b).getD v)) ++ b.filter (fun e => (alookup e.1 a).isNone)

/-! ## Variator -/

/-- `VariationModel.__init__`: "Locations must be unique" / "Base master not found" (both VarLibError,
    re-raised as InstantiatorError by the callers of `from_masters`). -/
def locationsOk (locs : List Loc) : Bool :=
  decide ((locs.map locKey).Nodup) && locs.any (fun l => l.all (fun e => e.2 == 0))

structure Variator (α : Type) where
  items : List (Loc × α)       -- (normalized location, master): `masters` and `location_to_master`

def fromMasters (items : List (Loc × α)) : Except Err (Variator α) :=
  if locationsOk (items.map (·.1)) then .ok ⟨items⟩ else .error .instantiator

/-- dict `location_to_master`: a later master at the same key overrides -/
def lookupMaster (items : List (Loc × α)) (key : Loc) : Option α :=
  items.foldl (fun acc e => if locKey e.1 == key then some e.2 else acc) none

/-- arithmetic of one kind of fontMath object -/
structure Ops (α : Type) where
  add : α → α → Except Err α
  mul : α → Q → α

/-- `VariationModel.interpolateFromValuesAndScalars`: zero scalars are skipped, the first contribution starts the
    sum, the others are added on the right (`v += contribution`). -/
def interpLoop (ops : Ops α) : Option α → List (α × Q) → Except Err (Option α)
  | acc, [] => .ok acc
  | acc, (m, s) :: rest =>
    if s == 0 then interpLoop ops acc rest
    else match acc with
      | none => interpLoop ops (some (ops.mul m s)) rest
      | some v => match ops.add v (ops.mul m s) with
        | .ok v' => interpLoop ops (some v') rest
        | .error e => .error e

/-- `Variator.instance_at`: the master itself (a copy) at a master location, else the interpolation.
    `scalars` = `model.getMasterScalars(location)` for this master list. -/
def instanceAt (ops : Ops α) (v : Variator α) (loc : Loc) (scalars : List Q) : Except Err (Option α) :=
  match lookupMaster v.items (locKey loc) with
  | some m => .ok (some m)
  | none => interpLoop ops none ((v.items.map (·.2)).zip scalars)

/-! ### one-axis `VariationModel.getMasterScalars` (normalized positions, default master at 0) -/

/-- nearest master position strictly between 0 (inclusive) and `p` (exclusive), for `p > 0`; 0 if none -/
def nbrBelow (ps : List Q) (p : Q) : Q :=
  ps.foldl (fun acc q => if 0 ≤ q && q < p && acc < q then q else acc) 0
/-- nearest master position above `p`; the axis end 1 if none -/
def nbrAbove (ps : List Q) (p : Q) : Q :=
  ps.foldl (fun acc q => if p < q && q < acc then q else acc) 1

/-- `supportScalar` for a one-axis region `(lo, pk, hi)` with `pk ≠ 0` -/
def tent (lo pk hi v : Q) : Q :=
  if v == pk then 1
  else if v ≤ lo || hi ≤ v then 0
  else if v < pk then (v - lo) / (pk - lo) else (v - hi) / (pk - hi)

/-- master scalar of a non-default master at `p` -/
def hat (ps : List Q) (p v : Q) : Q :=
  if 0 < p then tent (nbrBelow ps p) p (nbrAbove ps p) v
  else tent (nbrBelow (ps.map (fun q => -q)) (-p)) (-p) (nbrAbove (ps.map (fun q => -q)) (-p)) (-v)

/-- master scalars on one axis: hats for the non-default masters, the default master takes the rest -/
def scalars1 (ps : List Q) (v : Q) : List Q :=
  let others := ((ps.filter (· != 0)).map (fun p => hat ps p v)).sum
  ps.map (fun p => if p == 0 then 1 - others else hat ps p v)

/-! ## designspace -/

structure SrcGlyph where
  name : String
  unicodes : List Nat
  g : MGlyph
  deriving DecidableEq, Repr

structure Source where
  loc : Loc                 -- design location as written (axes may be omitted)
  sparse : Bool             -- `layerName is not None`
  glyphs : List SrcGlyph    -- the source layer
  kerning : KDict
  groups : Groups
  info : MInfo
  deriving Repr

structure Cond where
  name : String
  minimum : Option Q
  maximum : Option Q
  deriving Repr

structure Rule where
  condSets : List (List Cond)
  subs : List (String × String)
  deriving Repr

structure DS where
  axes : List Axis
  sources : List Source
  rules : List Rule
  skip : List String                           -- designspace lib public.skipExportGlyphs
  table : List (List (List Q) × List Q)        -- measured master scalars for several axes (see `scalarsFor`)
  deriving Repr

def defaultDesignLoc (ds : DS) : Loc := (axisBounds ds.axes).map (fun (n, t) => (n, t.2.1))

/-- `SourceDescriptor.getFullDesignLocation`: axes missing from the source are at their default -/
def fullLoc (ds : DS) (l : Loc) : Loc :=
  (defaultDesignLoc ds).map (fun (n, d) => (n, (alookup n l).getD d))

/-- `designspace.findDefault()` = index of the first source whose full location is the default location.
    (`Instantiator.__post_init__` picks the first source layer whose location is a subset of the default
    location: the same source.) -/
def findDefault (ds : DS) : Option Nat :=
  ds.sources.findIdx? (fun s => fullLoc ds s.loc == defaultDesignLoc ds)

/-- `designspaceLib.evaluateConditions` -/
def evalConds (loc : Loc) : List Cond → Except Err Bool
  | [] => .ok true
  | c :: cs =>
    match alookup c.name loc with
    | none => .error .keyError
    | some v =>
      let ok := match c.minimum, c.maximum with
        | none, some mx => !(mx < v)
        | some mn, none => !(v < mn)
        | some mn, some mx => decide (mn ≤ v) && decide (v ≤ mx)
        | none, none => true    -- (`value > None` would be a TypeError; never generated)
      if ok then evalConds loc cs else .ok false

/-- `designspaceLib.evaluateRule`: `any(...)` stops at the first matching condition set -/
def evalRule (loc : Loc) : List (List Cond) → Except Err Bool
  | [] => .ok false
  | cs :: rest =>
    match evalConds loc cs with
    | .error e => .error e
    | .ok true => .ok true
    | .ok false => evalRule loc rest

/-- `process_rules_swaps` -/
def processRulesSwaps (rules : List Rule) (loc : Loc) (glyphNames : List String) :
    Except Err (List (String × String)) :=
  match rules with
  | [] => .ok []
  | r :: rest =>
    match evalRule loc r.condSets, processRulesSwaps rest loc glyphNames with
    | .error e, _ => .error e
    | _, .error e => .error e
    | .ok b, .ok more =>
      .ok ((if b then r.subs.filter (fun s => glyphNames.contains s.1) else []) ++ more)

/-! ## the instance font -/

structure Font where
  glyphs : List SrcGlyph
  kerning : KDict
  groups : Groups
  deriving DecidableEq, Repr

def Font.has (f : Font) (n : String) : Bool := f.glyphs.any (fun g => g.name == n)
def Font.get? (f : Font) (n : String) : Option SrcGlyph := f.glyphs.find? (fun g => g.name == n)

def renameOne (a b n : String) : String := if n == a then b else if n == b then a else n

/-- step 1+2 of `swap_glyph_names`: outlines (contours and components), width and anchors of the two glyphs
    change places (through the temporary glyph); name, code points, height stay. -/
def swapOutlines (a b : String) (ga gb : SrcGlyph) (g : SrcGlyph) : SrcGlyph :=
  if g.name == a then
    { g with g := { g.g with width := gb.g.width, contours := gb.g.contours, comps := gb.g.comps, anchors := gb.g.anchors } }
  else if g.name == b then
    { g with g := { g.g with width := ga.g.width, contours := ga.g.contours, comps := ga.g.comps, anchors := ga.g.anchors } }
  else g

/-- step 3: every component reference in the font is remapped (after step 1, so also inside the two glyphs) -/
def remapComps (a b : String) (g : SrcGlyph) : SrcGlyph :=
  { g with g := { g.g with comps := g.g.comps.map (fun c => { c with base := renameOne a b c.base }) } }

/-- `swap_glyph_names(font, name_old, name_new)` -/
def swapGlyphNames (f : Font) (a b : String) : Except Err Font :=
  match f.get? a, f.get? b with
  | some ga, some gb =>
    let glyphs1 := f.glyphs.map (swapOutlines a b ga gb)
    let glyphs3 := glyphs1.map (remapComps a b)
    -- 4. kerning keys; `kerning_new` is a dict: a later equal key overrides the value of the earlier one
    let kerning := f.kerning.foldl (fun acc e =>
        let k : Pair := (renameOne a b e.1.1, renameOne a b e.1.2)
        if (alookup k acc).isSome then acc.map (fun x => if x.1 == k then (k, e.2) else x) else acc ++ [(k, e.2)]) []
    -- 5. group members
    let groups := f.groups.map (fun (n, ms) => (n, ms.map (renameOne a b)))
    .ok { glyphs := glyphs3, kerning := kerning, groups := groups }
  | _, _ => .error .instantiator

/-- the loop over `swaps` in `generate_instance` -/
def applySwaps (f : Font) : List (String × String) → Except Err Font
  | [] => .ok f
  | (a, b) :: rest =>
    if a != b then
      match swapGlyphNames f a b with
      | .ok f' => applySwaps f' rest
      | .error e => .error e
    else applySwaps f rest

/-! ## collecting masters -/

def glyphOps : Ops MGlyph := ⟨gadd, gmul⟩
def infoOps : Ops MInfo := ⟨fun a b => .ok (iadd a b), imul⟩
def kernOps (gm : GroupMaps) : Ops KDict := ⟨fun a b => .ok (kadd gm a b), kmul gm⟩

/-- `collect_info_masters` / `collect_kerning_masters`: non-default sparse layers are skipped -/
def fontLevelSources (ds : DS) (di : Nat) : List Source :=
  (ds.sources.zipIdx.filter (fun (s, i) => !(s.sparse && i != di))).map (·.1)

def nloc (ds : DS) (l : Loc) : Loc := normalizeLocation l (axisBounds ds.axes)

def collectInfoMasters (ds : DS) (di : Nat) : List (Loc × MInfo) :=
  (fontLevelSources ds di).map (fun s => (nloc ds s.loc, s.info))

def collectKerningMasters (ds : DS) (di : Nat) : List (Loc × KDict) :=
  (fontLevelSources ds di).map (fun s => (nloc ds s.loc, s.kerning))

def isEmptyGlyph (g : MGlyph) : Bool := g.contours.isEmpty && g.comps.isEmpty

/-- `collect_glyph_masters`: layers without the glyph are skipped; when the default glyph is not empty, masters
    where it is empty (no contours, no components) are dropped. -/
def collectGlyphMasters (ds : DS) (di : Nat) (name : String) : List (Loc × MGlyph) :=
  let present := ds.sources.zipIdx.filterMap (fun (s, i) =>
    (s.glyphs.find? (fun g => g.name == name)).map (fun g => (i, nloc ds s.loc, g.g)))
  let defaultEmpty := present.any (fun e => e.1 == di && isEmptyGlyph e.2.2)
  let otherEmpty := present.any (fun e => e.1 != di && isEmptyGlyph e.2.2)
  let kept := if !defaultEmpty && otherEmpty then present.filter (fun e => !isEmptyGlyph e.2.2) else present
  kept.map (·.2)

/-- master scalars for a master list at a normalized location: one axis → `scalars1`; several axes → the measured
    table, keyed by the master locations (values in axis order); an empty list if absent. -/
def scalarsFor (ds : DS) (locs : List Loc) (loc : Loc) : List Q :=
  match ds.axes with
  | [_] => scalars1 (locs.map (fun l => (l.head?.map (·.2)).getD 0)) ((loc.head?.map (·.2)).getD 0)
  | _ => (alookup (locs.map (fun l => l.map (·.2))) ds.table).getD []

/-! ## Instantiator -/

structure Instance where
  loc : Loc
  deriving Repr

/-- `weight_class_from_wght_value` -/
def weightClassFromWght (v : Q) : Int := otRound (min (max v 1) 1000)
def wdthTable : List (Q × Q) :=
  [(50, 1), (125/2, 2), (75, 3), (175/2, 4), (100, 5), (225/2, 6), (125, 7), (150, 8), (200, 9)]
/-- `width_class_from_wdth_value` -/
def widthClassFromWdth (v : Q) : Int := otRound (piecewiseLinearMap (min (max v 50) 200) wdthTable)
/-- `italic_angle_from_slnt_value` -/
def italicAngleFromSlnt (v : Q) : Q := min (max v (-90)) 90

structure InfoOut where
  attrs : MInfo                 -- the six interpolated attributes after `extractInfo`
  weightClass : Option Int
  widthClass : Option Int
  deriving DecidableEq, Repr

/-- `special_axes[axis.tag] = axis`: the last axis with that tag -/
def specialAxis (axes : List Axis) (tag : String) : Option Axis :=
  axes.foldl (fun acc a => if a.tag == tag then some a else acc) none

/-- `_generate_instance_info` (numeric part). The masters never set the OS/2 weight and width class here, so the
    axis fallbacks always apply; the italic angle falls back only when no master sets it. -/
def generateInfo (ds : DS) (di : Nat) (round : Bool) (nl : Loc) (location : Loc) : Except Err InfoOut :=
  match fromMasters (collectInfoMasters ds di) with
  | .error e => .error e
  | .ok v =>
    match instanceAt infoOps v nl (scalarsFor ds (v.items.map (·.1)) nl) with
    | .error e => .error e
    | .ok none => .error .instantiator
    | .ok (some inf) =>
      let inf := if round then iround inf else inf
      -- extractInfo: unitsPerEm (index 0) through `_nonNegativeNumberFormatter`
      let inf := match inf with
        | some u :: rest => some (if u < 0 then 0 else u) :: rest
        | l => l
      let axisVal (a : Axis) : Q := a.mapBackward ((alookup a.name location).getD 0)
      let wc := (specialAxis ds.axes "wght").map (fun a => weightClassFromWght (axisVal a))
      let wd := (specialAxis ds.axes "wdth").map (fun a => widthClassFromWdth (axisVal a))
      let inf := match inf[5]?, specialAxis ds.axes "slnt" with
        | some none, some a => inf.set 5 (some (italicAngleFromSlnt (axisVal a)))
        | _, _ => inf
      .ok ⟨inf, wc, wd⟩

/-- the part of `generate_glyph_instance` after the Variator is at hand -/
def instGlyph (ds : DS) (round : Bool) (nl : Loc) (v : Variator MGlyph) : Except Err MGlyph :=
  match instanceAt glyphOps v nl (scalarsFor ds (v.items.map (·.1)) nl) with
  | .error e => .error e
  | .ok none => .error .instantiator     -- `None.round()` / `None.extractGlyph`
  | .ok (some g) => .ok (if round then ground g else g)

/-- `generate_glyph_instance` with an empty `glyph_mutators` cache (see `generateGlyphInstanceC` and `Props.C19_pure`
    for why the cache cannot change the result) -/
def generateGlyphInstance (ds : DS) (di : Nat) (round : Bool) (name : String) (nl : Loc) : Except Err MGlyph :=
  match fromMasters (collectGlyphMasters ds di name) with
  | .error e => .error e
  | .ok v => instGlyph ds round nl v

/-- `self.glyph_mutators`: the only state an Instantiator changes while generating instances -/
abbrev Cache := List (String × Variator MGlyph)

/-- `generate_glyph_instance` as written: `glyph_mutators.get(name)`, else build the Variator and store it
    (nothing is stored when building fails) -/
def generateGlyphInstanceC (ds : DS) (di : Nat) (round : Bool) (cache : Cache) (name : String) (nl : Loc) :
    Except Err MGlyph × Cache :=
  match alookup name cache with
  | some v => (instGlyph ds round nl v, cache)
  | none =>
    match fromMasters (collectGlyphMasters ds di name) with
    | .error e => (.error e, cache)
    | .ok v => (instGlyph ds round nl v, (name, v) :: cache)

/-- the glyph loop of `generate_instance`: a failing glyph aborts unless it is in `skip_export_glyphs`, in which
    case it stays as created by `font.newGlyph` (empty, no code points). -/
def generateGlyphs (ds : DS) (di : Nat) (round : Bool) (nl : Loc) : List SrcGlyph → Except Err (List SrcGlyph)
  | [] => .ok []
  | d :: rest =>
    match generateGlyphInstance ds di round d.name nl with
    | .ok g =>
      (match generateGlyphs ds di round nl rest with
       | .ok t => .ok ({ name := d.name, unicodes := d.unicodes, g := g } :: t)
       | .error e => .error e)
    | .error _ =>
      if ds.skip.contains d.name then
        (match generateGlyphs ds di round nl rest with
         | .ok t => .ok ({ name := d.name, unicodes := [], g := MGlyph.empty } :: t)
         | .error e => .error e)
      else .error .instantiator

/-- the glyph loop threading the cache (what happens when one Instantiator generates instance after instance) -/
def generateGlyphsC (ds : DS) (di : Nat) (round : Bool) (nl : Loc) :
    Cache → List SrcGlyph → Except Err (List SrcGlyph) × Cache
  | cache, [] => (.ok [], cache)
  | cache, d :: rest =>
    match generateGlyphInstanceC ds di round cache d.name nl with
    | (.ok g, cache1) =>
      (match generateGlyphsC ds di round nl cache1 rest with
       | (.ok t, cache2) => (.ok ({ name := d.name, unicodes := d.unicodes, g := g } :: t), cache2)
       | (.error e, cache2) => (.error e, cache2))
    | (.error _, cache1) =>
      if ds.skip.contains d.name then
        (match generateGlyphsC ds di round nl cache1 rest with
         | (.ok t, cache2) => (.ok ({ name := d.name, unicodes := [], g := MGlyph.empty } :: t), cache2)
         | (.error e, cache2) => (.error e, cache2))
      else (.error .instantiator, cache1)

structure Output where
  font : Font
  info : InfoOut
  libLocation : Loc
  libSkip : List String
  deriving DecidableEq, Repr

/-- `None.round()` / `None.extract…` on an empty interpolation -/
def orErr : Except Err (Option α) → Except Err α
  | .ok (some a) => .ok a
  | .ok none => .error .instantiator
  | .error e => .error e

/-- the part of `from_designspace` + `generate_instance` after the default source has been found.
    Order as in the code: info and kerning Variators (eagerly, in `from_designspace`), then per instance: kerning,
    info, groups, glyphs, rules. -/
def generateWith (ds : DS) (round : Bool) (inst : Instance) (di : Nat) (dsrc : Source) : Except Err Output :=
  let location := dictMerge (defaultDesignLoc ds) inst.loc
  let nl := nloc ds location
  let gm := groupMaps dsrc.groups
  (fromMasters (collectInfoMasters ds di)).bind fun _ =>
  (fromMasters (collectKerningMasters ds di)).bind fun kv =>
  (orErr (instanceAt (kernOps gm) kv nl (scalarsFor ds (kv.items.map (·.1)) nl))).bind fun k =>
  (generateInfo ds di round nl location).bind fun info =>
  (generateGlyphs ds di round nl dsrc.glyphs).bind fun glyphs =>
  (processRulesSwaps ds.rules location (dsrc.glyphs.map (·.name))).bind fun swaps =>
  (applySwaps { glyphs := glyphs, kerning := if round then kround k else k,
                -- kerning groups through MathKerning, the others copied from the default font
                groups := kernGroups dsrc.groups ++ dsrc.groups.filter (fun g => !(isK1 g.1 || isK2 g.1)) }
              swaps).bind fun font =>
  .ok { font := font, info := info, libLocation := location, libSkip := ds.skip }

/-- `Instantiator.from_designspace(ds, round_geometry)` followed by `generate_instance(instance)` -/
def generateInstance (ds : DS) (round : Bool) (inst : Instance) : Except Err Output :=
  match findDefault ds with
  | none => .error .instantiator
  | some di =>
    if !boundsOk (axisBounds ds.axes) then .error .valueError else
    match ds.sources[di]? with
    | none => .error .instantiator
    | some dsrc => generateWith ds round inst di dsrc

end Ufo2ft.C19
