import Ufo2ftModel.Model.Filters
import Ufo2ftModel.Model.C03
/-! Model of the skip-export path: skip list resolution (BaseCompiler.preprocess / _pre_compile_designspace),
    SkipExportGlyphsFilter (in Model/Filters.lean), and the glyph order of the reduced glyph set. -/
namespace Ufo2ft.C13
open Ufo2ft

/-- `BaseCompiler.preprocess`: an explicit argument wins; otherwise the lib list of the single UFO, or the union of the
    lib lists of all UFOs given (a set: order irrelevant) -/
def resolveSkip (arg : Option (List String)) (libs : List (List String)) : List String :=
  match arg with
  | some a => a
  | none => (libs.flatMap (fun l => l)).eraseDups

/-- `_pre_compile_designspace`: the designspace's own lib list, whatever the sources say -/
def resolveSkipDS (dsLib : List String) (_libs : List (List String)) : List String := dsLib

end Ufo2ft.C13
