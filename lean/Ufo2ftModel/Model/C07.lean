import Ufo2ftModel.Basic
/-!
C07 — effect model of ufo2ft's compile pipelines over an explicit object store.

What is modelled (Lib/ufo2ft):
* `util._GlyphSet.from_layer(copy=…)`, `_copyLayer/_copyGlyph`  → `Stage.fromLayer` (fresh objects vs aliases)
* `preProcessor.{OTF,TTF}PreProcessor`, `{OTF,TTF}InterpolatablePreProcessor`, `_load_custom_filters`,
  `_init_explode_color_layer_glyphs_filter`, `BaseInterpolatablePreProcessor.process` (zip_longest order) → `pipeline`
* `_compilers.baseCompiler.BaseCompiler.compile`, `BaseInterpolatableCompiler.{compile,compile_designspace,
  _post_compile_designspace,compile_variable,_compileNeededSources}` → `pipeline`, `Stage.dsCopy/dsAlias/dsWrite`
* the effect signature of every shipped filter (`fieldsOf`), of `ExplodeColorLayerGlyphsFilter` (`explodeGS`,
  `copyGlyph`), of `DottedCircleFilter` (`dcExec`), of `outlineCompiler.setupTable_MATH` (`mathExec`),
  of `CubicToQuadraticFilter.__call__`'s rememberCurveType write (`libKey`),
  of `PropagateAnchorsIFilter` resolving bases through `instantiator.InterpolatedLayer` while
  `Instantiator.source_layers` still are the caller's layers (`Stage.instantiate/refresh/propagateI`, `instLeaks`):
  since /repo 61a81a2 only with inplace=True; `pipelineOld` keeps the earlier behaviour for the record.

Objects are either caller-owned (`Obj.owned`) or `fresh` (allocated during the call).  A stage emits `Write`s to
cells (object, slot) through the *handles* of the environment (glyph sets, the designspace handle) or directly
through the `ufo` handle.  `must = true`: the write certainly changes the stored value (given the description of
the sources); `must = false`: it may.
-/
namespace Ufo2ft.C07

inductive GField | width | height | unicodes | outline | components | anchors | lib
  deriving DecidableEq, Repr

def GField.slot : GField → String
  | .width => "width" | .height => "height" | .unicodes => "unicodes" | .outline => "outline"
  | .components => "components" | .anchors => "anchors" | .lib => "lib"

/-- objects of the store.  Everything but `fresh` belongs to the caller. -/
inductive Obj
  | fontLib (f : Nat) | features (f : Nat) | kerning (f : Nat) | groups (f : Nat) | info (f : Nat)
  | layerLib (f : Nat) (layer : String)
  | glyph (f : Nat) (layer : String) (name : String)
  | other (f : Nat) (kind : String)      -- layer list, data/images directories, …: never written by the model
  | doc
  | fresh (id : Nat)
  deriving DecidableEq, Repr

def Obj.owned : Obj → Bool
  | .fresh _ => false
  | _ => true

structure Cell where
  obj : Obj
  slot : String
  deriving DecidableEq, Repr

abbrev Store := Cell → Nat

structure Write where
  cell : Cell
  must : Bool
  stage : String
  val : Nat := 0
  deriving Repr

def Write.apply (w : Write) (s : Store) : Store := fun c => if c = w.cell then w.val else s c

def applyAll : List Write → Store → Store
  | [], s => s
  | w :: ws, s => applyAll ws (w.apply s)

/-! ### description of the sources (input of the model, extracted by the harness before each call) -/

structure GlyphD where
  name : String
  contours : Bool := false
  comps : List String := []          -- component base glyph names
  unicodes : Bool := false           -- has at least one code point
  dc : Bool := false                 -- 0x25CC among the code points
  colorMap : Option (List String) := none   -- layer names of glyph.lib[colorLayerMapping]
  eqLayers : List String := []       -- layers L with `copy == font.layers[L][name]` (Python `==`, measured)
  anchors : List String := []
  widthNZ : Bool := true             -- `bounds width or glyph.width` is truthy

structure LayerD where
  name : String
  glyphs : List GlyphD

structure FSpec where
  kind : String      -- filter class name
  pre : Bool
  skip : List String := []   -- SkipExportGlyphsFilter: the names it deletes from the glyph set

structure LibD where
  mathPrefix : Bool := false         -- some key starts with com.nagwa.MATHPlugin.
  mathConstants : Bool := false      -- …constants is present
  mathMCO : Bool := false            -- …constants has MinConnectorOverlap
  palettes : Bool := false
  colorLayers : Bool := false
  colorMap : Option (List String) := none
  categories : Bool := false         -- public.openTypeCategories present
  catsDCBase : Bool := false         -- … and already maps the dotted circle glyph to "base"
  curveType : Bool := false          -- cu2qu curve_type key present (font lib)
  filters : List FSpec := []         -- lib filters in lib order
  skipExport : List String := []

structure FontD where
  default : String
  layers : List LayerD
  lib : LibD := {}
  gdefTable : Bool := false          -- features text declares `table GDEF`
  layerCurveType : List String := [] -- layers whose lib has the cu2qu curve_type key

def LayerD.glyph (l : LayerD) (n : String) : Option GlyphD := l.glyphs.find? (·.name == n)
def FontD.layer (fd : FontD) (n : String) : Option LayerD := fd.layers.find? (·.name == n)
def FontD.glyphCount (fd : FontD) : Nat := (fd.layers.map (·.glyphs.length)).sum
def FontD.defaultGlyphs (fd : FontD) : List GlyphD := ((fd.layer fd.default).map (·.glyphs)).getD []

inductive Fn | ttf | otf | ittfs | ittfsDS | iotfsDS | vttf | vcff2
  deriving DecidableEq, Repr

structure Cfg where
  fn : Fn
  inplace : Bool := false
  removeOverlaps : Bool := false
  flattenComponents : Bool := false
  convertCubics : Bool := true
  reverseDirection : Bool := true
  rememberCurveType : Bool := true
  skipFeatures : Bool := false
  skipArg : Option (List String) := none
  filtersArg : Option (List (Option FSpec)) := none     -- `none` element = the ellipsis
  sources : List (Nat × Option String)                  -- (font index, layerName)
  dsSkip : List String := []
  variableFeatures : Bool := true
  dsNamed : List Bool := []                             -- per source: has a unique non-null name

structure Inp where
  cfg : Cfg
  fonts : List FontD

def emptyFont : FontD := { default := "public.default", layers := [] }
def Inp.font (inp : Inp) (f : Nat) : FontD := inp.fonts.getD f emptyFont

/-! ### names -/
def MATH := "setupTable_MATH"
def EXPLODE := "ExplodeColorLayerGlyphsFilter"
def DC := "DottedCircleFilter"
def INPLACE := "inplace"
def PROPAGATE := "PropagateAnchorsIFilter"
def CL_KEY := "com.github.googlei18n.ufo2ft.colorLayers"
def MCO_SLOT := "com.nagwa.MATHPlugin.constants/MinConnectorOverlap"
def CATS_KEY := "public.openTypeCategories"
def CURVE_KEY := "com.github.googlei18n.cu2qu.curve_type"

/-! ### environment: the handles a pipeline holds -/

structure Entry where
  name : String
  obj : Obj
  via : String        -- "" for objects made by the pipeline; otherwise the stage that introduced the alias

structure GS where
  font : Nat
  layer : String
  entries : List Entry
  lib : Obj
  libVia : String

structure Env where
  gss : List GS := []
  docW : Option Obj := none      -- the designspace document the pipeline writes to (none: not established yet)
  next : Nat := 0
  clPresent : List Nat := []     -- fonts whose lib currently has the colorLayers key
  instStale : Bool := false      -- an Instantiator exists whose source layers still are the caller's layers

def tagOf (name via : String) : String := if via == "" then name else via

/-- effect signatures of the shipped filters: glyph fields written through the glyph set -/
def fieldsOf (kind : String) : List GField :=
  if kind == "DecomposeComponentsFilter" || kind == "DecomposeComponentsIFilter"
     || kind == "DecomposeTransformedComponentsFilter" || kind == "SkipExportGlyphsFilter"
     || kind == "SkipExportGlyphsIFilter" then [.outline, .components]
  else if kind == "FlattenComponentsFilter" || kind == "FlattenComponentsIFilter" then [.components]
  else if kind == "RemoveOverlapsFilter" || kind == "CubicToQuadraticFilter" || kind == "fonts_to_quadratic"
     || kind == "ReverseContourDirectionFilter" || kind == "SortContoursFilter" then [.outline]
  else if kind == "PropagateAnchorsFilter" then [.anchors]
  else if kind == "TransformationsFilter" then [.outline, .components, .anchors, .width, .height]
  else [.width, .height, .unicodes, .outline, .components, .anchors, .lib]   -- unknown / probe: everything

/-- lib key written through `glyphSet.lib` ("*": any key) -/
def libKeyOf (kind : String) : Option (String × Bool) :=
  if kind == "ProbeFilter" then some ("*", false) else none

inductive Stage
  | fromLayer (font : Nat) (layer : Option String) (copy : Bool)
  | filter (srcs : List Nat) (name : String) (fields : List GField) (libKey : Option (String × Bool))
  | explode (src : Nat) (certain : Bool)
  | dottedCircle (src : Nat)
  | math (src : Nat)
  | instantiate (stale : Bool)     -- the Instantiator as the filters first see it, after `BaseInterpolatablePreProcessor.__init__`:
                                   -- `from_designspace` made its source layers the caller's layers; `stale = false`: the constructor
                                   -- pointed it at the glyph-set copies (`if not inplace: self._update_instantiator()`, 61a81a2)
  | refresh                        -- `_update_instantiator()` after a filter that certainly reported modifications
  | propagateI (src : Nat)         -- PropagateAnchors as interpolatable filter, resolving bases through the Instantiator
  | otf (name : String)            -- writes only into the TTFont being built
  | dsCopy
  | dsAlias
  | dsWrite (name : String) (slots : List (String × Bool))
  | drop (srcs : List Nat) (names : List String)   -- `del glyphSet[name]` (SkipExportGlyphs filters): entries leave the dict
  | reset                          -- a new call starts: handles are dropped

/-- stages that write through the `ufo` handle or bring caller objects into a glyph set / the ds handle -/
def Stage.reaches : Stage → Bool
  | .fromLayer _ _ copy => !copy
  | .explode _ _ | .dottedCircle _ | .math _ | .dsAlias => true
  | .instantiate stale => stale
  | _ => false

/-! ### execution of one stage -/

def freshEntries (names : List String) (start : Nat) : List Entry :=
  names.zipIdx.map (fun (n, i) => ⟨n, .fresh (start + i), ""⟩)

def fromLayerGS (inp : Inp) (f : Nat) (layer : Option String) (copy : Bool) (next : Nat) : GS × Nat :=
  let fd := inp.font f
  let lname := layer.getD fd.default
  let names := ((fd.layer lname).map (fun l => l.glyphs.map (·.name))).getD []
  if copy then
    ({ font := f, layer := lname, entries := freshEntries names next, lib := .fresh (next + names.length), libVia := "" },
     next + names.length + 1)
  else
    ({ font := f, layer := lname, entries := names.map (fun n => ⟨n, .glyph f lname n, INPLACE⟩),
       lib := .layerLib f lname, libVia := INPLACE }, next)

def filterWrites (name : String) (fields : List GField) (libKey : Option (String × Bool)) (gs : GS) : List Write :=
  gs.entries.flatMap (fun en => fields.map (fun fl => { cell := ⟨en.obj, fl.slot⟩, must := false, stage := tagOf name en.via }))
  ++ (match libKey with
      | none => []
      | some (k, m) => [{ cell := ⟨gs.lib, k⟩, must := m, stage := tagOf name gs.libVia }])

/-- ExplodeColorLayerGlyphsFilter._copyGlyph: the layer's own glyph object is renamed into the glyph set;
    its component references are rewritten and its code points cleared.  `taken` = names already in the
    glyph set (conflict → InvalidFontData; the model just does not add). -/
def copyGlyph (fd : FontD) (f : Nat) (L : String) (taken : List String) (m : Bool) :
    Nat → String → List Entry × List Write → List Entry × List Write
  | 0, _, acc => acc
  | fuel + 1, name, acc =>
    let target := name ++ "." ++ L
    if acc.1.any (·.name == target) || taken.contains target then acc else
    match (fd.layer L).bind (·.glyph name) with
    | none => acc
    | some d =>
      let acc := d.comps.foldl (fun a b => copyGlyph fd f L taken m fuel b a) acc
      let o := Obj.glyph f L name
      let ws : List Write :=
        (if d.comps.isEmpty then [] else [{ cell := ⟨o, "components"⟩, must := m, stage := EXPLODE }])
        ++ (if d.unicodes then [{ cell := ⟨o, "unicodes"⟩, must := m, stage := EXPLODE }] else [])
      (acc.1 ++ [⟨target, o, EXPLODE⟩], acc.2 ++ ws)

/-- ExplodeColorLayerGlyphsFilter.filter over the glyph set.  `certain`: no earlier stage can have modified the
    glyph-set copies, so the measured `==` results (`eqLayers`) are those the filter will see; otherwise a glyph
    measured equal may have become different (its layer twin is then aliased too: predicted as `may`). -/
def explodeGS (fd : FontD) (gs : GS) (certain : Bool) : List Entry × List Write :=
  let taken := gs.entries.map (·.name)
  let fuel := fd.glyphCount + 1
  gs.entries.foldl (fun acc en =>
    match (fd.layer gs.layer).bind (·.glyph en.name) with
    | none => acc
    | some d =>
      match (d.colorMap <|> fd.lib.colorMap) with
      | none => acc
      | some layers =>
        layers.foldl (fun acc L =>
          if d.eqLayers.contains L && certain then acc
          else if ((fd.layer L).bind (·.glyph en.name)).isSome then
            copyGlyph fd gs.font L taken (certain && !d.eqLayers.contains L) fuel en.name acc
          else acc) acc) ([], [])

/-- DottedCircleFilter.check_and_add_anchors: keys of `all_anchors` -/
def isMarkAnchor (a : String) : Bool := a.toList.head? == some '_'      -- `anchor.name.startswith("_")`

def allAnchorKeys (gl : List GlyphD) : List String :=
  gl.flatMap (fun g => g.anchors.filter (fun a => isMarkAnchor a || g.widthNZ))

def dcWrites (fd : FontD) (f : Nat) (en : Option Entry) (dsanchors : List String) (dcName : String) : List Write :=
  let keys := allAnchorKeys fd.defaultGlyphs
  let added := keys.any (fun a => !dsanchors.contains a && keys.contains ("_" ++ a))
  if !added then [] else
    (match en with
     | some e => [{ cell := ⟨e.obj, "anchors"⟩, must := false, stage := tagOf DC e.via }]
     | none => [])
    ++ (if !fd.gdefTable then
          (if fd.lib.categories then
             [{ cell := ⟨.fontLib f, CATS_KEY ++ "/" ++ dcName⟩, must := !fd.lib.catsDCBase && en.isNone, stage := DC }]
           else [])
        else [{ cell := ⟨.features f, "text"⟩, must := false, stage := DC }])

/-- DottedCircleFilter.__call__ -/
def dcExec (fd : FontD) (gs : GS) : List Write :=
  match fd.defaultGlyphs.find? (·.dc) with
  | some g =>
    match gs.entries.find? (·.name == g.name) with
    | none => []     -- DO_NOTHING
    | some e => dcWrites fd gs.font (some e) ((((fd.layer gs.layer).bind (·.glyph g.name)).map (·.anchors)).getD []) g.name
  | none => dcWrites fd gs.font none [] "uni25CC"

/-- setupTable_MATH: `constants.pop("MinConnectorOverlap", 0)` on the caller's dict -/
def mathExec (fd : FontD) (f : Nat) : List Write :=
  if fd.lib.mathPrefix && fd.lib.mathConstants && fd.lib.mathMCO then
    [{ cell := ⟨.fontLib f, MCO_SLOT⟩, must := true, stage := MATH }]
  else []

/-- PropagateAnchorsIFilter recursing into a base glyph fetched from `InterpolatedLayer`: while the Instantiator
    is stale that is the caller's own glyph whenever it is truthy (`len(glyph)` = number of contours > 0);
    a composite base then gets the propagated anchors appended -/
def instLeaks (fd : FontD) (f : Nat) (L : String) : List Write :=
  ((((fd.layer L).map (·.glyphs)).getD []).filter (fun g => g.contours && !g.comps.isEmpty)).map
    (fun g => { cell := ⟨.glyph f L g.name, "anchors"⟩, must := false, stage := PROPAGATE })

def dropNames (names : List String) (gs : GS) : GS :=
  { gs with entries := gs.entries.filter (fun en => !names.contains en.name) }

def exec (inp : Inp) : Stage → Env → List Write × Env
  | .fromLayer f layer copy, e =>
    let (gs, nx) := fromLayerGS inp f layer copy e.next
    ([], { e with gss := e.gss ++ [gs], next := nx })
  | .filter srcs name fields libKey, e =>
    (srcs.flatMap (fun i => match e.gss[i]? with
      | some gs => filterWrites name fields libKey gs
      | none => []), e)
  | .explode src certain, e =>
    match e.gss[src]? with
    | none => ([], e)
    | some gs =>
      if e.clPresent.contains gs.font then ([], e)      -- skipCurrentFont
      else
        let (ents, ws) := explodeGS (inp.font gs.font) gs certain
        ({ cell := ⟨.fontLib gs.font, CL_KEY⟩, must := true, stage := EXPLODE } :: ws,
         { e with gss := e.gss.set src { gs with entries := gs.entries ++ ents }, clPresent := gs.font :: e.clPresent })
  | .dottedCircle src, e =>
    match e.gss[src]? with
    | none => ([], e)
    | some gs => (dcExec (inp.font gs.font) gs, e)
  | .math src, e =>
    match e.gss[src]? with
    | none => ([], e)
    | some gs => (mathExec (inp.font gs.font) gs.font, e)
  | .instantiate stale, e => ([], { e with instStale := stale })
  | .refresh, e => ([], { e with instStale := false })
  | .propagateI src, e =>
    match e.gss[src]? with
    | none => ([], e)
    | some gs =>
      (filterWrites "PropagateAnchorsFilter" [.anchors] none gs
       ++ (if e.instStale then instLeaks (inp.font gs.font) gs.font gs.layer else []), e)
  | .otf _, e => ([], e)
  | .dsCopy, e => ([], { e with docW := some (.fresh e.next), next := e.next + 1 })
  | .dsAlias, e => ([], { e with docW := some .doc })
  | .dsWrite name slots, e =>
    match e.docW with
    | none => ([], e)
    | some o => (slots.map (fun (s, m) => { cell := ⟨o, s⟩, must := m, stage := if o.owned then INPLACE else name }), e)
  | .drop srcs names, e =>
    ([], { e with gss := e.gss.zipIdx.map (fun (gs, i) => if srcs.contains i then dropNames names gs else gs) })
  | .reset, e => ([], { e with gss := [], docW := none, instStale := false })

def run (inp : Inp) : List Stage → Env → List Write × Env
  | [], e => ([], e)
  | st :: rest, e =>
    let r := exec inp st e
    let r2 := run inp rest r.2
    (r.1 ++ r2.1, r2.2)

/-! ### the pipelines -/

def isDS : Fn → Bool
  | .ttf | .otf | .ittfs => false
  | _ => true

def stageOfSpec (ds : Bool) (src : Nat) (s : FSpec) : Stage :=
  if s.kind == DC then .dottedCircle src
  else if ds && s.kind == "PropagateAnchorsFilter" then .propagateI src
  else if s.kind == EXPLODE then .explode src false
  else .filter [src] s.kind (fieldsOf s.kind) (libKeyOf s.kind)

/-- a custom filter and, for SkipExportGlyphsFilter, the deletion of its names from the glyph set -/
def stagesOfSpec (ds : Bool) (src : Nat) (s : FSpec) : List Stage :=
  stageOfSpec ds src s :: (if s.skip.isEmpty then [] else [Stage.drop [src] s.skip])

/-- `_load_custom_filters`: the lib's filters (pre ones first: `itertools.chain(*loadFilters(ufo))`) unless a
    list is passed, in which case the ellipsis stands for them -/
def libFilters (fd : FontD) : List FSpec := fd.lib.filters.filter (·.pre) ++ fd.lib.filters.filter (!·.pre)

def customFilters (cfg : Cfg) (fd : FontD) : List FSpec :=
  match cfg.filtersArg with
  | none => libFilters fd
  | some l => l.flatMap (fun | none => libFilters fd | some s => [s])

/-- `_init_explode_color_layer_glyphs_filter` -/
def colourTrigger (fd : FontD) : Bool :=
  fd.lib.palettes && !fd.lib.colorLayers && (fd.lib.colorMap.isSome || fd.defaultGlyphs.any (·.colorMap.isSome))

/-- `itertools.zip_longest(*lists)` flattened, `None`s dropped (fuel = longest length) -/
def zipLongest (ls : List (List Stage)) : Nat → List Stage
  | 0 => []
  | n + 1 => ls.filterMap List.head? ++ zipLongest (ls.map List.tail) n

def maxLen (ls : List (List Stage)) : Nat := (ls.map List.length).foldl max 0

def srcIdx (cfg : Cfg) : List Nat := List.range cfg.sources.length

/-- effective skipExportGlyphs list (`BaseCompiler.preprocess` / `_pre_compile_designspace`) -/
def skipList (inp : Inp) : List String :=
  match inp.cfg.fn with
  | .ttf | .otf => inp.cfg.skipArg.getD ((inp.cfg.sources.head?.map (fun s => (inp.font s.1).lib.skipExport)).getD [])
  | .ittfs => (match inp.cfg.skipArg with
      | some l => l
      | none => inp.cfg.sources.flatMap (fun s => (inp.font s.1).lib.skipExport))
  | _ => inp.cfg.dsSkip

/-- … is non-empty -/
def skipActive (inp : Inp) : Bool := !(skipList inp).isEmpty

def fromLayers (inp : Inp) : List Stage :=
  inp.cfg.sources.map (fun s => Stage.fromLayer s.1 s.2 (!inp.cfg.inplace))

def preStages (inp : Inp) (i : Nat) (f : Nat) : List Stage :=
  ((customFilters inp.cfg (inp.font f)).filter (·.pre)).flatMap (stagesOfSpec (isDS inp.cfg.fn) i)
def postStages (inp : Inp) (i : Nat) (f : Nat) : List Stage :=
  ((customFilters inp.cfg (inp.font f)).filter (!·.pre)).flatMap (stagesOfSpec (isDS inp.cfg.fn) i)

def explodeStage (inp : Inp) (i : Nat) (f : Nat) (certain : Bool) : List Stage :=
  if colourTrigger (inp.font f) then [.explode i certain] else []

/-- TTFPreProcessor / OTFPreProcessor for source 0 -/
def singlePre (inp : Inp) (ttf : Bool) (f : Nat) : List Stage :=
  let c := inp.cfg
  (if skipActive inp then [Stage.filter [0] "SkipExportGlyphsFilter" (fieldsOf "SkipExportGlyphsFilter") none,
                           Stage.drop [0] (skipList inp)] else [])
  ++ preStages inp 0 f
  ++ explodeStage inp 0 f (!skipActive inp && (preStages inp 0 f).isEmpty)
  ++ [Stage.filter [0] "DecomposeComponentsFilter" (fieldsOf "DecomposeComponentsFilter") none]
  ++ (if ttf && c.flattenComponents then [Stage.filter [0] "FlattenComponentsFilter" (fieldsOf "FlattenComponentsFilter") none] else [])
  ++ (if c.removeOverlaps then [Stage.filter [0] "RemoveOverlapsFilter" (fieldsOf "RemoveOverlapsFilter") none] else [])
  ++ (if ttf then
        (if c.convertCubics then
           [Stage.filter [0] "CubicToQuadraticFilter" (fieldsOf "CubicToQuadraticFilter")
              (if c.rememberCurveType && c.inplace then
                 some (CURVE_KEY, !(inp.font f).lib.curveType
                        && !(inp.font f).layerCurveType.contains ((c.sources.head?.bind (·.2)).getD (inp.font f).default))
               else none)]
         else if c.reverseDirection then
           [Stage.filter [0] "ReverseContourDirectionFilter" (fieldsOf "ReverseContourDirectionFilter") none]
         else [])
      else [])
  ++ postStages inp 0 f

/-- outline compiler + feature compiler + post-processor of one source -/
def compileOne (inp : Inp) (i : Nat) (s : Nat × Option String) (sparseNoMath : Bool) (feat : Bool) : List Stage :=
  [Stage.otf "outlines"]
  ++ (if (inp.font s.1).lib.mathPrefix && !(sparseNoMath && s.2.isSome) then [Stage.math i] else [])
  ++ (if s.2.isNone && feat then [Stage.otf "features"] else [])
  ++ [Stage.otf "postprocess"]

def single (inp : Inp) (ttf : Bool) : List Stage :=
  match inp.cfg.sources.head? with
  | none => []
  | some s =>
    [Stage.fromLayer s.1 s.2 (!inp.cfg.inplace)] ++ singlePre inp ttf s.1
    ++ compileOne inp 0 s false (!inp.cfg.skipFeatures)

def perSource (inp : Inp) (g : Nat → Nat → List Stage) : List (List Stage) :=
  inp.cfg.sources.zipIdx.map (fun (s, i) => g i s.1)

/-- {TTF,OTF}InterpolatablePreProcessor (constructor + process).  `old = true`: the constructor as it was before
    /repo commit 61a81a2 (the Instantiator kept reading the caller's layers until a filter reported a change). -/
def interpPre (old : Bool) (inp : Inp) (ttf : Bool) : List Stage :=
  let c := inp.cfg
  let all := srcIdx c
  let pre := perSource inp (preStages inp)
  let post := perSource inp (postStages inp)
  let dflt := perSource inp (fun i f => explodeStage inp i f (!ttf && !skipActive inp && pre.all List.isEmpty))
  fromLayers inp
  ++ (if isDS c.fn then [Stage.instantiate (old || c.inplace)] else [])
  ++ (if skipActive inp then [Stage.filter all "SkipExportGlyphsIFilter" (fieldsOf "SkipExportGlyphsIFilter") none,
                              Stage.drop all (skipList inp)] else [])
  ++ zipLongest pre (maxLen pre)
  ++ (if ttf then [Stage.filter all "DecomposeComponentsIFilter" (fieldsOf "DecomposeComponentsIFilter") none] else [])
  ++ zipLongest dflt (maxLen dflt)
  ++ (if ttf then
        (if c.convertCubics then
           [Stage.filter all "fonts_to_quadratic" (fieldsOf "fonts_to_quadratic")
              (if c.rememberCurveType && c.inplace then some (CURVE_KEY, false) else none)]
           ++ (if c.reverseDirection then [Stage.refresh] else [])
         else if c.reverseDirection then
           [Stage.filter all "ReverseContourDirectionFilter" (fieldsOf "ReverseContourDirectionFilter") none]
         else [])
        ++ (if c.flattenComponents then [Stage.filter all "FlattenComponentsIFilter" (fieldsOf "FlattenComponentsIFilter") none] else [])
      else [Stage.filter all "DecomposeComponentsIFilter" (fieldsOf "DecomposeComponentsIFilter") none, Stage.refresh])
  ++ zipLongest post (maxLen post)

/-- BaseInterpolatableCompiler.compile: one TTFont per source; `assign` = what is done with each result -/
def interpCompile (inp : Inp) (feat : Bool) (assign : Nat → List Stage) : List Stage :=
  inp.cfg.sources.zipIdx.flatMap (fun (s, i) => compileOne inp i s true feat ++ assign i)

def assignFont (label : String) (i : Nat) : List Stage :=
  [Stage.dsWrite label [("sources/" ++ toString i ++ "/font", true)]]

def nameWrites (named : List Bool) : List (String × Bool) :=
  named.zipIdx.filterMap (fun (b, i) => if b then none else some ("sources/" ++ toString i ++ "/name", true))

def pipelineG (old : Bool) (inp : Inp) : List Stage :=
  let c := inp.cfg
  match c.fn with
  | .ttf => single inp true
  | .otf => single inp false
  | .ittfs => interpPre old inp true ++ interpCompile inp (!c.skipFeatures) (fun _ => [])
  | .ittfsDS =>
    [if c.inplace then Stage.dsAlias else Stage.dsCopy] ++ interpPre old inp true
    ++ interpCompile inp (!c.skipFeatures) (assignFont "_post_compile_designspace")
  | .iotfsDS =>
    [if c.inplace then Stage.dsAlias else Stage.dsCopy] ++ interpPre old inp false
    ++ interpCompile inp (!c.skipFeatures) (assignFont "_post_compile_designspace")
  | .vttf =>
    [if c.inplace then Stage.dsAlias else Stage.dsCopy, Stage.dsWrite "ensure_all_sources_have_names" (nameWrites c.dsNamed)]
    ++ interpPre old inp true
    ++ interpCompile inp (!c.skipFeatures && !c.variableFeatures) (assignFont "_compileNeededSources")
    ++ [Stage.otf "merge", Stage.otf "variableFeatures", Stage.otf "postprocess"]
  | .vcff2 =>
    [if c.inplace then Stage.dsAlias else Stage.dsCopy, Stage.dsWrite "ensure_all_sources_have_names" (nameWrites c.dsNamed)]
    ++ interpPre old inp false
    ++ interpCompile inp (!c.skipFeatures && !c.variableFeatures) (assignFont "_compileNeededSources")
    ++ [Stage.otf "merge", Stage.otf "variableFeatures", Stage.otf "postprocess"]

/-- the pipelines of the current code -/
def pipeline (inp : Inp) : List Stage := pipelineG false inp

/-- the pipelines before /repo commit 61a81a2 (kept to state the repaired defect) -/
def pipelineOld (inp : Inp) : List Stage := pipelineG true inp

def env0 (inp : Inp) : Env :=
  { clPresent := (inp.fonts.zipIdx.filter (fun (fd, _) => fd.lib.colorLayers)).map (·.2) }

/-- all writes of the first `k` stages of one call (an exception after stage `k` = early termination) -/
def trace (inp : Inp) (k : Nat) : List Write := (run inp ((pipeline inp).take k) (env0 inp)).1

/-- predicted leak set: the writes that land in caller-owned cells -/
def leaks (inp : Inp) (k : Nat) : List Write := (trace inp k).filter (·.cell.obj.owned)

def leaksAll (inp : Inp) : List Write := leaks inp (pipeline inp).length

/-- what the pre-61a81a2 pipeline wrote into caller-owned cells -/
def leaksOld (inp : Inp) : List Write := ((run inp (pipelineOld inp) (env0 inp)).1).filter (·.cell.obj.owned)

end Ufo2ft.C07
