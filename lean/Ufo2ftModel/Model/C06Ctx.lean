import Ufo2ftModel.Model.C06
/-!
Model of the contextual-anchor part of ufo2ft's MarkFeatureWriter ('*'-prefixed anchors whose object lib carries a
"GPOS_Context" string): `_makeContextualAttachments`, the contextual halves of `_makeMarkFeature` / `_makeMkmkFeature`,
`_makeContextualMarkLookup` (text of the dispatch statements, the referenced lookups), and the placement of the
lookups of a feature that has contextual lookups (BaseFeatureWriter._insert puts them in front of all features).

The plain (non-contextual) part is `build` (Model/C06.lean); `modelX` = `model` + this part.
feaLib behaviour relied upon: in one lookup a later `pos base|ligature|mark G …` statement for the same glyph G replaces an
earlier one (the referenced lookups are modelled with the last statement per glyph); the dispatch statements are compared
as text.
-/
namespace Ufo2ft.C06

inductive Dest | base | lig | mark
  deriving DecidableEq, Repr

/-- `includedInClass(ligatureClass, g)` -/
def ligIn (i : Input) (g : String) : Bool :=
  match i.gdef with
  | none => false
  | some d => d.lig.contains g

/-- `str.strip()` for strings whose only white space is the blank -/
def stripSp (s : String) : String :=
  String.ofList ((s.toList.dropWhile (· == ' ')).reverse.dropWhile (· == ' ')).reverse

/-- where _makeContextualAttachments sends the contextual anchor `a` of glyph `g` (none = skipped) -/
def ctxDestOf (i : Input) (mg : List String) (km : List (String × String)) (g : String) (a : NA) : Option Dest :=
  if mg.contains g then
    (if (classOf km a).isNone || a.isMark then none else if a.number.isSome then none else some .mark)
  else if a.number.isSome && ligOK i g then some .lig
  else if a.number.isNone && (baseOK i g || ligIn i g) then some .base
  else none

/-- _makeContextualAttachments: (destination, context, glyph, anchor) in iteration order
    (glyphs sorted by name, anchors in list order); `al` = pruned anchor lists -/
def ctxAtts (i : Input) (al : AList) (mg : List String) (km : List (String × String)) :
    List (Dest × String × String × NA) :=
  (al.mergeSort (fun a b => strLe a.1 b.1)).flatMap (fun e =>
    e.2.filterMap (fun a =>
      match a.ctx with
      | none => none
      | some c =>
        match ctxDestOf i mg km e.1 a with
        | none => none
        | some d => if stripSp c == "" then none else some (d, stripSp c, e.1, a)))

/-- `sorted(d.items(), key=lambda x: -len(x[0]))` on the contexts of one destination -/
def ctxOrder (atts : List (String × String × NA)) : List String :=
  (dedupFirst (atts.map (·.1))).mergeSort (fun a b => decide (a.length ≥ b.length))

/-- `before, after = fullcontext.split(";")` (or `"", fullcontext`), `after.strip()` -/
def splitCtx (full : String) : Except Err (String × String) :=
  match full.toList.filter (· == ';') with
  | [] => .ok ("", stripSp full)
  | [_] => .ok (String.ofList (full.toList.takeWhile (· != ';')),
                stripSp (String.ofList ((full.toList.dropWhile (· != ';')).drop 1)))
  | _ => .error .valueError            -- too many values to unpack

/-- `s.replace(c, r)` -/
def replaceChar (s : String) (c : Char) (r : String) : String :=
  String.ofList (s.toList.flatMap (fun x => if x == c then r.toList else [x]))

/-- the text of the dispatch statement _makeContextualMarkLookup writes -/
def posText (after names cls refName : String) : String :=
  let after' := if after.toList.contains '&' then after else replaceChar after '*' "* &"
  "pos " ++ replaceChar (replaceChar after' '*' ("[" ++ names ++ "]")) '&' ("@" ++ cls ++ "' lookup " ++ refName) ++ ";"

/-- feaLib: a later statement for the same glyph replaces an earlier one -/
def keepLast : List Entry → List Entry
  | [] => []
  | e :: l => if l.any (fun e' => e'.glyph == e.glyph) then keepLast l else e :: keepLast l

/-- the lookups of one feature's contextual part: the referenced lookups (in order of creation) and the dispatch lookups
    (keyed by the text before the ';', each with its (comment, statement) lines) -/
structure CtxFeature where
  refs : List Lookup
  disp : List (String × List (String × String))
  deriving Repr

/-- dict update of `ctxLkps[before]` -/
def dispAdd (d : List (String × List (String × String))) (before : String) (line : String × String) :
    List (String × List (String × String)) :=
  if d.any (fun e => e.1 == before) then d.map (fun e => if e.1 == before then (e.1, e.2 ++ [line]) else e)
  else d ++ [(before, [line])]

/-- the mark class of an anchor key (`anchorKey in self.context.markClasses`; the key-less anchors have none) -/
def ctxClass (km : List (String × String)) (key : String) : Option String :=
  if key == "" then none else alookup key km

/-- one call of the body of _makeContextualMarkLookup's loop: a context, an anchor key, its statements.
    A key to which no mark glyph attaches is skipped FIRST (`if anchorKey not in self.context.markClasses: continue`):
    the context is not even split, no dispatch block and no referenced lookup are made, the counters stay as they are. -/
def ctxStep (km : List (String × String)) (feat prefix_ : String) (kind : Kind) (context key : String)
    (names : List String) (entries : List Entry) (st : CtxFeature) : Except Err CtxFeature :=
  match ctxClass km key with
  | none => .ok st
  | some cls =>
    match splitCtx context with
    | .error e => .error e
    | .ok (before, after) =>
      let refName := prefix_ ++ "_" ++ toString st.refs.length
      let line := ("# " ++ after, posText after (" ".intercalate names) cls refName)
      .ok ⟨st.refs ++ [⟨feat, kind, keepLast entries⟩], dispAdd st.disp before line⟩

/-- the loop body BEFORE the repair: the context was split first and `self.context.markClasses[anchorKey]` raised KeyError
    for a key without mark class.  Kept for the counterexample only. -/
def ctxStepOld (km : List (String × String)) (feat prefix_ : String) (kind : Kind) (context key : String)
    (names : List String) (entries : List Entry) (st : CtxFeature) : Except Err CtxFeature :=
  match splitCtx context with
  | .error e => .error e
  | .ok _ =>
    match ctxClass km key with
    | none => .error .keyErrorMarkClass
    | some _ => ctxStep km feat prefix_ kind context key names entries st

/-- the number of components of a contextual ligature statement:
    `max(a.number for a in anchorLists[glyph] if a.key and a.number is not None)` -/
def ligCompCount (al : AList) (g : String) : Nat :=
  maxNat (((alookup g al).getD []).filterMap (fun a => if a.key == "" then none else a.number))

/-- the statement of one contextual anchor -/
def ctxEntry (al : AList) (km : List (String × String)) (d : Dest) (g : String) (a : NA) : Entry :=
  let cls := (alookup a.key km).getD ""
  match d with
  | .lig => ⟨g, (List.range (ligCompCount al g)).map (fun j =>
      if some (j + 1) == a.number then compAST [⟨a, cls⟩] else [])⟩
  | _ => ⟨g, [compAST [⟨a, cls⟩]]⟩

def kindOfDest : Dest → Kind
  | .base => .base
  | .lig => .liga
  | .mark => .mkmk

/-- the statements of one (context, anchor key) -/
def ctxSel (atts : List (String × String × NA)) (ck : String × String) : List (String × String × NA) :=
  atts.filter (fun t => t.1 == ck.1 && t.2.2.key == ck.2)

/-- one (context, anchor key) of the loop; an exception ends everything -/
def ctxWorkStep (al : AList) (km : List (String × String)) (feat prefix_ : String) (d : Dest)
    (atts : List (String × String × NA)) (acc : Except Err CtxFeature) (ck : String × String) : Except Err CtxFeature :=
  match acc with
  | .error e => .error e
  | .ok s =>
    ctxStep km feat prefix_ (kindOfDest d) ck.1 ck.2 ((ctxSel atts ck).map (·.2.1))
      ((ctxSel atts ck).map (fun t => ctxEntry al km d t.2.1 t.2.2)) s

/-- the (context, key) pairs in processing order: longest context first; keys in order of first occurrence -/
def ctxWork (atts : List (String × String × NA)) : List (String × String) :=
  (ctxOrder atts).flatMap (fun c =>
    (dedupFirst ((atts.filter (fun t => t.1 == c)).map (fun t => t.2.2.key))).map (fun k => (c, k)))

/-- the loop over the contexts of one destination (longest context first) and, inside, over the anchor keys -/
def ctxDest (al : AList) (km : List (String × String)) (feat prefix_ : String) (d : Dest)
    (atts : List (String × String × NA)) (st : CtxFeature) : Except Err CtxFeature :=
  (ctxWork atts).foldl (ctxWorkStep al km feat prefix_ d atts) (.ok st)

def ofDest (atts : List (Dest × String × String × NA)) (d : Dest) : List (String × String × NA) :=
  (atts.filter (fun t => t.1 == d)).map (·.2)

/-- the program with its contextual parts -/
structure ProgramX where
  plain : Program            -- mark classes and the non-contextual lookups in LookupList order
  markCtx : CtxFeature
  mkmkCtx : CtxFeature
  deriving Repr

/-- LookupList order: the lookups of a feature with contextual lookups are written in front of all feature blocks -/
def orderLookups (ls : List Lookup) (markFirst mkmkFirst : Bool) : List Lookup :=
  let f := fun (t : String) => ls.filter (fun L => L.feature == t)
  (if markFirst then f "mark" else []) ++ (if mkmkFirst then f "mkmk" else []) ++ f "abvm" ++ f "blwm" ++
  (if markFirst then [] else f "mark") ++ (if mkmkFirst then [] else f "mkmk")

def ctxFeatures (i : Input) (al0 : AList) : Except Err (CtxFeature × CtxFeature) :=
  let al := prune al0
  let me := markEntries i al (markNames al0)
  let mg := me.map (·.1)
  let km := (makeClassesFrom (preClasses i.pre) me).keyMap
  let atts := ctxAtts i al mg km
  match ctxDest al km "mark" "ContextualMark" .base (ofDest atts .base) ⟨[], []⟩ with
  | .error e => .error e
  | .ok s1 =>
    match ctxDest al km "mark" "ContextualMark" .lig (ofDest atts .lig) s1 with
    | .error e => .error e
    | .ok s2 =>
      match ctxDest al km "mkmk" "ContextualMarkToMark" .mark (ofDest atts .mark) ⟨[], []⟩ with
      | .error e => .error e
      | .ok s3 => .ok (s2, s3)

/-- MarkFeatureWriter.write, contextual anchors included -/
def modelX (i : Input) : Except Err ProgramX :=
  match anchorLists i with
  | .error e => .error e
  | .ok al =>
    match ctxFeatures i al with
    | .error e => .error e
    | .ok (cm, ck) =>
      let P := build i al
      .ok ⟨⟨P.classes, orderLookups P.lookups (!cm.refs.isEmpty) (!ck.refs.isEmpty)⟩, cm, ck⟩

end Ufo2ft.C06
