import Ufo2ftModel.Model.C09
/-!
The compile-time decision of fontTools' `TTGlyphPointPen._buildComponents` (called by `OutlineTTFCompiler.compileGlyphs`
with `handleOverflowingTransforms=True`), taken for each master on its own, long after the pre-processor:

    overflowing = any(s > 2 or s < -2 for (glyphName, transformation) in self.components for s in transformation[:4])
    ... if self.points or (self.handleOverflowingTransforms and overflowing): self._decompose(glyphName, transformation)

and the quantisation `floatToFixed(v, 14)` under which glyf stores a component's 2×2.
-/
namespace Ufo2ft.C09
open Ufo2ft

/-- `s > 2 or s < -2` -/
def overflows (v : Q) : Bool := decide (2 < v) || decide (v < -2)

/-- the same on a 2×2 (`transformation[:4]`) -/
def overflows4 (t : Q × Q × Q × Q) : Bool := overflows t.1 || overflows t.2.1 || overflows t.2.2.1 || overflows t.2.2.2

/-- `overflowing`: the pen decomposes the whole glyph when some component has an entry beyond ±2 -/
def penDecomposes (g : Glyph) : Bool := g.comps.any (fun k => overflows4 k.t.linear)

/-- `floatToFixed(v, 14)` = `otRound(v * 2^14)` -/
def f2dot14 (v : Q) : Int := otRound (v * 16384)

end Ufo2ft.C09
