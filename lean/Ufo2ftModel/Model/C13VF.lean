import Ufo2ftModel.Model.C09
import Ufo2ftModel.Model.C09Shape
import Ufo2ftModel.Spec.Render
/-!
The variable-font clause of C13 (one axis).

A *family* is what the interpolatable compilers get: one glyph set per source (possibly sparse) and one normalised design
location per source (`C09.Inst`, default source at 0).  Everything here REUSES the C09 model of the interpolatable
machinery: `collectMasters` / `interpAt` (linear interpolation between the neighbouring sources that have the glyph) and
`skipI` (= `SkipExportGlyphsIFilter.__call__` with `BaseIFilter.__call__`, `ensureCompositeDefinedAtComponentLocations`,
the `InterpolatedLayer`s).

* `glyphAt I ms n t`  — the data of glyph `n` (points, component offsets/matrices, advance, anchors) at location `t`:
  interpolated from the sources that HAVE the glyph;
* `instanceAt I ms t` — all glyphs of the family at `t`;
* `renderAt I ms t n` — what a variable font built from the family draws for `n` at `t`: the instance glyph rendered by the
  specification renderer (`Spec/Render.lean`), components resolved in the instance at the same location;
* `skipFamily skip I ms` — the sources after `SkipExportGlyphsIFilter`.
-/
namespace Ufo2ft.C13
open Ufo2ft Ufo2ft.C09

/-- what interpolation leaves alone: name, point types, component bases and 2×2 parts, anchor names.
    Two glyphs with the same `sh` are *alike* (compatible masters whose component matrices differ in the offsets only) -/
structure GShape where
  name : String
  contours : List CShape
  comps : List (String × (Q × Q × Q × Q))
  anchors : List String
  deriving DecidableEq

def ksh (k : Comp) : String × (Q × Q × Q × Q) := (k.base, k.t.linear)

def sh (g : Glyph) : GShape :=
  ⟨g.name, g.contours.map contourShape, g.comps.map ksh, g.anchors.map (fun a => a.name)⟩

/-- glyph `n` of the family at location `t` -/
def glyphAt (I : Inst) (ms : Masters) (n : String) (t : Q) : Option Glyph :=
  match collectMasters I ms n with
  | none => none
  | some pts => interpAt pts t

/-- the family instantiated at `t` -/
def instanceAt (I : Inst) (ms : Masters) (t : Q) : GlyphSet :=
  (allNames ms).filterMap (fun n => (glyphAt I ms n t).map (fun g => (n, g)))

/-- the drawing of glyph `n` at location `t` (fuel given) -/
def renderAtF (fuel : Nat) (I : Inst) (ms : Masters) (t : Q) (n : String) : List Contour :=
  match glyphAt I ms n t with
  | none => []
  | some g => render fuel (instanceAt I ms t) Affine.id g

/-- the drawing of glyph `n` at location `t` -/
def renderAt (I : Inst) (ms : Masters) (t : Q) (n : String) : List Contour :=
  renderAtF ((allNames ms).length + 2) I ms t n

/-- advance of glyph `n` at `t` -/
def advanceAt (I : Inst) (ms : Masters) (t : Q) (n : String) : Option Q := (glyphAt I ms n t).map (·.width)

/-- the sources after `SkipExportGlyphsIFilter` (run by `BaseInterpolatablePreProcessor.__init__` on copies of the source
    layers, the Instantiator still holding the untouched ones); `orders` = iteration order of the Python set of glyph
    names (none given: first-occurrence order) -/
def skipFamily (skip : List String) (I : Inst) (ms : Masters) (orders : List (List String) := []) : Except GErr Masters :=
  match skipI (some I) skip ⟨ms, some ms, [], orders⟩ with
  | .error e => .error e
  | .ok s => .ok s.ms

end Ufo2ft.C13
