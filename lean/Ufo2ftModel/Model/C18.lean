import Ufo2ftModel.Basic
/-!
Model of
* `util.OpenTypeCategories.load`                                  (`loadCategories`)
* `util.quantize`, `BaseFeatureWriter._getAnchor` (static branch: `quantize`, `getAnchor`, and with the anchor handed
  over `caretValue`; variable branch + `collapse_varscalar` for the ligature carets: `varAnchor`, `collapseVar`)
* `GdefFeatureWriter.setContext / _getLigatureCarets / _sortedGlyphClass / _write`
* `CursFeatureWriter._getCursiveAnchorPairs / _makeCursiveFeature / _makeCursiveLookup /
   _getAnchors / _makeCursiveStatements`
* `util.classifyGlyphs`, the GSUB step for one key (`classifyDir`; fontTools' subsetter closure abstracted to a rule list:
  `closeGlyphs`) — used where the harness supplies the rules it wrote (neutral-context stream)
* the part of feaLib's GDEF builder that turns the emitted statements into the compiled table
  (`fontClasses`, `fontCarets`) — assumed, measured by the correspondence run on every case.

Inputs that the code obtains from elsewhere are inputs of the model: the ordered glyph set
(exported glyphs in glyph order, each with the anchors of the UFO glyph), which code points of the
cmap are left-to-right, the set `classifyGlyphs(cmap, gsub)["LTR"]` (cmap classification + GSUB closure)
and the designspace rule substitutions the compiler hands to the writers (`extraSubstitutions`), which the
model applies itself (`applyExtras`).

A writer *instance* may be used for several fonts (`featureWriters=[GdefFeatureWriter()]` over several
compile calls or over every master of `compileInterpolatable*`): `runSeq`.
-/
namespace Ufo2ft.C18

structure Anchor where
  name : Option String        -- UFO anchors may be unnamed
  x : Q
  y : Q
  deriving Repr, DecidableEq

structure GlyphIn where
  name : String
  anchors : List Anchor
  deriving Repr

/-! ### util.quantize / otRoundIgnoringVariable / _getAnchor -/

/-- `factor * otRound(number / factor)` -/
def quantize (x q : Q) : Q := q * ((otRound (x / q) : Int) : Q)

/-- `if hasattr(self.options, "quantization"): x = quantize(x, q)` -/
def quantOpt (quant : Option Q) (x : Q) : Q :=
  match quant with
  | none => x
  | some q => quantize x q

/-- `_getAnchor(glyphName, anchorName)`: the FIRST anchor of the UFO glyph with that name. -/
def getAnchor (quant : Option Q) (anchors : List Anchor) (nm : String) : Option (Q × Q) :=
  match anchors.find? (fun a => a.name == some nm) with
  | none => none
  | some a => some (quantOpt quant a.x, quantOpt quant a.y)

/-! ### OpenTypeCategories.load -/

structure Cats where
  unassigned : List String := []
  base : List String := []
  ligature : List String := []
  mark : List String := []
  component : List String := []
  deriving Repr

/-- Python `set.add` on a list standing for a set -/
def addSet [BEq α] (s : List α) (a : α) : List α := if s.contains a then s else s ++ [a]

def loadStep (c : Cats) (e : String × String) : Cats :=
  if e.2 == "unassigned" then { c with unassigned := addSet c.unassigned e.1 }
  else if e.2 == "base" then { c with base := addSet c.base e.1 }
  else if e.2 == "ligature" then { c with ligature := addSet c.ligature e.1 }
  else if e.2 == "mark" then { c with mark := addSet c.mark e.1 }
  else if e.2 == "component" then { c with component := addSet c.component e.1 }
  else c     -- warning only

/-- `for glyphName, category in openTypeCategories.items(): ...` -/
def loadCategories (items : List (String × String)) : Cats := items.foldl loadStep {}

/-- `any(ctx.openTypeCategories)` over the 5-tuple of frozensets (includes `unassigned`!) -/
def Cats.any (c : Cats) : Bool :=
  !c.unassigned.isEmpty || !c.base.isEmpty || !c.ligature.isEmpty || !c.mark.isEmpty || !c.component.isEmpty

/-! ### GdefFeatureWriter -/

/-- one user `table GDEF { ... }` block: does it contain a GlyphClassDef / a LigatureCaretBy* statement -/
structure UserBlock where
  hasClassDef : Bool
  hasCarets : Bool
  deriving Repr

/-- `setContext`: `ctx.gdefTableBlock = ast.findTable(feaFile, "GDEF")` is the FIRST GDEF block (that is where the
generated statements go; a new block is appended when there is none); when there is one, the statements of ALL
top-level `table GDEF` blocks are scanned: a GlyphClassDef discards "GlyphClassDefs", a LigatureCaretByIndex/ByPos
discards "LigatureCarets".  returns (GlyphClassDefs ∈ todo, LigatureCarets ∈ todo) -/
def gdefTodo (blocks : List UserBlock) : Bool × Bool :=
  match blocks with
  | [] => (true, true)
  | _ :: _ => (!blocks.any (·.hasClassDef), !blocks.any (·.hasCarets))

/-- the same BEFORE the repair of `setContext`: only the statements of the first block were scanned.  Not part of
`run`; kept for the labelled counterexample in `Props` and for classifying a recurrence. -/
def gdefTodoOld (blocks : List UserBlock) : Bool × Bool :=
  match blocks with
  | [] => (true, true)
  | b :: _ => (!b.hasClassDef, !b.hasCarets)

/-- `_sortedGlyphClass`: `sorted(n for n in orderedGlyphSet if n in glyphNames)` -/
def sortedGlyphClass (glyphNames : List String) (s : List String) : List String :=
  sortStr (glyphNames.filter s.contains)

structure ClassDef where
  base : List String
  ligature : List String
  mark : List String
  component : List String
  deriving Repr, DecidableEq

def isCaretName (n : String) : Bool := n.startsWith "caret_"
def isVCaretName (n : String) : Bool := n.startsWith "vcaret_"

/-- the value one anchor of the loop in `_getLigatureCarets` adds to `glyphCarets`, static case:
`self._getAnchor(glyphName, anchor.name, anchor=anchor)[0 or 1]` — with the anchor handed over, `_getAnchor`
takes `anchor.x, anchor.y` of THAT anchor (no lookup by name) and quantises them
(`anchor.x is not None` always holds for the UFO objects the harness builds) -/
def caretValue (quant : Option Q) (a : Anchor) : Option Q :=
  match a.name with
  | none => none
  | some n =>
    if n.isEmpty then none
    else if isCaretName n then some (quantOpt quant a.x)
    else if isVCaretName n then some (quantOpt quant a.y)
    else none

/-- the same step BEFORE the repair of `_getLigatureCarets` (`self._getAnchor(glyphName, anchor.name)`: the anchor
was looked up again by name, which finds the FIRST anchor of that name).  Not part of `run`; kept for the
labelled counterexample in `Props` and for classifying a recurrence. -/
def caretValueOld (quant : Option Q) (g : GlyphIn) (a : Anchor) : Option Q :=
  match a.name with
  | none => none
  | some n =>
    if n.isEmpty then none
    else if isCaretName n then (getAnchor quant g.anchors n).map (·.1)
    else if isVCaretName n then (getAnchor quant g.anchors n).map (·.2)
    else none

def ratLe (a b : Q) : Bool := decide (a ≤ b)
def sortQ (l : List Q) : List Q := l.mergeSort ratLe

/-- `if ...: s.add(v)` -/
def addOpt [BEq α] (s : List α) (o : Option α) : List α :=
  match o with
  | none => s
  | some v => addSet s v

/-- `glyphCarets = set(); ... .add(...)` -/
def glyphCaretSet (quant : Option Q) (g : GlyphIn) : List Q :=
  g.anchors.foldl (fun s a => addOpt s (caretValue quant a)) []

/-- `glyphCarets` of the code before the repair -/
def glyphCaretSetOld (quant : Option Q) (g : GlyphIn) : List Q :=
  g.anchors.foldl (fun s a => addOpt s (caretValueOld quant g a)) []

/-- `[otRound(c) for c in sorted(glyphCarets)]` -/
def glyphCarets (quant : Option Q) (g : GlyphIn) : List Int :=
  (sortQ (glyphCaretSet quant g)).map otRound

/-- `_getLigatureCarets`: dict glyph -> carets, in glyph-set order, only glyphs with a non-empty set -/
def ligatureCarets (quant : Option Q) (glyphs : List GlyphIn) : List (String × List Int) :=
  glyphs.filterMap (fun g =>
    if (glyphCaretSet quant g).isEmpty then none else some (g.name, glyphCarets quant g))

structure GdefOut where
  classDef : Option ClassDef
  carets : Option (List (String × List Int))
  deriving Repr

/-- setContext + _write of the GDEF writer: what is appended to the GDEF block -/
def gdefWrite (quant : Option Q) (glyphs : List GlyphIn) (categories : List (String × String))
    (blocks : List UserBlock) : GdefOut :=
  let todo := gdefTodo blocks
  let names := glyphs.map (·.name)
  let cats := loadCategories categories
  let cd : Option ClassDef :=
    if todo.1 && cats.any then
      some { base := sortedGlyphClass names cats.base, mark := sortedGlyphClass names cats.mark,
             ligature := sortedGlyphClass names cats.ligature, component := sortedGlyphClass names cats.component }
    else none
  let lc := ligatureCarets quant glyphs
  let carets := if todo.2 && !lc.isEmpty then some lc else none
  { classDef := cd, carets := carets }

/-! ### feaLib's GDEF builder on the emitted statements (assumed; measured) -/

/-- GlyphClassDef statement -> compiled class map (1 base, 2 ligature, 3 mark, 4 component) -/
def fontClassOf (cd : ClassDef) (g : String) : Option Nat :=
  if cd.base.contains g then some 1
  else if cd.ligature.contains g then some 2
  else if cd.mark.contains g then some 3
  else if cd.component.contains g then some 4
  else none

def fontClasses (glyphNames : List String) (cd : ClassDef) : List (String × Nat) :=
  glyphNames.filterMap (fun g => (fontClassOf cd g).map (fun c => (g, c)))

/-- a caret list is stored sorted without duplicates -/
def dedupSortedInt : List Int → List Int
  | [] => []
  | [a] => [a]
  | a :: b :: l => if a == b then dedupSortedInt (b :: l) else a :: dedupSortedInt (b :: l)

def fontCarets (lc : List (String × List Int)) : List (String × List Int) :=
  lc.map (fun e => (e.1, dedupSortedInt (sortInt e.2)))

/-! ### CursFeatureWriter -/

/-- Python truthiness of `a.name`: `None` and `""` are falsy -/
def truthyName (a : Anchor) : Option String :=
  match a.name with
  | none => none
  | some n => if n.isEmpty then none else some n

/-- `anchors = set(); anchors.update(a.name for a in glyph.anchors if a.name)` — first-occurrence
order stands for the arbitrary set order (the result is sorted afterwards).  Anchors without a name
take no part (ufo2ft 87dd8ed; before that an unnamed anchor raised AttributeError below). -/
def anchorNameSet (glyphs : List GlyphIn) : List String :=
  (glyphs.flatMap (fun g => g.anchors.filterMap truthyName)).foldl addSet []

def pairLe (a b : String × String) : Bool := strLe a.1 b.1

/-- `exit.{anchor[6:]}` -/
def exitNameOf (entry : String) : String := "exit." ++ (entry.drop 6).toString

/-- `_getCursiveAnchorPairs` -/
def cursivePairs (ns : List String) : List (String × String) :=
  let first := if ns.contains "entry" && ns.contains "exit" then [("entry", "exit")] else []
  let rest := ns.filterMap (fun a =>
    if a.startsWith "entry." && ns.contains (exitNameOf a) then some (a, exitNameOf a) else none)
  (first ++ rest).mergeSort pairLe

inductive Dir | ltr | rtl
  deriving DecidableEq, Repr

structure Rec where
  glyph : String
  entry : Option (Int × Int)
  exit : Option (Int × Int)
  deriving Repr, DecidableEq

structure Lookup where
  rtl : Bool                -- LookupFlag RightToLeft (IgnoreMarks is always set)
  recs : List Rec
  deriving Repr, DecidableEq

def roundXY (p : Q × Q) : Int × Int := (otRound p.1, otRound p.2)

/-- `_getAnchors` -/
def getAnchors (quant : Option Q) (g : GlyphIn) (entryName exitName : String) :
    Option (Int × Int) × Option (Int × Int) :=
  ((getAnchor quant g.anchors entryName).map roundXY, (getAnchor quant g.anchors exitName).map roundXY)

/-- `_makeCursiveStatements` -/
def cursiveStatements (quant : Option Q) (glyphs : List GlyphIn) (entryName exitName : String) : List Rec :=
  glyphs.filterMap (fun g =>
    let p := getAnchors quant g entryName exitName
    if p.1.isSome || p.2.isSome then some { glyph := g.name, entry := p.1, exit := p.2 } else none)

def isLTRName (e : String) : Bool := e.endsWith ".LTR"
def isRTLName (e : String) : Bool := e.endsWith ".RTL"

/-- `_makeCursiveLookup` (lookup names are not modelled: they do not reach the compiled font) -/
def makeCursiveLookup (quant : Option Q) (glyphs : List GlyphIn) (entryName exitName : String)
    (direction : Option Dir) : Option Lookup :=
  let st := cursiveStatements quant glyphs entryName exitName
  if st.isEmpty then none
  else
    let d := if isRTLName entryName then some Dir.rtl
             else if isLTRName entryName then some Dir.ltr else direction
    some { rtl := d != some Dir.ltr, recs := st }

/-- direction data: `anyLtrCp` = some cmap code point has direction LTR; `ltr` = the "LTR" entry of
`glyphSets` in `util.classifyGlyphs` after the cmap classification and the GSUB closure (fontTools'
subsetter: an input); `extras` = `compiler.extraSubstitutions`, the `(left, right)` substitutions of the
designspace rules (`BaseInterpolatableCompiler._pre_compile_designspace`:
`for rule in rules: for left, right in rule.subs: extraSubstitutions[left].add(right)`), empty for a
build that does not start from a designspace. -/
structure DirData where
  anyLtrCp : Bool
  ltr : Option (List String)
  extras : List (String × String) := []
  deriving Repr

def shouldSplit (d : DirData) : Bool := d.anyLtrCp && d.ltr.isSome

/-- `extra_substitutions.get(glyph, set())` -/
def extrasGet (extras : List (String × String)) (g : String) : List String :=
  (extras.filter (fun e => e.1 == g)).map (·.2)

/-- last step of `util.classifyGlyphs`:
`to_append = set(); for glyph in glyphs: to_append |= extra_substitutions.get(glyph, set()); glyphs.update(to_append)`
— one step, not a closure (the loop runs over the set as it was before the update) -/
def applyExtras (extras : List (String × String)) (glyphs : List String) : List String :=
  glyphs ++ glyphs.flatMap (extrasGet extras)

/-- `dirGlyphs["LTR"]` as `CursFeatureWriter._makeCursiveFeature` sees it:
`classifyGlyphs(unicodeScriptDirection, cmap, gsub, extras)["LTR"]` -/
def ltrSet (d : DirData) : List String := applyExtras d.extras (d.ltr.getD [])

/-- body of the loop over anchor pairs in `_makeCursiveFeature` -/
def lookupsForPair (quant : Option Q) (glyphs : List GlyphIn) (d : DirData) (p : String × String) : List Lookup :=
  if !(isLTRName p.1 || isRTLName p.1) && shouldSplit d then
    (makeCursiveLookup quant (glyphs.filter (fun g => (ltrSet d).contains g.name)) p.1 p.2 (some .ltr)).toList ++
    (makeCursiveLookup quant (glyphs.filter (fun g => !(ltrSet d).contains g.name)) p.1 p.2 (some .rtl)).toList
  else
    (makeCursiveLookup quant glyphs p.1 p.2 none).toList

/-- `_makeCursiveFeature`; `todo` = "curs" survived `setContext` (no user `feature curs` without marker) -/
def cursFeature (quant : Option Q) (glyphs : List GlyphIn) (d : DirData) (todo : Bool) : List Lookup :=
  if !todo then []
  else (cursivePairs (anchorNameSet glyphs)).flatMap (lookupsForPair quant glyphs d)

/-! ### `util.classifyGlyphs`: cmap classification closed over GSUB

fontTools' subsetter closure (`closeGlyphsOverGSUB` → `table.closure_glyphs`) is abstracted to a list of rules
"when every glyph of `need` is in the set, the glyphs of `out` join it" — one rule per substitution the harness wrote
(`sub a by b` : need [a]; `sub a period by a_period` : need [a, period]; `sub a' period by a.fina` : need [a, period];
`sub a by b c` : out [b, c]).  That this is what the subsetter computes for these rule shapes is assumed and measured. -/

structure Rule where
  need : List String
  out : List String
  deriving Repr, DecidableEq

def subsetOf (a b : List String) : Bool := a.all (fun g => b.contains g)

/-- one round of the closure: outputs of every rule all of whose needed glyphs are present -/
def closeStep (rules : List Rule) (s : List String) : List String :=
  s ++ (((rules.filter (fun r => subsetOf r.need s)).flatMap (·.out)).filter (fun g => !s.contains g)).eraseDups

/-- `closeGlyphsOverGSUB(gsub, s)`: rounds until nothing changes; `k` rounds here -/
def closeGlyphs (rules : List Rule) : Nat → List String → List String
  | 0, s => s
  | k + 1, s => closeGlyphs rules k (closeStep rules s)

/-- a round that adds a glyph fires a rule that did not fire before, so `rules.length` rounds reach the fixed point
(the driver checks `closedUnder` on the result instead of relying on this) -/
def closeFuel (rules : List Rule) : Nat := rules.length + 1

def closedUnder (rules : List Rule) (s : List String) : Bool :=
  rules.all (fun r => !subsetOf r.need s || subsetOf r.out s)

/-- `classifyGlyphs` for one key: `neutralGlyphs` closed; `s = glyphs | neutralGlyphs` closed;
`glyphs.update(s - neutralGlyphs)`.  Returns (glyphs, closed neutral set). -/
def classifyDir (rules : List Rule) (dir0 neutral0 : List String) : List String × List String :=
  let n := closeGlyphs rules (closeFuel rules) neutral0
  let s := closeGlyphs rules (closeFuel rules) (dir0 ++ n)
  (dir0 ++ s.filter (fun g => !n.contains g && !dir0.contains g), n)

/-! ### the whole observation -/

structure Input where
  glyphs : List GlyphIn
  categories : List (String × String)
  blocks : List UserBlock
  quant : Option Q
  dir : DirData
  cursTodo : Bool

structure Out where
  gdef : GdefOut
  curs : List Lookup

/-- writers run in the order Curs, (Kern, Mark,) Gdef; none of the modelled steps can raise -/
def run (i : Input) : Out :=
  { gdef := gdefWrite i.quant i.glyphs i.categories i.blocks,
    curs := cursFeature i.quant i.glyphs i.dir i.cursTodo }

/-! ### ligature carets of a variable build (`context.isVariable`: `compileVariable*` with variable features)

Here `_getAnchor` ignores the anchor handed over and looks the anchor NAME up in every source of the
designspace (unchanged by the repair of the static case):
`for source in designspace.sources: ... for anchor in glyph.anchors: if anchor.name == anchorName:
 x_value.add_value(location, otRound(anchor.x)); y_value.add_value(...)` — `add_value` is a dict assignment per
location, so of several anchors of that name in one source the LAST one stays; no quantisation.  Then
`collapse_varscalar`: a plain number when all sources agree. -/

/-- one glyph of a designspace build: its anchors in every source, in `designspace.sources` order.
The writer iterates the anchors of the glyph in the compiler's glyph set = that of the default source, `dflt`. -/
structure VarGlyph where
  name : String
  sources : List (List Anchor)
  dflt : Nat
  deriving Repr

/-- the anchor whose coordinates end up in the VariableScalar for one source -/
def lastNamed (al : List Anchor) (nm : String) : Option Anchor :=
  (al.filter (fun a => a.name == some nm)).getLast?

/-- `_getAnchor`, variable branch, before `collapse_varscalar`: per source the rounded coordinates (or nothing,
when the source's glyph has no such anchor); `None` when no source has one -/
def varAnchor (sources : List (List Anchor)) (nm : String) : Option (List (Option (Int × Int))) :=
  let vs := sources.map (fun al => (lastNamed al nm).map (fun a => (otRound a.x, otRound a.y)))
  if vs.any (·.isSome) then some vs else none

/-- a caret of a variable build: a plain number or a VariableScalar (its value in each source, if any) -/
inductive VCaret
  | plain (n : Int)
  | var (vals : List (Option Int))
  deriving Repr, DecidableEq

/-- `collapse_varscalar(v)` (threshold 0): the first value if no other value differs from it -/
def collapseVar (vals : List (Option Int)) : VCaret :=
  match vals.filterMap id with
  | [] => .var vals
  | v :: vs => if vs.all (· == v) then .plain v else .var vals

/-- what one anchor of the default source's glyph adds to `glyphCarets` -/
def caretValueVar (sources : List (List Anchor)) (a : Anchor) : Option VCaret :=
  match a.name with
  | none => none
  | some n =>
    if n.isEmpty then none
    else if isCaretName n then (varAnchor sources n).map (fun vs => collapseVar (vs.map (·.map (·.1))))
    else if isVCaretName n then (varAnchor sources n).map (fun vs => collapseVar (vs.map (·.map (·.2))))
    else none

/-- `glyphCarets.add(c)`: plain numbers are set elements by value, VariableScalar objects by identity -/
def addVar (s : List VCaret) (c : VCaret) : List VCaret :=
  match c with
  | .plain _ => addSet s c
  | .var _ => s ++ [c]

/-- `caretSortKey`: the number itself, or the VariableScalar's first value -/
def caretKey : VCaret → Int
  | .plain n => n
  | .var vals => (vals.filterMap id).headD 0

def keyLe (a b : VCaret) : Bool := decide (caretKey a ≤ caretKey b)

def glyphCaretSetVar (g : VarGlyph) : List VCaret :=
  (g.sources.getD g.dflt []).foldl (fun s a => match caretValueVar g.sources a with
    | none => s
    | some c => addVar s c) []

/-- `sorted(glyphCarets, key=caretSortKey)` (insertion order stands for the set's iteration order; ties are
compared as multisets by the harness) -/
def glyphCaretsVar (g : VarGlyph) : List VCaret := (glyphCaretSetVar g).mergeSort keyLe

/-- the value of a caret at source `k` of `n`: a plain number holds everywhere -/
def VCaret.at (c : VCaret) (k : Nat) : Option Int :=
  match c with
  | .plain v => some v
  | .var vals => (vals[k]?).join

/-! ### writer instances used for several fonts

`BaseFeatureWriter.write(font, feaFile, compiler)` = `setContext` (a fresh `self.context` namespace built
from its arguments) ; `_write` ; `finally: del self.context`.  Between two calls the instance keeps what
`__init__` stored: `features`, `mode`, `options` (here: the quantisation step).  Everything else
(`font`, `feaFile`, `compiler`, `todo`, the loaded categories, the glyph set, the direction data) lives
in `self.context` or in local variables. -/

/-- what the writer instances keep between two `write()` calls -/
structure Writers where
  quant : Option Q
  deriving Repr

/-- one font compiled with the given instances: the instances afterwards, and what was written -/
def writeOne (w : Writers) (i : Input) : Writers × Out := (w, run { i with quant := w.quant })

/-- the same instances over a sequence of fonts (`quant` of the inputs is overridden by the instances') -/
def runSeq (w : Writers) : List Input → List Out
  | [] => []
  | i :: is => let r := writeOne w i; r.2 :: runSeq r.1 is

end Ufo2ft.C18
