import Ufo2ftModel.Basic
import Ufo2ftModel.Model.StdGlyphs
/-!
Model of `Lib/ufo2ft/postProcessor.py`:
`PostProcessor.process_glyph_names` (decision table), `_build_production_names`,
`_build_production_name`, `_unique_name`, `rename_glyphs`, `set_post_table_format`.

Python `str` = `List Char` (sequence of code points).  Python `dict` = association list with unique keys
(`dset` overwrites in place or appends, `alookup` reads).  The `while` loop of `_unique_name` and the
recursion of `_build_production_name` take a fuel argument; `Props/C11.lean` proves the fuel used
sufficient (`|seen| + 1`, resp. `len(name) + 1`).
-/
namespace Ufo2ft.C11

abbrev Name := List Char

/-! ### Python string helpers -/

/-- `s.split(c, 1)`: `none` when `c` does not occur, else (before first `c`, after it). -/
def splitFirst (c : Char) : Name → Option (Name × Name)
  | [] => none
  | x :: xs =>
    if x = c then some ([], xs)
    else match splitFirst c xs with
      | none => none
      | some (a, b) => some (x :: a, b)

/-- `s.rsplit(c, 1)`: `none` when `c` does not occur, else (before last `c`, after it). -/
def splitLast (c : Char) : Name → Option (Name × Name)
  | [] => none
  | x :: xs =>
    match splitLast c xs with
    | some (a, b) => some (x :: a, b)
    | none => if x = c then some ([], xs) else none

/-- `s.split(c)`: all pieces (always at least one). -/
def splitAll (c : Char) : Name → List Name
  | [] => [[]]
  | x :: xs =>
    if x = c then [] :: splitAll c xs
    else match splitAll c xs with
      | [] => [[x]]
      | h :: t => (x :: h) :: t

/-- `sep.join(parts)` -/
def joinWith (sep : Char) : List Name → Name
  | [] => []
  | [p] => p
  | p :: ps => p ++ sep :: joinWith sep ps

def hexChar (d : Nat) : Char :=
  match d with
  | 0 => '0' | 1 => '1' | 2 => '2' | 3 => '3' | 4 => '4' | 5 => '5' | 6 => '6' | 7 => '7'
  | 8 => '8' | 9 => '9' | 10 => 'A' | 11 => 'B' | 12 => 'C' | 13 => 'D' | 14 => 'E' | _ => 'F'

def hexAux : Nat → Nat → Name → Name
  | 0, _, acc => acc
  | f + 1, n, acc => if n < 16 then hexChar n :: acc else hexAux f (n / 16) (hexChar (n % 16) :: acc)

/-- `"%X" % n` -/
def hex (n : Nat) : Name := hexAux (n + 1) n []

/-- `"%04X" % n` -/
def hex4 (n : Nat) : Name := List.replicate (4 - (hex n).length) '0' ++ hex n

/-- `".%d" % n` appended to `name` -/
def suffixed (name : Name) (n : Nat) : Name := name ++ '.' :: Nat.toDigits 10 n

/-! ### dict -/

def dset [BEq κ] (k : κ) (v : ν) : List (κ × ν) → List (κ × ν)
  | [] => [(k, v)]
  | (k', v') :: d => if k' == k then (k', v) :: d else (k', v') :: dset k v d

def keys (d : List (κ × ν)) : List κ := d.map (·.1)

/-! ### GLYPH_NAME_INVALID_CHARS, MAX_GLYPH_NAME_LENGTH -/

/-- the characters matched by `re.compile("[^0-9a-zA-Z_.]")` -/
def invalidChar (c : Char) : Bool :=
  let n := c.toNat
  !((48 ≤ n && n ≤ 57) || (97 ≤ n && n ≤ 122) || (65 ≤ n && n ≤ 90) || n == 95 || n == 46)

/-- `GLYPH_NAME_INVALID_CHARS.sub("", name)` -/
def sanitize (n : Name) : Name := n.filter (fun c => !invalidChar c)

def maxLen : Nat := 63

/-! ### _unique_name -/

abbrev Seen := List (Name × Nat)

/-- `while (name + ".%d" % n) in seen: n += 1` with an explicit iteration budget. -/
def findFree (seen : Seen) (name : Name) : Nat → Nat → Nat
  | 0, n => n
  | f + 1, n => if (alookup (suffixed name n) seen).isSome then findFree seen name f (n + 1) else n

/-- `_unique_name(name, seen)`: returns the name and the updated `seen`. -/
def uniqueName (name : Name) (seen : Seen) : Name × Seen :=
  match alookup name seen with
  | some n0 =>
    let n := findFree seen name (seen.length + 1) n0
    let seen1 := dset name (n + 1) seen
    let name' := suffixed name n
    (name', dset name' 1 seen1)
  | none => (name, dset name 1 seen)

/-! ### _build_production_name -/

/-- the glyph set as the post-processor sees it: name ↦ `glyph.unicode` (first code point or None) -/
abbrev GlyphSet := List (Name × Option Nat)

def inGs (gs : GlyphSet) (n : Name) : Bool := (alookup n gs).isSome

/-- `self.glyphSet[n].unicode` -/
def unicodeOf (gs : GlyphSet) (n : Name) : Option Nat := (alookup n gs).join

/-- `"{}{:04X}".format("u" if v > 0xFFFF else "uni", v)` -/
def uniName (v : Nat) : Name := (if v > 0xFFFF then ['u'] else ['u', 'n', 'i']) ++ hex4 v

/-- `v and v <= 0xFFFF` -/
def bmpNonzero : Option Nat → Bool
  | some v => v != 0 && v ≤ 0xFFFF
  | none => false

/-- the ligature parts: `[n + "." + suffix for n in stem.split("_")]` or `name.split("_")` -/
def ligaParts (name : Name) : List Name :=
  match splitFirst '.' name with
  | some (stem, suf) => (splitAll '_' stem).map (fun n => n ++ '.' :: suf)
  | none => splitAll '_' name

/-- the part of `_build_production_name` below the `public.postscriptNames` test; `fuel` bounds the
    recursion depth (every recursive call is on a strictly shorter name). -/
def prodName (gs : GlyphSet) : Nat → Name → Name
  | 0, name => name
  | f + 1, name =>
    match unicodeOf gs name with
    | some v => uniName v
    | none =>
      let viaBase : Option Name :=
        match splitLast '.' name with
        | some (base, suf) => if inGs gs base then some (prodName gs f base ++ '.' :: suf) else none
        | none => none
      match viaBase with
      | some r => r
      | none =>
        let parts := ligaParts name
        if parts.length > 1 && parts.all (inGs gs) then
          let vals := parts.map (unicodeOf gs)
          if vals.all bmpNonzero then
            ['u', 'n', 'i'] ++ (vals.map (fun v => hex4 (v.getD 0))).flatten
          else
            joinWith '_' (parts.map (prodName gs f))
        else name

structure Input where
  /-- `otf.getGlyphOrder()` when the post-processor starts -/
  order : List Name
  glyphSet : GlyphSet
  /-- `ufo.lib.get("public.postscriptNames")` -/
  psNames : Option (List (Name × Name))

/-- `_build_production_name(self.glyphSet[name])` -/
def buildProductionName (i : Input) (name : Name) : Name :=
  let viaMap : Option Name :=
    match i.psNames with
    | some m =>
      if !m.isEmpty then                       -- `if self._postscriptNames:`
        match alookup name m with
        | some p => if p.isEmpty then some name else some p   -- `production_name if production_name else glyph.name`
        | none => some name
      else none
    | none => none
  match viaMap with
  | some r => r
  | none => prodName i.glyphSet (name.length + 1) name

/-- the candidate handed to `_unique_name` for one glyph -/
def validName (i : Input) (name : Name) : Name :=
  let prod := buildProductionName i name
  if name != prod then
    let v := sanitize prod
    if v.length > maxLen then sanitize name else v
  else sanitize name

def notdef : Name := ['.', 'n', 'o', 't', 'd', 'e', 'f']

/-- the glyphs `_build_production_names` gives a new name: the negation of
    `name not in self.glyphSet or name == ".notdef"` (glyphs without source information keep their name, and
    so does '.notdef': the first glyph of a CFF charset has to be called '.notdef') -/
def renames (i : Input) (name : Name) : Bool := inGs i.glyphSet name && name != notdef

/-- `_build_production_names`: the loop over the glyph order with its two dicts. -/
def buildLoop (i : Input) : List Name → Seen → List (Name × Name) → List (Name × Name)
  | [], _, rm => rm
  | name :: rest, seen, rm =>
    if !renames i name then buildLoop i rest seen rm
    else
      let r := uniqueName (validName i name) seen
      buildLoop i rest r.2 (dset name r.1 rm)

/-- `seen = {name: 1 for name in otf.getGlyphOrder() if name not in self.glyphSet or name == ".notdef"}`:
    the names of the glyphs that keep their name are reserved up front. -/
def seenInit (i : Input) : Seen :=
  (i.order.filter (fun n => !renames i n)).foldl (fun d n => dset n 1 d) []

def buildProductionNames (i : Input) : List (Name × Name) := buildLoop i i.order (seenInit i) []

/-! #### earlier versions of the function, kept ONLY for the labelled counterexamples in `Props/C11.lean` -/

/-- the loop as it was before '.notdef' was exempted: every glyph of the glyph set is renamed -/
def buildLoopOld (i : Input) : List Name → Seen → List (Name × Name) → List (Name × Name)
  | [], _, rm => rm
  | name :: rest, seen, rm =>
    if !inGs i.glyphSet name then buildLoopOld i rest seen rm
    else
      let r := uniqueName (validName i name) seen
      buildLoopOld i rest r.2 (dset name r.1 rm)

/-- `_build_production_names` as it was before the names of unsourced glyphs were reserved
    (`seen = {}`); kept only for the counterexample `C11_old_collision`. -/
def buildProductionNamesOld (i : Input) : List (Name × Name) := buildLoopOld i i.order [] []

/-- `_build_production_names` with the reservation but before '.notdef' was exempted; kept only for the
    counterexample `C11_old_notdef_renamed`. -/
def buildProductionNamesOldNotdef (i : Input) : List (Name × Name) :=
  buildLoopOld i i.order ((i.order.filter (fun n => !inGs i.glyphSet n)).foldl (fun d n => dset n 1 d) []) []

/-! ### rename_glyphs -/

/-- `rename_map.get(n, n)` -/
def applyMap (rm : List (Name × Name)) (n : Name) : Name := (alookup n rm).getD n

/-- the glyph order after `_rename_glyphs_from_ufo` -/
def finalOrder (i : Input) : List Name := i.order.map (applyMap (buildProductionNames i))

def finalOrderOld (i : Input) : List Name := i.order.map (applyMap (buildProductionNamesOld i))

def finalOrderOldNotdef (i : Input) : List Name := i.order.map (applyMap (buildProductionNamesOldNotdef i))

def isStandard (n : Name) : Bool := standardGlyphOrder.contains (String.ofList n)

/-- `[g for g in order if g not in standardGlyphOrder]` -/
def extraNames (order : List Name) : List Name := order.filter (fun g => !isStandard g)

structure Renamed where
  order : List Name
  /-- `post.extraNames` when the font has a format-2 'post' table -/
  extraNames : List Name
  /-- keys of `CharStrings.charStrings` and `cff.charset` (CFF fonts) -/
  charStrings : List (Name × Nat)
  charset : List Name
  deriving Repr

/-- `rename_glyphs(otf, rename_map)`; a charstring is represented by its index in the old dict.
    The dict comprehension `{rename_map.get(n, n): v for n, v in cs.items()}` is a sequence of
    assignments (later ones overwrite). -/
def renameGlyphs (rm : List (Name × Name)) (order : List Name) (charStrings : List (Name × Nat))
    (charset : List Name) : Renamed :=
  let newOrder := order.map (applyMap rm)
  { order := newOrder
    extraNames := extraNames newOrder
    charStrings := charStrings.foldl (fun d e => dset (applyMap rm e.1) e.2 d) []
    charset := charset.map (applyMap rm) }

/-! ### process_glyph_names: decision -/

structure Switches where
  /-- the `useProductionNames` argument -/
  arg : Option Bool
  /-- lib `com.github.googlei18n.ufo2ft.useProductionNames` -/
  libUse : Option Bool
  /-- lib `com.schriftgestaltung.Don't use Production Names` -/
  libDont : Option Bool
  /-- lib `com.github.googlei18n.ufo2ft.keepGlyphNames` -/
  libKeep : Option Bool
  /-- `public.postscriptNames` present (`is not None`) -/
  hasPs : Bool
  /-- the font has a 'CFF ' table -/
  cff1 : Bool
  deriving DecidableEq, Repr

inductive PostAction | set2 | set3 | leave
  deriving DecidableEq, Repr

structure Decision where
  rename : Bool
  post : PostAction
  deriving DecidableEq, Repr

/-- `bool(x)` of `lib.get(key)` -/
def truthy : Option Bool → Bool
  | some b => b
  | none => false

def decide' (s : Switches) : Decision :=
  let (keep, use) : Bool × Bool :=
    match s.arg with
    | none =>
      (s.libKeep.getD true,
       match s.libUse with
       | some b => b
       | none => !truthy s.libDont && s.hasPs)
    | some b => (true, b)
  if keep then
    { rename := use, post := if !s.cff1 then .set2 else .leave }
  else
    if s.cff1 then { rename := false, post := .leave }
    else { rename := false, post := .set3 }

/-- what `process_glyph_names` leaves behind -/
structure Output where
  order : List Name
  /-- `post.formatType * 10` after the call, given the one before -/
  postFormat : Nat
  /-- `post.extraNames` (format 2 only) -/
  extraNames : Option (List Name)
  deriving Repr

/-- the normal path of `process_glyph_names`; `postBefore` = `post.formatType * 10` produced by the
    outline compiler. -/
def processOk (s : Switches) (i : Input) (postBefore : Nat) : Output :=
  let d := decide' s
  let order := if d.rename then i.order.map (applyMap (buildProductionNames i)) else i.order
  let fmt := match d.post with | .set2 => 20 | .set3 => 30 | .leave => postBefore
  { order := order, postFormat := fmt, extraNames := if fmt == 20 then some (extraNames order) else none }

inductive Err | unicodeEncode
  deriving DecidableEq, Repr

/-- fontTools writes glyph names (format-2 'post', CFF charset) as Latin-1 -/
def latin1Name (n : Name) : Bool := n.all (fun c => c.toNat < 256)

/-- `process_glyph_names`.  Renaming starts with `_reloadFont`, which serialises the font with its
    SOURCE names: a name outside Latin-1 makes fontTools raise `UnicodeEncodeError` there.  (The
    names-dropped path reloads with a format-3 'post' table, which stores no names.) -/
def processGlyphNames (s : Switches) (i : Input) (postBefore : Nat) : Except Err Output :=
  if (decide' s).rename && !i.order.all latin1Name then .error .unicodeEncode
  else .ok (processOk s i postBefore)

end Ufo2ft.C11
