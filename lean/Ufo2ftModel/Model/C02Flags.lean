import Ufo2ftModel.Model.C02
/-!
Model of the glyf FLAG post-processing of `Lib/ufo2ft/instructionCompiler.py`, run by
`OutlineTTFCompiler.setupTable_glyf` on every compiled glyph after the pen has built it
(`InstructionCompiler.compileGlyphInstructions`):

* `_set_simple_flags`     OVERLAP_SIMPLE (0x40) on the FIRST point's flag byte, from the glyph lib key `public.truetype.overlap`;
* `_set_composite_flags`  OVERLAP_COMPOUND (0x400) on the first component, ROUND_XY_TO_GRID (0x4) / USE_MY_METRICS (0x200) per
                          component from `public.objectLibs[identifier]`, with the fall-back to `autoUseMyMetrics`;
* `autoUseMyMetrics`      USE_MY_METRICS on the first untransformed, horizontally unshifted component of the glyph's own advance.

Flag bytes / words are `Nat`; Python's `x |= m` is `x ||| m`, `x &= ~m` is `clearBits x m = x ^^^ (x &&& m)` (no width assumed).
The hmtx advances are an input (`hmtx` is built elsewhere).
-/
namespace Ufo2ft.C02.Flags
open Ufo2ft Ufo2ft.C02

/-- fontTools.ttLib.tables._g_l_y_f: flagOnCurve, flagOverlapSimple, flagCubic -/
def flagOnCurve : Nat := 2 ^ 0
def flagOverlapSimple : Nat := 2 ^ 6
def flagCubic : Nat := 2 ^ 7
/-- component flags -/
def ROUND_XY_TO_GRID : Nat := 2 ^ 2
def USE_MY_METRICS : Nat := 2 ^ 9
def OVERLAP_COMPOUND : Nat := 2 ^ 10

/-- `x &= ~m` on Python ints (x ≥ 0): the bits of `m` are cleared, nothing else changes -/
def clearBits (x m : Nat) : Nat := x ^^^ (x &&& m)
/-- `x |= m` -/
def setBits (x m : Nat) : Nat := x ||| m
/-- `if v: x |= m else: x &= ~m` -/
def putBits (v : Bool) (x m : Nat) : Nat := if v then setBits x m else clearBits x m

/-- what `_set_simple_flags` sees of a simple TrueType glyph: `numberOfContours`, the coordinates and contour ends (never
    written) and the flag bytes, one per point -/
structure SimpleTT where
  numberOfContours : Int
  coords : List (Int × Int)
  endPts : List Nat
  flags : List Nat
  deriving DecidableEq, Repr

/-- `_set_simple_flags(glyph, ttglyph)`; `lib` = `glyph.lib.get("public.truetype.overlap")` (none: key absent; the value is
    taken by truthiness).  No contours or no flags: nothing is touched. -/
def setSimpleFlags (lib : Option Bool) (g : SimpleTT) : SimpleTT :=
  if g.numberOfContours < 1 || g.flags.isEmpty then g
  else match lib, g.flags with
    | some v, f :: rest => { g with flags := putBits v f flagOverlapSimple :: rest }
    | _, _ => g

/-- the seeded slip: `flags[0] & flag` instead of `flags[0] & ~flag` when the key is False (for the negative witness) -/
def setSimpleFlagsSlip (lib : Option Bool) (g : SimpleTT) : SimpleTT :=
  if g.numberOfContours < 1 || g.flags.isEmpty then g
  else match lib, g.flags with
    | some true, f :: rest => { g with flags := setBits f flagOverlapSimple :: rest }
    | some false, f :: rest => { g with flags := (f &&& flagOverlapSimple) :: rest }
    | _, _ => g

/-- a compiled component record with its flag word (TTGlyphPointPen sets 0x4 = ROUND_XY_TO_GRID) -/
structure CompTT where
  base : String
  dx : Int
  dy : Int
  lin : Q × Q × Q × Q
  flags : Nat
  deriving DecidableEq, Repr

/-- `public.objectLibs[identifier]` as far as it is read: the two keys, each absent or a value -/
structure ObjLib where
  round : Option Bool
  metrics : Option Bool
  deriving DecidableEq, Repr

/-- what is read of the UFO glyph: the overlap key, the components' identifiers, the objectLibs dict (none: key absent) -/
structure UfoFlags where
  overlap : Option Bool
  ids : List (Option String)
  objLibs : Option (List (String × ObjLib))
  deriving Repr

/-- `autoUseMyMetrics(ttGlyph, glyphName)`: `width` = hmtx[glyphName][0]; `adv base` = hmtx[base][0] (none: KeyError, skipped).
    The first component with the same advance, no transform and no horizontal shift gets USE_MY_METRICS; the loop stops there. -/
def autoUseMyMetrics (adv : String → Option Int) (width : Int) : List CompTT → List CompTT
  | [] => []
  | c :: rest =>
    if adv c.base == some width && c.lin == ((1 : Q), (0 : Q), (0 : Q), (1 : Q)) && c.dx == 0 then
      { c with flags := setBits c.flags USE_MY_METRICS } :: rest
    else c :: autoUseMyMetrics adv width rest

/-- the entry of `public.objectLibs` that the loop body acts on: present only if the objectLibs key is there, the identifier
    is in it and the entry has at least one of the two keys -/
def compLib (u : UfoFlags) (id : String) : Option ObjLib :=
  match u.objLibs with
  | none => none
  | some d => match alookup id d with
    | none => none
    | some e => if e.round.isSome || e.metrics.isSome then some e else none

/-- loop state of `_set_composite_flags`: `use_my_metrics_comp is not None`, `lib_contains_use_my_metrics_key` -/
structure LoopSt where
  used : Bool
  contains : Bool
  deriving DecidableEq, Repr

/-- "Set OVERLAP_COMPOUND on the first component only": `if i == 0 and KEY in glyph.lib: ...` -/
def ovlStep (u : UfoFlags) (first : Bool) (f : Nat) : Nat :=
  match first, u.overlap with
  | true, some v => putBits v f OVERLAP_COMPOUND
  | _, _ => f

/-- one pass of the loop body on component `i` (`first` = `i == 0`) -/
def stepComp (u : UfoFlags) (first : Bool) (st : LoopSt) (c : CompTT) (id : Option String) : CompTT × LoopSt :=
  let f0 := ovlStep u first c.flags
  match id with
  | none => ({ c with flags := f0 }, st)           -- `continue`: no identifier, flags left alone
  | some i =>
    match compLib u i with
    | none => ({ c with flags := f0 }, st)
    | some e =>
      let f1 := if !(e.round.getD true) then clearBits f0 ROUND_XY_TO_GRID else f0
      let (f2, used) :=
        if e.metrics.getD false then
          (if !st.used then (setBits f1 USE_MY_METRICS, true) else (clearBits f1 USE_MY_METRICS, true))
        else (clearBits f1 USE_MY_METRICS, st.used)
      ({ c with flags := f2 }, { used := used, contains := st.contains || e.metrics.isSome })

def loopComps (u : UfoFlags) : Bool → LoopSt → List CompTT → List (Option String) → List CompTT × LoopSt
  | first, st, c :: cs, id :: ids =>
    let (c', st') := stepComp u first st c id
    let (r, st'') := loopComps u false st' cs ids
    (c' :: r, st'')
  | _, st, cs, _ => (cs, st)

/-- `_set_composite_flags(glyph, ttglyph)`; `auto` = the compiler's `autoUseMyMetrics` option (False: the method is a no-op) -/
def setCompositeFlags (auto : Bool) (adv : String → Option Int) (width : Int) (u : UfoFlags) (cs : List CompTT) : List CompTT :=
  let au := fun l => if auto then autoUseMyMetrics adv width l else l
  if cs.length != u.ids.length then au cs
  else
    let (r, st) := loopComps u true { used := false, contains := false } cs u.ids
    if !st.contains then au r else r

/-- the pen's output for a modelled glyph, as the post-processing sees it (quadratic glyphs: flag byte = on-curve bit) -/
def penSimple (cs : List (List TTPoint)) : SimpleTT :=
  let pts := cs.flatten
  { numberOfContours := cs.length
    coords := pts.map (fun p => (p.x, p.y))
    endPts := (cs.foldl (fun (acc : List Nat × Nat) c => (acc.1 ++ [acc.2 + c.length - 1], acc.2 + c.length)) ([], 0)).1
    flags := pts.map (fun p => if p.on then flagOnCurve else 0) }

def penComps (ks : List TTComp) : List CompTT := ks.map (fun k => ⟨k.base, k.dx, k.dy, k.lin, ROUND_XY_TO_GRID⟩)

end Ufo2ft.C02.Flags
