import Ufo2ftModel.Model.C01
import Ufo2ftModel.Model.C12
/-!
The Type 2 charstring layer that ufo2ft drives with `optimizeCFF = 0` (unspecialised charstrings).

* `penP`, `penFrom`, `penCmds` – `fontTools.pens.t2CharStringPen.T2CharStringPen`: `_p` (keeps the last ROUNDED absolute point
                                 `_p0`, rounds the incoming ABSOLUTE point with `roundFunc(tolerance)`, returns the difference
                                 of the two rounded points), `_moveTo`, `_lineTo`, `_curveToOne`, `_closePath` (emits nothing)
* `encode`                    – `getCharString(optimize=False)`'s command list: `endchar` appended for CFF 1, nothing for CFF 2
* `program`                   – `fontTools.cffLib.specializer.commandsToProgram` (operands, then the operator)
* `charString1`               – `T2CharStringPen.getCharString`: the width operand `otRound(self._width)` inserted in front
                                 (`OutlineOTFCompiler.getCharStringForGlyph` decides whether there is one: `C12.encodeWidth`)
* `toCFF2`, `charString2`     – `fontTools.cffLib.CFFToCFF2._convertCFFToCFF2`'s charstring clean-up, which is how ufo2ft's
                                 `PostProcessor.process_cff` makes a CFF2 table when nothing is subroutinised: the width operand
                                 (if the width extractor found one) and a trailing `endchar` are popped
* `decodeFrom`, `decode`      – `fontTools.misc.psCharStrings.T2OutlineExtractor` on commands: running sums (`_nextPoint`),
                                 an rmoveto closes the open sub-path first (`endPath`), a drawing operator without a moveto
                                 starts one at the current point, `endchar` / the end of the program closes the last one
* `execFrom`, `exec`          – the same interpreter on the raw token list: operand stack, `popall`, `popallWidth` (the width
                                 is there iff the operand count of the first stack-clearing operator is odd)
* `rawOps`, `cffCmds`,
  `cffProgram`                – the unrounded commands `glyph.draw(pen)` sends to the pen (`contoursOps` without the rounding)
                                 and the charstring `getCharStringForGlyph` + `process_cff` leave in the font
* `naivePen`                  – NOT ufo2ft: the plausible wrong pen that rounds the DELTAS of unrounded points (contrast witness)

Numbers are exact rationals (the doubles of the implementation are exact on the dyadic grids the harness generates).
-/
namespace Ufo2ft.C01
open Ufo2ft

/-- generic (unspecialised) Type 2 commands, relative operands -/
inductive T2Cmd
  | rmoveto (dx dy : Q)
  | rlineto (dx dy : Q)
  | rrcurveto (dxa dya dxb dyb dxc dyc : Q)
  | endchar
  deriving DecidableEq, Repr

/-- `T2CharStringPen._p`: `p0` is the last ROUNDED absolute point; result = (delta of rounded points, new `_p0`) -/
def penP (tol : Q) (p0 pt : P) : P × P :=
  let r := roundP tol pt
  ((r.1 - p0.1, r.2 - p0.2), r)

/-- the pen's `_commands` for a stream of BasePen calls, `_p0` threaded through -/
def penFrom (tol : Q) : P → List Op → List T2Cmd
  | _, [] => []
  | p0, .moveTo p :: l =>
    let d := penP tol p0 p
    .rmoveto d.1.1 d.1.2 :: penFrom tol d.2 l
  | p0, .lineTo p :: l =>
    let d := penP tol p0 p
    .rlineto d.1.1 d.1.2 :: penFrom tol d.2 l
  | p0, .curveTo a b c :: l =>
    let d1 := penP tol p0 a
    let d2 := penP tol d1.2 b
    let d3 := penP tol d2.2 c
    .rrcurveto d1.1.1 d1.1.2 d2.1.1 d2.1.2 d3.1.1 d3.1.2 :: penFrom tol d3.2 l
  | p0, .closePath :: l => penFrom tol p0 l      -- `_closePath`: pass

/-- `T2CharStringPen.__init__`: `_p0 = (0, 0)` -/
def penCmds (tol : Q) (ops : List Op) : List T2Cmd := penFrom tol (0, 0) ops

/-- the command list of the charstring: `endchar` for CFF 1, nothing for CFF 2 -/
def encode (ver : C12.Ver) (tol : Q) (ops : List Op) : List T2Cmd :=
  penCmds tol ops ++ (match ver with | .v1 => [.endchar] | .v2 => [])

/-! ### the interpreter on commands -/

/-- `T2OutlineExtractor`: `cur` = currentPoint, `saw` = sawMoveTo -/
def decodeFrom : P → Bool → List T2Cmd → List Op
  | _, saw, [] => if saw then [.closePath] else []                      -- execute(): endPath() at subrLevel 0
  | cur, saw, .rmoveto dx dy :: l =>                                      -- op_rmoveto: endPath(); rMoveTo
    let p : P := (cur.1 + dx, cur.2 + dy)
    (if saw then [.closePath] else []) ++ .moveTo p :: decodeFrom p true l
  | cur, saw, .rlineto dx dy :: l =>                                      -- rLineTo: `if not sawMoveTo: rMoveTo((0, 0))`
    let p : P := (cur.1 + dx, cur.2 + dy)
    (if saw then [] else [.moveTo cur]) ++ .lineTo p :: decodeFrom p true l
  | cur, saw, .rrcurveto a b c d e f :: l =>                              -- rCurveTo: three `_nextPoint`s
    let p1 : P := (cur.1 + a, cur.2 + b)
    let p2 : P := (p1.1 + c, p1.2 + d)
    let p3 : P := (p2.1 + e, p2.2 + f)
    (if saw then [] else [.moveTo cur]) ++ .curveTo p1 p2 p3 :: decodeFrom p3 true l
  | cur, saw, .endchar :: l =>                                            -- op_endchar: endPath()
    (if saw then [.closePath] else []) ++ decodeFrom cur false l

def decode (c : List T2Cmd) : List Op := decodeFrom (0, 0) false c

/-! ### the raw program -/

inductive T2Op | rmoveto | rlineto | rrcurveto | endchar
  deriving DecidableEq, Repr

inductive Tok
  | num (v : Q)
  | op (o : T2Op)
  deriving DecidableEq, Repr

def cmdToks : T2Cmd → List Tok
  | .rmoveto a b => [.num a, .num b, .op .rmoveto]
  | .rlineto a b => [.num a, .num b, .op .rlineto]
  | .rrcurveto a b c d e f => [.num a, .num b, .num c, .num d, .num e, .num f, .op .rrcurveto]
  | .endchar => [.op .endchar]

/-- `commandsToProgram` -/
def program (c : List T2Cmd) : List Tok := c.flatMap cmdToks

/-- `T2CharStringPen.getCharString(optimize=False)` for CFF 1: `program.insert(0, otRound(width))`, `program.append("endchar")` -/
def charString1 (w : Option Int) (tol : Q) (ops : List Op) : List Tok :=
  (match w with | some w => [.num (w : Q)] | none => []) ++ program (encode .v1 tol ops)

/-- interpreter state: operand stack (bottom first), `gotWidth`, the width operand found, currentPoint, sawMoveTo, pen calls -/
structure XState where
  stack : List Q := []
  gotWidth : Bool := false
  width : Option Q := none
  cur : P := (0, 0)
  saw : Bool := false
  out : List Op := []
  deriving DecidableEq, Repr

/-- `T2WidthExtractor.popallWidth()`: (remaining arguments, state with the stack cleared) -/
def popallWidth (s : XState) : List Q × XState :=
  if s.gotWidth then (s.stack, { s with stack := [] })
  else if s.stack.length % 2 = 1 then (s.stack.tail, { s with stack := [], gotWidth := true, width := s.stack.head? })
  else (s.stack, { s with stack := [], gotWidth := true })

def endPath (s : XState) : XState := if s.saw then { s with out := s.out ++ [.closePath], saw := false } else s

/-- `rLineTo` for each pair of `args` (`for i in range(0, len(args), 2)`); an odd tail is an IndexError -/
def lineArgs (s : XState) : List Q → Option XState
  | [] => some s
  | dx :: dy :: rest =>
    let p : P := (s.cur.1 + dx, s.cur.2 + dy)
    lineArgs { s with cur := p, saw := true, out := s.out ++ (if s.saw then [] else [.moveTo s.cur]) ++ [.lineTo p] } rest
  | [_] => none

/-- `rCurveTo` for each six of `args`; a short tail is a ValueError (unpacking) -/
def curveArgs (s : XState) : List Q → Option XState
  | [] => some s
  | a :: b :: c :: d :: e :: f :: rest =>
    let p1 : P := (s.cur.1 + a, s.cur.2 + b)
    let p2 : P := (p1.1 + c, p1.2 + d)
    let p3 : P := (p2.1 + e, p2.2 + f)
    curveArgs { s with cur := p3, saw := true, out := s.out ++ (if s.saw then [] else [.moveTo s.cur]) ++ [.curveTo p1 p2 p3] } rest
  | _ => none

/-- one operator of `T2OutlineExtractor` (`none` = the interpreter raises) -/
def step (s : XState) : T2Op → Option XState
  | .rmoveto =>
    let (args, s1) := popallWidth (endPath s)
    match args with
    | dx :: dy :: _ =>      -- `_nextPoint` reads point[0], point[1]
      let p : P := (s1.cur.1 + dx, s1.cur.2 + dy)
      some { s1 with cur := p, saw := true, out := s1.out ++ [.moveTo p] }
    | _ => none
  | .rlineto => lineArgs { s with stack := [] } s.stack
  | .rrcurveto => curveArgs { s with stack := [] } s.stack
  | .endchar =>
    let (args, s1) := popallWidth (endPath s)
    if args.isEmpty then some s1 else none      -- arguments = seac, not modelled

def execFrom (s : XState) : List Tok → Option XState
  | [] => some (endPath s)                       -- execute(): endPath() at the end
  | .num v :: l => execFrom { s with stack := s.stack ++ [v] } l
  | .op o :: l => match step s o with
    | some s1 => execFrom s1 l
    | none => none

/-- what a pen receives from the charstring, and the width operand (`none`: the default width applies) -/
def exec (t : List Tok) : Option (List Op × Option Q) := (execFrom {} t).map (fun s => (s.out, s.width))

/-- `_convertCFFToCFF2`, "Clean up glyph charstrings": the width extractor runs over the program; if it found a width operand
    the first token is popped, then a trailing `endchar` is popped (no subroutines here: optimizeCFF = 0) -/
def toCFF2 (t : List Tok) : Option (List Tok) :=
  match exec t with
  | none => none
  | some r =>
    let t1 := if r.2.isSome then t.tail else t
    some (if t1.getLast? = some (.op .endchar) then t1.dropLast else t1)

/-- the CFF2 charstring: the pen's commands only -/
def charString2 (tol : Q) (ops : List Op) : List Tok := program (encode .v2 tol ops)

/-! ### from the glyph to the charstring -/

/-- the calls `glyph.draw(pen)` makes, before the pen rounds anything -/
def rawOps : List Contour → Except Err (List Op)
  | [] => .ok []
  | c :: cs => match toSegments c, rawOps cs with
    | .ok a, .ok b => .ok (a ++ b)
    | .error e, _ => .error e
    | _, .error e => .error e

/-- `getCharStringForGlyph` (+ `process_cff` for CFF2) for glyph `name` of the pre-processed glyph set;
    `d`, `n` = defaultWidthX, nominalWidthX -/
def cffProgram (ver : C12.Ver) (tol : Q) (d n : Int) (pre : GlyphSet) (name : String) : Except Err (List Tok) :=
  match pre.get? name with
  | none => .error (.geom (.missing name))
  | some g => match rawOps g.contours with
    | .error e => .error e
    | .ok ops => match ver with
      | .v1 => .ok (charString1 (C12.encodeWidth g.width d n) tol ops)
      | .v2 => .ok (charString2 tol ops)

/-! ### the contrast: a pen that rounds deltas (NOT what fontTools does) -/

/-- deltas of the UNROUNDED points, each delta rounded: rounding errors add up -/
def naivePen (tol : Q) : P → List Op → List T2Cmd
  | _, [] => []
  | p0, .moveTo p :: l => .rmoveto (roundCoord tol (p.1 - p0.1)) (roundCoord tol (p.2 - p0.2)) :: naivePen tol p l
  | p0, .lineTo p :: l => .rlineto (roundCoord tol (p.1 - p0.1)) (roundCoord tol (p.2 - p0.2)) :: naivePen tol p l
  | p0, .curveTo a b c :: l =>
    .rrcurveto (roundCoord tol (a.1 - p0.1)) (roundCoord tol (a.2 - p0.2)) (roundCoord tol (b.1 - a.1)) (roundCoord tol (b.2 - a.2))
      (roundCoord tol (c.1 - b.1)) (roundCoord tol (c.2 - b.2)) :: naivePen tol c l
  | p0, .closePath :: l => naivePen tol p0 l

/-! ### shapes -/

/-- a well-formed outline: every contour is a moveTo, drawing commands, a closePath (`b` = inside a contour) -/
def wfFrom : Bool → List Op → Bool
  | b, [] => !b
  | false, .moveTo _ :: l => wfFrom true l
  | true, .lineTo _ :: l => wfFrom true l
  | true, .curveTo _ _ _ :: l => wfFrom true l
  | true, .closePath :: l => wfFrom false l
  | _, _ => false

def wfOutline (ops : List Op) : Bool := wfFrom false ops

/-- all coordinates of a command list, in order -/
def opCoords : Op → List Q
  | .moveTo p => [p.1, p.2]
  | .lineTo p => [p.1, p.2]
  | .curveTo a b c => [a.1, a.2, b.1, b.2, c.1, c.2]
  | .closePath => []

def coords (ops : List Op) : List Q := ops.flatMap opCoords

/-- the bound of ONE rounding -/
def roundBound (tol : Q) : Q := if tol ≥ 1/2 then 1/2 else tol

def tokNums : List Tok → List Q
  | [] => []
  | .num v :: l => v :: tokNums l
  | .op _ :: l => tokNums l

end Ufo2ft.C01
