import Ufo2ftModel.Basic
/-!
Model of the ufo2ft glyph-filter framework and the shipped filters (property C14).

Mirrors
* `filters/base.py`   `BaseFilter.__init__` (include/exclude), `set_context`, `__call__`
* `util.py`           `getMaxComponentDepth` (DFS with a visited set shared by siblings), `decomposeCompositeGlyph`
* fontTools           `Transform`, `DecomposingFilterPointPen` (+ `DecomposingPointPen`, `TransformPointPen`,
                      `ReverseContourPointPen`) -- as pure functions on point lists
* `filters/decomposeComponents.py`, `decomposeTransformedComponents.py`, `flattenComponents.py`,
  `propagateAnchors.py`, `transformations.py`, `reverseContourDirection.py`, `sortContours.py`,
  `skipExportGlyphs.py`;  `removeOverlaps.py` / `cubicToQuadratic.py` with the outline operation as a parameter.

Conventions: a glyph set is an insertion-ordered association list (Python dict); glyph objects are mutated in
place by the Python code, which the model renders as `aset name newGlyph`.  The key of a glyph equals its
`.name` (guaranteed by `_GlyphSet.from_layer`), so glyphs carry no name field and functions receive the key.
Python `set`s are duplicate-free lists; where the code iterates a set the order is a parameter or irrelevant.
-/
namespace Ufo2ft.C14

/-! ### fontTools.misc.transform.Transform -/

structure Affine where
  xx : Q
  xy : Q
  yx : Q
  yy : Q
  dx : Q
  dy : Q
  deriving DecidableEq, Repr

namespace Affine
def ident : Affine := ⟨1, 0, 0, 1, 0, 0⟩

/-- `self.transform(other)` -/
def transform (s o : Affine) : Affine :=
  ⟨o.xx * s.xx + o.xy * s.yx, o.xx * s.xy + o.xy * s.yy,
   o.yx * s.xx + o.yy * s.yx, o.yx * s.xy + o.yy * s.yy,
   s.xx * o.dx + s.yx * o.dy + s.dx, s.xy * o.dx + s.yy * o.dy + s.dy⟩

def translate (s : Affine) (x y : Q) : Affine := s.transform ⟨1, 0, 0, 1, x, y⟩
def scale (s : Affine) (x y : Q) : Affine := s.transform ⟨x, 0, 0, y, 0, 0⟩
/-- `skew(x, y)` with the tangents already taken (math.tan is an input) -/
def skewTan (s : Affine) (tx ty : Q) : Affine := s.transform ⟨1, ty, tx, 1, 0, 0⟩
def pt (t : Affine) (x y : Q) : Q × Q := (t.xx * x + t.yx * y + t.dx, t.xy * x + t.yy * y + t.dy)
def vec (t : Affine) (x y : Q) : Q × Q := (t.xx * x + t.yx * y, t.xy * x + t.yy * y)
def det (t : Affine) : Q := t.xx * t.yy - t.yx * t.xy

/-- `Transform.inverse()`; `none` = ZeroDivisionError -/
def inverse (t : Affine) : Option Affine :=
  if t = ident then some t
  else if t.det = 0 then none
  else
    let d := t.det
    let xx := t.yy / d; let xy := -t.xy / d; let yx := -t.yx / d; let yy := t.xx / d
    some ⟨xx, xy, yx, yy, -xx * t.dx - yx * t.dy, -xy * t.dx - yy * t.dy⟩
end Affine

/-! ### glyph data -/

inductive Seg | move | line | curve | qcurve
  deriving DecidableEq, Repr

structure Pt where
  x : Q
  y : Q
  seg : Option Seg
  deriving DecidableEq, Repr

abbrev Contour := List Pt

structure Comp where
  base : String
  t : Affine
  deriving DecidableEq, Repr

structure Anchor where
  name : String
  x : Q
  y : Q
  deriving DecidableEq, Repr

structure Glyph where
  width : Q
  height : Q
  contours : List Contour
  comps : List Comp
  anchors : List Anchor
  deriving DecidableEq, Repr

abbrev GlyphSet := List (String × Glyph)

/-- `glyphSet[k] = v` (Python dict: replace in place, else append) -/
def aset (k : String) (v : Glyph) : GlyphSet → GlyphSet
  | [] => [(k, v)]
  | (k', v') :: l => if k' == k then (k', v) :: l else (k', v') :: aset k v l

/-- `del glyphSet[k]` -/
def adel (k : String) : GlyphSet → GlyphSet
  | [] => []
  | (k', v') :: l => if k' == k then l else (k', v') :: adel k l

def keys (gs : GlyphSet) : List String := gs.map (·.1)

/-- stable insertion sort = Python `sorted(l, key=...)` (structural, so that the kernel can evaluate it) -/
def insertBy {α : Type} (le : α → α → Bool) (x : α) : List α → List α
  | [] => [x]
  | y :: l => if le x y then x :: y :: l else y :: insertBy le x l

def isortBy {α : Type} (le : α → α → Bool) (l : List α) : List α := l.foldr (insertBy le) []

/-- `set.add` on a duplicate-free list -/
def sadd (s : List String) (n : String) : List String := if s.contains n then s else s ++ [n]

inductive Err
  | valueError | keyError | missingComponent | invalidFontData | attributeError | zeroDivision
  | exception | recursion | statistics
  deriving DecidableEq, Repr

/-! ### BaseFilter.__init__: the include predicate -/

/-- what the caller passes as `include=` -/
inductive IncArg
  | names (l : List String)            -- a list of glyph names
  | pred (p : String → Glyph → Bool)   -- a callable

abbrev Include := String → Glyph → Bool

/-- lines 95-117 of filters/base.py -/
def mkInclude (incl : Option IncArg) (exclude : Option (List String)) : Except Err Include :=
  match incl, exclude with
  | some _, some _ => .error .valueError
  | some (.pred p), none => .ok p
  | some (.names l), none => .ok (fun n _ => l.contains n)
  | none, some l => .ok (fun n _ => !l.contains n)
  | none, none => .ok (fun _ _ => true)

/-! ### util.getMaxComponentDepth (as written: `visited` is shared between siblings) -/

/-- returns the depth and the updated `visited`; `st` is `rec_stack`. -/
def depthAux (gs : GlyphSet) : Nat → String → Glyph → Nat → List String → List String → Except Err (Nat × List String)
  | 0, _, _, _, _, _ => .error .recursion
  | fuel + 1, name, g, d, vis, st =>
    if g.comps.isEmpty then .ok (d, vis)
    else
      let vis := name :: vis
      let st := name :: st
      let d0 := d + 1
      g.comps.foldlM (fun (acc : Nat × List String) c =>
        match alookup c.base gs with
        | none => .ok acc
        | some b =>
          if !acc.2.contains c.base then
            match depthAux gs fuel c.base b d0 acc.2 st with
            | .error e => .error e
            | .ok (cd, vis') => .ok (max acc.1 cd, vis')
          else if st.contains c.base then .error .invalidFontData
          else .ok acc) (d0, vis)

def maxDepth (gs : GlyphSet) (name : String) (g : Glyph) : Except Err Nat :=
  match depthAux gs (gs.length + 1) name g 0 [] [] with
  | .error e => .error e
  | .ok r => .ok r.1

/-- `sorted(glyphSet.keys(), key=lambda g: -getMaxComponentDepth(glyphSet[g], glyphSet))` (stable) -/
def orderedNames (gs : GlyphSet) : Except Err (List String) := do
  let ds ← gs.mapM (fun e => do let d ← maxDepth gs e.1 e.2; pure (e.1, d))
  pure ((isortBy (fun a b => decide (a.2 ≥ b.2)) ds).map (·.1))

/-! ### pens -/

/-- the loop at the end of `ReverseContourPointPen._flushContour` -/
def relabel : List Pt → Option Seg → List Pt
  | [], _ => []
  | p :: l, last =>
    match p.seg with
    | some s => { p with seg := last } :: relabel l (some s)
    | none => { p with seg := none } :: relabel l last

def dropOff : List Pt → List Pt
  | [] => []
  | p :: l => if p.seg.isNone then dropOff l else p :: l

/-- `ReverseContourPointPen` applied to one contour -/
def reverseContour (c : Contour) : Contour :=
  match c with
  | [] => []
  | p0 :: rest =>
    if p0.seg == some .move then
      relabel (dropOff c.reverse) (some .move)
    else
      let rot := rest ++ [p0]
      let last : Option Seg := match rot.find? (fun p => p.seg.isSome) with
        | some p => p.seg
        | none => none
      relabel rot.reverse last

def trPt (t : Affine) (p : Pt) : Pt := let q := t.pt p.x p.y; { p with x := q.1, y := q.2 }

/-- `DecomposingFilterPointPen.addComponent(base, t)` with `reverseFlipped=True`:
 the contours sent to the out pen and the components passed through, in emission order. -/
def decompComp (gs : GlyphSet) : Nat → Option (List String) → Bool → String → Affine →
    Except Err (List Contour × List Comp)
  | 0, _, _, _, _ => .error .recursion
  | fuel + 1, inc, nested, base, t =>
    let included := match inc with | none => true | some l => l.contains base
    if included then
      let inc' : Option (List String) :=
        match inc with
        | some (_ :: _) => if nested then none else inc
        | _ => inc
      match alookup base gs with
      | none => .error .missingComponent
      | some g =>
        let rev := decide (t.xx * t.yy - t.xy * t.yx < 0)
        let cs := g.contours.map (fun c => ((if rev then reverseContour c else c).map (trPt t)))
        g.comps.foldlM (fun (acc : List Contour × List Comp) c =>
          match decompComp gs fuel inc' nested c.base (t.transform c.t) with
          | .error e => .error e
          | .ok (cs', ps') => .ok (acc.1 ++ cs', acc.2 ++ ps')) (cs, [])
    else .ok ([], [⟨base, t⟩])

/-- `util.decomposeCompositeGlyph(glyph, glyphSet, include=inc, decomposeNested=nested)` -/
def decomposeGlyph (gs : GlyphSet) (inc : Option (List String)) (nested : Bool) (g : Glyph) : Except Err Glyph :=
  g.comps.foldlM (fun (cur : Glyph) c =>
    match decompComp gs (gs.length + 1) inc nested c.base c.t with
    | .error e => .error e
    | .ok (cs, ps) => .ok { cur with contours := cur.contours ++ cs, comps := (cur.comps ++ ps).erase c }) g

/-! ### the per-glyph `filter` methods that touch only the glyph they are given -/

def isTransformed (c : Comp) : Bool := !(c.t.xx == 1 && c.t.xy == 0 && c.t.yx == 0 && c.t.yy == 1)

def decomposeFilter (gs : GlyphSet) (g : Glyph) : Except Err (Glyph × Bool) :=
  if g.comps.isEmpty then .ok (g, false)
  else match decomposeGlyph gs none true g with
    | .error e => .error e
    | .ok g' => .ok (g', true)

def decomposeTransformedFilter (gs : GlyphSet) (g : Glyph) : Except Err (Glyph × Bool) :=
  if g.comps.any isTransformed then decomposeFilter gs g else .ok (g, false)

def isSimpleOrMixed (g : Glyph) : Bool := g.comps.isEmpty || !g.contours.isEmpty

/-- `_flattenComponent` -/
def flattenComp (gs : GlyphSet) : Nat → Comp → Except Err (List Comp)
  | 0, _ => .error .recursion
  | fuel + 1, c =>
    match alookup c.base gs with
    | none => .error .valueError
    | some g =>
      if isSimpleOrMixed g then .ok [c]
      else g.comps.foldlM (fun (acc : List Comp) nested =>
        match flattenComp gs fuel nested with
        | .error e => .error e
        | .ok fl => .ok (acc ++ fl.map (fun f =>
            ⟨f.base, (c.t.translate f.t.dx f.t.dy).transform ⟨f.t.xx, f.t.xy, f.t.yx, f.t.yy, 0, 0⟩⟩))) []

/-- one turn of the loop in `_flattenGlyphComponents`: (new components so far, `flattened`) -/
def flattenStep (gs : GlyphSet) (acc : List Comp × Bool) (c : Comp) : Except Err (List Comp × Bool) :=
  match flattenComp gs (gs.length + 1) c with
  | .error e => .error e
  | .ok fl => .ok (acc.1 ++ fl, acc.2 || (fl.head? != some c))

/-- `_flattenGlyphComponents` -/
def flattenFilter (gs : GlyphSet) (g : Glyph) : Except Err (Glyph × Bool) :=
  if g.comps.isEmpty then .ok (g, false)
  else
    match g.comps.foldlM (flattenStep gs) ([], false) with
    | .error e => .error e
    | .ok (cs, fl) => .ok ({ g with comps := cs }, fl)

def reverseFilter (g : Glyph) : Glyph × Bool :=
  if g.contours.isEmpty then (g, false) else ({ g with contours := g.contours.map reverseContour }, true)

/-- control bounding box of a contour: (xMin, yMin, xMax, yMax) of all its points -/
def minQ (a b : Q) : Q := if b < a then b else a
def maxQ (a b : Q) : Q := if a < b then b else a
def cbox : Contour → Q × Q × Q × Q
  | [] => (0, 0, 0, 0)
  | p :: l => l.foldl (fun b q => (minQ b.1 q.x, minQ b.2.1 q.y, maxQ b.2.2.1 q.x, maxQ b.2.2.2 q.y)) (p.x, p.y, p.x, p.y)

/-- Python tuple comparison `a <= b` on 4-tuples -/
def boxLe (a b : Q × Q × Q × Q) : Bool :=
  if a.1 < b.1 then true else if b.1 < a.1 then false
  else if a.2.1 < b.2.1 then true else if b.2.1 < a.2.1 then false
  else if a.2.2.1 < b.2.2.1 then true else if b.2.2.1 < a.2.2.1 then false
  else decide (a.2.2.2 ≤ b.2.2.2)

def sortFilter (g : Glyph) : Glyph × Bool :=
  if g.contours.isEmpty then (g, false)
  else ({ g with contours := isortBy (fun a b => boxLe (cbox a) (cbox b)) g.contours }, true)

/-- RemoveOverlapsFilter / CubicToQuadraticFilter: `opq` is the external outline operation -/
def opaqueFilter (opq : List Contour → List Contour) (g : Glyph) : Glyph × Bool :=
  if g.contours.isEmpty then (g, false) else ({ g with contours := opq g.contours }, true)

def skipFilter (skip : List String) (gs : GlyphSet) (g : Glyph) : Except Err (Glyph × Bool) :=
  if g.comps.isEmpty || !(g.comps.any (fun c => skip.contains c.base)) then .ok (g, false)
  else match decomposeGlyph gs (some skip) false g with
    | .error e => .error e
    | .ok g' => .ok (g', true)

/-! ### the traversal of BaseFilter.__call__ -/

/-- the mutable part of `self.context` + the glyph set; `processed` is only used by PropagateAnchors -/
structure St where
  gs : GlyphSet
  modified : List String
  processed : List String
  ambiguous : Bool := false     -- model-only: two propagated anchors collided on one key (see `getAnchorData`)

/-- a filter method: may change the state, returns the flag -/
abbrev FilterFn := St → String → Glyph → Except Err (St × Bool)

/-- lift a filter that only rewrites the glyph it is given -/
def localFn (f : GlyphSet → Glyph → Except Err (Glyph × Bool)) : FilterFn :=
  fun st n g => match f st.gs g with
    | .error e => .error e
    | .ok (g', r) => .ok ({ st with gs := aset n g' st.gs }, r)

/-- body of the `for glyphName in orderedGlyphs` loop -/
def loopStep (incl : Include) (filt : FilterFn) (st : St) (n : String) : Except Err St :=
  if st.modified.contains n then .ok st
  else match alookup n st.gs with
    | none => .error .keyError
    | some g =>
      if incl n g then
        match filt st n g with
        | .error e => .error e
        | .ok (st', r) => .ok (if r then { st' with modified := sadd st'.modified n } else st')
      else .ok st

def runLoop (incl : Include) (filt : FilterFn) (st : St) (names : List String) : Except Err St :=
  names.foldlM (loopStep incl filt) st

/-- `BaseFilter.__call__` after `set_context` (fresh `modified`, fresh `processed`) -/
def baseCall (incl : Include) (filt : FilterFn) (gs : GlyphSet) : Except Err St := do
  let names ← orderedNames gs
  runLoop incl filt { gs := gs, modified := [], processed := [] } names

/-! ### PropagateAnchorsFilter -/

/-- font-level inputs of the anchor propagation -/
structure PAIn where
  marks : List String                              -- categories.mark  (public.openTypeCategories)
  bounds : String → Nat → Option (Q × Q)           -- `_bounds(component)` of the i-th component of a glyph (BoundsPen: external)

def dictSet (k : String) (v : Q × Q) : List (String × (Q × Q)) → List (String × (Q × Q))
  | [] => [(k, v)]
  | (k', v') :: l => if k' == k then (k', v) :: l else (k', v') :: dictSet k v l

def glyphAnchors (gs : GlyphSet) (n : String) : List Anchor :=
  match alookup n gs with | some g => g.anchors | none => []

/-- `_get_anchor_data`; the Bool reports a write to an existing key (the value then depends on the order in
 which `anchor_names` is iterated: sorted) -/
def getAnchorData (gs : GlyphSet) (comps : List Comp) (an : String)
    (d : List (String × (Q × Q)) × Bool) : List (String × (Q × Q)) × Bool :=
  let found : List (Anchor × Comp) := comps.filterMap (fun c =>
    match (glyphAnchors gs c.base).find? (fun a => a.name == an) with
    | some a => some (a, c)
    | none => none)
  match found with
  | [] => d
  | [(a, c)] => (dictSet a.name (c.t.pt a.x a.y) d.1, d.2 || (alookup a.name d.1).isSome)
  | _ =>
    (found.zipIdx).foldl (fun (d : List (String × (Q × Q)) × Bool) (e : (Anchor × Comp) × Nat) =>
      let nm := e.1.1.name ++ "_" ++ toString (e.2 + 1)
      (dictSet nm (e.1.2.t.pt e.1.1.x e.1.1.y) d.1, d.2 || (alookup nm d.1).isSome)) d

/-- `_adjust_anchors` -/
def adjustAnchors (gs : GlyphSet) (c : Comp) (d : List (String × (Q × Q))) : List (String × (Q × Q)) :=
  let as := glyphAnchors gs c.base
  as.foldl (fun d a =>
    if (alookup a.name d).isSome && as.any (fun b => b.name == "_" ++ a.name) then dictSet a.name (c.t.pt a.x a.y) d
    else d) d

def isLigatureMark (n : String) : Bool := !n.startsWith "_" && n.toList.contains '_'

def dist2 (p : Q × Q) : Q := (0 - p.1) * (0 - p.1) + (0 - p.2) * (0 - p.2)

/-- `min(components, key=distance)`: first minimal; `none` when some bounds are missing (exception) -/
def closest : List (Comp × Option (Q × Q)) → Option Comp
  | [] => none
  | (c, b) :: l =>
    if ((c, b) :: l).any (fun e => e.2.isNone) then none
    else
      let r := l.foldl (fun (best : Comp × Q) e =>
        match e.2 with
        | some p => if dist2 p < best.2 then (e.1, dist2 p) else best
        | none => best) (c, match b with | some p => dist2 p | none => 0)
      some r.1

/-- the part of `_propagate_glyph_anchors` after the recursion into the components:
 which anchors are appended to the composite -/
def anchorsToAdd (pin : PAIn) (gs : GlyphSet) (name : String) (composite : Glyph) :
    Except Err (List (String × (Q × Q)) × Bool) :=
  -- classification of the (existing) components
  let idx := composite.comps.zipIdx.filter (fun e => (alookup e.1.base gs).isSome)
  let isMark := fun (e : Comp × Nat) => (glyphAnchors gs e.1.base).any (fun a => a.name.startsWith "_")
  let markC := idx.filter isMark
  let baseC := (idx.filter (fun e => !isMark e)).map (·.1)
  let names0 := dedupFirst (baseC.flatMap (fun c => (glyphAnchors gs c.base).map (·.name)))
  let promoted : Except Err (List Comp × List Comp × List String) :=
    if !markC.isEmpty && baseC.isEmpty && isLigatureMark name then
      match closest (markC.map (fun e => (e.1, pin.bounds name e.2))) with
      | none => .error .exception
      | some c => .ok ((markC.map (·.1)).erase c, [c],
                       dedupFirst (names0 ++ (glyphAnchors gs c.base).map (·.name)))
    else .ok (markC.map (·.1), baseC, names0)
  match promoted with
  | .error e => .error e
  | .ok (markComps, baseComps, anchorNames) =>
    -- `for anchor_name in sorted(anchor_names):`
    let d0 := (isortBy strLe anchorNames).foldl (fun d an =>
      if composite.anchors.any (fun a => a.name.startsWith an) then d
      else getAnchorData gs baseComps an d) (([], false) : List (String × (Q × Q)) × Bool)
    let d1 := markComps.foldl (fun d c => adjustAnchors gs c d) d0.1
    .ok (isortBy (fun a b => strLe a.1 b.1) d1, d0.2)

/-- one turn of `for component in composite.components:` (the recursion part) -/
def propStep (rec : String → Glyph → St → Except Err St) (st : St) (c : Comp) : Except Err St :=
  match alookup c.base st.gs with
  | none => .ok st
  | some b => rec c.base b st

/-- `_propagate_glyph_anchors(glyphSet, composite, processed, modified, categories)` -/
def propagate (pin : PAIn) : Nat → String → Glyph → St → Except Err St
  | 0, _, _, _ => .error .recursion
  | fuel + 1, name, composite, st =>
    if st.processed.contains name then .ok st
    else
      let st := { st with processed := sadd st.processed name }
      if composite.comps.isEmpty || (pin.marks.contains name && !composite.anchors.isEmpty) then .ok st
      else
        match composite.comps.foldlM (propStep (propagate pin fuel)) st with
        | .error e => .error e
        | .ok st =>
          match anchorsToAdd pin st.gs name composite with
          | .error e => .error e
          | .ok (toAdd, amb) =>
            if toAdd.isEmpty then .ok { st with ambiguous := st.ambiguous || amb }
            else
              let g' : Glyph := { composite with anchors := composite.anchors ++ toAdd.map (fun e => (⟨e.1, e.2.1, e.2.2⟩ : Anchor)) }
              .ok { st with gs := aset name g' st.gs, modified := sadd st.modified name,
                            ambiguous := st.ambiguous || amb }

/-- `PropagateAnchorsFilter.filter` -/
def propagateFn (pin : PAIn) (fuel : Nat) : FilterFn := fun st n g =>
  if g.comps.isEmpty then .ok (st, false)
  else match propagate pin fuel n g st with
    | .error e => .error e
    | .ok st' => .ok (st', decide ((glyphAnchors st'.gs n).length > g.anchors.length))

/-! ### TransformationsFilter -/

structure TOpts where
  offsetX : Q
  offsetY : Q
  scaleX : Q            -- percent
  scaleY : Q
  slant : Q             -- degrees (only compared with 0)
  tanSlant : Q          -- math.tan(math.radians(slant)): external
  origin : Nat          -- the Origin enum
  capHeight : Q         -- getAttrWithFallback(font.info, ...)
  xHeight : Q

def originHeight (o : TOpts) : Q :=
  match o.origin with
  | 0 => o.capHeight
  | 1 => ((otRound (o.capHeight / 2) : Int) : Q)
  | 2 => o.xHeight
  | 3 => ((otRound (o.xHeight / 2) : Int) : Q)
  | _ => 0

/-- `TransformationsFilter.set_context`: ctx.matrix -/
def tMatrix (o : TOpts) : Affine :=
  let h := originHeight o
  let m := Affine.ident
  let m := if o.offsetX != 0 || o.offsetY != 0 then m.translate o.offsetX o.offsetY else m
  if o.scaleX != 100 || o.scaleY != 100 || o.slant != 0 then
    let m := if h != 0 then m.translate 0 h else m
    let m := if o.scaleX != 100 || o.scaleY != 100 then m.scale (o.scaleX / 100) (o.scaleY / 100) else m
    let m := if o.slant != 0 then m.skewTan o.tanSlant 0 else m
    if h != 0 then m.translate 0 (-h) else m
  else m

/-- replay of the recorded glyph through `TransformPointPen(outpen, matrix, modified)` + anchors + metrics -/
def transformGlyph (m inv : Affine) (modified : List String) (g : Glyph) : Glyph :=
  { width := (m.vec g.width g.height).1
    height := (m.vec g.width g.height).2
    contours := g.contours.map (fun c => c.map (trPt m))
    comps := g.comps.map (fun c =>
      let t := if modified.contains c.base then c.t.transform inv else c.t
      ⟨c.base, m.transform t⟩)
    anchors := g.anchors.map (fun a => let p := m.pt a.x a.y; ⟨a.name, p.1, p.2⟩) }

/-- one turn of `for component in glyph.components:` in `TransformationsFilter.filter` -/
def transStep (rec : FilterFn) (incl : Include) (st : St) (c : Comp) : Except Err St :=
  if st.modified.contains c.base then .ok st
  else match alookup c.base st.gs with
    | none => .error .keyError
    | some b =>
      if incl c.base b then
        match rec st c.base b with
        | .error e => .error e
        | .ok (st', r) => .ok (if r then { st' with modified := sadd st'.modified c.base } else st')
      else .ok st

/-- `TransformationsFilter.filter` (recursive through included, not yet modified bases) -/
def transformFn (incl : Include) (m : Affine) : Nat → FilterFn
  | 0, _, _, _ => .error .recursion
  | fuel + 1, st, n, g =>
    if m = Affine.ident || (g.contours.isEmpty && g.comps.isEmpty && g.anchors.isEmpty) then .ok (st, false)
    else
      match g.comps.foldlM (transStep (transformFn incl m fuel) incl) st with
      | .error e => .error e
      | .ok st =>
        match m.inverse with
        | none => .error .zeroDivision
        | some inv => .ok ({ st with gs := aset n (transformGlyph m inv st.modified g) st.gs }, true)

/-! ### the shipped filters as one family -/

inductive Kind
  | decompose | decomposeTransformed | flatten | propagate (pin : PAIn) | transform (o : TOpts)
  | reverse | sort | skipExport (skip : List String) | external (opq : List Contour → List Contour)

def Kind.fn (k : Kind) (incl : Include) (fuel : Nat) : FilterFn :=
  match k with
  | .decompose => localFn decomposeFilter
  | .decomposeTransformed => localFn decomposeTransformedFilter
  | .flatten => localFn flattenFilter
  | .propagate pin => propagateFn pin fuel
  | .transform o => transformFn incl (tMatrix o) fuel
  | .reverse => localFn (fun _ g => .ok (reverseFilter g))
  | .sort => localFn (fun _ g => .ok (sortFilter g))
  | .skipExport skip => localFn (skipFilter skip)
  | .external opq => localFn (fun _ g => .ok (opaqueFilter opq g))

/-- what a call returns: the `modified` set and the glyph set afterwards -/
structure Out where
  modified : List String
  gs : GlyphSet
  ambiguous : Bool := false

/-- after the loop, SkipExportGlyphsFilter deletes the skipped glyphs and reports them -/
def skipDelete (skip : List String) (o : Out) : Out :=
  skip.foldl (fun o n => if (alookup n o.gs).isSome then { o with gs := adel n o.gs, modified := sadd o.modified n } else o) o

/-- the persistent state of a filter object: its options (inside `Kind`/`Include`) and the
 `context` attribute left behind by the previous call (absent on a new object). -/
structure Obj where
  ctxModified : Option (List String)

def Obj.fresh : Obj := { ctxModified := none }

/-- `F.__call__(font, glyphSet)` for every modelled filter class, on a filter object `obj`. -/
def call (k : Kind) (incl : Include) (obj : Obj) (gs : GlyphSet) : Obj × Except Err Out :=
  match k with
  | .skipExport [] =>
    -- `if not self.options.skipExportGlyphs: return self.context.modified`  (before set_context!)
    match obj.ctxModified with
    | none => (obj, .error .attributeError)
    | some m => (obj, .ok { modified := m, gs := gs })
  | _ =>
    match baseCall incl (k.fn incl (gs.length + 1)) gs with
    | .error e => ({ ctxModified := some [] }, .error e)   -- set_context ran; what `modified` holds is not modelled
    | .ok st =>
      let o : Out := { modified := st.modified, gs := st.gs, ambiguous := st.ambiguous }
      let o := match k with | .skipExport skip => skipDelete skip o | _ => o
      ({ ctxModified := some o.modified }, .ok o)


/-! ### BaseIFilter.__call__: the interpolatable variants (zipped masters, `instantiator=None`) -/

structure ISt where
  gss : List GlyphSet                -- one glyph set per master
  modified : List String             -- shared
  processed : List (List String)     -- PropagateAnchorsIFilter: one `processed` set per master
  ambiguous : Bool := false

/-- `filter(glyphName, glyphs)` -/
abbrev IFilterFn := ISt → String → List Glyph → Except Err (ISt × Bool)

/-- `glyphs = [glyphSet[glyphName] for glyphSet in glyphSets if glyphName in glyphSet]` -/
def glyphsOf (gss : List GlyphSet) (n : String) : List Glyph := gss.filterMap (alookup n)

def iLoopStep (incl : Include) (filt : IFilterFn) (st : ISt) (n : String) : Except Err ISt :=
  if st.modified.contains n then .ok st
  else
    let glyphs := glyphsOf st.gss n
    if glyphs.any (incl n) then
      match filt st n glyphs with
      | .error e => .error e
      | .ok (st', r) => .ok (if r then { st' with modified := sadd st'.modified n } else st')
    else .ok st

def iRunLoop (incl : Include) (filt : IFilterFn) (st : ISt) (names : List String) : Except Err ISt :=
  names.foldlM (iLoopStep incl filt) st

/-- `comp_depth(g)`: the depth in the first master that has the glyph -/
def iDepth : List GlyphSet → String → Except Err Nat
  | [], _ => .error .exception                      -- raise AssertionError
  | gs :: rest, n =>
    match alookup n gs with
    | some g => maxDepth gs n g
    | none => iDepth rest n

/-- `sorted(allGlyphNames, key=comp_depth)`; `nameOrder` = iteration order of the Python set `allGlyphNames` -/
def iOrderedNames (gss : List GlyphSet) (nameOrder : List String) : Except Err (List String) := do
  let ds ← nameOrder.mapM (fun n => do let d ← iDepth gss n; pure (n, d))
  pure ((isortBy (fun a b => decide (a.2 ≥ b.2)) ds).map (·.1))

def iBaseCall (incl : Include) (filt : IFilterFn) (gss : List GlyphSet) (nameOrder : List String) : Except Err ISt := do
  let names ← iOrderedNames gss nameOrder
  iRunLoop incl filt { gss := gss, modified := [], processed := gss.map (fun _ => []) } names

/-- `for glyphSet in glyphSets: glyph = glyphSet.get(name); if glyph is not None: f(glyph, glyphSet)` -/
def mapMasters (f : GlyphSet → Glyph → Except Err Glyph) (n : String) : List GlyphSet → Except Err (List GlyphSet)
  | [] => .ok []
  | gs :: rest =>
    match alookup n gs with
    | none => match mapMasters f n rest with
      | .error e => .error e
      | .ok r => .ok (gs :: r)
    | some g => match f gs g with
      | .error e => .error e
      | .ok g' => match mapMasters f n rest with
        | .error e => .error e
        | .ok r => .ok (aset n g' gs :: r)

/-- lift a per-master rewrite with a condition on all the masters' glyphs -/
def iLocalFn (cond : List GlyphSet → List Glyph → Bool) (f : GlyphSet → Glyph → Except Err Glyph) : IFilterFn :=
  fun st n glyphs =>
    if cond st.gss glyphs then
      match mapMasters f n st.gss with
      | .error e => .error e
      | .ok gss' => .ok ({ st with gss := gss' }, true)
    else .ok (st, false)

def iDecomposeFn : IFilterFn :=
  iLocalFn (fun _ glyphs => glyphs.any (fun g => !g.comps.isEmpty)) (fun gs g => decomposeGlyph gs none true g)

def iDecomposeTransformedFn : IFilterFn :=
  iLocalFn (fun _ glyphs => glyphs.any (fun g => g.comps.any isTransformed) && glyphs.any (fun g => !g.comps.isEmpty))
    (fun gs g => decomposeGlyph gs none true g)

def iSkipFn (skip : List String) : IFilterFn :=
  iLocalFn (fun _ glyphs => glyphs.any (fun g => !g.comps.isEmpty) &&
      !(glyphs.all (fun g => !(g.comps.any (fun c => skip.contains c.base)))))
    (fun gs g => decomposeGlyph gs (some skip) false g)

/-- `getDefaultGlyphSet()` without an instantiator: `max(glyphSets, key=len)` (the first of the largest) -/
def defaultGlyphSet : List GlyphSet → GlyphSet
  | [] => []
  | gs :: rest => rest.foldl (fun best g => if g.length > best.length then g else best) gs

/-- `_haveNestedComponents(glyph, glyphSet)` -/
def haveNested (gs : GlyphSet) (g : Glyph) : Bool :=
  !isSimpleOrMixed g && g.comps.any (fun c => match alookup c.base gs with
    | some b => !b.comps.isEmpty
    | none => false)

/-- the per-master loop of `FlattenComponentsIFilter.filter`: `flattened |= _flattenGlyphComponents(...)` for every
 master that has the glyph. -/
def iFlattenMasters (n : String) : List GlyphSet → Bool → Except Err (List GlyphSet × Bool)
  | [], fl => .ok ([], fl)
  | gs :: rest, fl =>
    match alookup n gs with
    | none => match iFlattenMasters n rest fl with
      | .error e => .error e
      | .ok (r, fl') => .ok (gs :: r, fl')
    | some g => match flattenFilter gs g with
      | .error e => .error e
      | .ok (g', fl1) => match iFlattenMasters n rest (fl || fl1) with
        | .error e => .error e
        | .ok (r, fl') => .ok (aset n g' gs :: r, fl')

def iFlattenFn : IFilterFn := fun st n glyphs =>
  if !glyphs.any (fun g => !g.comps.isEmpty) then .ok (st, false)
  else if !glyphs.any (haveNested (defaultGlyphSet st.gss)) then .ok (st, false)
  else match iFlattenMasters n st.gss false with
    | .error e => .error e
    | .ok (gss', fl) => .ok ({ st with gss := gss' }, fl)

/-- the per-master loop of `PropagateAnchorsIFilter.filter` (`pins`: the bounds oracle of each master; the mark
 categories are those of the default font in all of them) -/
def iPropMasters (fuel : Nat) (n : String) :
    List GlyphSet → List PAIn → List (List String) → List String → Bool →
    Except Err (List GlyphSet × List (List String) × List String × Bool)
  | [], _, _, m, a => .ok ([], [], m, a)
  | gs :: rest, pins, procs, m, a =>
    let proc := procs.headD []
    let pin := pins.headD { marks := [], bounds := fun _ _ => none }
    match alookup n gs with
    | none => match iPropMasters fuel n rest pins.tail procs.tail m a with
      | .error e => .error e
      | .ok (r, ps, m', a') => .ok (gs :: r, proc :: ps, m', a')
    | some g =>
      match propagate pin fuel n g { gs := gs, modified := m, processed := proc, ambiguous := a } with
      | .error e => .error e
      | .ok st1 => match iPropMasters fuel n rest pins.tail procs.tail st1.modified st1.ambiguous with
        | .error e => .error e
        | .ok (r, ps, m', a') => .ok (st1.gs :: r, st1.processed :: ps, m', a')

def iPropagateFn (pins : List PAIn) (fuel : Nat) : IFilterFn := fun st n glyphs =>
  if !glyphs.any (fun g => !g.comps.isEmpty) then .ok (st, false)
  else match iPropMasters fuel n st.gss pins st.processed st.modified st.ambiguous with
    | .error e => .error e
    | .ok (gss', procs', m', a') =>
      .ok ({ gss := gss', modified := m', processed := procs', ambiguous := a' }, decide (m'.length > st.modified.length))

/-- the classes that have an interpolatable variant -/
inductive IKind
  | decompose | decomposeTransformed | flatten | propagate (pins : List PAIn) | skipExport (skip : List String)

def IKind.fn (k : IKind) (fuel : Nat) : IFilterFn :=
  match k with
  | .decompose => iDecomposeFn
  | .decomposeTransformed => iDecomposeTransformedFn
  | .flatten => iFlattenFn
  | .propagate pins => iPropagateFn pins fuel
  | .skipExport skip => iSkipFn skip

structure IOut where
  modified : List String
  gss : List GlyphSet
  ambiguous : Bool := false

def iSkipDelete (skip : List String) (o : IOut) : IOut :=
  skip.foldl (fun o n =>
    if o.gss.any (fun gs => (alookup n gs).isSome) then
      { o with gss := o.gss.map (fun gs => if (alookup n gs).isSome then adel n gs else gs), modified := sadd o.modified n }
    else o) o

def maxLen (gss : List GlyphSet) : Nat := gss.foldl (fun m gs => max m gs.length) 0

/-- `IF.__call__(fonts, glyphSets)` on a filter object `obj` -/
def icall (k : IKind) (incl : Include) (obj : Obj) (gss : List GlyphSet) (nameOrder : List String) : Obj × Except Err IOut :=
  match k with
  | .skipExport [] =>
    match obj.ctxModified with
    | none => (obj, .error .attributeError)
    | some m => (obj, .ok { modified := m, gss := gss })
  | _ =>
    match iBaseCall incl (k.fn (maxLen gss + 1)) gss nameOrder with
    | .error e => ({ ctxModified := some [] }, .error e)
    | .ok st =>
      let o : IOut := { modified := st.modified, gss := st.gss, ambiguous := st.ambiguous }
      let o := match k with | .skipExport skip => iSkipDelete skip o | _ => o
      ({ ctxModified := some o.modified }, .ok o)

end Ufo2ft.C14
