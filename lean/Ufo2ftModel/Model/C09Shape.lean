import Ufo2ftModel.Model.C09
/-!
The *shape level*: what is left of glyphs when coordinates are forgotten — point types per contour, component base
names, and of each component matrix only the SIGN of its determinant.  The reference functions below redo contour
reversal, component decomposition and component flattening on that level; `Props/C09.lean` proves that the real
(coordinate-level) operations commute with the forgetful map, i.e. that the shape of their result depends on nothing else.
-/
namespace Ufo2ft.C09
open Ufo2ft

abbrev CShape := List (Option Seg)

def contourShape (c : Contour) : CShape := List.map (fun (p : Pt) => p.seg) c

/-- sign of a rational as an integer: -1, 0, 1 -/
def sgn (q : Q) : Int := if q < 0 then -1 else if q = 0 then 0 else 1

/-! ### reversal on point-type sequences -/

def retypeS : CShape → Option Seg → CShape
  | [], _ => []
  | p :: ps, last =>
    match p with
    | some t => last :: retypeS ps (some t)
    | none => none :: retypeS ps last

def firstOnS : CShape → Option Seg
  | [] => none
  | p :: ps => match p with | some t => some t | none => firstOnS ps

/-- `ReverseContourPointPen` on a point-type sequence -/
def reverseShape (c : CShape) : CShape :=
  match c with
  | [] => []
  | p0 :: rest =>
    if p0 = some .move then retypeS ((p0 :: rest).reverse.dropWhile (fun p => p.isNone)) (some .move)
    else retypeS (p0 :: rest.reverse) (firstOnS (rest ++ [p0]))

/-! ### abstract glyphs -/

structure AComp where
  base : String
  s : Int            -- sign of the determinant of the 2×2 part
  deriving DecidableEq, Repr

structure AGlyph where
  contours : List CShape
  comps : List AComp
  deriving DecidableEq, Repr

abbrev AGlyphSet := List (String × AGlyph)

def absComp (k : Comp) : AComp := ⟨k.base, sgn k.t.det⟩
def absGlyph (g : Glyph) : AGlyph := ⟨g.contours.map contourShape, g.comps.map absComp⟩
def absSet (gs : GlyphSet) : AGlyphSet := gs.map (fun e => (e.1, absGlyph e.2))

structure ADrawn where
  contours : List CShape
  comps : List AComp
  deriving DecidableEq

def absDrawn (d : Drawn) : ADrawn := ⟨d.contours.map contourShape, d.comps.map absComp⟩

def ADrawn.append (a b : ADrawn) : ADrawn := ⟨a.contours ++ b.contours, a.comps ++ b.comps⟩

/-- contours of a base drawn under a matrix whose determinant has sign `s` -/
def aDrawContours (reverseFlipped : Bool) (s : Int) (cs : List CShape) : List CShape :=
  cs.map (fun c => if reverseFlipped && decide (s < 0) then reverseShape c else c)

mutual
/-- `DecomposingFilterPointPen.addComponent` on the shape level: the matrix is replaced by the sign of its determinant -/
def aAddComp (fuel : Nat) (gs : AGlyphSet) (reverseFlipped nested : Bool) (incl : Option (List String))
    (base : String) (s : Int) : Except GErr ADrawn :=
  match fuel with
  | 0 => .error .recursion
  | fuel + 1 =>
    if isIncluded incl base then
      match alookup base gs with
      | none => .error (.missing base)
      | some b =>
        match aAddComps fuel gs reverseFlipped nested (inclNested nested incl) s b.comps with
        | .error e => .error e
        | .ok d => .ok ⟨aDrawContours reverseFlipped s b.contours ++ d.contours, d.comps⟩
    else .ok ⟨[], [⟨base, s⟩]⟩
def aAddComps (fuel : Nat) (gs : AGlyphSet) (reverseFlipped nested : Bool) (incl : Option (List String))
    (s : Int) (ks : List AComp) : Except GErr ADrawn :=
  match ks with
  | [] => .ok ⟨[], []⟩
  | k :: ks =>
    match aAddComp fuel gs reverseFlipped nested incl k.base (s * k.s) with
    | .error e => .error e
    | .ok d => match aAddComps fuel gs reverseFlipped nested incl s ks with
      | .error e => .error e
      | .ok d' => .ok (d.append d')
end

/-- `decomposeCompositeGlyph` on the shape level -/
def aDecomposeGlyph (gs : AGlyphSet) (nested : Bool) (incl : Option (List String)) (g : AGlyph) : Except GErr AGlyph :=
  match aAddComps (gs.length + 1) gs true nested incl 1 g.comps with
  | .error e => .error e
  | .ok d => .ok ⟨g.contours ++ d.contours, d.comps⟩

def mapExcept (f : α → β) : Except ε α → Except ε β
  | .ok a => .ok (f a)
  | .error e => .error e

/-! ### abstract flattening -/

def aIsSimpleOrMixed (g : AGlyph) : Bool := g.comps.isEmpty || !g.contours.isEmpty

mutual
/-- `_flattenComponent` on the shape level -/
def aFlattenComp (fuel : Nat) (gs : AGlyphSet) (k : AComp) : Except GErr (List AComp) :=
  match fuel with
  | 0 => .error .recursion
  | fuel + 1 =>
    match alookup k.base gs with
    | none => .error .valueError
    | some b =>
      if aIsSimpleOrMixed b then .ok [k]
      else aFlattenNested fuel gs k b.comps
def aFlattenNested (fuel : Nat) (gs : AGlyphSet) (outer : AComp) (ks : List AComp) : Except GErr (List AComp) :=
  match ks with
  | [] => .ok []
  | n :: ns =>
    match aFlattenComp fuel gs n with
    | .error e => .error e
    | .ok fl =>
      let fl' := fl.map (fun c => (⟨c.base, outer.s * c.s⟩ : AComp))
      match aFlattenNested fuel gs outer ns with
      | .error e => .error e
      | .ok r => .ok (fl' ++ r)
end

/-- `_flattenGlyphComponents` on the shape level (component list only) -/
def aFlattenGlyphComps (gs : AGlyphSet) : List AComp → Except GErr (List AComp)
  | [] => .ok []
  | k :: ks =>
    match aFlattenComp (gs.length + 1) gs k with
    | .error e => .error e
    | .ok fl =>
      match fl.head? with
      | none => .error .assertion
      | some _ =>
        match aFlattenGlyphComps gs ks with
        | .error e => .error e
        | .ok r => .ok (fl ++ r)

end Ufo2ft.C09
