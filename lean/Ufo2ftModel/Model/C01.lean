import Ufo2ftModel.Model.Filters
/-!
Model of the CFF outline path: OTFPreProcessor's default filter (full decomposition) followed by
`glyph.draw(T2CharStringPen(width, glyphSet, roundTolerance))`, i.e. fontTools' `PointToSegmentPen` (start point,
implied closing line), `BasePen` (quadratic → cubic elevation, implied on-curve points) and the pen's rounding of every
absolute coordinate; and of `setupTable_hmtx`'s advance.  Closed contours with at least one on-curve point.
-/
namespace Ufo2ft.C01
open Ufo2ft

abbrev P := Q × Q

inductive Op
  | moveTo (p : P)
  | lineTo (p : P)
  | curveTo (a b c : P)
  | closePath
  deriving DecidableEq, Repr

inductive Err | unsupported | valueError | geom (e : GErr)
  deriving DecidableEq, Repr

def ptOf (p : Pt) : P := (p.x, p.y)
def mid (a b : P) : P := ((a.1 + b.1) / 2, (a.2 + b.2) / 2)

/-- BasePen._qCurveToOne: one quadratic (current point `p0`, off-curve `p1`, end `p2`) as a cubic -/
def quadToCubic (p0 p1 p2 : P) : Op :=
  .curveTo (p0.1 + 2/3 * (p1.1 - p0.1), p0.2 + 2/3 * (p1.2 - p0.2))
           (p2.1 + 2/3 * (p1.1 - p2.1), p2.2 + 2/3 * (p1.2 - p2.2)) p2

/-- BasePen.qCurveTo(*offs, end): TrueType-style run of off-curve points with implied on-curve midpoints -/
def qCurve (cur : P) : List P → P → List Op
  | [], e => [.lineTo e]
  | [o], e => [quadToCubic cur o e]
  | o1 :: o2 :: rest, e =>
    let m := mid o1 o2
    quadToCubic cur o1 m :: qCurve m (o2 :: rest) e

/-- the drawing commands of one segment: `offs` = buffered off-curve points, `p` = the on-curve end point.
    `closing` = this is the last segment of a closed contour, `start` = the contour's start point. -/
def segmentOps (cur : P) (offs : List P) (p : Pt) (closing : Bool) : Except Err (List Op × P) :=
  let e := ptOf p
  match p.seg with
  | some .line =>
    if !offs.isEmpty then .error .unsupported
    -- the implied closing line is omitted unless it has zero length (pt == lastPt)
    else if closing && e != cur then .ok ([], cur) else .ok ([.lineTo e], e)
  | some .curve =>
    match offs with
    | [a, b] => .ok ([.curveTo a b e], e)
    | [] => .ok ([.lineTo e], e)
    | [o] => .ok ([quadToCubic cur o e], e)
    | _ => .error .unsupported
  | some .qcurve => .ok (qCurve cur offs e, e)
  | _ => .error .unsupported

/-- walk the rotated point list (which ends with the start point) -/
def walk (cur : P) (offs : List P) : List Pt → Except Err (List Op)
  | [] => .ok []
  | p :: ps =>
    match p.seg with
    | none => walk cur (offs ++ [ptOf p]) ps
    | some _ =>
      match segmentOps cur offs p ps.isEmpty with
      | .error e => .error e
      | .ok (ops, cur') =>
        match walk cur' [] ps with
        | .error e => .error e
        | .ok r => .ok (ops ++ r)

/-- index of the first on-curve point -/
def firstOnIdx : List Pt → Nat → Option Nat
  | [], _ => none
  | p :: ps, i => if p.seg.isSome then some i else firstOnIdx ps (i + 1)

/-- `PointToSegmentPen._flushContour` for a closed contour, driving a `BasePen` -/
def toSegments (c : Contour) : Except Err (List Op) :=
  if c.any (fun p => p.seg == some .move) then .error .unsupported else
  match firstOnIdx c 0 with
  | none => .error .unsupported
  | some i =>
    let rot := c.drop (i + 1) ++ c.take (i + 1)
    match c[i]? with
    | none => .error .unsupported
    | some start =>
      match walk (ptOf start) [] rot with
      | .error e => .error e
      | .ok ops => .ok (.moveTo (ptOf start) :: ops ++ [.closePath])

/-- fontTools.misc.roundTools.roundFunc(tolerance) -/
def roundCoord (tol : Q) (v : Q) : Q :=
  if tol = 0 then v
  else if tol ≥ 1/2 then (otRound v : Q)
  else if absQ ((otRound v : Q) - v) ≤ tol then (otRound v : Q) else v

def roundP (tol : Q) (p : P) : P := (roundCoord tol p.1, roundCoord tol p.2)
def roundOp (tol : Q) : Op → Op
  | .moveTo p => .moveTo (roundP tol p)
  | .lineTo p => .lineTo (roundP tol p)
  | .curveTo a b c => .curveTo (roundP tol a) (roundP tol b) (roundP tol c)
  | .closePath => .closePath

def contoursOps (tol : Q) : List Contour → Except Err (List Op)
  | [] => .ok []
  | c :: cs => match toSegments c, contoursOps tol cs with
    | .ok a, .ok b => .ok (a.map (roundOp tol) ++ b)
    | .error e, _ => .error e
    | _, .error e => .error e

/-- `BaseCompiler.preprocess`: `if self.skipExportGlyphs is None:` the UFO's `public.skipExportGlyphs` lib key is consulted,
    otherwise the argument is used as given (also an EMPTY one) -/
def effectiveSkip (arg : Option (List String)) (lib : List String) : List String :=
  match arg with
  | none => lib
  | some a => a

/-- the `include=[...]` / `exclude=[...]` restriction of a custom filter (`BaseFilter.include`, `_check_include_exclude`) -/
inductive Sel
  | incl (l : List String)
  | excl (l : List String)
  deriving Repr

def Sel.pred : Sel → String → Bool
  | .incl l, n => l.contains n
  | .excl l, n => !l.contains n

/-- the pre-processed glyph set: `_GlyphSet.from_layer(..., skipExportGlyphs)`, then the custom PRE-filters of the UFO lib /
    `filters=` argument (`BasePreProcessor.process`: `for func in self.preFilters`) - here an explicit, possibly restricted
    `DecomposeComponentsFilter(pre=True, include=…|exclude=…)` -, then the default filter `DecomposeComponentsFilter()`,
    which `OTFPreProcessor.initDefaultFilters` ALWAYS puts first, whatever the custom filters are -/
def preprocessF (pf : Option Sel) (skip : List String) (gs : GlyphSet) : Except Err GlyphSet :=
  let gs1 : Except GErr GlyphSet :=
    if skip.isEmpty then .ok gs
    else match skipExport skip (fun _ => true) gs with
      | .error e => .error e
      | .ok st => .ok st.gs
  match gs1 with
  | .error e => .error (.geom e)
  | .ok gs1 =>
    let gs2 : Except GErr GlyphSet :=
      match pf with
      | none => .ok gs1
      | some s => match runFilter decomposeStep s.pred gs1 with
        | .error e => .error e
        | .ok st => .ok st.gs
    match gs2 with
    | .error e => .error (.geom e)
    | .ok gs2 => match runFilter decomposeStep (fun _ => true) gs2 with
      | .error e => .error (.geom e)
      | .ok st => .ok st.gs

/-- the pre-processed glyph set without custom filters: `_GlyphSet.from_layer(..., skipExportGlyphs)` then `DecomposeComponentsFilter()` -/
def preprocess (skip : List String) (gs : GlyphSet) : Except Err GlyphSet :=
  let gs1 : Except GErr GlyphSet :=
    if skip.isEmpty then .ok gs
    else match skipExport skip (fun _ => true) gs with
      | .error e => .error e
      | .ok st => .ok st.gs
  match gs1 with
  | .error e => .error (.geom e)
  | .ok gs1 => match runFilter decomposeStep (fun _ => true) gs1 with
    | .error e => .error (.geom e)
    | .ok st => .ok st.gs

/-- what the compiled CFF font draws for glyph `name` of the pre-processed glyph set -/
def cffOutline (tol : Q) (pre : GlyphSet) (name : String) : Except Err (List Op) :=
  match pre.get? name with
  | none => .error (.geom (.missing name))
  | some g => contoursOps tol g.contours

/-- setupTable_hmtx: the advance -/
def advance (g : Glyph) : Except Err Int :=
  if otRound g.width < 0 then .error .valueError else .ok (otRound g.width)

end Ufo2ft.C01
