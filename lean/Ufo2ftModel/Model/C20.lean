import Ufo2ftModel.Basic
/-!
Model for property C20 (generated positioning features are reachable from every registered script).

Two layers, both tied to the code by the correspondence run:

(a) ufo2ft:  `featureWriters/ast.py: addLookupReferences, getScriptLanguageSystems`,
    `featureWriters/kernFeatureWriter.py: KernFeatureWriter._registerLookups / _makeFeatureBlocks`
    (kern/dist blocks carry explicit `script`/`language` statements), and the shape of the blocks the
    mark (mark/mkmk/abvm/blwm) and curs writers emit (lookups only, no `script` statement).
(b) fontTools.feaLib.builder.Builder: how a feature block's statements register lookups under
    (script, language, feature) keys (`start_feature`, `set_script`, `set_language`,
    `add_lookup_to_feature_`, `add_language_system`, `get_default_language_systems_`) and how
    `makeTable` turns the keys that have at least one lookup of the table into ScriptList/LangSys records.

External data (Unicode script -> OpenType tags, direction, membership in DIST_ENABLED_SCRIPTS) is an input
(`ScriptInfo`), supplied by the harness from the same fontTools tables the code uses.
Sorting uses a structural insertion sort (`isort`) so that concrete witnesses can be closed by `decide`.
-/
namespace Ufo2ft.C20

abbrev Tag := String
/-- a language system: (script tag, language tag) -/
abbrev LS := Tag × Tag
/-- key of feaLib's `features_` dict: (script, language, feature) -/
abbrev Key := Tag × Tag × Tag

/-- a lookup object; `gpos` = it gets a lookup index when the GPOS table is built. Identity = `id`. -/
structure Lk where
  id : Nat
  gpos : Bool
  deriving DecidableEq, Repr

/-- the statements of a feature block that matter for registration -/
inductive Stmt
  | script (s : Tag)
  | language (l : Tag) (incl : Bool)
  | lookup (k : Lk)          -- a lookup is created/referenced at this point of the block
  deriving DecidableEq, Repr

structure Block where
  tag : Tag
  stmts : List Stmt
  deriving DecidableEq, Repr

structure Program where
  langsys : List LS          -- the `languagesystem` statements, in file order
  blocks : List Block
  deriving Repr

/-! ### (a) ufo2ft side -/

/-- `ast.addLookupReferences(feature, lookups, script, languages, exclude_dflt)`;
`script = ""` stands for a falsy script (None/""), `languages = []` for None/(). -/
def addLookupReferences (lookups : List Lk) (script : Tag) (languages : List Tag) (excludeDflt : Bool) :
    List Stmt :=
  if script == "" then lookups.map .lookup
  else
    .script script ::
      (if excludeDflt then
        (if languages.isEmpty then ["dflt"] else languages).flatMap
          (fun l => .language l false :: lookups.map .lookup)
      else
        .language "dflt" true :: (lookups.map .lookup ++
          (languages.filter (fun l => l != "dflt")).map (fun l => .language l true)))

/-- `setdefault(s, []).append(l)` on an insertion-ordered dict -/
def groupAdd : List (Tag × List Tag) → Tag → Tag → List (Tag × List Tag)
  | [], s, l => [(s, [l])]
  | (s', ls) :: r, s, l => if s' == s then (s', ls ++ [l]) :: r else (s', ls) :: groupAdd r s l

/-- `ast.getScriptLanguageSystems(feaFile, excludeDflt=False)` flattened to `{otTag: languages}` as
`KernFeatureWriter.setContext` does (`ctx.feaLanguagesByScript`). -/
def langsOf (langsys : List LS) : List (Tag × List Tag) :=
  langsys.foldl (fun acc sl => groupAdd acc sl.1 sl.2) []

/-- `feaLanguagesByScript.get(tag, ["dflt"])` -/
def langsGet (langs : List (Tag × List Tag)) (tag : Tag) : List Tag :=
  (alookup tag langs).getD ["dflt"]

/-- what the code asks fontTools.unicodedata / its own constants about a Unicode script -/
structure ScriptInfo where
  dir : String          -- script_direction: "LTR" | "RTL" | "Auto"
  dist : Bool           -- script in DIST_ENABLED_SCRIPTS
  tags : List Tag       -- unicodedata.ot_tags_from_script
  deriving Repr, DecidableEq

/-- dict name -> lookup (insertion ordered) -/
abbrev Dict := List (String × Lk)
/-- `lookups`: Unicode script -> {lookup name -> lookup} (insertion ordered) -/
abbrev Lookups := List (Tag × Dict)

def infoOf (info : List (Tag × ScriptInfo)) (s : Tag) : ScriptInfo :=
  (alookup s info).getD { dir := "LTR", dist := false, tags := [] }

def values (d : Dict) : List Lk := d.map (·.2)

/-- `d[k] = v` -/
def dset : Dict → String → Lk → Dict
  | [], k, v => [(k, v)]
  | (k', v') :: r, k, v => if k' == k then (k', v) :: r else (k', v') :: dset r k v

/-- `d.update(u)` -/
def dictUpdate (d u : Dict) : Dict := u.foldl (fun d kv => dset d kv.1 kv.2) d

/-- `acc.extend(x for x in l if x not in acc)` (generator: evaluated against the growing list) -/
def extendDedup (acc l : List Lk) : List Lk :=
  l.foldl (fun a x => if a.contains x then a else a ++ [x]) acc

/-- insertion into a list sorted by key (stable) -/
def insertByKey (x : Tag × α) : List (Tag × α) → List (Tag × α)
  | [] => [x]
  | y :: r => if strLe x.1 y.1 then x :: y :: r else y :: insertByKey x r

/-- `sorted(d.items())` for string keys (structural, so that `decide` can evaluate it) -/
def isort (l : List (Tag × α)) : List (Tag × α) := l.foldr insertByKey []

def isDfltScript (s : Tag) : Bool := s == "Zyyy" || s == "Zinh"

/-- the lookups registered for one script: DFLT_SCRIPTS' dicts first, then the script's own (`dict.update`) -/
def lookupsForScript (lookups : Lookups) (s : Tag) : Dict :=
  let d0 : Dict := []
  let d1 := match alookup "Zyyy" lookups with | some d => dictUpdate d0 d | none => d0
  let d2 := match alookup "Zinh" lookups with | some d => dictUpdate d1 d | none => d1
  dictUpdate d2 ((alookup s lookups).getD [])

/-- lookups registered under DFLT (`dfltLookups`) -/
def dfltLookups (isKern : Bool) (lookups : Lookups) (info : List (Tag × ScriptInfo)) : List Lk :=
  if !isKern then [] else
  let d0 := extendDedup [] ((alookup "Zyyy" lookups).map values |>.getD [])
  let sorted := isort lookups
  let ofDir (dir : String) : List Lk := sorted.flatMap (fun sd =>
    if !(infoOf info sd.1).dist && (infoOf info sd.1).dir == dir then values sd.2 else [])
  let ltr := ofDir "LTR"
  let rtl := ofDir "RTL"
  extendDedup d0 (if !ltr.isEmpty then ltr else rtl)

/-- `sorted(scriptsToReference - DFLT_SCRIPTS)` -/
def scriptsToReference (isKern : Bool) (lookups : Lookups) (info : List (Tag × ScriptInfo)) : List Tag :=
  ((isort lookups).map (·.1)).filter (fun s =>
    (if isKern then !(infoOf info s).dist else (infoOf info s).dist) && !isDfltScript s)

/-- the (script tag, lookups, languages) triples `_registerLookups` passes to `addLookupReferences` -/
def registrations (isKern : Bool) (lookups : Lookups) (langs : List (Tag × List Tag))
    (info : List (Tag × ScriptInfo)) : List (Tag × List Lk × List Tag) :=
  let d := dfltLookups isKern lookups info
  (if d.isEmpty then [] else [("DFLT", d, langsGet langs "DFLT")]) ++
  (scriptsToReference isKern lookups info).flatMap (fun s =>
    (infoOf info s).tags.map (fun tag => (tag, values (lookupsForScript lookups s), langsGet langs tag)))

/-- statements of the block built by `KernFeatureWriter._registerLookups` (comments dropped) -/
def registerStmts (isKern : Bool) (lookups : Lookups) (langs : List (Tag × List Tag))
    (info : List (Tag × ScriptInfo)) : List Stmt :=
  (registrations isKern lookups langs info).flatMap (fun r => addLookupReferences r.2.1 r.1 r.2.2 false)

inductive Err | assertion | featureLib
  deriving DecidableEq, Repr

/-- `_registerLookups` with the `assert lookups` of `addLookupReferences` -/
def registerLookups (isKern : Bool) (lookups : Lookups) (langs : List (Tag × List Tag))
    (info : List (Tag × ScriptInfo)) : Except Err (List Stmt) :=
  if (registrations isKern lookups langs info).any (fun r => r.2.1.isEmpty) then .error .assertion
  else .ok (registerStmts isKern lookups langs info)

/-- input of the kerning writer's `_makeFeatureBlocks` -/
structure KernIn where
  todo : List Tag                       -- ctx.todo  (⊆ {kern, dist})
  lookups : Lookups
  info : List (Tag × ScriptInfo)
  deriving Repr

/-- `_makeFeatureBlocks`: a block per tag in todo, kept only when it has statements -/
def kernBlocks (k : KernIn) (langsys : List LS) : List Block :=
  (["kern", "dist"].filter k.todo.contains).filterMap (fun t =>
    let st := registerStmts (t == "kern") k.lookups (langsOf langsys) k.info
    if st.isEmpty then none else some { tag := t, stmts := st })

/-- a feature generated by the mark or curs writer: lookups only -/
structure GenFeat where
  tag : Tag
  lookups : List Lk
  acts : List Tag        -- OpenType script tags whose glyphs its lookups cover; "*" = every script
  deriving Repr

def genBlock (g : GenFeat) : Block := { tag := g.tag, stmts := g.lookups.map .lookup }

structure In where
  langsys : List LS
  kern : KernIn
  gen : List GenFeat
  user : List Block          -- feature blocks of the user's file (tags other than the generated ones)
  fontScripts : List Tag     -- OpenType tags of the scripts the font supports: exported glyphs' single-script code
                             -- points + declared languagesystems (the specification of guessFontScripts); only
                             -- used to delimit the known-finding shape, never by the model
  deriving Repr

/-- the feature file handed to feaLib, as far as registration is concerned -/
def assemble (i : In) : Program :=
  { langsys := i.langsys, blocks := i.user ++ kernBlocks i.kern i.langsys ++ i.gen.map genBlock }

/-! ### (b) feaLib Builder -/

/-- `Builder.add_language_system` over the whole list: ok? -/
def checkLangsys : List LS → List LS → Bool → Bool
  | [], _, _ => true
  | (s, l) :: r, seen, nonD =>
    if s == "DFLT" && l == "dflt" && !seen.isEmpty then false
    else if s == "DFLT" && nonD then false
    else if seen.contains (s, l) then false
    else checkLangsys r ((s, l) :: seen) (nonD || s != "DFLT")

/-- `get_default_language_systems_` -/
def defaultLS (langsys : List LS) : List LS :=
  if langsys.isEmpty then [("DFLT", "dflt")] else langsys

/-- `features_`: insertion-ordered dict Key -> lookups -/
abbrev Feats := List (Key × List Lk)

def fget (fs : Feats) (k : Key) : Option (List Lk) := alookup k fs

/-- `features_[k] = v` -/
def fset : Feats → Key → List Lk → Feats
  | [], k, v => [(k, v)]
  | (k', v') :: r, k, v => if k' == k then (k', v) :: r else (k', v') :: fset r k v

/-- `features_.setdefault(k, []).append(x)` -/
def fappend (fs : Feats) (k : Key) (x : Lk) : Feats := fset fs k ((fget fs k).getD [] ++ [x])

structure BState where
  feats : Feats
  ls : List LS        -- self.language_systems (a set; kept duplicate-free by `checkLangsys`)
  script : Tag        -- self.script_

/-- `add_lookup_to_feature_` -/
def addLookup (f : Tag) (st : BState) (x : Lk) : BState :=
  { st with feats := st.ls.foldl (fun fs sl => fappend fs (sl.1, sl.2, f) x) st.feats }

/-- `set_language` (without `required`) -/
def setLanguage (f : Tag) (st : BState) (l : Tag) (incl : Bool) : BState :=
  let v : List Lk := match fget st.feats (st.script, "dflt", f) with
    | some lk => if (l == "dflt" || incl) && !lk.isEmpty then lk else []
    | none => []
  { st with feats := fset st.feats (st.script, l, f) v, ls := [(st.script, l)] }

/-- `self.language_systems == {(script, "dflt")}` -/
def isSingleton (ls : List LS) (x : LS) : Bool := !ls.isEmpty && ls.all (fun y => y == x)

/-- `set_script`: NB the early return leaves `script_` untouched. -/
def setScript (f : Tag) (st : BState) (s : Tag) : BState :=
  if isSingleton st.ls (s, "dflt") then st
  else setLanguage f { st with script := s } "dflt" true

def step (f : Tag) (st : BState) : Stmt → BState
  | .script s => setScript f st s
  | .language l incl => setLanguage f st l incl
  | .lookup x => addLookup f st x

/-- `start_feature` … statements … `end_feature` -/
def runBlock (dl : List LS) (fs : Feats) (b : Block) : Feats :=
  (b.stmts.foldl (step b.tag) { feats := fs, ls := dl, script := "DFLT" }).feats

def build (p : Program) : Feats := p.blocks.foldl (runBlock (defaultLS p.langsys)) []

/-- `makeTable("GPOS")`: the keys that have at least one GPOS lookup become (script, language, feature)
entries of the ScriptList (dict order here; `scriptList` sorts). -/
def triples (fs : Feats) : List Key :=
  fs.filterMap (fun e => if e.2.any (·.gpos) then some e.1 else none)

def keyLe (a b : Key) : Bool :=
  a.1 < b.1 || (a.1 == b.1 && (a.2.1 < b.2.1 || (a.2.1 == b.2.1 && a.2.2 ≤ b.2.2)))

/-- sorted (script, language, feature) entries, as read off the compiled table -/
def scriptList (fs : Feats) : List Key := (triples fs).mergeSort keyLe

/-- whole pipeline: user languagesystems + writers' blocks -> compiled ScriptList, or feaLib's rejection -/
def reach (i : In) : Except Err (List Key) :=
  if checkLangsys i.langsys [] false then .ok (scriptList (build (assemble i))) else .error .featureLib

/-! ### (c) designspace builds: rule substitutions handed to the writers' script classification

`_compilers/baseCompiler.py: BaseInterpolatableCompiler._pre_compile_designspace` turns the designspace `<rules>`
into `extraSubstitutions` (a `defaultdict(set)`: glyph -> glyphs it can be replaced by under some rule), and
`util.classifyGlyphs(..., extra_substitutions)` (called by the kern/curs/mark writers) adds, to the glyph set of
every Unicode script, the rule alternates of its members (one step, no closure).  Sets are duplicate-free lists. -/

/-- a designspace rule's `subs`: (glyph, replacement) pairs -/
abbrev Rule := List (String × String)
/-- glyph -> set of glyphs -/
abbrev SubMap := List (String × List String)

/-- `d[left].add(right)` on a `defaultdict(set)` -/
def subAdd : SubMap → String → String → SubMap
  | [], l, r => [(l, [r])]
  | (l', rs) :: t, l, r =>
    if l' == l then (l', if rs.contains r then rs else rs ++ [r]) :: t else (l', rs) :: subAdd t l r

/-- `for rule in rules: for left, right in rule.subs: extraSubstitutions[left].add(right)` -/
def extraSubs (rules : List Rule) : SubMap :=
  rules.foldl (fun acc rule => rule.foldl (fun a s => subAdd a s.1 s.2) acc) []

/-- `compile_variable_features` (variable fonts whose master features are compatible: the features are compiled once, by
`VariableFeatureCompiler`): its own copy of the same loop over the (sub-)designspace's rules, passed as
`extraSubstitutions=` to the feature compiler. -/
def extraSubsVariable (rules : List Rule) : SubMap :=
  rules.foldl (fun acc rule => rule.foldl (fun a s => subAdd a s.1 s.2) acc) []

/-- which feature compiler serves the writers: per-master `FeatureCompiler`s (given the compiler object's
`extraSubstitutions`) or the single `VariableFeatureCompiler` -/
inductive Path | masters | variable
  deriving DecidableEq, Repr

/-- what `BaseFeatureWriter.extraSubstitutions()` returns to a writer on each path -/
def writersExtra : Path → List Rule → SubMap
  | .masters, rules => extraSubs rules
  | .variable, rules => extraSubsVariable rules

/-- `extra_substitutions.get(glyph, set())` -/
def extraGet (m : SubMap) (g : String) : List String := (alookup g m).getD []

/-- the `if extra_substitutions:` step of `classifyGlyphs`: every script's glyph set gains the alternates of its members -/
def classifyExtra (m : SubMap) (glyphSets : List (Tag × List String)) : List (Tag × List String) :=
  glyphSets.map (fun sg => (sg.1, sg.2 ++ ((sg.2.flatMap (extraGet m)).eraseDups).filter (fun x => !sg.2.contains x)))

/-! ### `kernFeatureWriter.mergeScripts`: cross-script kerning buckets that share a script are merged -/

/-- a bucket key: a set of Unicode scripts (list without order; the harness compares sorted) -/
abbrev SSet := List Tag

def sdisjoint (a b : SSet) : Bool := a.all (fun x => !b.contains x)
def sunion (a b : SSet) : SSet := a ++ b.filter (fun x => !a.contains x)

/-- the `for scripts in rest:` loop: (grown `common`, buckets set aside as disjoint, merged?) -/
def absorb : SSet → List SSet → SSet × List SSet × Bool
  | common, [] => (common, [], false)
  | common, s :: r =>
    if sdisjoint s common then
      let res := absorb common r
      (res.1, s :: res.2.1, res.2.2)
    else
      let res := absorb (sunion common s) r
      (res.1, res.2.1, true)

/-- the inner `while sets:` loop (fuel = number of buckets) -/
def mergePass : Nat → List SSet → List SSet × Bool
  | 0, _ => ([], false)
  | _ + 1, [] => ([], false)
  | n + 1, c :: rest =>
    let a := absorb c rest
    let res := mergePass n a.2.1
    (a.1 :: res.1, a.2.2 || res.2)

/-- the outer `while merged:` loop -/
def mergeLoop : Nat → List SSet → List SSet
  | 0, sets => sets
  | n + 1, sets =>
    let r := mergePass sets.length sets
    if r.2 then mergeLoop n r.1 else r.1

def mergeSets (keys : List SSet) : List SSet :=
  let sets := keys.filter (fun k => !k.isEmpty)
  mergeLoop sets.length sets

/-- second half of `mergeScripts`: every input bucket's pairs go to the FIRST merged bucket sharing a script -/
def reassignOne (sets : List SSet) (k : SSet) : Option SSet := sets.find? (fun s => !sdisjoint s k)

def reassign (sets : List SSet) : List (SSet × List Nat) → List (SSet × List Nat) → Except Err (List (SSet × List Nat))
  | acc, [] => .ok acc
  | acc, (k, ps) :: r =>
    match reassignOne sets k with
    | none => .error .assertion
    | some b => reassign sets (acc.map (fun e => if e.1 == b then (e.1, e.2 ++ ps) else e)) r

/-- `mergeScripts(kerningPerScript)`; pairs are abstract ids -/
def mergeScripts (kps : List (SSet × List Nat)) : Except Err (List (SSet × List Nat)) :=
  let sets := mergeSets (kps.map (·.1))
  reassign sets (sets.map (fun s => (s, []))) kps

/-! ### variable fonts: which kerning pairs `getVariableKerningPairs` collates (kernFeatureWriter.py:477-545) -/

abbrev KP := String × String

/-- a designspace source as `getVariableKerningPairs` sees it: `layerName is not None` (sparse source, skipped) and the
keys of `source.font.kerning` -/
structure KSrc where
  layer : Bool
  pairs : List KP
  deriving Repr

/-- `a | set(b)` on duplicate-free lists -/
def kunion (a b : List KP) : List KP := a ++ b.filter (fun p => !a.contains p)

/-- `all_pairs = set(); for source in designspace.sources: if source.layerName is not None: continue;
all_pairs |= set(source.font.kerning)` (as a set; the order is irrelevant) -/
def varAllPairs : List KSrc → List KP
  | [] => []
  | s :: r => if s.layer then varAllPairs r else kunion s.pairs (varAllPairs r)

/-- the keys of `kerning_pairs_in_progress`: the pairs of `all_pairs` whose two sides are a kerning class or a glyph of the
glyph set (`known`); every non-layer source contributes a value for each of them (there is always one, the default) -/
def varKeys (srcs : List KSrc) (known : List String) : List KP :=
  (varAllPairs srcs).filter (fun p => known.contains p.1 && known.contains p.2)

end Ufo2ft.C20
