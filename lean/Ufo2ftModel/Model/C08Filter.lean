import Ufo2ftModel.Basic
/-!
Model for property C08, part 3: the state of a filter OBJECT handed to several compiles through `filters=[...]`.

  filters/transformations.py   TransformationsFilter.start (50-51), get_origin_height (53-65), set_context (67-96; the matrix for
                               Slant = 0 - `skew` goes through math.tan and is not modelled)
  filters/base.py              BaseFilter.set_context (156-175): `self.context` is REPLACED by a new namespace at every call
  fontInfoData.py              getAttrWithFallback for capHeight / xHeight / unitsPerEm: capHeightFallback (47-49),
                               xHeightFallback (52-54), staticFallbackData unitsPerEm = 1000

The origin height is a function of (options, fontinfo of the CURRENT font) only; an instance is (options, last context), a
session is the list of fonts one instance is called on.
-/
namespace Ufo2ft.C08

/-- `TransformationsFilter.Origin` (IntEnum) -/
inductive Origin | capHeight | halfCapHeight | xHeight | halfXHeight | baseline
  deriving DecidableEq, Repr

/-- `start()`: `self.options.Origin = self.Origin(self.options.Origin)`; a value that is no member raises ValueError (in
`__init__`, before any font is seen) -/
def Origin.ofInt (n : Int) : Except String Origin :=
  if n = 0 then .ok .capHeight
  else if n = 1 then .ok .halfCapHeight
  else if n = 2 then .ok .xHeight
  else if n = 3 then .ok .halfXHeight
  else if n = 4 then .ok .baseline
  else .error "ValueError"

/-- the three fontinfo attributes the filter can reach (`none` = attribute absent or None) -/
structure HInfo where
  unitsPerEm : Option Q
  capHeight : Option Q
  xHeight : Option Q
  deriving DecidableEq, Repr

/-- `getAttrWithFallback(info, "unitsPerEm")`: staticFallbackData -/
def unitsPerEmOf (i : HInfo) : Q := match i.unitsPerEm with | some v => v | none => 1000

/-- `getAttrWithFallback(info, "capHeight")`: the attribute, else `otRound(upm * 0.7)` -/
def capHeightOf (i : HInfo) : Q := match i.capHeight with | some v => v | none => (otRound (unitsPerEmOf i * (7/10)) : Int)

/-- `getAttrWithFallback(info, "xHeight")`: the attribute, else `otRound(upm * 0.5)` -/
def xHeightOf (i : HInfo) : Q := match i.xHeight with | some v => v | none => (otRound (unitsPerEmOf i * (1/2)) : Int)

/-- `get_origin_height(font, origin)` -/
def originHeight (o : Origin) (i : HInfo) : Q :=
  match o with
  | .baseline => 0
  | .capHeight => capHeightOf i
  | .halfCapHeight => (otRound (capHeightOf i / 2) : Int)
  | .xHeight => xHeightOf i
  | .halfXHeight => (otRound (xHeightOf i / 2) : Int)

/-- fontTools `Transform` (xx, xy, yx, yy, dx, dy) -/
structure Mat where
  xx : Q
  xy : Q
  yx : Q
  yy : Q
  dx : Q
  dy : Q
  deriving DecidableEq, Repr

def Mat.identity : Mat := ⟨1, 0, 0, 1, 0, 0⟩

/-- `self.transform(other)` -/
def Mat.transform (self other : Mat) : Mat :=
  ⟨other.xx * self.xx + other.xy * self.yx, other.xx * self.xy + other.xy * self.yy,
   other.yx * self.xx + other.yy * self.yx, other.yx * self.xy + other.yy * self.yy,
   self.xx * other.dx + self.yx * other.dy + self.dx, self.xy * other.dx + self.yy * other.dy + self.dy⟩

def Mat.translate (m : Mat) (x y : Q) : Mat := m.transform ⟨1, 0, 0, 1, x, y⟩
def Mat.scale (m : Mat) (x y : Q) : Mat := m.transform ⟨x, 0, 0, y, 0, 0⟩

/-- the options of an instance after `start()` (Slant = 0) -/
structure TOpts where
  origin : Origin
  offsetX : Q
  offsetY : Q
  scaleX : Q
  scaleY : Q
  deriving DecidableEq, Repr

/-- `set_context`, lines 72-94 with `angle == 0`: the matrix from the options and the origin height -/
def ctxMatrix (o : TOpts) (h : Q) : Mat :=
  let m := Mat.identity
  let m := if o.offsetX != 0 || o.offsetY != 0 then m.translate o.offsetX o.offsetY else m
  if o.scaleX != 100 || o.scaleY != 100 then
    let m := if h != 0 then m.translate 0 h else m
    let m := m.scale (o.scaleX / 100) (o.scaleY / 100)
    if h != 0 then m.translate 0 (-h) else m
  else m

/-- what one call leaves in `self.context` that depends on the font (`origin_height` is a local of set_context, kept here as
a ghost field so that the session can be asked for it) -/
structure TCtx where
  height : Q
  matrix : Mat
  deriving DecidableEq, Repr

/-- a TransformationsFilter object: its options and `self.context` (absent before the first call) -/
structure TInst where
  opts : TOpts
  context : Option TCtx
  deriving DecidableEq, Repr

def TInst.new (o : TOpts) : TInst := { opts := o, context := none }

/-- `set_context(font, glyphSet)`: a NEW namespace computed from the options and the current font replaces `self.context`;
the previous context is not read -/
def TInst.setContext (s : TInst) (font : HInfo) : TInst :=
  let h := originHeight s.opts.origin font
  { s with context := some { height := h, matrix := ctxMatrix s.opts h } }

/-- one instance called on a list of fonts: the context each call worked with, and the instance afterwards -/
def session (s : TInst) : List HInfo → List (Option TCtx) × TInst
  | [] => ([], s)
  | f :: fs =>
    let s' := s.setContext f
    let r := session s' fs
    (s'.context :: r.1, r.2)

/-- THE SLIP (not the code): an instance that computes its origin height on the first font and keeps it -
`if self._origin_height is None: self._origin_height = self.get_origin_height(...)` -/
def TInst.setContextCached (s : TInst) (font : HInfo) : TInst :=
  let h := match s.context with | some c => c.height | none => originHeight s.opts.origin font
  { s with context := some { height := h, matrix := ctxMatrix s.opts h } }

def sessionCached (s : TInst) : List HInfo → List (Option TCtx) × TInst
  | [] => ([], s)
  | f :: fs =>
    let s' := s.setContextCached f
    let r := sessionCached s' fs
    (s'.context :: r.1, r.2)

end Ufo2ft.C08
