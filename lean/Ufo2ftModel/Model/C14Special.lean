import Ufo2ftModel.Model.C14
/-!
# C14: the two filters that do not follow the `filter(glyph)` scheme

* `filters/dottedCircle.py`   `DottedCircleFilter.__call__`, `check_dotted_circle`, `draw_dotted_circle` (the outline
  and the width after `_setGlyphMargin` are a parameter: `drawn`), `check_and_add_anchors`, `ensure_base`
* `filters/explodeColorLayerGlyphs.py`   `ExplodeColorLayerGlyphsFilter.set_context`, `_getLayer`, `_copyGlyph`, `filter`
  under `BaseFilter.__call__`

The SOURCE font is an explicit part of the state: both filters read it (the dotted circle is looked up and the
anchors are gathered in `font`, not in the glyph set; the color layers are the font's layers) and both write it.
`shared = true` renders `glyphSet=None`: the glyph set is made of the font's own glyph objects.

External (inputs): the bounding boxes of the font's glyphs (fontTools BoundsPen), the outline of the drawn circle,
whether `feaFile.asFea()` reproduces the feature text; the feature file is seen through feaLib's parser as the list
of `GlyphClassDef` statements of its GDEF table blocks.  Anchor positions are computed in exact rationals; the code
computes `anchor.x / width`, `statistics.mean`, `width * mean` in doubles, which can only differ from the exact value
at a rounding tie of `otRound` (the model flags ties).
-/
namespace Ufo2ft.C14

/-- `d[k] = v` on an insertion-ordered association list -/
def dset {ν : Type} (k : String) (v : ν) : List (String × ν) → List (String × ν)
  | [] => [(k, v)]
  | (k', v') :: l => if k' == k then (k', v) :: l else (k', v') :: dset k v l

/-! ## DottedCircleFilter -/

/-- a glyph of the source font's default layer -/
structure FGlyph where
  name : String
  g : Glyph
  unicodes : List Nat
  bw : Option Q               -- `bounds.xMax - bounds.xMin` of `glyph.getBounds(font)`; none: no bounds
  deriving DecidableEq

/-- what the filter reads and writes of the source font -/
structure DCSrc where
  glyphs : List FGlyph                              -- `for glyph in font`
  cats : Option (List (String × String))            -- `font.lib["public.openTypeCategories"]`
  /-- `none`: the features have no GDEF table block; else the base-glyph class of every `GlyphClassDef` statement of
   the GDEF blocks (`none`: no base class given) -/
  gdef : Option (List (Option (List String)))
  feaCanonical : Bool                               -- external: `parse(text).asFea() == text`
  feaAssigned : Bool := false                       -- `font.features.text = feaFile.asFea()` was executed
  deriving DecidableEq

structure DCIn where
  src : DCSrc
  gs : GlyphSet
  shared : Bool
  drawn : Glyph                                     -- external: the glyph `draw_dotted_circle` makes (no anchors)

def dottedCircleCP : Nat := 0x25CC
def drawnName : String := "uni25CC"

/-- `next((g.name for g in font if 0x25CC in g.unicodes), None)` -/
def findDC (glyphs : List FGlyph) : Option String :=
  (glyphs.find? (fun g => g.unicodes.contains dottedCircleCP)).map (·.name)

inductive DCChoice
  | nothing                                -- DO_NOTHING: encoded in the font, missing from the glyph set
  | existing (name : String) (g : Glyph)
  | draw                                   -- none found, or the one found has no contours (`if not glyph`: its length)

def checkDC (i : DCIn) : DCChoice :=
  match findDC i.src.glyphs with
  | none => .draw
  | some n =>
    match alookup n i.gs with
    | none => .nothing
    | some g => if g.contours.isEmpty then .draw else .existing n g

abbrev Pos := Q × Q

/-- the width the x position of an anchor is taken relative to -/
def effWidth (fg : FGlyph) : Q :=
  match fg.bw with
  | some w => w
  | none => fg.g.width

/-- `all_anchors.setdefault(k, []).append(p)` -/
def dappend (k : String) (p : Pos) : List (String × List Pos) → List (String × List Pos)
  | [] => [(k, [p])]
  | (k', v) :: l => if k' == k then (k', v ++ [p]) :: l else (k', v) :: dappend k p l

def gatherAnchor (fg : FGlyph) (acc : List (String × List Pos)) (a : Anchor) : List (String × List Pos) :=
  if a.name.startsWith "_" then dset a.name [] acc
  else if effWidth fg == 0 then acc
  else dappend a.name (a.x / effWidth fg, a.y) acc

/-- the first loop of `check_and_add_anchors`: over the glyphs of the FONT -/
def gather (glyphs : List FGlyph) : List (String × List Pos) :=
  glyphs.foldl (fun acc fg => fg.g.anchors.foldl (gatherAnchor fg) acc) []

def hasKey {ν : Type} (k : String) (d : List (String × ν)) : Bool := d.any (fun e => e.1 == k)

def sumQ (l : List Q) : Q := l.foldl (· + ·) 0

/-- `fontTools.misc.fixedTools.otRound` -/
def otRound (q : Q) : Int := (q + 1 / 2).floor

def isTie (q : Q) : Bool := (((q + 1 / 2).floor : Int) : Q) == q + 1 / 2

/-- the second loop: one new anchor per wanted name, `mean([])` raises StatisticsError -/
def newAnchorStep (W : Q) (ds : List String) (all : List (String × List Pos))
    (acc : List Anchor × List Bool) (e : String × List Pos) : Except Err (List Anchor × List Bool) :=
  if ds.contains e.1 || !hasKey ("_" ++ e.1) all then .ok acc
  else if e.2.isEmpty then .error .statistics
  else
    let n : Q := (e.2.length : Nat)
    let ax := W * (sumQ (e.2.map (·.1)) / n)
    let ay := sumQ (e.2.map (·.2)) / n
    .ok (acc.1 ++ [{ name := e.1, x := otRound ax, y := otRound ay }], acc.2 ++ [isTie ax || isTie ay])

def newAnchors (W : Q) (ds : List String) (all : List (String × List Pos)) : Except Err (List Anchor × List Bool) :=
  all.foldlM (newAnchorStep W ds all) ([], [])

/-- `ensure_base` -/
def ensureBase (dc : String) (s : DCSrc) : DCSrc :=
  match s.gdef with
  | none =>
    match s.cats with
    | some c => { s with cats := some (dset dc "base" c) }
    | none => s
  | some defs =>
    { s with gdef := some (defs.map (fun b => match b with
                | some l => if l.contains dc then some l else some (l ++ [dc])
                | none => none)),
             feaAssigned := true }

def setFGlyph (n : String) (g : Glyph) (l : List FGlyph) : List FGlyph :=
  l.map (fun fg => if fg.name == n then { fg with g := g } else fg)

structure DCOut where
  modified : List String
  gs : GlyphSet
  src : DCSrc
  ties : List Bool := []

/-- with the glyph `g` (named `name`, already in `gs`) as the dotted circle -/
def dcFinish (i : DCIn) (name : String) (g : Glyph) (gs : GlyphSet) (addedGlyph existing : Bool) : Except Err DCOut :=
  match newAnchors g.width (g.anchors.map (·.name)) (gather i.src.glyphs) with
  | .error e => .error e
  | .ok (na, ties) =>
    if na.isEmpty then
      .ok { modified := if addedGlyph then [name] else [], gs := gs, src := i.src }
    else
      let g' := { g with anchors := g.anchors ++ na }
      -- `appendAnchor` mutates the glyph object: with `glyphSet=None` it is the font's own glyph
      let src₁ := if i.shared && existing then { i.src with glyphs := setFGlyph name g' i.src.glyphs } else i.src
      .ok { modified := [name], gs := aset name g' gs, src := ensureBase name src₁, ties := ties }

/-- `DottedCircleFilter.__call__(font, glyphSet)` -/
def dcCall (i : DCIn) : Except Err DCOut :=
  match checkDC i with
  | .nothing => .ok { modified := [], gs := i.gs, src := i.src }
  | .existing n g => dcFinish i n g i.gs false true
  | .draw => dcFinish i drawnName i.drawn (aset drawnName i.drawn i.gs) true false

/-! ## ExplodeColorLayerGlyphsFilter -/

abbrev ColorMap := List (String × Nat)           -- `[(layerName, colorID), …]`

/-- a glyph object with the attributes `Glyph.__eq__` compares and the filter reads -/
structure LGlyph where
  g : Glyph
  unicodes : List Nat
  cmap : Option ColorMap                          -- `glyph.lib.get(COLOR_LAYER_MAPPING_KEY)`
  deriving DecidableEq

abbrev XSet := List (String × LGlyph)             -- a glyph set / a layer

def XSet.plain (xs : XSet) : GlyphSet := xs.map (fun e => (e.1, e.2.g))

structure ExSrc where
  layers : List (String × XSet)                  -- `font.layers` (the default layer among them)
  globalMap : Option ColorMap                     -- `font.lib.get(COLOR_LAYER_MAPPING_KEY)`
  colorLayers : Option (List (String × ColorMap)) -- `font.lib.get(COLOR_LAYERS_KEY)`
  deriving DecidableEq

structure ExSt where
  gs : XSet
  src : ExSrc
  added : List String                             -- `context.colorLayerGlyphNames`
  modified : List String
  skip : Bool                                     -- `context.skipCurrentFont`

/-- `font.layers[layer][name]` is the (mutated) object `lg` -/
def setLayerGlyph (layer name : String) (lg : LGlyph) : List (String × XSet) → List (String × XSet)
  | [] => []
  | (l, x) :: rest => if l == layer then (l, dset name lg x) :: rest else (l, x) :: setLayerGlyph layer name lg rest

/-- the loop `for component in layerGlyph.components: component.baseGlyph = self._copyGlyph(…)`: every renaming takes
 effect at once in the layer's glyph object (a re-entrant call on a cyclic layer sees the renamed components) -/
def copyComps (rec : String → ExSt → Except Err (ExSt × String)) (layer name : String) (lg : LGlyph) :
    List Comp → List Comp → ExSt → Except Err (ExSt × List Comp)
  | done, [], st => .ok (st, done)
  | done, c :: rest, st =>
    match rec c.base st with
    | .error e => .error e
    | .ok (st', nm) =>
      let done' := done ++ [{ c with base := nm }]
      let lg₁ : LGlyph := { lg with g := { lg.g with comps := done' ++ rest } }
      copyComps rec layer name lg done' rest
        { st' with src := { st'.src with layers := setLayerGlyph layer name lg₁ st'.src.layers } }

/-- `_copyGlyph(layerGlyphSet, glyphSet, glyphName, layerName)`: the layer's glyph OBJECT is put into the glyph set
 under the new name; its components are renamed and its code points stripped in place, i.e. in the source font -/
def copyGlyph (layer : String) : Nat → String → ExSt → Except Err (ExSt × String)
  | 0, _, _ => .error .recursion
  | fuel + 1, name, st =>
    match alookup layer st.src.layers with
    | none => .error .keyError
    | some lay =>
      match alookup name lay with
      | none => .error .keyError
      | some lg =>
        let lname := name ++ "." ++ layer
        if (alookup lname st.gs).isSome then
          if st.added.contains lname then .ok (st, lname) else .error .invalidFontData
        else
          match copyComps (fun b s => copyGlyph layer fuel b s) layer name lg [] lg.g.comps st with
          | .error e => .error e
          | .ok (st', comps') =>
            let lg' : LGlyph := { lg with g := { lg.g with comps := comps' }, unicodes := [] }
            .ok ({ st' with gs := st'.gs ++ [(lname, lg')],
                            src := { st'.src with layers := setLayerGlyph layer name lg' st'.src.layers },
                            added := st'.added ++ [lname] }, lname)

def layerFuel (st : ExSt) : Nat := (st.src.layers.foldl (fun m e => max m e.2.length) 0) + 1

/-- one `(layerName, colorID)` of the mapping -/
def mapStep (n : String) (g : LGlyph) (acc : ExSt × ColorMap) (e : String × Nat) : Except Err (ExSt × ColorMap) :=
  match alookup e.1 acc.1.src.layers with
  | none => .error .keyError                                  -- `font.layers[layerName]`
  | some lay =>
    match alookup n lay with
    | none => .ok acc
    | some lg =>
      if g == lg then .ok (acc.1, acc.2 ++ [(n, e.2)])
      else
        match copyGlyph e.1 (layerFuel acc.1) n acc.1 with
        | .error err => .error err
        | .ok (st', nm) => .ok (st', acc.2 ++ [(nm, e.2)])

/-- `glyph.lib.get(KEY)`, and `context.globalColorLayerMapping` when that is None -/
def effMap (own glob : Option ColorMap) : Option ColorMap :=
  match own with
  | some m => some m
  | none => glob

/-- `filter(glyph)` -/
def exFilter (st : ExSt) (n : String) (g : LGlyph) : Except Err (ExSt × Bool) :=
  if st.skip then .ok (st, false)
  else
    match effMap g.cmap st.src.globalMap with
    | none => .ok (st, false)
    | some mapping =>
      match mapping.foldlM (mapStep n g) (st, []) with
      | .error e => .error e
      | .ok (st', layers) =>
        if layers.isEmpty then .ok (st', false)
        else .ok ({ st' with src := { st'.src with colorLayers := some (dset n layers (st'.src.colorLayers.getD [])) } }, true)

def exLoopStep (incl : Include) (st : ExSt) (n : String) : Except Err ExSt :=
  if st.modified.contains n then .ok st
  else match alookup n st.gs with
    | none => .error .keyError
    | some g =>
      if incl n g.g then
        match exFilter st n g with
        | .error e => .error e
        | .ok (st', r) => .ok (if r then { st' with modified := sadd st'.modified n } else st')
      else .ok st

structure ExIn where
  src : ExSrc
  gs : XSet

structure ExOut where
  modified : List String
  gs : XSet
  src : ExSrc
  added : List String

/-- `set_context`: `font.lib[COLOR_LAYERS_KEY] = {}` unless the key is there (then the font is skipped) -/
def exInit (i : ExIn) : ExSt :=
  { gs := i.gs, added := [], modified := [],
    skip := i.src.colorLayers.isSome,
    src := { i.src with colorLayers := some (i.src.colorLayers.getD []) } }

/-- `ExplodeColorLayerGlyphsFilter.__call__(font, glyphSet)` -/
def exCall (incl : Include) (i : ExIn) : Except Err ExOut :=
  match orderedNames i.gs.plain with
  | .error e => .error e
  | .ok names =>
    match names.foldlM (exLoopStep incl) (exInit i) with
    | .error e => .error e
    | .ok st => .ok { modified := st.modified, gs := st.gs, src := st.src, added := st.added }

end Ufo2ft.C14
