import Ufo2ftModel.Model.C06Ctx
/-!
A writer INSTANCE used for several fonts in a row (BaseFeatureWriter.write, baseFeatureWriter.py:135-158):
`write(font, feaFile)` does `setContext(font, …)` - a NEW namespace `self.context` for this font, whatever ran before -,
`_write()` reads the font, glyph set, anchors, GDEF classes … from `self.context` only, and `finally: del self.context`.
The options (quantization, groupMarkClasses) are part of every `Input` here.  So the only per-font state of the
instance is `context`, present during a run and absent between runs.
-/
namespace Ufo2ft.C06

structure Writer where
  /-- `self.context` (exists only inside `write()`) -/
  context : Option Input := none

/-- one `writer.write(font, feaFile)` call: (the instance afterwards, what was generated / raised) -/
def Writer.write (_w : Writer) (font : Input) : Writer × Except Err ProgramX :=
  let running : Writer := { context := some font }            -- setContext: replaces any earlier context
  let out := match running.context with                       -- _write() reads from self.context
    | some f => modelX f
    | none => modelX font
  ({ context := none }, out)                                   -- finally: del self.context

/-- the same instance writing a list of fonts one after the other -/
def Writer.session (w : Writer) : List Input → Writer × List (Except Err ProgramX)
  | [] => (w, [])
  | f :: fs => ((w.write f).1.session fs).1 |> fun w' => (w', (w.write f).2 :: ((w.write f).1.session fs).2)

end Ufo2ft.C06
