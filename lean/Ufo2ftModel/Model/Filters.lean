import Ufo2ftModel.Model.Geom
/-!
Models of ufo2ft's component / transform filters:
BaseFilter.__call__ traversal, DecomposeComponentsFilter, DecomposeTransformedComponentsFilter,
FlattenComponentsFilter, TransformationsFilter, PropagateAnchorsFilter, SkipExportGlyphsFilter.
-/
namespace Ufo2ft

structure FState where
  gs : GlyphSet
  modified : List String      -- `context.modified` (a set; kept in insertion order)
  processed : List String := []   -- PropagateAnchorsFilter's `context.processed`

def addMod (l : List String) (n : String) : List String := if l.contains n then l else l ++ [n]

/-- the loop of `BaseFilter.__call__` over `orderedGlyphs` -/
def filterLoop (step : FState → Glyph → Except GErr (FState × Bool)) (incl : String → Bool) :
    List String → FState → Except GErr FState
  | [], st => .ok st
  | n :: ns, st =>
    if st.modified.contains n then filterLoop step incl ns st
    else match st.gs.get? n with
      | none => .error (.missing n)
      | some g =>
        if incl n then
          match step st g with
          | .error e => .error e
          | .ok (st', r) => filterLoop step incl ns (if r then { st' with modified := addMod st'.modified n } else st')
        else filterLoop step incl ns st

def runFilter (step : FState → Glyph → Except GErr (FState × Bool)) (incl : String → Bool) (gs : GlyphSet) :
    Except GErr FState :=
  match orderedGlyphs gs with
  | .error e => .error e
  | .ok order => filterLoop step incl order ⟨gs, [], []⟩

/-! ### decompose / decomposeTransformed -/

def decomposeStep (st : FState) (g : Glyph) : Except GErr (FState × Bool) :=
  if g.comps.isEmpty then .ok (st, false)
  else match decomposeGlyph st.gs true none g with
    | .error e => .error e
    | .ok g' => .ok ({ st with gs := st.gs.set g.name g' }, true)

def isTransformed (k : Comp) : Bool := k.t.linear != (1, 0, 0, 1)

def decomposeTransformedStep (st : FState) (g : Glyph) : Except GErr (FState × Bool) :=
  if g.comps.any isTransformed then decomposeStep st g else .ok (st, false)

/-! ### skipExportGlyphs -/

def skipExportStep (skip : List String) (st : FState) (g : Glyph) : Except GErr (FState × Bool) :=
  if g.comps.isEmpty || !(g.comps.any (fun k => skip.contains k.base)) then .ok (st, false)
  else match decomposeGlyph st.gs false (some skip) g with
    | .error e => .error e
    | .ok g' => .ok ({ st with gs := st.gs.set g.name g' }, true)

/-- `SkipExportGlyphsFilter.__call__` with a non-empty skip list -/
def skipExport (skip : List String) (incl : String → Bool) (gs : GlyphSet) : Except GErr FState :=
  match runFilter (skipExportStep skip) incl gs with
  | .error e => .error e
  | .ok st =>
    let present := skip.filter (fun n => (st.gs.get? n).isSome)
    .ok { st with gs := st.gs.filter (fun e => !skip.contains e.1),
                  modified := present.foldl addMod st.modified }

/-! ### flattenComponents -/

def isSimpleOrMixed (g : Glyph) : Bool := g.comps.isEmpty || !g.contours.isEmpty

mutual
/-- `_flattenComponent` -/
def flattenComp (fuel : Nat) (gs : GlyphSet) (k : Comp) : Except GErr (List Comp) :=
  match fuel with
  | 0 => .error .recursion
  | fuel + 1 =>
    match gs.get? k.base with
    | none => .error .valueError
    | some b =>
      if isSimpleOrMixed b then .ok [k]
      else flattenNested fuel gs k b.comps
def flattenNested (fuel : Nat) (gs : GlyphSet) (outer : Comp) (ks : List Comp) : Except GErr (List Comp) :=
  match ks with
  | [] => .ok []
  | n :: ns =>
    match flattenComp fuel gs n with
    | .error e => .error e
    | .ok fl =>
      -- flat_tr = Transform(*outer).translate(tr.dx, tr.dy).transform((tr.xx, tr.xy, tr.yx, tr.yy, 0, 0))
      let fl' := fl.map (fun c => (⟨c.base,
          ((outer.t.translate c.t.dx c.t.dy).compose ⟨c.t.xx, c.t.xy, c.t.yx, c.t.yy, 0, 0⟩)⟩ : Comp))
      match flattenNested fuel gs outer ns with
      | .error e => .error e
      | .ok r => .ok (fl' ++ r)
end

/-- `_flattenGlyphComponents`: new component list and the `flattened` flag -/
def flattenGlyphComps (gs : GlyphSet) : List Comp → Except GErr (List Comp × Bool)
  | [] => .ok ([], false)
  | k :: ks =>
    match flattenComp (gs.length + 1) gs k with
    | .error e => .error e
    | .ok fl =>
      match fl.head? with
      | none => .error .assertion
      | some h =>
        match flattenGlyphComps gs ks with
        | .error e => .error e
        | .ok (r, f) => .ok (fl ++ r, (h != k) || f)

def flattenStep (st : FState) (g : Glyph) : Except GErr (FState × Bool) :=
  if g.comps.isEmpty then .ok (st, false)
  else match flattenGlyphComps st.gs g.comps with
    | .error e => .error e
    | .ok (cs, f) => .ok ({ st with gs := st.gs.set g.name { g with comps := cs } }, f)

/-! ### transformations -/

structure TOpts where
  offsetX : Q
  offsetY : Q
  scaleX : Q        -- percent
  scaleY : Q
  slantNonzero : Bool
  tanSlant : Q      -- math.tan(math.radians(Slant)), supplied by the harness (external trig)
  originHeight : Q

/-- `TransformationsFilter.set_context` -/
def tMatrix (o : TOpts) : Affine :=
  let m := Affine.id
  let m := if o.offsetX != 0 || o.offsetY != 0 then m.translate o.offsetX o.offsetY else m
  if o.scaleX != 100 || o.scaleY != 100 || o.slantNonzero then
    let m := if o.originHeight != 0 then m.translate 0 o.originHeight else m
    let m := if o.scaleX != 100 || o.scaleY != 100 then m.scale (o.scaleX / 100) (o.scaleY / 100) else m
    let m := if o.slantNonzero then m.compose ⟨1, 0, o.tanSlant, 1, 0, 0⟩ else m
    if o.originHeight != 0 then m.translate 0 (-o.originHeight) else m
  else m

/-- replaying the recorded glyph through the filter's `TransformPointPen(outpen, matrix, modified)` -/
def transformBody (m minv : Affine) (modified : List String) (g : Glyph) : Glyph :=
  { g with
    contours := g.contours.map (Contour.map m)
    comps := g.comps.map (fun k =>
      let t := if modified.contains k.base then k.t.compose minv else k.t
      ⟨k.base, m.compose t⟩)
    anchors := g.anchors.map (fun a => let p := m.apply (a.x, a.y); { a with x := p.1, y := p.2 })
    width := (m.applyVec (g.width, g.height)).1
    height := (m.applyVec (g.width, g.height)).2 }

mutual
/-- `TransformationsFilter.filter` -/
def transformGlyph (fuel : Nat) (m minv : Affine) (incl : String → Bool) (st : FState) (name : String) :
    Except GErr (FState × Bool) :=
  match fuel with
  | 0 => .error .recursion
  | fuel + 1 =>
    match st.gs.get? name with
    | none => .error (.missing name)
    | some g =>
      if m == Affine.id || (g.contours.isEmpty && g.comps.isEmpty && g.anchors.isEmpty) then .ok (st, false)
      else
        match transformBases fuel m minv incl st g.comps with
        | .error e => .error e
        | .ok st' =>
          -- the glyph object is the same; its data are read after the recursion
          match st'.gs.get? name with
          | none => .error (.missing name)
          | some g' => .ok ({ st' with gs := st'.gs.set name (transformBody m minv st'.modified g') }, true)
def transformBases (fuel : Nat) (m minv : Affine) (incl : String → Bool) (st : FState) (ks : List Comp) :
    Except GErr FState :=
  match ks with
  | [] => .ok st
  | k :: ks =>
    if st.modified.contains k.base then transformBases fuel m minv incl st ks
    else match st.gs.get? k.base with
      | none => .error (.missing k.base)
      | some _ =>
        if incl k.base then
          match transformGlyph fuel m minv incl st k.base with
          | .error e => .error e
          | .ok (st', r) =>
            transformBases fuel m minv incl (if r then { st' with modified := addMod st'.modified k.base } else st') ks
        else transformBases fuel m minv incl st ks
end

def transformStep (m : Affine) (incl : String → Bool) (st : FState) (g : Glyph) : Except GErr (FState × Bool) :=
  transformGlyph (st.gs.length + 1) m m.inverse incl st g.name

/-! ### propagateAnchors -/

abbrev AnchorData := List (String × (Q × Q))

def adSet (d : AnchorData) (k : String) (v : Q × Q) : AnchorData :=
  if d.any (fun e => e.1 == k) then d.map (fun e => if e.1 == k then (k, v) else e) else d ++ [(k, v)]

/-- `_get_anchor_data`: `comps` = (component, base glyph) for the base components -/
def getAnchorData (d : AnchorData) (comps : List (Comp × Glyph)) (name : String) : AnchorData :=
  let found := comps.filterMap (fun (k, b) => (b.anchors.find? (fun a => a.name == name)).map (fun a => (a, k)))
  match found with
  | [] => d
  | [(a, k)] => adSet d a.name (k.t.apply (a.x, a.y))
  | _ => (found.zipIdx.foldl (fun d ((a, k), i) => adSet d s!"{a.name}_{i + 1}" (k.t.apply (a.x, a.y))) d)

/-- `_adjust_anchors` for one mark component -/
def adjustAnchors (d : AnchorData) (k : Comp) (b : Glyph) : AnchorData :=
  b.anchors.foldl (fun d a =>
    if d.any (fun e => e.1 == a.name) && b.anchors.any (fun a' => a'.name == "_" ++ a.name)
    then adSet d a.name (k.t.apply (a.x, a.y)) else d) d

def isLigatureMark (n : String) : Bool := !n.startsWith "_" && n.contains '_'

structure PSplit where
  baseComps : List (Comp × Glyph)
  markComps : List (Comp × Glyph)
  names : List String

/-! #### `_bounds` / `_distance` / `_component_closest_to_origin` (mark-ligature promotion)

`_bounds(component, glyph_set)` draws the component into a fontTools `BoundsPen(glyph_set)` (ufoLib2) or reads defcon's
`component.bounds` (the same pen over the component's layer) and keeps `(xMin, yMin)`; the pen's `bounds` is `None` when
nothing was drawn, and `None[:2]` raises `TypeError`, re-raised as `Exception`.  The filter never changes outlines or
components, so the value is a function of the component alone: the model takes it as `bnd : Comp → Option (Q × Q)`.
For outlines without curve segments the pen's rule (bounding box of every point, nested components through composed
`TransformPen`s, missing nested bases skipped) is `lineBounds` below, and that is what the driver passes; only for outlines
with curve / qcurve segments (extrema of Béziers: square roots) the harness supplies the pen's value. -/

mutual
/-- the points `glyph.draw(TransformPen(boundsPen, t))` feeds to the pen; `none` = a curve segment occurs (not modelled)
    or the fuel ran out -/
def penPoints (fuel : Nat) (gs : GlyphSet) (t : Affine) (g : Glyph) : Option (List (Q × Q)) :=
  match fuel with
  | 0 => none
  | fuel + 1 =>
    if g.contours.all (fun c => List.all c (fun (p : Pt) => p.seg == some .line || p.seg == some .move)) then
      match penPointsComps fuel gs t g.comps with
      | none => none
      | some r => some (g.contours.flatMap (fun c => List.map (fun (p : Pt) => t.apply (p.x, p.y)) c) ++ r)
    else none
def penPointsComps (fuel : Nat) (gs : GlyphSet) (t : Affine) (ks : List Comp) : Option (List (Q × Q)) :=
  match ks with
  | [] => some []
  | k :: ks =>
    match gs.get? k.base with
    | none => penPointsComps fuel gs t ks              -- `skipMissingComponents`
    | some b =>
      match penPoints fuel gs (t.compose k.t) b, penPointsComps fuel gs t ks with
      | some a, some r => some (a ++ r)
      | _, _ => none
end

def minQ : Q → List Q → Q
  | m, [] => m
  | m, x :: xs => minQ (if x < m then x else m) xs

/-- `pen.bounds[:2]` of a point cloud; `none` = `pen.bounds is None` -/
def lowerLeft : List (Q × Q) → Option (Q × Q)
  | [] => none
  | p :: ps => some (minQ p.1 (ps.map (·.1)), minQ p.2 (ps.map (·.2)))

/-- `_bounds(component, glyph_set)` for outlines made of line segments: outer `none` = not modelled (curves),
    inner `none` = nothing drawn (`pen.bounds is None`) -/
def lineBounds (gs : GlyphSet) (k : Comp) : Option (Option (Q × Q)) :=
  (penPointsComps (gs.length + 1) gs Affine.id [k]).map lowerLeft

/-- `_distance((0, 0), pos)`: the SQUARED distance (no square root in the code) -/
def dist2 (p : Q × Q) : Q := (0 - p.1) * (0 - p.1) + (0 - p.2) * (0 - p.2)

/-- Python `min(seq, key=...)` on the keys: index and key of the FIRST minimal element -/
def firstMin : List Q → Option (Nat × Q)
  | [] => none
  | d :: ds =>
    match firstMin ds with
    | none => some (0, d)
    | some (i, m) => if m < d then some (i + 1, m) else some (0, d)

/-- the keys `min` evaluates: `none` as soon as one component has no bounds (`TypeError` → `Exception`) -/
def distKeys (bnd : Comp → Option (Q × Q)) : List (Comp × Glyph) → Option (List Q)
  | [] => some []
  | (k, _) :: ms =>
    match bnd k, distKeys bnd ms with
    | some p, some r => some (dist2 p :: r)
    | _, _ => none

/-- `if mark_components and not base_components and _is_ligature_mark(composite): ...`: the mark component whose
    bounds' lower-left corner is closest to the origin becomes the (only) base component -/
def promoteSplit (bnd : Comp → Option (Q × Q)) (name : String) (sp : PSplit) : Except GErr PSplit :=
  if !sp.markComps.isEmpty && sp.baseComps.isEmpty && isLigatureMark name then
    match distKeys bnd sp.markComps with
    | none => .error .exception
    | some keys =>
      match firstMin keys with
      | none => .error .assertion          -- unreachable: the list is not empty
      | some (i, _) =>
        match sp.markComps[i]? with
        | none => .error .assertion        -- unreachable
        | some (k, b) =>
          .ok ⟨sp.baseComps ++ [(k, b)], sp.markComps.eraseIdx i,
               b.anchors.foldl (fun l a => addMod l a.name) sp.names⟩
  else .ok sp

mutual
/-- `_propagate_glyph_anchors(glyphSet, composite, processed, modified, categories)` -/
def propagate (fuel : Nat) (bnd : Comp → Option (Q × Q)) (marks : List String) (st : FState) (name : String) :
    Except GErr FState :=
  match fuel with
  | 0 => .error .recursion
  | fuel + 1 =>
    if st.processed.contains name then .ok st
    else
      let st := { st with processed := st.processed ++ [name] }
      match st.gs.get? name with
      | none => .error (.missing name)
      | some g =>
        if g.comps.isEmpty || (marks.contains name && !g.anchors.isEmpty) then .ok st
        else
          match propagateComps fuel bnd marks st g.comps ⟨[], [], []⟩ with
          | .error e => .error e
          | .ok (st', sp0) =>
            match promoteSplit bnd name sp0 with
            | .error e => .error e
            | .ok sp =>
              -- `for anchor_name in sorted(anchor_names)` (sorted since the fix: commit 3e34893)
              let toAdd := (sortStr sp.names).foldl (fun d an =>
                if g.anchors.any (fun a => a.name.startsWith an) then d else getAnchorData d sp.baseComps an) []
              let toAdd := sp.markComps.foldl (fun d (k, b) => adjustAnchors d k b) toAdd
              let sorted := toAdd.mergeSort (fun a b => strLe a.1 b.1)
              let g' := { g with anchors := g.anchors ++ sorted.map (fun e => ⟨e.1, e.2.1, e.2.2⟩) }
              .ok (if toAdd.isEmpty then st' else
                { st' with gs := st'.gs.set name g', modified := addMod st'.modified name })
def propagateComps (fuel : Nat) (bnd : Comp → Option (Q × Q)) (marks : List String) (st : FState) (ks : List Comp)
    (sp : PSplit) : Except GErr (FState × PSplit) :=
  match ks with
  | [] => .ok (st, sp)
  | k :: ks =>
    match st.gs.get? k.base with
    | none => propagateComps fuel bnd marks st ks sp           -- missing base: warning only
    | some _ =>
      match propagate fuel bnd marks st k.base with
      | .error e => .error e
      | .ok st' =>
        match st'.gs.get? k.base with
        | none => .error (.missing k.base)
        | some b =>
          if b.anchors.any (fun a => a.name.startsWith "_") then
            propagateComps fuel bnd marks st' ks { sp with markComps := sp.markComps ++ [(k, b)] }
          else
            propagateComps fuel bnd marks st' ks
              { sp with baseComps := sp.baseComps ++ [(k, b)],
                        names := b.anchors.foldl (fun l a => addMod l a.name) sp.names }
end

/-- `PropagateAnchorsFilter.filter` -/
def propagateStep (bnd : Comp → Option (Q × Q)) (marks : List String) (st : FState) (g : Glyph) :
    Except GErr (FState × Bool) :=
  if g.comps.isEmpty then .ok (st, false)
  else match propagate (st.gs.length + 1) bnd marks st g.name with
    | .error e => .error e
    | .ok st' =>
      let after := match st'.gs.get? g.name with | some g' => g'.anchors.length | none => 0
      .ok (st', decide (after > g.anchors.length))

end Ufo2ft
