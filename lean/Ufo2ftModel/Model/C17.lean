import Ufo2ftModel.Basic
/-!
Model of
  featureWriters/baseFeatureWriter.py : INSERT_FEATURE_MARKER, BaseFeatureWriter.setContext / shouldContinue / write,
                                         collectInsertMarkers, _insert
  featureWriters/ast.py               : findCommentPattern, iterFeatureBlocks / findFeatureTags, findTable
  featureWriters/gdefFeatureWriter.py : GdefFeatureWriter.setContext (what is left to do) and the placement part of _write
  featureCompiler.py                  : FeatureCompiler._load_custom_feature_writers, initFeatureWriters

The feature file (`feaLib.ast.FeatureFile.statements`) is a list of statements.  User statements carry a unique id
(object identity in Python); generated ones carry the id the harness gave them.  Two levels are modelled exactly
(top level, inside a top-level block) and a third one only as far as `findCommentPattern` looks at it (comments
inside a block nested in a block).
-/
namespace Ufo2ft.C17

inductive BKind | feature | lookup | table | other
  deriving DecidableEq, Repr

/-- where a block object comes from: parsed from the user's file, or made by `_insert` when it splits a block -/
inductive Origin | user (uid : Nat) | split
  deriving DecidableEq, Repr

/-- a statement inside a top-level block -/
inductive Item
  | leaf (uid : Nat)                               -- any user statement that is neither a Comment nor has `.statements`
  | comment (uid : Nat) (text : String)            -- ast.Comment
  | sub (uid : Nat) (comments : List String)       -- a nested block (has `.statements`); the texts of the comments in it
  | gen (gid : Nat)                                -- generated statement put inside a user block (GDEF writer)
  deriving DecidableEq, Repr

/-- generated top-level statements -/
inductive Gen
  | feature (tag : String) (gid : Nat)             -- a FeatureBlock made by a writer
  | lookup (gid : Nat)                             -- a LookupBlock passed as `lookups=`
  | defn (gid : Nat)                               -- classDefs / anchorDefs / markClassDefs
  | blank                                          -- the `ast.Comment("")` that closes each group of definitions
  | other (gid : Nat)                              -- anything else appended by a writer (e.g. a new `table GDEF`)
  deriving DecidableEq, Repr

inductive Stmt
  | leaf (uid : Nat)
  | comment (uid : Nat) (text : String)
  | block (o : Origin) (kind : BKind) (tag : String) (ext : Bool) (body : List Item)
  | gen (g : Gen)
  deriving DecidableEq, Repr

abbrev File := List Stmt

/-! ### INSERT_FEATURE_MARKER = r"\s*# Automatic Code.*"  used with `re.match(pattern, str(comment))` -/

/-- Python's `\s` on `str` patterns = `str.isspace()`. -/
def isPyWs (c : Char) : Bool :=
  let n := c.toNat
  (9 ≤ n && n ≤ 13) || (28 ≤ n && n ≤ 32) || n == 0x85 || n == 0xA0 || n == 0x1680 ||
  (0x2000 ≤ n && n ≤ 0x200A) || n == 0x2028 || n == 0x2029 || n == 0x202F || n == 0x205F || n == 0x3000

def markerLit : List Char := "# Automatic Code".toList

/-- `re.match(r"\s*# Automatic Code.*", text) is not None` : greedy whitespace, then the literal; `.*` matches anything. -/
def isMarker (text : String) : Bool := markerLit.isPrefixOf (text.toList.dropWhile isPyWs)

/-! ### ast.findCommentPattern / collectInsertMarkers -/

/-- one result of `findCommentPattern`: the chain of enclosing blocks (outermost first, as (isFeatureBlock, tag, uid?))
and the matching comment (uid, `none` for comments of the unmodelled third level). -/
structure Match where
  blocks : List (Bool × String × Option Nat)
  comment : Option Nat
  deriving Repr

def Item.isComment : Item → Bool | .comment .. => true | _ => false

def originUid : Origin → Option Nat | .user u => some u | .split => none

/-- matches inside one block's statements -/
def itemMatches (pat : String → Bool) (blk : Bool × String × Option Nat) : List Item → List Match
  | [] => []
  | .comment u t :: l => (if pat t then [{ blocks := [blk], comment := some u }] else []) ++ itemMatches pat blk l
  | .sub u cs :: l =>
      (cs.filter pat).map (fun _ => { blocks := [blk, (false, "", some u)], comment := none }) ++ itemMatches pat blk l
  | _ :: l => itemMatches pat blk l

def findCommentPattern (pat : String → Bool) : File → List Match
  | [] => []
  | .comment u t :: l => (if pat t then [{ blocks := [], comment := some u }] else []) ++ findCommentPattern pat l
  | .block o k tag _ body :: l =>
      itemMatches pat (k == .feature, tag, originUid o) body ++ findCommentPattern pat l
  | _ :: l => findCommentPattern pat l

/-- an entry of the `insertComments` dict: tag -> (block, comment).  Python keeps the two objects; the model keeps the
comment's uid, which identifies the block as well (the top-level feature block that holds that comment). -/
structure Marker where
  tag : String
  comment : Nat
  deriving Repr, DecidableEq

/-- `len(blocks) == 1 and isinstance(blocks[0], ast.FeatureBlock)`: the match is directly inside a top-level feature block -/
def depth1 (m : Match) : Option Marker :=
  match m.blocks, m.comment with
  | [(true, tag, _)], some c => some ⟨tag, c⟩
  | _, _ => none

/-- the `for match in findCommentPattern(...)` loop of collectInsertMarkers; the dict is an association list
in insertion order, keyed by feature tag. -/
def collectLoop (featureTags : List String) : List Match → List Marker → List Marker
  | [], acc => acc
  | m :: ms, acc =>
    match depth1 m with
    | some mk =>
      if featureTags.contains mk.tag && !(acc.any (·.tag == mk.tag)) then collectLoop featureTags ms (acc ++ [mk])
      else collectLoop featureTags ms acc
    | none => collectLoop featureTags ms acc

def collectInsertMarkers (f : File) (featureTags : List String) : List Marker :=
  collectLoop featureTags (findCommentPattern isMarker f) []

/-! ### setContext -/

/-- ast.findFeatureTags: names of the top-level FeatureBlocks (user, split-made, or generated by an earlier writer) -/
def findFeatureTags : File → List String
  | [] => []
  | .block _ .feature tag _ _ :: l => tag :: findFeatureTags l
  | .gen (.feature tag _) :: l => tag :: findFeatureTags l
  | _ :: l => findFeatureTags l

structure Feat where
  tag : String
  gid : Nat
  deriving Repr, DecidableEq

/-- what the harness knows about one writer -/
structure Writer where
  features : List String          -- the writer's `features` (a frozenset; order irrelevant)
  skip : Bool                     -- mode == "skip"  (else "append")
  pattern : Bool                  -- insertFeatureMarker is not None
  produce : List Feat             -- the feature blocks the writer can build, in the order it hands them to `_insert`
  lookups : List Nat
  classDefs : List Nat
  anchorDefs : List Nat
  markClassDefs : List Nat
  deriving Repr

structure Ctx where
  todo : List String
  insertComments : Option (List Marker)
  existing : List String
  deriving Repr

def setContext (w : Writer) (f : File) : Ctx :=
  if w.skip then
    let ic := if w.pattern then some (collectInsertMarkers f w.features) else none
    let existing0 := findFeatureTags f
    let existing := match ic with                      -- existing.difference_update(insertComments.keys())
      | some l => existing0.filter (fun t => !(l.any (·.tag == t)))
      | none => existing0
    { todo := w.features.filter (fun t => !existing.contains t), insertComments := ic, existing := existing }
  else
    { todo := w.features, insertComments := none, existing := [] }

/-! ### _insert -/

inductive Err | valueError
  deriving DecidableEq, Repr

/-- Python `list.insert(i, x)` -/
def insertAt (l : List α) (i : Nat) (x : α) : List α := l.take i ++ x :: l.drop i

structure St where
  stmts : File
  indices : List Nat
  inserted : List Nat
  deriving Repr

def genFeat (f : Feat) : Stmt := .gen (.feature f.tag f.gid)

def isCommentUid (c : Nat) : Item → Bool | .comment u _ => u == c | _ => false

/-- the block object stored in `insertComments[tag]` is the top-level feature block that holds the comment object;
`statements.index(block)` = its position now. -/
def holdsComment (c : Nat) : Stmt → Bool
  | .block _ .feature _ _ body => body.any (isCommentUid c)
  | _ => false

/-- "Now walk feature list backwards and insert any dependent features": `rev` = features[ix-1], features[ix-2], … -/
def walkBack (index : Nat) : List Feat → St → St
  | [], st => st
  | f :: rest, st =>
    if st.inserted.contains f.gid then st
    else walkBack index rest
      { stmts := insertAt st.stmts index (genFeat f),
        indices := index :: st.indices.map (· + 1),
        inserted := f.gid :: st.inserted }

/-- the four positions of a marker: what happens to the block at position `p` whose `body` has the marker at `mi`;
returns the new statements and the index where the feature goes -/
def splice (stmts : File) (p : Nat) (o : Origin) (k : BKind) (tag : String) (ext : Bool) (body : List Item) (mi : Nat) :
    File × Nat :=
  let before := (body.take mi).all Item.isComment                     -- onlyCommentsBefore
  let after := (body.drop mi).all Item.isComment                      -- onlyCommentsAfter (the marker itself included)
  let body' := body.eraseIdx mi                                       -- del block.statements[markerIndex]
  let cur := stmts.set p (.block o k tag ext body')
  if before && after then (cur.eraseIdx p, p)                         -- statements.remove(block)
  else if before then (cur, p)
  else if after then (cur, p + 1)
  else
    let afterBlock := Stmt.block .split .feature tag false (body'.drop mi)
    ((insertAt cur (p + 1) afterBlock).set p (.block o k tag ext (body'.take mi)), p + 1)

/-- body of the first loop of `_insert` for a feature that has an insert marker -/
def placeMarked (st : St) (rev : List Feat) (f : Feat) (c : Nat) : Except Err St :=
  match st.stmts.findIdx? (holdsComment c) with
  | none => .error .valueError
  | some p =>
    match st.stmts[p]? with
    | some (.block o k tag ext body) =>
      match body.findIdx? (isCommentUid c) with
      | none => .error .valueError
      | some mi =>
        let r := splice st.stmts p o k tag ext body mi
        let st1 : St := { stmts := insertAt r.1 r.2 (genFeat f), indices := st.indices ++ [r.2],
                          inserted := f.gid :: st.inserted }
        .ok (walkBack r.2 rev st1)
    | _ => .error .valueError

/-- first loop: `for ix, feature in enumerate(features)`; `rev` = the features already passed, most recent first -/
def loop1 (ic : List Marker) : List Feat → List Feat → St → Except Err St
  | [], _, st => .ok st
  | f :: rest, rev, st =>
    match ic.find? (·.tag == f.tag) with
    | some m =>
      match placeMarked st rev f m.comment with
      | .ok st' => loop1 ic rest (f :: rev) st'
      | .error e => .error e
    | none => loop1 ic rest (f :: rev) st

/-- "Finally, deal with any remaining features" -/
def loop2 : List Feat → St → St
  | [], st => st
  | f :: rest, st =>
    if st.inserted.contains f.gid then loop2 rest st
    else loop2 rest { st with stmts := insertAt st.stmts st.stmts.length (genFeat f),
                              indices := st.indices ++ [st.stmts.length] }

def defGroup (l : List Nat) : File := if l.isEmpty then [] else l.map (fun g => .gen (.defn g)) ++ [.gen .blank]

def insert (stmts : File) (ic : Option (List Marker)) (w : Writer) (feats : List Feat) : Except Err File :=
  match loop1 (ic.getD []) feats [] { stmts := stmts, indices := [], inserted := [] } with
  | .error e => .error e
  | .ok st1 =>
    let st := loop2 feats st1
    match st.indices.min? with
    | none => .error .valueError                                        -- min([])
    | some m =>
      let s := if w.lookups.isEmpty then st.stmts
               else st.stmts.take m ++ w.lookups.map (fun g => .gen (.lookup g)) ++ st.stmts.drop m
      .ok (defGroup w.classDefs ++ defGroup w.anchorDefs ++ defGroup w.markClassDefs ++ s)

/-- BaseFeatureWriter.write with a `_write` of the shape all shipped `_insert`-using writers have:
build the feature blocks for the tags in `todo`, return False if there are none, else `_insert`. -/
def write (w : Writer) (f : File) : Except Err File :=
  let ctx := setContext w f
  if ctx.todo.isEmpty then .ok f                                        -- shouldContinue
  else
    let feats := w.produce.filter (fun p => ctx.todo.contains p.tag)
    if feats.isEmpty then .ok f else insert f ctx.insertComments w feats

/-! ### GdefFeatureWriter._write : the only shipped writer that does not go through `_insert` -/

def isGdefTable : Stmt → Bool | .block _ k tag _ _ => k == .table && tag == "GDEF" | _ => false

/-- `findTable(feaFile, "GDEF")` or a new block appended at the end; the generated statements go inside.
`active` = the writer found something to write (its `shouldContinue`; depends on font data, not modelled). -/
def gdefWrite (active : Bool) (items : List Nat) (newGid : Nat) (f : File) : File :=
  if !active then f else
  match f.findIdx? isGdefTable with
  | some p =>
    match f[p]? with
    | some (.block o k tag ext body) => f.set p (.block o k tag ext (body ++ items.map Item.gen))
    | _ => f
  | none => f ++ [.gen (.other newGid)]

/-! ### GdefFeatureWriter.setContext : what is still to be generated -/

/-- the statement types `GdefFeatureWriter.setContext` tells apart inside the user's `table GDEF` -/
inductive GKind
  | glyphClassDef                                  -- ast.GlyphClassDefStatement
  | caretByIndex                                   -- ast.LigatureCaretByIndexStatement
  | caretByPos                                     -- ast.LigatureCaretByPosStatement
  | other                                          -- Attach, comments, anything else
  deriving DecidableEq, Repr

/-- what the harness knows when the GDEF writer runs: the type of every user statement that stands in a `table GDEF`
(read from the user's text, by uid), and the two facts about the font that decide whether there is data to write -/
structure GdefIn where
  kinds : List (Nat × GKind)
  hasCats : Bool                  -- any(OpenTypeCategories.load(font)): some glyph has a valid public.openTypeCategories value
  carets : Nat                    -- len(_getLigatureCarets()): glyphs with a caret_* / vcaret_* anchor
  base : Nat                      -- ids for the generated statements are base+1, base+2, …
  deriving Repr

def itemKind (kinds : List (Nat × GKind)) : Item → GKind
  | .leaf u => (kinds.lookup u).getD .other
  | _ => .other

/-- `ast.findTable(feaFile, "GDEF")`: the statements of the first top-level `table GDEF` -/
def findGdefTable (f : File) : Option (List Item) :=
  match f.find? isGdefTable with
  | some (.block _ _ _ _ body) => some body
  | _ => none

/-- `ctx.todo` restricted to the writer's two features -/
structure GTodo where
  classDefs : Bool                -- "GlyphClassDefs" in todo
  carets : Bool                   -- "LigatureCarets" in todo
  deriving DecidableEq, Repr

/-- the `for fea in ctx.gdefTableBlock.statements` loop, with its `if not ctx.todo: break` -/
def gdefScan : List GKind → GTodo → GTodo
  | [], t => t
  | k :: l, t =>
    let t' : GTodo := match k with
      | .glyphClassDef => { t with classDefs := false }
      | .caretByIndex => { t with carets := false }
      | .caretByPos => { t with carets := false }
      | .other => t
    if !t'.classDefs && !t'.carets then t' else gdefScan l t'

/-- the statements of one top-level statement if it is a `table GDEF` block -/
def gdefBody (s : Stmt) : List Item :=
  if isGdefTable s then (match s with | .block _ _ _ _ body => body | _ => []) else []

/-- `[fea for block in feaFile.statements if isinstance(block, ast.TableBlock) and block.name == "GDEF"
      for fea in block.statements]`: the feature file may define the GDEF table in several blocks -/
def gdefStatements : File → List Item
  | [] => []
  | s :: l => gdefBody s ++ gdefStatements l

/-- GdefFeatureWriter.setContext.  `super().setContext` gives todo = features - existing feature tags; the writer's
features ("GlyphClassDefs", "LigatureCarets") are no feature tags, so that is all of them (in "append" mode too).
`ctx.gdefTableBlock` (where `_write` appends) is the FIRST `table GDEF`; the scan ranges over ALL of them. -/
def gdefTodo (i : GdefIn) (f : File) : GTodo :=
  let t := match findGdefTable f with                       -- `if ctx.gdefTableBlock:`
    | some _ => gdefScan ((gdefStatements f).map (itemKind i.kinds)) ⟨true, true⟩
    | none => ⟨true, true⟩
  ⟨t.classDefs && i.hasCats, t.carets && i.carets != 0⟩

/-- OLD RULE (ufo2ft before the repair; kept only for the counterexample in Props and the driver's diagnostics):
the scan looked at the statements of the first `table GDEF` block only -/
def gdefTodoFirstBlock (i : GdefIn) (f : File) : GTodo :=
  let t := match findGdefTable f with
    | some body => gdefScan (body.map (itemKind i.kinds)) ⟨true, true⟩
    | none => ⟨true, true⟩
  ⟨t.classDefs && i.hasCats, t.carets && i.carets != 0⟩

/-- the statements `_write` builds, in its order: one GlyphClassDef, then one LigatureCaretByPos per glyph with carets -/
def gdefGen (t : GTodo) (carets : Nat) : List GKind :=
  (if t.classDefs then [.glyphClassDef] else []) ++ (if t.carets then List.replicate carets .caretByPos else [])

def gdefGenOf (i : GdefIn) (f : File) : List GKind := gdefGen (gdefTodo i f) i.carets

/-- GdefFeatureWriter.write: setContext, shouldContinue (`todo` not empty), `_write` -/
def gdefStep (i : GdefIn) (f : File) : File :=
  let gen := gdefGenOf i f
  gdefWrite (!gen.isEmpty) ((List.range gen.length).map (fun k => i.base + 1 + k)) (i.base + 1) f

/-- OLD RULE: the writer with the first-block-only scan (see `gdefTodoFirstBlock`) -/
def gdefGenOfFirstBlock (i : GdefIn) (f : File) : List GKind := gdefGen (gdefTodoFirstBlock i f) i.carets

def gdefStepFirstBlock (i : GdefIn) (f : File) : File :=
  let gen := gdefGenOfFirstBlock i f
  gdefWrite (!gen.isEmpty) ((List.range gen.length).map (fun k => i.base + 1 + k)) (i.base + 1) f

inductive Step
  | writer (w : Writer)
  | gdef (i : GdefIn)

def step : Step → File → Except Err File
  | .writer w, f => write w f
  | .gdef i, f => .ok (gdefStep i f)

/-- the `for writer in self.featureWriters: writer.write(...)` loop; returns the file after each writer -/
def runAll : List Step → File → Except Err (List File)
  | [], _ => .ok []
  | s :: ss, f =>
    match step s f with
    | .error e => .error e
    | .ok f' => match runAll ss f' with
      | .error e => .error e
      | .ok l => .ok (f' :: l)

/-! ### FeatureCompiler._load_custom_feature_writers / initFeatureWriters -/

/-- an entry of the `featureWriters=` argument: the ellipsis or a writer (id, tableTag) -/
inductive WArg | ellipsis | writer (id : Nat) (tableTag : String)
  deriving DecidableEq, Repr

inductive WErr | ellipsisTwice
  deriving DecidableEq, Repr

def loadLoop (fromLibOrDefault : List (Nat × String)) : List WArg → Bool → List (Nat × String) → Except WErr (List (Nat × String))
  | [], _, acc => .ok acc
  | .ellipsis :: l, seen, acc =>
    if seen then .error .ellipsisTwice else loadLoop fromLibOrDefault l true (acc ++ fromLibOrDefault)
  | .writer i t :: l, seen, acc => loadLoop fromLibOrDefault l seen (acc ++ [(i, t)])

/-- `featureWriters=None` means `[...]`; `lib` = loadFeatureWriters(ufo) (None if the key is absent); `dflt` = the class default -/
def loadCustom (arg : Option (List WArg)) (lib : Option (List (Nat × String))) (dflt : List (Nat × String)) :=
  loadLoop (lib.getD dflt) (arg.getD [.ellipsis]) false []

def partLoop : List (Nat × String) → List (Nat × String) → List (Nat × String) → List (Nat × String)
  | [], gsub, others => gsub ++ others
  | w :: l, gsub, others => if w.2 == "GSUB" then partLoop l (gsub ++ [w]) others else partLoop l gsub (others ++ [w])

def initFeatureWriters (arg : Option (List WArg)) (lib : Option (List (Nat × String))) (dflt : List (Nat × String)) :
    Except WErr (List (Nat × String)) :=
  match loadCustom arg lib dflt with
  | .error e => .error e
  | .ok l => .ok (partLoop l [] [])

/-- the shipped writers: (class, tableTag) -/
def shippedWriters : List (String × String) :=
  [("CursFeatureWriter", "GPOS"), ("KernFeatureWriter", "GPOS"), ("MarkFeatureWriter", "GPOS"), ("GdefFeatureWriter", "GDEF")]

end Ufo2ft.C17
