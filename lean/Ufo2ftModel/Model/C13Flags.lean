/-! Model of the USE_MY_METRICS part of `InstructionCompiler._set_composite_flags` / `autoUseMyMetrics`
    (Lib/ufo2ft/instructionCompiler.py): the components of the compiled `glyf` glyph (from the PRE-PROCESSED glyph set, i.e.
    after SkipExportGlyphsFilter) are paired BY INDEX with the components of the ORIGINAL UFO glyph, whose identifiers select
    entries of `public.objectLibs`. -/
namespace Ufo2ft.C13

/-- what `public.objectLibs` says for one component of the UFO glyph, as `_set_composite_flags` reads it -/
inductive CLib where
  /-- no identifier, no entry, or an entry with neither `public.truetype.roundOffsetToGrid` nor `…useMyMetrics`: flags left alone -/
  | untouched
  /-- an entry; the value of `public.truetype.useMyMetrics` if the key is there -/
  | entry (metrics : Option Bool)
deriving Repr, BEq, DecidableEq

/-- a component of the compiled glyph: base glyph, "no 2×2 part and no horizontal shift" (`transform[:-1] == (1,0,0,1,0)`),
    the USE_MY_METRICS flag -/
structure TTComp where
  base : String
  plain : Bool
  useMy : Bool
deriving Repr, BEq, DecidableEq

/-- the loop over `ttglyph.components`; `taken`: `use_my_metrics_comp is not None` -/
def libLoop : Bool → List CLib → List TTComp → List TTComp
  | _, [], cs => cs
  | _, _ :: _, [] => []
  | taken, .untouched :: us, c :: cs => c :: libLoop taken us cs
  | taken, .entry m :: us, c :: cs =>
    if m.getD false then
      if taken then { c with useMy := false } :: libLoop taken us cs
      else { c with useMy := true } :: libLoop true us cs
    else { c with useMy := false } :: libLoop taken us cs

/-- `lib_contains_use_my_metrics_key` -/
def hasKey (us : List CLib) : Bool := us.any (fun u => match u with | .entry (some _) => true | _ => false)

/-- `autoUseMyMetrics`: the first plain component with the advance of the composite gets the flag -/
def autoFlag (adv : String → Option Int) (own : Int) : List TTComp → List TTComp
  | [] => []
  | c :: cs => if adv c.base == some own && c.plain then { c with useMy := true } :: cs else c :: autoFlag adv own cs

/-- `_set_composite_flags` (USE_MY_METRICS): `us` from the original UFO glyph, `cs` the compiled components -/
def setCompositeFlags (adv : String → Option Int) (own : Int) (us : List CLib) (cs : List TTComp) : List TTComp :=
  if cs.length != us.length then autoFlag adv own cs
  else
    let r := libLoop false us cs
    if hasKey us then r else autoFlag adv own r

/-- the advance a rasteriser uses: that of the first flagged component, else the glyph's own -/
def effOf (adv : String → Option Int) (own : Int) (cs : List TTComp) : Option Int :=
  match cs.find? (·.useMy) with
  | some k => adv k.base
  | none => some own

end Ufo2ft.C13
