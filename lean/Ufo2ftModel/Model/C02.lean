import Ufo2ftModel.Model.Filters
import Ufo2ftModel.Model.C01
/-!
Model of the TrueType outline path for line / quadratic sources:
TTFPreProcessor default filters (decompose mixed glyphs, optional flatten, then Cu2QuPointPen's re-anchoring and
ReverseContourPointPen — or ReverseContourDirectionFilter when convertCubics=False), TTGlyphPointPen (otRound of every
coordinate and component offset), and maxp's component statistics.
-/
namespace Ufo2ft.C02
open Ufo2ft

structure Opts where
  convertCubics : Bool
  reverseDirection : Bool
  flatten : Bool

/-- Cu2QuPointPen re-anchors a closed contour at its first on-curve point (leading off-curve points move to the end) -/
def rotFirstOn (c : Contour) : Contour :=
  match C01.firstOnIdx c 0 with
  | none => c
  | some i => c.drop i ++ c.take i

/-- what the cu2qu filter / the reversal filter do to a contour without cubic segments -/
def ttContour (o : Opts) (c : Contour) : Contour :=
  if o.convertCubics then (if o.reverseDirection then reverseContour (rotFirstOn c) else rotFirstOn c)
  else if o.reverseDirection then reverseContour c else c

def hasCubic (c : Contour) : Bool := c.any (fun p => p.seg == some .curve)

/-- `DecomposeComponentsFilter(include=lambda g: len(g))`, then optionally `FlattenComponentsFilter()` -/
def preprocess (o : Opts) (gs : GlyphSet) : Except GErr GlyphSet :=
  let incl := fun n => match gs.get? n with | some g => !g.contours.isEmpty | none => false
  match runFilter decomposeStep incl gs with
  | .error e => .error e
  | .ok st =>
    if o.flatten then
      match runFilter flattenStep (fun _ => true) st.gs with
      | .error e => .error e
      | .ok st2 => .ok st2.gs
    else .ok st.gs

/-- `_GlyphSet.from_layer(..., skipExportGlyphs=skip)` (the skip-export splice, only when the list is non-empty), then the
    pre-processor's filters -/
def preprocessSkip (o : Opts) (skip : List String) (gs : GlyphSet) : Except GErr GlyphSet :=
  if skip.isEmpty then preprocess o gs
  else match skipExport skip (fun _ => true) gs with
    | .error e => .error e
    | .ok st => preprocess o st.gs

structure TTPoint where
  x : Int
  y : Int
  on : Bool
  deriving DecidableEq, Repr

structure TTComp where
  base : String
  dx : Int
  dy : Int
  lin : Q × Q × Q × Q
  deriving DecidableEq, Repr

inductive TTGlyph
  | simple (contours : List (List TTPoint))
  | composite (comps : List TTComp)
  deriving DecidableEq, Repr

def ttPts (c : Contour) : List TTPoint := List.map (fun (p : Pt) => (⟨otRound p.x, otRound p.y, p.seg.isSome⟩ : TTPoint)) c

/-- TTGlyphPointPen(...).glyph(round=otRound): a glyph with components and no contours is a composite -/
def ttGlyph (o : Opts) (g : Glyph) : TTGlyph :=
  if g.comps.isEmpty || !g.contours.isEmpty then
    .simple (g.contours.map (fun c => ttPts (ttContour o c)))
  else .composite (g.comps.map (fun k => ⟨k.base, otRound k.t.dx, otRound k.t.dy, k.t.linear⟩))

/-- longest chain of component references below a glyph (maxp.maxComponentDepth counts this) -/
def trueDepth (fuel : Nat) (gs : GlyphSet) (g : Glyph) : Nat :=
  match fuel with
  | 0 => 0
  | fuel + 1 =>
    if g.comps.isEmpty || !g.contours.isEmpty then 0
    else 1 + (g.comps.map (fun k => match gs.get? k.base with | some b => trueDepth fuel gs b | none => 0)).foldl max 0

structure Maxp where
  maxComponentElements : Nat
  maxComponentDepth : Nat
  deriving DecidableEq, Repr

def maxp (pre : GlyphSet) : Maxp :=
  let composites := pre.filter (fun e => !(e.2.comps.isEmpty || !e.2.contours.isEmpty))
  { maxComponentElements := (composites.map (fun e => e.2.comps.length)).foldl max 0
    maxComponentDepth := (pre.map (fun e => trueDepth (pre.length + 1) pre e.2)).foldl max 0 }

end Ufo2ft.C02
