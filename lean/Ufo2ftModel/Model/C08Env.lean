import Ufo2ftModel.Basic
/-!
Model for property C08, part 2: the two places where something OUTSIDE the UFO content and the options can reach the output.

  fontInfoData.py        openTypeHeadCreatedFallback (101-110) + getAttrWithFallback for `openTypeHeadCreated`:
                         the environment variable SOURCE_DATE_EPOCH, else the wall clock (`dateStringForNow`)
  propagateAnchors.py    _component_closest_to_origin / _distance / _bounds (206-236): which mark component of a
                         "ligature mark" composite is promoted to base; `_bounds` has one branch per UFO library
                         (defcon: `component.bounds`, ufoLib2: a fontTools BoundsPen) - both external, inputs here
-/
namespace Ufo2ft.C08

/-! ### head.created -/

/-- days since 1970-01-01 ↦ (year, month, day), proleptic Gregorian calendar: what
`datetime.fromtimestamp(·, timezone.utc)` shows (civil-from-days, era = 400 years = 146097 days, year starting in March) -/
def civilFromDays (z0 : Nat) : Nat × Nat × Nat :=
  let z := z0 + 719468
  let era := z / 146097
  let doe := z % 146097
  let yoe := (doe - doe / 1460 + doe / 36524 - doe / 146096) / 365
  let doy := doe - (365 * yoe + yoe / 4 - yoe / 100)
  let mp := (5 * doy + 2) / 153
  let d := doy - (153 * mp + 2) / 5 + 1
  let m := if mp < 10 then mp + 3 else mp - 9
  let y := yoe + era * 400
  (if m ≤ 2 then y + 1 else y, m, d)

/-- `t.strftime("%Y/%m/%d %H:%M:%S")` as its six numbers -/
def stampOf (e : Nat) : List Nat :=
  let c := civilFromDays (e / 86400)
  let r := e % 86400
  [c.1, c.2.1, c.2.2, r / 3600, r % 3600 / 60, r % 60]

/-- `os.environ`: SOURCE_DATE_EPOCH absent / present with a text `int()` rejects / present with value `e ≥ 0` -/
inductive Epoch | unset | invalid | value (e : Nat)
  deriving DecidableEq, Repr

/-- `getAttrWithFallback(info, "openTypeHeadCreated")`: the attribute when set, else `openTypeHeadCreatedFallback`:
`if "SOURCE_DATE_EPOCH" in os.environ: fromtimestamp(int(...)) else: dateStringForNow()`.  `now` = the wall clock. -/
def headCreated (explicit : Option (List Nat)) (env : Epoch) (now : Nat) : Except String (List Nat) :=
  match explicit with
  | some v => .ok v
  | none =>
    match env with
    | .value e => .ok (stampOf e)
    | .invalid => .error "ValueError"
    | .unset => .ok (stampOf now)

/-! ### propagateAnchors: the component closest to the origin -/

/-- `_distance((0, 0), pos2)` -/
def dist2 (p : Q × Q) : Q := (0 - p.1) * (0 - p.1) + (0 - p.2) * (0 - p.2)

/-- Python `min(iterable, key=…)`, the loop: a later element replaces the best one only when its key is strictly smaller -/
def minIdxAux : List Q → Nat → Nat → Q → Nat
  | [], _, best, _ => best
  | k :: ks, i, best, bk => if k < bk then minIdxAux ks (i + 1) i k else minIdxAux ks (i + 1) best bk

/-- index of the first element with the smallest key (`none`: `min()` of an empty sequence raises ValueError) -/
def minIdx : List Q → Option Nat
  | [] => none
  | k :: ks => some (minIdxAux ks 1 0 k)

inductive BoundsLib | defcon | ufoLib2

/-- `_component_closest_to_origin(components, glyph_set)`; `bounds lib` = the (xmin, ymin) that `_bounds` obtains for each
component through that library's branch -/
def closestToOrigin (bounds : BoundsLib → List (Q × Q)) (lib : BoundsLib) : Option Nat :=
  minIdx ((bounds lib).map dist2)

end Ufo2ft.C08
