import Ufo2ftModel.Basic
/-!
The interface ufo2ft relies on when it hands per-master values to fontTools (`varLib.build_many` / the merger for
gvar, HVAR, CFF2 blends and merged GPOS; feaLib's `VariableScalar.add_to_variation_store` for variable features):
a *variation model* that, evaluated at a master's location, returns that master's value.

* `VarModel`: locations + an interpolation function + that law as a field (the HYPOTHESIS about varLib; the harness
  measures it on every generated family through `instancer.instantiateVariableFont`).
* `DeltaModel`: fontTools' construction — support scalars per master (in model order), deltas by the triangular
  recursion of `VariationModel.getDeltas`, interpolation `Σ scalar_j(loc) · delta_j` — for which the law is PROVED
  (Props/C10.lean) from the two facts `S_i(loc_i) = 1` and `S_j(loc_i) = 0` for `j > i`.
* the one-axis instance: `region1` mirrors `_locationsToRegions` + `_computeMasterSupports` and `scalar1` mirrors
  `supportScalar` (ot=True, no extrapolation) for a single axis with range (-1, 1); the two facts are proved for any
  number of masters in any order that starts with the default.
-/
namespace Ufo2ft.C10

structure VarModel (Loc : Type) where
  locs : List Loc
  interp : Loc → List Q → Q
  law : ∀ (i : Nat) (vs : List Q) (h : i < locs.length) (hv : vs.length = locs.length),
          interp locs[i] vs = vs[i]

/-! ### deltas and interpolation as in `VariationModel` -/

/-- `Σ_j S_j(x) · d_j` over two lists zipped -/
def dot {Loc : Type} (S : List (Loc → Q)) (x : Loc) (ds : List Q) : Q :=
  match S, ds with
  | f :: S', d :: ds' => f x * d + dot S' x ds'
  | _, _ => 0

/-- `VariationModel.getDeltas` (no rounding): masters in model order as (support scalar function, location, value);
    `delta_i = v_i - Σ_{j<i} S_j(loc_i) · delta_j` -/
def deltasGo {Loc : Type} (prevS : List (Loc → Q)) (prevD : List Q) : List ((Loc → Q) × Loc × Q) → List Q
  | [] => prevD
  | (f, l, v) :: rest => deltasGo (prevS ++ [f]) (prevD ++ [v - dot prevS l prevD]) rest

def deltas {Loc : Type} (ms : List ((Loc → Q) × Loc × Q)) : List Q := deltasGo [] [] ms

/-- `interpolateFromMasters(loc, values)` = `interpolateFromDeltas(loc, getDeltas(values))` -/
def interpolate {Loc : Type} (S : List (Loc → Q)) (locs : List Loc) (x : Loc) (vs : List Q) : Q :=
  dot S x (deltas (S.zip (locs.zip vs)))

/-! ### one axis -/

/-- `supportScalar({axis: x}, {axis: (lower, peak, upper)})` with ot=True, extrapolate=False;
    `none` = the empty support `{}` of the default master -/
def scalar1 (r : Option (Q × Q × Q)) (x : Q) : Q :=
  match r with
  | none => 1
  | some (lower, peak, upper) =>
    if peak == 0 then 1
    else if lower > peak || peak > upper then 1
    else if lower < 0 && upper > 0 then 1
    else if x == peak then 1
    else if x ≤ lower || upper ≤ x then 0
    else if x < peak then (x - lower) / (peak - lower)
    else (x - upper) / (peak - upper)

/-- one step of the inner loop of `_computeMasterSupports` on one axis: the earlier master `p` splits the box -/
def splitBox (l : Q) (box : Q × Q) (p : Q) : Q × Q :=
  if p == 0 then box                                  -- `set(prev_region.keys()) != locAxes`: the default has no axes
  else if !(p == l || (box.1 < p && p < box.2)) then box   -- not relevant
  else if p < l then (p, box.2)
  else if l < p then (box.1, p)
  else box

/-- region of a master at `l ≠ 0` given the earlier masters (in model order) -/
def region1 (prev : List Q) (l : Q) : Option (Q × Q × Q) :=
  if l == 0 then none
  else
    let box := prev.foldl (splitBox l) (if l > 0 then (0, 1) else (-1, 0))
    some (box.1, l, box.2)

/-- supports of all masters, in order -/
def supports1Go (prev : List Q) : List Q → List (Option (Q × Q × Q))
  | [] => []
  | l :: rest => region1 prev l :: supports1Go (prev ++ [l]) rest

def supports1 (ls : List Q) : List (Option (Q × Q × Q)) := supports1Go [] ls

def interpolate1 (ls : List Q) (x : Q) (vs : List Q) : Q :=
  interpolate ((supports1 ls).map scalar1) ls x vs

/-- `getMasterLocationsSortKeyFunc` on one axis: default first, then negative masters by increasing distance, then
    positive masters by increasing distance -/
def sortKey1 (l : Q) : Nat × Int × Q := (if l == 0 then 0 else 1, if l < 0 then -1 else 1, absQ l)
def keyLe1 (a b : Q) : Bool :=
  let ka := sortKey1 a; let kb := sortKey1 b
  if ka.1 != kb.1 then ka.1 < kb.1 else if ka.2.1 != kb.2.1 then ka.2.1 < kb.2.1 else ka.2.2 ≤ kb.2.2
def sort1 (ls : List Q) : List Q := ls.mergeSort keyLe1

end Ufo2ft.C10
