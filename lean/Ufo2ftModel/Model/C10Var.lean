import Ufo2ftModel.Basic
/-!
The interface ufo2ft relies on when it hands per-master values to fontTools (`varLib.build_many` / the merger for
gvar, HVAR, CFF2 blends and merged GPOS; feaLib's `VariableScalar.add_to_variation_store` for variable features):
a *variation model* that, evaluated at a master's location, returns that master's value.

* `VarModel`: locations + an interpolation function + that law as a field (the HYPOTHESIS about varLib; the harness
  measures it on every generated family through `instancer.instantiateVariableFont`).
* `DeltaModel`: fontTools' construction — support scalars per master (in model order), deltas by the triangular
  recursion of `VariationModel.getDeltas`, interpolation `Σ scalar_j(loc) · delta_j` — for which the law is PROVED
  (Props/C10.lean) from the two facts `S_i(loc_i) = 1` and `S_j(loc_i) = 0` for `j > i`.
* the n-axis model (second half of this file): `VariationModel.__init__` = `variationModel` (normalisation, the master order
  `getMasterLocationsSortKeyFunc` = `sortN`, `_locationsToRegions` + `_computeMasterSupports` = `regionOf`/`supportsN` with the
  box-narrowing loop and its bestAxes ratio rule, `supportScalar`, `getDeltas`, `interpolateFromDeltas`); the two support facts
  and hence the law are proved for any number of axes and masters in Props/C10Var.lean.
* the one-axis instance (proved to be the one-axis case of the n-axis definitions): `region1` mirrors `_locationsToRegions` + `_computeMasterSupports` and `scalar1` mirrors
  `supportScalar` (ot=True, no extrapolation) for a single axis with range (-1, 1); the two facts are proved for any
  number of masters in any order that starts with the default.
-/
namespace Ufo2ft.C10

structure VarModel (Loc : Type) where
  locs : List Loc
  interp : Loc → List Q → Q
  law : ∀ (i : Nat) (vs : List Q) (h : i < locs.length) (hv : vs.length = locs.length),
          interp locs[i] vs = vs[i]

/-! ### deltas and interpolation as in `VariationModel` -/

/-- `Σ_j S_j(x) · d_j` over two lists zipped -/
def dot {Loc : Type} (S : List (Loc → Q)) (x : Loc) (ds : List Q) : Q :=
  match S, ds with
  | f :: S', d :: ds' => f x * d + dot S' x ds'
  | _, _ => 0

/-- `VariationModel.getDeltas` (no rounding): masters in model order as (support scalar function, location, value);
    `delta_i = v_i - Σ_{j<i} S_j(loc_i) · delta_j` -/
def deltasGo {Loc : Type} (prevS : List (Loc → Q)) (prevD : List Q) : List ((Loc → Q) × Loc × Q) → List Q
  | [] => prevD
  | (f, l, v) :: rest => deltasGo (prevS ++ [f]) (prevD ++ [v - dot prevS l prevD]) rest

def deltas {Loc : Type} (ms : List ((Loc → Q) × Loc × Q)) : List Q := deltasGo [] [] ms

/-- `interpolateFromMasters(loc, values)` = `interpolateFromDeltas(loc, getDeltas(values))` -/
def interpolate {Loc : Type} (S : List (Loc → Q)) (locs : List Loc) (x : Loc) (vs : List Q) : Q :=
  dot S x (deltas (S.zip (locs.zip vs)))

/-- `VariationModel.getDeltas(masterValues, round=round)`: every delta is rounded AFTER the contributions of the already
    ROUNDED earlier deltas have been subtracted (`delta -= out[j] * weight ... out.append(round(delta))`); `rnd` is the rounding
    function followed by the embedding of the integers (`fun x => (otRound x : Q)` for varLib's stores) -/
def deltasWithGo {Loc : Type} (rnd : Q → Q) (prevS : List (Loc → Q)) (prevD : List Q) : List ((Loc → Q) × Loc × Q) → List Q
  | [] => prevD
  | (f, l, v) :: rest => deltasWithGo rnd (prevS ++ [f]) (prevD ++ [rnd (v - dot prevS l prevD)]) rest

def deltasWith {Loc : Type} (rnd : Q → Q) (ms : List ((Loc → Q) × Loc × Q)) : List Q := deltasWithGo rnd [] [] ms

/-- `interpolateFromDeltas(loc, getDeltas(values, round=round))` -/
def interpolateWith {Loc : Type} (rnd : Q → Q) (S : List (Loc → Q)) (locs : List Loc) (x : Loc) (vs : List Q) : Q :=
  dot S x (deltasWith rnd (S.zip (locs.zip vs)))

/-- the contrast: the EXACT deltas, each rounded on its own (what the code does NOT do) -/
def interpolateRoundedAfter {Loc : Type} (rnd : Q → Q) (S : List (Loc → Q)) (locs : List Loc) (x : Loc) (vs : List Q) : Q :=
  dot S x ((deltas (S.zip (locs.zip vs))).map rnd)

/-! ### one axis -/

/-- `supportScalar({axis: x}, {axis: (lower, peak, upper)})` with ot=True, extrapolate=False;
    `none` = the empty support `{}` of the default master -/
def scalar1 (r : Option (Q × Q × Q)) (x : Q) : Q :=
  match r with
  | none => 1
  | some (lower, peak, upper) =>
    if peak == 0 then 1
    else if lower > peak || peak > upper then 1
    else if lower < 0 && upper > 0 then 1
    else if x == peak then 1
    else if x ≤ lower || upper ≤ x then 0
    else if x < peak then (x - lower) / (peak - lower)
    else (x - upper) / (peak - upper)

/-- one step of the inner loop of `_computeMasterSupports` on one axis: the earlier master `p` splits the box -/
def splitBox (l : Q) (box : Q × Q) (p : Q) : Q × Q :=
  if p == 0 then box                                  -- `set(prev_region.keys()) != locAxes`: the default has no axes
  else if !(p == l || (box.1 < p && p < box.2)) then box   -- not relevant
  else if p < l then (p, box.2)
  else if l < p then (box.1, p)
  else box

/-- region of a master at `l ≠ 0` given the earlier masters (in model order) -/
def region1 (prev : List Q) (l : Q) : Option (Q × Q × Q) :=
  if l == 0 then none
  else
    let box := prev.foldl (splitBox l) (if l > 0 then (0, 1) else (-1, 0))
    some (box.1, l, box.2)

/-- supports of all masters, in order -/
def supports1Go (prev : List Q) : List Q → List (Option (Q × Q × Q))
  | [] => []
  | l :: rest => region1 prev l :: supports1Go (prev ++ [l]) rest

def supports1 (ls : List Q) : List (Option (Q × Q × Q)) := supports1Go [] ls

def interpolate1 (ls : List Q) (x : Q) (vs : List Q) : Q :=
  interpolate ((supports1 ls).map scalar1) ls x vs

/-- `getMasterLocationsSortKeyFunc` on one axis: default first, then negative masters by increasing distance, then
    positive masters by increasing distance -/
def sortKey1 (l : Q) : Nat × Int × Q := (if l == 0 then 0 else 1, if l < 0 then -1 else 1, absQ l)
def keyLe1 (a b : Q) : Bool :=
  let ka := sortKey1 a; let kb := sortKey1 b
  if ka.1 != kb.1 then ka.1 < kb.1 else if ka.2.1 != kb.2.1 then ka.2.1 < kb.2.1 else ka.2.2 ≤ kb.2.2
def sort1 (ls : List Q) : List Q := ls.mergeSort keyLe1


/-! ### n axes

`fontTools.varLib.models.VariationModel(locations, axisOrder)` with `extrapolate=False`, `axisRanges=None` (every axis has the
range (-1, 1)) on exact rationals.  A location / a support is a Python dict: an association list whose keys are pairwise
different (`NLoc` : axis ↦ normalised coordinate, a missing axis = 0; `Region` : axis ↦ (lower, peak, upper)). -/

abbrev NLoc := List (String × Q)
abbrev Triple := Q × Q × Q
abbrev Region := List (String × Triple)

/-- `location.get(axis, 0.0)` -/
def coord (l : NLoc) (a : String) : Q := (alookup a l).getD 0

/-- `{k: v for k, v in loc.items() if v != 0.0}` -/
def dropZeros (l : NLoc) : NLoc := l.filter (fun e => e.2 != 0)

/-- `supportScalar(location, support)` (ot=True, extrapolate=False): the loop over `support.items()` with its running product;
    `scalar = 0.0; break` returns 0 -/
def supportScalarGo (loc : NLoc) (scalar : Q) : Region → Q
  | [] => scalar
  | (axis, lower, peak, upper) :: rest =>
    if peak == 0 then supportScalarGo loc scalar rest
    else if lower > peak || peak > upper then supportScalarGo loc scalar rest
    else if lower < 0 && upper > 0 then supportScalarGo loc scalar rest
    else
      let v := coord loc axis
      if v == peak then supportScalarGo loc scalar rest
      else if v ≤ lower || upper ≤ v then 0
      else if v < peak then supportScalarGo loc (scalar * ((v - lower) / (peak - lower))) rest
      else supportScalarGo loc (scalar * ((v - upper) / (peak - upper))) rest

def supportScalar (loc : NLoc) (sup : Region) : Q := supportScalarGo loc 1 sup

/-- the tent of one axis as a factor (1 = the axis is skipped); `supportScalar` is the product of these (Props/C10Var) -/
def axisFactor (loc : NLoc) (e : String × Triple) : Q :=
  scalar1 (some e.2) (coord loc e.1)

def keysOf {ν : Type} (d : List (String × ν)) : List String := d.map (·.1)

/-- `set(a) == set(b)` on key lists -/
def sameKeys (a b : List String) : Bool := a.all (fun x => b.contains x) && b.all (fun x => a.contains x)

/-- Python dict equality of two locations -/
def dictEq (p l : NLoc) : Bool := sameKeys (keysOf p) (keysOf l) && p.all (fun e => alookup e.1 l == some e.2)

/-- `len(set(tuple(sorted(l.items())) for l in locations)) == len(locations)` -/
def allDistinct : List NLoc → Bool
  | [] => true
  | l :: rest => rest.all (fun p => !dictEq l p) && allDistinct rest

/-! #### `getMasterLocationsSortKeyFunc` -/

/-- `axisPoints` (a dict axis ↦ set of values, every set containing 0.0) as the list of its (axis, non-zero value) members:
    one entry per location with exactly one axis -/
def axisPointsOf (locs : List NLoc) : List (String × Q) :=
  locs.filterMap (fun l => match l with | [e] => some e | _ => none)

/-- `axis in axisPoints and value in axisPoints[axis]` -/
def onPoint (ap : List (String × Q)) (e : String × Q) : Bool :=
  ap.any (fun x => x.1 == e.1) && (e.2 == 0 || ap.any (fun x => x.1 == e.1 && x.2 == e.2))

/-- `orderedAxes`: the axes of `axisOrder` present in `loc`, then the other axes of `loc` sorted by name -/
def orderedAxes (axisOrder : List String) (loc : NLoc) : List String :=
  axisOrder.filter (fun a => (keysOf loc).contains a) ++ (sortStr (keysOf loc)).filter (fun a => !axisOrder.contains a)

def sgn (v : Q) : Int := if v < 0 then -1 else if v > 0 then 1 else 0

/-- the key tuple: (rank, -len(onPointAxes), axisOrder indexes, axis names, signs, absolute values) -/
abbrev SortKey := Nat × Int × List Nat × List String × List Int × List Q

def sortKeyN (ap : List (String × Q)) (axisOrder : List String) (loc : NLoc) : SortKey :=
  let oa := orderedAxes axisOrder loc
  (loc.length,
   -((loc.filter (onPoint ap)).length : Int),
   oa.map (fun a => if axisOrder.contains a then axisOrder.idxOf a else 0x10000),
   oa,
   oa.map (fun a => sgn (coord loc a)),
   oa.map (fun a => absQ (coord loc a)))

def cmpQ (a b : Q) : Ordering := if a < b then .lt else if b < a then .gt else .eq

/-- Python's comparison of the key tuples: lexicographic, tuples inside compared lexicographically -/
def cmpKeyN (a b : SortKey) : Ordering :=
  (compare a.1 b.1).then <|
  (compare a.2.1 b.2.1).then <|
  (List.compareLex compare a.2.2.1 b.2.2.1).then <|
  (List.compareLex compare a.2.2.2.1 b.2.2.2.1).then <|
  (List.compareLex compare a.2.2.2.2.1 b.2.2.2.2.1).then <|
  (List.compareLex cmpQ a.2.2.2.2.2 b.2.2.2.2.2)

def keyLeN (ap : List (String × Q)) (axisOrder : List String) (a b : NLoc) : Bool :=
  (cmpKeyN (sortKeyN ap axisOrder a) (sortKeyN ap axisOrder b)).isLE

/-- `sorted(locations, key=keyFunc)` (both sorts are stable) -/
def sortN (axisOrder : List String) (locs : List NLoc) : List NLoc :=
  locs.mergeSort (keyLeN (axisPointsOf locs) axisOrder)

/-! #### `_locationsToRegions` + `_computeMasterSupports` -/

def initRegion (l : NLoc) : Region :=
  l.map (fun e => if e.2 > 0 then (e.1, 0, e.2, 1) else (e.1, -1, e.2, 0))

/-- the `relevant` loop: the earlier master lies, on every axis, at the peak or strictly inside the current box -/
def relevant (region : Region) (p : NLoc) : Bool :=
  region.all (fun e => coord p e.1 == e.2.2.1 || (e.2.1 < coord p e.1 && coord p e.1 < e.2.2.2))

/-- `if ratio > bestRatio: bestAxes = {}; bestRatio = ratio` / `if ratio == bestRatio: bestAxes[axis] = triple` -/
def bestUpd (acc : List (String × Triple) × Q) (axis : String) (t : Triple) (ratio : Q) : List (String × Triple) × Q :=
  let acc' := if ratio > acc.2 then ([], ratio) else acc
  if ratio == acc'.2 then (acc'.1 ++ [(axis, t)], acc'.2) else acc'

/-- one round of `for axis in prev_region.keys()` -/
def bestStep (region : Region) (acc : List (String × Triple) × Q) (e : String × Q) : List (String × Triple) × Q :=
  match alookup e.1 region with
  | none => acc                                                  -- `assert axis in region`
  | some (lower, locV, upper) =>
    if e.2 < locV then bestUpd acc e.1 (e.2, locV, upper) ((e.2 - locV) / (lower - locV))
    else if locV < e.2 then bestUpd acc e.1 (lower, locV, e.2) ((e.2 - locV) / (upper - locV))
    else acc

def bestAxes (region : Region) (p : NLoc) : List (String × Triple) := (p.foldl (bestStep region) ([], -1)).1

/-- `for axis, triple in bestAxes.items(): region[axis] = triple` -/
def applyBest (region : Region) (best : List (String × Triple)) : Region :=
  region.map (fun e => match alookup e.1 best with | some t => (e.1, t) | none => e)

/-- the body of `for prev_region in regions[:i]` (only the keys and peaks of the earlier region are read = its location) -/
def narrow (region : Region) (p : NLoc) : Region :=
  if !sameKeys (keysOf p) (keysOf region) then region
  else if !relevant region p then region
  else applyBest region (bestAxes region p)

/-- the support of a master given the earlier masters (in model order) -/
def regionOf (prev : List NLoc) (l : NLoc) : Region := prev.foldl narrow (initRegion l)

def supportsNGo (prev : List NLoc) : List NLoc → List Region
  | [] => []
  | l :: rest => regionOf prev l :: supportsNGo (prev ++ [l]) rest

/-- `self.supports` for masters in model order -/
def supportsN (ls : List NLoc) : List Region := supportsNGo [] ls

/-- the support scalar functions `loc ↦ supportScalar(loc, support_j)` -/
def scalarsN (ls : List NLoc) : List (NLoc → Q) := (supportsN ls).map (fun r x => supportScalar x r)

/-- `getDeltas` for master values in model order -/
def deltasN (ls : List NLoc) (vs : List Q) : List Q := deltas ((scalarsN ls).zip (ls.zip vs))

/-- `interpolateFromDeltas(x, getDeltas(vs))`, masters in model order -/
def interpolateN (ls : List NLoc) (x : NLoc) (vs : List Q) : Q := interpolate (scalarsN ls) ls x vs

/-- `getDeltas(vs, round=rnd)` for master values in model order: integers -/
def deltasNRound (rnd : Q → Int) (ls : List NLoc) (vs : List Q) : List Q :=
  deltasWith (fun x => ((rnd x : Int) : Q)) ((scalarsN ls).zip (ls.zip vs))

/-- `interpolateFromDeltas(x, getDeltas(vs, round=rnd))`, masters in model order: what an OpenType variation store built by
    varLib (integer deltas, the supports as regions) evaluates to at `x` before the consumer rounds -/
def interpolateNRound (rnd : Q → Int) (ls : List NLoc) (x : NLoc) (vs : List Q) : Q :=
  interpolateWith (fun x => ((rnd x : Int) : Q)) (scalarsN ls) ls x vs

/-! #### the constructor and the user's master order -/

structure VModel where
  locations : List NLoc          -- `self.locations` (model order)
  supports : List Region         -- `self.supports`
  reverseMapping : List Nat      -- `self.reverseMapping`: position in the user's list of the master at each model position
  deriving Repr

/-- `VariationModel.__init__`.  Errors: "unique" (`Locations must be unique.`), "nobase" (`Base master not found.`);
    "outside": two locations that differ only by explicit zeros (`{'wght': 0}` / `{}`) - not rejected by fontTools, outside
    this model's contract (varLib always passes locations over all axes). -/
def variationModel (axisOrder : List String) (locations : List NLoc) : Except String VModel :=
  if !allDistinct locations then .error "unique"
  else
    let locs := locations.map dropZeros
    if !locs.contains [] then .error "nobase"
    else if !allDistinct locs then .error "outside"
    else
      let sorted := sortN axisOrder locs
      .ok { locations := sorted, supports := supportsN sorted,
            reverseMapping := sorted.map (fun l => locs.findIdx (fun p => dictEq p l)) }

/-- `getDeltas(masterValues)`: master values in the USER's order -/
def VModel.getDeltas (m : VModel) (masterValues : List Q) : List Q :=
  deltasN m.locations (m.reverseMapping.map (fun k => masterValues.getD k 0))

/-- `interpolateFromDeltas(loc, getDeltas(masterValues))` -/
def VModel.interpolateFromMasters (m : VModel) (x : NLoc) (masterValues : List Q) : Q :=
  interpolateN m.locations x (m.reverseMapping.map (fun k => masterValues.getD k 0))

/-- `getDeltas(masterValues, round=rnd)`: master values in the USER's order -/
def VModel.getDeltasRound (m : VModel) (rnd : Q → Int) (masterValues : List Q) : List Q :=
  deltasNRound rnd m.locations (m.reverseMapping.map (fun k => masterValues.getD k 0))

/-- `interpolateFromDeltas(loc, getDeltas(masterValues, round=rnd))` -/
def VModel.interpolateRounded (m : VModel) (rnd : Q → Int) (x : NLoc) (masterValues : List Q) : Q :=
  interpolateNRound rnd m.locations x (m.reverseMapping.map (fun k => masterValues.getD k 0))

end Ufo2ft.C10
