import Ufo2ftModel.Basic
/-!
Model of  util.makeOfficialGlyphOrder, util.makeUnicodeToGlyphNameMapping,
BaseOutlineCompiler.makeMissingRequiredGlyphs (the '.notdef' part) and
BaseOutlineCompiler.setupTable_cmap.
-/
namespace Ufo2ft.C03

/-- `for name in glyphOrder: if name not in names: continue; names.remove(name); order.append(name)` -/
def orderLoop : List String → List String → List String → List String × List String
  | [], rem, acc => (rem, acc)
  | n :: go, rem, acc =>
    if rem.contains n then orderLoop go (rem.erase n) (acc ++ [n]) else orderLoop go rem acc

/-- util.makeOfficialGlyphOrder(font, glyphOrder) with `names = font.keys()`. -/
def officialOrder (names glyphOrder : List String) : List String :=
  let start : List String × List String :=
    if names.contains ".notdef" then (names.erase ".notdef", [".notdef"]) else (names, [])
  let r := orderLoop glyphOrder start.1 start.2
  r.2 ++ sortStr r.1

/-- makeMissingRequiredGlyphs: `.notdef` is added to the glyph set when absent. -/
def withNotdef (names : List String) : List String :=
  if names.contains ".notdef" then names else names ++ [".notdef"]

/-- glyph order of a compiled font. -/
def compileOrder (names glyphOrder : List String) : List String :=
  officialOrder (withNotdef names) glyphOrder

inductive Err | invalidFontData | keyError
  deriving DecidableEq, Repr

abbrev CMap := List (Nat × String)

/-- inner loop of makeUnicodeToGlyphNameMapping over one glyph's code points -/
def mapGlyph (g : String) : List Nat → CMap → Except Err CMap
  | [], m => .ok m
  | u :: us, m => if (alookup u m).isSome then .error .invalidFontData else mapGlyph g us (m ++ [(u, g)])

/-- makeUnicodeToGlyphNameMapping: `glyphs` = (name, unicodes) in glyph order. -/
def mapLoop : List (String × List Nat) → CMap → Except Err CMap
  | [], m => .ok m
  | (g, us) :: gs, m => match mapGlyph g us m with
    | .error e => .error e
    | .ok m' => mapLoop gs m'

def unicodeMap (glyphs : List (String × List Nat)) : Except Err CMap := mapLoop glyphs []

structure CmapTables where
  fmt4 : CMap
  fmt12 : Option CMap
  deriving Repr

/-- setupTable_cmap: the two format-4 subtables share `fmt4`, the two format-12 share `fmt12`. -/
def cmapTables (m : CMap) : CmapTables :=
  let nonBMP := m.filter (fun e => e.1 > 65535)
  if nonBMP.isEmpty then { fmt4 := m, fmt12 := none }
  else
    let bmp := m.filter (fun e => e.1 ≤ 65535)
    { fmt4 := bmp, fmt12 := some (nonBMP ++ bmp) }   -- nonBMP.update(mapping)

/-- one `public.unicodeVariationSequences` record -/
def uvsEntry (full : CMap) (u : Nat) (g : String) : Except Err (Nat × Option String) :=
  match alookup u full with
  | none => .error .keyError          -- `mapping[value]` raises
  | some g' => if g == g' then .ok (u, none) else .ok (u, some g)

def uvsList (full : CMap) : List (Nat × String) → Except Err (List (Nat × Option String))
  | [] => .ok []
  | (u, g) :: l => match uvsEntry full u g, uvsList full l with
    | .ok e, .ok r => .ok (e :: r)
    | .error e, _ => .error e
    | _, .error e => .error e

end Ufo2ft.C03
