import Ufo2ftModel.Basic
/-!
Model of ufo2ft's MarkFeatureWriter (featureWriters/markFeatureWriter.py) for static fonts without
contextual-anchor lib data and without pre-existing mark features (hand-written markClass definitions of the feature
file are the input `pre`):

  parseAnchorName, NamedAnchor.__init__, BaseFeatureWriter._getAnchor (quantize), _getAnchorLists,
  _getAnchorPairs, _pruneUnusedAnchors, _groupMarkGlyphsByAnchor, _makeMarkClassDefinitions,
  _defineMarkClass (+ ast.makeFeaClassName), _setBaseAnchorMarkClasses, _makeMarkToBaseAttachments,
  _makeMarkToLigaAttachments, _makeMarkToMarkAttachments, _groupAttachments, _groupMarkClasses,
  colorGraph, firstAvailable, AbstractMarkPos.filter / MarkToLigaPos._filterMarks / _marksAsAST,
  _makeMarkLookup, _makeMarkToMarkLookup, _makeMarkFeature, _makeMkmkFeature,
  _isAboveMark, _makeAbvmOrBlwmFeature, _makeFeatures (feature order abvm, blwm, mark, mkmk).

Inputs supplied by the harness (not modelled): the ordered glyph set, the GDEF classes
(getGDEFGlyphClasses), the abvm / not-abvm glyph sets (_getAbvmGlyphs: Unicode script data).
Anchor names are ASCII (Python's `\d`, `str.isalpha` are Unicode-aware).
-/
namespace Ufo2ft.C06

inductive Err | valueError | assertionError | keyErrorObjectLibs | keyErrorMarkClass
  deriving DecidableEq, Repr

/-! ### parseAnchorName -/

structure Parsed where
  isMark : Bool
  key : List Char
  number : Option Nat
  ctx : Bool
  deriving DecidableEq, Repr

/-- `int(number)` for a string of ASCII digits -/
def digitsToNat (ds : List Char) : Nat := ds.foldl (fun n c => 10 * n + (c.toNat - 48)) 0

/-- `LIGA_NUM_RE = .*?(\d+)$` + `key = anchorName.rstrip(number)` + `key.endswith("_")`:
    the maximal run of trailing digits is the number if it is preceded by the separator. -/
def ligSplitAux (cs ds : List Char) : List Char → List Char × Option Nat
  | c :: k => if c = '_' ∧ ds ≠ [] then (k.reverse, some (digitsToNat ds.reverse)) else (cs, none)
  | [] => (cs, none)

def ligSplit (cs : List Char) : List Char × Option Nat :=
  ligSplitAux cs (cs.reverse.takeWhile Char.isDigit) (cs.reverse.dropWhile Char.isDigit)

/-- `key and not key[0].isalpha()` -/
def keyIgnorable : List Char → Bool
  | [] => false
  | c :: _ => !c.isAlpha

/-- the name parseAnchorName analyses: for a contextual ('*'-prefixed) anchor `anchorName[1:]` with everything from
    the first '.' on removed (`re.sub(r"\..*", "", anchorName)`), otherwise the name itself -/
def effName (cs0 : List Char) : List Char :=
  if cs0.head? == some '*' then (cs0.drop 1).takeWhile (fun c => c != '.') else cs0

/-- parseAnchorName after the '*' handling -/
def parseCore (cs : List Char) (ctx : Bool) : Except Err Parsed :=
  let kn := ligSplit cs
  if cs.head? == some '_' && !kn.1.isEmpty then
    if kn.2.isSome then .error .valueError            -- "mark anchor cannot be numbered"
    else if (kn.1.drop 1).isEmpty then .error .valueError   -- "mark anchor key is nil"
    else .ok ⟨true, kn.1.drop 1, none, ctx⟩
  else .ok ⟨false, kn.1, kn.2, ctx⟩

/-- parseAnchorName with the default prefix/separator/regex and ignoreRE = None.
    The name is not empty (empty names are discarded by the caller). -/
def parseChars (cs0 : List Char) : Except Err Parsed := parseCore (effName cs0) (cs0.head? == some '*')

/-- the checks of NamedAnchor.__init__ -/
def checkNamed (p : Parsed) : Except Err Parsed :=
  match p.number with
  | some n => if n < 1 then .error .valueError else .ok p
  | none => if p.key.isEmpty then .error .assertionError else .ok p

def checkE (r : Except Err Parsed) : Except Err Parsed :=
  match r with
  | .error e => .error e
  | .ok p => checkNamed p

def parseAnchor (cs : List Char) : Except Err Parsed := checkE (parseChars cs)

/-! ### source data -/

structure SrcAnchor where
  name : String
  x : Q
  y : Q
  /-- `glyph.lib["public.objectLibs"].get(anchor.identifier)` when it is a non-empty dict: its "GPOS_Context" entry
      ("" when the dict has none); `none` = no identifier, no entry, or an empty dict -/
  lib : Option String := none
  /-- the anchor has an identifier but the glyph lib has no "public.objectLibs" key: since the repair of
      `_getAnchorLists` (`glyph.lib.get(OBJECT_LIBS_KEY, {}).get(anchor.identifier)`) that simply means "no lib data"
      (`lib = none`); the flag is kept to state what the code did before (`namedAnchorOld`) -/
  idNoLib : Bool := false
  deriving Repr

structure SrcGlyph where
  name : String
  anchors : List SrcAnchor
  deriving Repr

structure Gdef where
  base : List String
  lig : List String
  mark : List String
  deriving Repr

structure Input where
  glyphs : List SrcGlyph      -- the ordered glyph set
  gdef : Option Gdef          -- GDEF classes (feature file table or public.openTypeCategories), if any
  quant : Q                   -- options.quantization
  pre : List (String × List (String × Int × Int)) := []
                              -- feaFile.markClasses before the writer runs: hand-written `markClass g <anchor x y> @name;`
  group : Bool                -- options.groupMarkClasses
  abvm : List String          -- _getAbvmGlyphs()[0]
  notAbvm : List String       -- _getAbvmGlyphs()[1]
  deriving Repr

/-- NamedAnchor (ignorable anchors and contextual anchors without lib data never get this far);
    `ctx` = the GPOS_Context string of a contextual ('*'-prefixed) anchor, `none` for every other anchor -/
structure NA where
  name : String
  x : Q
  y : Q
  isMark : Bool
  key : String
  number : Option Nat
  ctx : Option String := none
  deriving DecidableEq, Repr

/-- util.quantize -/
def quantize (q x : Q) : Q := q * ((otRound (x / q) : Int) : Q)

/-- one iteration of the anchor loop of _getAnchorLists up to (not including) the dict store:
    `none` = the anchor is skipped -/
def namedAnchor (q : Q) (a : SrcAnchor) : Except Err (Option NA) :=
  if a.name = "" then .ok none
  else match parseAnchor a.name.toList with
    | .error e => .error e
    | .ok p =>
      if (p.ctx && a.lib.isNone) || keyIgnorable p.key then .ok none     -- contextual without lib data / ignorable
      else .ok (some ⟨a.name, quantize q a.x, quantize q a.y, p.isMark, String.ofList p.key, p.number,
                      if p.ctx then a.lib else none⟩)

/-- the loop body BEFORE the repair: `glyph.lib[OBJECT_LIBS_KEY]` raised KeyError for an anchor with an identifier on a
    glyph without "public.objectLibs" (before NamedAnchor(...) was even called).  Kept for the counterexample only. -/
def namedAnchorOld (q : Q) (a : SrcAnchor) : Except Err (Option NA) :=
  if a.name = "" then .ok none
  else if a.idNoLib then .error .keyErrorObjectLibs
  else namedAnchor q a

/-- sequential evaluation stopping at the first exception -/
def mapE {α β ε} (f : α → Except ε β) : List α → Except ε (List β)
  | [] => .ok []
  | a :: l => match f a with
    | .error e => .error e
    | .ok b => match mapE f l with
      | .error e => .error e
      | .ok bs => .ok (b :: bs)

/-- `anchorDict[anchorName] = a` on an OrderedDict: first position, last value -/
def odSet (d : List NA) (v : NA) : List NA :=
  if d.any (fun e => e.name == v.name) then d.map (fun e => if e.name == v.name then v else e) else d ++ [v]

def glyphAnchors (q : Q) (as : List SrcAnchor) : Except Err (List NA) :=
  match mapE (namedAnchor q) as with
  | .error e => .error e
  | .ok ps => .ok ((ps.filterMap id).foldl odSet [])

def included (i : Input) (g : String) : Bool :=
  match i.gdef with
  | none => true
  | some d => d.base.contains g || d.lig.contains g || d.mark.contains g

abbrev AList := List (String × List NA)

/-- _getAnchorLists -/
def anchorLists (i : Input) : Except Err AList :=
  match mapE (fun (g : SrcGlyph) => match glyphAnchors i.quant g.anchors with
      | .error e => .error e
      | .ok as => .ok (g.name, as)) (i.glyphs.filter (fun g => included i g.name)) with
  | .error e => .error e
  | .ok l => .ok (l.filter (fun e => !e.2.isEmpty))

/-! ### _getAnchorPairs, _pruneUnusedAnchors -/

/-- names of all mark anchors -/
def markNames0 (al : AList) : List String := al.flatMap (fun e => (e.2.filter (·.isMark)).map (·.name))

/-- NamedAnchor.markAnchorName -/
def markAnchorName (a : NA) : String := "_" ++ a.key

/-- the anchor is a key of `anchorPairs` -/
def paired (al : AList) (a : NA) : Bool := !a.isMark && (markNames0 al).contains (markAnchorName a)

/-- anchorPairs.keys() / .values() -/
def baseNames (al : AList) : List String := al.flatMap (fun e => (e.2.filter (paired al)).map (·.name))
def markNames (al : AList) : List String := al.flatMap (fun e => (e.2.filter (paired al)).map markAnchorName)

def keep (al : AList) (a : NA) : Bool :=
  (baseNames al).contains a.name || (markNames al).contains a.name || a.key == ""

def prune (al : AList) : AList :=
  (al.map (fun e => (e.1, e.2.filter (keep al)))).filter (fun e => !e.2.isEmpty)

/-! ### _groupMarkGlyphsByAnchor -/

def markOK (i : Input) (g : String) : Bool :=
  match i.gdef with
  | none => true
  | some d => d.mark.contains g

/-- the mark glyphs with their mark anchors; `mn` = anchorPairs.values(), `al` = pruned anchor lists -/
def markEntries (i : Input) (al : AList) (mn : List String) : AList :=
  (al.filter (fun e => markOK i e.1)).filterMap (fun e =>
    let ms := e.2.filter (fun a => mn.contains a.name)
    if ms.isEmpty then none else some (e.1, ms))

/-- `sorted(markGlyphSets.items())`: the group names -/
def groupNames (me : AList) : List String := sortStr (dedupFirst (me.flatMap (fun e => e.2.map (·.name))))

/-- `groups[name]`: OrderedDict glyph → anchor, in glyph order -/
def groupOf (me : AList) (n : String) : List (String × NA) :=
  me.filterMap (fun e => (e.2.find? (fun a => a.name == n)).map (fun a => (e.1, a)))

/-! ### _makeMarkClassDefinitions, _defineMarkClass -/

structure MarkRec where
  glyph : String
  x : Int
  y : Int
  deriving DecidableEq, Repr

/-- feaFile.markClasses: class name → (glyph → anchor), insertion-ordered -/
abbrev Classes := List (String × List MarkRec)

/-- ast.makeFeaClassName without existing names: `re.sub(r"[^A-Za-z0-9._]", "", name)` -/
def sanitize (s : String) : String :=
  String.ofList (s.toList.filter (fun c => c.isAlphanum || c == '.' || c == '_'))

/-- the `while name in existingClassNames` loop of ast.makeFeaClassName, entered with the name taken -/
def uniqueName (orig : String) (cl : Classes) : Nat → Nat → String
  | 0, i => orig ++ "_" ++ toString i
  | f + 1, i =>
    let n := orig ++ "_" ++ toString i
    if cl.any (fun e => e.1 == n) then uniqueName orig cl f (i + 1) else n

/-- _defineMarkClass; returns the classes and the name of the class the glyph ended up in
    (unchanged `cn` when the definition already existed) -/
def defineMarkClass (r : MarkRec) (cn : String) (cl : Classes) : Classes × String :=
  match alookup cn cl with
  | none => (cl ++ [(cn, [r])], cn)
  | some ms =>
    match ms.find? (fun r' => r'.glyph == r.glyph) with
    | some r' =>
      if r'.x == r.x && r'.y == r.y then (cl, cn)
      else
        let cn' := uniqueName cn cl (cl.length + 1) 1
        (cl ++ [(cn', [r])], cn')
    | none => (cl.map (fun e => if e.1 == cn then (e.1, e.2 ++ [r]) else e), cn)

/-- dict assignment -/
def aset (k : String) (v : String) (d : List (String × String)) : List (String × String) :=
  if d.any (fun e => e.1 == k) then d.map (fun e => if e.1 == k then (k, v) else e) else d ++ [(k, v)]

structure ClsState where
  classes : Classes
  keyMap : List (String × String)    -- context.markClasses: anchor key → class (by name)
  deriving Repr

/-- the inner loop of _makeMarkClassDefinitions over one group -/
def defineGroup (members : List (String × NA)) (cn : String) (st : ClsState) : ClsState × String :=
  members.foldl (fun (s : ClsState × String) gm =>
    let r := defineMarkClass ⟨gm.1, otRound gm.2.x, otRound gm.2.y⟩ s.2 s.1.classes
    (⟨r.1, aset gm.2.key r.2 s.1.keyMap⟩, r.2)) (st, cn)

/-- the clash test at the head of the group loop of _makeMarkClassDefinitions: when the class `cn` exists and already
    defines one of the group's mark glyphs with a different anchor, the whole group goes into a fresh unique class -/
def groupClassName (members : List (String × NA)) (cn : String) (cl : Classes) : String :=
  match alookup cn cl with
  | none => cn
  | some ms =>
    if members.any (fun gm => match ms.find? (fun r' => r'.glyph == gm.1) with
        | some r' => !(r'.x == otRound gm.2.x && r'.y == otRound gm.2.y)
        | none => false)
    then uniqueName cn cl (cl.length + 1) 1 else cn

/-- `ast.makeFeaClassName(name, existingClassNames)` for a name that already is legal: the name itself when it is free,
    else the first free `name_1`, `name_2`, … -/
def freshName (cn : String) (cl : Classes) : String :=
  if cl.any (fun e => e.1 == cn) then uniqueName cn cl (cl.length + 1) 1 else cn

/-- one anchor group of _makeMarkClassDefinitions; the state carries `generatedClassNames`.  A sanitised class name that
    a previous group of this run ended up with belongs to a DIFFERENT anchor name ('top-alt' / 'topalt'): the group takes a
    fresh unique name before the clash test against hand-written definitions runs. -/
def groupStep (me : AList) (st : ClsState × List String) (n : String) : ClsState × List String :=
  let cn0 := sanitize ("MC" ++ n)
  let cn1 := if st.2.contains cn0 then freshName cn0 st.1.classes else cn0
  let r := defineGroup (groupOf me n) (groupClassName (groupOf me n) cn1 st.1.classes) st.1
  (r.1, st.2 ++ [r.2])

/-- _makeMarkClassDefinitions, starting from the mark classes the feature file already defines; the groups are taken in
    sorted order of the mark anchor names, so of two colliding names the smaller keeps the plain class name -/
def makeClassesFrom (cl0 : Classes) (me : AList) : ClsState :=
  ((groupNames me).foldl (groupStep me) (⟨cl0, []⟩, [])).1

/-- _makeMarkClassDefinitions BEFORE the repair: two anchor names with the same sanitised class name shared one mark class.
    Kept for the counterexample only. -/
def makeClassesFromOld (cl0 : Classes) (me : AList) : ClsState :=
  (groupNames me).foldl (fun st n =>
    (defineGroup (groupOf me n) (groupClassName (groupOf me n) (sanitize ("MC" ++ n)) st.classes) st).1) ⟨cl0, []⟩

def makeClasses (me : AList) : ClsState := makeClassesFrom [] me

/-- the hand-written mark classes of the feature file -/
def preClasses (pre : List (String × List (String × Int × Int))) : Classes :=
  pre.map (fun c => (c.1, c.2.map (fun r => (⟨r.1, r.2.1, r.2.2⟩ : MarkRec))))

/-- _setBaseAnchorMarkClasses: the class (name) a non-mark anchor refers to -/
def classOf (km : List (String × String)) (a : NA) : Option String :=
  if a.isMark || a.key == "" then none else alookup a.key km

/-! ### attachments -/

/-- the anchors the non-contextual attachment builders look at (`if anchor.isContextual: continue`) -/
def plainOf (as : List NA) : List NA := as.filter (fun a => a.ctx.isNone)

/-- a base-side anchor together with its mark class -/
structure BAnchor where
  a : NA
  cls : String
  deriving DecidableEq, Repr

def baseOK (i : Input) (g : String) : Bool :=
  match i.gdef with
  | none => true
  | some d => d.base.contains g

def ligOK (i : Input) (g : String) : Bool :=
  match i.gdef with
  | none => true
  | some d => d.lig.contains g

/-- _makeMarkToBaseAttachments; `mg` = markGlyphNames -/
def baseAtts (i : Input) (al : AList) (mg : List String) (km : List (String × String)) :
    List (String × List BAnchor) :=
  al.filterMap (fun e =>
    if mg.contains e.1 || !baseOK i e.1 then none else
    let bm := (plainOf e.2).filterMap (fun a => if a.number.isSome then none else (classOf km a).map (fun c => ⟨a, c⟩))
    if bm.isEmpty then none else some (e.1, bm))

/-- the anchors that reach the `componentAnchors` bookkeeping of _makeMarkToLigaAttachments -/
def ligEvents (km : List (String × String)) (as : List NA) : List NA :=
  as.filter (fun a => a.number.isSome && (a.key == "" || (classOf km a).isSome))

/-- `componentAnchors[n]` at the end of the loop: a key-less anchor `_n` resets the list, a named one appends -/
def compOf (km : List (String × String)) (evs : List NA) (n : Nat) : List BAnchor :=
  let es := evs.filter (fun a => a.number == some n)
  ((es.reverse.takeWhile (fun a => a.key != "")).reverse).filterMap
    (fun a => (classOf km a).map (fun c => ⟨a, c⟩))

def maxNat (l : List Nat) : Nat := l.foldl max 0

/-- _makeMarkToLigaAttachments -/
def ligAtts (i : Input) (al : AList) (mg : List String) (km : List (String × String)) :
    List (String × List (List BAnchor)) :=
  al.filterMap (fun e =>
    if mg.contains e.1 || !ligOK i e.1 then none else
    let evs := ligEvents km (plainOf e.2)
    if evs.isEmpty then none else
    some (e.1, (List.range (maxNat (evs.filterMap (·.number)))).map (fun j => compOf km evs (j + 1))))

/-- _makeMarkToMarkAttachments, flattened: (anchor key, glyph, anchor) in glyph/anchor order -/
def mkmkAtts (al : AList) (mg : List String) (km : List (String × String)) : List (String × String × BAnchor) :=
  al.flatMap (fun e =>
    if !mg.contains e.1 then [] else
    (plainOf e.2).filterMap (fun a => if a.number.isSome then none else (classOf km a).map (fun c => (a.key, e.1, ⟨a, c⟩))))

/-! ### colorGraph / _groupMarkClasses -/

/-- firstAvailable: smallest natural number not in `used` (the loop runs at most `used.length` times) -/
def firstAvail : Nat → List Nat → Nat → Nat
  | 0, _, c => c
  | f + 1, used, c => if used.contains c then firstAvail f (used.erase c) (c + 1) else c

def colorStep (adj : String → List String) (colors : List (String × Nat)) (node : String) : List (String × Nat) :=
  let used := (adj node).filterMap (fun nb => alookup nb colors)
  colors ++ [(node, firstAvail used.length used 0)]

/-- colorGraph: the colour of every node; `nodes` = the keys of the adjacency dict -/
def colorGraph (nodes : List String) (adj : String → List String) : List (String × Nat) :=
  (sortStr nodes).foldl (colorStep adj) []

/-- `list(groups.values())`: one group per colour in order of first appearance -/
def colorGroups (colors : List (String × Nat)) : List (List String) :=
  (dedupFirst (colors.map (·.2))).map (fun c => (colors.filter (fun e => e.2 == c)).map (·.1))

def members (cl : Classes) (cn : String) : List String := ((alookup cn cl).getD []).map (·.glyph)

/-- two mark classes share a mark glyph -/
def conflict (cl : Classes) (c1 c2 : String) : Bool :=
  c1 != c2 && (members cl c1).any (fun g => (members cl c2).contains g)

/-- Python list comparison `a <= b` on lists of strings -/
def lexLe : List String → List String → Bool
  | [], _ => true
  | _ :: _, [] => false
  | a :: l, b :: m => if a == b then lexLe l m else decide (a < b)

/-- `-min(anchorSortKey.get(removeClassPrefix(c), 0) for c in group)` -/
def groupPrio (g : List String) : Nat :=
  if g.contains "MC_bottom" then 2 else if g.contains "MC_top" then 1 else 0

def groupLe (a b : List String) : Bool :=
  groupPrio a < groupPrio b || (groupPrio a == groupPrio b && lexLe a b)

/-- _groupMarkClasses; `used` = the mark classes referenced by the attachments -/
def groupMarkClasses (cl : Classes) (used : List String) : List (List String) :=
  let nodes := dedupFirst (used.filter (fun c => !(members cl c).isEmpty))
  let colors := colorGraph nodes (fun c => nodes.filter (conflict cl c))
  ((colorGroups colors).map sortStr).mergeSort groupLe

/-- the default mode: one lookup per mark class, sorted by anchor key -/
def singleGroups (km : List (String × String)) : List (List String) :=
  (sortStr (km.map (·.1))).filterMap (fun k => (alookup k km).map (fun c => [c]))

/-! ### _groupAttachments -/

def filterBase (grp : List String) (att : String × List BAnchor) : Option (String × List BAnchor) :=
  let bm := att.2.filter (fun b => grp.contains b.cls)
  if bm.isEmpty then none else some (att.1, bm)

def filterLig (grp : List String) (att : String × List (List BAnchor)) : Option (String × List (List BAnchor)) :=
  let cs := att.2.map (fun comp => comp.filter (fun b => grp.contains b.cls))
  if cs.all (·.isEmpty) then none else some (att.1, cs)

/-! ### lookups -/

inductive Kind | base | liga | mkmk
  deriving DecidableEq, Repr

/-- one `pos base|ligature|mark` statement: per component the (mark class, anchor) list in statement order;
    base and mark statements have exactly one component -/
structure Entry where
  glyph : String
  comps : List (List (String × Int × Int))
  deriving DecidableEq, Repr

structure Lookup where
  feature : String
  kind : Kind
  entries : List Entry
  deriving Repr

structure Program where
  classes : Classes
  lookups : List Lookup
  deriving Repr

/-- `sorted(marks, key=lambda a: a.name)` + rounding of _marksAsAST -/
def compAST (comp : List BAnchor) : List (String × Int × Int) :=
  (comp.mergeSort (fun p q => strLe p.a.name q.a.name)).map (fun b => (b.cls, otRound b.a.x, otRound b.a.y))

/-- _isAboveMark -/
def isAbove (name : String) : Bool :=
  ["top", "topleft", "topright", "candra", "bindu", "candrabindu", "imatra"].contains name ||
  !(["bottom", "bottomleft", "bottomright", "nukta"].contains name || "bottom".toList.isPrefixOf name.toList)

/-- _makeMarkLookup over the grouped mark-to-base attachments -/
def baseLookups (feat : String) (inc : String → Bool) (mf : NA → Bool)
    (grouped : List (List (String × List BAnchor))) : List Lookup :=
  grouped.filterMap (fun atts =>
    let es := (atts.filter (fun att => inc att.1)).filterMap (fun att =>
      let bm := att.2.filter (fun b => mf b.a)
      if bm.isEmpty then none else some (⟨att.1, [compAST bm]⟩ : Entry))
    if es.isEmpty then none else some ⟨feat, .base, es⟩)

def ligLookups (feat : String) (inc : String → Bool) (mf : NA → Bool)
    (grouped : List (List (String × List (List BAnchor)))) : List Lookup :=
  grouped.filterMap (fun atts =>
    let es := (atts.filter (fun att => inc att.1)).filterMap (fun att =>
      let cs := att.2.map (fun comp => comp.filter (fun b => mf b.a))
      if cs.all (·.isEmpty) then none else some (⟨att.1, cs.map compAST⟩ : Entry))
    if es.isEmpty then none else some ⟨feat, .liga, es⟩)

/-- one mark-to-mark lookup per anchor key, sorted by key -/
def mkmkLookups (feat : String) (inc : String → Bool) (mf : NA → Bool)
    (atts : List (String × String × BAnchor)) : List Lookup :=
  (sortStr (dedupFirst (atts.map (·.1)))).filterMap (fun k =>
    let es := (atts.filter (fun t => t.1 == k && inc t.2.1 && mf t.2.2.a)).map (fun t =>
      (⟨t.2.1, [compAST [t.2.2]]⟩ : Entry))
    if es.isEmpty then none else some ⟨feat, .mkmk, es⟩)

/-- everything after _getAnchorLists: _write -/
def build (i : Input) (al0 : AList) : Program :=
  let mn := markNames al0
  let al := prune al0
  let me := markEntries i al mn
  let mg := me.map (·.1)
  let st := makeClassesFrom (preClasses i.pre) me
  let km := st.keyMap
  let ba := baseAtts i al mg km
  let la := ligAtts i al mg km
  let ma := mkmkAtts al mg km
  let bgroups := if i.group then groupMarkClasses st.classes (ba.flatMap (fun att => att.2.map (·.cls)))
                 else singleGroups km
  let lgroups := if i.group then groupMarkClasses st.classes (la.flatMap (fun att => att.2.flatMap (·.map (·.cls))))
                 else singleGroups km
  let gb := bgroups.map (fun grp => ba.filterMap (filterBase grp))
  let gl := lgroups.map (fun grp => la.filterMap (filterLig grp))
  let isAbvm := fun g => i.abvm.contains g
  let isNotAbvm := fun g => i.notAbvm.contains g
  let all := fun (_ : NA) => true
  let above := fun (a : NA) => isAbove a.name
  let below := fun (a : NA) => !isAbove a.name
  let abvmL := if i.abvm.isEmpty then [] else
    baseLookups "abvm" isAbvm above gb ++ ligLookups "abvm" isAbvm above gl ++ mkmkLookups "abvm" isAbvm above ma
  let blwmL := if i.abvm.isEmpty then [] else
    baseLookups "blwm" isAbvm below gb ++ ligLookups "blwm" isAbvm below gl ++ mkmkLookups "blwm" isAbvm below ma
  let markL := baseLookups "mark" isNotAbvm all gb ++ ligLookups "mark" isNotAbvm all gl
  let mkmkL := mkmkLookups "mkmk" isNotAbvm all ma
  ⟨st.classes, abvmL ++ blwmL ++ markL ++ mkmkL⟩

/-- MarkFeatureWriter.write on a font without mark features -/
def model (i : Input) : Except Err Program :=
  match anchorLists i with
  | .error e => .error e
  | .ok al => .ok (build i al)

end Ufo2ft.C06
