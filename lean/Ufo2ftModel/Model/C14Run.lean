import Ufo2ftModel.Model.C14
/-!
# C14, pre-processor level: `BaseInterpolatablePreProcessor._run` (Lib/ufo2ft/preProcessor.py:319-397)

`process()` zips the per-UFO filter lists (`itertools.zip_longest`, `None` where a UFO declares fewer filters) and
hands every tuple to `_run(*filters)`, which

 * with a single filter: runs it as it is when it is a `BaseIFilter`, else repeats it for every UFO;
 * `_try_as_interpolatable_filter`: when every filter after the first has the class / options / `pre` of the first
   non-`None` one, the filters are replaced by ONE interpolatable filter (the object itself when it already is a
   `BaseIFilter`, else a new object of the class's `…IFilter` variant whose include is the union of the filters'
   includes – which raises AttributeError on the first glyph when the first UFO had no filter);
 * otherwise calls each filter on its own UFO / glyph set, `modified |= filter_(ufo, glyphSet)`;
 * refreshes the instantiator (`replace_source_layers`, cached glyph models dropped) iff the union is non-empty,
   and returns the union.

The filters themselves are the models of `Model/C14.lean` (`call` / `icall`, the latter without an instantiator).
Each call is made on a new `Obj`: by `C14_stateless` / `C14_istateless` the state of a filter object never shows.
-/
namespace Ufo2ft.C14

/-- a filter object as the pre-processor sees it -/
structure FSpec where
  cls : String                -- `type(f)`
  opts : String               -- `f.options` (canonical text: equal texts iff equal namespaces)
  pre : Bool                  -- `f.pre`
  isI : Bool                  -- `isinstance(f, BaseIFilter)`
  kind : Kind                 -- what `f(ufo, glyphSet)` does
  ikind : Option IKind        -- the interpolatable variant (`getInterpolatableFilterClass()`), if the class has one
  incl : Include

/-- `type(f) is filter_class and f.options == filter_.options and f.pre == filter_.pre` -/
def FSpec.same (f g : FSpec) : Bool := g.cls == f.cls && g.opts == f.opts && g.pre == f.pre

/-- `any(f.include(g) for f in filters)` -/
def unionIncl (fs : List FSpec) : Include := fun n g => fs.any (fun f => f.incl n g)

/-- the outcome of `_try_as_interpolatable_filter` -/
inductive Route
  | perMaster
  /-- one interpolatable filter; `incl = none`: its include dereferences a `None` entry (AttributeError) -/
  | interp (k : IKind) (incl : Option Include)
  /-- no filter at all: `next(filter(None, filters))` raises StopIteration -/
  | invalid

/-- the test applied to every filter after the first: a `None` entry is of no class -/
def FSpec.sameOpt (f : FSpec) : Option FSpec → Bool
  | some g => f.same g
  | none => false

def present (fs : List (Option FSpec)) : List FSpec := fs.filterMap id

def route (fs : List (Option FSpec)) : Route :=
  match present fs with
  | [] => .invalid
  | f :: _ =>
    if fs.tail.all f.sameOpt then
      match f.ikind with
      | none => .perMaster
      | some ik =>
        if f.isI then .interp ik (some f.incl)
        else .interp ik (if fs.all Option.isSome then some (unionIncl (present fs)) else none)
    else .perMaster

/-- `if len(filters) == 1: … filters = [filters[0]] * len(self.ufos)` (a `BaseIFilter` is run as it is) -/
def expand (fs : List (Option FSpec)) (n : Nat) : List (Option FSpec) :=
  match fs with
  | [some f] => if f.isI then fs else List.replicate n (some f)
  | _ => fs

/-- set union, keeping the order of first occurrence -/
def unionS (a b : List String) : List String := b.foldl sadd a

/-- the fallback loop: `for filter_, ufo, glyphSet in zip_strict(filters, ufos, glyphSets)` -/
def perMaster : List (Option FSpec) → List GlyphSet → Except Err (List String × List GlyphSet)
  | [], [] => .ok ([], [])
  | none :: fs, gs :: gss =>
    match perMaster fs gss with
    | .error e => .error e
    | .ok (m, r) => .ok (m, gs :: r)
  | some f :: fs, gs :: gss =>
    match (call f.kind f.incl Obj.fresh gs).2 with
    | .error e => .error e
    | .ok o =>
      match perMaster fs gss with
      | .error e => .error e
      | .ok (m, r) => .ok (unionS o.modified m, o.gs :: r)
  | _, _ => .error .valueError            -- zip_strict: lengths differ

/-- what one step leaves behind -/
structure RunOut where
  modified : List String
  gss : List GlyphSet
  refreshed : Bool               -- `_update_instantiator()` replaced the source layers

def mkOut (hasInst : Bool) (m : List String) (gss : List GlyphSet) : RunOut :=
  { modified := m, gss := gss, refreshed := hasInst && !m.isEmpty }

/-- `_run(*filters)` after the single-filter expansion -/
def runCore (hasInst : Bool) (fs : List (Option FSpec)) (gss : List GlyphSet) (order : List String) : Except Err RunOut :=
  match route fs with
  | .invalid => .error .exception
  | .perMaster =>
    match perMaster fs gss with
    | .error e => .error e
    | .ok (m, gss') => .ok (mkOut hasInst m gss')
  | .interp ik (some incl) =>
    match (icall ik incl Obj.fresh gss order).2 with
    | .error e => .error e
    | .ok o => .ok (mkOut hasInst o.modified o.gss)
  | .interp ik none =>
    match ik with
    | .skipExport [] => .error .attributeError       -- `return self.context.modified` of a new object
    | _ =>
      match iOrderedNames gss order with
      | .error e => .error e
      | .ok [] => .ok (mkOut hasInst [] gss)           -- no glyph at all: the include is never evaluated
      | .ok (_ :: _) => .error .attributeError         -- `None.include`

/-- `BaseInterpolatablePreProcessor._run(*filters)` -/
def run (hasInst : Bool) (fs : List (Option FSpec)) (gss : List GlyphSet) (order : List String) : Except Err RunOut :=
  match fs with
  | [none] => .error .exception                       -- `assert filters[0] is not None`
  | _ => runCore hasInst (expand fs gss.length) gss order

end Ufo2ft.C14
