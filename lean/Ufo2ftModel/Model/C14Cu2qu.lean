import Ufo2ftModel.Model.C14
/-!
`CubicToQuadraticFilter.__call__` (filters/cubicToQuadratic.py): the `rememberCurveType` gate around
`BaseFilter.__call__`.

```python
if self.options.rememberCurveType:
    for lib in (font.lib, getattr(glyphSet, "lib", {})):
        curve_type = lib.get(CURVE_TYPE_LIB_KEY, "cubic")
        if curve_type == "quadratic": return set()
        elif curve_type == "cubic":   pass
        else: raise NotImplementedError(curve_type)
modified = super().__call__(font, glyphSet)
if self.options.rememberCurveType:
    # 'lib' is the loop variable: the GLYPH SET's lib, or a throw-away dict when it has none
    if lib.get(CURVE_TYPE_LIB_KEY, "cubic") != "quadratic": lib[CURVE_TYPE_LIB_KEY] = "quadratic"
return modified
```
The two lib entries are inputs; the only lib the code writes is the glyph set's own (`layerAfter`).  The source
font is not part of the model's state: the model cannot write it.
-/
namespace Ufo2ft.C14

/-- `lib.get(CURVE_TYPE_LIB_KEY, "cubic")` -/
inductive CurveType
  | cubic | quadratic | other
  deriving DecidableEq, Repr

/-- what the gate reads besides the glyph set -/
structure C2QEnv where
  remember : Bool            -- options.rememberCurveType
  fontType : CurveType       -- font.lib
  layerType : CurveType      -- getattr(glyphSet, "lib", {})   (`cubic` when the glyph set has no lib)

inductive C2QErr
  | notImplemented | inner (e : Err)
  deriving DecidableEq

inductive Gate
  | converted | unknown | go
  deriving DecidableEq

/-- the `for lib in (font.lib, layer lib)` loop -/
def c2qGate (env : C2QEnv) : Gate :=
  if !env.remember then .go
  else match env.fontType with
    | .quadratic => .converted
    | .other => .unknown
    | .cubic =>
      match env.layerType with
      | .quadratic => .converted
      | .other => .unknown
      | .cubic => .go

structure C2QOut where
  out : Out
  /-- the key in the glyph set's own lib afterwards (in a throw-away dict when it has none) -/
  layerAfter : CurveType

def c2qCall (env : C2QEnv) (opq : List Contour → List Contour) (incl : Include) (obj : Obj) (gs : GlyphSet) :
    Obj × Except C2QErr C2QOut :=
  match c2qGate env with
  | .converted => (obj, .ok { out := { modified := [], gs := gs }, layerAfter := env.layerType })
  | .unknown => (obj, .error .notImplemented)
  | .go =>
    match call (.external opq) incl obj gs with
    | (obj', .error e) => (obj', .error (.inner e))
    | (obj', .ok o) => (obj', .ok { out := o, layerAfter := if env.remember then .quadratic else env.layerType })

end Ufo2ft.C14
