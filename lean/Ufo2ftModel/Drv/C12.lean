import Ufo2ftModel.Drv.Util
import Ufo2ftModel.Spec.C12
import Ufo2ftModel.Spec.C12Names
import Ufo2ftModel.Spec.C11
namespace Ufo2ft.Drv.C12
open Lean Ufo2ft.Drv Ufo2ft.C12

/-! JSON glue for C12.  Not part of any theorem. -/

def asOptArg (j : Json) : R OptArg := do
  match j.getObjVal? "b" with
  | .ok b => return .bool (← asBool b)
  | .error _ => return .int (← asInt (← field j "i"))

def asVer (j : Json) : R Ver := do
  match ← asInt j with
  | 1 => return .v1
  | 2 => return .v2
  | n => throw s!"bad version {n}"

def verJ : Ver → Json | .v1 => intJ 1 | .v2 => intJ 2
def backendJ : Backend → Json | .cffsubr => "cffsubr" | .compreffor => "compreffor"
def errJ : Err → Json | .notImplemented => "NotImplementedError" | .valueError => "ValueError"
def actionJ : Action → Json
  | .leave => "leave"
  | .convert => "convert"
  | .subr b o => Json.arr #["subr", backendJ b, verJ o]

def asAction (j : Json) : R Action := do
  match j with
  | .str "leave" => return .leave
  | .str "convert" => return .convert
  | _ =>
    match ← asArr j with
    | [_, b, o] =>
      let b ← asStr b
      let o ← asVer o
      if b == "cffsubr" then return .subr .cffsubr o
      else if b == "compreffor" then return .subr .compreffor o
      else throw s!"bad backend {b}"
    | _ => throw "bad action"

/-- op "dispatch": PostProcessor.process with recording stand-ins for the three external encoders, and
    OutlineOTFCompiler's optimise flag -/
def dispatchOp (req : Json) : R Reply := do
  let i ← field req "in"
  let iv ← asOpt asVer (← field i "iv")
  -- "defaults": compileOTF called without any of the three arguments (OTFCompiler dataclass defaults)
  let (opt, ver, sub) ← (if (← field i "opt") == Json.str "defaults" then pure otfCompilerDefaults else do
    let opt ← asOptArg (← field i "opt")
    let ver ← asOpt asInt (← field i "ver")
    let sub ← asOpt asStr (← field i "sub")
    pure (opt, ver, sub))
  let r := process iv opt ver sub
  let model := Json.mkObj [
    ("err", match r with | .error e => errJ e | .ok _ => Json.null),
    ("action", match r with | .ok a => actionJ a | .error _ => Json.null),
    ("specialize", Json.bool (specializeOn opt))]
  let obs ← field req "obs"
  let oerr ← asOpt asStr (← field obs "err")
  let ospec ← asBool (← field obs "specialize")
  let specOk := ospec == wantsSpecialize opt
  match oerr with
  | some "NotImplementedError" => return { model, holds := specOk && holdsDispatch iv opt ver sub (.error .notImplemented) }
  | some "ValueError" => return { model, holds := specOk && holdsDispatch iv opt ver sub (.error .valueError) }
  | some _ => return { model, holds := false }
  | none =>
    let a ← asAction (← field obs "action")
    return { model, holds := specOk && holdsDispatch iv opt ver sub (.ok a) }

/-- op "width" -/
def widthOp (req : Json) : R Reply := do
  let i ← field req "in"
  let ws ← asList asRat (← field i "widths")
  let infoD ← asOpt asRat (← field i "infoD")
  let infoN ← asOpt asRat (← field i "infoN")
  let auto ← asPair asInt asInt (← field i "auto")
  let (d, n) := defNom infoD infoN auto
  let encs := ws.map (fun w => encodeWidth w d n)
  let advs := ws.map otRound
  let model := Json.mkObj [("dn", pairJ intJ intJ (d, n)), ("enc", listJ (optJ intJ) encs), ("adv", listJ intJ advs)]
  let obs ← field req "obs"
  let fonts ← asArr (← field obs "fonts")
  let mut ok := true
  for f in fonts do
    let adv ← asList asInt (← field f "adv")
    if adv.length != ws.length then ok := false
    match ← asOpt (asPair asInt asInt) (← field f "dn") with
    | none =>   -- CFF2: no widths in charstrings; hmtx is the only carrier
      ok := ok && (ws.zip adv).all (fun (w, a) => a == otRound w)
    | some (d', n') =>
      let enc ← asList (asOpt asInt) (← field f "enc")
      if enc.length != ws.length then ok := false
      ok := ok && ((ws.zip (enc.zip adv)).all (fun (w, e, a) => holdsWidth w d' n' e a))
  return { model, holds := ok }

def asOp (j : Json) : R Op := do
  match ← asArr j with
  | [.str "m", x, y] => return .moveTo (← asInt x) (← asInt y)
  | [.str "l", x, y] => return .lineTo (← asInt x) (← asInt y)
  | [.str "c", a, b, c, d, e, f] => return .curveTo (← asInt a) (← asInt b) (← asInt c) (← asInt d) (← asInt e) (← asInt f)
  | [.str "z"] => return .closePath
  | _ => throw "bad drawing op"

def opJ : Op → Json
  | .moveTo x y => Json.arr #["m", intJ x, intJ y]
  | .lineTo x y => Json.arr #["l", intJ x, intJ y]
  | .curveTo a b c d e f => Json.arr #["c", intJ a, intJ b, intJ c, intJ d, intJ e, intJ f]
  | .closePath => Json.arr #["z"]

def asFontDrawing (j : Json) : R (List Drawing) := asList (asList asOp) j

def asCombo (j : Json) : R Combo := do
  if j == Json.str "defaults" then return otfCompilerDefaults
  match ← asArr j with
  | [o, v, s] => return (← asOptArg o, ← asOpt asInt v, ← asOpt asStr s)
  | _ => throw "bad combo"

def asResult (draws : Array (List Drawing)) (j : Json) : R (Except String Out) := do
  match ← asOpt asStr (← field j "err") with
  | some e => return .error e
  | none =>
    let k ← asNat (← field j "draw")
    match draws[k]? with
    | none => throw "bad drawing index"
    | some d =>
      return .ok { tag := ← asVer (← field j "tag"), drawing := d,
                   adv := ← asList asInt (← field j "adv"),
                   layout := ← asList asStr (← field j "layout") }

/-! #### glyph identity under production names (Model/C12Names.lean; the naming code is C11's model) -/

def asName (j : Json) : R Ufo2ft.C11.Name := do return (← asStr j).toList
def nameJ (n : Ufo2ft.C11.Name) : Json := Json.str (String.ofList n)

def asSwitches (j : Json) : R Ufo2ft.C11.Switches := do
  return { arg := ← asOpt asBool (← field j "arg"), libUse := ← asOpt asBool (← field j "libUse"),
           libDont := ← asOpt asBool (← field j "libDont"), libKeep := ← asOpt asBool (← field j "libKeep"),
           hasPs := ← asBool (← field j "hasPs"), cff1 := true }

def asNamesIn (ij : Json) : R (Ufo2ft.C11.Switches × Ufo2ft.C11.Input) := do
  let order ← asList asName (← field ij "order")
  let gs ← asList (asPair asName (asOpt asNat)) (← field ij "glyphSet")
  let ps ← asOpt (asList (asPair asName asName)) (← field ij "ps")
  let s ← asSwitches (← field ij "switches")
  return (s, { order := order, glyphSet := gs, psNames := ps })

/-- op "font": all combinations on one source font -/
def fontOp (req : Json) : R Reply := do
  let i ← field req "in"
  let cs ← asList asCombo (← field i "combos")
  let order ← asList asStr (← field i "order")
  let obs ← field req "obs"
  let draws := (← asList asFontDrawing (← field obs "draws")).toArray
  let rs ← asList (asResult draws) (← field obs "results")
  let holds := holdsSame cs rs
  -- sources built with production names: the prediction starts from the build WITHOUT renaming (obs.twin)
  let named ← (match i.getObjVal? "names" with
    | .ok j => if j.isNull then pure none else some <$> asNamesIn j
    | .error _ => pure none)
  let twin ← (match obs.getObjVal? "twin" with
    | .ok j => if j.isNull then pure none else some <$> asResult draws j
    | .error _ => pure none)
  let baseIdx ← asOpt asNat (← field i "base")
  let base? : Option (Except String Out) := match twin with
    | some t => some t
    | none => baseIdx.bind (fun k => rs[k]?)
  match base? with
  | none => return { model := Json.null, holds }
  | some b =>
    match b with
    | .ok base =>
      -- predicted fonts; their drawings are sent once each (index into `draws`)
      let preds := match named with
        | some (sw, inp) => cs.map (modelFontNamed sw inp base)
        | none => cs.map (modelFont order base)
      let distinct : List (List Drawing) := (preds.filterMap (fun p => match p with | .ok o => some o.drawing | .error _ => none)).eraseDups
      let model := Json.mkObj [
        ("draws", listJ (listJ (listJ opJ)) distinct),
        ("results", listJ (fun p =>
          match p with
          | .error e => Json.mkObj [("err", Json.str e)]
          | .ok o => Json.mkObj [("err", Json.null), ("tag", verJ o.tag), ("draw", natJ (distinct.idxOf o.drawing)),
              ("adv", listJ intJ o.adv), ("layout", strsJ o.layout)]) preds)]
      return { model, holds }
    | _ => return { model := Json.null, holds }

def asCmd (j : Json) : R Cmd := do
  match ← asArr j with
  | [.str "m", x, y] => return .rmoveto (← asInt x) (← asInt y)
  | [.str "l", x, y] => return .rlineto (← asInt x) (← asInt y)
  | [.str "c", a, b, c, d, e, f] => return .rrcurveto (← asInt a) (← asInt b) (← asInt c) (← asInt d) (← asInt e) (← asInt f)
  | _ => throw "bad command"

/-- op "spec": T2CharStringPen.getCharString(optimize=False/True) on one command list, drawn back -/
def specOp (req : Json) : R Reply := do
  let cmds ← asList asCmd (← field (← field req "in") "cmds")
  let obs ← field req "obs"
  let oplain ← asList asOp (← field obs "plain")
  let ospec ← asList asOp (← field obs "spec")
  let model := Json.mkObj [("plain", listJ opJ (render cmds)), ("spec", listJ opJ (render (specTopo cmds)))]
  -- C12_specTopo_id on what was observed: where nothing is redundant, optimising does not change what is
  -- drawn (on redundant lists only the agreement with `specTopo` is checked; the known finding is judged on fonts)
  return { model, holds := ospec == oplain || !topoFree cmds }

/-- op "names": one source font built with some setting of the production-name switches under several option
    combinations.  in = {order, glyphSet, ps, switches}; obs = {twin: digest per glyph index of the build WITHOUT
    renaming, ref: the same for the reference build (CFF 1, nothing optimised) WITH the switches, refNames,
    fonts: [{tag, names|null}] for every successful combination} -/
def namesOp (req : Json) : R Reply := do
  let ij ← field req "in"
  let (s, i) ← asNamesIn ij
  let order := i.order
  let obs ← field req "obs"
  let twin ← asList asStr (← field obs "twin")
  let oref ← asList asStr (← field obs "ref")
  let orefNames ← asOpt (asList asName) (← field obs "refNames")
  let fonts ← asList (fun j => do
      let t ← asVer (← field j "tag")
      let n ← asOpt (asList asName) (← field j "names")
      pure (t, n)) (← field obs "fonts")
  -- model
  let c1 := renameCarriers .v1 s i
  let mref : Json := match savedIndex .v1 c1 with
    | .error _ => Json.mkObj [("err", "KeyError")]
    | .ok idx => strsJ (idx.filterMap (fun k => twin[k]?))
  let mfonts := fonts.map (fun (t, _) => savedNames t (renameCarriers t s i))
  let model := Json.mkObj [("ref", mref), ("refNames", optJ (listJ nameJ) (savedNames .v1 c1)),
    ("fonts", listJ (optJ (listJ nameJ)) mfonts)]
  -- the property on what was observed
  let holds := holdsCarried twin oref orefNames &&
    fonts.all (fun (_, n) => namesIdentify twin.length n) &&
    allSameNames (orefNames :: fonts.map (·.2))
  let hyp := decide order.Nodup && order.head? == some Ufo2ft.C11.notdef && twin.length == order.length
  return { model, holds, hyp := Json.bool hyp }

def handle (op : String) (req : Json) : R Reply :=
  match op with
  | "dispatch" => dispatchOp req
  | "width" => widthOp req
  | "font" => fontOp req
  | "spec" => specOp req
  | "names" => namesOp req
  | _ => throw s!"C12: unknown op {op}"

end Ufo2ft.Drv.C12
