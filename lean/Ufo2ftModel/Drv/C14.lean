import Ufo2ftModel.Drv.Util
import Ufo2ftModel.Spec.C14
import Ufo2ftModel.Spec.C14Run
import Ufo2ftModel.Spec.C14Special
import Ufo2ftModel.Model.C14Cu2qu
import Ufo2ftModel.Spec.C14Cu2qu
import Ufo2ftModel.Model.C14Entry
import Ufo2ftModel.Spec.C14Entry
namespace Ufo2ft.Drv.C14
open Lean Ufo2ft.Drv Ufo2ft.C14

def errS : Err → String
  | .valueError => "ValueError" | .keyError => "KeyError" | .missingComponent => "MissingComponentError"
  | .invalidFontData => "InvalidFontData" | .attributeError => "AttributeError"
  | .zeroDivision => "ZeroDivisionError" | .exception => "Exception" | .recursion => "RecursionError"
  | .statistics => "StatisticsError"

def asSeg (j : Json) : R (Option Seg) := do
  if j.isNull then return none
  match ← asStr j with
  | "move" => return some .move
  | "line" => return some .line
  | "curve" => return some .curve
  | "qcurve" => return some .qcurve
  | s => throw s!"bad segment type {s}"

def segJ : Option Seg → Json
  | none => Json.null
  | some .move => "move" | some .line => "line" | some .curve => "curve" | some .qcurve => "qcurve"

def asPt (j : Json) : R Pt := do
  match ← asArr j with
  | [x, y, t] => return { x := ← asRat x, y := ← asRat y, seg := ← asSeg t }
  | _ => throw "bad point"

def asAffine (j : Json) : R Affine := do
  match ← asList asRat j with
  | [a, b, c, d, e, f] => return ⟨a, b, c, d, e, f⟩
  | _ => throw "bad transform"

def asComp (j : Json) : R Comp := do
  let (b, t) ← asPair asStr asAffine j
  return ⟨b, t⟩

def asAnchor (j : Json) : R Anchor := do
  match ← asArr j with
  | [n, x, y] => return { name := ← asStr n, x := ← asRat x, y := ← asRat y }
  | _ => throw "bad anchor"

def asGlyph (j : Json) : R Glyph := do
  return { width := ← asRat (← field j "w"), height := ← asRat (← field j "h"),
           contours := ← asList (asList asPt) (← field j "c"),
           comps := ← asList asComp (← field j "k"),
           anchors := ← asList asAnchor (← field j "a") }

def asGlyphSet (j : Json) : R GlyphSet := asList (asPair asStr asGlyph) j

def ptJ (p : Pt) : Json := Json.arr #[ratJ p.x, ratJ p.y, segJ p.seg]
def affineJ (t : Affine) : Json := listJ ratJ [t.xx, t.xy, t.yx, t.yy, t.dx, t.dy]
def glyphJ (g : Glyph) : Json := Json.mkObj [
  ("w", ratJ g.width), ("h", ratJ g.height), ("c", listJ (listJ ptJ) g.contours),
  ("k", listJ (fun (c : Comp) => Json.arr #[Json.str c.base, affineJ c.t]) g.comps),
  ("a", listJ (fun (a : Anchor) => Json.arr #[Json.str a.name, ratJ a.x, ratJ a.y]) g.anchors)]
def glyphSetJ (gs : GlyphSet) : Json := listJ (pairJ Json.str glyphJ) gs

/-- the callable include predicates the harness uses -/
def predOf (p : String) : R Include :=
  match p with
  | "hasContours" => pure (fun _ g => !g.contours.isEmpty)
  | "hasComponents" => pure (fun _ g => !g.comps.isEmpty)
  | "hasAnchors" => pure (fun _ g => !g.anchors.isEmpty)
  | "wide" => pure (fun _ g => decide (g.width ≥ 500))
  | "dotted" => pure (fun n _ => n.contains '.')
  | _ => throw s!"unknown predicate {p}"

def asInclude (j : Json) : R Include := do
  let kind ← asStr (← field j "kind")
  let r : R (Except Err Include) := match kind with
    | "none" => pure (mkInclude none none)
    | "names" => do pure (mkInclude (some (.names (← asList asStr (← field j "l")))) none)
    | "exclude" => do pure (mkInclude none (some (← asList asStr (← field j "l"))))
    | "pred" => do pure (mkInclude (some (.pred (← predOf (← asStr (← field j "p"))))) none)
    | _ => throw s!"bad include kind {kind}"
  match ← r with
  | .ok i => pure i
  | .error _ => throw "include spec rejected"

def asCurveType (j : Json) : R CurveType := do
  match ← asStr j with
  | "cubic" => pure .cubic
  | "quadratic" => pure .quadratic
  | _ => pure .other

def curveTypeS : CurveType → String
  | .cubic => "cubic" | .quadratic => "quadratic" | .other => "other"

def asC2QEnv (j : Json) : R C2QEnv := do
  return { remember := ← asBool (← field j "remember"), fontType := ← asCurveType (← field j "font"),
           layerType := ← asCurveType (← field j "layer") }

structure FontIn where
  gs : GlyphSet
  marks : List String
  bounds : List (String × List (Option (Q × Q)))
  cap : Q
  xh : Q
  c2q : Option C2QEnv := none

def asFontIn (j : Json) : R FontIn := do
  return { gs := ← asGlyphSet (← field j "gs"),
           marks := ← asList asStr (← field j "marks"),
           bounds := ← asList (asPair asStr (asList (asOpt (asPair asRat asRat)))) (← field j "bounds"),
           cap := ← asRat (← field j "cap"), xh := ← asRat (← field j "xh"),
           c2q := ← (match j.getObjVal? "c2q" with
             | .ok v => asOpt asC2QEnv v
             | .error _ => pure none) }

def kindOf (name : String) (opts : Json) (f : FontIn) : R Kind :=
  match name with
  | "decompose" => pure .decompose
  | "decomposeTransformed" => pure .decomposeTransformed
  | "flatten" => pure .flatten
  | "reverse" => pure .reverse
  | "sort" => pure .sort
  | "opaque" => pure (.external id)
  | "skipExport" => do pure (.skipExport (← asList asStr (← field opts "skip")))
  | "propagate" =>
    pure (.propagate { marks := f.marks,
                       bounds := fun n i => match alookup n f.bounds with
                         | some l => (l.getD i none)
                         | none => none })
  | "transform" => do
    pure (.transform { offsetX := ← asRat (← field opts "OffsetX"), offsetY := ← asRat (← field opts "OffsetY"),
                       scaleX := ← asRat (← field opts "ScaleX"), scaleY := ← asRat (← field opts "ScaleY"),
                       slant := ← asRat (← field opts "Slant"), tanSlant := ← asRat (← field opts "tanSlant"),
                       origin := ← asNat (← field opts "Origin"), capHeight := f.cap, xHeight := f.xh })
  | _ => throw s!"unknown filter {name}"

structure ObsCall where
  err : Option String
  modified : List String
  after : GlyphSet
  src : List String
  again : Option Outcome := none
  onGiven : Option Bool := none      -- `filter.context.glyphSet is glyphSet` (absent / null = not observed)

def asOutcome (j : Json) : R Outcome := do
  let err ← asOpt asStr (← field j "err")
  match err with
  | some e => return { err := some e, modified := [], gs := [] }
  | none => return { err := none, modified := ← asList asStr (← field j "modified"),
                     gs := ← asGlyphSet (← field j "after") }

def asObsCall (j : Json) : R ObsCall := do
  let o ← asOutcome j
  let again ← match j.getObjVal? "again" with
    | .ok v => asOpt asOutcome v
    | .error _ => pure none
  let onGiven ← match j.getObjVal? "onGiven" with
    | .ok v => asOpt asBool v
    | .error _ => pure none
  return { err := o.err, modified := o.modified, after := o.gs, src := ← asList asStr (← field j "src"), again := again,
           onGiven := onGiven }

def ObsCall.outcome (o : ObsCall) : Outcome := { err := o.err, modified := o.modified, gs := o.after }

/-- op "seq": one filter object applied to 1-3 fonts in a row (+ a new object on each of them) -/
def seq (req : Json) : R Reply := do
  let i ← field req "in"
  let name ← asStr (← field i "filter")
  let opts ← field i "opts"
  let incl ← asInclude (← field i "inc")
  let separate ← asBool (← field i "separate")
  let fonts ← asList asFontIn (← field i "fonts")
  let obs ← field req "obs"
  let ocalls ← asList asObsCall (← field obs "calls")
  let ofresh ← asList asObsCall (← field obs "fresh")
  -- model: thread the object through the invocations
  let mut obj := Obj.fresh
  let mut outs : Array Json := #[]
  let mut fps : Array (Footprint × GlyphSet) := #[]
  for f in fonts do
    let k ← kindOf name opts f
    fps := fps.push (fpOf k, f.gs)
    match f.c2q with
    | some env =>
      -- CubicToQuadraticFilter: the rememberCurveType gate around BaseFilter.__call__ (Model/C14Cu2qu)
      let (obj', r) := c2qCall env id incl obj f.gs
      obj := obj'
      match r with
      | .error .notImplemented => outs := outs.push (Json.mkObj [("err", Json.str "NotImplementedError")])
      | .error (.inner e) => outs := outs.push (Json.mkObj [("err", Json.str (errS e))])
      | .ok o => outs := outs.push (Json.mkObj [("err", Json.null), ("modified", strsJ (sortStr o.out.modified)),
                                                ("after", glyphSetJ o.out.gs), ("amb", Json.bool o.out.ambiguous),
                                                ("gslib", Json.str (curveTypeS o.layerAfter))])
    | none =>
      let (obj', r) := call k incl obj f.gs
      obj := obj'
      match r with
      | .error e => outs := outs.push (Json.mkObj [("err", Json.str (errS e))])
      | .ok o => outs := outs.push (Json.mkObj [("err", Json.null), ("modified", strsJ (sortStr o.modified)),
                                                ("after", glyphSetJ o.gs), ("amb", Json.bool o.ambiguous)])
  -- property, on the observation
  let hcalls := (List.zip fps.toList ocalls).all (fun (e : (Footprint × GlyphSet) × ObsCall) =>
    -- a second run on the same source font (new copies) gives the same, whether or not the call raised
    holdsAgain separate e.2.outcome e.2.again &&
    -- the entry of the call: a glyph set that was given is the object worked on (Spec/C14Entry)
    holdsEntry separate e.2.onGiven &&
    match e.2.err with
    | some _ => true
    | none => holdsCall e.1.1 incl e.1.2 e.2.modified e.2.after && holdsSource separate e.2.src &&
              (!(separate && e.1.2.isEmpty) || holdsEmptyCall e.2.after e.2.src))
  let hstate := holdsStateless (ocalls.map ObsCall.outcome) (ofresh.map ObsCall.outcome)
  return { model := Json.mkObj [("calls", Json.arr outs)],
           holds := hcalls && hstate && ocalls.length == fonts.length }

/-- op "init": BaseFilter.__init__ include / exclude handling, probed on glyph names -/
def init (req : Json) : R Reply := do
  let i ← field req "in"
  let inc ← asOpt (asList asStr) (← field i "include")
  let exc ← asOpt (asList asStr) (← field i "exclude")
  let probe ← asList asStr (← field i "probe")
  let obs ← field req "obs"
  let oerr ← asOpt asStr (← field obs "err")
  let dummy : Glyph := { width := 0, height := 0, contours := [], comps := [], anchors := [] }
  let m := mkInclude (inc.map IncArg.names) exc
  let mj := match m with
    | .error e => Json.mkObj [("err", Json.str (errS e))]
    | .ok p => Json.mkObj [("err", Json.null), ("res", listJ Json.bool (probe.map (fun n => p n dummy)))]
  let ores : Except Err (List Bool) ← match oerr with
    | some "ValueError" => pure (.error .valueError)
    | some _ => pure (.error .exception)
    | none => do pure (.ok (← asList asBool (← field obs "res")))
  return { model := mj, holds := holdsInit inc exc probe ores }

/-! interpolatable variants -/

structure MastersIn where
  gss : List GlyphSet
  nameOrder : List String
  marks : List String
  bounds : List (List (String × List (Option (Q × Q))))

def asMastersIn (j : Json) : R MastersIn := do
  return { gss := ← asList asGlyphSet (← field j "gss"),
           nameOrder := ← asList asStr (← field j "nameOrder"),
           marks := ← asList asStr (← field j "marks"),
           bounds := ← asList (asList (asPair asStr (asList (asOpt (asPair asRat asRat))))) (← field j "bounds") }

def mkPin (marks : List String) (b : List (String × List (Option (Q × Q)))) : PAIn :=
  { marks := marks,
    bounds := fun n i => match alookup n b with
      | some l => (l.getD i none)
      | none => none }

def ikindOf (name : String) (opts : Json) (f : MastersIn) : R IKind :=
  match name with
  | "decompose" => pure .decompose
  | "decomposeTransformed" => pure .decomposeTransformed
  | "flatten" => pure .flatten
  | "skipExport" => do pure (.skipExport (← asList asStr (← field opts "skip")))
  | "propagate" =>
    pure (.propagate (f.bounds.map (mkPin f.marks)))
  | _ => throw s!"unknown interpolatable filter {name}"

structure ObsICall where
  err : Option String
  modified : List String
  after : List GlyphSet
  src : List String

def asObsICall (j : Json) : R ObsICall := do
  let err ← asOpt asStr (← field j "err")
  match err with
  | some e => return { err := some e, modified := [], after := [], src := ← asList asStr (← field j "src") }
  | none => return { err := none, modified := ← asList asStr (← field j "modified"),
                     after := ← asList asGlyphSet (← field j "after"), src := ← asList asStr (← field j "src") }

def ObsICall.outcome (o : ObsICall) : IOutcome := { err := o.err, modified := o.modified, gss := o.after }

/-- op "iseq": one interpolatable filter object applied to 1-2 sets of zipped masters in a row -/
def iseq (req : Json) : R Reply := do
  let i ← field req "in"
  let name ← asStr (← field i "filter")
  let opts ← field i "opts"
  let incl ← asInclude (← field i "inc")
  let separate ← asBool (← field i "separate")
  let calls ← asList asMastersIn (← field i "calls")
  let obs ← field req "obs"
  let ocalls ← asList asObsICall (← field obs "calls")
  let ofresh ← asList asObsICall (← field obs "fresh")
  let mut obj := Obj.fresh
  let mut outs : Array Json := #[]
  let mut fps : Array (Footprint × List GlyphSet) := #[]
  for f in calls do
    let k ← ikindOf name opts f
    let (obj', r) := icall k incl obj f.gss f.nameOrder
    obj := obj'
    fps := fps.push (fpOfI k, f.gss)
    match r with
    | .error e => outs := outs.push (Json.mkObj [("err", Json.str (errS e))])
    | .ok o => outs := outs.push (Json.mkObj [("err", Json.null), ("modified", strsJ (sortStr o.modified)),
                                              ("after", listJ glyphSetJ o.gss), ("amb", Json.bool o.ambiguous)])
  let hcalls := (List.zip fps.toList ocalls).all (fun (e : (Footprint × List GlyphSet) × ObsICall) =>
    match e.2.err with
    | some _ => true
    | none => holdsICall e.1.1 incl e.1.2 e.2.modified e.2.after && holdsSource separate e.2.src)
  let hstate := holdsIStateless (ocalls.map ObsICall.outcome) (ofresh.map ObsICall.outcome)
  return { model := Json.mkObj [("calls", Json.arr outs)],
           holds := hcalls && hstate && ocalls.length == calls.length }

/-! pre-processor level: the steps of `BaseInterpolatablePreProcessor.process()` -/

structure StepIn where
  masters : List FontIn
  nameOrder : List String
  filters : List (Option FSpec)

def ikindOfCls (cls : String) (opts : Json) (masters : List FontIn) : R (Option IKind) :=
  match cls with
  | "decompose" => pure (some .decompose)
  | "decomposeTransformed" => pure (some .decomposeTransformed)
  | "flatten" => pure (some .flatten)
  | "skipExport" => do pure (some (.skipExport (← asList asStr (← field opts "skip"))))
  | "propagate" =>
    -- the mark categories are those of the default font (`fonts[0]` without an instantiator) in all masters
    let marks := (masters.head?.map (·.marks)).getD []
    pure (some (.propagate (masters.map (fun m => mkPin marks m.bounds))))
  | _ => pure none

def asFSpec (masters : List FontIn) (m : FontIn) (j : Json) : R (Option FSpec) := do
  if j.isNull then return none
  let name ← asStr (← field j "filter")
  let cls ← asStr (← field j "cls")
  let opts ← field j "opts"
  let conv ← asBool (← field j "conv")
  let ik ← if conv then ikindOfCls cls opts masters else pure none
  return some { cls := cls, opts := ← asStr (← field j "optsKey"), pre := ← asBool (← field j "pre"),
                isI := ← asBool (← field j "isI"), kind := ← kindOf name opts m, ikind := ik,
                incl := ← asInclude (← field j "inc") }

def asStepIn (j : Json) : R StepIn := do
  let masters ← asList asFontIn (← field j "masters")
  let fj ← asArr (← field j "filters")
  -- one entry per master; a single entry stands for all of them (`_run(f)`), described against the first master
  let dflt : FontIn := { gs := [], marks := [], bounds := [], cap := 0, xh := 0 }
  let ms := if fj.length == masters.length then masters else fj.map (fun _ => masters.headD dflt)
  let fs ← (List.zip ms fj).mapM (fun (p : FontIn × Json) => asFSpec masters p.1 p.2)
  return { masters := masters, nameOrder := ← asList asStr (← field j "nameOrder"), filters := fs }

structure ObsStep where
  err : Option String
  modified : List String
  after : List GlyphSet
  refreshed : Bool

def asObsStep (j : Json) : R ObsStep := do
  let err ← asOpt asStr (← field j "err")
  match err with
  | some e => return { err := some e, modified := [], after := [], refreshed := false }
  | none =>
    let r ← field j "refreshed"
    return { err := none, modified := ← asList asStr (← field j "modified"),
             after := ← asList asGlyphSet (← field j "after"),
             refreshed := ← (if r.isNull then pure false else asBool r) }

/-- op "prun": the filter steps of one `process()` call, each modelled from the OBSERVED state before it -/
def prun (req : Json) : R Reply := do
  let i ← field req "in"
  let hasInst ← asBool (← field i "hasInst")
  let separate ← asBool (← field i "separate")
  let steps ← asList asStepIn (← field i "steps")
  let obs ← field req "obs"
  let osteps ← asList asObsStep (← field obs "steps")
  let src ← asList asStr (← field obs "src")
  let view ← asOpt (asList asGlyphSet) (← field obs "view")
  let forced ← asOpt (asList asGlyphSet) (← field obs "forced")
  let mut outs : Array Json := #[]
  let mut ok := osteps.length == steps.length
  let mut routes : Array Json := #[]
  let mut hsteps : Array Json := #[]
  for (st, o) in List.zip steps osteps do
    let gss := st.masters.map (·.gs)
    let fs := expand st.filters gss.length
    let r := route fs
    let isInterp := match r with | .interp _ (some _) => true | _ => false
    routes := routes.push (Json.str (match r with
      | .perMaster => "perMaster" | .interp _ (some _) => "interp" | .interp _ none => "noneFirst" | .invalid => "invalid"))
    -- the interpolatable filters are modelled without an instantiator only
    if hasInst && isInterp then
      outs := outs.push Json.null
    else
      match run hasInst st.filters gss st.nameOrder with
      | .error e => outs := outs.push (Json.mkObj [("err", Json.str (errS e))])
      | .ok ro => outs := outs.push (Json.mkObj [("err", Json.null), ("modified", strsJ (sortStr ro.modified)),
                                                 ("after", listJ glyphSetJ ro.gss), ("refreshed", Json.bool ro.refreshed)])
    -- property, on the observation
    match o.err with
    | some _ => hsteps := hsteps.push Json.null
    | none =>
      let h := holdsRun hasInst (toMs fs) gss o.modified o.after o.refreshed
      hsteps := hsteps.push (Json.mkObj [
        ("report", Json.bool (holdsRunReport gss o.after o.modified)),
        ("refresh", Json.bool (holdsRefresh hasInst gss o.after o.refreshed)),
        ("footprint", Json.bool (holdsRunFootprint (toMs fs) gss o.after))])
      ok := ok && h
  let hview := match view, forced with
    | some v, some f => holdsView v f
    | none, none => true
    | _, _ => false
  return { model := Json.mkObj [("steps", Json.arr outs), ("routes", Json.arr routes)],
           holds := ok && holdsSource separate src && hview,
           info := Json.mkObj [("steps", Json.arr hsteps), ("source", Json.bool (holdsSource separate src)),
                               ("view", Json.bool hview)] }

/-! DottedCircleFilter / ExplodeColorLayerGlyphsFilter: the source font is part of the state -/

def asFGlyph (j : Json) : R FGlyph := do
  match ← asArr j with
  | [n, g, u, bw] => return { name := ← asStr n, g := ← asGlyph g, unicodes := ← asList asNat u, bw := ← asOpt asRat bw }
  | _ => throw "bad font glyph"

def asCMap (j : Json) : R ColorMap := asList (asPair asStr asNat) j

def asLGlyph (j : Json) : R LGlyph := do
  return { g := ← asGlyph j, unicodes := ← asList asNat (← field j "u"), cmap := ← asOpt asCMap (← field j "m") }

def asXSet (j : Json) : R XSet := asList (asPair asStr asLGlyph) j

def cmapJ (m : ColorMap) : Json := listJ (pairJ Json.str natJ) m
def lglyphJ (l : LGlyph) : Json :=
  (glyphJ l.g).setObjVal! "u" (listJ natJ l.unicodes) |>.setObjVal! "m" (optJ cmapJ l.cmap)
def xsetJ (x : XSet) : Json := listJ (pairJ Json.str lglyphJ) x

def catsJ (c : Option (List (String × String))) : Json :=
  optJ (fun l => listJ (pairJ Json.str Json.str) ((l.toArray.qsort (fun a b => a.1 < b.1)).toList)) c
def gdefJ (g : Option (List (Option (List String)))) : Json := optJ (listJ (optJ strsJ)) g
def colorLayersJ (c : Option (List (String × ColorMap))) : Json :=
  optJ (fun l => listJ (pairJ Json.str cmapJ) ((l.toArray.qsort (fun a b => a.1 < b.1)).toList)) c

def asCats (j : Json) : R (Option (List (String × String))) := asOpt (asList (asPair asStr asStr)) j
def asGdef (j : Json) : R (Option (List (Option (List String)))) := asOpt (asList (asOpt (asList asStr))) j
def asColorLayers (j : Json) : R (Option (List (String × ColorMap))) := asOpt (asList (asPair asStr asCMap)) j

/-- one invocation of DottedCircleFilter: (model reply, holds on the observation, parts of holds) -/
def dcOne (separate : Bool) (sp : Json) (o : ObsCall) (osp : Option Json) : R (Json × Bool × Json) := do
  let glyphs ← asList asFGlyph (← field sp "glyphs")
  let src : DCSrc := { glyphs := glyphs, cats := ← asCats (← field sp "cats"), gdef := ← asGdef (← field sp "gdef"),
                       feaCanonical := ← asBool (← field sp "feaCanonical") }
  let i : DCIn := { src := src, gs := ← asGlyphSet (← field sp "gs"), shared := ← asBool (← field sp "shared"),
                    drawn := ← asGlyph (← field sp "drawn") }
  let mj := match dcCall i with
    | .error e => Json.mkObj [("err", Json.str (errS e))]
    | .ok r => Json.mkObj [("err", Json.null), ("modified", strsJ (sortStr r.modified)), ("gs", glyphSetJ r.gs),
        ("font", listJ (pairJ Json.str glyphJ) (r.src.glyphs.map (fun fg => (fg.name, fg.g)))),
        ("cats", catsJ r.src.cats), ("gdef", gdefJ r.src.gdef),
        ("feaChanged", Json.bool (r.src.feaAssigned && (r.src.gdef != src.gdef || !src.feaCanonical))),
        ("ties", listJ Json.bool r.ties)]
  match o.err, osp with
  | none, some os =>
    let gs' ← asGlyphSet (← field os "gs")
    let font' ← asList (asPair asStr asGlyph) (← field os "font")
    let cats' ← asCats (← field os "cats")
    let fc ← asBool (← field os "feaChanged")
    let fp := holdsDCFootprint glyphs i.gs gs'
    let rp := holdsReport i.gs gs' o.modified
    let sr := holdsDCSource separate (glyphs.map (fun fg => (fg.name, fg.g))) font' src.cats cats' fc
    return (mj, holdsDC separate glyphs i.gs o.modified gs' font' src.cats cats' fc,
            Json.mkObj [("footprint", Json.bool fp), ("report", Json.bool rp), ("source", Json.bool sr)])
  | _, _ => return (mj, true, Json.null)

def asExSrc (sp : Json) : R ExSrc := do
  return { layers := ← asList (asPair asStr asXSet) (← field sp "layers"),
           globalMap := ← asOpt asCMap (← field sp "globalMap"),
           colorLayers := ← asColorLayers (← field sp "colorLayers") }

def sortCL (s : ExSrc) : ExSrc :=
  { s with colorLayers := s.colorLayers.map (fun l => (l.toArray.qsort (fun a b => a.1 < b.1)).toList) }

def exOne (separate : Bool) (incl : Include) (sp : Json) (o : ObsCall) (osp : Option Json) : R (Json × Bool × Json) := do
  let src ← asExSrc sp
  let i : ExIn := { src := src, gs := ← asXSet (← field sp "gs") }
  let mj := match exCall incl i with
    | .error e => Json.mkObj [("err", Json.str (errS e))]
    | .ok r => Json.mkObj [("err", Json.null), ("modified", strsJ (sortStr r.modified)), ("gs", xsetJ r.gs),
        ("layers", listJ (pairJ Json.str xsetJ) r.src.layers), ("colorLayers", colorLayersJ r.src.colorLayers),
        ("added", strsJ r.added)]
  match o.err, osp with
  | none, some os =>
    let gs' ← asXSet (← field os "gs")
    let src' : ExSrc := { layers := ← asList (asPair asStr asXSet) (← field os "layers"), globalMap := src.globalMap,
                          colorLayers := ← asColorLayers (← field os "colorLayers") }
    let fp := holdsExFootprint src.layers i.gs gs'
    let rp := holdsExReport i.gs gs' o.modified
    let sr := holdsExSource separate (sortCL src) (sortCL src')
    return (mj, holdsEx separate (sortCL src) i.gs o.modified gs' (sortCL src'),
            Json.mkObj [("footprint", Json.bool fp), ("report", Json.bool rp), ("source", Json.bool sr)])
  | _, _ => return (mj, true, Json.null)

/-- op "special": one DottedCircleFilter / ExplodeColorLayerGlyphsFilter object applied to 1-2 fonts in a row -/
def special (req : Json) : R Reply := do
  let i ← field req "in"
  let impl ← asStr (← field i "impl")
  let incl ← asInclude (← field i "realInc")
  let separate ← asBool (← field i "separate")
  let fonts ← asArr (← field i "fonts")
  let obs ← field req "obs"
  let ocallsJ ← asArr (← field obs "calls")
  let ocalls ← ocallsJ.mapM asObsCall
  let ofresh ← asList asObsCall (← field obs "fresh")
  let mut outs : Array Json := #[]
  let mut parts : Array Json := #[]
  let mut ok := ocalls.length == fonts.length
  for ((f, o), oj) in List.zip (List.zip fonts ocalls) ocallsJ do
    let sp ← field f "sp"
    let osp := (oj.getObjVal? "sp").toOption
    let (mj, h, info) ← if impl == "dottedCircle" then dcOne separate sp o osp else exOne separate incl sp o osp
    outs := outs.push mj
    parts := parts.push info
    ok := ok && h
  let hstate := holdsStateless (ocalls.map ObsCall.outcome) (ofresh.map ObsCall.outcome)
  return { model := Json.mkObj [("calls", Json.arr outs)], holds := ok && hstate,
           info := Json.mkObj [("calls", Json.arr parts), ("stateless", Json.bool hstate)] }

def handle (op : String) (req : Json) : R Reply :=
  match op with
  | "seq" => seq req
  | "init" => init req
  | "iseq" => iseq req
  | "prun" => prun req
  | "special" => special req
  | _ => throw s!"C14: unknown op {op}"

end Ufo2ft.Drv.C14
