import Ufo2ftModel.Drv.GeomJ
import Ufo2ftModel.Spec.C15
import Ufo2ftModel.Spec.Good
namespace Ufo2ft.Drv.C15
open Lean Ufo2ft Ufo2ft.Drv Ufo2ft.C15

/-- op "filter": in = {filter, glyphs, include: [names]|null, marks, opts}; obs = {err}|{glyphs, modified, ...} -/
def filter (req : Json) : R Reply := do
  let i ← field req "in"
  let fname ← asStr (← field i "filter")
  let gs ← asGlyphSet (← field i "glyphs")
  let inclL ← asOpt (asList asStr) (← field i "include")
  let incl : String → Bool := match inclL with | none => fun _ => true | some l => fun n => l.contains n
  let marks ← asList asStr (← field i "marks")
  let o ← field i "opts"
  let topts : R TOpts := do
    return { offsetX := ← asRat (← field o "OffsetX"), offsetY := ← asRat (← field o "OffsetY"),
             scaleX := ← asRat (← field o "ScaleX"), scaleY := ← asRat (← field o "ScaleY"),
             slantNonzero := ← asBool (← field o "slantNonzero"), tanSlant := ← asRat (← field o "tanSlant"),
             originHeight := ← asRat (← field o "originHeight") }
  let m ← (if fname == "transformations" then tMatrix <$> topts else pure Affine.id)
  -- the predicate is evaluated against the REQUESTED matrix (Spec.requestedMatrix: slant, then scale, about the origin
  -- height, then offset - written down pointwise), not against the matrix the model/filter builds
  -- (Props: tMatrix_eq_requested shows the two coincide for the modelled code)
  let mReq ← (if fname == "transformations" then requestedMatrix <$> topts else pure Affine.id)
  -- "inexact": the Slant stream (tan is irrational; doubles round): tolerance form of the predicate
  let inexact := ((i.getObjVal? "inexact").toOption.bind (fun j => j.getBool?.toOption)).getD false
  let eps : Q := 1 / 1000000
  -- `_bounds` of the components of mark-ligature composites: the model's own rule for line outlines (`lineBounds`);
  -- the pen's value measured by the harness only where the outline has curve segments
  let tableJ := (i.getObjVal? "bounds").toOption.getD (Json.arr #[])
  let table ← asList (fun j => do
      let l ← asArr j
      match l with
      | [k, b] => do
        let k ← asComp k
        let b ← asOpt (asPair asRat asRat) b
        return (k, b)
      | _ => throw "bounds entry") tableJ
  let bnd : Comp → Option (Q × Q) := fun k =>
    match lineBounds gs k with
    | some r => r
    | none => (table.find? (fun e => e.1 == k)).bind (·.2)
  let res : Except GErr FState :=
    match fname with
    | "decompose" => runFilter decomposeStep incl gs
    | "decomposeTransformed" => runFilter decomposeTransformedStep incl gs
    | "flatten" => runFilter flattenStep incl gs
    | "transformations" =>
      -- `TransformPointPen.__init__` inverts the filter matrix eagerly: with a singular matrix (ScaleX = 0 ...) the first
      -- included non-empty glyph makes the real filter raise ZeroDivisionError.  The model function is total there (its
      -- theorems assume 0 < det); the guard below (before `match res`) mirrors the code for the correspondence.
      runFilter (transformStep m incl) incl gs
    | "propagateAnchors" => runFilter (propagateStep bnd marks) incl gs
    | _ => .error .assertion
  let obs ← field req "obs"
  let oerr ← asOpt asStr (← field obs "err")
  if fname == "transformations" && m.det == 0 &&
      gs.any (fun e => incl e.1 && !(e.2.contours.isEmpty && e.2.comps.isEmpty && e.2.anchors.isEmpty)) then
    return { model := Json.mkObj [("err", "ZeroDivisionError")], holds := oerr.isSome }
  match res with
  | .error e => return { model := Json.mkObj [("err", gerrJ e)], holds := oerr.isSome }
  | .ok st =>
    let model := Json.mkObj [("err", Json.null), ("glyphs", glyphSetJ st.gs),
      ("modified", strsJ (sortStr st.modified)), ("matrix", affineJ m),
      ("bounds", listJ (fun e => Json.arr #[compJ e.1,
          match lineBounds gs e.1 with
          | some r => optJ (pairJ ratJ ratJ) r
          | none => Json.str "curve"]) table)]
    match oerr with
    | some _ => return { model, holds := false }
    | none =>
      let after ← asGlyphSet (← field obs "glyphs")
      let bad : List String ← (match fname with
        | "transformations" =>
            pure (if inexact then transformWrongApprox eps mReq incl gs after else transformWrong mReq incl gs after)
        | "propagateAnchors" => do
            let sm ← asList asStr (← field obs "secondModified")
            let ss ← asBool (← field obs "secondSame")
            pure (propagateWrong gs after ++ propagateMissing marks incl gs after ++
                  promotionWrong bnd marks incl gs after ++ numberingWrong gs after ++
                  (if sm.isEmpty && ss then [] else ["<second application changed something>"]))
        | _ => pure (renderChanged gs after ++
            (if fname == "flatten" && !holdsFlatDepth after incl then ["<nested component left>"] else [])))
      let namesOk := after.names == gs.names
      return { model, holds := bad.isEmpty && namesOk, info := strsJ bad,
               hyp := Json.bool (wfCert gs) }

def handle (op : String) (req : Json) : R Reply :=
  match op with
  | "filter" => filter req
  | _ => throw s!"C15: unknown op {op}"

end Ufo2ft.Drv.C15
