import Ufo2ftModel.Drv.Util
import Ufo2ftModel.Spec.C11
namespace Ufo2ft.Drv.C11
open Lean Ufo2ft.Drv Ufo2ft.C11

abbrev GName := Ufo2ft.C11.Name

def asName (j : Json) : R GName := do return (← asStr j).toList
def nameJ (n : GName) : Json := Json.str (String.ofList n)
def namesJ (l : List GName) : Json := listJ nameJ l

def asInput (i : Json) : R Input := do
  let order ← asList asName (← field i "order")
  let gs ← asList (asPair asName (asOpt asNat)) (← field i "glyphSet")
  let ps ← asOpt (asList (asPair asName asName)) (← field i "ps")
  return { order := order, glyphSet := gs, psNames := ps }

def asSwitches (j : Json) : R Switches := do
  return { arg := ← asOpt asBool (← field j "arg"), libUse := ← asOpt asBool (← field j "libUse"),
           libDont := ← asOpt asBool (← field j "libDont"), libKeep := ← asOpt asBool (← field j "libKeep"),
           hasPs := ← asBool (← field j "hasPs"), cff1 := ← asBool (← field j "cff1") }

/-- which rule of `_build_production_name` names glyph `g` (evidence only: the distribution of the
    generated inputs over the branches of the modelled code) -/
def ruleOf (i : Input) (g : GName) : String :=
  let useMap := match i.psNames with | some m => !m.isEmpty | none => false
  if useMap then
    match i.psNames.bind (alookup g) with
    | some p => if p.isEmpty then "map:empty" else "map:entry"
    | none => "map:missing"
  else
    let gs := i.glyphSet
    match unicodeOf gs g with
    | some v => if v > 0xFFFF then "auto:u" else "auto:uni"
    | none =>
      if g.contains '.' && inGs gs (beforeLast '.' g) then "auto:suffix"
      else if decide ((ligaParts g).length > 1) && (ligaParts g).all (inGs gs) then
        if ((ligaParts g).map (unicodeOf gs)).all bmpNonzero then "auto:ligaUni" else "auto:ligaJoin"
      else "auto:keep"

def branchTags (i : Input) (out : List GName) : List String :=
  let cov := i.order.filter (renames i)
  let t1 := cov.map (ruleOf i)
  let t2 := cov.filterMap (fun g =>
    if (clean (specProd i g)).length > 63 then some "long63:fallback" else none)
  let t3 := cov.filterMap (fun g => if clean (specProd i g) != specProd i g then some "illegal:stripped" else none)
  let t4 := cov.filterMap (fun g => if (specCand i g).isEmpty then some "cand:empty" else none)
  let t5 := ((covered i out).filterMap (fun p => if p.2 != specCand i p.1 then some "unique:suffixed" else none))
  let t6 := if i.order.all (inGs i.glyphSet) then ["gs:covers"] else ["gs:partial"]
  (t1 ++ t2 ++ t3 ++ t4 ++ t5 ++ t6).eraseDups

/-- op "unique": `_unique_name(name, seen)`; in = {name, seen:[[k,n]..]}; obs = {name, seen} -/
def unique (req : Json) : R Reply := do
  let i ← field req "in"
  let name ← asName (← field i "name")
  let seen ← asList (asPair asName asNat) (← field i "seen")
  let obs ← field req "obs"
  let oname ← asName (← field obs "name")
  let oseen ← asList (asPair asName asNat) (← field obs "seen")
  let r := uniqueName name seen
  let model := Json.mkObj [("name", nameJ r.1), ("seen", listJ (pairJ nameJ natJ) r.2)]
  let holds := okUnique (keys seen) name oname && (keys oseen).contains oname &&
    (keys seen).all (fun k => (keys oseen).contains k) &&
    (keys oseen).all (fun k => k == oname || (keys seen).contains k)
  return { model, holds }

/-- op "names": `_build_production_names` + `rename_map.get(n, n)` over the order;
    in = {order, glyphSet, ps}; obs = final names -/
def names (req : Json) : R Reply := do
  let i ← asInput (← field req "in")
  let obs ← asList asName (← field req "obs")
  let m := finalOrder i
  let renamed := holdsRenamed i obs
  let distinct := holdsDistinct obs
  -- diagnostic for `classify_failure` only: the per-glyph predicate with NO name reserved for unrenamed glyphs
  let renamedNoReserve := holdsRenamedFrom [] i obs
  let model := Json.mkObj [("order", namesJ m), ("branches", strsJ (branchTags i obs)),
    ("checks", Json.mkObj [("renamed", renamed), ("distinct", distinct), ("covers", covers i),
      ("renamedNoReserve", renamedNoReserve)])]
  return { model, holds := renamed && distinct }

/-- op "process": one `process_glyph_names` call inside a real compile;
    in = {order, glyphSet, ps, switches, before};
    obs = {err: null|kind, order | null (names dropped), postFormat, extraNames|null, diff:[tags],
           saveErr: null|kind, saved: [names]|null} -/
def process (req : Json) : R Reply := do
  let ij ← field req "in"
  let i ← asInput ij
  let s ← asSwitches (← field ij "switches")
  let before ← asNat (← field ij "before")
  let obs ← field req "obs"
  let oerr ← asOpt asStr (← field obs "err")
  let decTag := s!"decide:rename={specRename s},post={specPostFormat s before}"
  match processGlyphNames s i before with
  | .error _ =>
    let model := Json.mkObj [("err", "UnicodeEncodeError"), ("branches", strsJ [decTag, "rejected:non-latin1"]),
      ("checks", Json.mkObj [("rejected", oerr.isSome)])]
    match oerr with
    | some _ => return { model, holds := holdsProcess s i before (.error .unicodeEncode) }
    | none => pure ()
    -- the implementation produced a font where the model expects a rejection: judge the font
    let oorder ← asOpt (asList asName) (← field obs "order")
    let ofmt ← asNat (← field obs "postFormat")
    let oextra ← asOpt (asList asName) (← field obs "extraNames")
    let o : Output := { order := oorder.getD i.order, postFormat := ofmt, extraNames := oextra }
    return { model, holds := holdsOutput s i before o }
  | .ok m =>
    -- a format-3 'post' table without CFF carries no names: the in-memory names after the reload are
    -- made up by fontTools and are not part of the font
    let dropped := m.postFormat == 30 && !s.cff1
    let savable := dropped || serialisable s.cff1 m.order
    let mkModel (checks : Json) (branches : List String) : Json :=
      Json.mkObj [("err", Json.null), ("order", if dropped then Json.null else namesJ m.order),
        ("postFormat", natJ m.postFormat), ("extraNames", optJ namesJ m.extraNames), ("savable", savable),
        ("branches", strsJ (branches ++ [decTag, s!"savable:{savable}"])), ("checks", checks)]
    match oerr with
    | some _ =>
      -- an exception on an input the code should accept: no font, the property fails
      return { model := mkModel (Json.mkObj [("noerror", false)]) [], holds := holdsProcess s i before (.error .unicodeEncode) }
    | none =>
      let oorder ← asOpt (asList asName) (← field obs "order")
      let ofmt ← asNat (← field obs "postFormat")
      let oextra ← asOpt (asList asName) (← field obs "extraNames")
      let diff ← asList asStr (← field obs "diff")
      let saved ← asOpt (asList asName) (← field obs "saved")
      let saveErr ← asOpt asStr (← field obs "saveErr")
      let odropped := ofmt == 30 && !s.cff1
      let o : Output := { order := if odropped then i.order else oorder.getD [], postFormat := ofmt, extraNames := oextra }
      let renamed := if specRename s then holdsRenamed i o.order else o.order == i.order
      let renamedNoReserve := if specRename s then holdsRenamedFrom [] i o.order else o.order == i.order
      let distinct := !specRename s || holdsDistinct o.order
      let fmtOk := ofmt == specPostFormat s before
      let extraOk := holdsExtra o.order ofmt oextra
      let tablesOk := holdsTables diff
      -- the names read back from the binary are the names of the font
      let savedOk := match saved with | some l => odropped || l == o.order | none => true
      -- a font whose names fontTools can write must be writable
      let writeOk := saveErr.isNone || !(odropped || serialisable s.cff1 o.order)
      let present := odropped || oorder.isSome
      let holds := holdsProcess s i before (.ok o) && tablesOk && savedOk && writeOk && present
      let checks := Json.mkObj [("noerror", true), ("renamed", renamed), ("distinct", distinct), ("covers", covers i),
        ("renamedNoReserve", renamedNoReserve), ("format", fmtOk), ("extra", extraOk), ("tables", tablesOk), ("saved", savedOk), ("write", writeOk),
        ("present", present)]
      return { model := mkModel checks (if specRename s then branchTags i o.order else []), holds }

def handle (op : String) (req : Json) : R Reply :=
  match op with
  | "unique" => unique req
  | "names" => names req
  | "process" => process req
  | _ => throw s!"C11: unknown op {op}"

end Ufo2ft.Drv.C11
