import Ufo2ftModel.Drv.Util
import Ufo2ftModel.Spec.C04
namespace Ufo2ft.Drv.C04
open Lean Ufo2ft.Drv Ufo2ft.C04

def boxJ (b : Box) : Json := Json.arr #[intJ b.xMin, intJ b.yMin, intJ b.xMax, intJ b.yMax]
def asBox (j : Json) : R Box := do
  match ← asList asInt j with
  | [a, b, c, d] => return ⟨a, b, c, d⟩
  | _ => throw "box"
def asRaw (j : Json) : R RawBox := do
  match ← asList asRat j with
  | [a, b, c, d] => return ⟨a, b, c, d⟩
  | _ => throw "rawbox"

def headerJ (h : Header) : Json := Json.mkObj [("advanceMax", intJ h.advanceMax), ("minFirst", intJ h.minFirst),
  ("minSecond", intJ h.minSecond), ("maxExtent", intJ h.maxExtent), ("numLong", natJ h.numLong)]
def asHeader (j : Json) : R Header := do
  return { advanceMax := ← asInt (← field j "advanceMax"), minFirst := ← asInt (← field j "minFirst"),
           minSecond := ← asInt (← field j "minSecond"), maxExtent := ← asInt (← field j "maxExtent"),
           numLong := ← asNat (← field j "numLong") }
def mtxJ (l : List (Int × Int)) : Json := listJ (pairJ intJ intJ) l
def vorgJ (v : Vorg) : Json := Json.mkObj [("default", intJ v.default), ("records", listJ (pairJ Json.str intJ) v.records)]

def cffJ (c : CffW) : Json := Json.mkObj [("d", optJ intJ c.priv.defaultWidthX), ("n", optJ intJ c.priv.nominalWidthX),
  ("cs", listJ (optJ intJ) c.cs)]
def asCff (j : Json) : R CffW := do
  return { priv := { defaultWidthX := ← asOpt asInt (← field j "d"), nominalWidthX := ← asOpt asInt (← field j "n") },
           cs := ← asList (asOpt asInt) (← field j "cs") }

/-- op "font" -/
def font (req : Json) : R Reply := do
  let i ← field req "in"
  let tol ← asRat (← field i "tol")
  let typoAsc ← asInt (← field i "typoAsc")
  let vertical ← asBool (← field i "vertical")
  let isOtf ← asBool (← field i "otf")
  let reloaded ← asBool (← field i "reloaded")
  let cps ← asList asInt (← field i "cps")
  let gj ← asArr (← field i "glyphs")
  let gs ← gj.mapM (fun g => do
    let raw ← asOpt asRaw (← field g "raw")
    return ({ name := ← asStr (← field g "name"), width := ← asRat (← field g "width"),
              height := ← asRat (← field g "height"), vorg := ← asOpt asRat (← field g "vorg"),
              box := raw.bind (roundBox tol) } : G))
  let obs ← field req "obs"
  let oerr ← asOpt asStr (← field obs "err")
  let order := gs.map (·.name)
  match hmtx gs, (if vertical then vmtx typoAsc gs else .ok []) with
  | .error _, _ | _, .error _ =>
    return { model := Json.mkObj [("err", "ValueError")], holds := oerr == some "ValueError" }
  | .ok hm, .ok vm =>
    let hh := header hm (hSpans gs)
    let vh := header vm (vSpans gs)
    let fb := fontBox gs
    let cr := if reloaded then charRangeSaved cps else charRange cps
    let so ← asList asStr (← field i "setOrder")
    let co := so.filterMap (fun n => gs.find? (fun g => g.name == n))
    let vg := vorgTable typoAsc co gs
    -- CFF widths: `dn` = the pair of getDefaultAndNominalWidths (null for TrueType)
    let dn ← asOpt (asPair asInt asInt) (← field i "dn")
    let model := Json.mkObj [
      ("err", Json.null), ("boxes", listJ (optJ boxJ) (gs.map (·.box))),
      ("hmtx", mtxJ hm), ("hhea", headerJ hh),
      ("vmtx", if vertical then mtxJ vm else Json.null), ("vhea", if vertical then headerJ vh else Json.null),
      ("bbox", boxJ fb), ("charRange", pairJ intJ intJ cr), ("extraNames", strsJ (extraNames order)),
      ("vorg", if vertical && isOtf then vorgJ vg else Json.null), ("numGlyphs", natJ gs.length),
      ("cff", match dn with | some (d, n) => cffJ (cffWidths d n gs) | none => Json.null)]
    match oerr with
    | some _ => return { model, holds := false }
    | none =>
      let ohm ← asList (asPair asInt asInt) (← field obs "hmtx")
      let ohh ← asHeader (← field obs "hhea")
      let obb ← asBox (← field obs "bbox")
      let ocr ← asPair asInt asInt (← field obs "charRange")
      let oex ← asOpt (asList asStr) (← field obs "extraNames")
      let ong ← asNat (← field obs "numGlyphs")
      let rt ← asBool (← field obs "roundtrip")
      let mut ok := holdsHmtx gs ohm && holdsHeader ohm (hSpans gs) ohh && holdsFontBox gs obb &&
        (!reloaded || holdsCharRange cps ocr) && ong == gs.length && rt &&
        (match oex with | none => true | some ex => ex == order.filter (fun g => !standardGlyphOrder.contains g)) &&
        decide (decodeAdvances ohh.numLong ((ohm.map (·.1)).take ohh.numLong) gs.length = ohm.map (·.1))
      let ocff ← asOpt asCff (← field obs "cff")
      match dn, ocff with
      | some _, some c => ok := ok && holdsCffWidths gs c && holdsCffVsHmtx ohm c
      | none, none => pure ()
      | _, _ => ok := false
      if vertical then
        let ovm ← asList (asPair asInt asInt) (← field obs "vmtx")
        let ovh ← asHeader (← field obs "vhea")
        ok := ok && holdsVmtx typoAsc gs ovm && holdsHeader ovm (vSpans gs) ovh
        if isOtf then
          let ov ← field obs "vorg"
          let od ← asInt (← field ov "default")
          let orc ← asList (asPair asStr asInt) (← field ov "records")
          ok := ok && holdsVorg typoAsc gs ⟨od, orc⟩
      return { model, holds := ok }

def handle (op : String) (req : Json) : R Reply :=
  match op with
  | "font" => font req
  | _ => throw s!"C04: unknown op {op}"

end Ufo2ft.Drv.C04
