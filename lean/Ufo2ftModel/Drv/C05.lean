import Ufo2ftModel.Drv.Util
import Ufo2ftModel.Spec.C05
import Ufo2ftModel.Spec.C05Apply
namespace Ufo2ft.Drv.C05
open Lean Ufo2ft Ufo2ft.Drv Ufo2ft.C05

def ruleJ (r : Rule) : Json := Json.arr #[strsJ r.side1, strsJ r.side2, Json.bool r.firstIsClass, Json.bool r.secondIsClass,
  Json.bool r.enumerated, ratJ r.value, Json.bool r.rtl]
def lookupJ (l : Lookup) : Json := Json.arr #[Json.str l.name, Json.bool l.ignoreMarks, listJ ruleJ l.rules]
def regJ (r : Reg) : Json := Json.arr #[Json.str r.script, strsJ r.languages, strsJ r.lookups]

def asSL (j : Json) : R (List (String × List String)) := asList (asPair asStr (asList asStr)) j
def asSS (j : Json) : R (List (String × String)) := asList (asPair asStr asStr) j

structure KernIn where
  glyphs : List String
  groups : List (String × List String)
  kerning : List (String × String × Q)
  q : Q
  ignoreMarks : Bool
  marks : Option (List String)
  c : Ctx
  rc : RegCtx
  todo : List String

def parseIn (i : Json) : R KernIn := do
  let glyphs ← asList asStr (← field i "glyphs")
  let groups ← asSL (← field i "groups")
  let kerningJ ← asArr (← field i "kerning")
  let kerning ← kerningJ.mapM (fun j => do
    match ← asArr j with
    | [a, b, v] => pure ((← asStr a, ← asStr b, ← asRat v) : String × String × Q)
    | _ => throw "kerning entry")
  let q ← asRat (← field i "q")
  let ignoreMarks ← asBool (← field i "ignoreMarks")
  let marks ← asOpt (asList asStr) (← field i "marks")
  let bidi ← field i "bidi"
  let c : Ctx := { glyphScripts := ← asSL (← field i "glyphScripts"), scriptDir := ← asSS (← field i "scriptDir"),
                   bidiR := ← asList asStr (← field bidi "R"), bidiL := ← asList asStr (← field bidi "L"),
                   spacing := ← asBool (← field i "spacing") }
  let rc : RegCtx := { dist := ← asList asStr (← field i "distScripts"), otTags := ← asSL (← field i "otTags"),
                       langs := ← asSL (← field i "langs") }
  let todo ← asList asStr (← field i "todo")
  return { glyphs, groups, kerning, q, ignoreMarks, marks, c, rc, todo }

def KernIn.program (k : KernIn) : Program :=
  C05.program k.c k.rc k.glyphs k.groups k.kerning k.q k.marks k.ignoreMarks (k.todo.contains "kern") (k.todo.contains "dist")

/-- op "kern" -/
def kern (req : Json) : R Reply := do
  let i ← field req "in"
  let k ← parseIn i
  let glyphs := k.glyphs
  let groups := k.groups
  let kerning := k.kerning
  let q := k.q
  let p := k.program
  let model := Json.mkObj [("lookups", listJ lookupJ p.lookups), ("kern", listJ regJ p.kern), ("dist", listJ regJ p.dist)]
  -- holds on the observed GPOS
  let ind ← field i "indep"
  let indep : Indep := { scripts := ← asSL (← field ind "scripts"), bidi := ← asSS (← field ind "bidi"), dir := ← asSS (← field ind "dir") }
  let obs ← field req "obs"
  let tagScript ← asSS (← field i "tagScript")
  let appliedJ ← asArr (← field obs "applied")
  let mut bad : List Json := []
  if validGroups groups then
    for a in appliedJ do
      let (tag, entries) ← asPair asStr (asList (fun j => do
        match ← asArr j with
        | [g1, g2, adv, pla] => pure (((← asStr g1, ← asStr g2), (← asRat adv, ← asRat pla)) : (String × String) × (Q × Q))
        | _ => throw "applied entry")) a
      for (t, s) in tagScript do
        if t == tag then
          for (g1, g2) in wrongPairs indep groups kerning q glyphs s entries do
            bad := bad ++ [Json.arr #[Json.str tag, Json.str s, Json.str g1, Json.str g2]]
  return { model, holds := bad.isEmpty, info := Json.arr bad.toArray }

abbrev Applied := List (String × List ((String × String) × (Q × Q)))

def asApplied (j : Json) : R Applied :=
  asList (asPair asStr (asList (fun j => do
    match ← asArr j with
    | [g1, g2, adv, pla] => pure (((← asStr g1, ← asStr g2), (← asRat adv, ← asRat pla)) : (String × String) × (Q × Q))
    | _ => throw "applied entry"))) j

/-- the glyph pairs (per script tag) to which the two tables apply different adjustments (a pair absent from a table gets 0 0) -/
def appliedDiff (a b : Applied) : List (String × String × String) :=
  let tags := (a.map (·.1) ++ b.map (·.1)).eraseDups
  tags.flatMap (fun t =>
    let ea := (alookup t a).getD []
    let eb := (alookup t b).getD []
    let keys := (ea.map (·.1) ++ eb.map (·.1)).eraseDups
    (keys.filter (fun k => (alookup k ea).getD (0, 0) != (alookup k eb).getD (0, 0))).map (fun k => (t, k.1, k.2)))

/-- op "agree2": both shipped kern writers compiled the same single-direction font; holds = the applied tables are equal -/
def agree2 (req : Json) : R Reply := do
  let obs ← field req "obs"
  let a1 ← asApplied (← field obs "applied1")
  let a2 ← asApplied (← field obs "applied2")
  let err ← asOpt asStr (← field obs "err")
  let bad := appliedDiff a1 a2
  let model := Json.mkObj [("entries", natJ (a1.map (·.2.length)).sum)]
  return { model, holds := err.isNone && bad.isEmpty,
           info := Json.arr (bad.map (fun (t, g1, g2) => Json.arr #[Json.str t, Json.str g1, Json.str g2])).toArray }

/-- "tag" (default language) or "tag/lang" -/
def splitKey (k : String) : String × String :=
  match k.splitOn "/" with
  | [t, l] => (t, l)
  | _ => (k, "dflt")

/-- op "apply": the adjustment table `applyKernLang` gives on the MODEL's program, for every (script tag, language) asked for
    and every ordered pair of the listed glyphs (zero entries left out) — compared by the harness with what the independent GPOS
    interpreter reads from the LangSys records of the COMPILED font.  `otherTags` / `otherLangSys`: what other (hand-written)
    features put into the ScriptList without generated kerning. -/
def apply (req : Json) : R Reply := do
  let i ← field req "in"
  let k ← parseIn i
  let p := k.program
  let keys ← asList asStr (← field i "applyTags")
  let names ← asList asStr (← field i "applyGlyphs")
  let other ← match i.getObjVal? "otherTags" with
    | .ok j => asList asStr j
    | .error _ => pure []
  let otherLS ← match i.getObjVal? "otherLangSys" with
    | .ok j => asList (asPair asStr asStr) j
    | .error _ => pure []
  let d : Declared := { tags := other, langSys := otherLS }
  let table := keys.map (fun key =>
    let (t, l) := splitKey key
    Json.arr #[Json.str key, Json.arr (names.flatMap (fun g1 => names.filterMap (fun g2 =>
      let a := applyKernLang d p t l g1 g2
      if a.1 == 0 && a.2 == 0 then none else some (Json.arr #[Json.str g1, Json.str g2, ratJ a.1, ratJ a.2])))).toArray])
  -- the hypotheses of the end-to-end theorems, evaluated for every (script, tag, g1, g2) and every declared language: how many
  -- triples they cover, and (theorems, so this list is always empty) those on which the applied adjustment is not the rounded
  -- UFO value
  let scripts := (k.c.glyphScripts.flatMap (·.2)).eraseDups
  let mut met : Nat := 0
  let mut metLang : Nat := 0
  let mut bad : List Json := []
  for s in scripts do
    for tag in (alookup s k.rc.otTags).getD [] do
      for g1 in names do
        for g2 in names do
          if e2eHyp k.c k.rc k.glyphs k.groups k.kerning k.q k.marks k.ignoreMarks (k.todo.contains "kern") (k.todo.contains "dist") s tag g1 g2 then
            met := met + 1
            let expected := e2eExpected k.c k.groups k.kerning k.q s g1 g2
            if applyKern p tag g1 g2 != expected then
              bad := bad ++ [Json.arr #[Json.str s, Json.str tag, Json.str g1, Json.str g2]]
            for lang in langsOf k.rc tag do
              if langHyp d k.c k.rc s tag lang g1 g2 then
                metLang := metLang + 1
                if applyKernLang d p tag lang g1 g2 != expected then
                  bad := bad ++ [Json.arr #[Json.str s, Json.str (tag ++ "/" ++ lang), Json.str g1, Json.str g2]]
  return { model := Json.arr table.toArray, holds := true, hyp := Json.bool (met > 0),
           info := Json.mkObj [("e2e_met", natJ met), ("e2e_lang_met", natJ metLang), ("e2e_bad", Json.arr bad.toArray)] }

def handle (op : String) (req : Json) : R Reply :=
  match op with
  | "kern" => kern req
  | "agree2" => agree2 req
  | "apply" => apply req
  | _ => throw s!"C05: unknown op {op}"

end Ufo2ft.Drv.C05
