import Ufo2ftModel.Drv.GeomJ
import Ufo2ftModel.Spec.C09
import Ufo2ftModel.Spec.C09Hyp
import Ufo2ftModel.Spec.C09Overflow
namespace Ufo2ft.Drv.C09
open Lean Ufo2ft Ufo2ft.Drv Ufo2ft.C09

def asMasters (j : Json) : R Masters := asList asGlyphSet j
def mastersJ (ms : Masters) : Json := listJ glyphSetJ ms

def asCustom (j : Json) : R Custom := do
  return { pre := ← asBool (← field j "pre"), incl := ← asOpt (asList asStr) (← field j "include") }

def asCGlyph (j : Json) : R CGlyph := do
  return { name := ← asStr (← field j "name"), sentinel := ← asBool (← field j "sentinel"),
           contours := ← asList (asList asStr) (← field j "contours"), comps := ← asList asStr (← field j "comps") }

def asCfg (i : Json) : R Cfg := do
  let ds ← asBool (← field i "ds")
  let inst : Option Inst ← (if ds then do
      pure (some { locs := ← asList asRat (← field i "locs"), defaultIdx := ← asNat (← field i "defaultIdx") })
    else pure none)
  return { ttf := (← asStr (← field i "path")) == "ttf", inst,
           sparse := ← asList asBool (← field i "sparse"),
           skip := ← asList asStr (← field i "skip"),
           flatten := ← asBool (← field i "flatten"),
           convertCubics := ← asBool (← field i "convertCubics"),
           reverse := ← asBool (← field i "reverse"),
           custom := ← asList (asOpt asCustom) (← field i "custom"),
           cu2qu := ← asOpt asMasters (← field i "cu2qu"),
           cu2quModified := ← asBool (← field i "cu2quModified"),
           notdefFallback := ← asBool (← field i "notdefFallback"),
           stubs := ← asList (asOpt asGlyph) (← field i "stubs"),
           orders := ← asList (asList asStr) (← field i "orders") }

/-- names of the glyphs whose shapes differ between masters -/
def badNames (ms : Masters) : List String := (allNames ms).filter (fun n => !allEq (shapesOf ms n))

def badCompiled (fonts : List (List CGlyph)) : List String :=
  (dedupFirst (fonts.flatMap (fun f => f.map (fun g => g.name)))).filter (fun n => !allEq (cshapesOf fonts n))

/-- op "family": in = configuration + source glyph sets; obs = {err}|{pre, final, compiled} -/
def family (req : Json) : R Reply := do
  let i ← field req "in"
  let cfg ← asCfg i
  let src ← asMasters (← field i "masters")
  let obs ← field req "obs"
  let oerr ← asOpt asStr (← field obs "err")
  match compileFamily cfg src with
  | .error e => return { model := Json.mkObj [("err", gerrJ e)], holds := true }
  | .ok o =>
    let model := Json.mkObj [("err", Json.null), ("pre", optJ mastersJ o.beforeCu2qu), ("final", mastersJ o.final)]
    -- the decidable hypotheses of the pipeline-level theorems (Props/C09Pipe.lean), evaluated on this family
    let hs : List (String × Bool) := [
      ("wfSrc", wfSrc src), ("heightsBelow", heightsBelow src), ("locsOk", locsOk cfg),
      ("fullMastersFull", fullMastersFull cfg src), ("notdefOk", notdefOk cfg src), ("notdefJoint", notdefJoint cfg src),
      ("cu2quOk", cu2quOk cfg o.beforeCu2qu), ("uniformCustom", uniformCustom cfg), ("ordersCover", ordersCover cfg src),
      ("noSentinels", noSentinels src), ("alike", alike src), ("signsEqualNonzero", signsEqualNonzero src),
      ("signStable", signStable src), ("instPlain", instPlain cfg), ("cu2quAlike", cu2quAlike cfg o.beforeCu2qu),
      ("orderTopo", orderTopo cfg src)]
    let get := fun (k : String) => (hs.find? (fun e => e.1 == k)).map (·.2) |>.getD false
    let sparseApplies := get "wfSrc" && get "heightsBelow" && get "locsOk" && get "fullMastersFull" && get "notdefOk" && get "cu2quOk"
    let twoApplies := cfg.ttf && cfg.inst.isNone && get "uniformCustom" && get "wfSrc" && get "noSentinels" &&
      get "ordersCover" && get "cu2quOk" && get "notdefJoint"
    let instApplies := cfg.inst.isSome && get "instPlain" && get "wfSrc" && get "alike" && get "signStable" &&
      get "orderTopo" && get "cu2quAlike"
    let hypInfo := Json.mkObj ((hs.map (fun e => (e.1, Json.bool e.2))) ++
      [("C09_sparse", Json.bool sparseApplies), ("C09_twoByTwo", Json.bool twoApplies),
       ("C09_pipeline_inst_partial", Json.bool instApplies)])
    match oerr with
    | some _ => return { model, holds := true, info := Json.mkObj [("hyp", hypInfo)], hyp := Json.bool sparseApplies }
    | none =>
      let final ← asMasters (← field obs "final")
      let compiled ← asList (asList asCGlyph) (← field obs "compiled")
      let pre ← asOpt asMasters (← field obs "pre")
      -- the measured cu2qu contract: compatible in => compatible out
      let cu2quOk := match pre, cfg.cu2qu with
        | some p, some q => !compatible p || compatible q
        | _, _ => true
      -- custom filters that are not the same in every UFO are applied one by one: no promise is made then
      let uniform := cfg.custom.all Option.isSome || cfg.custom.all Option.isNone
      let clauses : List (String × Bool) := if !uniform then [("sparse", holdsSparse cfg.sparse (cfg.inst.map (·.defaultIdx)) cfg.skip src final)] else [
        ("compat", holdsCompat src final), ("compiled", holdsCompiled src compiled),
        ("joint", holdsJoint src final), ("sparse", holdsSparse cfg.sparse (cfg.inst.map (·.defaultIdx)) cfg.skip src final),
        ("twoByTwo", !cfg.ttf || holdsTwoByTwo src final),
        -- the glyph pen's compile-time decomposition (a 2x2 entry beyond F2Dot14) is taken in all masters or in none
        ("penJoint", !cfg.ttf || holdsPenJoint src final)]
      let failed := (clauses.filter (fun c => !c.2)).map (·.1)
      let info := Json.mkObj [("failed", strsJ failed), ("srcCompatible", Json.bool (compatible src)),
        ("srcCompCompatible", Json.bool (compCompatible src)),
        ("cu2quContract", Json.bool cu2quOk), ("bad", strsJ (badNames final)),
        ("badCompiled", strsJ (badCompiled compiled)), ("hyp", hypInfo)]
      return { model, holds := failed.isEmpty, info, hyp := Json.bool sparseApplies }

/-- op "needs": in = {masters}; obs = sorted names `check_for_nonmatching_components` leaves in needs_decomposition -/
def needs (req : Json) : R Reply := do
  let i ← field req "in"
  let src ← asMasters (← field i "masters")
  let obs ← asList asStr (← field req "obs")
  let model := sortStr (needsDecomposition src)
  -- jointness of the decision: it is a set of NAMES containing every glyph that is mixed in some master
  let holds := (mixedNames src).all (fun n => obs.contains n)
  return { model := strsJ model, holds }

def handle (op : String) (req : Json) : R Reply :=
  match op with
  | "family" => family req
  | "needs" => needs req
  | _ => throw s!"C09: unknown op {op}"

end Ufo2ft.Drv.C09
