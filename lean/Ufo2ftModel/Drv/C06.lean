import Ufo2ftModel.Drv.Util
import Ufo2ftModel.Spec.C06
namespace Ufo2ft.Drv.C06
open Lean Ufo2ft.Drv Ufo2ft.C06

def errS : Err → String
  | .valueError => "ValueError" | .assertionError => "AssertionError"
  | .keyErrorObjectLibs => "KeyError" | .keyErrorMarkClass => "KeyError"

def errDetail : Err → String
  | .valueError => "ValueError" | .assertionError => "AssertionError"
  | .keyErrorObjectLibs => "KeyError:objectLibs" | .keyErrorMarkClass => "KeyError:markClass"

/-- rejecting a font because of a malformed anchor name or context string is what the writer documents; a KeyError on a
    well-formed font is a crash -/
def errAcceptable : Err → Bool
  | .valueError => true | .assertionError => true | _ => false

def asAnchor (j : Json) : R SrcAnchor := do
  match ← asArr j with
  | [n, x, y] => return { name := ← asStr n, x := ← asRat x, y := ← asRat y }
  | [n, x, y, l, d] => return { name := ← asStr n, x := ← asRat x, y := ← asRat y, lib := ← asOpt asStr l, idNoLib := ← asBool d }
  | _ => throw "anchor"

def asGlyph (j : Json) : R SrcGlyph := do
  let (n, as) ← asPair asStr (asList asAnchor) j
  return ⟨n, as⟩

def asGdef (j : Json) : R Gdef := do
  return ⟨← asList asStr (← field j "base"), ← asList asStr (← field j "lig"), ← asList asStr (← field j "mark")⟩

def asRec (j : Json) : R (String × Int × Int) := do
  match ← asArr j with
  | [g, x, y] => return (← asStr g, ← asInt x, ← asInt y)
  | _ => throw "mark record"

def asInput (i : Json) : R Input := do
  let pre ← match i.getObjVal? "pre" with
    | .ok j => asList (asPair asStr (asList asRec)) j
    | .error _ => pure []
  return { pre := pre, glyphs := ← asList asGlyph (← field i "glyphs"), gdef := ← asOpt asGdef (← field i "gdef"),
           quant := ← asRat (← field i "quant"), group := ← asBool (← field i "group"),
           abvm := ← asList asStr (← field i "abvm"), notAbvm := ← asList asStr (← field i "notAbvm") }

def entryJ (e : Query × (Int × Int)) : Json :=
  Json.arr #[Json.str e.1.1, Json.str e.1.2.1, optJ natJ e.1.2.2, intJ e.2.1, intJ e.2.2]

def asEntry (j : Json) : R (Query × (Int × Int)) := do
  match ← asArr j with
  | [b, m, c, dx, dy] => return ((← asStr b, ← asStr m, ← asOpt asNat c), (← asInt dx, ← asInt dy))
  | _ => throw "table entry"

def FEATS : List String := ["abvm", "blwm", "mark", "mkmk"]

/-- only glyphs that are covered by some lookup / are members of some class can get an attachment
    (`attachLookup` needs an entry for `b` and a class member `m`): evaluating `attach` on those is
    evaluating it on the whole universe -/
def queries (i : Input) (P : Program) (K : Nat) : List Query :=
  let bs := (i.glyphs.map (·.name)).filter (fun g => P.lookups.any (fun L => L.entries.any (fun e => e.glyph == g)))
  let ms := (i.glyphs.map (·.name)).filter (fun g => P.classes.any (fun c => c.2.any (fun r => r.glyph == g)))
  bs.flatMap (fun b => ms.flatMap (fun m => (none :: (List.range K).map some).map (fun c => (b, m, c))))

def ligCounts (i : Input) (P : Program) : List (String × Nat) :=
  (i.glyphs.map (·.name)).filterMap (fun g =>
    let n := maxNat (P.lookups.flatMap (fun L => if L.kind == .liga then
      (L.entries.filter (fun e => e.glyph == g)).map (fun e => e.comps.length) else []))
    if n == 0 then none else some (g, n))

def ctxJ (i : Input) (P : Program) (K : Nat) (c : CtxFeature) : Json :=
  let gl := i.glyphs.map (·.name)
  let ms := gl.filter (fun g => P.classes.any (fun cl => cl.2.any (fun r => r.glyph == g)))
  Json.mkObj [
    ("ref", listJ (fun (L : Lookup) =>
      let bs := gl.filter (fun g => L.entries.any (fun e => e.glyph == g))
      let qs : List Query := bs.flatMap (fun b => ms.flatMap (fun m => (none :: (List.range K).map some).map (fun c => (b, m, c))))
      listJ entryJ (tableOf P [L] qs)) c.refs),
    ("disp", listJ (fun (d : String × List (String × String)) =>
      Json.arr #[Json.str d.1, listJ (fun (l : String × String) => Json.arr #[Json.str l.1, Json.str l.2]) d.2]) c.disp)]

def font (req : Json) : R Reply := do
  let ij ← field req "in"
  let i ← asInput ij
  let K ← asNat (← field ij "K")
  let obs ← field req "obs"
  let oerr ← asOpt asStr (← field obs "err")
  match modelX i with
  | .error e =>
    -- the writer rejects the font: a malformed anchor name / context string must be rejected by the implementation too;
    -- a KeyError on a well-formed font is a failure of the property (nothing gets attached at all)
    return { model := Json.mkObj [("err", Json.str (errS e)), ("errDetail", Json.str (errDetail e)), ("wf", Json.bool (wf i))],
             holds := errAcceptable e && oerr == some (errS e) }
  | .ok X =>
    let P := X.plain
    let qs := queries i P K
    let tabs := FEATS.map (fun f => (f, tableOf P (P.lookups.filter (fun L => L.feature == f)) qs))
    let all := tableOf P P.lookups qs
    let model := Json.mkObj [("err", Json.null),
      ("tables", Json.mkObj ((tabs ++ [("all", all)]).map (fun t => (t.1, listJ entryJ t.2)))),
      ("ligCount", listJ (pairJ Json.str natJ) (ligCounts i P)),
      ("ctx", Json.mkObj [("mark", ctxJ i P K X.markCtx), ("mkmk", ctxJ i P K X.mkmkCtx)]),
      ("wf", Json.bool (wf i)), ("wf0", Json.bool (wf0 i)),
      ("eligible", natJ ((allQueries i K).filter (fun q => eligible i q.1 q.2.1 q.2.2)).length),
      ("ctxEligible", natJ (i.glyphs.flatMap (fun gb => gb.anchors.flatMap (fun sb => i.glyphs.flatMap (fun gm =>
        (none :: (List.range K).map some).filter (fun c => ctxEligible i gb gm c sb))))).length)]
    match oerr with
    | some _ => return { model, holds := false }
    | none =>
      let ot ← field obs "tables"
      let oall ← asList asEntry (← field ot "all")
      let mut ok := holdsOffset i oall && holdsSound i oall && holdsComplete i K oall
      for f in FEATS do
        let t ← asList asEntry (← field ot f)
        ok := ok && holdsOffset i t
      let oc ← field obs "ctx"
      for f in ["mark", "mkmk"] do
        let refs ← asList (asList asEntry) (← field (← field oc f) "ref")
        for t in refs do
          ok := ok && holdsCtxOffset i t
        let disp ← asList (asPair asStr (asList (asPair asStr asStr))) (← field (← field oc f) "disp")
        ok := ok && holdsCtxComplete i K f refs disp
      return { model, holds := ok }

def handle (op : String) (req : Json) : R Reply :=
  match op with
  | "font" => font req
  | _ => throw s!"C06: unknown op {op}"

end Ufo2ft.Drv.C06
