import Ufo2ftModel.Drv.C01
import Ufo2ftModel.Spec.C13
import Ufo2ftModel.Spec.C13Flags
import Ufo2ftModel.Model.C13Flags
import Ufo2ftModel.Spec.Good
namespace Ufo2ft.Drv.C13
open Lean Ufo2ft Ufo2ft.Drv Ufo2ft.C13

/-- op "filter": SkipExportGlyphsFilter on a glyph set -/
def filter (req : Json) : R Reply := do
  let i ← field req "in"
  let gs ← asGlyphSet (← field i "glyphs")
  let skip ← asList asStr (← field i "skip")
  let obs ← field req "obs"
  let oerr ← asOpt asStr (← field obs "err")
  match skipExport skip (fun _ => true) gs with
  | .error e => return { model := Json.mkObj [("err", gerrJ e)], holds := oerr.isSome }
  | .ok st =>
    let model := Json.mkObj [("err", Json.null), ("glyphs", glyphSetJ st.gs), ("modified", strsJ (sortStr st.modified))]
    match oerr with
    | some _ => return { model, holds := false }
    | none =>
      let after ← asGlyphSet (← field obs "glyphs")
      return { model, holds := holdsSkip skip gs after, info := strsJ (skipWrong skip gs after),
               hyp := Json.bool (wfCert gs) }

/-- op "compile": in = {tol, glyphs, skip, orderFull, advFull:[[name,adv]], cmapFull:[[u,name]]};
    obs = {err} | {order, glyphs:[[name, ops, adv]], cmap:[[u,name]]} -/
def compile (req : Json) : R Reply := do
  let i ← field req "in"
  let tol ← asRat (← field i "tol")
  let gs ← asGlyphSet (← field i "glyphs")
  let skip ← asList asStr (← field i "skip")
  let orderFull ← asList asStr (← field i "orderFull")
  let advFull ← asList (asPair asStr asInt) (← field i "advFull")
  let cmapFull ← asList (asPair asNat asStr) (← field i "cmapFull")
  let outlines ← asBool (← field i "outlines")
  let obs ← field req "obs"
  let oerr ← asOpt asStr (← field obs "err")
  match C01.preprocess skip gs with
  | .error e => return { model := Json.mkObj [("err", C01.errJ e)], holds := oerr.isSome }
  | .ok pre =>
    let keep := fun (n : String) => !skip.contains n
    let order := orderFull.filter keep
    let outs := if !outlines then [] else order.filterMap (fun n => match C01.cffOutline tol pre n with
      | .ok ops => some (n, ops) | .error _ => none)
    let model := Json.mkObj [("err", Json.null), ("order", strsJ order),
      ("glyphs", listJ (fun (o : String × List C01.Op) => Json.arr #[Json.str o.1, listJ C01.opJ o.2]) outs),
      ("adv", listJ (pairJ Json.str intJ) (advFull.filter (fun a => keep a.1))),
      ("cmap", listJ (pairJ natJ Json.str) (cmapFull.filter (fun c => keep c.2)))]
    match oerr with
    | some _ => return { model, holds := false }
    | none =>
      let oorder ← asList asStr (← field obs "order")
      let oadv ← asList (asPair asStr asInt) (← field obs "adv")
      let ocmap ← asList (asPair asNat asStr) (← field obs "cmap")
      let og ← asList (asPair asStr (asList C01.asOp)) (← field obs "glyphs")
      let bad := og.filterMap (fun (n, ops) => match gs.get? n with
        | some g => if C01.holdsOutline false tol gs g ops then none else some n
        | none => if n == ".notdef" then none else some n)
      let ok := holdsOrder skip orderFull oorder && bad.isEmpty &&
        oadv == advFull.filter (fun a => keep a.1) && ocmap == cmapFull.filter (fun c => keep c.2) &&
        (!outlines || oorder.all (fun n => n == ".notdef" || og.any (fun o => o.1 == n)))
      return { model, holds := ok, info := strsJ bad }

/-- op "resolve": which skip list is in effect -/
def resolve (req : Json) : R Reply := do
  let i ← field req "in"
  let arg ← asOpt (asList asStr) (← field i "arg")
  let libs ← asList (asList asStr) (← field i "libs")
  let ds ← asOpt (asList asStr) (← field i "dsLib")
  let obs ← asList asStr (← field req "obs")
  let eff := match ds with | some d => resolveSkipDS d libs | none => resolveSkip arg libs
  return { model := strsJ (sortStr eff.eraseDups), holds := sortStr obs.eraseDups == sortStr eff.eraseDups }

def asPt (j : Json) : R (Int × Int) := do
  match ← asArr j with
  | [x, y] => return (← asInt x, ← asInt y)
  | _ => throw "point"

def ptJ' (p : Int × Int) : Json := Json.arr #[intJ p.1, intJ p.2]
def drawingJ (d : List (List (Int × Int))) : Json := listJ (listJ ptJ') d

/-- op "vfskip": a variable font compiled with and without a skip list, instantiated at the same locations.
    in = {skip, locs, defaultIdx, masters, at};
    obs = {err} | {orderFull, orderSkip, samples:[[loc, name, advFull, advSkip, drawingFull, drawingSkip]]}.
    `holds`: the declarative predicate on the two observed fonts (with vs without the skip list).
    `model`: what the MODEL family shows at the locations `at` before and after the model's
    `SkipExportGlyphsIFilter` (`renderAt` of the sources / of `skipFamily`), compared by the harness with the two fonts. -/
def vfskip (req : Json) : R Reply := do
  let i ← field req "in"
  let skip ← asList asStr (← field i "skip")
  let obs ← field req "obs"
  let oerr ← asOpt asStr (← field obs "err")
  let (model, hyp) ← (do
    match i.getObjVal? "masters" with
    | .error _ => pure (Json.null, Json.null)
    | .ok mj =>
      let ms ← asList asGlyphSet mj
      let I : C09.Inst := { locs := ← asList asRat (← field i "locs"), defaultIdx := ← asNat (← field i "defaultIdx") }
      let ats ← asList asRat (← field i "at")
      -- are the hypotheses of `C13_vf_render_total` met? (`famCert_total`, `famCert_sound`, `inHull_sound`)
      let hyp := Json.bool (famCert I ms (depthCert (ms.getD I.defaultIdx [])) && ats.all (inHull I))
      match skipFamily skip I ms with
      | .error e => pure (Json.mkObj [("err", gerrJ e)], hyp)
      | .ok ms' =>
        pure (Json.mkObj [("err", Json.null), ("samples", listJ (fun (s : Q × String × Option Q × Option Q ×
            List (List (Int × Int)) × List (List (Int × Int))) =>
          Json.arr #[ratJ s.1, Json.str s.2.1, optJ ratJ s.2.2.1, optJ ratJ s.2.2.2.1, drawingJ s.2.2.2.2.1,
            drawingJ s.2.2.2.2.2]) (vfModel skip I ms ms' ats))], hyp) : R (Json × Json))
  match oerr with
  | some _ => return { model, holds := false, hyp }
  | none =>
    let orderFull ← asList asStr (← field obs "orderFull")
    let orderSkip ← asList asStr (← field obs "orderSkip")
    let samples ← asList (fun j => do
      match ← asArr j with
      | [loc, n, a, b, dF, dS] =>
        pure ((← asStr loc, ← asStr n, ← asInt a, ← asInt b, ← asList (asList asPt) dF, ← asList (asList asPt) dS) :
          String × String × Int × Int × List (List (Int × Int)) × List (List (Int × Int)))
      | _ => throw "sample") (← field obs "samples")
    let bad := vfWrong skip orderFull orderSkip samples
    return { model, holds := bad.isEmpty, info := strsJ bad, hyp }

/-- op "ifskip": interpolatable masters compiled from a designspace with SPARSE sources, with and without a skip list.
    in = {skip, locs, defaultIdx, masters};
    obs = {err} | {masters: [[name, orderFull, orderSkip, hmtxSkip, samples, cmapFull, cmapSkip]]}.
    `holds`: `ifWrong` on the observed masters (declarative).  `model`: the glyph names of every source after the model's
    `SkipExportGlyphsIFilter` (`skipFamily`), compared by the harness with the glyph orders of the compiled masters. -/
def ifskip (req : Json) : R Reply := do
  let i ← field req "in"
  let skip ← asList asStr (← field i "skip")
  let obs ← field req "obs"
  let oerr ← asOpt asStr (← field obs "err")
  let ms ← asList asGlyphSet (← field i "masters")
  let I : C09.Inst := { locs := ← asList asRat (← field i "locs"), defaultIdx := ← asNat (← field i "defaultIdx") }
  let model := match skipFamily skip I ms with
    | .error e => Json.mkObj [("err", gerrJ e)]
    | .ok ms' => Json.mkObj [("err", Json.null), ("names", listJ (fun (m : GlyphSet) => strsJ (sortStr m.names)) ms')]
  match oerr with
  | some _ => return { model, holds := false }
  | none =>
    let asCmap (j : Json) : R (List (Nat × String)) := asList (fun e => do
      match ← asArr e with
      | [u, n] => pure ((← asNat u, ← asStr n) : Nat × String)
      | _ => throw "cmap") j
    let masters ← asList (fun j => do
      match ← asArr j with
      | [nm, oF, oS, hS, smp, cF, cS] =>
        let samples ← asList (fun j => do
          match ← asArr j with
          | [loc, n, a, b, dF, dS] =>
            pure ((← asStr loc, ← asStr n, ← asInt a, ← asInt b, ← asList (asList asPt) dF, ← asList (asList asPt) dS) :
              String × String × Int × Int × List (List (Int × Int)) × List (List (Int × Int)))
          | _ => throw "sample") smp
        pure ((← asStr nm, ← asList asStr oF, ← asList asStr oS, ← asList asStr hS, samples, ← asCmap cF, ← asCmap cS) :
          String × List String × List String × List String ×
            List (String × String × Int × Int × List (List (Int × Int)) × List (List (Int × Int))) ×
            List (Nat × String) × List (Nat × String))
      | _ => throw "ifmaster") (← field obs "masters")
    let bad := ifWrong skip masters
    return { model, holds := bad.isEmpty, info := strsJ bad }

/-- a glyph of a compiled TrueType font: [name, adv, null | [[base, useMyMetrics, roundXY, x, y, plain]]] -/
def asTTGlyph (j : Json) : R (String × Int × Option (List (String × Bool × Bool))) := do
  match ← asArr j with
  | [n, a, cs] =>
    let comps ← asOpt (asList (fun c => do
      match ← asArr c with
      | [b, m, _, _, _, pl] => pure ((← asStr b, ← asBool m, ← asBool pl) : String × Bool × Bool)
      | _ => throw "ttcomp")) cs
    return (← asStr n, ← asInt a, comps)
  | _ => throw "ttglyph"

def toTTObs (g : String × Int × Option (List (String × Bool × Bool))) : TTObs :=
  { name := g.1, adv := g.2.1, comps := g.2.2.map (fun cs => cs.map (fun c => (c.1, c.2.1))) }

def asCLib (j : Json) : R CLib := do
  match ← asStr j with
  | "u" => pure .untouched
  | "t" => pure (.entry (some true))
  | "f" => pure (.entry (some false))
  | "n" => pure (.entry none)
  | _ => throw "clib"

/-- the model's USE_MY_METRICS flags (`setCompositeFlags`) for the composites of one compiled font that have hinting data:
    the components as compiled (base, plain), the `hmtx` advances of that font, the UFO's per-component lib entries -/
def modelFlags (ulib : List (String × List CLib)) (font : List (String × Int × Option (List (String × Bool × Bool)))) : Json :=
  let adv := fun (n : String) => (font.find? (fun g => g.1 == n)).map (·.2.1)
  listJ (fun (r : String × List Bool) => Json.arr #[Json.str r.1, listJ Json.bool r.2])
    (font.filterMap (fun g => match g.2.2, ulib.find? (fun u => u.1 == g.1) with
      | some cs, some u =>
        some (g.1, (setCompositeFlags adv g.2.1 u.2 (cs.map (fun c => (⟨c.1, c.2.2, false⟩ : TTComp)))).map (·.useMy))
      | _, _ => none))

/-- op "ttflags": a TrueType font compiled without and with a skip list from a source with per-component hinting data.
    in = {skip, ulib:[[glyph, ["u"|"t"|"f"|"n"]]], full:[glyph]}; obs = {err} | {glyphs:[glyph]}.
    `holds`: `holdsTT` on the two observed fonts (declarative).  `model`: the USE_MY_METRICS flags the model of
    `_set_composite_flags` / `autoUseMyMetrics` puts on the observed component lists of both fonts. -/
def ttflags (req : Json) : R Reply := do
  let i ← field req "in"
  let skip ← asList asStr (← field i "skip")
  let fullG ← asList asTTGlyph (← field i "full")
  let ulib ← asList (asPair asStr (asList asCLib)) (← field i "ulib")
  let obs ← field req "obs"
  match ← asOpt asStr (← field obs "err") with
  | some _ => return { model := Json.null, holds := false }
  | none =>
    let cutG ← asList asTTGlyph (← field obs "glyphs")
    let full := fullG.map toTTObs
    let cut := cutG.map toTTObs
    return { model := Json.mkObj [("full", modelFlags ulib fullG), ("cut", modelFlags ulib cutG)],
             holds := holdsTT skip full cut, info := strsJ (ttWrong full cut) }

def handle (op : String) (req : Json) : R Reply :=
  match op with
  | "vfskip" => vfskip req
  | "ttflags" => ttflags req
  | "filter" => filter req
  | "compile" => compile req
  | "resolve" => resolve req
  | "ifskip" => ifskip req
  | _ => throw s!"C13: unknown op {op}"

end Ufo2ft.Drv.C13
